(** C03 — extreme decisions.  A proposal that does not worsen D is accepted by EVERY uniform draw of [0, 1) — whatever the
    size of exp(-D) (the float evaluation overflows to +inf for D < -88.7 in single precision: still above every draw) —,
    a proposal with exp(-D) <= u is rejected, and in both cases the uniform draw is consumed. *)
From Coq Require Import Reals List Bool Lra.
From Leaspy Require Import Base.RAux Sampler.SamplerModel Sampler.SamplerProofs Sampler.SamplerTie.
From LeaspyGen Require Import GenC03.
Import ListNotations.
Local Open Scope R_scope.

Lemma exp_neg_ge_1 D : D <= 0 -> 1 <= exp (- D).
Proof.
  intros H. rewrite <- exp_0. destruct (Req_dec D 0) as [->|Hn].
  - rewrite Ropp_0. lra.
  - left. apply exp_increasing. lra.
Qed.

Lemma improvement_accepted u pa na pr nr tinv :
  (na - pa) + tinv * (nr - pr) <= 0 -> u < 1 ->
  gen_accept_pop u (gen_alpha_pop pa na pr nr tinv) /\ gen_accept_ind u (gen_alpha_ind pa na pr nr tinv) /\
  acceptb u (alpha pa na pr nr tinv) = true.
Proof.
  intros HD Hu.
  assert (H : u < alpha pa na pr nr tinv).
  { rewrite alpha_eq. pose proof (exp_neg_ge_1 _ HD). lra. }
  split; [|split].
  - rewrite tie_accept_pop, tie_alpha_pop. exact H.
  - rewrite tie_accept_ind, tie_alpha_ind. exact H.
  - apply acceptb_true_iff. exact H.
Qed.

Lemma hopeless_rejected u pa na pr nr tinv :
  0 < u -> - ln u <= (na - pa) + tinv * (nr - pr) ->
  ~ gen_accept_pop u (gen_alpha_pop pa na pr nr tinv) /\ ~ gen_accept_ind u (gen_alpha_ind pa na pr nr tinv) /\
  acceptb u (alpha pa na pr nr tinv) = false.
Proof.
  intros Hu HD.
  assert (H : alpha pa na pr nr tinv <= u).
  { rewrite alpha_eq. rewrite <- (exp_ln u Hu).
    destruct (Req_dec (- ((na - pa) + tinv * (nr - pr))) (ln u)) as [->|Hn]; [lra|].
    left. apply exp_increasing. lra. }
  split; [|split].
  - rewrite tie_accept_pop, tie_alpha_pop. lra.
  - rewrite tie_accept_ind, tie_alpha_ind. lra.
  - apply acceptb_false_iff. exact H.
Qed.

(** the step of one block: the uniform is consumed whatever D; when D <= 0 and the draw is below one the result is the proposal *)
Lemma block_step_extreme (attach regul : tens R -> R) tinv std idx x tp y tp' acc :
  block_step attach regul tinv std idx x tp = Some (y, tp', acc) ->
  exists sd x' u,
    put_noise Rplus Rmult x idx sd (normals tp) = Some (x', normals tp') /\
    uniforms tp = u :: uniforms tp' /\
    ((attach x' - attach x) + tinv * (regul x' - regul x) <= 0 -> u < 1 -> acc = true /\ y = x') /\
    (0 < u -> - ln u <= (attach x' - attach x) + tinv * (regul x' - regul x) -> acc = false /\ y = x).
Proof.
  intros H. destruct (block_step_sound _ _ _ _ _ _ _ _ _ _ H) as (sd & sub & x' & u & _ & Hu & Hp & _ & _ & _ & Hacc & Hy).
  exists sd, x', u. repeat split; auto.
  - apply Hacc. pose proof (exp_neg_ge_1 _ H0). lra.
  - rewrite Hy. replace acc with true; auto. symmetry. apply Hacc. pose proof (exp_neg_ge_1 _ H0). lra.
  - destruct acc; auto. exfalso.
    assert (Hlt : u < exp (- ((attach x' - attach x) + tinv * (regul x' - regul x)))) by (apply Hacc; reflexivity).
    rewrite <- (exp_ln u H0) in Hlt at 1. apply exp_lt_inv in Hlt. lra.
  - rewrite Hy. destruct acc; auto. exfalso.
    assert (Hlt : u < exp (- ((attach x' - attach x) + tinv * (regul x' - regul x)))) by (apply Hacc; reflexivity).
    rewrite <- (exp_ln u H0) in Hlt at 1. apply exp_lt_inv in Hlt. lra.
Qed.

(** non-vacuity: a 120-nat improvement at inverse temperature 1/2 with the largest single-precision draw; a 120-nat
    worsening with a small positive draw *)
Example ex_improvement : acceptb (1 - / 16777216) (alpha 200 100 50 10 (/ 2)) = true.
Proof. apply improvement_accepted; lra. Qed.

Example ex_hopeless : acceptb (/ 16) (alpha 100 200 10 50 (/ 2)) = false.
Proof.
  apply hopeless_rejected; [lra|].
  rewrite ln_Rinv by lra. rewrite Ropp_involutive.
  assert (H0 : 0 < ln 16) by (rewrite <- ln_1; apply ln_increasing; lra).
  assert (Hn : ln 16 <> 0) by lra.
  pose proof (exp_ineq1 (ln 16) Hn) as H. rewrite exp_ln in H by lra. lra.
Qed.

(** Round 3.  The "textbook" factored form  likelihood ratio x tempered prior ratio  IS the rule over R
    (exp a * exp b = exp (a + b)): a sampler that computes it takes the same decisions for real numbers.  It is NOT the
    same float computation: each factor leaves the single-precision range of exp beyond +-88.7 / -104 (double: 709.8 / -745)
    although the product is an ordinary number — that difference is invisible here and is the business of the directed
    decisions of the search (large opposite changes of attachment and regularity). *)
Lemma alpha_factored pa na pr nr tinv :
  exp (pa - na) * exp ((pr - nr) * tinv) = alpha pa na pr nr tinv.
Proof. unfold alpha, Dval. rewrite <- exp_plus. apply (f_equal exp). ring. Qed.

Lemma rule_factored pa na pr nr tinv :
  exp (pa - na) * exp ((pr - nr) * tinv) = exp (- ((na - pa) + tinv * (nr - pr))) /\
  (forall u, u < exp (pa - na) * exp ((pr - nr) * tinv) <-> acceptb u (alpha pa na pr nr tinv) = true).
Proof.
  split.
  - rewrite alpha_factored. apply alpha_eq.
  - intros u. rewrite alpha_factored. symmetry. rewrite acceptb_true_iff, alpha_eq. reflexivity.
Qed.

(** non-vacuity / the discriminating case: attachment better by 100, tempered regularity worse by 100.5 — the rule's
    threshold is exp(-1/2) (about 0.61, an ordinary number) while the two factors are exp(100) and exp(-100.5) *)
Example ex_factored_ordinary : exp 100 * exp (- (201 / 2)) = exp (- (1 / 2)) /\ exp (- (1 / 2)) < 1.
Proof.
  split.
  - rewrite <- exp_plus. apply (f_equal exp). lra.
  - apply Rlt_le_trans with (exp 0); [apply exp_increasing; lra | rewrite exp_0; lra].
Qed.
