(** C03 — helpers to EXECUTE the model inside Coq (vm_compute) on recorded implementation data:
    the tensor functions instantiated on exact rationals, and comparison with the float result. *)
From Coq Require Import QArith Qabs List Bool Arith.
From Leaspy Require Import Sampler.SamplerModel.
Import ListNotations.

(** |a - b| <= tol * (1 + |b|) entry by entry, same nesting *)
Fixpoint tclose (tol : Q) (a b : tens Q) : bool :=
  match a, b with
  | Sc x, Sc y => Qle_bool (Qabs (x - y)) (tol * (1 + Qabs y))
  | Nd l, Nd m =>
      (fix go (l m : list (tens Q)) : bool :=
         match l, m with
         | [], [] => true
         | x :: l', y :: m' => tclose tol x y && go l' m'
         | _, _ => false
         end) l m
  | _, _ => false
  end.

Definition Qlist_empty (l : list Q) : bool := match l with [] => true | _ => false end.

(** population proposal: the model's index-put of sd*z at [idx] reproduces the tensor the implementation
    proposed ([want]) and consumes exactly the normals drawn for that block *)
Definition check_put (tol : Q) (c : tens Q * list nat * Q * list Q * tens Q) : bool :=
  match c with
  | (x, idx, sd, zs, want) =>
      match put_noise Qplus Qmult x idx sd zs with
      | Some (t', rest) => tclose tol t' want && Qlist_empty rest
      | None => false
      end
  end.

(** individual proposal *)
Definition check_rows (tol : Q) (c : list Q * list (tens Q) * list Q * list (tens Q)) : bool :=
  match c with
  | (sds, rows, zs, want) =>
      match add_noise_rows Qplus Qmult sds rows zs with
      | Some (rows', rest) => tclose tol (Nd rows') (Nd want) && Qlist_empty rest
      | None => false
      end
  end.

Definition kind_of_nat (n : nat) : kind := match n with O => Gibbs | S O => FastGibbs | _ => MH end.

(** draws observed for one population step / one individual step against the model's count *)
Definition check_pop_draws (c : nat * list nat * nat * nat) : bool :=
  match c with (k, shape, nu, nz) =>
    let d := pop_draws (kind_of_nat k) shape in Nat.eqb (fst d) nu && Nat.eqb (snd d) nz end.

Definition check_ind_draws (c : nat * list nat * nat * nat) : bool :=
  match c with (n, shape, nu, nz) =>
    let d := ind_draws n shape in Nat.eqb (fst d) nu && Nat.eqb (snd d) nz end.
