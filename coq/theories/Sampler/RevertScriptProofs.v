(** C02 — proofs about the sampler scripts: a rejected block / rejected individuals leave no trace. *)
From Coq Require Import List Arith Bool Lia.
From Leaspy Require Import State.StateModel State.StateProofs State.Revert State.RevertProofs Sampler.RevertScript.
Import ListNotations.

Section Proofs.
Variables V M IX : Type.
Variable g : graph V.
Variable sm : sem V M IX.
Variable fx chk : bool.
Hypothesis wf : WF g.
Hypothesis fx_or_chk : fx = true \/ chk = true.

Notation n := (gn g).
Notation Good := (Good g).
Notation sim := (sim g).

Let Gset := Good_set V g fx chk wf fx_or_chk.
Let fuo := forked_unforked_ok V chk.

(** ** small facts *)

Lemma gets_fst (st : state V) reads : fst (get_list g st reads) = gets g st reads.
Proof. reflexivity. Qed.

Lemma sim_gets_left (st : state V) reads : Good st -> sim (gets g st reads) st.
Proof.
  intros HG. destruct (gets_props V g wf reads st HG) as [G' [F' [M' _]]].
  apply (sim_cache_only V g st st); auto.
  - now apply sim_refl.
  - intros j Lj. now apply (gets_indep V g wf).
Qed.

Lemma put_done (st st2 : state V) i ix v :
  put_state g sm fx st i ix v true = (st2, Done) ->
  exists old new, snd (get_state g st i) = Ok old /\ put_val sm ix v true old = Some new /\
                  i < n /\ settable g i = true /\
                  st2 = fst (set_state g fx (fst (get_state g st i)) i (Some new)).
Proof.
  intros H.
  assert (H' : (let '(st', o) := get_state g st i in
                match o with
                | Ok old => match put_val sm ix v true old with Some new => set_state g fx st' i (Some new) | None => (st', Err Crash) end
                | other => (st', other) end) = (st2, Done)) by (unfold put_state in H; now destruct ix).
  clear H. pose proof (get_shape V g (values st) i) as Hsh. rewrite <- (get_state_out V g) in Hsh.
  destruct (get_state g st i) as [st' o]. cbn [fst snd] in *.
  destruct Hsh as [[old ->]|[e ->]]; [|injection H' as _ H'; discriminate].
  destruct (put_val sm ix v true old) as [new|] eqn:Ep; [|injection H' as _ H'; discriminate].
  exists old, new. split; [reflexivity|]. split; [exact Ep|].
  destruct (lt_dec i n) as [Hi|Hi]; [destruct (Bool.bool_dec (settable g i) true) as [Es|Es]|].
  - split; [exact Hi|]. split; [exact Es|]. now rewrite H'.
  - rewrite (set_state_bad V g fx) in H' by (intros [_ X]; contradiction). injection H' as _ H'. discriminate.
  - rewrite (set_state_bad V g fx) in H' by (intros [X _]; contradiction). injection H' as _ H'. discriminate.
Qed.

Lemma set_state_mode (st : state V) i o : mode (fst (set_state g fx st i o)) = mode st.
Proof.
  unfold set_state. destruct (negb (i <? n)); [reflexivity|]. destruct (negb (settable g i)); reflexivity.
Qed.

Lemma put_state_mode (st : state V) i ix v acc : mode (fst (put_state g sm fx st i ix v acc)) = mode st.
Proof.
  assert (Hgen : mode (fst (let '(st', o) := get_state g st i in
                       match o with
                       | Ok old => match put_val sm ix v acc old with Some new => set_state g fx st' i (Some new) | None => (st', Err Crash) end
                       | other => (st', other) end)) = mode st).
  { destruct (get_state_fork V g st i) as [_ Hm]. destruct (get_state g st i) as [st' o]. cbn [fst] in *.
    destruct o; try exact Hm. destruct (put_val sm ix v acc v0); [|exact Hm]. now rewrite set_state_mode. }
  unfold put_state. destruct ix; [exact Hgen|]. destruct acc; [exact Hgen | apply set_state_mode].
Qed.

Lemma revert_state_mode (st : state V) : mode (fst (revert_state st)) = mode st.
Proof. unfold revert_state. now destruct (fork st). Qed.

Lemma gets_mode reads : forall st : state V, mode (gets g st reads) = mode st.
Proof.
  induction reads as [|r rs IH]; intros st; [reflexivity|].
  rewrite (gets_cons V g). rewrite IH. now destruct (get_state_fork V g st r).
Qed.

(** ** one block of a population step *)

(** everything that happens in a block whose proposal was made (the put succeeded), in one statement *)
Lemma block_anatomy (st : state V) x reads ix d st2 :
  Good st -> mode st <> None ->
  put_state g sm fx (gets g st reads) x ix d true = (st2, Done) ->
  exists old new,
    let stp := fst (get_state g (gets g st reads) x) in
    snd (get g (values st) x) = Ok old /\ put_val sm ix d true old = Some new /\
    x < n /\ settable g x = true /\ Good stp /\ mode stp = mode st /\
    (forall j w, values st j = Some w -> values stp j = Some w) /\
    (forall j, linked g j = false -> values stp j = values st j) /\
    st2 = fst (set_state g fx stp x (Some new)).
Proof.
  intros HG Hm Hput. destruct (put_done _ _ _ _ _ Hput) as [old [new [Ho [Hp [Hx [Hs E]]]]]].
  destruct (gets_props V g wf reads st HG) as [G1 [_ [M1 [K1 _]]]].
  pose proof (Good_get V g wf _ x G1) as Gp. destruct (get_state_fork V g (gets g st reads) x) as [_ Mp].
  destruct (get_transparent V g wf _ x G1) as [Ip _].
  exists old, new. cbv zeta. split.
  { rewrite (get_state_out V g) in Ho. rewrite <- Ho. symmetry. apply (sim_read_out V g wf). now apply sim_gets_left. }
  split; [exact Hp|]. split; [exact Hx|]. split; [exact Hs|]. split; [exact Gp|]. split; [congruence|]. split.
  { intros j w Hw. destruct G1 as [I1 [B1 _]]. destruct (get_props V g wf _ x I1 B1) as [_ [_ [[E1 _] _]]].
    rewrite (get_state_values V g). apply E1. now apply K1. }
  split; [|exact E].
  intros j Lj. rewrite Ip by exact Lj. now apply (gets_indep V g wf).
Qed.

Theorem pop_block_rejected decide x reads (st st' : state V) blk :
  Good st -> mode st <> None ->
  pop_block g sm fx decide x reads st blk = (st', Some false) ->
  sim st' (forget_fork st) /\
  (forall j w, values st j = Some w -> values st' j = Some w) /\
  (forall j, snd (get g (values st') j) = snd (get g (values st) j)).
Proof.
  intros HG Hm H. unfold pop_block in H.
  destruct (get_list g st reads) as [st1 prev] eqn:E1. assert (S1 : st1 = gets g st reads) by (unfold gets; now rewrite E1).
  destruct (negb (all_ok prev)); [discriminate|].
  destruct (put_state g sm fx st1 x (fst blk) (snd blk) true) as [st2 o] eqn:E2.
  destruct o; try discriminate.
  destruct (get_list g st2 reads) as [st3 new] eqn:E3. assert (S3 : st3 = gets g st2 reads) by (unfold gets; now rewrite E3).
  destruct (negb (all_ok new)); [discriminate|]. destruct (decide prev new); [discriminate|].
  injection H as H. subst st1.
  destruct (block_anatomy st x reads _ _ st2 HG Hm E2) as [old [nw [_ [_ [Hx [Hs [Gp [Mp [Kp [Ip E]]]]]]]]]].
  cbv zeta in *. set (stp := fst (get_state g (gets g st reads) x)) in *.
  assert (Mp' : mode stp <> None) by congruence.
  destruct (full_revert V g fx chk wf fx_or_chk stp x (Some nw) reads Gp Mp' Hx Hs) as [_ [K [_ [HI [HF [HM [HG3 _]]]]]]].
  rewrite <- E, <- S3, H in K, HI, HF, HM, HG3.
  assert (HI' : forall j, linked g j = false -> values st' j = values st j) by (intros j Lj; rewrite HI, Ip by exact Lj; reflexivity).
  assert (HS : sim st' (forget_fork st)).
  { split; [exact HG3|]. split; [now apply Good_forget|]. split; [exact HI'|]. split; [cbn; congruence|].
    unfold fork_sim. now rewrite HF. }
  split; [exact HS|]. split; [intros j w Hw; apply K; now apply Kp|].
  intros j. exact (sim_read_out V g wf st' (forget_fork st) j HS).
Qed.

Theorem pop_block_accepted decide x reads (st st' : state V) blk :
  Good st -> mode st <> None ->
  pop_block g sm fx decide x reads st blk = (st', Some true) ->
  sim st' (fst (put_state g sm fx st x (fst blk) (snd blk) true)) /\
  exists old new, snd (get g (values st) x) = Ok old /\ put_val sm (fst blk) (snd blk) true old = Some new /\
                  values st' x = Some new.
Proof.
  intros HG Hm H. unfold pop_block in H.
  destruct (get_list g st reads) as [st1 prev] eqn:E1. assert (S1 : st1 = gets g st reads) by (unfold gets; now rewrite E1).
  destruct (negb (all_ok prev)); [discriminate|].
  destruct (put_state g sm fx st1 x (fst blk) (snd blk) true) as [st2 o] eqn:E2.
  destruct o; try discriminate.
  destruct (get_list g st2 reads) as [st3 new] eqn:E3. assert (S3 : st3 = gets g st2 reads) by (unfold gets; now rewrite E3).
  destruct (negb (all_ok new)); [discriminate|]. destruct (decide prev new); [|discriminate].
  injection H as <-. subst st1.
  destruct (block_anatomy st x reads _ _ st2 HG Hm E2) as [old [nw [Ho [Hp [Hx [Hs [Gp [Mp [_ [_ E]]]]]]]]]].
  cbv zeta in *. set (stp := fst (get_state g (gets g st reads) x)) in *.
  assert (G2 : Good st2) by (rewrite E; apply Gset; [exact Gp | intros _ _; apply fuo; congruence]).
  split.
  - rewrite S3. apply (sim_trans V g _ st2); [now apply sim_gets_left|].
    assert (E2' : st2 = fst (put_state g sm fx (gets g st reads) x (fst blk) (snd blk) true)) by now rewrite E2.
    rewrite E2'. apply (sim_put V M IX g sm fx chk wf fx_or_chk); [now apply sim_gets_left|].
    intros _ _. apply fuo. now rewrite gets_mode.
  - exists old, nw. split; [exact Ho|]. split; [exact Hp|]. rewrite S3.
    destruct (gets_props V g wf reads st2 G2) as [_ [_ [_ [K _]]]]. apply K. rewrite E. now apply (set_values_self V g fx wf).
Qed.

(** equivalent states take the same decision and stay equivalent *)
Lemma pop_block_sim decide x reads (a b : state V) blk : sim a b -> mode a <> None ->
  sim (fst (pop_block g sm fx decide x reads a blk)) (fst (pop_block g sm fx decide x reads b blk)) /\
  snd (pop_block g sm fx decide x reads a blk) = snd (pop_block g sm fx decide x reads b blk).
Proof.
  intros HS Hm. unfold pop_block.
  destruct (sim_get_list V g wf reads a b HS) as [S1 O1].
  assert (M1 : mode (fst (get_list g a reads)) = mode a) by apply gets_mode.
  destruct (get_list g a reads) as [a1 pa]. destruct (get_list g b reads) as [b1 pb]. cbn [fst snd] in *. subst pb.
  destruct (negb (all_ok pa)); [now split|].
  destruct (sim_put V M IX g sm fx chk wf fx_or_chk a1 b1 x (fst blk) (snd blk) true S1) as [S2 O2].
  { intros _ _. apply fuo. congruence. }
  destruct (put_state g sm fx a1 x (fst blk) (snd blk) true) as [a2 oa].
  destruct (put_state g sm fx b1 x (fst blk) (snd blk) true) as [b2 ob]. cbn [fst snd] in *. subst ob.
  destruct oa; try (now split).
  destruct (sim_get_list V g wf reads a2 b2 S2) as [S3 O3].
  destruct (get_list g a2 reads) as [a3 na]. destruct (get_list g b2 reads) as [b3 nb]. cbn [fst snd] in *. subst nb.
  destruct (negb (all_ok na)); [now split|]. destruct (decide pa na); [now split|].
  cbn [fst snd]. split; [|reflexivity]. now apply (sim_revert V g).
Qed.

Lemma pop_block_mode decide x reads (st : state V) blk :
  mode (fst (pop_block g sm fx decide x reads st blk)) = mode st.
Proof.
  unfold pop_block.
  pose proof (gets_mode reads st) as M1. unfold gets in M1.
  destruct (get_list g st reads) as [st1 prev]. cbn [fst] in *.
  destruct (negb (all_ok prev)); [exact M1|].
  pose proof (put_state_mode st1 x (fst blk) (snd blk) true) as M2.
  destruct (put_state g sm fx st1 x (fst blk) (snd blk) true) as [st2 o]. cbn [fst] in *.
  destruct o; try (cbn; congruence).
  pose proof (gets_mode reads st2) as M3. unfold gets in M3.
  destruct (get_list g st2 reads) as [st3 new]. cbn [fst] in *.
  destruct (negb (all_ok new)); [cbn; congruence|]. destruct (decide prev new); cbn [fst]; [congruence|].
  rewrite revert_state_mode. congruence.
Qed.

(** ** the whole population step: as if only the accepted proposals had been made *)

Theorem pop_step_as_if decide x reads blks : forall st st' : state V, sim st st' -> mode st <> None ->
  (forall a, In a (snd (pop_step g sm fx decide x reads st blks)) -> a <> None) ->
  sim (fst (pop_step g sm fx decide x reads st blks))
      (pop_accepted g sm fx x st' blks (snd (pop_step g sm fx decide x reads st blks))).
Proof.
  induction blks as [|b r IH]; intros st st' HS Hm Hall; [exact HS|].
  cbn [pop_step] in *.
  pose proof (pop_block_mode decide x reads st b) as Mb.
  destruct (pop_block g sm fx decide x reads st b) as [st1 a] eqn:Eb. cbn [fst] in Mb.
  destruct a as [acc|]; [|exfalso; apply (Hall None); [now left | reflexivity]].
  assert (Hm1 : mode st1 <> None) by congruence.
  pose proof HS as [Ga [Gb _]].
  destruct (pop_step g sm fx decide x reads st1 r) as [st2 accs] eqn:Er. cbn [fst snd] in *.
  assert (Hall' : forall a, In a accs -> a <> None) by (intros a Ha; apply Hall; now right).
  destruct acc.
  - destruct (pop_block_accepted decide x reads st st1 b Ga Hm Eb) as [S1 _].
    assert (S2 : sim st1 (fst (put_state g sm fx st' x (fst b) (snd b) true))).
    { apply (sim_trans V g _ _ _ S1). apply (sim_put V M IX g sm fx chk wf fx_or_chk); [exact HS|]. intros _ _. now apply fuo. }
    specialize (IH st1 _ S2 Hm1). rewrite Er in IH. cbn [fst snd] in IH. now apply IH.
  - destruct (pop_block_rejected decide x reads st st1 b Ga Hm Eb) as [S1 _].
    assert (S2 : sim st1 (forget_fork st')) by (apply (sim_trans V g _ _ _ S1); now apply sim_forget).
    specialize (IH st1 _ S2 Hm1). rewrite Er in IH. cbn [fst snd] in IH. now apply IH.
Qed.

(** ** the individual step *)

(** a partial revert that completes has raised on no entry *)
Lemma revert_items_true (m : M) : forall (fk : forkd V) (vs : vals V), NoDup (map fst fk) ->
  snd (revert_items sm m vs fk) = true ->
  forall c o cur, In (c, Some o) fk -> vs c = Some cur -> mix sm m o cur <> None.
Proof.
  induction fk as [|[k old] r IH]; intros vs ND Hok c o cur Hin Hc; [inversion Hin|].
  cbn [map fst] in ND. inversion ND as [|? ? Hk NDr]; subst. cbn [revert_items] in Hok.
  assert (Tail : forall x, In (c, Some o) r -> snd (revert_items sm m (upd vs k x) r) = true -> mix sm m o cur <> None).
  { intros x Hr Hx. apply (IH (upd vs k x) NDr Hx c o cur Hr). rewrite upd_other; [exact Hc|].
    intros ->. apply Hk. apply (in_map fst) in Hr. exact Hr. }
  destruct Hin as [E|Hr].
  - injection E as -> ->. rewrite Hc in Hok. destruct (mix sm m o cur); [discriminate | discriminate Hok].
  - destruct old as [o'|]; [destruct (vs k) as [c'|]|]; try (now apply (Tail None)).
    destruct (mix sm m o' c') as [y|]; [now apply (Tail (Some y)) | discriminate Hok].
Qed.

Theorem ind_step_spec decide x reads (st st' : state V) d (m : M) :
  F_mix g sm -> Good st -> mode st <> None -> ind_axis g x = true ->
  (forall r, In r reads -> axis_read_ok g x r) ->
  ind_step g sm fx decide x reads st d = (st', Some m) ->
  exists old new,
    snd (get g (values st) x) = Ok old /\ put_val sm None d true old = Some new /\
    (* the sampled variable: the mix of the previous and the proposed value *)
    values st' x = mix sm m old new /\
    (* every node below it: mixed where cached on both sides, unset otherwise *)
    (forall j, In j (desc g x) -> ind_axis g j = false -> values st' j = None) /\
    (forall j w, ~ In j (x :: desc g x) -> values st j = Some w -> values st' j = Some w) /\
    Good st' /\ fork st' = None /\ mode st' = mode st /\
    (* as if the mixed value had been assigned directly *)
    sim st' (forget_fork (fst (set_state g fx st x (values st' x)))).
Proof.
  intros HFm HG Hm Hax Hreads H. unfold ind_step in H.
  destruct (get_list g st reads) as [st1 prev] eqn:E1. assert (S1 : st1 = gets g st reads) by (unfold gets; now rewrite E1).
  destruct (negb (all_ok prev)); [discriminate|].
  destruct (put_state g sm fx st1 x None d true) as [st2 o] eqn:E2.
  destruct o; try discriminate.
  destruct (get_list g st2 reads) as [st3 new] eqn:E3. assert (S3 : st3 = gets g st2 reads) by (unfold gets; now rewrite E3).
  destruct (negb (all_ok new)); [discriminate|].
  destruct (revert_mask_state sm st3 (decide prev new)) as [st4 o'] eqn:E4.
  destruct o'; try discriminate. injection H as -> <-. subst st1.
  destruct (block_anatomy st x reads _ _ st2 HG Hm E2) as [old [nw [Ho [Hp [Hx [Hs [Gp [Mp [Kp [Ip E]]]]]]]]]].
  cbv zeta in *. set (stp := fst (get_state g (gets g st reads) x)) in *.
  set (m := decide prev new) in *.
  assert (Mp' : mode stp <> None) by congruence.
  assert (G2 : Good st2) by (rewrite E; apply Gset; [exact Gp | intros _ _; apply fuo; congruence]).
  destruct (gets_props V g wf reads st2 G2) as [G3 [F3 [M3 [K3 _]]]]. rewrite <- S3 in G3, F3, M3, K3.
  assert (F2 : fork st2 = Some (snapshot V g (values stp) x)).
  { rewrite E, (set_state_ok V g fx) by assumption. cbn. destruct (mode stp); [reflexivity | contradiction]. }
  (* the step completed, so no mix raised *)
  assert (Hshape : shapes_ok g sm m x (values stp) (values st3)).
  { intros c o cur Hc Hold Hcur. unfold revert_mask_state in E4. rewrite F3, F2 in E4.
    destruct (revert_items sm m (values st3) (snapshot V g (values stp) x)) as [vs' ok] eqn:Er.
    destruct ok; [|discriminate].
    apply (revert_items_true m (snapshot V g (values stp) x) (values st3)) with (c := c); [| | |exact Hcur].
    - rewrite (snap_keys V g). apply increasing_NoDup. now apply (wf_desc_inc wf).
    - now rewrite Er.
    - unfold snapshot. rewrite <- Hold. apply (in_map (fun c0 => (c0, values stp c0))). exact Hc. }
  assert (Vold : values stp x = Some old).
  {
    assert (Hr : snd (get g (values (gets g st reads)) x) = Ok old).
    { rewrite <- Ho. apply (sim_read_out V g wf). now apply sim_gets_left. }
    destruct (gets_props V g wf reads st HG) as [[I1 [B1 _]] _].
    destruct (get_props V g wf _ x I1 B1) as [_ [_ [_ Hk]]]. destruct (Hk old Hr) as [_ Hv].
    unfold stp. now rewrite (get_state_values V g). }
  assert (Vnew : values st3 x = Some nw) by (apply K3; rewrite E; now apply (set_values_self V g fx wf)).
  rewrite E in S3. rewrite S3 in E4, Hshape, Vnew.
  pose proof (partial_revert V M IX g sm fx chk wf fx_or_chk stp x (Some nw) reads m HFm Gp Mp' Hx Hs Hax Hreads Hshape)
    as [_ [Vin [Vout [Kout [Hagg [G4 [F4 M4]]]]]]].
  pose proof (partial_revert_sim V M IX g sm fx chk wf fx_or_chk stp x (Some nw) reads m HFm Gp Mp' Hx Hs Hax Hreads Hshape) as HS4.
  cbv zeta in *. rewrite E4 in *. cbn [fst] in *.
  assert (Vx : values st' x = mix sm m old nw).
  { rewrite (Vin x (or_introl eq_refl)). now rewrite Vold, Vnew. }
  exists old, nw. split; [exact Ho|]. split; [exact Hp|]. split; [exact Vx|]. split; [exact Hagg|]. split.
  { intros j w Hj Hw. apply Kout; [exact Hj | now apply Kp]. }
  split; [exact G4|]. split; [exact F4|]. split; [congruence|].
  apply (sim_trans V g _ _ _ HS4). apply sim_forget.
  apply (sim_set V g fx chk wf fx_or_chk); [|intros _ _; now apply fuo].
  assert (Fp : fork stp = fork st).
  { destruct (get_state_fork V g (gets g st reads) x) as [Hf _]. unfold stp. rewrite Hf.
    now destruct (gets_props V g wf reads st HG) as [_ [Hf' _]]. }
  exact (sim_cache_only V g st st stp st (sim_refl V g st HG) Gp HG Ip (fun _ _ => eq_refl) Fp eq_refl Mp eq_refl).
Qed.

End Proofs.
