(** C03 — what the acceptance rule is FOR: with a symmetric proposal (the zero-mean Gaussian perturbation of the block: the density
    of proposing y from x is the density of proposing x from y) and a uniform draw u on [0,1), "accept iff u < exp(-D)" accepts
    with probability min(1, exp(-D)), and that acceptance probability satisfies the point-wise detailed-balance identity for the
    target density proportional to exp(-(attachment + tinv * regularity)): the step is a Metropolis-Hastings transition for the
    documented (tempered) target.  Pure real algebra; the measure theory around it (integrating the identity) is not formalised. *)
From Coq Require Import Reals Lra.
Open Scope R_scope.

(** probability that a uniform draw on [0,1) is below a threshold a > 0 *)
Definition acc_prob (a : R) : R := Rmin 1 a.

(** the (unnormalised) tempered target: exp(-(attachment + tinv * regularity)) *)
Definition target (tinv att reg : R) : R := exp (- (att + tinv * reg)).

Lemma acc_prob_exp_le D : 0 <= D -> acc_prob (exp (- D)) = exp (- D).
Proof.
  intros H. unfold acc_prob. apply Rmin_right.
  rewrite <- exp_0. destruct (Req_dec D 0) as [->|Hn]; [rewrite Ropp_0; lra|].
  left. apply exp_increasing. lra.
Qed.

Lemma acc_prob_exp_ge D : D <= 0 -> acc_prob (exp (- D)) = 1.
Proof.
  intros H. unfold acc_prob. apply Rmin_left.
  rewrite <- exp_0. destruct (Req_dec D 0) as [->|Hn]; [rewrite Ropp_0; lra|].
  left. apply exp_increasing. lra.
Qed.

(** detailed balance, point-wise: for the move x -> y (attachment pa -> na, regularity pr -> nr) and its reverse *)
Theorem detailed_balance (pa na pr nr tinv q : R) :
  target tinv pa pr * q * acc_prob (exp (- ((na - pa) + tinv * (nr - pr))))
  = target tinv na nr * q * acc_prob (exp (- ((pa - na) + tinv * (pr - nr)))).
Proof.
  set (D := (na - pa) + tinv * (nr - pr)).
  replace ((pa - na) + tinv * (pr - nr)) with (- D) by (unfold D; ring).
  unfold target.
  destruct (Rle_dec 0 D) as [Hd | Hd].
  - rewrite (acc_prob_exp_le D Hd), (acc_prob_exp_ge (- D)) by lra.
    replace (- (na + tinv * nr)) with (- (pa + tinv * pr) + - D) by (unfold D; ring).
    rewrite exp_plus. ring.
  - assert (Hd' : D <= 0) by lra.
    rewrite (acc_prob_exp_ge D Hd'), (acc_prob_exp_le (- D)) by lra.
    replace (- (pa + tinv * pr)) with (- (na + tinv * nr) + - - D) by (unfold D; ring).
    rewrite exp_plus. ring.
Qed.

(** the acceptance probability is a probability, and a move that does not increase the tempered energy is always accepted *)
Lemma acc_prob_range D : 0 < acc_prob (exp (- D)) <= 1.
Proof.
  unfold acc_prob. split; [apply Rmin_glb_lt; [lra | apply exp_pos] | apply Rmin_l].
Qed.
