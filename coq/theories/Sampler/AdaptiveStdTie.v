(** C19 — the sampler rules regenerated from the source (gen/GenC19.v) are the model's rules (AdaptiveStd.v). *)
From Coq Require Import ZArith QArith Bool List Lia.
From Leaspy Require Import Base.QAux Saem.Anneal Sampler.AdaptiveStd.
From LeaspyGen Require Import GenC19.
Import ListNotations.

Lemma tie_adapt1 c r s : adapt1 c r s = gen_std_adapt r (lo c) (hi c) (fac c) s.
Proof. unfold adapt1, gen_std_adapt. destruct (Qlt_bool (hi c) r), (Qlt_bool r (lo c)); reflexivity. Qed.

Lemma tie_push w row : push w row = gen_push w row.
Proof. reflexivity. Qed.

Lemma tie_bounds l h :
  bounds_refused l h = gen_bounds_refused l h /\ gen_bounds_lower l h = l /\ gen_bounds_upper l h = h.
Proof. unfold bounds_refused, gen_bounds_refused. repeat split. now destruct (negb _). Qed.

Lemma tie_factor f : factor_refused f = gen_factor_refused f.
Proof. unfold factor_refused, gen_factor_refused. now destruct (negb _). Qed.

(** [_update_acceptation_rate(row); _update_std()] — the model's step is the generated counter update, crash
    condition, due test, window update and per-block adaptation *)
Lemma tie_sample_step c st row : length row = length (std st) ->
  sample_step c st row =
  if gen_std_crashes (counter st) (hist_len c) then Err Crash
  else Ok {| counter := gen_std_counter (counter st);
             window := gen_push (window st) row;
             std := if gen_std_due (counter st) (hist_len c) then adapt c (gen_push (window st) row) (std st) else std st |}.
Proof.
  intros H. unfold sample_step, gen_std_crashes, gen_std_counter, gen_std_due. apply Nat.eqb_eq in H. rewrite H. simpl.
  destruct (hist_len c =? 0)%Z; [reflexivity|]. destruct (_ mod _ =? 0)%Z; reflexivity.
Qed.

Lemma tie_init_sampler c sf scale st0 : init_sampler c sf scale = Ok st0 ->
  counter st0 = gen_counter_init /\ gen_bounds_refused (lo c) (hi c) = false /\ gen_factor_refused (fac c) = false.
Proof.
  unfold init_sampler. destruct (hist_len c <? 0)%Z; [discriminate|]. destruct (scale_refused scale); [discriminate|].
  destruct (bounds_refused _ _) eqn:Eb; [discriminate|]. destruct (factor_refused _) eqn:Ef; [discriminate|].
  intros H. inversion H; subst; simpl. destruct (tie_bounds (lo c) (hi c)) as [T _]. rewrite <- T, <- tie_factor. auto.
Qed.
