(** C19 — model of the adaptive proposal scale of the Gibbs-type samplers
    (leaspy/samplers/gibbs.py: GibbsSamplerMixin.__init__ l.78-99, _set_acceptation_bounds l.111-129,
    _set_adaptive_std_factor l.131-136, validate_scale l.138-166, _update_std l.191-216;
    leaspy/samplers/base.py: AbstractSampler.__init__ l.50-62, _update_acceptation_rate l.144-160).
    The four sampler kinds (population Gibbs / FastGibbs / Metropolis-Hastings, individual Gibbs) share this
    code and differ only in the number of blocks (= entries of [std], [shape_adapted_std]) and in
    STD_SCALE_FACTOR; every [sample()] ends with
    [_update_acceptation_rate(accepted); _update_std()] (gibbs.py l.334-335, l.760-761).
    Exact arithmetic over [Q].  Definitions only; proofs in AdaptiveStdProofs.v, tie in AdaptiveStdTie.v. *)
From Coq Require Import ZArith QArith Bool List.
From Leaspy Require Import Base.QAux Saem.Anneal.
Import ListNotations.

Record scfg : Type := {
  hist_len : Z;       (** acceptation_history_length *)
  lo : Q;             (** mean_acceptation_rate_target_bounds[0] *)
  hi : Q;             (** mean_acceptation_rate_target_bounds[1] *)
  fac : Q             (** adaptive_std_factor *)
}.

(** constructor guards *)
Definition bounds_refused (l h : Q) : bool := negb (Qlt_bool 0 l && Qlt_bool l h && Qlt_bool h 1).   (* l.114-125 *)
Definition factor_refused (f : Q) : bool := negb (Qlt_bool 0 f && Qlt_bool f 1).                     (* l.132-135 *)
Definition scale_refused (s : list Q) : bool := existsb (fun x => Qle_bool x 0) s.                   (* l.162: (scale <= 0).any() *)

Record sstate : Type := {
  counter : Z;                    (** self._counter *)
  window : list (list bool);      (** self.acceptation_history, oldest row first; one entry per block *)
  std : list Q                    (** self.std, one entry per block *)
}.

(** [scale_factor] = STD_SCALE_FACTOR of the sampler kind, [scale] = validated scale per block *)
Definition init_sampler (c : scfg) (scale_factor : Q) (scale : list Q) : result sstate :=
  if (hist_len c <? 0)%Z then Err Crash                      (* base.py l.60: torch.zeros with a negative size *)
  else if scale_refused scale then Err InputError            (* gibbs.py l.90 *)
  else if bounds_refused (lo c) (hi c) then Err InputError   (* l.98 *)
  else if factor_refused (fac c) then Err InputError         (* l.99 *)
  else Ok {| counter := 0;                                                        (* l.95 *)
             window := repeat (repeat false (length scale)) (Z.to_nat (hist_len c));   (* base.py l.60 *)
             std := map (fun s => scale_factor * s) scale |}.                      (* l.91-93 *)

(** [_update_acceptation_rate]: drop the oldest row, append the new one *)
Definition push (w : list (list bool)) (row : list bool) : list (list bool) := skipn 1 w ++ [row].

(** mean over the window of block [j]: accepted / number of rows.  Only ever evaluated on a window that has just
    been pushed to, hence non-empty (no division by zero to model). *)
Definition count_true (l : list bool) : Z := Z.of_nat (length (filter (fun b => b) l)).
Definition column (w : list (list bool)) (j : nat) : list bool := map (fun row => nth j row false) w.
Definition rate (w : list (list bool)) (j : nat) : Q := inject_Z (count_true (column w j)) / inject_Z (Z.of_nat (length w)).

(** l.208-216: the two masked in-place multiplications, for one block with mean acceptance [r] *)
Definition adapt1 (c : scfg) (r s : Q) : Q :=
  let s1 := if Qlt_bool r (lo c) then s * (1 - fac c) else s in
  if Qlt_bool (hi c) r then s1 * (1 + fac c) else s1.

Fixpoint adapt_from (c : scfg) (w : list (list bool)) (j : nat) (sd : list Q) : list Q :=
  match sd with
  | [] => []
  | s :: r => adapt1 c (rate w j) s :: adapt_from c w (S j) r
  end.
Definition adapt (c : scfg) (w : list (list bool)) (sd : list Q) : list Q := adapt_from c w 0 sd.

(** end of one [sample()] call with acceptance decisions [row] (one per block) *)
Definition sample_step (c : scfg) (st : sstate) (row : list bool) : result sstate :=
  if negb (length row =? length (std st))%nat then Err Crash else      (* shapes are fixed by the sampler *)
  let w := push (window st) row in                                      (* _update_acceptation_rate *)
  let n := (counter st + 1)%Z in                                        (* l.202 *)
  if (hist_len c =? 0)%Z then Err Crash                                 (* l.204: n % 0 *)
  else if (n mod hist_len c =? 0)%Z then                                (* l.204 *)
    Ok {| counter := n; window := w; std := adapt c w (std st) |}
  else Ok {| counter := n; window := w; std := std st |}.

(** states after each of the rows of an acceptance history *)
Fixpoint run_sampler (c : scfg) (st : sstate) (rows : list (list bool)) : result (list sstate) :=
  match rows with
  | [] => Ok []
  | row :: r =>
      bind (sample_step c st row) (fun st' =>
      bind (run_sampler c st' r) (fun l => Ok (st' :: l)))
  end.

(** ** Specification side *)

(** multiplicative change prescribed for a block whose mean acceptance over the window is [r] *)
Definition factor_of (c : scfg) (r : Q) : Q :=
  if Qlt_bool r (lo c) then 1 - fac c else if Qlt_bool (hi c) r then 1 + fac c else 1.

(** the last [L] rows of the first [k] rows of the history *)
Definition last_rows (L k : nat) (rows : list (list bool)) : list (list bool) := skipn (k - L) (firstn k rows).

Fixpoint Qpow (x : Q) (n : nat) : Q := match n with O => 1 | S m => x * Qpow x m end.
