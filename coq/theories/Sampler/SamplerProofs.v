(** C03 — proofs about the sampler model (SamplerModel.v). *)
From Coq Require Import Reals List Arith Bool Lia Lra FinFun.
From Leaspy Require Import Sampler.SamplerModel.
Import ListNotations.

(** * Induction principle for nested-list tensors *)
Section TensInd.
  Context {A : Type} (P : tens A -> Prop).
  Hypothesis HS : forall x, P (Sc x).
  Hypothesis HN : forall l, Forall P l -> P (Nd l).
  Fixpoint tens_ind' (t : tens A) : P t :=
    match t with
    | Sc x => HS x
    | Nd l => HN l ((fix go (l : list (tens A)) : Forall P l :=
                       match l with
                       | [] => Forall_nil P
                       | a :: r => Forall_cons a (tens_ind' a) (go r)
                       end) l)
    end.
End TensInd.

(** * List helpers *)
Lemma skipn_skipn {B} (a b : nat) (l : list B) : skipn a (skipn b l) = skipn (b + a) l.
Proof.
  revert l; induction b as [|b IH]; intros l; simpl; [reflexivity|].
  destruct l; [now rewrite skipn_nil | apply IH].
Qed.

Lemma firstn_skipn_add {B} (a b : nat) (l : list B) :
  firstn (a + b) l = firstn a l ++ firstn b (skipn a l).
Proof.
  revert l; induction a as [|a IH]; intros l; simpl; [reflexivity|].
  destruct l; simpl; [now rewrite firstn_nil | now rewrite IH].
Qed.

Section TensorFacts.
  Context {A : Type}.
  Variable add mul : A -> A -> A.

  Lemma size_Nd_cons (c : tens A) cs : size (Nd (c :: cs)) = (size c + size (Nd cs))%nat.
  Proof. unfold size; simpl. now rewrite app_length. Qed.

  Lemma size_Nd_nil : size (@Nd A []) = 0%nat.
  Proof. reflexivity. Qed.

  Lemma add_noise_Nd sd l zs :
    add_noise add mul sd (Nd l) zs =
    match add_noise_list add mul sd l zs with Some (l', zs') => Some (Nd l', zs') | None => None end.
  Proof.
    simpl.
    assert (E : forall l zs,
      (fix go (l : list (tens A)) (zs : list A) : option (list (tens A) * list A) :=
         match l with
         | [] => Some ([], zs)
         | c :: cs => match add_noise add mul sd c zs with
                      | Some (c', zs1) => match go cs zs1 with
                                          | Some (cs', zs2) => Some (c' :: cs', zs2)
                                          | None => None
                                          end
                      | None => None
                      end
         end) l zs = add_noise_list add mul sd l zs).
    { clear. induction l as [|c cs IH]; intros zs; simpl; [reflexivity|].
      destruct (add_noise add mul sd c zs) as [[c' zs1]|]; [|reflexivity].
      now rewrite IH. }
    now rewrite E.
  Qed.

  Lemma noise_flat_app sd (a b za zb : list A) :
    length a = length za ->
    noise_flat add mul sd (a ++ b) (za ++ zb) = noise_flat add mul sd a za ++ noise_flat add mul sd b zb.
  Proof.
    revert za; induction a as [|x a IH]; intros [|z za] H; simpl in *; try discriminate; [reflexivity|].
    f_equal. apply IH. lia.
  Qed.

  Lemma noise_flat_length sd (a za : list A) :
    length a = length za -> length (noise_flat add mul sd a za) = length a.
  Proof.
    revert za; induction a as [|x a IH]; intros [|z za] H; simpl in *; try discriminate; [reflexivity|].
    f_equal. apply IH. lia.
  Qed.

  (** ** [add_noise]: the whole sub-tensor receives std*z, entry by entry, and consumes exactly its size *)
  Definition add_noise_spec (sd : A) (t t' : tens A) (zs zs' : list A) : Prop :=
    (size t <= length zs)%nat /\
    zs' = skipn (size t) zs /\
    flat t' = noise_flat add mul sd (flat t) (firstn (size t) zs) /\
    (forall s, has_shape s t -> has_shape s t').

  Lemma add_noise_sound sd : forall t zs t' zs',
    add_noise add mul sd t zs = Some (t', zs') -> add_noise_spec sd t t' zs zs'.
  Proof.
    induction t as [x | l IH] using tens_ind'; intros zs t' zs' H.
    - simpl in H. destruct zs as [|z r]; [discriminate|]. inversion H; subst; clear H.
      unfold add_noise_spec, size; simpl. repeat split; try lia.
      intros s Hs. destruct s; simpl in *; auto.
    - rewrite add_noise_Nd in H.
      destruct (add_noise_list add mul sd l zs) as [[l' zs1]|] eqn:E; [|discriminate].
      inversion H; subst; clear H.
      revert zs l' zs' E. induction IH as [|c cs Hc Hcs IHcs]; intros zs l' zs' E; simpl in E.
      + inversion E; subst. unfold add_noise_spec. rewrite size_Nd_nil. simpl. repeat split; try lia.
        intros s Hs. exact Hs.
      + destruct (add_noise add mul sd c zs) as [[c' zs1]|] eqn:Ec; [|discriminate].
        destruct (add_noise_list add mul sd cs zs1) as [[cs' zs2]|] eqn:Ecs; [|discriminate].
        inversion E; subst; clear E.
        destruct (Hc _ _ _ Ec) as (L1 & S1 & F1 & Sh1).
        destruct (IHcs _ _ _ Ecs) as (L2 & S2 & F2 & Sh2).
        subst zs1. rewrite skipn_length in L2.
        unfold add_noise_spec. rewrite size_Nd_cons. repeat split.
        * lia.
        * rewrite S2. apply skipn_skipn.
        * simpl. simpl in F2. rewrite F1, F2. rewrite firstn_skipn_add.
          fold (size (Nd cs)).
          rewrite noise_flat_app; [reflexivity|].
          rewrite firstn_length. unfold size in *. lia.
        * intros s Hs. destruct s as [|d r]; simpl in *; [contradiction|].
          destruct Hs as [Hl Hf]. inversion Hf as [|? ? Hc0 Hcs0]; subst.
          assert (Hs2 : has_shape (length cs :: r) (Nd cs)) by (simpl; auto).
          apply Sh2 in Hs2. simpl in Hs2. destruct Hs2 as [Hl2 Hf2].
          split; [simpl; lia|]. constructor; auto.
  Qed.

  Lemma add_noise_total sd : forall t zs, (size t <= length zs)%nat ->
    exists t' zs', add_noise add mul sd t zs = Some (t', zs').
  Proof.
    induction t as [x | l IH] using tens_ind'; intros zs H.
    - destruct zs as [|z r]; [unfold size in H; simpl in H; lia|]. simpl. eauto.
    - rewrite add_noise_Nd.
      assert (E : exists l' zs', add_noise_list add mul sd l zs = Some (l', zs')).
      { revert zs H. induction IH as [|c cs Hc Hcs IHcs]; intros zs H; simpl; [eauto|].
        rewrite size_Nd_cons in H.
        destruct (Hc zs) as (c' & zs1 & Ec); [lia|]. rewrite Ec.
        destruct (add_noise_sound _ _ _ _ _ Ec) as (_ & S1 & _).
        destruct (IHcs zs1) as (cs' & zs2 & Ecs); [subst zs1; rewrite skipn_length; lia|].
        rewrite Ecs. eauto. }
      destruct E as (l' & zs' & E). rewrite E. eauto.
  Qed.

  (** ** replace_nth *)
  Lemma replace_nth_length i (c : tens A) l : length (replace_nth i c l) = length l.
  Proof. revert i; induction l as [|a r IH]; intros [|i]; simpl; auto. Qed.

  Lemma nth_error_replace_same i (c c0 : tens A) l :
    nth_error l i = Some c0 -> nth_error (replace_nth i c l) i = Some c.
  Proof. revert i; induction l as [|a r IH]; intros [|i] H; simpl in *; try discriminate; auto. Qed.

  Lemma nth_error_replace_other i j (c : tens A) l :
    i <> j -> nth_error (replace_nth i c l) j = nth_error l j.
  Proof.
    revert i j; induction l as [|a r IH]; intros [|i] [|j] H; simpl; auto; try congruence.
  Qed.

  Lemma Forall_replace_nth (P : tens A -> Prop) i c l :
    Forall P l -> P c -> Forall P (replace_nth i c l).
  Proof.
    intros H Hc; revert i; induction H as [|a r Ha Hr IH]; intros [|i]; simpl; constructor; auto.
  Qed.

  (** ** [put_noise]: exactly the block changes *)

  (** two index paths separate at a position both have *)
  Fixpoint diverge (idx p : list nat) : bool :=
    match idx, p with
    | i :: r, j :: s => if Nat.eqb i j then diverge r s else true
    | _, _ => false
    end.

  Fixpoint prefixb (idx p : list nat) : bool :=
    match idx, p with
    | [], _ => true
    | i :: r, j :: s => Nat.eqb i j && prefixb r s
    | _ :: _, [] => false
    end.

  Lemma put_noise_sound sd : forall idx t zs t' zs',
    put_noise add mul t idx sd zs = Some (t', zs') ->
    exists sub sub',
      tget t idx = Some sub /\ tget t' idx = Some sub' /\
      add_noise add mul sd sub zs = Some (sub', zs') /\
      (forall p, diverge idx p = true -> tget t' p = tget t p) /\
      (forall s, has_shape s t -> has_shape s t').
  Proof.
    induction idx as [|i r IH]; intros t zs t' zs' H; simpl in H.
    - exists t, t'. simpl. repeat split; auto.
      + intros p Hp. destruct p; discriminate.
      + intros s. now apply (add_noise_sound _ _ _ _ _ H).
    - destruct t as [x|l]; [discriminate|].
      destruct (nth_error l i) as [c|] eqn:Ec; [|discriminate].
      destruct (put_noise add mul c r sd zs) as [[c' zs1]|] eqn:Ep; [|discriminate].
      inversion H; subst; clear H.
      destruct (IH _ _ _ _ Ep) as (sub & sub' & G1 & G2 & Hn & Hout & Hsh).
      exists sub, sub'. simpl. rewrite Ec. rewrite (nth_error_replace_same _ _ _ _ Ec).
      repeat split; auto.
      + intros [|j s] Hp; [discriminate|]. simpl in Hp. simpl.
        destruct (Nat.eqb_spec i j) as [->|Hij].
        * rewrite Ec, (nth_error_replace_same _ _ _ _ Ec). now apply Hout.
        * now rewrite nth_error_replace_other.
      + intros [|d s'] Hs; simpl in *; [contradiction|]. destruct Hs as [Hl Hf]. split.
        * now rewrite replace_nth_length.
        * apply Forall_replace_nth; auto. apply Hsh.
          rewrite Forall_forall in Hf. apply Hf. eapply nth_error_In; eauto.
  Qed.

  (** an entry of the tensor is either inside the block addressed by [idx] or on a diverging path *)
  Lemma entry_inside_or_diverges : forall idx (t : tens A) p sub v,
    tget t idx = Some sub -> tget t p = Some (Sc v) -> prefixb idx p = true \/ diverge idx p = true.
  Proof.
    induction idx as [|i r IH]; intros t p sub v Hi Hp; simpl; [now left|].
    destruct p as [|j s].
    - simpl in Hp. inversion Hp; subst. simpl in Hi. discriminate.
    - simpl in *. destruct t as [x|l]; [discriminate|].
      destruct (Nat.eqb_spec i j) as [->|Hij]; [|now right].
      destruct (nth_error l j) as [c|]; [|discriminate]. simpl. eapply IH; eauto.
  Qed.

  (** shapes *)
  Lemma has_shape_size : forall s (t : tens A), has_shape s t -> size t = prodn s.
  Proof.
    induction s as [|d r IH]; intros t H; simpl in H.
    - destruct t; [reflexivity | contradiction].
    - destruct t as [x|l]; [contradiction|]. destruct H as [Hl Hf]. subst d.
      induction Hf as [|c cs Hc Hcs IHcs]; [reflexivity|].
      rewrite size_Nd_cons, IHcs, (IH _ Hc). unfold prodn; simpl. lia.
  Qed.

  Lemma has_shape_tget : forall idx s (t sub : tens A),
    has_shape s t -> tget t idx = Some sub -> has_shape (skipn (length idx) s) sub.
  Proof.
    induction idx as [|i r IH]; intros s t sub Hs Hg; simpl in *.
    - now inversion Hg; subst.
    - destruct t as [x|l]; [discriminate|].
      destruct (nth_error l i) as [c|] eqn:Ec; [|discriminate].
      destruct s as [|d s']; simpl in Hs; [contradiction|]. destruct Hs as [_ Hf].
      rewrite Forall_forall in Hf. eapply IH; eauto. apply Hf. eapply nth_error_In; eauto.
  Qed.

  (** an index is valid for a shape: no deeper than the shape, each component in range *)
  Fixpoint valid_idx (s idx : list nat) {struct idx} : Prop :=
    match idx, s with
    | [], _ => True
    | i :: r, d :: s' => (i < d)%nat /\ valid_idx s' r
    | _ :: _, [] => False
    end.

  Lemma valid_idx_tget : forall idx s (t : tens A),
    has_shape s t -> valid_idx s idx -> exists sub, tget t idx = Some sub.
  Proof.
    induction idx as [|i r IH]; intros s t Hs Hv; simpl in *; [eauto|].
    destruct s as [|d s']; [contradiction|]. destruct Hv as [Hi Hv].
    simpl in Hs. destruct t as [x|l]; [contradiction|]. destruct Hs as [Hl Hf].
    destruct (nth_error l i) as [c|] eqn:Ec.
    - rewrite Forall_forall in Hf. eapply IH; eauto. apply Hf. eapply nth_error_In; eauto.
    - apply nth_error_None in Ec. lia.
  Qed.

  Lemma put_noise_total sd : forall idx (t : tens A) zs sub,
    tget t idx = Some sub -> (size sub <= length zs)%nat ->
    exists t' zs', put_noise add mul t idx sd zs = Some (t', zs').
  Proof.
    induction idx as [|i r IH]; intros t zs sub Hg Hl; simpl in *.
    - inversion Hg; subst. now apply add_noise_total.
    - destruct t as [x|l]; [discriminate|].
      destruct (nth_error l i) as [c|] eqn:Ec; [|discriminate].
      destruct (IH _ _ _ Hg Hl) as (c' & zs' & E). rewrite E. eauto.
  Qed.

  (** ** rows of the individual sampler *)
  Lemma add_noise_rows_sound : forall sds rows zs rows' zs',
    add_noise_rows add mul sds rows zs = Some (rows', zs') ->
    length sds = length rows /\ length rows' = length rows /\
    (size (Nd rows) <= length zs)%nat /\ zs' = skipn (size (Nd rows)) zs /\
    forall j row, nth_error rows j = Some row ->
      exists sd row', nth_error sds j = Some sd /\ nth_error rows' j = Some row' /\
        add_noise add mul sd row (skipn (size (Nd (firstn j rows))) zs)
        = Some (row', skipn (size (Nd (firstn j rows)) + size row) zs).
  Proof.
    induction sds as [|sd sds IH]; intros [|r rows] zs rows' zs' H; simpl in H; try discriminate.
    - inversion H; subst. rewrite size_Nd_nil. simpl. repeat split; try lia.
      intros [|j] row Hj; discriminate.
    - destruct (add_noise add mul sd r zs) as [[r' zs1]|] eqn:E1; [|discriminate].
      destruct (add_noise_rows add mul sds rows zs1) as [[rs' zs2]|] eqn:E2; [|discriminate].
      inversion H; subst; clear H.
      destruct (add_noise_sound _ _ _ _ _ E1) as (L1 & S1 & _ & _).
      destruct (IH _ _ _ _ E2) as (Hl & Hl' & L2 & S2 & Hrow).
      subst zs1. rewrite skipn_length in L2. rewrite size_Nd_cons.
      repeat split; simpl; try lia.
      + rewrite S2. apply skipn_skipn.
      + intros [|j] row Hj; simpl in Hj.
        * inversion Hj; subst. exists sd, r'. change (firstn 0 (row :: rows)) with (@nil (tens A)).
          rewrite size_Nd_nil. simpl. auto.
        * destruct (Hrow _ _ Hj) as (sdj & rowj & A1 & A2 & A3).
          exists sdj, rowj. change (firstn (S j) (r :: rows)) with (r :: firstn j rows).
          simpl nth_error. repeat split; auto.
          rewrite size_Nd_cons. rewrite skipn_skipn in A3. rewrite A3. f_equal. f_equal.
          rewrite skipn_skipn. f_equal. lia.
  Qed.
End TensorFacts.

(** * Block structure *)
Lemma flat_map_length_const {B C} (f : B -> list C) n l :
  (forall x, length (f x) = n) -> length (flat_map f l) = (length l * n)%nat.
Proof.
  intros H; induction l as [|a r IH]; simpl; [reflexivity|]. now rewrite app_length, H, IH.
Qed.

Lemma ndindex_length s : length (ndindex s) = prodn s.
Proof.
  induction s as [|d r IH]; simpl; [reflexivity|].
  rewrite (flat_map_length_const _ (prodn r)); [now rewrite seq_length|].
  intros x. now rewrite map_length.
Qed.

Lemma ndindex_in s idx : In idx (ndindex s) <-> length idx = length s /\ valid_idx s idx.
Proof.
  revert idx; induction s as [|d r IH]; intros idx; simpl.
  - split.
    + intros [<-|[]]. simpl; auto.
    + intros [H _]. destruct idx; [now left | discriminate].
  - rewrite in_flat_map. split.
    + intros (i & Hi & Hin). apply in_map_iff in Hin. destruct Hin as (q & <- & Hq).
      apply IH in Hq. destruct Hq as [Hl Hv]. apply in_seq in Hi. simpl. split; [lia|]. split; [lia | exact Hv].
    + intros [Hl Hv]. destruct idx as [|i q]; [discriminate|]. simpl in *. destruct Hv as [Hi Hv].
      exists i. split; [apply in_seq; lia|]. apply in_map. apply IH. split; [lia | exact Hv].
Qed.

Lemma NoDup_app_intro {B} (l l' : list B) :
  NoDup l -> NoDup l' -> (forall x, In x l -> In x l' -> False) -> NoDup (l ++ l').
Proof.
  induction l as [|a l IH]; intros H H' D; simpl; [exact H'|].
  inversion H as [|? ? Ha Hl]; subst. constructor.
  - intros Hin. apply in_app_or in Hin. destruct Hin as [Hin|Hin]; [contradiction|]. apply (D a); [now left | exact Hin].
  - apply IH; auto. intros x Hx Hx'. apply (D x); [now right | exact Hx'].
Qed.

Lemma ndindex_NoDup s : NoDup (ndindex s).
Proof.
  induction s as [|d r IH]; simpl; [constructor; [intros []|constructor]|].
  assert (G : forall l, NoDup l -> NoDup (flat_map (fun i : nat => map (cons i) (ndindex r)) l)).
  { induction l as [|a l IHl]; intros Hl; simpl; [constructor|].
    inversion Hl as [|? ? Ha Hl']; subst.
    apply NoDup_app_intro; auto.
    - apply FinFun.Injective_map_NoDup; [|exact IH]. intros x y E. now inversion E.
    - intros x Hx Hy. apply in_map_iff in Hx. destruct Hx as (q & <- & _).
      apply in_flat_map in Hy. destruct Hy as (b & Hb & Hin). apply in_map_iff in Hin.
      destruct Hin as (q' & E & _). inversion E; subst. contradiction. }
  apply G. apply seq_NoDup.
Qed.

Lemma prodn_app a b : prodn (a ++ b) = (prodn a * prodn b)%nat.
Proof. unfold prodn. induction a as [|x a IH]; simpl; [lia|]. rewrite IH. lia. Qed.

Lemma sum_map_const {B} (l : list B) (f : B -> nat) c :
  (forall x, In x l -> f x = c) -> fold_right Nat.add 0%nat (map f l) = (length l * c)%nat.
Proof.
  induction l as [|a r IH]; intros H; simpl; [reflexivity|].
  rewrite H by now left. rewrite IH; [lia|]. intros x Hx. apply H. now right.
Qed.

Definition std_depth (k : kind) (shape : list nat) : nat :=
  match k with Gibbs => length shape | FastGibbs => 1 | MH => 0 end.

Lemma std_shape_firstn k shape : std_shape k shape = firstn (std_depth k shape) shape.
Proof. destruct k; simpl; auto. now rewrite firstn_all. Qed.

Lemma valid_idx_firstn m s idx : valid_idx (firstn m s) idx -> valid_idx s idx.
Proof.
  revert m s; induction idx as [|i r IH]; intros m s H; simpl in *; [exact I|].
  destruct m; simpl in H; [contradiction|]. destruct s as [|d s']; simpl in H; [contradiction|].
  destruct H as [Hi Hr]. split; [exact Hi | eapply IH; eauto].
Qed.

Lemma diverge_distinct : forall idx idx', length idx = length idx' -> idx <> idx' -> diverge idx idx' = true.
Proof.
  induction idx as [|i r IH]; intros [|j s] Hl Hn; simpl in *; try discriminate; [congruence|].
  destruct (Nat.eqb_spec i j) as [->|]; [|reflexivity]. apply IH; [lia|]. congruence.
Qed.

Lemma blocks_partition k shape :
  pop_draws k shape = (prodn (std_shape k shape), prodn shape) /\
  NoDup (blocks k shape) /\
  (forall idx, In idx (blocks k shape) ->
     valid_idx shape idx /\ length idx = length (std_shape k shape) /\
     block_size shape idx = prodn (skipn (std_depth k shape) shape)) /\
  (forall idx idx', In idx (blocks k shape) -> In idx' (blocks k shape) -> idx <> idx' -> diverge idx idx' = true).
Proof.
  assert (B : forall idx, In idx (blocks k shape) ->
     valid_idx shape idx /\ length idx = length (std_shape k shape) /\
     block_size shape idx = prodn (skipn (std_depth k shape) shape)).
  { intros idx H. unfold blocks in H. apply ndindex_in in H. destruct H as [Hl Hv].
    split; [|split; [exact Hl|]].
    - rewrite std_shape_firstn in Hv. eapply valid_idx_firstn; eauto.
    - unfold block_size. rewrite Hl, std_shape_firstn, firstn_length.
      destruct (Nat.le_ge_cases (std_depth k shape) (length shape)) as [H|H].
      + now rewrite Nat.min_l.
      + rewrite Nat.min_r by exact H. now rewrite !skipn_all2 by lia. }
  split; [|split; [apply ndindex_NoDup | split; [exact B|]]].
  - unfold pop_draws. f_equal; [apply ndindex_length|].
    rewrite (sum_map_const _ _ (prodn (skipn (std_depth k shape) shape))) by (intros; now apply B).
    unfold blocks. rewrite ndindex_length, std_shape_firstn, <- prodn_app. now rewrite firstn_skipn.
  - intros idx idx' H H' Hn. apply diverge_distinct; [|exact Hn].
    destruct (B _ H) as (_ & -> & _). destruct (B _ H') as (_ & -> & _). reflexivity.
Qed.

(** * Acceptance *)
Local Open Scope R_scope.

Lemma alpha_eq pa na pr nr tinv : alpha pa na pr nr tinv = exp (- ((na - pa) + tinv * (nr - pr))).
Proof. reflexivity. Qed.

Lemma acceptb_true_iff u a : acceptb u a = true <-> u < a.
Proof. unfold acceptb. destruct (Rlt_dec u a); split; auto; discriminate. Qed.

Lemma acceptb_false_iff u a : acceptb u a = false <-> a <= u.
Proof. unfold acceptb. destruct (Rlt_dec u a); split; intros; try discriminate; try lra; auto. Qed.

(** a better (or equal) state is always accepted when the uniform draw is below one *)
Lemma accept_when_not_worse pa na pr nr tinv u :
  u < 1 -> Dval pa na pr nr tinv <= 0 -> acceptb u (alpha pa na pr nr tinv) = true.
Proof.
  intros Hu HD. apply acceptb_true_iff. unfold alpha.
  assert (1 <= exp (- Dval pa na pr nr tinv)).
  { rewrite <- exp_0. destruct (Req_dec (Dval pa na pr nr tinv) 0) as [->|Hn].
    - rewrite Ropp_0. lra.
    - left. apply exp_increasing. lra. }
  lra.
Qed.

Section PopFacts.
  Variables attach regul : tens R -> R.
  Variable tinv : R.
  Variable std : tens R.

  Lemma block_step_sound idx x tp y tp' acc :
    block_step attach regul tinv std idx x tp = Some (y, tp', acc) ->
    exists sd sub x' u,
      tget std idx = Some (Sc sd) /\
      uniforms tp = u :: uniforms tp' /\
      put_noise Rplus Rmult x idx sd (normals tp) = Some (x', normals tp') /\
      tget x idx = Some sub /\ (size sub <= length (normals tp))%nat /\
      normals tp' = skipn (size sub) (normals tp) /\
      (acc = true <-> u < exp (- ((attach x' - attach x) + tinv * (regul x' - regul x)))) /\
      y = (if acc then x' else x).
  Proof.
    unfold block_step. intros H.
    destruct (tget std idx) as [[sd|?]|] eqn:Es; try discriminate.
    destruct (put_noise Rplus Rmult x idx sd (normals tp)) as [[x' zs']|] eqn:Ep; [|discriminate].
    destruct (uniforms tp) as [|u us] eqn:Eu; [discriminate|].
    inversion H; subst; clear H. simpl.
    destruct (put_noise_sound _ _ _ _ _ _ _ _ Ep) as (sub & sub' & G1 & _ & Hn & _ & _).
    destruct (add_noise_sound _ _ _ _ _ _ _ Hn) as (L & S & _ & _).
    exists sd, sub, x', u. repeat split; auto.
    - intros Ha. now apply acceptb_true_iff in Ha.
    - intros Ha. now apply acceptb_true_iff.
  Qed.

  Lemma block_step_shape s idx x tp y tp' acc :
    has_shape s x -> block_step attach regul tinv std idx x tp = Some (y, tp', acc) -> has_shape s y.
  Proof.
    intros Hs H. destruct (block_step_sound _ _ _ _ _ _ H) as (sd & sub & x' & u & _ & _ & Hp & _ & _ & _ & _ & ->).
    destruct acc; [|exact Hs].
    destruct (put_noise_sound _ _ _ _ _ _ _ _ Hp) as (? & ? & _ & _ & _ & _ & Hsh). now apply Hsh.
  Qed.

  Definition sumn (l : list nat) : nat := fold_right Nat.add 0%nat l.

  Lemma pop_step_draws shape : forall order x tp y tp' accs,
    has_shape shape x ->
    pop_step attach regul tinv std order x tp = Some (y, tp', accs) ->
    has_shape shape y /\ length accs = length order /\
    (length order <= length (uniforms tp))%nat /\
    uniforms tp' = skipn (length order) (uniforms tp) /\
    (sumn (map (block_size shape) order) <= length (normals tp))%nat /\
    normals tp' = skipn (sumn (map (block_size shape) order)) (normals tp).
  Proof.
    induction order as [|idx rest IH]; intros x tp y tp' accs Hs H; simpl in H.
    - inversion H; subst. simpl. repeat split; auto; lia.
    - destruct (block_step attach regul tinv std idx x tp) as [[[x1 tp1] a]|] eqn:Eb; [|discriminate].
      destruct (pop_step attach regul tinv std rest x1 tp1) as [[[x2 tp2] accs2]|] eqn:Er; [|discriminate].
      inversion H; subst; clear H.
      pose proof (block_step_shape _ _ _ _ _ _ _ Hs Eb) as Hs1.
      destruct (block_step_sound _ _ _ _ _ _ Eb) as (sd & sub & x' & u & _ & Hu & _ & Hg & Hl & Hn & _ & _).
      destruct (IH _ _ _ _ _ Hs1 Er) as (Hs2 & La & Lu & Eu & Ln & En).
      assert (Hb : size sub = block_size shape idx).
      { unfold block_size. apply has_shape_size. exact (has_shape_tget idx shape x sub Hs Hg). }
      simpl. rewrite Hu in *. simpl. rewrite Hn in Ln, En. rewrite skipn_length in Ln.
      rewrite skipn_skipn in En. rewrite Hb in *.
      repeat split; auto; lia.
  Qed.

  Lemma pop_step_total shape : forall order x tp,
    has_shape shape x ->
    Forall (valid_idx shape) order ->
    Forall (fun idx => exists sd, tget std idx = Some (Sc sd)) order ->
    (length order <= length (uniforms tp))%nat ->
    (sumn (map (block_size shape) order) <= length (normals tp))%nat ->
    exists y tp' accs, pop_step attach regul tinv std order x tp = Some (y, tp', accs).
  Proof.
    induction order as [|idx rest IH]; intros x tp Hs Hv Hsd Lu Ln; simpl; [eauto|].
    inversion Hv as [|? ? Hv1 Hv2]; subst. inversion Hsd as [|? ? [sd Hsd1] Hsd2]; subst.
    destruct (valid_idx_tget _ _ _ Hs Hv1) as (sub & Hg).
    assert (Hb : size sub = block_size shape idx).
    { unfold block_size. apply has_shape_size. exact (has_shape_tget idx shape x sub Hs Hg). }
    simpl in Ln, Lu.
    destruct (put_noise_total Rplus Rmult sd idx x (normals tp) sub Hg) as (x' & zs' & Ep); [lia|].
    destruct (uniforms tp) as [|u us] eqn:Eu; [simpl in Lu; lia|].
    assert (Eb : block_step attach regul tinv std idx x tp =
                 Some (if acceptb u (alpha (attach x) (attach x') (regul x) (regul x') tinv) then x' else x,
                       Build_tape zs' us,
                       acceptb u (alpha (attach x) (attach x') (regul x) (regul x') tinv))).
    { unfold block_step. now rewrite Hsd1, Ep, Eu. }
    rewrite Eb.
    pose proof (block_step_shape _ _ _ _ _ _ _ Hs Eb) as Hs1.
    destruct (block_step_sound _ _ _ _ _ _ Eb) as (? & sub2 & ? & ? & _ & _ & _ & Hg2 & _ & Hn & _ & _).
    rewrite Hg in Hg2. inversion Hg2; subst sub2. simpl in Hn.
    edestruct (IH _ (Build_tape zs' us) Hs1 Hv2 Hsd2) as (y & tp' & accs & E).
    - simpl in *. lia.
    - simpl. rewrite Hn, skipn_length. lia.
    - rewrite E. eauto.
  Qed.
End PopFacts.

(** the tape left by a population step does not depend on the likelihood, the temperature, the
    proposal scale, the current value (only its shape) nor on the acceptance outcomes *)
Lemma pop_step_tape_indep shape order tp
      attach1 regul1 tinv1 std1 x1 y1 tp1 accs1 attach2 regul2 tinv2 std2 x2 y2 tp2 accs2 :
  has_shape shape x1 -> has_shape shape x2 ->
  pop_step attach1 regul1 tinv1 std1 order x1 tp = Some (y1, tp1, accs1) ->
  pop_step attach2 regul2 tinv2 std2 order x2 tp = Some (y2, tp2, accs2) ->
  uniforms tp1 = uniforms tp2 /\ normals tp1 = normals tp2.
Proof.
  intros H1 H2 E1 E2.
  destruct (pop_step_draws _ _ _ _ _ _ _ _ _ _ _ H1 E1) as (_ & _ & _ & U1 & _ & N1).
  destruct (pop_step_draws _ _ _ _ _ _ _ _ _ _ _ H2 E2) as (_ & _ & _ & U2 & _ & N2).
  now rewrite U1, U2, N1, N2.
Qed.

(** * Individual sampler *)
Section IndFacts.
  Variables attach_ind regul_ind : tens R -> list R.
  Variable tinv : R.

  Lemma alphas_sound : forall pa na pr nr al,
    alphas tinv pa na pr nr = Some al ->
    length al = length pa /\ length na = length pa /\ length pr = length pa /\ length nr = length pa /\
    forall j a b c d, nth_error pa j = Some a -> nth_error na j = Some b ->
                      nth_error pr j = Some c -> nth_error nr j = Some d ->
                      nth_error al j = Some (alpha a b c d tinv).
  Proof.
    induction pa as [|a pa IH]; intros [|b na] [|c pr] [|d nr] al H; simpl in H; try discriminate.
    - inversion H; subst. simpl. repeat split; auto. intros [|j]; discriminate.
    - destruct (alphas tinv pa na pr nr) as [r|] eqn:E; [|discriminate]. inversion H; subst; clear H.
      destruct (IH _ _ _ _ E) as (L1 & L2 & L3 & L4 & Hn). simpl. repeat split; try lia.
      intros [|j] a' b' c' d' A B C D; simpl in *.
      + now inversion A; inversion B; inversion C; inversion D; subst.
      + now apply Hn.
  Qed.

  Lemma group_accept_sound : forall al us bs r,
    group_accept al us = Some (bs, r) ->
    length bs = length al /\ (length al <= length us)%nat /\ r = skipn (length al) us /\
    forall j a u, nth_error al j = Some a -> nth_error us j = Some u -> nth_error bs j = Some (acceptb u a).
  Proof.
    induction al as [|a al IH]; intros us bs r H; simpl in H.
    - inversion H; subst. simpl. repeat split; auto; try lia. intros [|j]; discriminate.
    - destruct us as [|u us]; [discriminate|].
      destruct (group_accept al us) as [[bs' r']|] eqn:E; [|discriminate]. inversion H; subst; clear H.
      destruct (IH _ _ _ E) as (L1 & L2 & L3 & Hn). simpl. repeat split; try lia; auto.
      intros [|j] a' u' A U; simpl in *.
      + now inversion A; inversion U; subst.
      + now apply Hn.
  Qed.

  Lemma group_accept_total : forall al us, (length al <= length us)%nat -> exists bs r, group_accept al us = Some (bs, r).
  Proof.
    induction al as [|a al IH]; intros us H; simpl; [eauto|].
    destruct us as [|u us]; [simpl in H; lia|]. destruct (IH us) as (bs & r & E); [simpl in H; lia|].
    rewrite E. eauto.
  Qed.

  Lemma mix_rows_nth : forall acc old new j b o n,
    nth_error acc j = Some b -> nth_error old j = Some o -> nth_error new j = Some n ->
    nth_error (mix_rows acc old new) j = Some (if b then n else o).
  Proof.
    induction acc as [|b0 acc IH]; intros [|o0 old] [|n0 new] [|j] b o n A O N; simpl in *; try discriminate.
    - now inversion A; inversion O; inversion N; subst.
    - now apply IH.
  Qed.

  Lemma mix_rows_length : forall acc old new,
    length acc = length old -> length new = length old -> length (mix_rows acc old new) = length old.
  Proof.
    induction acc as [|b acc IH]; intros [|o old] [|n new] H1 H2; simpl in *; try discriminate; auto.
  Qed.

  Lemma ind_step_sound sds x tp y tp' acc :
    ind_step attach_ind regul_ind tinv sds x tp = Some (y, tp', acc) ->
    exists rows rows',
      x = Nd rows /\
      add_noise_rows Rplus Rmult sds rows (normals tp) = Some (rows', normals tp') /\
      y = Nd (mix_rows acc rows rows') /\
      length acc = length rows /\ length rows' = length rows /\
      length (attach_ind x) = length rows /\ length (attach_ind (Nd rows')) = length rows /\
      length (regul_ind x) = length rows /\ length (regul_ind (Nd rows')) = length rows /\
      (length rows <= length (uniforms tp))%nat /\ uniforms tp' = skipn (length rows) (uniforms tp) /\
      (size x <= length (normals tp))%nat /\ normals tp' = skipn (size x) (normals tp) /\
      (forall j u a b c d,
          nth_error (uniforms tp) j = Some u ->
          nth_error (attach_ind x) j = Some a -> nth_error (attach_ind (Nd rows')) j = Some b ->
          nth_error (regul_ind x) j = Some c -> nth_error (regul_ind (Nd rows')) j = Some d ->
          nth_error acc j = Some (acceptb u (alpha a b c d tinv))).
  Proof.
    unfold ind_step. intros H. destruct x as [?|rows]; [discriminate|].
    destruct (add_noise_rows Rplus Rmult sds rows (normals tp)) as [[rows' zs']|] eqn:En; [|discriminate].
    destruct (alphas tinv (attach_ind (Nd rows)) (attach_ind (Nd rows')) (regul_ind (Nd rows)) (regul_ind (Nd rows')))
      as [al|] eqn:Ea; [|discriminate].
    destruct (group_accept al (uniforms tp)) as [[bs us']|] eqn:Eg; [|discriminate].
    destruct (Nat.eqb_spec (length bs) (length rows)) as [El|]; [|discriminate].
    inversion H; subst; clear H. simpl.
    destruct (add_noise_rows_sound _ _ _ _ _ _ _ En) as (_ & Lr & Ln & Sn & _).
    destruct (alphas_sound _ _ _ _ _ Ea) as (A1 & A2 & A3 & A4 & Ha).
    destruct (group_accept_sound _ _ _ _ Eg) as (G1 & G2 & G3 & Hg).
    exists rows, rows'. repeat split; auto; try lia.
    now rewrite <- G1, El in G3.
  Qed.
End IndFacts.

(** decision [j] is a function of row [j] of the four vectors read and of [u_j] only *)
Lemma own_row tinv pa na pr nr us al bs r pa' na' pr' nr' us' al' bs' r' j :
  alphas tinv pa na pr nr = Some al -> group_accept al us = Some (bs, r) ->
  alphas tinv pa' na' pr' nr' = Some al' -> group_accept al' us' = Some (bs', r') ->
  (j < length pa)%nat -> (j < length pa')%nat ->
  nth_error pa j = nth_error pa' j -> nth_error na j = nth_error na' j ->
  nth_error pr j = nth_error pr' j -> nth_error nr j = nth_error nr' j ->
  nth_error us j = nth_error us' j ->
  nth_error bs j = nth_error bs' j.
Proof.
  intros Ea Eg Ea' Eg' Hj Hj' H1 H2 H3 H4 H5.
  destruct (alphas_sound _ _ _ _ _ _ Ea) as (L0 & L1 & L2 & L3 & Ha).
  destruct (alphas_sound _ _ _ _ _ _ Ea') as (L0' & L1' & L2' & L3' & Ha').
  destruct (group_accept_sound _ _ _ _ Eg) as (_ & Lu & _ & Hg).
  destruct (group_accept_sound _ _ _ _ Eg') as (_ & Lu' & _ & Hg').
  destruct (nth_error pa j) as [a|] eqn:A; [|apply nth_error_None in A; lia].
  destruct (nth_error na j) as [b|] eqn:B; [|apply nth_error_None in B; lia].
  destruct (nth_error pr j) as [c|] eqn:C; [|apply nth_error_None in C; lia].
  destruct (nth_error nr j) as [d|] eqn:D; [|apply nth_error_None in D; lia].
  destruct (nth_error us j) as [u|] eqn:U; [|apply nth_error_None in U; lia].
  rewrite (Hg j _ u (Ha j a b c d A B C D) U).
  symmetry. apply (Hg' j _ u); auto.
Qed.

(** * Combined statements used by Props/C03.v *)
Section BlockOnly.
  Context {A : Type}.
  Variable add mul : A -> A -> A.

  Lemma prefixb_false_diverge_or_short : forall idx p (t : tens A) sub v,
    tget t idx = Some sub -> tget t p = Some (Sc v) -> prefixb idx p = false -> diverge idx p = true.
  Proof.
    intros idx p t sub v Hi Hp Hf.
    destruct (entry_inside_or_diverges idx t p sub v Hi Hp) as [H|H]; [congruence | exact H].
  Qed.

  Lemma put_noise_block_only sd idx (t : tens A) zs t' zs' :
    put_noise add mul t idx sd zs = Some (t', zs') ->
    exists sub sub',
      tget t idx = Some sub /\ tget t' idx = Some sub' /\
      (size sub <= length zs)%nat /\ zs' = skipn (size sub) zs /\
      flat sub' = noise_flat add mul sd (flat sub) (firstn (size sub) zs) /\
      (forall p, diverge idx p = true -> tget t' p = tget t p) /\
      (forall p v, tget t p = Some (Sc v) -> prefixb idx p = false -> tget t' p = Some (Sc v)) /\
      (forall s, has_shape s t -> has_shape s t').
  Proof.
    intros H. destruct (put_noise_sound add mul sd idx t zs t' zs' H) as (sub & sub' & G1 & G2 & Hn & Hout & Hsh).
    destruct (add_noise_sound add mul sd sub zs sub' zs' Hn) as (L & S & F & _).
    exists sub, sub'. split; [exact G1|]. split; [exact G2|]. split; [exact L|]. split; [exact S|].
    split; [exact F|]. split; [exact Hout|]. split; [|exact Hsh].
    intros p v Hp Hf. rewrite Hout; [exact Hp|]. exact (prefixb_false_diverge_or_short idx p t sub v G1 Hp Hf).
  Qed.

  Lemma add_noise_rows_rows_only sds rows zs rows' zs' :
    add_noise_rows add mul sds rows zs = Some (rows', zs') ->
    length sds = length rows /\ length rows' = length rows /\
    (size (Nd rows) <= length zs)%nat /\ zs' = skipn (size (Nd rows)) zs /\
    forall j row, nth_error rows j = Some row ->
      exists sd row', nth_error sds j = Some sd /\ nth_error rows' j = Some row' /\
        (forall s, has_shape s row -> has_shape s row') /\
        flat row' = noise_flat add mul sd (flat row)
                      (firstn (size row) (skipn (size (Nd (firstn j rows))) zs)).
  Proof.
    intros H. destruct (add_noise_rows_sound add mul _ _ _ _ _ H) as (L1 & L2 & L3 & L4 & Hrow).
    repeat split; auto. intros j row Hj. destruct (Hrow j row Hj) as (sd & row' & A1 & A2 & A3).
    destruct (add_noise_sound add mul _ _ _ _ _ A3) as (_ & _ & F & Sh).
    exists sd, row'. repeat split; auto.
  Qed.
End BlockOnly.

(** * Non-vacuity *)
Example ex_put_noise_row :
  put_noise Nat.add Nat.mul (Nd [Nd [Sc 1; Sc 2]; Nd [Sc 3; Sc 4]])%nat [1%nat] 10%nat [5; 6; 7]%nat
  = Some (Nd [Nd [Sc 1; Sc 2]; Nd [Sc 53; Sc 64]], [7])%nat.
Proof. reflexivity. Qed.

Example ex_put_noise_coordinate :
  put_noise Nat.add Nat.mul (Nd [Nd [Sc 1; Sc 2]; Nd [Sc 3; Sc 4]])%nat [0; 1]%nat 10%nat [5; 6; 7]%nat
  = Some (Nd [Nd [Sc 1; Sc 52]; Nd [Sc 3; Sc 4]], [6; 7])%nat.
Proof. reflexivity. Qed.

Example ex_put_noise_whole :
  put_noise Nat.add Nat.mul (Nd [Nd [Sc 1; Sc 2]; Nd [Sc 3; Sc 4]])%nat [] 10%nat [5; 6; 7; 8; 9]%nat
  = Some (Nd [Nd [Sc 51; Sc 62]; Nd [Sc 73; Sc 84]], [9])%nat.
Proof. reflexivity. Qed.

Example ex_put_noise_bad_index :
  put_noise Nat.add Nat.mul (Nd [Nd [Sc 1; Sc 2]])%nat [1%nat] 10%nat [5; 6; 7]%nat = None.
Proof. reflexivity. Qed.

Example ex_put_noise_tape_exhausted :
  put_noise Nat.add Nat.mul (Nd [Nd [Sc 1; Sc 2]])%nat [0%nat] 10%nat [5]%nat = None.
Proof. reflexivity. Qed.

Example ex_rows :
  add_noise_rows Nat.add Nat.mul [10; 100]%nat [Nd [Sc 1; Sc 2]; Nd [Sc 3; Sc 4]]%nat [1; 2; 3; 4; 5]%nat
  = Some ([Nd [Sc 11; Sc 22]; Nd [Sc 303; Sc 404]], [5])%nat.
Proof. reflexivity. Qed.

Example ex_blocks :
  blocks Gibbs [2; 3]%nat = [[0; 0]; [0; 1]; [0; 2]; [1; 0]; [1; 1]; [1; 2]]%nat /\
  blocks FastGibbs [2; 3]%nat = [[0]; [1]]%nat /\ blocks MH [2; 3]%nat = [[]] /\
  pop_draws Gibbs [2; 3]%nat = (6, 6)%nat /\ pop_draws FastGibbs [2; 3]%nat = (2, 6)%nat /\
  pop_draws MH [2; 3]%nat = (1, 6)%nat.
Proof. repeat split. Qed.

(** a population step on a 2-vector succeeds and consumes 2 uniforms and 2 normals (Gibbs order) *)
Example ex_pop_step_runs :
  exists y tp' accs,
    pop_step (fun _ => 0) (fun _ => 0) 1 (Nd [Sc 1; Sc 2]) [[0%nat]; [1%nat]] (Nd [Sc 0; Sc 0])
             (Build_tape [1; 2; 3] [/ 2; / 3; / 4]) = Some (y, tp', accs).
Proof.
  apply (pop_step_total _ _ _ _ [2%nat]); simpl; try lia.
  - split; [reflexivity|]. repeat constructor.
  - repeat constructor; simpl; lia.
  - repeat constructor; simpl; eauto.
Qed.
