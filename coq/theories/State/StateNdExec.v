(** Executable instance of the [State] model on n-DIMENSIONAL values — definitions only.

    Why: the value domains of StateExec.v ([xval]) and StateWExec.v ([wval]) stop at 1-d tensors over the individuals.
    The library's per-individual values have a TRAILING shape — (n, 1) for [tau] / [xi], (n, sources), (n, visits),
    (n, visits, features) for [model] / [nll_attach_ind] — and [State.revert(subset, right_broadcasting=...)] aligns the
    1-d [subset] either on the FIRST axis (right-broadcasting, the default: [unsqueeze_right(to_revert, ndim=old.ndim - 1)],
    state.py:584-586) or, with [right_broadcasting=False], on the LAST axis (torch's standard broadcasting of
    [torch.where(mask, old, cur)]).

    Values: [tens] = a nested list of exact atoms (a 0-d tensor is [T0 a]; a d-dimensional tensor is the list of its
    (d-1)-dimensional rows), so that "row i of a per-individual value" is an element of a list WHATEVER its trailing shape.
    [nval] = a plain tensor | a [WeightedTensor] (value + optional weight, the weight being ANY non-negative tensor: boolean
    weights are 0 / 1, [weight=None] is [None]) | [NBad] (a value outside the vocabulary, never equal to an observation).

    Two models of [_select] (state.py:44-56):
      [nselect_torch]  what torch does, broadcasting included: a mask of length 1 applies to every row, a value with ONE row
                       is expanded to the length of the mask (the result then has ANOTHER shape than the two sides), a 0-d
                       value becomes 1-d; refusals: the shape assertion of [revert] (state.py:580-582) and torch's
                       "size of tensor a must match" RuntimeError.  A value weighted on ONE side only takes the other side's
                       weight for all rows (state.py:52-53).
      [nselect]        its restriction to the documented contract ("tensor values consistent with subset shape"): the mask
                       has exactly one entry per index of the axis it is aligned on and both sides have the same kind of
                       weight; [None] otherwise.  This is the [mix] of the State instance [nsem]: the theorems on histories
                       are about it.  StateNdExecProofs.v: [nselect] is a restriction of [nselect_torch].
    Both are tied to the code on every run: directed [revert] calls on a real State (every shape class, both alignments,
    every refusal) are compared with [nselect_torch] / [nselect] inside Coq ([check_nselect]), and the toy histories on
    n-d graphs with [step] at [nsem] ([check_ncase_with], [check_nscase_with]). *)
From Coq Require Import List Arith Bool ZArith Lia.
From Leaspy Require Import State.StateModel State.StateExec State.StateWExec.
Import ListNotations.

(** * nested tensors *)
Inductive tens := T0 (a : atom) | TL (l : list tens).

Definition rows (t : tens) : list tens := match t with TL l => l | T0 _ => [] end.

Fixpoint nats_eqb (a b : list nat) : bool :=
  match a, b with
  | [], [] => true
  | x :: a', y :: b' => Nat.eqb x y && nats_eqb a' b'
  | _, _ => false
  end.

Definition oshape_eqb (a b : option (list nat)) : bool :=
  match a, b with Some x, Some y => nats_eqb x y | _, _ => false end.

(** [t.shape]; [None] for a ragged nested list (not a tensor) *)
Fixpoint shape (t : tens) : option (list nat) :=
  match t with
  | T0 _ => Some []
  | TL l => match map shape l with
            | [] => Some [0]
            | Some s :: r => if forallb (oshape_eqb (Some s)) r then Some (length l :: s) else None
            | None :: _ => None
            end
  end.

Fixpoint tmap (f : atom -> atom) (t : tens) : tens :=
  match t with T0 a => T0 (f a) | TL l => TL (map (tmap f) l) end.

(** entry-wise binary operation: a 0-d operand broadcasts; two d-dimensional operands are zipped row by row (the shapes
    are checked by the callers: [compat]) *)
Fixpoint tmap2 (f : atom -> atom -> atom) (a b : tens) {struct a} : tens :=
  match a with
  | T0 x => tmap (f x) b
  | TL la =>
      match b with
      | T0 y => TL (map (tmap (fun x => f x y)) la)
      | TL lb => TL ((fix go (la lb : list tens) {struct la} : list tens :=
                        match la, lb with
                        | x :: ra, y :: rb => tmap2 f x y :: go ra rb
                        | _, _ => []
                        end) la lb)
      end
  end.

(** sum of all entries *)
Fixpoint tsum (t : tens) : atom :=
  match t with T0 a => a | TL l => fold_left aadd (map tsum l) (AFin 0%Z) end.

Fixpoint tens_eqb (a b : tens) {struct a} : bool :=
  match a, b with
  | T0 x, T0 y => atom_eqb x y
  | TL la, TL lb => (fix go (la lb : list tens) {struct la} : bool :=
                       match la, lb with
                       | [], [] => true
                       | x :: ra, y :: rb => tens_eqb x y && go ra rb
                       | _, _ => false
                       end) la lb
  | _, _ => false
  end.

(** * the selection [torch.where(mask, old, cur)] with a 1-d mask *)

(** [(right_broadcasting, subset)] *)
Definition nmask : Type := (bool * list bool)%type.

(** the axis the mask is aligned on: the first one (right-broadcasting) or the last one *)
Definition mdepth (rb : bool) (s : list nat) : nat := if rb then 0 else length s - 1.

Definition fits (d : nat) (m : list bool) (s : list nat) : bool :=
  match nth_error s d with Some k => k =? length m | None => false end.

(** selection along axis [d] when the mask has one entry per index of that axis *)
Fixpoint nsel (d : nat) (m : list bool) (o c : tens) : tens :=
  match d with
  | 0 => TL (selp m (rows o) (rows c))
  | S d' => TL (map2 (nsel d' m) (rows o) (rows c))
  end.

(** the contract: same shapes (the assertion of [revert]), at least one axis, the mask fits the axis it is aligned on *)
Definition twhere (mk : nmask) (o c : tens) : option tens :=
  match shape o, shape c with
  | Some so, Some sc =>
      if nats_eqb so sc then
        let d := mdepth (fst mk) so in
        if fits d (snd mk) so then Some (nsel d (snd mk) o c) else None
      else None
  | _, _ => None
  end.

(** torch's broadcasting of one axis of length [d] against the mask of length [k]: equal lengths -> entry by entry; [k = 1] -> the
    single mask entry decides for all; [d = 1] -> the single entry is expanded to [k] entries; otherwise RuntimeError *)
Definition sel_axis {A} (m : list bool) (o c : list A) : option (list A) :=
  if length o =? length m then Some (selp m o c)
  else match m, o, c with
       | [b], _, _ => Some (if b then o else c)
       | _, [x], [y] => Some (map (fun b : bool => if b then x else y) m)
       | _, _, _ => None
       end.

Fixpoint mapM2 {A B C} (f : A -> B -> option C) (la : list A) (lb : list B) : option (list C) :=
  match la, lb with
  | [], [] => Some []
  | a :: ra, b :: rb => match f a b, mapM2 f ra rb with Some x, Some r => Some (x :: r) | _, _ => None end
  | _, _ => None
  end.

Fixpoint nsel_t (d : nat) (m : list bool) (o c : tens) : option tens :=
  match d with
  | 0 => option_map TL (sel_axis m (rows o) (rows c))
  | S d' => option_map TL (mapM2 (nsel_t d' m) (rows o) (rows c))
  end.

Definition twhere_torch (mk : nmask) (o c : tens) : option tens :=
  match shape o, shape c with
  | Some so, Some sc =>
      if nats_eqb so sc then
        match o, c with
        | T0 x, T0 y => Some (TL (map (fun b : bool => T0 (if b then x else y)) (snd mk)))
        | _, _ => nsel_t (mdepth (fst mk) so) (snd mk) o c
        end
      else None                                   (* AssertionError "Bad shapes" *)
  | _, _ => None
  end.

(** * values *)
Inductive nval := NP (t : tens) | NW (v : tens) (w : option tens) | NBad.

Definition oor {A} (a b : option A) : option A := match a with Some _ => a | None => b end.

(** [torch.ones_like(w)]: the weight that stands for a side WITHOUT weights since the repair of [_select] ("a side that carries no weights
    is fully weighted") *)
Definition ones_like (w : tens) : tens := tmap (fun _ => AFin 1%Z) w.

(** [_select(mask, old, cur)], state.py:44-57, for a given selection of tensors [wh] and a given rule [fill] for the weight of a side that
    has none, computed from the OTHER side's weight: [ones_like] (the code as it is) or the identity (the code before the repair:
    [old_wgt = old_w.weight if old_w.weight is not None else cur_w.weight]).  [one_sided = false] refuses pairs of different kinds. *)
Definition nselect_with (wh : nmask -> tens -> tens -> option tens) (one_sided : bool) (fill : tens -> tens)
                        (mk : nmask) (old cur : nval) : option nval :=
  match old, cur with
  | NP o, NP c => option_map NP (wh mk o c)
  | NBad, _ | _, NBad => None
  | _, _ =>
      let '(ov, ow) := match old with NW v w => (v, w) | NP v => (v, None) | NBad => (T0 AOff, None) end in
      let '(cv, cw) := match cur with NW v w => (v, w) | NP v => (v, None) | NBad => (T0 AOff, None) end in
      let same_kind := match old, cur with
                       | NW _ (Some _), NW _ (Some _) | NW _ None, NW _ None => true
                       | _, _ => false
                       end in
      if same_kind || one_sided then
        match wh mk ov cv with
        | None => None
        | Some v =>
            match oor ow (option_map fill cw), oor cw (option_map fill ow) with
            | Some ow', Some cw' => match wh mk ow' cw' with Some w => Some (NW v (Some w)) | None => None end
            | _, _ => Some (NW v None)
            end
        end
      else None
  end.

(** what the code does *)
Definition nselect_torch : nmask -> nval -> nval -> option nval := nselect_with twhere_torch true ones_like.
(** its restriction to the contract (same shapes, one mask entry per index of the axis the mask is aligned on): the [mix] of the State
    instance; the two sides may be of different kinds *)
Definition nselect : nmask -> nval -> nval -> option nval := nselect_with twhere true ones_like.

(** the code BEFORE the repair: a side without weight takes the OTHER side's weight; its contract-restricted form had to exclude pairs of
    different kinds ([F_mix] is false for them: [one_sided_weight_old_refuted]) *)
Definition nselect_torch_old : nmask -> nval -> nval -> option nval := nselect_with twhere_torch true (fun w => w).
Definition nselect_old : nmask -> nval -> nval -> option nval := nselect_with twhere false (fun w => w).

(** NOT the code (kept for the discriminating examples): values selected, the weight taken from ONE side for all rows *)
Definition nselect_old_weight (mk : nmask) (old cur : nval) : option nval :=
  match nselect mk old cur, old with
  | Some (NW v (Some _)), NW _ (Some ow) => Some (NW v (Some ow))
  | r, _ => r
  end.

(** NOT the code: the mask aligned on the wrong side (last axis under right-broadcasting and conversely) *)
Definition nselect_wrong_side (mk : nmask) (old cur : nval) : option nval := nselect (negb (fst mk), snd mk) old cur.

(** * [State.put] *)
Definition compat (a b : option (list nat)) : bool :=
  match a, b with
  | Some [], Some _ | Some _, Some [] => true
  | Some x, Some y => nats_eqb x y
  | _, _ => false
  end.

Definition tadd2 (a b : tens) : option tens := if compat (shape a) (shape b) then Some (tmap2 aadd a b) else None.

Definition tput (ix : option nat) (v : tens) (acc : bool) (old : tens) : option tens :=
  match ix with
  | None => tadd2 old v
  | Some j =>
      match old, v with
      | TL l, T0 a => option_map TL (list_upd l j (tmap (fun x => if acc then aadd x a else a)))   (* the whole row [j] *)
      | _, _ => None
      end
  end.

Definition nput (ix : option nat) (v : nval) (acc : bool) (old : nval) : option nval :=
  match v, old with
  | NP a, NP b => option_map NP (tput ix a acc b)
  | NP a, NW ov ow => match ix with
                      | None => option_map (fun r => NW r ow) (tadd2 ov a)      (* WeightedTensor.__add__ keeps the weight *)
                      | Some _ => None                                          (* no [index_put] on a WeightedTensor *)
                      end
  | _, _ => None
  end.

Definition nsem : sem nval nmask nat := mkSem nput nselect.
Definition nsem_torch : sem nval nmask nat := mkSem nput nselect_torch.
Definition nsem_torch_old : sem nval nmask nat := mkSem nput nselect_torch_old.
Definition nsem_old_weight : sem nval nmask nat := mkSem nput nselect_old_weight.
Definition nsem_wrong_side : sem nval nmask nat := mkSem nput nselect_wrong_side.

(** * node functions (the toy vocabulary of StateExec.v / StateWExec.v on n-d values, plus a two-parent function of
      weighted parents) *)
Inductive dfun :=
| DAffine (c0 : Z) (cs : list Z)       (* c0 + sum_j cs_j * arg_j                    entry-wise, any number of parents *)
| DSum (c0 : Z) (cs : list Z)          (* c0 + sum_j cs_j * arg_j.sum()              aggregate *)
| DLog2                                (* torch.log2(arg_0) *)
| DThr (c0 c thr : Z)                  (* WeightedTensor(c0 + c*x, weight=(x >= thr)) *)
| DMap (c0 c : Z)                      (* WeightedTensor(c0 + c*W.value, W.weight) *)
| DVal (c0 c : Z)                      (* c0 + c * W.weighted_value *)
| DWgt (c0 c : Z)                      (* c0 + c * W.weight.to(W.value.dtype) *)
| DSumW (c0 c : Z)                     (* c0 + c * W.weighted_value.sum() *)
| DCnt (c0 c : Z)                      (* c0 + c * W.weight.sum() *)
| DWAdd (c1 c2 : Z).                   (* WeightedTensor(c1*A.value + c2*B.value, A.weight * B.weight)   TWO weighted parents *)

(** the common shape of operands of which the 0-d ones broadcast: [Some []] if all are 0-d *)
Fixpoint common_shape (l : list (option (list nat))) : option (list nat) :=
  match l with
  | [] => Some []
  | None :: _ => None
  | Some s :: r =>
      match common_shape r with
      | None => None
      | Some [] => Some s
      | Some s' => match s with [] => Some s' | _ => if nats_eqb s s' then Some s else None end
      end
  end.

Fixpoint tlin (acc : tens) (cs : list Z) (args : list tens) : tens :=
  match cs, args with
  | c :: cr, a :: ar => tlin (tmap2 aadd acc (tmap (amul (AFin c)) a)) cr ar
  | _, _ => acc
  end.

Fixpoint unplainN (l : list nval) : option (list tens) :=
  match l with
  | [] => Some []
  | NP x :: r => match unplainN r with Some r' => Some (x :: r') | None => None end
  | _ :: _ => None
  end.

Definition zb (b : bool) : atom := AFin (if b then 1 else 0)%Z.

(** [x >= thr] on one entry; an entry outside the exact vocabulary gives an unknown weight *)
Definition ageA (thr : Z) (x : atom) : atom :=
  match x with AFin z => zb (thr <=? z)%Z | APInf => zb true | ANInf | ANaN => zb false | AOff => AOff end.

(** one entry of [weighted_value = weight * value.masked_fill(weight == 0, 0)] *)
Definition wvA (v w : atom) : atom :=
  match w with AFin 0%Z => AFin 0%Z | _ => amul w v end.

Definition affT (c0 c : Z) (t : tens) : tens := tmap (aff c0 c) t.

Definition eval_dfun (f : dfun) (args : list nval) : nval :=
  match f, args with
  | DAffine c0 cs, _ =>
      match unplainN args with
      | Some xs => if (length cs =? length xs) && is_some (common_shape (map shape xs))
                   then NP (tlin (T0 (AFin c0)) cs xs) else NBad
      | None => NBad
      end
  | DSum c0 cs, _ =>
      match unplainN args with
      | Some xs => if (length cs =? length xs) && forallb (fun x => is_some (shape x)) xs
                   then NP (tlin (T0 (AFin c0)) cs (map (fun x => T0 (tsum x)) xs)) else NBad
      | None => NBad
      end
  | DLog2, [NP x] => NP (tmap alog2 x)
  | DThr c0 c thr, [NP (TL l)] => NW (affT c0 c (TL l)) (Some (tmap (ageA thr) (TL l)))
  | DMap c0 c, [NW v w] => NW (affT c0 c v) w
  | DVal c0 c, [NW v (Some w)] => if oshape_eqb (shape v) (shape w) then NP (affT c0 c (tmap2 wvA v w)) else NBad
  | DVal c0 c, [NW v None] => NP (affT c0 c v)
  | DWgt c0 c, [NW v (Some w)] => if oshape_eqb (shape v) (shape w) then NP (affT c0 c w) else NBad
  | DSumW c0 c, [NW v (Some w)] => if oshape_eqb (shape v) (shape w) then NP (T0 (aff c0 c (tsum (tmap2 wvA v w)))) else NBad
  | DCnt c0 c, [NW v (Some w)] => if oshape_eqb (shape v) (shape w) then NP (T0 (aff c0 c (tsum w))) else NBad
  | DWAdd c1 c2, [NW v1 (Some w1); NW v2 (Some w2)] =>
      if oshape_eqb (shape v1) (shape w1) && oshape_eqb (shape v2) (shape w2) && oshape_eqb (shape v1) (shape v2)
      then NW (tmap2 aadd (tmap (amul (AFin c1)) v1) (tmap (amul (AFin c2)) v2)) (Some (tmap2 amul w1 w2)) else NBad
  | _, _ => NBad
  end.

Record dspec := mkD {
  d_linked : bool; d_settable : bool; d_hyper : option nval; d_axis : bool;
  d_parents : list nat; d_anc : list nat; d_desc : list nat; d_fun : dfun }.

Definition dspec0 : dspec := mkD false false None false [] [] [] DLog2.

Definition mk_ngraph (l : list dspec) : graph nval :=
  mkGraph (length l)
    (fun i => d_linked (nth i l dspec0)) (fun i => d_settable (nth i l dspec0))
    (fun i => d_hyper (nth i l dspec0)) (fun i => d_axis (nth i l dspec0))
    (fun i => d_parents (nth i l dspec0)) (fun i => d_anc (nth i l dspec0)) (fun i => d_desc (nth i l dspec0))
    (fun i args => eval_dfun (d_fun (nth i l dspec0)) args).

(** * comparison with observed results: values AND weights, entry by entry *)
Definition otens_eqb (a b : option tens) : bool :=
  match a, b with None, None => true | Some x, Some y => tens_eqb x y | _, _ => false end.

Definition nval_eqb (a b : nval) : bool :=
  match a, b with
  | NP x, NP y => tens_eqb x y
  | NW v w, NW v' w' => tens_eqb v v' && otens_eqb w w'
  | _, _ => false
  end.

Definition onval_eqb (a b : option nval) : bool :=
  match a, b with None, None => true | Some x, Some y => nval_eqb x y | _, _ => false end.

Definition nop := op nval nmask nat.

Definition check_ncase_with (sm : sem nval nmask nat) (fx : bool)
                            (c : list dspec * list (nop * out nval * bool)) : bool :=
  let g := mk_ngraph (fst c) in
  gwf_b g && gagree nval_eqb g sm fx (init_store g) (snd c).

(** one directed [revert(subset, right_broadcasting=rb)] on a doubly held value: [observed] is what the real State holds
    afterwards ([None]: the call raised).  The code is compared with [nselect_torch]; the contract-restricted [nselect]
    has to agree with it wherever it is defined, and has to be defined exactly when the result keeps the shape and both
    sides have the same kind of weight ([expect_contract], computed by the harness from the shapes alone). *)
Definition check_nselect (c : nmask * nval * nval * option nval * bool) : bool :=
  match c with (mk, old, cur, observed, expect_contract) =>
    onval_eqb (nselect_torch mk old cur) observed
    && match nselect mk old cur with
       | Some x => expect_contract && onval_eqb (Some x) observed
       | None => negb expect_contract
       end
  end.

(** the same against the code BEFORE the repair of [_select] (the tree under test is recognised on every run) *)
Definition check_nselect_old (c : nmask * nval * nval * option nval * bool) : bool :=
  match c with (mk, old, cur, observed, expect_contract) =>
    onval_eqb (nselect_torch_old mk old cur) observed
    && match nselect_old mk old cur with
       | Some x => expect_contract && onval_eqb (Some x) observed
       | None => negb expect_contract
       end
  end.

(** * the class for which [F_mix] is proved: every derived node carrying the individual axis has an ENTRY-WISE function —
      an affine map of ANY number of plain parents, log2, the weighted one-parent maps, the two-parent [DWAdd] *)
Definition entrywise_fun (f : dfun) (n_parents : nat) : bool :=
  match f with
  | DAffine _ cs => length cs =? n_parents
  | DLog2 | DThr _ _ _ | DMap _ _ | DVal _ _ | DWgt _ _ => n_parents =? 1
  | DWAdd _ _ => n_parents =? 2
  | DSum _ _ | DSumW _ _ | DCnt _ _ => false
  end.

Definition entrywise_axis_b (l : list dspec) : bool :=
  forallb (fun s => negb (d_linked s && d_axis s) || entrywise_fun (d_fun s) (length (d_parents s))) l.

Definition nread_of (g : graph nval) (sm : sem nval nmask nat) (fx : bool) (ops : list nop) (k i : nat) : out nval :=
  snd (step g sm fx (fst (run g sm fx (init_store g) ops)) (Get k i)).

Definition nfresh_of (g : graph nval) (sm : sem nval nmask nat) (fx : bool) (ops : list nop) (k i : nat) : option (option nval) :=
  match nth_error (fst (run g sm fx (init_store g) ops)) k with
  | Some st => Some (scratch g (values st) i)
  | None => None
  end.

(** * "row [j] of the result is the forked row where the mask holds and the current row elsewhere", for a value of any kind:
      the rows of the value AND of the weight (when there is one) come from the same side *)
Definition rows_from (m : list bool) (o c t : tens) : Prop :=
  length (rows t) = length m /\
  forall j b, nth_error m j = Some b -> nth_error (rows t) j = (if b then nth_error (rows o) j else nth_error (rows c) j).

Definition nvalue (v : nval) : option tens := match v with NP t => Some t | NW t _ => Some t | NBad => None end.

(** the weight of one side of a selection: its own, or — since a side without weights is fully weighted — ones of the other side's weight *)
Definition eff_weight (v other : nval) : option tens :=
  match v with
  | NW _ (Some w) => Some w
  | NBad => None
  | _ => match other with NW _ (Some w') => Some (ones_like w') | _ => None end
  end.

Definition rows_selected (m : list bool) (old cur r : nval) : Prop :=
  match nvalue old, nvalue cur, nvalue r with
  | Some o, Some c, Some t => rows_from m o c t
  | _, _, _ => False
  end /\
  match eff_weight old cur, eff_weight cur old, r with
  | Some ow, Some cw, NW _ (Some rw) => rows_from m ow cw rw
  | None, None, NP _ => exists o c, old = NP o /\ cur = NP c
  | None, None, NW _ None => True
  | _, _, _ => False
  end.
