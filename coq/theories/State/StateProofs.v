(** Proofs about the cache model of [State]: the invariant, its preservation by every operation,
    freshness of every successful read, errors exactly on unset independent ancestors. *)
From Coq Require Import List Arith Bool Lia.
From Leaspy Require Import State.StateModel.
Import ListNotations.

Section Proofs.
Variables V M IX : Type.
Variable g : graph V.
Variable sm : sem V M IX.
Variable fx chk : bool.
Hypothesis wf : WF g.

Notation vals := (vals V).
Notation n := (gn g).

(** ** small facts *)

Lemma upd_same (vs : vals) k o : upd vs k o k = o.
Proof. unfold upd. now rewrite Nat.eqb_refl. Qed.

Lemma upd_other (vs : vals) k o j : j <> k -> upd vs k o j = vs j.
Proof. intros H. unfold upd. destruct (Nat.eqb j k) eqn:E; [apply Nat.eqb_eq in E; congruence | reflexivity]. Qed.

Lemma mem_in j l : mem j l = true <-> In j l.
Proof.
  unfold mem. rewrite existsb_exists. split.
  - intros [x [Hx He]]. apply Nat.eqb_eq in He. now subst.
  - intros H. exists j. split; [exact H | apply Nat.eqb_refl].
Qed.

Lemma mem_false j l : mem j l = false <-> ~ In j l.
Proof. rewrite <- mem_in. destruct (mem j l); split; congruence. Qed.

Lemma mapM_ext (vs vs' : vals) l : (forall p, In p l -> vs p = vs' p) -> mapM vs l = mapM vs' l.
Proof.
  induction l as [|p r IH]; intros H; cbn; [reflexivity|].
  rewrite (H p (or_introl eq_refl)), IH; [reflexivity|].
  intros q Hq. apply H. now right.
Qed.

Lemma mapM_some (vs : vals) l args : mapM vs l = Some args -> Forall2 (fun p v => vs p = Some v) l args.
Proof.
  revert args. induction l as [|p r IH]; intros args H; cbn in H.
  - injection H as <-. constructor.
  - destruct (vs p) eqn:Ep; [|discriminate]. destruct (mapM vs r) eqn:Er; [|discriminate].
    injection H as <-. constructor; [exact Ep | now apply IH].
Qed.

Lemma mapM_some_in (vs : vals) l args p : mapM vs l = Some args -> In p l -> exists v, vs p = Some v.
Proof.
  intros H Hp. apply mapM_some in H. induction H as [|q v r vr Hq HF IH]; [inversion Hp|].
  destruct Hp as [->|Hp]; [eauto | now apply IH].
Qed.

Lemma mapM_all (vs : vals) l : (forall p, In p l -> vs p <> None) -> exists args, mapM vs l = Some args.
Proof.
  induction l as [|p r IH]; intros H; cbn; [eauto|].
  destruct (vs p) eqn:Ep; [|exfalso; apply (H p); [now left | exact Ep]].
  destruct IH as [args Ha]; [intros q Hq; apply H; now right|]. rewrite Ha. eauto.
Qed.

Lemma mapM_none (vs : vals) l : mapM vs l = None -> exists p, In p l /\ vs p = None.
Proof.
  induction l as [|p r IH]; cbn; [discriminate|].
  destruct (vs p) eqn:Ep; [|intros _; exists p; split; [now left | exact Ep]].
  destruct (mapM vs r) eqn:Er; [discriminate|]. intros _.
  destruct (IH eq_refl) as [q [Hq Hn]]. exists q. split; [now right | exact Hn].
Qed.

Lemma mapM_length (vs : vals) l args : mapM vs l = Some args -> length args = length l.
Proof. intros H. apply mapM_some in H. induction H; cbn; congruence. Qed.

Lemma increasing_lt a l : increasing (a :: l) -> forall b, In b l -> a < b.
Proof.
  revert a. induction l as [|c r IH]; intros a H b Hb; [inversion Hb|].
  cbn in H. destruct H as [Hac Hr]. destruct Hb as [->|Hb]; [exact Hac|].
  assert (c < b) by (apply IH; [exact Hr | exact Hb]). lia.
Qed.

Lemma increasing_tail a l : increasing (a :: l) -> increasing l.
Proof. cbn. tauto. Qed.

Lemma increasing_app_lt l : forall a x, increasing (l ++ [x]) -> In a l -> a < x.
Proof.
  induction l as [|b r IH]; intros a x H Ha; [inversion Ha|].
  destruct Ha as [->|Ha].
  - apply (increasing_lt a (r ++ [x])); [exact H | apply in_or_app; right; now left].
  - apply IH; [exact (increasing_tail _ _ H) | exact Ha].
Qed.

(** consequences of well-formedness *)
Lemma desc_gt i k : i < n -> In k (desc g i) -> i < k.
Proof. intros Hi Hk. exact (increasing_lt i (desc g i) (wf_desc_inc wf i Hi) k Hk). Qed.

Lemma desc_linked i k : i < n -> In k (desc g i) -> linked g k = true.
Proof.
  intros Hi Hk. destruct (wf_desc_only wf i k Hi Hk) as [p [Hp _]].
  destruct (linked g k) eqn:L; [reflexivity|].
  rewrite (wf_indep_no_parents wf k (wf_desc_bound wf i k Hi Hk) L) in Hp. inversion Hp.
Qed.

Lemma anc_lt i a : i < n -> In a (anc g i) -> a < i.
Proof. intros Hi Ha. exact (increasing_app_lt (anc g i) a i (wf_anc_inc wf i Hi) Ha). Qed.

(** in [anc i], the parents of an element come before it *)
Lemma anc_sorted i l1 a l2 : i < n -> anc g i = l1 ++ a :: l2 -> forall p, In p (parents g a) -> In p l1.
Proof.
  intros Hi E p Hp.
  assert (Ha : In a (anc g i)) by (rewrite E; apply in_or_app; right; now left).
  assert (Hpa : In p (anc g i)) by (eapply wf_anc_trans; eauto).
  assert (Hlt : p < a) by (apply (wf_parents_lt wf a p); [pose proof (anc_lt i a Hi Ha); lia | exact Hp]).
  rewrite E in Hpa. apply in_app_or in Hpa. destruct Hpa as [H|H]; [exact H|].
  exfalso. pose proof (wf_anc_inc wf i Hi) as Hinc. rewrite E in Hinc.
  clear - Hinc H Hlt. induction l1 as [|b r IH]; cbn in Hinc.
  - destruct H as [->|H]; [lia|].
    assert (a < p); [|lia]. apply (increasing_lt a (l2 ++ [i]) Hinc). apply in_or_app. now left.
  - apply IH. exact (increasing_tail _ _ Hinc).
Qed.

(** ** the invariant and the caching steps *)

Lemma Inv_ext (a b : vals) : (forall j, a j = b j) -> Inv g a -> Inv g b.
Proof.
  intros E HI k v Hk Lk Hv. rewrite <- E in Hv. destruct (HI k v Hk Lk Hv) as [args [Hm ->]].
  exists args. split; [|reflexivity]. rewrite <- Hm. apply mapM_ext. intros p _. now rewrite E.
Qed.

Lemma compute_ok (vs : vals) a v : compute g vs a = COk v ->
  linked g a = true /\ exists args, mapM vs (parents g a) = Some args /\ v = F g a args.
Proof.
  unfold compute. destruct (linked g a); [|discriminate].
  destruct (mapM vs (parents g a)) as [args|]; [|discriminate].
  intros H. injection H as <-. split; [reflexivity|]. exists args. now split.
Qed.

Lemma compute_ext (vs vs' : vals) a : (forall p, In p (parents g a) -> vs p = vs' p) -> compute g vs a = compute g vs' a.
Proof. intros H. unfold compute. now rewrite (mapM_ext vs vs' _ H). Qed.

(** a cached node never has an unset parent *)
Lemma Inv_parent_cached (vs : vals) k v p : Inv g vs -> k < n -> vs k = Some v -> In p (parents g k) -> vs p <> None.
Proof.
  intros HI Hk Hv Hp. destruct (linked g k) eqn:L.
  - destruct (HI k v Hk L Hv) as [args [Hm _]]. destruct (mapM_some_in _ _ _ p Hm Hp) as [w Hw]. congruence.
  - rewrite (wf_indep_no_parents wf k Hk L) in Hp. inversion Hp.
Qed.

Lemma Inv_cache (vs : vals) a v : a < n -> Inv g vs -> vs a = None -> compute g vs a = COk v -> Inv g (upd vs a (Some v)).
Proof.
  intros Ha HI Hn Hc k w Hk Lk Hw. destruct (compute_ok _ _ _ Hc) as [La [args [Hm ->]]].
  destruct (Nat.eq_dec k a) as [->|Hka].
  - rewrite upd_same in Hw. injection Hw as <-. exists args. split; [|reflexivity].
    rewrite <- Hm. apply mapM_ext. intros p Hp. apply upd_other.
    pose proof (wf_parents_lt wf a p Ha Hp). lia.
  - rewrite upd_other in Hw by exact Hka. destruct (HI k w Hk Lk Hw) as [args' [Hm' ->]].
    exists args'. split; [|reflexivity]. rewrite <- Hm'. apply mapM_ext. intros p Hp.
    apply upd_other. intros ->. exact (Inv_parent_cached vs k _ a HI Hk Hw Hp Hn).
Qed.

Lemma Bounded_cache (vs : vals) a v : a < n -> Bounded g vs -> Bounded g (upd vs a (Some v)).
Proof. intros Ha HB k Hk. rewrite upd_other by lia. now apply HB. Qed.

(** what a walk does: it only adds values, only at nodes of its list, only derived ones *)
Definition extends (vs vs' : vals) (l : list nat) : Prop :=
  (forall j v, vs j = Some v -> vs' j = Some v) /\
  (forall j, vs' j <> vs j -> In j l /\ linked g j = true /\ vs j = None).

Lemma extends_refl vs l : extends vs vs l.
Proof. split; [auto | intros j H; congruence]. Qed.

Lemma walk_extends l : forall vs, extends vs (fst (walk g vs l)) l.
Proof.
  induction l as [|a r IH]; intros vs; cbn; [apply extends_refl|].
  destruct (vs a) eqn:Ea.
  - destruct (IH vs) as [H1 H2]. split; [exact H1|]. intros j Hj. destruct (H2 j Hj) as [? ?]. split; [now right | assumption].
  - destruct (compute g vs a) eqn:Ec; cbn; try apply extends_refl.
    destruct (IH (upd vs a (Some v))) as [H1 H2]. split.
    + intros j w Hj. apply H1. rewrite upd_other; [exact Hj | congruence].
    + intros j Hj. destruct (Nat.eq_dec j a) as [->|Hja].
      * split; [now left|]. split; [apply (compute_ok _ _ _ Ec) | exact Ea].
      * destruct (H2 j) as [Hin [Hl Hn]]; [now rewrite upd_other|]. rewrite upd_other in Hn by exact Hja.
        split; [now right | now split].
Qed.

Lemma Inv_walk l : forall vs, (forall a, In a l -> a < n) -> Inv g vs -> Inv g (fst (walk g vs l)).
Proof.
  induction l as [|a r IH]; intros vs Hl HI; cbn; [exact HI|].
  assert (Hr : forall b, In b r -> b < n) by (intros b Hb; apply Hl; now right).
  destruct (vs a) eqn:Ea; [now apply IH|].
  destruct (compute g vs a) eqn:Ec; cbn; try exact HI.
  apply IH; [exact Hr|]. apply Inv_cache; auto. apply Hl. now left.
Qed.

Lemma Bounded_walk l : forall vs, (forall a, In a l -> a < n) -> Bounded g vs -> Bounded g (fst (walk g vs l)).
Proof.
  intros vs Hl HB k Hk. destruct (walk_extends l vs) as [_ H2].
  destruct (fst (walk g vs l) k) eqn:E; [|reflexivity].
  exfalso. destruct (H2 k) as [Hin _]; [rewrite (HB k Hk), E; discriminate|]. apply Hl in Hin. lia.
Qed.


(** ** reads *)

Lemma anc_bound i : i < n -> forall a, In a (anc g i) -> a < n.
Proof. intros Hi a Ha. pose proof (anc_lt i a Hi Ha). lia. Qed.

Lemma extends_weaken vs vs' l l' : (forall j, In j l -> In j l') -> extends vs vs' l -> extends vs vs' l'.
Proof. intros H [H1 H2]. split; [exact H1|]. intros j Hj. destruct (H2 j Hj) as [? ?]. split; auto. Qed.

Lemma extends_indep vs vs' l : extends vs vs' l -> forall j, linked g j = false -> vs' j = vs j.
Proof.
  intros [H1 H2] j Lj. destruct (vs j) eqn:E2; [now apply H1|].
  destruct (vs' j) eqn:E1; [|reflexivity].
  destruct (H2 j) as [_ [Hl _]]; congruence.
Qed.

(** everything [get] does, in one statement *)
Lemma get_props (vs : vals) i : Inv g vs -> Bounded g vs ->
  let vs' := fst (get g vs i) in
  Inv g vs' /\ Bounded g vs' /\ extends vs vs' (anc g i ++ [i]) /\
  (forall v, snd (get g vs i) = Ok v -> i < n /\ vs' i = Some v).
Proof.
  intros HI HB. unfold get. destruct (i <? n) eqn:Ei; cbn [negb].
  2:{ cbn. split; [|split; [|split]]; auto; [apply extends_refl | discriminate]. }
  apply Nat.ltb_lt in Ei. destruct (vs i) eqn:Evi.
  { cbn. split; [|split; [|split]]; auto; [apply extends_refl | intros w Hw; split; congruence]. }
  pose proof (Inv_walk (anc g i) vs (anc_bound i Ei) HI) as HIw.
  pose proof (Bounded_walk (anc g i) vs (anc_bound i Ei) HB) as HBw.
  pose proof (walk_extends (anc g i) vs) as HEw.
  destruct (walk g vs (anc g i)) as [vs' e]. cbn [fst] in *.
  assert (HE' : extends vs vs' (anc g i ++ [i])) by (eapply extends_weaken; [|exact HEw]; intros; apply in_or_app; now left).
  destruct e as [e|]; [cbn; split; [|split; [|split]]; auto; discriminate|].
  destruct (compute g vs' i) eqn:Ec; cbn; try (split; [|split; [|split]]; auto; discriminate).
  assert (Hvi' : vs' i = None).
  { destruct (vs' i) eqn:E; [|reflexivity]. destruct HEw as [_ H2]. destruct (H2 i) as [Hin _]; [congruence|].
    pose proof (anc_lt i i Ei Hin). lia. }
  split; [now apply Inv_cache|]. split; [now apply Bounded_cache|]. split.
  - destruct HE' as [H1 H2]. split.
    + intros j w Hj. rewrite upd_other; [now apply H1 | congruence].
    + intros j Hj. destruct (Nat.eq_dec j i) as [->|Hji].
      * split; [apply in_or_app; right; now left|]. split; [apply (compute_ok _ _ _ Ec) | exact Evi].
      * rewrite upd_other in Hj by exact Hji. now apply H2.
  - intros w Hw. injection Hw as <-. split; [exact Ei | apply upd_same].
Qed.

(** ** from-scratch evaluation *)

Lemma scratch_tab_ge ind m : forall j, m <= j -> scratch_tab g ind m j = None.
Proof.
  induction m as [|m IH]; intros j Hj; cbn; [reflexivity|].
  rewrite upd_other by lia. apply IH. lia.
Qed.

Lemma scratch_tab_at ind m : forall j, j < m -> scratch_tab g ind m j = node_eval g (scratch_tab g ind j) ind j.
Proof.
  induction m as [|m IH]; intros j Hj; [lia|]. cbn.
  destruct (Nat.eq_dec j m) as [->|Hjm]; [now rewrite upd_same|].
  rewrite upd_other by exact Hjm. apply IH. lia.
Qed.

Lemma scratch_tab_stable ind m m' j : j < m -> j < m' -> scratch_tab g ind m j = scratch_tab g ind m' j.
Proof. intros H H'. now rewrite !scratch_tab_at. Qed.

Lemma scratch_unfold ind i : i < n ->
  scratch g ind i =
    if linked g i then match mapM (scratch g ind) (parents g i) with Some args => Some (F g i args) | None => None end
    else ind i.
Proof.
  intros Hi. unfold scratch at 1. rewrite scratch_tab_at by exact Hi. unfold node_eval.
  destruct (linked g i); [|reflexivity].
  rewrite (mapM_ext (scratch_tab g ind i) (scratch g ind)); [reflexivity|].
  intros p Hp. unfold scratch. pose proof (wf_parents_lt wf i p Hi Hp). apply scratch_tab_stable; lia.
Qed.

Lemma scratch_out ind i : n <= i -> scratch g ind i = None.
Proof. apply scratch_tab_ge. Qed.

Lemma mapM_of_forall2 (vs ws : vals) l args :
  Forall2 (fun p v => vs p = Some v) l args -> (forall p v, In p l -> vs p = Some v -> ws p = Some v) -> mapM ws l = Some args.
Proof.
  intros HF. induction HF as [|p v r vr Hp HF IH]; intros H; cbn; [reflexivity|].
  rewrite (H p v (or_introl eq_refl) Hp), IH; [reflexivity|]. intros q w Hq. apply H. now right.
Qed.

(** a cached value is the from-scratch value of the current independent values *)
Theorem cached_is_scratch (vs : vals) : Inv g vs -> forall k v, k < n -> vs k = Some v -> scratch g vs k = Some v.
Proof.
  intros HI k. induction k as [k IHk] using lt_wf_ind. intros v Hk Hv.
  rewrite scratch_unfold by exact Hk. destruct (linked g k) eqn:Lk; [|exact Hv].
  destruct (HI k v Hk Lk Hv) as [args [Hm ->]].
  rewrite (mapM_of_forall2 vs (scratch g vs) _ args (mapM_some _ _ _ Hm)); [reflexivity|].
  intros p w Hp Hw. pose proof (wf_parents_lt wf k p Hk Hp). apply IHk; [lia | lia | exact Hw].
Qed.

Definition same_indep (a b : vals) : Prop := forall j, linked g j = false -> a j = b j.

Lemma scratch_ext (a b : vals) : same_indep a b -> forall i, scratch g a i = scratch g b i.
Proof.
  intros E i. destruct (le_lt_dec n i) as [Hi|Hi]; [now rewrite !scratch_out|].
  induction i as [i IH] using lt_wf_ind. rewrite !scratch_unfold by exact Hi.
  destruct (linked g i) eqn:Li; [|now apply E].
  rewrite (mapM_ext (scratch g a) (scratch g b)); [reflexivity|].
  intros p Hp. pose proof (wf_parents_lt wf i p Hi Hp). apply IH; lia.
Qed.

Lemma scratch_parents ind i p : i < n -> scratch g ind i <> None -> In p (parents g i) -> scratch g ind p <> None.
Proof.
  intros Hi Hs Hp. rewrite scratch_unfold in Hs by exact Hi. destruct (linked g i) eqn:Li.
  - destruct (mapM (scratch g ind) (parents g i)) as [args|] eqn:Hm; [|congruence].
    destruct (mapM_some_in _ _ _ p Hm Hp) as [w Hw]. congruence.
  - rewrite (wf_indep_no_parents wf i Hi Li) in Hp. inversion Hp.
Qed.

Lemma scratch_anc ind i : i < n -> scratch g ind i <> None -> forall a, In a (anc g i) -> scratch g ind a <> None.
Proof.
  intros Hi Hs a. remember (i - a) as d eqn:Ed. revert a Ed.
  induction d as [d IH] using lt_wf_ind. intros a Ed Ha.
  destruct (wf_anc_only wf i a Hi Ha) as [Hp|[c [Hc Hp]]].
  - exact (scratch_parents ind i a Hi Hs Hp).
  - pose proof (anc_lt i c Hi Hc) as Hci. pose proof (anc_lt i a Hi Ha) as Hai.
    assert (Hcn : c < n) by lia. pose proof (wf_parents_lt wf c a Hcn Hp).
    apply (scratch_parents ind c a Hcn); [|exact Hp]. apply (IH (i - c)); [lia | reflexivity | exact Hc].
Qed.

(** ** completeness of the walk: it fails only on an unset independent value *)

Definition before_ok (vs : vals) (l : list nat) : Prop :=
  forall l1 a l2, l = l1 ++ a :: l2 -> forall p, In p (parents g a) -> In p l1 \/ vs p <> None.

Lemma before_ok_tail (vs vs' : vals) a r :
  before_ok vs (a :: r) -> (forall j, vs j <> None -> vs' j <> None) -> vs' a <> None -> before_ok vs' r.
Proof.
  intros HB Hmono Ha l1 b l2 E p Hp.
  destruct (HB (a :: l1) b l2) with (p := p) as [[->|H]|H]; [now rewrite E | exact Hp | | |]; auto.
Qed.

Lemma walk_complete ind l : forall vs, same_indep vs ind -> (forall a, In a l -> a < n) ->
  (forall a, In a l -> scratch g ind a <> None) -> before_ok vs l ->
  snd (walk g vs l) = None /\ forall a, In a l -> fst (walk g vs l) a <> None.
Proof.
  induction l as [|a r IH]; intros vs HS Hl Hsc HB; cbn; [split; [reflexivity | intros a []]|].
  assert (Ha : a < n) by (apply Hl; now left).
  assert (Hr : forall b, In b r -> b < n) by (intros b Hb; apply Hl; now right).
  assert (Hscr : forall b, In b r -> scratch g ind b <> None) by (intros b Hb; apply Hsc; now right).
  destruct (vs a) eqn:Ea.
  - destruct (IH vs HS Hr Hscr) as [H1 H2].
    { eapply before_ok_tail; [exact HB | auto | congruence]. }
    split; [exact H1|]. intros b [<-|Hb]; [|now apply H2].
    destruct (walk_extends r vs) as [Hk _]. rewrite (Hk a v Ea). discriminate.
  - assert (Hpar : forall p, In p (parents g a) -> vs p <> None).
    { intros p Hp. destruct (HB [] a r eq_refl p Hp) as [[]|H]; exact H. }
    unfold compute. destruct (linked g a) eqn:La.
    2:{ exfalso. apply (Hsc a (or_introl eq_refl)). rewrite scratch_unfold, La by exact Ha. rewrite <- HS by exact La. exact Ea. }
    destruct (mapM_all vs (parents g a) Hpar) as [args Hm]. rewrite Hm.
    destruct (IH (upd vs a (Some (F g a args)))) as [H1 H2]; auto.
    { intros j Lj. rewrite upd_other; [now apply HS | congruence]. }
    { eapply before_ok_tail; [exact HB | | now rewrite upd_same].
      intros j Hj. destruct (Nat.eq_dec j a) as [->|Hja]; [now rewrite upd_same | now rewrite upd_other]. }
    split; [exact H1|]. intros b [<-|Hb]; [|now apply H2].
    destruct (walk_extends r (upd vs a (Some (F g a args)))) as [Hk _].
    rewrite (Hk a (F g a args)); [discriminate | apply upd_same].
Qed.

(** a walk over a list in which parents come first never calls a node function on None *)
Lemma walk_no_crash l : forall vs, before_ok vs l -> snd (walk g vs l) <> Some Crash.
Proof.
  induction l as [|a r IH]; intros vs HB; cbn; [discriminate|].
  destruct (vs a) eqn:Ea.
  - apply IH. eapply before_ok_tail; [exact HB | auto | congruence].
  - unfold compute. destruct (linked g a) eqn:La; [|cbn; discriminate].
    assert (Hpar : forall p, In p (parents g a) -> vs p <> None).
    { intros p Hp. destruct (HB [] a r eq_refl p Hp) as [[]|H]; exact H. }
    destruct (mapM_all vs (parents g a) Hpar) as [args Hm]. rewrite Hm.
    apply IH. eapply before_ok_tail; [exact HB | | now rewrite upd_same].
    intros j Hj. destruct (Nat.eq_dec j a) as [->|Hja]; [now rewrite upd_same | now rewrite upd_other].
Qed.

Lemma before_ok_anc vs i : i < n -> before_ok vs (anc g i).
Proof. intros Hi l1 a l2 E p Hp. left. exact (anc_sorted i l1 a l2 Hi E p Hp). Qed.

Lemma before_ok_seq vs m : m <= n -> before_ok vs (seq 0 m).
Proof.
  intros Hm l1 a l2 E p Hp. left.
  assert (Ha : In a (seq 0 m)) by (rewrite E; apply in_or_app; right; now left).
  apply in_seq in Ha. pose proof (wf_parents_lt wf a p ltac:(lia) Hp) as Hpa.
  assert (Hl1 : l1 = seq 0 a).
  { assert (Hlen : length l1 = a).
    { assert (nth (length l1) (seq 0 m) 0 = a) by (rewrite E, app_nth2, Nat.sub_diag by lia; reflexivity).
      rewrite seq_nth in H; [lia|]. rewrite <- (seq_length m 0), E, app_length. cbn. lia. }
    assert (Hf : firstn a (seq 0 m) = l1) by (rewrite E, <- Hlen, firstn_app, Nat.sub_diag, firstn_all; cbn; apply app_nil_r).
    rewrite <- Hf. clear - Ha. replace m with (a + (m - a)) by lia. rewrite seq_app, firstn_app, seq_length, Nat.sub_diag.
    cbn. rewrite app_nil_r. rewrite <- (seq_length a 0) at 1. apply firstn_all. }
  rewrite Hl1. apply in_seq. lia.
Qed.

(** ** the three facts about one read *)

Theorem get_sound (vs : vals) i v : Inv g vs -> Bounded g vs -> snd (get g vs i) = Ok v -> scratch g vs i = Some v.
Proof.
  intros HI HB Hv. destruct (get_props vs i HI HB) as [HI' [_ [HE Hok]]].
  destruct (Hok v Hv) as [Hi Hc]. rewrite (scratch_ext vs (fst (get g vs i))).
  - now apply cached_is_scratch.
  - intros j Lj. symmetry. exact (extends_indep _ _ _ HE j Lj).
Qed.

Theorem get_no_crash (vs : vals) i : snd (get g vs i) <> Err Crash.
Proof.
  unfold get. destruct (i <? n) eqn:Ei; cbn [negb]; [|cbn; discriminate].
  apply Nat.ltb_lt in Ei. destruct (vs i); [cbn; discriminate|].
  pose proof (walk_no_crash (anc g i) vs (before_ok_anc vs i Ei)) as Hnc.
  pose proof (walk_extends (anc g i) vs) as [Hk _].
  destruct (walk g vs (anc g i)) as [vs' e] eqn:Ew. cbn [fst snd] in *.
  destruct e as [[]|]; cbn; try discriminate; [congruence|].
  unfold compute. destruct (linked g i) eqn:Li; [|cbn; discriminate].
  destruct (mapM vs' (parents g i)) eqn:Hm; cbn; [discriminate|]. exfalso.
  (* a successful walk caches every ancestor, in particular every parent *)
  destruct (mapM_none _ _ Hm) as [p [Hp Hn]].
  assert (Hall : forall l vs0, before_ok vs0 l -> snd (walk g vs0 l) = None -> forall a, In a l -> fst (walk g vs0 l) a <> None).
  { clear. induction l as [|a r IH]; intros vs0 HB Hs b Hb; [inversion Hb|]. cbn in *.
    destruct (vs0 a) eqn:Ea.
    - destruct Hb as [<-|Hb].
      + destruct (walk_extends r vs0) as [Hk _]. rewrite (Hk a v Ea). discriminate.
      + apply IH; auto. eapply before_ok_tail; [exact HB | auto | congruence].
    - destruct (compute g vs0 a) eqn:Ec; cbn in Hs; try discriminate.
      destruct Hb as [<-|Hb].
      + destruct (walk_extends r (upd vs0 a (Some v))) as [Hk _]. rewrite (Hk a v); [discriminate | apply upd_same].
      + apply IH; auto. eapply before_ok_tail; [exact HB | | now rewrite upd_same].
        intros j Hj. destruct (Nat.eq_dec j a) as [->|Hja]; [now rewrite upd_same | now rewrite upd_other]. }
  specialize (Hall (anc g i) vs (before_ok_anc vs i Ei)). rewrite Ew in Hall. cbn in Hall.
  exact (Hall eq_refl p (wf_anc_parents wf i p Ei Hp) Hn).
Qed.

Theorem get_complete (vs : vals) i v : Inv g vs -> Bounded g vs -> scratch g vs i = Some v -> snd (get g vs i) = Ok v.
Proof.
  intros HI HB Hs.
  assert (Hi : i < n) by (destruct (le_lt_dec n i) as [H|H]; [rewrite scratch_out in Hs by exact H; discriminate | exact H]).
  assert (Hex : exists w, snd (get g vs i) = Ok w).
  { unfold get. apply Nat.ltb_lt in Hi as Hb. rewrite Hb. cbn [negb]. destruct (vs i) eqn:Evi; [cbn; eauto|].
    destruct (walk_complete vs (anc g i) vs) as [H1 H2]; try (intros j; reflexivity); auto.
    { apply anc_bound; exact Hi. } { apply scratch_anc; [exact Hi | congruence]. } { now apply before_ok_anc. }
    pose proof (walk_extends (anc g i) vs) as HE.
    destruct (walk g vs (anc g i)) as [vs' e]. cbn [fst snd] in *. subst e.
    unfold compute. destruct (linked g i) eqn:Li.
    - destruct (mapM_all vs' (parents g i)) as [args Hm]; [|rewrite Hm; cbn; eauto].
      intros p Hp. apply H2. exact (wf_anc_parents wf i p Hi Hp).
    - exfalso. rewrite scratch_unfold, Li in Hs by exact Hi. congruence. }
  destruct Hex as [w Hw]. pose proof (get_sound vs i w HI HB Hw). congruence.
Qed.


(** ** assignment *)

Lemma reset_in (vs : vals) l j : In j l -> reset_list vs l j = None.
Proof. intros H. unfold reset_list. apply mem_in in H. now rewrite H. Qed.

Lemma reset_out (vs : vals) l j : ~ In j l -> reset_list vs l j = vs j.
Proof. intros H. unfold reset_list. apply mem_false in H. now rewrite H. Qed.

Lemma Inv_set (vs : vals) i o : i < n -> linked g i = false -> Inv g vs -> Inv g (reset_list (upd vs i o) (desc g i)).
Proof.
  intros Hi Li HI k v Hk Lk Hv.
  destruct (in_dec Nat.eq_dec k (desc g i)) as [Hd|Hd]; [rewrite reset_in in Hv by exact Hd; discriminate|].
  rewrite reset_out in Hv by exact Hd.
  assert (Hki : k <> i) by congruence. rewrite upd_other in Hv by exact Hki.
  destruct (HI k v Hk Lk Hv) as [args [Hm ->]]. exists args. split; [|reflexivity].
  rewrite <- Hm. apply mapM_ext. intros p Hp.
  assert (Hpd : ~ In p (desc g i)) by (intros H; apply Hd; apply (wf_desc_closed wf i k p); auto).
  assert (Hpi : p <> i) by (intros ->; apply Hd; apply (wf_desc_closed wf i k i); auto).
  now rewrite reset_out, upd_other.
Qed.

Lemma Bounded_set (vs : vals) i o : i < n -> Bounded g vs -> Bounded g (reset_list (upd vs i o) (desc g i)).
Proof.
  intros Hi HB k Hk. unfold reset_list. destruct (mem k (desc g i)); [reflexivity|].
  rewrite upd_other by lia. now apply HB.
Qed.

(** ** the undo log *)

Lemma assoc_map (f : nat -> option V) l j :
  assoc j (map (fun c => (c, f c)) l) = if mem j l then Some (f j) else None.
Proof.
  induction l as [|c r IH]; cbn; [reflexivity|].
  destruct (Nat.eqb j c) eqn:E; cbn; [apply Nat.eqb_eq in E; now subst | exact IH].
Qed.

Lemma assoc_in j (fk : forkd V) o : assoc j fk = Some o -> In (j, o) fk.
Proof.
  induction fk as [|[c x] r IH]; cbn; [discriminate|].
  destruct (Nat.eqb j c) eqn:E; [apply Nat.eqb_eq in E; intros H; injection H as <-; subst; now left | intros H; right; now apply IH].
Qed.

Lemma assoc_keys j (fk : forkd V) : assoc j fk = None <-> ~ In j (map fst fk).
Proof.
  induction fk as [|[c x] r IH]; cbn; [tauto|].
  destruct (Nat.eqb j c) eqn:E.
  - apply Nat.eqb_eq in E. subst. split; [discriminate | intros H; exfalso; apply H; now left].
  - apply Nat.eqb_neq in E. rewrite IH. split; [intros H [H'|H']; [congruence | contradiction] | tauto].
Qed.

Lemma override_key (vs : vals) fk j o : assoc j fk = Some o -> override vs fk j = o.
Proof. intros H. unfold override. now rewrite H. Qed.

Lemma override_nokey (vs : vals) fk j : ~ In j (map fst fk) -> override vs fk j = vs j.
Proof. intros H. unfold override. apply assoc_keys in H. now rewrite H. Qed.

(** the snapshot taken by a forked assignment, written back, is the state before the assignment *)
Lemma override_snapshot (vs : vals) i o j :
  override (reset_list (upd vs i o) (desc g i)) (map (fun c => (c, vs c)) (i :: desc g i)) j = vs j.
Proof.
  unfold override. rewrite assoc_map. destruct (mem j (i :: desc g i)) eqn:E; [reflexivity|].
  apply mem_false in E. rewrite reset_out by (intros H; apply E; now right).
  apply upd_other. intros ->. apply E. now left.
Qed.

Section WithFork.
Variable fk : forkd V.
Variable i0 : nat.
Hypothesis Hi0 : i0 < n.
Hypothesis Hkeys : map fst fk = i0 :: desc g i0.
Hypothesis Hlin0 : linked g i0 = false.

Lemma key_child a p : a < n -> In p (parents g a) -> In p (map fst fk) -> In a (map fst fk).
Proof.
  intros Ha Hp Hk. rewrite Hkeys in *. right. apply (wf_desc_closed wf i0 a p Hi0 Ha Hp).
  destruct Hk as [<-|Hk]; [now left | now right].
Qed.

Lemma ForkInv_cache (vs : vals) a v : a < n -> vs a = None -> compute g vs a = COk v ->
  Inv g (override vs fk) -> Inv g (override (upd vs a (Some v)) fk).
Proof.
  intros Ha Hn Hc HI. destruct (in_dec Nat.eq_dec a (map fst fk)) as [Hk|Hk].
  - apply (Inv_ext (override vs fk)); [|exact HI]. intros j. unfold override.
    destruct (assoc j fk) eqn:E; [reflexivity|]. symmetry. apply upd_other. intros ->. apply assoc_keys in E. contradiction.
  - apply (Inv_ext (upd (override vs fk) a (Some v))).
    + intros j. destruct (Nat.eq_dec j a) as [->|Hja].
      * now rewrite upd_same, override_nokey, upd_same.
      * rewrite upd_other by exact Hja. unfold override. destruct (assoc j fk); [reflexivity|]. now rewrite upd_other.
    + apply Inv_cache; auto.
      * now rewrite override_nokey.
      * rewrite <- Hc. apply compute_ext. intros p Hp. apply override_nokey.
        intros H. apply Hk. exact (key_child a p Ha Hp H).
Qed.

Lemma ForkInv_walk l : forall vs, (forall a, In a l -> a < n) ->
  Inv g (override vs fk) -> Inv g (override (fst (walk g vs l)) fk).
Proof.
  induction l as [|a r IH]; intros vs Hl HI; cbn; [exact HI|].
  assert (Hr : forall b, In b r -> b < n) by (intros b Hb; apply Hl; now right).
  destruct (vs a) eqn:Ea; [now apply IH|].
  destruct (compute g vs a) eqn:Ec; cbn; try exact HI.
  apply IH; [exact Hr|]. apply ForkInv_cache; auto. apply Hl. now left.
Qed.

Lemma ForkInv_get (vs : vals) i : Inv g (override vs fk) -> Inv g (override (fst (get g vs i)) fk).
Proof.
  intros HI. unfold get. destruct (i <? n) eqn:Ei; cbn [negb]; [|exact HI].
  apply Nat.ltb_lt in Ei. destruct (vs i) eqn:Evi; [exact HI|].
  pose proof (ForkInv_walk (anc g i) vs (anc_bound i Ei) HI) as HIw.
  pose proof (walk_extends (anc g i) vs) as HEw.
  destruct (walk g vs (anc g i)) as [vs' e]. cbn [fst] in *.
  destruct e as [e|]; [exact HIw|].
  destruct (compute g vs' i) eqn:Ec; cbn; try exact HIw.
  apply ForkInv_cache; auto.
  destruct (vs' i) eqn:E; [|reflexivity]. destruct HEw as [_ H2]. destruct (H2 i) as [Hin _]; [congruence|].
  pose proof (anc_lt i i Ei Hin). lia.
Qed.

(** ** partial revert *)

Hypothesis fmix : F_mix g sm.

Definition sel (p : nat) : bool := mem p (i0 :: desc g i0).

Lemma sel_key p : sel p = true <-> In p (map fst fk).
Proof. unfold sel. rewrite Hkeys. apply mem_in. Qed.

Lemma key_of_assoc p (x : option V) : assoc p fk = Some x -> In p (map fst fk).
Proof. intros E. destruct (in_dec Nat.eq_dec p (map fst fk)) as [H|H]; [exact H|]. apply assoc_keys in H. congruence. Qed.

Lemma mapM_mixed (m : M) (vs : vals) : forall ps olds curs,
  Forall2 (fun p v => override vs fk p = Some v) ps olds ->
  Forall2 (fun p v => vs p = Some v) ps curs ->
  (forall p o c, In p ps -> sel p = true -> override vs fk p = Some o -> vs p = Some c -> mix sm m o c <> None) ->
  exists news, mapM (revert_mask sm m vs fk) ps = Some news /\ mixed_args sm m sel ps olds curs news.
Proof.
  induction ps as [|p r IH]; intros olds curs HO HC Hm; inversion HO; inversion HC; subst.
  { exists []. split; [reflexivity | constructor]. }
  destruct (IH _ _ H3 H8) as [news [Hn Hmx]]; [intros q o c Hq; apply Hm; now right|].
  cbn [mapM]. rewrite Hn. unfold revert_mask at 1. pose proof H1 as Hov. unfold override in H1.
  destruct (assoc p fk) as [oo|] eqn:E.
  - subst oo. rewrite H6.
    assert (S : sel p = true) by (apply sel_key; exact (key_of_assoc p _ E)).
    destruct (mix sm m y y0) as [x|] eqn:Ex; [|exfalso; exact (Hm p y y0 (or_introl eq_refl) S Hov H6 Ex)].
    exists (x :: news). split; [reflexivity | now constructor].
  - rewrite H6.
    assert (S : sel p = false).
    { destruct (sel p) eqn:S; [|reflexivity]. apply sel_key in S. apply assoc_keys in E. contradiction. }
    assert (y = y0) by congruence. subst y0.
    exists (y :: news). split; [reflexivity | now constructor].
Qed.

Lemma Inv_revert_mask (m : M) (vs : vals) :
  Inv g vs -> Inv g (override vs fk) ->
  (forall c o cur, In (c, Some o) fk -> vs c = Some cur -> ind_axis g c = true /\ mix sm m o cur <> None) ->
  Inv g (revert_mask sm m vs fk).
Proof.
  intros HI HO Hax k w Hk Lk Hw. unfold revert_mask in Hw.
  destruct (assoc k fk) as [oo|] eqn:E.
  - destruct oo as [o|]; [|discriminate]. destruct (vs k) as [c|] eqn:Ec; [|discriminate].
    assert (Hold : override vs fk k = Some o) by (now apply override_key).
    destruct (HO k o Hk Lk Hold) as [olds [Hmo ->]].
    destruct (HI k c Hk Lk Ec) as [curs [Hmc ->]].
    pose proof (mapM_some _ _ _ Hmo) as FO. pose proof (mapM_some _ _ _ Hmc) as FC.
    assert (Hsel : forall p o c, override vs fk p = Some o -> vs p = Some c -> sel p = true -> In (p, Some o) fk).
    { intros p o c Hop Hcp Hs. apply assoc_in. unfold override in Hop. apply sel_key in Hs.
      destruct (assoc p fk) eqn:Ep; [congruence | apply assoc_keys in Ep; contradiction]. }
    destruct (mapM_mixed m vs (parents g k) olds curs FO FC) as [news [Hn Hmx]].
    { intros p o c _ Hs Hop Hcp. exact (proj2 (Hax p o c (Hsel p o c Hop Hcp Hs) Hcp)). }
    exists news. split; [exact Hn|]. symmetry. apply (fmix k m sel olds curs news w); auto.
    + exact (proj1 (Hax k (F g k olds) (F g k curs) (assoc_in _ _ _ E) Ec)).
    + assert (Hkd : In k (desc g i0)).
      { pose proof (key_of_assoc k _ E) as H. rewrite Hkeys in H. destruct H as [<-|H]; [congruence | exact H]. }
      destruct (wf_desc_only wf i0 k Hi0 Hkd) as [p [Hp Hor]]. exists p. split; [exact Hp|].
      unfold sel. apply mem_in. destruct Hor as [->|H]; [now left | now right].
    + intros p Hp Hs.
      destruct (mapM_some_in _ _ _ p Hmo Hp) as [op Hop]. destruct (mapM_some_in _ _ _ p Hmc Hp) as [cp Hcp].
      exact (proj1 (Hax p op cp (Hsel p op cp Hop Hcp Hs) Hcp)).
  - destruct (HI k w Hk Lk Hw) as [args [Hm ->]]. exists args. split; [|reflexivity].
    rewrite <- Hm. apply mapM_ext. intros p Hp. unfold revert_mask.
    destruct (assoc p fk) eqn:Ep; [|reflexivity]. exfalso.
    pose proof (key_child k p Hk Hp (key_of_assoc p _ Ep)) as Hkk. apply assoc_keys in E. contradiction.
Qed.

End WithFork.


(** the loop of the partial revert computes [revert_mask] entry by entry when no mix raises *)
Lemma revert_mask_upd_other (m : M) (vs : vals) k x (r : forkd V) j : j <> k ->
  revert_mask sm m (upd vs k x) r j = revert_mask sm m vs r j.
Proof. intros H. unfold revert_mask. now rewrite upd_other. Qed.

Lemma revert_items_spec (m : M) : forall (fk : forkd V) (vs : vals), NoDup (map fst fk) ->
  (forall c o cur, In (c, Some o) fk -> vs c = Some cur -> mix sm m o cur <> None) ->
  snd (revert_items sm m vs fk) = true /\ forall j, fst (revert_items sm m vs fk) j = revert_mask sm m vs fk j.
Proof.
  induction fk as [|[k old] r IH]; intros vs ND Hm; [split; reflexivity|].
  cbn [map fst] in ND. inversion ND as [|? ? Hk NDr]; subst.
  assert (Hk' : assoc k r = None) by (now apply assoc_keys).
  assert (Step : forall x, (forall c o cur, In (c, Some o) r -> upd vs k x c = Some cur -> mix sm m o cur <> None)).
  { intros x c o cur Hin Hc. apply (Hm c o cur); [now right|].
    rewrite upd_other in Hc; [exact Hc|]. intros ->. apply Hk. apply (in_map fst) in Hin. exact Hin. }
  assert (Pt : forall x, (match old, vs k with Some o, Some c => mix sm m o c | _, _ => None end) = x ->
               forall j, revert_mask sm m (upd vs k x) r j = revert_mask sm m vs ((k, old) :: r) j).
  { intros x Hx j. destruct (Nat.eq_dec j k) as [->|Hjk].
    - unfold revert_mask. cbn [assoc]. rewrite Nat.eqb_refl, Hk', upd_same. now symmetry.
    - rewrite revert_mask_upd_other by exact Hjk. unfold revert_mask. cbn [assoc].
      apply Nat.eqb_neq in Hjk. now rewrite Hjk. }
  cbn [revert_items]. destruct old as [o|]; [destruct (vs k) as [c|] eqn:Ec|].
  - destruct (mix sm m o c) as [x|] eqn:Ex; [|exfalso; exact (Hm k o c (or_introl eq_refl) Ec Ex)].
    destruct (IH (upd vs k (Some x)) NDr (Step _)) as [H1 H2]. split; [exact H1|].
    intros j. rewrite H2. apply Pt. reflexivity.
  - destruct (IH (upd vs k None) NDr (Step _)) as [H1 H2]. split; [exact H1|].
    intros j. rewrite H2. apply Pt. reflexivity.
  - destruct (IH (upd vs k None) NDr (Step _)) as [H1 H2]. split; [exact H1|].
    intros j. rewrite H2. apply Pt. now destruct (vs k).
Qed.

Lemma increasing_NoDup l : increasing l -> NoDup l.
Proof.
  induction l as [|a r IH]; intros H; constructor.
  - intros Hin. pose proof (increasing_lt a r H a Hin). lia.
  - apply IH. exact (increasing_tail _ _ H).
Qed.

(** ** every operation keeps every state of the store consistent *)

Section Disc.
Hypothesis fx_or_chk : fx = true \/ chk = true.

Notation Good := (Good g).

Lemma Good_init m : Good (init_state g m).
Proof.
  split; [|split]; cbn.
  - intros k v Hk Lk Hv. unfold init_vals in Hv. apply Nat.ltb_lt in Hk as Hb. rewrite Hb in Hv.
    destruct (wf_hyper_fixed wf k Hk) as [H _]; congruence.
  - intros k Hk. unfold init_vals. apply Nat.ltb_ge in Hk. now rewrite Hk.
  - exact I.
Qed.

Lemma ForkOK_values (st : state V) (vs' : vals) :
  ForkOK g st ->
  (forall fk i0, fork st = Some fk -> i0 < n -> map fst fk = i0 :: desc g i0 -> linked g i0 = false ->
     Inv g (override (values st) fk) -> Inv g (override vs' fk)) ->
  ForkOK g (with_values st vs').
Proof.
  unfold ForkOK. cbn. destruct (fork st) as [fk|] eqn:E; [|auto].
  intros [i [Hi [Hs [Hk [HI Hb]]]]] H. exists i. repeat split; auto.
  apply (H fk i); auto. now apply (wf_settable_indep wf).
Qed.

Lemma Good_get st i : Good st -> Good (fst (get_state g st i)).
Proof.
  intros [HI [HB HF]]. unfold get_state.
  destruct (get_props (values st) i HI HB) as [HI' [HB' _]].
  pose proof (fun fk i0 Hi0 Hk => ForkInv_get fk i0 Hi0 Hk (values st) i) as HFG.
  destruct (get g (values st) i) as [vs' o]. cbn [fst] in *.
  split; [exact HI'|]. split; [exact HB'|]. apply ForkOK_values; [exact HF|].
  intros fk i0 _ Hi0 Hk Hl. now apply (HFG fk i0).
Qed.

Lemma get_state_fork st i : fork (fst (get_state g st i)) = fork st /\ mode (fst (get_state g st i)) = mode st.
Proof. unfold get_state. destruct (get g (values st) i). cbn. auto. Qed.

Lemma Good_set st i o : Good st -> (i < n -> settable g i = true -> unforked_ok chk st) -> Good (fst (set_state g fx st i o)).
Proof.
  intros [HI [HB HF]] Hu. unfold set_state. destruct (i <? n) eqn:Ei; cbn [negb]; [|now repeat split].
  destruct (settable g i) eqn:Es; cbn [negb]; [|now repeat split]. apply Nat.ltb_lt in Ei. cbn [fst].
  pose proof (wf_settable_indep wf i Ei Es) as Li.
  split; [now apply Inv_set|]. split; [now apply Bounded_set|]. unfold ForkOK. cbn [fork values].
  destruct (mode st) eqn:Em.
  - exists i. repeat split; auto.
    + rewrite map_map. cbn [fst]. now rewrite map_id.
    + apply (Inv_ext (values st)); [|exact HI]. intros j. symmetry. apply override_snapshot.
    + intros c x Hin Hx. apply in_map_iff in Hin. destruct Hin as [c' [Hc' _]]. injection Hc' as -> <-.
      destruct (le_lt_dec n c) as [H|H]; [|exact H]. now rewrite (HB c H) in Hx.
  - destruct fx eqn:Efx; [exact I|]. destruct fx_or_chk as [H|H]; [discriminate|]. rewrite (Hu Ei eq_refl H Em). exact I.
Qed.

Lemma Good_put st i ix v acc : Good st -> (i < n -> settable g i = true -> unforked_ok chk st) ->
  Good (fst (put_state g sm fx st i ix v acc)).
Proof.
  intros HG Hu. unfold put_state.
  assert (Hdirect : Good (fst (set_state g fx st i (Some v)))) by now apply Good_set.
  assert (Hgen : Good (fst (let '(st', o) := get_state g st i in
      match o with
      | Ok old => match put_val sm ix v acc old with Some new => set_state g fx st' i (Some new) | None => (st', Err Crash) end
      | other => (st', other) end))).
  { pose proof (Good_get st i HG) as HG'. destruct (get_state_fork st i) as [Hf Hm].
    destruct (get_state g st i) as [st' o]. cbn [fst] in *.
    destruct o; try exact HG'. destruct (put_val sm ix v acc v0); [|exact HG'].
    apply Good_set; [exact HG'|]. intros H1 H2 H3 H4. rewrite Hf. apply (Hu H1 H2 H3). now rewrite <- Hm. }
  destruct ix; [exact Hgen|]. destruct acc; [exact Hgen | exact Hdirect].
Qed.

Lemma Good_revert st : Good st -> Good (fst (revert_state st)).
Proof.
  intros [HI [HB HF]]. unfold revert_state. unfold ForkOK in HF. destruct (fork st) as [fk|] eqn:E; [|cbn; split; [exact HI | split; [exact HB | unfold ForkOK; rewrite E; exact I]]].
  destruct HF as [i [Hi [Hs [Hk [HO Hb]]]]]. cbn [fst]. split; [exact HO|]. split; [|exact I].
  intros k Hk'. cbn [values]. unfold override. destruct (assoc k fk) as [o|] eqn:Ea; [|now apply HB].
  destruct o as [x|]; [|reflexivity]. apply assoc_in in Ea. assert (k < n) by (apply (Hb k (Some x)); [exact Ea | discriminate]). lia.
Qed.

Lemma Good_revert_mask st m : F_mix g sm -> Good st -> mask_ok g sm m st -> Good (fst (revert_mask_state sm st m)).
Proof.
  intros HFm [HI [HB HF]] Hm. unfold revert_mask_state. unfold ForkOK in HF. unfold mask_ok in Hm.
  destruct (fork st) as [fk|] eqn:E; [|cbn; split; [exact HI | split; [exact HB | unfold ForkOK; rewrite E; exact I]]].
  destruct HF as [i [Hi [Hs [Hk [HO Hb]]]]].
  destruct (revert_items_spec m fk (values st)) as [Hok Hpt].
  { rewrite Hk. apply increasing_NoDup. now apply (wf_desc_inc wf). }
  { intros c o cur Hin Hc. exact (proj2 (Hm c o cur Hin Hc)). }
  destruct (revert_items sm m (values st) fk) as [vs' ok]. cbn [fst snd] in *. subst ok. cbn [fst].
  split; [|split; [|exact I]]; cbn [values].
  - apply (Inv_ext (revert_mask sm m (values st) fk)); [intros j; now rewrite Hpt|].
    apply (Inv_revert_mask fk i Hi Hk (wf_settable_indep wf i Hi Hs) HFm m (values st) HI HO Hm).
  - intros k Hk'. rewrite Hpt. unfold revert_mask. rewrite (HB k Hk'). destruct (assoc k fk) as [[x|]|]; reflexivity.
Qed.

Lemma Good_clone st d kp : Good st -> Good (clone_state st d kp).
Proof.
  intros [HI [HB HF]]. split; [exact HI|]. split; [exact HB|]. unfold ForkOK, clone_state. cbn.
  destruct kp; [exact HF | exact I].
Qed.

Lemma Good_precompute st : Good st -> Good (fst (precompute_state g st)).
Proof.
  intros [HI [HB HF]]. unfold precompute_state.
  assert (Hl : forall a, In a (seq 0 n) -> a < n) by (intros a Ha; apply in_seq in Ha; lia).
  pose proof (Inv_walk (seq 0 n) (values st) Hl HI) as HI'.
  pose proof (Bounded_walk (seq 0 n) (values st) Hl HB) as HB'.
  pose proof (fun fk i0 Hi0 Hk => ForkInv_walk fk i0 Hi0 Hk (seq 0 n) (values st) Hl) as HFW.
  destruct (walk g (values st) (seq 0 n)) as [vs' e]. cbn [fst] in *.
  split; [exact HI'|]. split; [exact HB'|]. apply ForkOK_values; [exact HF|].
  intros fk i0 _ Hi0 Hk Hl0. now apply (HFW fk i0).
Qed.

Definition AllGood (s : store V) : Prop := forall k st, nth_error s k = Some st -> Good st.

Lemma nth_set_nth {A} (l : list A) k x j :
  nth_error (set_nth l k x) j = if Nat.eqb j k then (match nth_error l k with Some _ => Some x | None => None end) else nth_error l j.
Proof.
  revert k j. induction l as [|y r IH]; intros k j; cbn.
  - destruct (Nat.eqb j k); destruct j, k; reflexivity.
  - destruct k as [|k]; destruct j as [|j]; cbn; try reflexivity. apply IH.
Qed.

Lemma AllGood_on_state s k f : AllGood s -> (forall st, nth_error s k = Some st -> Good (fst (f st))) -> AllGood (fst (on_state s k f)).
Proof.
  intros HA Hf. unfold on_state. destruct (nth_error s k) as [st|] eqn:E; [|exact HA].
  specialize (Hf st eq_refl). destruct (f st) as [st' o]. cbn [fst] in *.
  intros j sj Hj. rewrite nth_set_nth in Hj. destruct (Nat.eqb j k) eqn:Ejk; [|now apply (HA j)].
  rewrite E in Hj. now injection Hj as <-.
Qed.

Lemma AllGood_init : AllGood (init_store g).
Proof. intros [|k] st H; cbn in H; [injection H as <-; apply Good_init | destruct k; discriminate]. Qed.

Theorem Good_step s o : F_mix g sm -> AllGood s -> op_ok g sm chk s o -> AllGood (fst (step g sm fx s o)).
Proof.
  intros HFm HA Hok. destruct o; cbn [step].
  - apply AllGood_on_state; [exact HA|]. intros st Hst. apply Good_get. now apply (HA k).
  - apply AllGood_on_state; [exact HA|]. intros st Hst. cbn. now apply (HA k).
  - apply AllGood_on_state; [exact HA|]. intros st Hst. cbn in Hok. rewrite Hst in Hok.
    apply Good_set; [now apply (HA k) | exact Hok].
  - apply AllGood_on_state; [exact HA|]. intros st Hst. cbn in Hok. rewrite Hst in Hok.
    apply Good_put; [now apply (HA k) | exact Hok].
  - apply AllGood_on_state; [exact HA|]. intros st Hst. apply Good_revert. now apply (HA k).
  - apply AllGood_on_state; [exact HA|]. intros st Hst. cbn in Hok. rewrite Hst in Hok.
    apply Good_revert_mask; [exact HFm | now apply (HA k) | exact Hok].
  - destruct (nth_error s k) as [st|] eqn:E; [|exact HA]. cbn [fst].
    intros j sj Hj. destruct (lt_dec j (length s)) as [Hlt|Hge].
    + rewrite nth_error_app1 in Hj by exact Hlt. now apply (HA j).
    + rewrite nth_error_app2 in Hj by lia. destruct (j - length s) as [|d]; cbn in Hj; [|destruct d; discriminate].
      injection Hj as <-. apply Good_clone. now apply (HA k).
  - apply AllGood_on_state; [exact HA|]. intros st Hst. cbn. exact (HA k st Hst).
  - apply AllGood_on_state; [exact HA|]. intros st Hst. apply Good_precompute. now apply (HA k).
  - apply AllGood_on_state; [exact HA|]. intros st Hst. cbn. destruct (Good_init (mode st)) as [H1 [H2 _]].
    split; [exact H1|]. split; [exact H2 | exact I].
Qed.

Lemma run_cons s o r : run g sm fx s (o :: r) =
  (fst (run g sm fx (fst (step g sm fx s o)) r), snd (step g sm fx s o) :: snd (run g sm fx (fst (step g sm fx s o)) r)).
Proof. cbn. destruct (step g sm fx s o) as [s' x]. cbn. destruct (run g sm fx s' r). reflexivity. Qed.

Theorem Good_run ops : F_mix g sm -> forall s, AllGood s -> Disciplined g sm fx chk s ops -> AllGood (fst (run g sm fx s ops)).
Proof.
  intros HFm. induction ops as [|o r IH]; intros s HA HD; [exact HA|].
  rewrite run_cons. cbn [fst]. destruct HD as [Hok HD]. apply IH; [|exact HD]. now apply Good_step.
Qed.

(** ** what a read returns *)

Lemma get_shape (vs : vals) i : (exists v, snd (get g vs i) = Ok v) \/ (exists e, snd (get g vs i) = Err e).
Proof.
  unfold get. destruct (negb (i <? n)); [right; cbn; eauto|]. destruct (vs i); [left; cbn; eauto|].
  destruct (walk g vs (anc g i)) as [vs' [e|]]; [right; cbn; eauto|].
  destruct (compute g vs' i); cbn; eauto.
Qed.

Definition read_spec (vs : vals) (i : nat) : out V :=
  match scratch g vs i with Some v => Ok v | None => Err InputError end.

Theorem get_is_scratch (vs : vals) i : Inv g vs -> Bounded g vs -> snd (get g vs i) = read_spec vs i.
Proof.
  intros HI HB. unfold read_spec. destruct (scratch g vs i) as [v|] eqn:Es; [now apply get_complete|].
  destruct (get_shape vs i) as [[v Hv]|[e He]].
  - rewrite (get_sound vs i v HI HB Hv) in Es. discriminate.
  - rewrite He. destruct e; [reflexivity|]. exfalso. exact (get_no_crash vs i He).
Qed.

Lemma step_get s k i st : nth_error s k = Some st -> snd (step g sm fx s (Get k i)) = snd (get g (values st) i).
Proof. intros H. cbn. unfold on_state. rewrite H. unfold get_state. destruct (get g (values st) i). reflexivity. Qed.

(** The main statement: after any disciplined history, every read of every state returns the from-scratch
    value of that state's current independent values, or an input error when that value does not exist. *)
Theorem read_after_history ops : F_mix g sm -> Disciplined g sm fx chk (init_store g) ops ->
  forall k i st, nth_error (fst (run g sm fx (init_store g) ops)) k = Some st ->
  snd (step g sm fx (fst (run g sm fx (init_store g) ops)) (Get k i)) = read_spec (values st) i.
Proof.
  intros HFm HD k i st Hst. rewrite (step_get _ k i st Hst).
  destruct (Good_run ops HFm (init_store g) AllGood_init HD k st Hst) as [HI [HB _]].
  now apply get_is_scratch.
Qed.

Corollary never_stale ops : F_mix g sm -> Disciplined g sm fx chk (init_store g) ops ->
  forall k i st v, nth_error (fst (run g sm fx (init_store g) ops)) k = Some st ->
  snd (step g sm fx (fst (run g sm fx (init_store g) ops)) (Get k i)) = Ok v ->
  scratch g (values st) i = Some v.
Proof.
  intros HFm HD k i st v Hst Hv. rewrite (read_after_history ops HFm HD k i st Hst) in Hv.
  unfold read_spec in Hv. destruct (scratch g (values st) i); [now injection Hv as -> | discriminate].
Qed.

Corollary unset_is_error ops : F_mix g sm -> Disciplined g sm fx chk (init_store g) ops ->
  forall k i st, nth_error (fst (run g sm fx (init_store g) ops)) k = Some st ->
  let r := snd (step g sm fx (fst (run g sm fx (init_store g) ops)) (Get k i)) in
  (r = Err InputError <-> scratch g (values st) i = None) /\ (forall e, r = Err e -> e = InputError).
Proof.
  intros HFm HD k i st Hst r. unfold r. rewrite (read_after_history ops HFm HD k i st Hst).
  unfold read_spec. destruct (scratch g (values st) i).
  - split; [split; discriminate | intros e H; discriminate].
  - split; [split; reflexivity | intros e H; now injection H as <-].
Qed.

(** a read is transparent: it changes no independent value, not the undo log, not the fork mode, and no later read *)
Theorem get_transparent st i : Good st ->
  let st' := fst (get_state g st i) in
  (forall j, linked g j = false -> values st' j = values st j) /\ fork st' = fork st /\ mode st' = mode st /\
  (forall j, snd (get g (values st') j) = snd (get g (values st) j)).
Proof.
  intros HG. pose proof (Good_get st i HG) as HG'. destruct (get_state_fork st i) as [Hf Hm].
  destruct HG as [HI [HB _]]. destruct HG' as [HI' [HB' _]].
  assert (HS : forall j, linked g j = false -> values (fst (get_state g st i)) j = values st j).
  { destruct (get_props (values st) i HI HB) as [_ [_ [HE _]]]. unfold get_state.
    destruct (get g (values st) i) as [vs' o]. cbn in *. exact (extends_indep _ _ _ HE). }
  cbv zeta. split; [exact HS|]. split; [exact Hf|]. split; [exact Hm|].
  intros j. rewrite !get_is_scratch by assumption. unfold read_spec. now rewrite (scratch_ext _ _ HS).
Qed.

End Disc.

(** ** states of a store do not interfere *)
Definition op_state (o : op V M IX) : nat :=
  match o with
  | Get k _ | IsSet k _ | Set_ k _ _ | Put k _ _ _ _ | Revert k | RevertMask k _ | Clone k _ _
  | SetMode k _ | Precompute k | Clear k => k
  end.

Lemma step_other s o k : op_state o <> k -> k < length s -> nth_error (fst (step g sm fx s o)) k = nth_error s k.
Proof.
  intros Hk Hlen.
  assert (On : forall f, nth_error (fst (on_state s (op_state o) f)) k = nth_error s k).
  { intros f. unfold on_state. destruct (nth_error s (op_state o)) as [st|] eqn:E; [|reflexivity].
    destruct (f st) as [st' x]. cbn [fst]. rewrite nth_set_nth.
    destruct (Nat.eqb k (op_state o)) eqn:Ek; [apply Nat.eqb_eq in Ek; congruence | reflexivity]. }
  destruct o; cbn [step op_state] in *; try apply On.
  destruct (nth_error s k0); [|reflexivity]. cbn [fst]. now apply nth_error_app1.
Qed.

Lemma step_length s o : length s <= length (fst (step g sm fx s o)).
Proof.
  assert (On : forall k f, length (fst (on_state s k f)) = length s).
  { intros k f. unfold on_state. destruct (nth_error s k) as [st|]; [|reflexivity]. destruct (f st) as [st' x]. cbn [fst].
    clear. revert k. induction s as [|y r IH]; intros [|k]; cbn; auto. }
  destruct o; cbn [step]; try (rewrite On; lia).
  destruct (nth_error s k); [|cbn; lia]. cbn [fst]. rewrite app_length. lia.
Qed.

Theorem clone_isolated ops : forall s k, k < length s -> (forall o, In o ops -> op_state o <> k) ->
  nth_error (fst (run g sm fx s ops)) k = nth_error s k.
Proof.
  induction ops as [|o r IH]; intros s k Hlen Hops; [reflexivity|].
  rewrite run_cons. cbn [fst]. rewrite IH.
  - apply step_other; [apply Hops; now left | exact Hlen].
  - pose proof (step_length s o). lia.
  - intros o' Ho'. apply Hops. now right.
Qed.

(** the clone itself starts as an exact copy of the values *)
Lemma clone_copy s k d kp st : nth_error s k = Some st ->
  nth_error (fst (step g sm fx s (Clone k d kp))) (length s) = Some (clone_state st d kp) /\ values (clone_state st d kp) = values st.
Proof.
  intros H. cbn [step]. rewrite H. cbn [fst]. rewrite nth_error_app2, Nat.sub_diag by lia. now split.
Qed.

End Proofs.
Arguments op_state {V M IX} o.
