(** Weighted values (StateWExec.v) — proofs.
    * the generic boolean checkers decide [WF] / [Disciplined] (same proofs as StateExecProofs.v, any value type);
    * [wwhere] — the model of [_select] — selects the VALUE and the WEIGHT of every row from the same side;
    * [F_mix] for the weighted toy vocabulary (one-parent entry-wise node functions, incl. those that compute a weight
      from their input and those that use the weight), hence the theorems of StateProofs.v / StateNowProofs.v /
      RevertProofs.v apply to every such graph without any hypothesis on the node functions;
    * the graph of the seeded defect: with [wwhere] every read after the partial revert is the from-scratch value;
      with a rule that selects the values but keeps the weight of one side, the same history reads a stale value, and
      [F_mix] is false for that rule. *)
From Coq Require Import List Arith Bool ZArith Lia.
From Leaspy Require Import State.StateModel State.StateProofs State.StateExec State.StateExecProofs
                           State.StateNow State.StateNowProofs State.Revert State.RevertProofs State.RevertExec State.RevertExecProofs
                           State.StateWExec.
Import ListNotations.

(** * the generic checkers are sound *)
Section GenericSound.
Variable V : Type.
Variables M IX : Type.

Theorem gwf_b_sound (g : graph V) : gwf_b g = true -> WF g.
Proof.
  intros H. unfold gwf_b in H. rewrite forallb_forall in H.
  assert (N : forall k, k < gn g -> gwf_node g k = true) by (intros k Hk; apply H, in_seq; lia).
  clear H. unfold gwf_node in N.
  assert (N' : forall k, k < gn g ->
     forallb (fun p => p <? k) (parents g k) = true /\
     (linked g k || match parents g k with [] => true | _ => false end) = true /\
     (negb (settable g k) || negb (linked g k)) = true /\
     (match hyper g k with Some _ => negb (linked g k) && negb (settable g k) | None => true end) = true /\
     increasingb (k :: desc g k) = true /\
     forallb (fun c => c <? gn g) (desc g k) = true /\
     forallb (fun c => negb (existsb (fun p => Nat.eqb p k || mem p (desc g k)) (parents g c)) || mem c (desc g k)) (seq 0 (gn g)) = true /\
     forallb (fun c => existsb (fun p => Nat.eqb p k || mem p (desc g k)) (parents g c)) (desc g k) = true /\
     increasingb (anc g k ++ [k]) = true /\
     forallb (fun p => mem p (anc g k)) (parents g k) = true /\
     forallb (fun a => forallb (fun p => mem p (anc g k)) (parents g a)) (anc g k) = true /\
     forallb (fun a => mem a (parents g k) || existsb (fun c => mem a (parents g c)) (anc g k)) (anc g k) = true).
  { intros k Hk. specialize (N k Hk). repeat (apply andb_prop in N; destruct N as [N ?]). repeat split; assumption. }
  clear N. constructor.
  - intros k p Hk Hp. destruct (N' k Hk) as [H _]. rewrite forallb_forall in H. now apply Nat.ltb_lt, H.
  - intros k Hk L. destruct (N' k Hk) as [_ [H _]]. rewrite L in H. cbn in H. destruct (parents g k); [reflexivity | discriminate].
  - intros k Hk S. destruct (N' k Hk) as [_ [_ [H _]]]. rewrite S in H. cbn in H. now destruct (linked g k).
  - intros k Hk Hh. destruct (N' k Hk) as [_ [_ [_ [H _]]]]. destruct (hyper g k); [|congruence].
    apply andb_prop in H. destruct H as [H1 H2]. split; [now destruct (linked g k) | now destruct (settable g k)].
  - intros i Hi. destruct (N' i Hi) as [_ [_ [_ [_ [H _]]]]]. now apply increasingb_spec.
  - intros i k Hi Hk. destruct (N' i Hi) as [_ [_ [_ [_ [_ [H _]]]]]]. rewrite forallb_forall in H. now apply Nat.ltb_lt, H.
  - intros i k p Hi Hk Hp Hor. destruct (N' i Hi) as [_ [_ [_ [_ [_ [_ [H _]]]]]]]. rewrite forallb_forall in H.
    specialize (H k ltac:(apply in_seq; lia)). apply orb_prop in H. destruct H as [H|H]; [|now apply mem_in].
    exfalso. apply negb_true_iff in H.
    assert (E : existsb (fun p0 => Nat.eqb p0 i || mem p0 (desc g i)) (parents g k) = true) by (apply existsb_or_mem; eauto).
    congruence.
  - intros i k Hi Hk. destruct (N' i Hi) as [_ [_ [_ [_ [_ [_ [_ [H _]]]]]]]]. rewrite forallb_forall in H.
    apply existsb_or_mem. now apply H.
  - intros i Hi. destruct (N' i Hi) as [_ [_ [_ [_ [_ [_ [_ [_ [H _]]]]]]]]]. now apply increasingb_spec.
  - intros i p Hi Hp. destruct (N' i Hi) as [_ [_ [_ [_ [_ [_ [_ [_ [_ [H _]]]]]]]]]]. rewrite forallb_forall in H. now apply mem_in, H.
  - intros i a p Hi Ha Hp. destruct (N' i Hi) as [_ [_ [_ [_ [_ [_ [_ [_ [_ [_ [H _]]]]]]]]]]]. rewrite forallb_forall in H.
    specialize (H a Ha). rewrite forallb_forall in H. now apply mem_in, H.
  - intros i a Hi Ha. destruct (N' i Hi) as [_ [_ [_ [_ [_ [_ [_ [_ [_ [_ [_ H]]]]]]]]]]]. rewrite forallb_forall in H.
    specialize (H a Ha). apply orb_prop in H. destruct H as [H|H]; [left; now apply mem_in|].
    right. apply existsb_exists in H. destruct H as [c [Hc H]]. exists c. split; [exact Hc | now apply mem_in].
Qed.

Lemma gmask_ok_b_sound (g : graph V) (sm : sem V M IX) m st : gmask_ok_b g sm m st = true -> mask_ok g sm m st.
Proof.
  unfold gmask_ok_b, mask_ok. destruct (fork st) as [fk|]; [|auto]. intros H c o cur Hin Hv.
  rewrite forallb_forall in H. specialize (H (c, Some o) Hin). cbn in H. rewrite Hv in H.
  apply andb_prop in H. destruct H as [H1 H2]. split; [exact H1|]. now destruct (mix sm m o cur).
Qed.

Lemma gop_ok_b_sound (g : graph V) (sm : sem V M IX) chk s o : gop_ok_b g sm chk s o = true -> op_ok g sm chk s o.
Proof.
  assert (U : forall (st : state V) i, (negb (i <? gn g) || negb (settable g i) || gunforked_ok_b chk st) = true ->
                           i < gn g -> settable g i = true -> unforked_ok chk st).
  { intros st i H Hi Hs Hc Hm. apply Nat.ltb_lt in Hi. rewrite Hi, Hs in H. cbn in H. unfold gunforked_ok_b in H.
    rewrite Hc, Hm in H. cbn in H. now destruct (fork st). }
  destruct o; cbn; auto.
  - destruct (nth_error s k); [apply U | auto].
  - destruct (nth_error s k); [apply U | auto].
  - destruct (nth_error s k); [apply gmask_ok_b_sound | auto].
Qed.

Lemma gdisciplined_b_sound (g : graph V) (sm : sem V M IX) fx chk ops :
  forall s, gdisciplined_b g sm fx chk s ops = true -> Disciplined g sm fx chk s ops.
Proof.
  induction ops as [|o r IH]; intros s H; cbn in *; [exact I|].
  apply andb_prop in H. destruct H as [H1 H2]. split; [now apply gop_ok_b_sound | now apply IH].
Qed.

Lemma gmask_disciplined_b_sound (g : graph V) (sm : sem V M IX) ops s :
  gdisciplined_b g sm true false s ops = true -> MaskDisciplined g sm s ops.
Proof. intros H. apply MaskDisciplined_iff. now apply gdisciplined_b_sound. Qed.

End GenericSound.

(** * row-wise selection *)

Lemma selp_map {A B} (h : A -> B) (m : list bool) : forall o c, map h (selp m o c) = selp m (map h o) (map h c).
Proof. induction m as [|b m IH]; intros [|x o] [|y c]; cbn; try reflexivity. rewrite IH. now destruct b. Qed.

Lemma selp_map2 {A B C} (h : A -> B -> C) (m : list bool) : forall o1 o2 c1 c2,
  length o1 = length m -> length o2 = length m -> length c1 = length m -> length c2 = length m ->
  map2 h (selp m o1 c1) (selp m o2 c2) = selp m (map2 h o1 o2) (map2 h c1 c2).
Proof.
  induction m as [|b m IH]; intros [|x1 o1] [|x2 o2] [|y1 c1] [|y2 c2]; cbn; intros; try lia; [reflexivity|].
  rewrite IH by lia. now destruct b.
Qed.

Lemma selp_length {A} (m : list bool) : forall o c : list A, length o = length m -> length c = length m -> length (selp m o c) = length m.
Proof. induction m as [|b m IH]; intros [|x o] [|y c]; cbn; intros; try lia. rewrite IH; lia. Qed.

Lemma selp_nth {A} (m : list bool) : forall (o c : list A) j,
  nth_error (selp m o c) j =
  match nth_error m j, nth_error o j, nth_error c j with
  | Some b, Some x, Some y => Some (if b then x else y)
  | _, _, _ => None
  end.
Proof.
  induction m as [|b m IH]; intros o c j.
  - cbn. destruct j; reflexivity.
  - destruct o as [|x o]; [cbn; destruct j; cbn; [reflexivity | now destruct (nth_error m j)]|].
    destruct c as [|y c]; [cbn; destruct j; cbn; [reflexivity | destruct (nth_error m j); [now destruct (nth_error o j) | reflexivity]]|].
    destruct j; cbn; [reflexivity | apply IH].
Qed.

Lemma sel_rows_selp (m : list bool) : forall o c, sel_rows m o c = selp m o c.
Proof. induction m as [|b m IH]; intros [|x o] [|y c]; cbn; try reflexivity. now rewrite IH. Qed.

Lemma map2_length_eq {A B C} (f : A -> B -> C) : forall a b n, length a = n -> length b = n -> length (map2 f a b) = n.
Proof. induction a as [|x a IH]; intros [|y b] n; cbn; intros; try lia. destruct n; [lia|]. rewrite (IH b n); lia. Qed.

(** * [wwhere] = the model of [_select] on weighted values *)

Lemma wwhere_WWt m ov ow cv cw :
  length ov = length m -> length ow = length m -> length cv = length m -> length cw = length m ->
  wwhere m (WWt ov ow) (WWt cv cw) = Some (WWt (selp m ov cv) (selp m ow cw)).
Proof. intros A B C D. cbn. apply Nat.eqb_eq in A, B, C, D. now rewrite A, B, C, D. Qed.

Lemma wwhere_WWt_inv m ov ow cv cw r : wwhere m (WWt ov ow) (WWt cv cw) = Some r ->
  length ov = length m /\ length ow = length m /\ length cv = length m /\ length cw = length m /\
  r = WWt (selp m ov cv) (selp m ow cw).
Proof.
  cbn. destruct (length ov =? length m) eqn:A; [|discriminate]. destruct (length ow =? length m) eqn:B; [|discriminate].
  destruct (length cv =? length m) eqn:C; [|discriminate]. destruct (length cw =? length m) eqn:D; [|discriminate].
  cbn. intros H. injection H as <-. apply Nat.eqb_eq in A, B, C, D. auto.
Qed.

(** the value AND the weight of row [j] come from the same side: the forked one where the mask says "rejected", the
    current one elsewhere *)
Theorem wwhere_rows m ov ow cv cw rv rw : wwhere m (WWt ov ow) (WWt cv cw) = Some (WWt rv rw) ->
  length rv = length m /\ length rw = length m /\
  forall j b, nth_error m j = Some b ->
    nth_error rv j = (if b then nth_error ov j else nth_error cv j) /\
    nth_error rw j = (if b then nth_error ow j else nth_error cw j).
Proof.
  intros H. destruct (wwhere_WWt_inv _ _ _ _ _ _ H) as [A [B [C [D E]]]]. injection E as -> ->.
  split; [now apply selp_length|]. split; [now apply selp_length|]. intros j b Hb.
  assert (Hj : j < length m) by (apply nth_error_Some; congruence).
  rewrite !selp_nth, Hb.
  destruct (nth_error ov j) eqn:E1; [|apply nth_error_None in E1; lia].
  destruct (nth_error cv j) eqn:E2; [|apply nth_error_None in E2; lia].
  destruct (nth_error ow j) eqn:E3; [|apply nth_error_None in E3; lia].
  destruct (nth_error cw j) eqn:E4; [|apply nth_error_None in E4; lia].
  now destruct b.
Qed.

Lemma wwhere_plain_inv m o c r : wwhere m (WPlain o) (WPlain c) = Some r -> exists x, xwhere m o c = Some x /\ r = WPlain x.
Proof. cbn. destruct (xwhere m o c) as [x|]; [|discriminate]. intros H. injection H as <-. now exists x. Qed.

Lemma wwhere_bad_l m c : wwhere m wbad c = None.
Proof. destruct c; reflexivity. Qed.

(** * entry-wise node functions commute with the selection *)

Lemma xwhere_XP_selp m o c : length o = length m -> length c = length m -> xwhere m (XP o) (XP c) = Some (XP (selp m o c)).
Proof. intros. rewrite xwhere_XP by assumption. now rewrite sel_rows_selp. Qed.

Lemma unary_old_some f : unary_fun_old f = true -> exists h, unary_fun f = Some h.
Proof.
  destruct f as [c0 cs|c0 cs|]; cbn; try discriminate.
  - destruct cs as [|c [|c' cs]]; try discriminate. eauto.
  - eauto.
Qed.

Lemma nth_forallb {A} (p : A -> bool) (l : list A) d k : forallb p l = true -> k < length l -> p (nth k l d) = true.
Proof. intros H Hk. rewrite forallb_forall in H. apply H. now apply nth_In. Qed.

Theorem F_mix_wunary (l : list wspec) : wunary_axis_b l = true -> F_mix (mk_wgraph l) wsem_where.
Proof.
  intros HU k m sel olds curs news x Hk Lk Ak Hmix [p [Hp Sp]] _ Hx. cbn in *.
  pose proof (nth_forallb _ l wspec0 k HU Hk) as Hn. cbv beta in Hn. rewrite Lk, Ak in Hn. cbn in Hn.
  apply andb_prop in Hn. destruct Hn as [Hpar Hun].
  destruct (w_parents (nth k l wspec0)) as [|q [|q' ps]] eqn:Eps; try discriminate.
  destruct Hp as [<-|[]].
  inversion Hmix as [|? ? o os c cs x0 xs Sq Hq Hrest|? ? os c cs xs Sq Hrest]; subst; [|congruence].
  inversion Hrest; subst. clear Hmix Hrest.
  destruct (w_fun (nth k l wspec0)) as [f|c0 cc thr|c0 cc|c0 cc|c0 cc|c0 cc|c0 cc] eqn:Ef; cbn in Hun; try discriminate.
  - (* the old vocabulary: one-parent affine / log2 *)
    destruct (unary_old_some f Hun) as [h Eh].
    destruct o as [xo|? ?], c as [xc|? ?]; try (cbn in Hq; discriminate).
    destruct (wwhere_plain_inv _ _ _ _ Hq) as [x1 [Hq1 ->]]. cbn [eval_wfun unplain] in *.
    rewrite !(unary_eval _ h _ Eh) in *. cbn in Hx. rewrite (xwhere_map1 h m xo xc x1 Hq1) in Hx. cbn in Hx. now injection Hx.
  - (* WThr: the weight is computed from the parent *)
    destruct o as [[a|lo|]|? ?], c as [[b|lc|]|? ?]; try (cbn in Hq; discriminate); try (cbn in Hx; unfold wbad in Hx; cbn in Hx; discriminate).
    destruct (wwhere_plain_inv _ _ _ _ Hq) as [x1 [Hq1 ->]].
    destruct (xwhere_XP_inv _ _ _ _ Hq1) as [Ho [Hc ->]]. cbn [eval_wfun] in *.
    apply wwhere_WWt_inv in Hx. destruct Hx as [_ [_ [_ [_ ->]]]]. rewrite sel_rows_selp, !selp_map. reflexivity.
  - (* WMap *)
    destruct o as [?|ov ow], c as [?|cv cw]; try (cbn in Hq; discriminate); try (cbn in Hx; unfold wbad in Hx; cbn in Hx; discriminate).
    apply wwhere_WWt_inv in Hq. destruct Hq as [A [B [C [D ->]]]]. cbn [eval_wfun] in *.
    apply wwhere_WWt_inv in Hx. destruct Hx as [_ [_ [_ [_ ->]]]]. now rewrite selp_map.
  - (* WVal *)
    destruct o as [?|ov ow], c as [?|cv cw]; try (cbn in Hq; discriminate); try (cbn in Hx; unfold wbad in Hx; cbn in Hx; discriminate).
    apply wwhere_WWt_inv in Hq. destruct Hq as [A [B [C [D ->]]]]. cbn [eval_wfun] in *.
    assert (E1 : (length ov =? length ow) = true) by (apply Nat.eqb_eq; lia).
    assert (E2 : (length cv =? length cw) = true) by (apply Nat.eqb_eq; lia).
    assert (E3 : (length (selp m ov cv) =? length (selp m ow cw)) = true) by (apply Nat.eqb_eq; rewrite !selp_length; lia).
    rewrite E1, E2 in Hx. rewrite E3. cbn [wwhere] in Hx.
    destruct (xwhere m (XP (map (aff c0 cc) (map2 wv_atom ov ow))) (XP (map (aff c0 cc) (map2 wv_atom cv cw)))) as [r|] eqn:Er; cbn in Hx; [|discriminate].
    injection Hx as <-. destruct (xwhere_XP_inv _ _ _ _ Er) as [_ [_ ->]].
    rewrite sel_rows_selp, <- selp_map, <- selp_map2 by assumption. reflexivity.
  - (* WWgt *)
    destruct o as [?|ov ow], c as [?|cv cw]; try (cbn in Hq; discriminate); try (cbn in Hx; unfold wbad in Hx; cbn in Hx; discriminate).
    apply wwhere_WWt_inv in Hq. destruct Hq as [A [B [C [D ->]]]]. cbn [eval_wfun] in *.
    assert (E1 : (length ov =? length ow) = true) by (apply Nat.eqb_eq; lia).
    assert (E2 : (length cv =? length cw) = true) by (apply Nat.eqb_eq; lia).
    assert (E3 : (length (selp m ov cv) =? length (selp m ow cw)) = true) by (apply Nat.eqb_eq; rewrite !selp_length; lia).
    rewrite E1, E2 in Hx. rewrite E3. cbn [wwhere] in Hx.
    destruct (xwhere m (XP (map (aff c0 cc) (map2 ww_atom ov ow))) (XP (map (aff c0 cc) (map2 ww_atom cv cw)))) as [r|] eqn:Er; cbn in Hx; [|discriminate].
    injection Hx as <-. destruct (xwhere_XP_inv _ _ _ _ Er) as [_ [_ ->]].
    rewrite sel_rows_selp, <- selp_map, <- selp_map2 by assumption. reflexivity.
Qed.

(** ** hence: never stale on every weighted toy graph of that class, for every history meeting the documented
    precondition of partial reverts — no hypothesis on node functions left *)
Theorem never_stale_weighted (l : list wspec) :
  wwf_b (mk_wgraph l) = true -> wunary_axis_b l = true ->
  forall ops, MaskDisciplined (mk_wgraph l) wsem_where (init_store (mk_wgraph l)) ops ->
  forall k i st,
    nth_error (fst (run_now (mk_wgraph l) wsem_where (init_store (mk_wgraph l)) ops)) k = Some st ->
    snd (step_now (mk_wgraph l) wsem_where (fst (run_now (mk_wgraph l) wsem_where (init_store (mk_wgraph l)) ops)) (Get k i)) =
      match scratch (mk_wgraph l) (values st) i with Some v => Ok v | None => Err InputError end.
Proof.
  intros W U ops D. apply (read_after_history_now wval (list bool) nat (mk_wgraph l) wsem_where (gwf_b_sound _ _ W) ops (F_mix_wunary l U) D).
Qed.

(** ... and the partial-revert theorem of C02 (RevertProofs.v) on every such graph, for the code as it is ([fx = true]): after
    [x := o] (forked), reads allowed by the contract and [revert(m)], every doubly cached node of the forked sub-graph — plain
    or weighted — is the row-wise selection of value AND weight, the aggregates are unset, the cache is consistent *)
Theorem partial_revert_weighted (l : list wspec) :
  wwf_b (mk_wgraph l) = true -> wunary_axis_b l = true ->
  let g := mk_wgraph l in
  forall (st : state wval) (i : nat) (o : option wval) (reads : list nat) (m : list bool),
    Good g st -> mode st <> None -> i < gn g -> settable g i = true -> ind_axis g i = true ->
    (forall r, In r reads -> axis_read_ok g i r) ->
    let st1 := fst (set_state g true st i o) in
    let st2 := gets g st1 reads in
    shapes_ok g wsem_where m i (values st) (values st2) ->
    let st3 := fst (revert_mask_state wsem_where st2 m) in
    snd (revert_mask_state wsem_where st2 m) = Done /\
    (forall j, In j (i :: desc g i) ->
       values st3 j = match values st j, values st2 j with Some old, Some cur => wwhere m old cur | _, _ => None end) /\
    (forall j, ~ In j (i :: desc g i) -> values st3 j = values st2 j) /\
    (forall j w, ~ In j (i :: desc g i) -> values st j = Some w -> values st3 j = Some w) /\
    (forall j, In j (desc g i) -> ind_axis g j = false -> values st3 j = None) /\
    Good g st3 /\ fork st3 = None /\ mode st3 = mode st.
Proof.
  intros W U g st i o reads m HG Hm Hi Hs Ha Hr.
  exact (partial_revert wval (list bool) nat g wsem_where true false (gwf_b_sound _ _ W) (or_introl eq_refl)
           st i o reads m (F_mix_wunary l U) HG Hm Hi Hs Ha Hr).
Qed.

(** * the graph of the seeded defect *)

Lemma onset_wf : WF (mk_wgraph onset_nodes).
Proof. apply gwf_b_sound. vm_compute. reflexivity. Qed.

Lemma onset_fmix : F_mix (mk_wgraph onset_nodes) wsem_where.
Proof. apply F_mix_wunary. vm_compute. reflexivity. Qed.

(** the history meets the precondition; the proposal flips the weight of every row; after the rejection of individuals 1
    and 2 the cached weighted node holds, row by row, the value AND the weight of the kept side, and every read — the
    weighted node, the per-individual weighted value, the two aggregates — is the from-scratch value of x = [5, 5, 2, 3] *)
Example onset_now :
  MaskDisciplined (mk_wgraph onset_nodes) wsem_where (init_store (mk_wgraph onset_nodes)) onset_ops /\
  wread_of (mk_wgraph onset_nodes) wsem_where true onset_ops 0 0 = Ok (WPlain (XP [AFin 5; AFin 5; AFin 2; AFin 3]%Z)) /\
  wread_of (mk_wgraph onset_nodes) wsem_where true onset_ops 0 1 = Ok (WWt [AFin 5; AFin 5; AFin 2; AFin 3]%Z [true; true; false; true]) /\
  wfresh_of (mk_wgraph onset_nodes) wsem_where true onset_ops 0 1 = Some (Some (WWt [AFin 5; AFin 5; AFin 2; AFin 3]%Z [true; true; false; true])) /\
  wread_of (mk_wgraph onset_nodes) wsem_where true onset_ops 0 2 = Ok (WPlain (XP [AFin 5; AFin 5; AFin 0; AFin 3]%Z)) /\
  wread_of (mk_wgraph onset_nodes) wsem_where true onset_ops 0 3 = Ok (WPlain (XS (AFin 3))) /\
  wfresh_of (mk_wgraph onset_nodes) wsem_where true onset_ops 0 3 = Some (Some (WPlain (XS (AFin 3)))) /\
  wread_of (mk_wgraph onset_nodes) wsem_where true onset_ops 0 4 = Ok (WPlain (XS (AFin 13))) /\
  wfresh_of (mk_wgraph onset_nodes) wsem_where true onset_ops 0 4 = Some (Some (WPlain (XS (AFin 13)))).
Proof. split; [apply gmask_disciplined_b_sound; vm_compute; reflexivity|]. vm_compute. repeat split. Qed.

(** the same history under a rule that selects the values row by row but keeps the FORKED weight for all rows (the
    seeded defect): the accepted rows 0 and 3 hold the new value with the old weight — the cached node is no longer its
    definition on the current x, and the aggregates recomputed from it are wrong too *)
Example onset_old_weight_stale :
  wread_of (mk_wgraph onset_nodes) wsem_old_weight true onset_ops 0 0 = Ok (WPlain (XP [AFin 5; AFin 5; AFin 2; AFin 3]%Z)) /\
  wread_of (mk_wgraph onset_nodes) wsem_old_weight true onset_ops 0 1 = Ok (WWt [AFin 5; AFin 5; AFin 2; AFin 3]%Z [false; true; false; true]) /\
  wfresh_of (mk_wgraph onset_nodes) wsem_old_weight true onset_ops 0 1 = Some (Some (WWt [AFin 5; AFin 5; AFin 2; AFin 3]%Z [true; true; false; true])) /\
  wread_of (mk_wgraph onset_nodes) wsem_old_weight true onset_ops 0 3 = Ok (WPlain (XS (AFin 2))) /\
  wread_of (mk_wgraph onset_nodes) wsem_old_weight true onset_ops 0 4 = Ok (WPlain (XS (AFin 8))) /\
  wfresh_of (mk_wgraph onset_nodes) wsem_old_weight true onset_ops 0 4 = Some (Some (WPlain (XS (AFin 13)))).
Proof. vm_compute. repeat split. Qed.

(** ... and under the rule that keeps the CURRENT weight for all rows: the rejected rows are wrong *)
Example onset_new_weight_stale :
  wread_of (mk_wgraph onset_nodes) wsem_new_weight true onset_ops 0 1 = Ok (WWt [AFin 5; AFin 5; AFin 2; AFin 3]%Z [true; false; true; true]) /\
  wfresh_of (mk_wgraph onset_nodes) wsem_new_weight true onset_ops 0 1 = Some (Some (WWt [AFin 5; AFin 5; AFin 2; AFin 3]%Z [true; true; false; true])).
Proof. vm_compute. repeat split. Qed.

(** so [F_mix] — the hypothesis under which the partial-revert theorems hold — is FALSE for these rules: the theorems
    do not speak about a tree whose [_select] keeps one side's weight *)
Theorem F_mix_fails_old_weight : ~ F_mix (mk_wgraph onset_nodes) wsem_old_weight.
Proof.
  intros Fm.
  specialize (Fm 1 [false; true] (fun p => Nat.eqb p 0)
                [WPlain (XP [AFin 1; AFin 5]%Z)] [WPlain (XP [AFin 5; AFin 1]%Z)] [WPlain (XP [AFin 5; AFin 5]%Z)]
                (WWt [AFin 5; AFin 5]%Z [false; true])).
  cbn in Fm. assert (H : WWt [AFin 5; AFin 5]%Z [true; true] = WWt [AFin 5; AFin 5]%Z [false; true]); [|discriminate H].
  apply Fm; try reflexivity; try lia.
  - apply MixSel; [reflexivity | reflexivity | apply MixNil].
  - exists 0. split; [now left | reflexivity].
  - intros p [<-|[]] _. reflexivity.
Qed.

Theorem F_mix_fails_new_weight : ~ F_mix (mk_wgraph onset_nodes) wsem_new_weight.
Proof.
  intros Fm.
  specialize (Fm 1 [false; true] (fun p => Nat.eqb p 0)
                [WPlain (XP [AFin 1; AFin 5]%Z)] [WPlain (XP [AFin 5; AFin 1]%Z)] [WPlain (XP [AFin 5; AFin 5]%Z)]
                (WWt [AFin 5; AFin 5]%Z [true; false])).
  cbn in Fm. assert (H : WWt [AFin 5; AFin 5]%Z [true; true] = WWt [AFin 5; AFin 5]%Z [true; false]); [|discriminate H].
  apply Fm; try reflexivity; try lia.
  - apply MixSel; [reflexivity | reflexivity | apply MixNil].
  - exists 0. split; [now left | reflexivity].
  - intros p [<-|[]] _. reflexivity.
Qed.

(** the checker of the tie accepts the history with the observations of the code and rejects it when the weight observed
    for an accepted row is the forked one *)
Example check_wcase_discriminates :
  check_wcase_with wsem_where true
    (onset_nodes, [ (SetMode 0 (Some REF), Done, true);
                    (Set_ 0 0 (Some (WPlain (XP [AFin 1; AFin 5]%Z))), Done, true); (Get 0 1, Ok (WWt [AFin 1; AFin 5]%Z [false; true]), true);
                    (Put 0 0 None (WPlain (XP [AFin 4; AFin (-4)]%Z)) true, Done, true); (Get 0 1, Ok (WWt [AFin 5; AFin 1]%Z [true; false]), true);
                    (RevertMask 0 [false; true], Done, true); (Get 0 1, Ok (WWt [AFin 5; AFin 5]%Z [true; true]), true) ]) = true /\
  check_wcase_with wsem_where true
    (onset_nodes, [ (SetMode 0 (Some REF), Done, true);
                    (Set_ 0 0 (Some (WPlain (XP [AFin 1; AFin 5]%Z))), Done, true); (Get 0 1, Ok (WWt [AFin 1; AFin 5]%Z [false; true]), true);
                    (Put 0 0 None (WPlain (XP [AFin 4; AFin (-4)]%Z)) true, Done, true); (Get 0 1, Ok (WWt [AFin 5; AFin 1]%Z [true; false]), true);
                    (RevertMask 0 [false; true], Done, true); (Get 0 1, Ok (WWt [AFin 5; AFin 5]%Z [false; true]), true) ]) = false.
Proof. vm_compute. split; reflexivity. Qed.
