(** Scoped fork-mode switches: [with state.auto_fork(m): ...] (state.py:217-238, the context manager
    [State.auto_fork]) on top of the [State] model of StateModel.v — definitions only, nothing of StateModel.v
    is changed.

    The context manager is

        orig_auto_fork_type = self.auto_fork_type
        try:
            self.auto_fork_type = type
            yield
        finally:
            self.auto_fork_type = orig_auto_fork_type

    i.e. "set the mode, run the body, ALWAYS put the previous mode back" — also when the body raises and the
    exception leaves the block.  A history with scoped blocks is a list of [sop]:

      [SPlain o]        an operation of StateModel.v; at top level the caller catches what it raises
                        (the result [Err _] is recorded and the history goes on);
      [SLook k]         an observation of the bookkeeping of state [k] ([auto_fork_type], [_last_fork]); changes nothing;
      [SScoped k m b]   [with states[k].auto_fork(m): b] — the body [b] is run until the first operation that
                        returns an error: that exception leaves this block AND every enclosing block (each of them
                        restores its own previous mode on the way out) and is caught at top level.

    The execution is a DERIVED FORM: it is made of [step]s of StateModel.v only ([SetMode] on entry and on exit), and
    it returns the trace of what was executed — every primitive event with the store it was executed in.  Results,
    the precondition of a history, its flattening into a plain history and the stores it visits are all read off
    that trace (StateScopedProofs.v: the trace is a chain of [step]s, so every theorem about plain histories lifts). *)
From Coq Require Import List Arith Bool.
From Leaspy Require Import State.StateModel.
Import ListNotations.
Set Implicit Arguments.

Section Scoped.
Variables V M IX : Type.
Variable g : graph V.
Variable sm : sem V M IX.
Variable fx : bool.

Inductive sop :=
| SPlain (o : op V M IX)
| SLook (k : nat)
| SScoped (k : nat) (m : option fork_type) (b : sblock)
with sblock :=
| SNil
| SCons (x : sop) (b : sblock).

(** what happened, one entry per primitive event, in execution order *)
Inductive prim :=
| EOp (o : op V M IX)                          (* an operation of StateModel.v was executed *)
| ELook (k : nat)                              (* the bookkeeping of state [k] was observed *)
| EBad (k : nat)                               (* the harness's handle [k] names no state (counts as raised) *)
| EEnter (k : nat) (m : option fork_type)      (* __enter__: auto_fork_type := m *)
| EExit (k : nat) (m : option fork_type).      (* __exit__ (normal or by exception): auto_fork_type := m, the previous mode *)

(** an event = the store just before it, and what was done *)
Definition event : Type := store V * prim.

Definition is_err (r : out V) : bool := match r with Err _ => true | _ => false end.

(** [self.auto_fork_type = m] — the [SetMode] step of StateModel.v *)
Definition set_mode (s : store V) (k : nat) (m : option fork_type) : store V :=
  fst (step g sm fx s (SetMode k m)).

(** [sexec s x] = (store afterwards, trace, did an exception leave [x]?) *)
Fixpoint sexec (s : store V) (x : sop) : store V * list event * bool :=
  match x with
  | SPlain o => let '(s', r) := step g sm fx s o in (s', [(s, EOp o)], is_err r)
  | SLook k =>
      match nth_error s k with
      | Some _ => (s, [(s, ELook k)], false)
      | None => (s, [(s, EBad k)], true)
      end
  | SScoped k m b =>
      match nth_error s k with
      | None => (s, [(s, EBad k)], true)
      | Some st =>
          let '(s1, t, raised) := bexec (set_mode s k m) b in
          (* finally: the previous mode is put back, whether or not the body raised *)
          (set_mode s1 k (mode st), (s, EEnter k m) :: t ++ [(s1, EExit k (mode st))], raised)
      end
  end
with bexec (s : store V) (b : sblock) : store V * list event * bool :=
  match b with
  | SNil => (s, [], false)
  | SCons x r =>
      let '(s1, t1, raised) := sexec s x in
      if raised then (s1, t1, true)              (* the exception leaves the block: the rest of the body is skipped *)
      else let '(s2, t2, raised2) := bexec s1 r in (s2, t1 ++ t2, raised2)
  end.

(** a history: every top-level element is run inside the caller's [try ... except] *)
Fixpoint srun (s : store V) (h : list sop) : store V * list event :=
  match h with
  | [] => (s, [])
  | x :: r => let '(s1, t1, _) := sexec s x in let '(s2, t2) := srun s1 r in (s2, t1 ++ t2)
  end.

(** ** what is read off a trace *)

(** results *)
Inductive obs :=
| OOut (o : op V M IX) (r : out V)                                   (* the result of an operation *)
| OSeen (k : nat) (m : option fork_type) (fk : option (forkd V))     (* auto_fork_type and _last_fork of state [k] *)
| OBad (k : nat).

Definition seen (s : store V) (k : nat) (m : option fork_type) : obs :=
  match nth_error s k with Some st => OSeen k m (fork st) | None => OBad k end.

Definition obs_of (e : event) : obs :=
  let s := fst e in
  match snd e with
  | EOp o => OOut o (snd (step g sm fx s o))
  | ELook k => match nth_error s k with Some st => OSeen k (mode st) (fork st) | None => OBad k end
  | EBad k => OBad k
  | EEnter k m => seen s k m         (* observed just inside the block: the mode is [m], the undo log untouched *)
  | EExit k m => seen s k m          (* observed just after the block: the mode is the previous one again *)
  end.

(** the plain operations the event stands for: the scoped form expands to
    [SetMode k m; executed body ...; SetMode k old] *)
Definition flat_ev (e : event) : list (op V M IX) :=
  match snd e with
  | EOp o => [o]
  | EEnter k m | EExit k m => [SetMode k m]
  | ELook _ | EBad _ => []
  end.

Definition flat (t : list event) : list (op V M IX) := flat_map flat_ev t.

(** the plain history a history with scoped blocks amounts to, from store [s] *)
Definition hflat (s : store V) (h : list sop) : list (op V M IX) := flat (snd (srun s h)).

(** a trace is a chain of [step]s from [s] to [s']: each event is executed in the store the previous ones left *)
Fixpoint chain (s : store V) (t : list event) (s' : store V) : Prop :=
  match t with
  | [] => s' = s
  | e :: r => fst e = s /\ chain (fst (run g sm fx s (flat_ev e))) r s'
  end.

(** the precondition of a history, parametrised by the precondition [okp] of one operation: it is asked of
    every operation that is really executed, in the store it is executed in *)
Definition ev_ok (okp : store V -> op V M IX -> Prop) (e : event) : Prop :=
  match snd e with EOp o => okp (fst e) o | _ => True end.

Definition SDisciplinedWith (okp : store V -> op V M IX -> Prop) (s : store V) (h : list sop) : Prop :=
  Forall (ev_ok okp) (snd (srun s h)).

(** every store the execution goes through: before each primitive event, and at the end *)
Definition visits (s : store V) (h : list sop) : list (store V) :=
  map fst (snd (srun s h)) ++ [fst (srun s h)].

End Scoped.

Arguments SPlain {V M IX}. Arguments SLook {V M IX}. Arguments SScoped {V M IX}.
Arguments SNil {V M IX}. Arguments SCons {V M IX}.
Arguments EOp {V M IX}. Arguments ELook {V M IX}. Arguments EBad {V M IX}.
Arguments EEnter {V M IX}. Arguments EExit {V M IX}.
Arguments OOut {V M IX}. Arguments OSeen {V M IX}. Arguments OBad {V M IX}.

(** ** the instance at the code as it is (StateNow.v: [fx = true]) *)
From Leaspy Require Import State.StateNow.

Section ScopedNow.
Variables V M IX : Type.
Variable g : graph V.
Variable sm : sem V M IX.

Definition srun_now (s : store V) (h : list (sop V M IX)) : store V * list (event V M IX) := srun g sm true s h.

(** the documented precondition of per-individual reverts, asked of every [RevertMask] that is executed — inside
    blocks or not — and nothing else *)
Definition SMaskDisciplined (s : store V) (h : list (sop V M IX)) : Prop :=
  SDisciplinedWith g sm true (pre_ok g sm) s h.

End ScopedNow.

(** ** agreement of two executions (the "later history" simulation of C02, State/Revert.v) *)
From Leaspy Require Import State.Revert.

Section ScopedSim.
Variables V M IX : Type.
Variable g : graph V.

(** two events of two executions: the same primitive, executed in pairwise equivalent stores *)
Definition ev_sim (e1 e2 : event V M IX) : Prop := snd e1 = snd e2 /\ sim_store g (fst e1) (fst e2).

(** results agree: the same operation with the same result, except where the operation inspects the cache itself
    ([cache_blind], as in [outs_agree]); the same fork mode and an undo log over the same variables *)
Definition obs_agree (a b : obs V M IX) : Prop :=
  match a, b with
  | OOut o r, OOut o' r' => o = o' /\ (cache_blind g o = true -> r = r')
  | OSeen k m f, OSeen k' m' f' => k = k' /\ m = m' /\ option_map (map fst) f = option_map (map fst) f'
  | OBad k, OBad k' => k = k'
  | _, _ => False
  end.

End ScopedSim.
