(** Reflection lemmas for the executable instance ([wf_b] decides [WF], [disciplined_b] decides
    [Disciplined]) and the concrete witnesses (toy graphs, the history of the former finding F1). *)
From Coq Require Import List Arith Bool ZArith Lia.
From Leaspy Require Import State.StateModel State.StateProofs State.StateExec.
Import ListNotations.

Lemma increasingb_spec l : increasingb l = true -> increasing l.
Proof.
  induction l as [|a r IH]; cbn; [auto|]. intros H. apply andb_prop in H. destruct H as [H1 H2].
  split; [|now apply IH]. destruct r; [exact I | now apply Nat.ltb_lt].
Qed.

Lemma existsb_or_mem k (d ps : list nat) :
  existsb (fun p => Nat.eqb p k || mem p d) ps = true <-> exists p, In p ps /\ (p = k \/ In p d).
Proof.
  rewrite existsb_exists. split; intros [p [Hp H]]; exists p; (split; [exact Hp|]).
  - apply orb_prop in H. destruct H as [H|H]; [left; now apply Nat.eqb_eq | right; now apply mem_in].
  - apply orb_true_intro. destruct H as [H|H]; [left; now apply Nat.eqb_eq | right; now apply mem_in].
Qed.

Theorem wf_b_sound (g : graph xval) : wf_b g = true -> WF g.
Proof.
  intros H. unfold wf_b in H. rewrite forallb_forall in H.
  assert (N : forall k, k < gn g -> wf_node g k = true) by (intros k Hk; apply H, in_seq; lia).
  clear H. unfold wf_node in N.
  assert (N' : forall k, k < gn g ->
     forallb (fun p => p <? k) (parents g k) = true /\
     (linked g k || match parents g k with [] => true | _ => false end) = true /\
     (negb (settable g k) || negb (linked g k)) = true /\
     (match hyper g k with Some _ => negb (linked g k) && negb (settable g k) | None => true end) = true /\
     increasingb (k :: desc g k) = true /\
     forallb (fun c => c <? gn g) (desc g k) = true /\
     forallb (fun c => negb (existsb (fun p => Nat.eqb p k || mem p (desc g k)) (parents g c)) || mem c (desc g k)) (seq 0 (gn g)) = true /\
     forallb (fun c => existsb (fun p => Nat.eqb p k || mem p (desc g k)) (parents g c)) (desc g k) = true /\
     increasingb (anc g k ++ [k]) = true /\
     forallb (fun p => mem p (anc g k)) (parents g k) = true /\
     forallb (fun a => forallb (fun p => mem p (anc g k)) (parents g a)) (anc g k) = true /\
     forallb (fun a => mem a (parents g k) || existsb (fun c => mem a (parents g c)) (anc g k)) (anc g k) = true).
  { intros k Hk. specialize (N k Hk). repeat (apply andb_prop in N; destruct N as [N ?]). repeat split; assumption. }
  clear N. constructor.
  - intros k p Hk Hp. destruct (N' k Hk) as [H _]. rewrite forallb_forall in H. now apply Nat.ltb_lt, H.
  - intros k Hk L. destruct (N' k Hk) as [_ [H _]]. rewrite L in H. cbn in H. destruct (parents g k); [reflexivity | discriminate].
  - intros k Hk S. destruct (N' k Hk) as [_ [_ [H _]]]. rewrite S in H. cbn in H. now destruct (linked g k).
  - intros k Hk Hh. destruct (N' k Hk) as [_ [_ [_ [H _]]]]. destruct (hyper g k); [|congruence].
    apply andb_prop in H. destruct H as [H1 H2]. split; [now destruct (linked g k) | now destruct (settable g k)].
  - intros i Hi. destruct (N' i Hi) as [_ [_ [_ [_ [H _]]]]]. now apply increasingb_spec.
  - intros i k Hi Hk. destruct (N' i Hi) as [_ [_ [_ [_ [_ [H _]]]]]]. rewrite forallb_forall in H. now apply Nat.ltb_lt, H.
  - intros i k p Hi Hk Hp Hor. destruct (N' i Hi) as [_ [_ [_ [_ [_ [_ [H _]]]]]]]. rewrite forallb_forall in H.
    specialize (H k ltac:(apply in_seq; lia)). apply orb_prop in H. destruct H as [H|H]; [|now apply mem_in].
    exfalso. apply negb_true_iff in H.
    assert (E : existsb (fun p0 => Nat.eqb p0 i || mem p0 (desc g i)) (parents g k) = true) by (apply existsb_or_mem; eauto).
    congruence.
  - intros i k Hi Hk. destruct (N' i Hi) as [_ [_ [_ [_ [_ [_ [_ [H _]]]]]]]]. rewrite forallb_forall in H.
    apply existsb_or_mem. now apply H.
  - intros i Hi. destruct (N' i Hi) as [_ [_ [_ [_ [_ [_ [_ [_ [H _]]]]]]]]]. now apply increasingb_spec.
  - intros i p Hi Hp. destruct (N' i Hi) as [_ [_ [_ [_ [_ [_ [_ [_ [_ [H _]]]]]]]]]]. rewrite forallb_forall in H. now apply mem_in, H.
  - intros i a p Hi Ha Hp. destruct (N' i Hi) as [_ [_ [_ [_ [_ [_ [_ [_ [_ [_ [H _]]]]]]]]]]]. rewrite forallb_forall in H.
    specialize (H a Ha). rewrite forallb_forall in H. now apply mem_in, H.
  - intros i a Hi Ha. destruct (N' i Hi) as [_ [_ [_ [_ [_ [_ [_ [_ [_ [_ [_ H]]]]]]]]]]]. rewrite forallb_forall in H.
    specialize (H a Ha). apply orb_prop in H. destruct H as [H|H]; [left; now apply mem_in|].
    right. apply existsb_exists in H. destruct H as [c [Hc H]]. exists c. split; [exact Hc | now apply mem_in].
Qed.

(** ** decidable discipline *)
Fixpoint disciplined_b (g : graph xval) (sm : sem xval (list bool) nat) (fx chk : bool) (s : store xval) (ops : list xop) : bool :=
  match ops with
  | [] => true
  | o :: r => op_ok_b g sm chk s o && disciplined_b g sm fx chk (fst (step g sm fx s o)) r
  end.

Lemma mask_ok_b_sound g sm m st : mask_ok_b g sm m st = true -> mask_ok g sm m st.
Proof.
  unfold mask_ok_b, mask_ok. destruct (fork st) as [fk|]; [|auto]. intros H c o cur Hin Hv.
  rewrite forallb_forall in H. specialize (H (c, Some o) Hin). cbn in H. rewrite Hv in H.
  apply andb_prop in H. destruct H as [H1 H2]. split; [exact H1|]. now destruct (mix sm m o cur).
Qed.

Lemma op_ok_b_sound g sm chk s o : op_ok_b g sm chk s o = true -> op_ok g sm chk s o.
Proof.
  assert (U : forall st i, (negb (i <? gn g) || negb (settable g i) || unforked_ok_b chk st) = true ->
                           i < gn g -> settable g i = true -> unforked_ok chk st).
  { intros st i H Hi Hs Hc Hm. apply Nat.ltb_lt in Hi. rewrite Hi, Hs in H. cbn in H. unfold unforked_ok_b in H.
    rewrite Hc, Hm in H. cbn in H. now destruct (fork st). }
  destruct o; cbn; auto.
  - destruct (nth_error s k); [apply U | auto].
  - destruct (nth_error s k); [apply U | auto].
  - destruct (nth_error s k); [apply mask_ok_b_sound | auto].
Qed.

Lemma disciplined_b_sound g sm fx chk ops : forall s, disciplined_b g sm fx chk s ops = true -> Disciplined g sm fx chk s ops.
Proof.
  induction ops as [|o r IH]; intros s H; cbn in *; [exact I|].
  apply andb_prop in H. destruct H as [H1 H2]. split; [now apply op_ok_b_sound | now apply IH].
Qed.

(** ** concrete graphs *)

(** the graph and the history of the former finding F1:  c = a + b *)
Definition f1_nodes : list nspec :=
  [ mkN false true None false [] [] [2] NLog2;
    mkN false true None false [] [] [2] NLog2;
    mkN true false None false [0; 1] [0; 1] [] (NAffine 0 [1; 1])%Z ].

Definition f1_ops : list xop :=
  [ SetMode 0 (Some REF); Set_ 0 0 (Some (XS (AFin 1))); Set_ 0 1 (Some (XS (AFin 10))); Get 0 2;
    Set_ 0 0 (Some (XS (AFin 2))); SetMode 0 None; Set_ 0 1 (Some (XS (AFin 20))); Revert 0 ].

Lemma F_mix_no_axis (l : list nspec) (sm : sem xval (list bool) nat) : (forall k, k < length l -> s_axis (nth k l nspec0) = false) -> F_mix (mk_graph l) sm.
Proof. intros H k m sel olds curs news x Hk _ Ha. cbn in *. rewrite H in Ha by exact Hk. discriminate. Qed.

(** the 5+3-node graph of tests/unit_tests/variables/test_state.py, in the implementation's topological order:
    mean, nll_regul_ind_sum_ind, scale, t, x, nll_regul_ind_sum, model = x*t (here 2*x + 3*t), nll_regul_x *)
Definition test_state_nodes : list nspec :=
  [ mkN false false (Some (XS (AFin 100))) false [] [] [7] NLog2;
    mkN false false (Some (XS (AFin 0))) false [] [] [5] NLog2;
    mkN false false (Some (XS (AFin 1))) false [] [] [7] NLog2;
    mkN false true None true [] [] [6] NLog2;
    mkN false true None false [] [] [6; 7] NLog2;
    mkN true false None false [1] [1] [] (NSum 0 [1])%Z;
    mkN true false None true [4; 3] [3; 4] [] (NAffine 0 [2; 3])%Z;
    mkN true false None false [0; 2; 4] [0; 2; 4] [] (NAffine 0 [1; -1; 1])%Z ].

(** a 4-node diamond with a per-individual root and an aggregated sink *)
Definition diamond_nodes : list nspec :=
  [ mkN false true None true [] [] [1; 2; 3] NLog2;
    mkN true false None true [0] [0] [3] (NAffine 1 [2])%Z;
    mkN true false None true [0] [0] [3] (NAffine (-1) [3])%Z;
    mkN true false None false [1; 2] [0; 1; 2] [] (NSum 0 [5; 7])%Z ].

Lemma f1_wf : WF (mk_graph f1_nodes).
Proof. apply wf_b_sound. vm_compute. reflexivity. Qed.

Lemma test_state_wf : WF (mk_graph test_state_nodes).
Proof. apply wf_b_sound. vm_compute. reflexivity. Qed.

Lemma diamond_wf : WF (mk_graph diamond_nodes).
Proof. apply wf_b_sound. vm_compute. reflexivity. Qed.

(** a non-well-formed description is rejected: [desc 0] misses the grand-child *)
Example wf_b_rejects :
  wf_b (mk_graph [ mkN false true None false [] [] [1] NLog2;
                   mkN true false None false [0] [0] [2] (NAffine 0 [1])%Z;
                   mkN true false None false [1] [0; 1] [] (NAffine 0 [1])%Z ]) = false.
Proof. vm_compute. reflexivity. Qed.

Definition read_of (g : graph xval) (sm : sem xval (list bool) nat) (fx : bool) (ops : list xop) (k i : nat) : out xval :=
  snd (step g sm fx (fst (run g sm fx (init_store g) ops)) (Get k i)).

Definition fresh_of (g : graph xval) (sm : sem xval (list bool) nat) (fx : bool) (ops : list xop) (k i : nat) : option (option xval) :=
  match nth_error (fst (run g sm fx (init_store g) ops)) k with
  | Some st => Some (scratch g (values st) i)
  | None => None
  end.

(** the history of the former finding F1 on the model of the code as it is ([fx = true], see StateNow.v): the revert is
    refused (nothing to revert) and the read is fresh.  (On the variant [fx = false] — the code before 27ac519 — the same
    history reads 11 where the current independent values give 21; that witness is recorded in known_findings.jsonl and
    docs/C01.md and is what the harness replays on a tree that has lost the repair.) *)
Example f1_repaired :
  read_of (mk_graph f1_nodes) xsem true f1_ops 0 2 = Ok (XS (AFin 22)) /\
  fresh_of (mk_graph f1_nodes) xsem true f1_ops 0 2 = Some (Some (XS (AFin 22))) /\
  disciplined_b (mk_graph f1_nodes) xsem true false (init_store (mk_graph f1_nodes)) f1_ops = true.
Proof. vm_compute. repeat split. Qed.

(** non-vacuity of the hypotheses of the general theorems of StateProofs.v at [fx = false], [chk = true] (the variant
    with the extra clause): a 14-operation history with forked assignments, reads, a full and a partial revert, a clone
    and a mode switch that is disciplined in the strict sense *)
Definition demo_ops : list xop :=
  [ SetMode 0 (Some REF); Set_ 0 0 (Some (XP [AFin 1; AFin 2])); Get 0 3;
    Put 0 0 None (XP [AFin 5; AFin (-1)]) true; Get 0 1; Get 0 2; RevertMask 0 [true; false]; Get 0 3;
    Clone 0 false false; Put 1 0 (Some 1) (XS (AFin 4)) true; Get 1 3; Revert 1; Get 1 3; SetMode 1 None ].

Example demo_disciplined :
  disciplined_b (mk_graph diamond_nodes) xsem false true (init_store (mk_graph diamond_nodes)) demo_ops = true /\
  read_of (mk_graph diamond_nodes) xsem false demo_ops 1 3 = Ok (XS (AFin 58)) /\
  fresh_of (mk_graph diamond_nodes) xsem false demo_ops 1 3 = Some (Some (XS (AFin 58))).
Proof. vm_compute. repeat split. Qed.
