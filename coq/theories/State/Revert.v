(** C02 — "a rejected proposal leaves no trace in the state": definitions on top of the model of
    [State] (State/StateModel.v).  Definitions only; the proofs are in RevertProofs.v.

    What mirrors what (src/leaspy/variables/state.py):
    - a proposal is a forked assignment [set_state] / [put_state] made while [mode st <> None]
      (the samplers run with [auto_fork_type = REF], state.py:436-440);
    - the reads between the proposal and the decision are [get_list] (a sequence of [__getitem__]);
    - a full rejection is [revert_state] (state.py:552-555), a per-individual one is
      [revert_mask_state] with the mask of the REJECTED individuals (state.py:556-572). *)
From Coq Require Import List Arith Bool.
From Leaspy Require Import State.StateModel State.StateProofs.
Import ListNotations.
Set Implicit Arguments.

Section Revert.
Variables V M IX : Type.
Variable g : graph V.
Variable sm : sem V M IX.
Variable fx : bool.

(** a sequence of reads: the state after them and what each returned *)
Fixpoint get_list (st : state V) (reads : list nat) : state V * list (out V) :=
  match reads with
  | [] => (st, [])
  | r :: rs =>
      let '(st1, o) := get_state g st r in
      let '(st2, os) := get_list st1 rs in (st2, o :: os)
  end.

Definition gets (st : state V) (reads : list nat) : state V := fst (get_list st reads).

(** the state with its one-level undo log consumed (what [revert] leaves: [_last_fork = None]) *)
Definition forget_fork (st : state V) : state V := mkState (values st) None (mode st).

(** The documented contract on reads between a proposal of variable [i] and a PER-INDIVIDUAL decision:
    only variables carrying the individual axis — made precise: reading [r] caches [r] and its ancestors,
    so every node of that set lying below [i] must carry the individual axis. *)
Definition axis_read_ok (i r : nat) : Prop :=
  forall a, In a (anc g r ++ [r]) -> In a (desc g i) -> ind_axis g a = true.

(** "shapes consistent with the subset" (docstring of [State.revert]): the mix raises on no node of the
    forked sub-graph that is cached before ([old]) and after ([cur]) the proposal *)
Definition shapes_ok (m : M) (i : nat) (old cur : vals V) : Prop :=
  forall c o x, In c (i :: desc g i) -> old c = Some o -> cur c = Some x -> mix sm m o x <> None.

(** * Observational equivalence of two states: same independent values, same fork mode, undo logs that
      restore the same independent values; both consistent.  Cache CONTENTS may differ (a read between a
      proposal and its rejection may have cached a node outside the forked sub-graph). *)
Definition fork_sim (s1 s2 : state V) : Prop :=
  match fork s1, fork s2 with
  | None, None => True
  | Some f1, Some f2 =>
      map fst f1 = map fst f2 /\
      same_indep V g (override (values s1) f1) (override (values s2) f2)
  | _, _ => False
  end.

Definition sim (s1 s2 : state V) : Prop :=
  Good g s1 /\ Good g s2 /\ same_indep V g (values s1) (values s2) /\ mode s1 = mode s2 /\ fork_sim s1 s2.

Inductive sim_store : store V -> store V -> Prop :=
| SimNil : sim_store [] []
| SimCons a b r s : sim a b -> sim_store r s -> sim_store (a :: r) (b :: s).

(** operations whose RESULT exposes the cache contents rather than a value: [is_variable_set] on a derived
    variable (True iff currently cached).  Every other operation is "cache blind". *)
Definition cache_blind (o : op V M IX) : bool :=
  match o with
  | IsSet _ i => negb (linked g i)
  | _ => true
  end.

(** results of a history, position by position, except where the operation observes the cache itself *)
Fixpoint outs_agree (ops : list (op V M IX)) (x y : list (out V)) : Prop :=
  match ops, x, y with
  | [], [], [] => True
  | o :: r, a :: x', b :: y' => (cache_blind o = true -> a = b) /\ outs_agree r x' y'
  | _, _, _ => False
  end.

End Revert.
