(** [F_mix] PROVED for the n-d instance (StateNdExec.v): every entry-wise node function of the toy vocabulary — an affine map of ANY
    number of plain parents (0-d parents broadcast), log2, the one-parent weighted maps, the two-parent [DWAdd] of weighted parents —
    commutes with the selection along the axis the mask is aligned on (first axis: right-broadcasting; last axis:
    [right_broadcasting=False]), for values of any trailing shape.  Hence the never-stale and partial-revert theorems on every such
    graph without any hypothesis on node functions. *)
From Coq Require Import List Arith Bool ZArith Lia.
From Leaspy Require Import State.StateModel State.StateProofs State.StateNow State.StateNowProofs State.Revert State.RevertProofs
                           State.StateExec State.StateWExec State.StateWExecProofs State.StateNdExec State.StateNdExecProofs.
Import ListNotations.

(** * induction on nested tensors *)
Section TensInd.
Variable P : tens -> Prop.
Hypothesis H0 : forall a, P (T0 a).
Hypothesis HL : forall l, Forall P l -> P (TL l).
Fixpoint tens_ind' (t : tens) : P t :=
  match t with
  | T0 a => H0 a
  | TL l => HL l ((fix go (l : list tens) : Forall P l :=
                     match l with [] => Forall_nil P | x :: r => Forall_cons x (tens_ind' x) (go r) end) l)
  end.
End TensInd.

(** * list lemmas *)
Lemma map_map2_gen {A B C A' B' C'} (f : A -> B -> C) (g : A' -> B' -> C') (h : C -> C') (ha : A -> A') (hb : B -> B') :
  forall la lb, (forall a b, In a la -> In b lb -> h (f a b) = g (ha a) (hb b)) ->
  map h (map2 f la lb) = map2 g (map ha la) (map hb lb).
Proof.
  induction la as [|a la IH]; intros [|b lb] H; cbn; try reflexivity.
  f_equal; [apply H; cbn; auto | apply IH; intros; apply H; cbn; auto].
Qed.

Lemma map2_interchange {A} (T N : A -> A -> A) : forall l1 l2 l3 l4,
  length l1 = length l2 -> length l3 = length l4 -> length l1 = length l3 ->
  (forall a b c d, In a l1 -> In b l2 -> In c l3 -> In d l4 -> T (N a b) (N c d) = N (T a c) (T b d)) ->
  map2 T (map2 N l1 l2) (map2 N l3 l4) = map2 N (map2 T l1 l3) (map2 T l2 l4).
Proof.
  induction l1 as [|a l1 IH]; intros [|b l2] [|c l3] [|d l4] L1 L2 L3 H; cbn in *; try discriminate; try reflexivity.
  f_equal; [apply H; auto | apply IH; auto; intros; apply H; auto].
Qed.

Lemma selp_same {A} (m : list bool) : forall l : list A, length l = length m -> selp m l l = l.
Proof. induction m as [|b m IH]; intros [|x l] L; cbn in *; try discriminate; [reflexivity|]. rewrite IH by lia. now destruct b. Qed.

Lemma map2_same_id {A} (f : A -> A -> A) : forall l, (forall a, In a l -> f a a = a) -> map2 f l l = l.
Proof. induction l as [|a l IH]; intros H; cbn; [reflexivity|]. f_equal; [apply H; cbn; auto | apply IH; intros; apply H; cbn; auto]. Qed.

(** * entry-wise maps on nested tensors *)
Lemma rows_tmap f t : rows (tmap f t) = map (tmap f) (rows t).
Proof. destruct t; reflexivity. Qed.

Lemma tmap2_TL f la lb : tmap2 f (TL la) (TL lb) = TL (map2 (tmap2 f) la lb).
Proof.
  cbn [tmap2]. f_equal. revert lb. induction la as [|x la IH]; intros [|y lb]; cbn; try reflexivity. now rewrite IH.
Qed.

Lemma tmap2_T0_r f a y : tmap2 f a (T0 y) = tmap (fun x => f x y) a.
Proof. destruct a; reflexivity. Qed.

Lemma shape_tmap f t : shape (tmap f t) = shape t.
Proof.
  induction t as [a|l IH] using tens_ind'; [reflexivity|]. cbn [tmap shape]. rewrite map_map.
  replace (map (fun x => shape (tmap f x)) l) with (map shape l); [now rewrite map_length|].
  apply map_ext_in. intros x Hx. rewrite Forall_forall in IH. symmetry. now apply IH.
Qed.

Lemma shape_nil_T0 t : shape t = Some [] -> exists a, t = T0 a.
Proof.
  destruct t as [a|l]; [eauto|]. intros H. destruct (shape_TL_inv _ _ H) as [[_ E]|[_ [s [E _]]]]; discriminate.
Qed.

Lemma shape_tmap2_same f : forall a b s, shape a = Some s -> shape b = Some s -> shape (tmap2 f a b) = Some s.
Proof.
  induction a as [x|la IH] using tens_ind'; intros b s Ea Eb.
  - cbn in Ea. injection Ea as <-. destruct (shape_nil_T0 _ Eb) as [y ->]. reflexivity.
  - destruct b as [y|lb]; [cbn in Eb; injection Eb as <-; destruct (shape_TL_inv _ _ Ea) as [[_ E]|[_ [s [E _]]]]; discriminate|].
    rewrite tmap2_TL.
    destruct (shape_TL_inv _ _ Ea) as [[-> ->]|[Hla [s' [-> Fa]]]].
    + destruct lb; [reflexivity|]. pose proof (shape_TL_len _ _ _ Eb). discriminate.
    + pose proof (shape_TL_len _ _ _ Eb) as Lb.
      assert (Hlb : lb <> []) by (destruct lb; [destruct la; [congruence|discriminate]|discriminate]).
      pose proof (shape_TL_rows _ _ _ Eb Hlb) as Fb.
      rewrite (shape_TL_intro _ s').
      * rewrite map2_length_min by lia. reflexivity.
      * destruct la; [congruence|]. destruct lb; [congruence|]. cbn. discriminate.
      * apply map2_Forall. intros x y Hx Hy. rewrite Forall_forall in IH, Fa, Fb. apply IH; auto.
Qed.

(** * the selection commutes with entry-wise maps *)
Lemma tmap_nsel f m : forall d o c, tmap f (nsel d m o c) = nsel d m (tmap f o) (tmap f c).
Proof.
  induction d as [|d IH]; intros o c; cbn [nsel tmap]; rewrite !rows_tmap.
  - now rewrite selp_map.
  - f_equal. apply map_map2_gen. intros; apply IH.
Qed.

Lemma rows_shape t n s : shape t = Some (n :: s) -> t = TL (rows t) /\ length (rows t) = n /\ (0 < n -> Forall (fun r => shape r = Some s) (rows t)).
Proof.
  intros E. destruct (shape_T0_or_TL t _ E ltac:(discriminate)) as [l ->]. cbn [rows]. split; [reflexivity|].
  split; [exact (shape_TL_len _ _ _ E)|]. intros Hn. exact (proj2 (shape_TL_cons _ _ _ E Hn)).
Qed.

Lemma tmap2_nsel f m : forall d o1 c1 o2 c2 s,
  shape o1 = Some s -> shape c1 = Some s -> shape o2 = Some s -> shape c2 = Some s -> fits d m s = true ->
  tmap2 f (nsel d m o1 c1) (nsel d m o2 c2) = nsel d m (tmap2 f o1 o2) (tmap2 f c1 c2).
Proof.
  induction d as [|d IH]; intros o1 c1 o2 c2 s E1 E2 E3 E4 Hf; unfold fits in Hf; destruct s as [|n s]; try discriminate;
    destruct (rows_shape _ _ _ E1) as [T1 [L1 F1]]; destruct (rows_shape _ _ _ E2) as [T2 [L2 F2]];
    destruct (rows_shape _ _ _ E3) as [T3 [L3 F3]]; destruct (rows_shape _ _ _ E4) as [T4 [L4 F4]].
  - cbn in Hf. apply Nat.eqb_eq in Hf. subst n. cbn [nsel]. rewrite tmap2_TL.
    rewrite T1, T2, T3, T4 at 2. rewrite !tmap2_TL. cbn [rows]. now rewrite selp_map2.
  - cbn [nth_error] in Hf. cbn [nsel]. rewrite tmap2_TL. rewrite T1, T2, T3, T4 at 2. rewrite !tmap2_TL. cbn [rows]. f_equal.
    destruct n as [|n].
    + destruct (rows o1); [|discriminate]. destruct (rows c1); [|discriminate]. reflexivity.
    + specialize (F1 ltac:(lia)). specialize (F2 ltac:(lia)). specialize (F3 ltac:(lia)). specialize (F4 ltac:(lia)).
      rewrite Forall_forall in F1, F2, F3, F4.
      apply map2_interchange; try lia. intros a b c d' Ha Hb Hc Hd. apply (IH a b c d' s); auto.
Qed.

Lemma nsel_same m : forall d a s, shape a = Some s -> fits d m s = true -> nsel d m a a = a.
Proof.
  induction d as [|d IH]; intros a s E Hf; unfold fits in Hf; destruct s as [|n s]; try discriminate;
    destruct (rows_shape _ _ _ E) as [T1 [L1 F1]].
  - cbn in Hf. apply Nat.eqb_eq in Hf. cbn [nsel]. rewrite selp_same by lia. now symmetry.
  - cbn [nth_error] in Hf. cbn [nsel]. rewrite T1 at 3. f_equal.
    destruct n as [|n]; [destruct (rows a); [reflexivity|discriminate]|].
    specialize (F1 ltac:(lia)). rewrite Forall_forall in F1. apply map2_same_id. intros x Hx. apply (IH x s); auto.
Qed.

(** * [twhere] spelled out *)
Lemma twhere_inv mk o c x : twhere mk o c = Some x ->
  exists s, shape o = Some s /\ shape c = Some s /\ fits (mdepth (fst mk) s) (snd mk) s = true /\ x = nsel (mdepth (fst mk) s) (snd mk) o c.
Proof.
  unfold twhere. destruct (shape o) as [so|]; [|discriminate]. destruct (shape c) as [sc|]; [|discriminate].
  destruct (nats_eqb so sc) eqn:E; [|discriminate]. apply nats_eqb_eq in E. subst sc.
  destruct (fits (mdepth (fst mk) so) (snd mk) so) eqn:Hf; [|discriminate]. intros H. injection H as <-. exists so. auto.
Qed.

Lemma twhere_intro mk o c s : shape o = Some s -> shape c = Some s -> fits (mdepth (fst mk) s) (snd mk) s = true ->
  twhere mk o c = Some (nsel (mdepth (fst mk) s) (snd mk) o c).
Proof. intros Eo Ec Hf. unfold twhere. now rewrite Eo, Ec, nats_eqb_refl, Hf. Qed.

Lemma fits_nil d m : fits d m [] = false.
Proof. unfold fits. now destruct d. Qed.

(** * affine maps of any number of parents *)
Section Affine.
Variable m : list bool.
Variable d : nat.
Variable s : list nat.
Hypothesis Hf : fits d m s = true.

Definition Scal (o c n : tens) : Prop := exists a, o = T0 a /\ c = T0 a /\ n = T0 a.
Definition Sel (o c n : tens) : Prop := shape o = Some s /\ shape c = Some s /\ n = nsel d m o c.
Definition R3 (o c n : tens) : Prop := Scal o c n \/ Sel o c n.

Inductive Tri : list tens -> list tens -> list tens -> Prop :=
| TriNil : Tri [] [] []
| TriCons o c n lo lc ln : R3 o c n -> Tri lo lc ln -> Tri (o :: lo) (c :: lc) (n :: ln).

Inductive AnySel : list tens -> list tens -> list tens -> Prop :=
| AnyHere o c n lo lc ln : Sel o c n -> AnySel (o :: lo) (c :: lc) (n :: ln)
| AnyThere o c n lo lc ln : AnySel lo lc ln -> AnySel (o :: lo) (c :: lc) (n :: ln).

Lemma Sel_shape o c n : Sel o c n -> shape n = Some s.
Proof. intros [Eo [Ec ->]]. now apply nsel_shape. Qed.

Lemma Sel_tmap g o c n : Sel o c n -> Sel (tmap g o) (tmap g c) (tmap g n).
Proof. intros [Eo [Ec ->]]. unfold Sel. rewrite !shape_tmap, tmap_nsel. auto. Qed.

Lemma R3_tmap g o c n : R3 o c n -> R3 (tmap g o) (tmap g c) (tmap g n).
Proof.
  intros [[a [-> [-> ->]]]|H]; [left; exists (g a); auto|right; now apply Sel_tmap].
Qed.

Lemma Sel_add_r f ao ac an xo xc xn : R3 ao ac an -> Sel xo xc xn -> Sel (tmap2 f ao xo) (tmap2 f ac xc) (tmap2 f an xn).
Proof.
  intros [[a [-> [-> ->]]]|[Ea [Eb ->]]] [Eo [Ec ->]].
  - cbn [tmap2]. unfold Sel. rewrite !shape_tmap, tmap_nsel. auto.
  - unfold Sel. rewrite !(shape_tmap2_same f _ _ s) by assumption. rewrite (tmap2_nsel f m d _ _ _ _ s) by assumption. auto.
Qed.

Lemma Sel_add_l f ao ac an xo xc xn : Sel ao ac an -> R3 xo xc xn -> Sel (tmap2 f ao xo) (tmap2 f ac xc) (tmap2 f an xn).
Proof.
  intros [Ea [Eb ->]] [[a [-> [-> ->]]]|[Eo [Ec ->]]].
  - rewrite !tmap2_T0_r. unfold Sel. rewrite !shape_tmap, tmap_nsel. auto.
  - unfold Sel. rewrite !(shape_tmap2_same f _ _ s) by assumption. rewrite (tmap2_nsel f m d _ _ _ _ s) by assumption. auto.
Qed.

Lemma R3_add f ao ac an xo xc xn : R3 ao ac an -> R3 xo xc xn -> R3 (tmap2 f ao xo) (tmap2 f ac xc) (tmap2 f an xn).
Proof.
  intros Ha Hx. destruct Hx as [[b [-> [-> ->]]]|Hx]; [|right; now apply Sel_add_r].
  destruct Ha as [[a [-> [-> ->]]]|Ha]; [left; exists (f a b); auto|].
  right. apply Sel_add_l; [assumption|left; exists b; auto].
Qed.

Lemma Tri_length lo lc ln : Tri lo lc ln -> length lc = length lo /\ length ln = length lo.
Proof. induction 1; cbn; [auto|]. destruct IHTri. split; congruence. Qed.

Lemma tlin_tri : forall cs lo lc ln ao ac an, length cs = length lo -> Tri lo lc ln -> R3 ao ac an ->
  R3 (tlin ao cs lo) (tlin ac cs lc) (tlin an cs ln) /\
  ((Sel ao ac an \/ AnySel lo lc ln) -> Sel (tlin ao cs lo) (tlin ac cs lc) (tlin an cs ln)).
Proof.
  induction cs as [|c cs IH]; intros lo lc ln ao ac an L HT Ha.
  - destruct lo; [|discriminate]. inversion HT; subst. cbn. split; [assumption|]. intros [H|H]; [assumption|inversion H].
  - destruct lo as [|o lo]; [discriminate|]. inversion HT as [|? c' n' ? lc' ln' Hr HT']; subst. cbn [tlin].
    cbn in L. injection L as L.
    pose proof (R3_tmap (amul (AFin c)) _ _ _ Hr) as Hr'.
    destruct (IH lo lc' ln' _ _ _ L HT' (R3_add aadd _ _ _ _ _ _ Ha Hr')) as [I1 I2].
    split; [exact I1|]. intros H. apply I2.
    destruct H as [H|H].
    + left. now apply Sel_add_l.
    + inversion H as [? ? ? ? ? ? Hs|? ? ? ? ? ? Hs]; subst.
      * left. apply Sel_add_r; [assumption|]. now apply Sel_tmap.
      * now right.
Qed.

Lemma Tri_shapes lo lc ln : Tri lo lc ln -> map shape ln = map shape lo.
Proof.
  induction 1 as [|o c n lo lc ln Hr HT IH]; [reflexivity|]. cbn. rewrite IH. f_equal.
  destruct Hr as [[a [-> [-> ->]]]|Hs]; [reflexivity|]. rewrite (Sel_shape _ _ _ Hs). now destruct Hs as [-> _].
Qed.
End Affine.

(** the operands of an entry-wise operation: 0-d, or all of one shape *)
Lemma common_shape_all : forall l s, common_shape l = Some s -> Forall (fun o => o = Some [] \/ o = Some s) l.
Proof.
  induction l as [|[sh|] l IH]; intros s H; cbn in H; [constructor| |discriminate].
  destruct (common_shape l) as [s'|] eqn:E; [|discriminate]. specialize (IH s' eq_refl).
  assert (Hmono : forall t, (forall o, o = Some [] \/ o = Some s' -> o = Some [] \/ o = Some t) -> Forall (fun o => o = Some [] \/ o = Some t) l).
  { intros t Ht. eapply Forall_impl; [|exact IH]. intros o Ho. now apply Ht. }
  destruct s' as [|n' s'].
  - injection H as <-. constructor; [now right|]. apply Hmono. intros o [E0|E0]; subst o; now left.
  - destruct sh as [|n sh].
    + injection H as <-. constructor; [now left|]. apply Hmono. auto.
    + destruct (nats_eqb (n :: sh) (n' :: s')) eqn:En; [|discriminate]. injection H as <-. apply nats_eqb_eq in En. rewrite En.
      constructor; [now right|]. apply Hmono. auto.
Qed.

Lemma unplainN_cons a r xs : unplainN (a :: r) = Some xs -> exists t xs', a = NP t /\ xs = t :: xs' /\ unplainN r = Some xs'.
Proof.
  cbn. destruct a as [t| |]; try discriminate. destruct (unplainN r) as [xs'|]; [|discriminate].
  intros H. injection H as <-. eauto.
Qed.

Lemma nselect_plain_inv mk o c x : nselect mk (NP o) (NP c) = Some x -> exists t, twhere mk o c = Some t /\ x = NP t.
Proof. unfold nselect, nselect_with. destruct (twhere mk o c) as [t|]; cbn; [|discriminate]. intros H. injection H as <-. eauto. Qed.

(** from [mixed_args] to the three aligned lists of operands *)
Lemma mixed_tri mk sel s : fits (mdepth (fst mk) s) (snd mk) s = true ->
  forall ps olds curs news, mixed_args nsem mk sel ps olds curs news ->
  forall xo xc, unplainN olds = Some xo -> unplainN curs = Some xc ->
    Forall (fun o => o = Some [] \/ o = Some s) (map shape xo) ->
    Forall (fun o => o = Some [] \/ o = Some s) (map shape xc) ->
    exists xn, unplainN news = Some xn /\ Tri (snd mk) (mdepth (fst mk) s) s xo xc xn /\
               ((exists p, In p ps /\ sel p = true) -> AnySel (snd mk) (mdepth (fst mk) s) s xo xc xn).
Proof.
  intros Hf ps olds curs news HM. induction HM as [|p ps o os c cs x xs Sp Hx HM IH|p ps os c cs xs Sp HM IH]; intros xo xc Uo Uc Fo Fc.
  - cbn in Uo, Uc. injection Uo as <-. injection Uc as <-. exists []. split; [reflexivity|]. split; [constructor|]. intros [p [[] _]].
  - destruct (unplainN_cons _ _ _ Uo) as [to [xo' [-> [-> Uo']]]]. destruct (unplainN_cons _ _ _ Uc) as [tc [xc' [-> [-> Uc']]]].
    cbn [map] in Fo, Fc. inversion Fo as [|? ? Fo1 Fo']; subst. inversion Fc as [|? ? Fc1 Fc']; subst.
    destruct (IH xo' xc' Uo' Uc' Fo' Fc') as [xn [Un [HT HA]]].
    cbn in Hx. destruct (nselect_plain_inv _ _ _ _ Hx) as [t [Ht ->]].
    destruct (twhere_inv _ _ _ _ Ht) as [s0 [Eo [Ec [Hf0 ->]]]].
    assert (s0 = s).
    { destruct Fo1 as [E|E]; rewrite Eo in E; injection E as ->; [now rewrite fits_nil in Hf0|reflexivity]. }
    subst s0. exists (nsel (mdepth (fst mk) s) (snd mk) to tc :: xn). cbn [unplainN]. rewrite Un.
    split; [reflexivity|]. split; [constructor; [right; repeat split; assumption|assumption]|].
    intros _. apply AnyHere. repeat split; assumption.
  - destruct (unplainN_cons _ _ _ Uo) as [to [xo' [E1 [-> Uo']]]]. destruct (unplainN_cons _ _ _ Uc) as [tc [xc' [-> [-> Uc']]]].
    injection E1 as <-.
    cbn [map] in Fo, Fc. inversion Fo as [|? ? Fo1 Fo']; subst. inversion Fc as [|? ? Fc1 Fc']; subst.
    destruct (IH xo' xc' Uo' Uc' Fo' Fc') as [xn [Un [HT HA]]].
    exists (tc :: xn). cbn [unplainN]. rewrite Un. split; [reflexivity|]. split.
    + constructor; [|assumption]. destruct Fo1 as [E|E].
      * left. destruct (shape_nil_T0 _ E) as [a ->]. exists a. auto.
      * right. repeat split; try assumption. symmetry. now apply (nsel_same _ _ _ s).
    + intros [q [[<-|Hq] Sq]]; [congruence|]. apply AnyThere. apply HA. eauto.
Qed.

Lemma mixed_sel_exists mk sel ps olds curs news : mixed_args nsem mk sel ps olds curs news ->
  (exists p, In p ps /\ sel p = true) -> exists o c x, In o olds /\ In c curs /\ nselect mk o c = Some x.
Proof.
  induction 1 as [|p ps o os c cs x xs Sp Hx HM IH|p ps os c cs xs Sp HM IH]; intros [q [Hq Sq]].
  - destruct Hq.
  - exists o, c, x. cbn. auto.
  - destruct Hq as [<-|Hq]; [congruence|]. destruct (IH (ex_intro _ q (conj Hq Sq))) as [o [c' [x [H1 [H2 H3]]]]].
    exists o, c', x. cbn. auto.
Qed.

Lemma unplainN_In : forall l xs v, unplainN l = Some xs -> In v l -> exists t, v = NP t /\ In t xs.
Proof.
  induction l as [|a l IH]; intros xs v U Hv; [destruct Hv|].
  destruct (unplainN_cons _ _ _ U) as [t [xs' [-> [-> U']]]]. destruct Hv as [<-|Hv]; [exists t; cbn; auto|].
  destruct (IH xs' v U' Hv) as [t' [-> Ht']]. exists t'. cbn. auto.
Qed.

Lemma nselect_bad_l mk c : nselect mk NBad c = None.
Proof. destruct c; reflexivity. Qed.
Lemma nselect_bad_r mk o : nselect mk o NBad = None.
Proof. destruct o as [|? [|]|]; reflexivity. Qed.

Lemma F_affine mk sel ps olds curs news c0 cs x :
  mixed_args nsem mk sel ps olds curs news -> (exists p, In p ps /\ sel p = true) ->
  nselect mk (eval_dfun (DAffine c0 cs) olds) (eval_dfun (DAffine c0 cs) curs) = Some x ->
  eval_dfun (DAffine c0 cs) news = x.
Proof.
  intros HM HS Hx. cbn [eval_dfun] in *.
  destruct (unplainN olds) as [xo|] eqn:Uo; [|now rewrite nselect_bad_l in Hx].
  destruct ((length cs =? length xo) && is_some (common_shape (map shape xo))) eqn:Co; [|now rewrite nselect_bad_l in Hx].
  destruct (unplainN curs) as [xc|] eqn:Uc; [|now rewrite nselect_bad_r in Hx].
  destruct ((length cs =? length xc) && is_some (common_shape (map shape xc))) eqn:Cc; [|now rewrite nselect_bad_r in Hx].
  apply andb_prop in Co, Cc. destruct Co as [Lo So], Cc as [Lc Sc]. apply Nat.eqb_eq in Lo, Lc.
  destruct (common_shape (map shape xo)) as [s|] eqn:Es; [|discriminate]. destruct (common_shape (map shape xc)) as [s2|] eqn:Es2; [|discriminate].
  pose proof (common_shape_all _ _ Es) as Fo. pose proof (common_shape_all _ _ Es2) as Fc.
  (* a selected parent fixes the common shape and tells that the mask fits it *)
  destruct (mixed_sel_exists _ _ _ _ _ _ HM HS) as [o [c [xp [Ho [Hc Hp]]]]].
  destruct (unplainN_In _ _ _ Uo Ho) as [to [-> Hto]]. destruct (unplainN_In _ _ _ Uc Hc) as [tc [-> Htc]].
  destruct (nselect_plain_inv _ _ _ _ Hp) as [t [Ht _]]. destruct (twhere_inv _ _ _ _ Ht) as [s0 [Eo [Ec [Hf0 _]]]].
  rewrite Forall_forall in Fo, Fc.
  assert (s0 = s).
  { destruct (Fo (shape to) (in_map shape _ _ Hto)) as [E|E]; rewrite Eo in E; injection E as ->; [now rewrite fits_nil in Hf0|reflexivity]. }
  assert (s0 = s2).
  { destruct (Fc (shape tc) (in_map shape _ _ Htc)) as [E|E]; rewrite Ec in E; injection E as ->; [now rewrite fits_nil in Hf0|reflexivity]. }
  subst s0. subst s2. rewrite <- Forall_forall in Fo, Fc.
  destruct (mixed_tri mk sel s Hf0 _ _ _ _ HM xo xc Uo Uc Fo Fc) as [xn [Un [HT HA]]].
  specialize (HA HS). destruct (Tri_length _ _ _ _ _ _ HT) as [L1 L2].
  assert (R0 : R3 (snd mk) (mdepth (fst mk) s) s (T0 (AFin c0)) (T0 (AFin c0)) (T0 (AFin c0))) by (left; exists (AFin c0); auto).
  destruct (tlin_tri (snd mk) (mdepth (fst mk) s) s Hf0 cs xo xc xn _ _ _ Lo HT R0) as [_ HSel].
  destruct (HSel (or_intror HA)) as [EA [EB EN]].
  rewrite Un. rewrite (Tri_shapes _ _ _ Hf0 _ _ _ HT), Es. rewrite L2, <- Lo, Nat.eqb_refl. cbn [andb is_some].
  destruct (nselect_plain_inv _ _ _ _ Hx) as [r [Hr ->]]. destruct (twhere_inv _ _ _ _ Hr) as [s1 [E1 [_ [_ ->]]]].
  rewrite EA in E1. injection E1 as <-. now rewrite EN.
Qed.

(** * the one-parent maps and the two-parent map of weighted parents *)
(** the two sides of a selection are of different kinds (possible since a side without weight counts as fully weighted) *)
Definition DiffKinds (mk : nmask) (old cur r : nval) : Prop :=
  (exists ov ow cv tv tw, old = NW ov (Some ow) /\ cur = NW cv None /\ twhere mk ov cv = Some tv /\
                          twhere mk ow (ones_like ow) = Some tw /\ r = NW tv (Some tw)) \/
  (exists ov cv cw tv tw, old = NW ov None /\ cur = NW cv (Some cw) /\ twhere mk ov cv = Some tv /\
                          twhere mk (ones_like cw) cw = Some tw /\ r = NW tv (Some tw)) \/
  (exists o v w, old = NP o /\ cur = NW v w) \/ (exists v w c, old = NW v w /\ cur = NP c).

Lemma nselect_inv mk old cur r : nselect mk old cur = Some r ->
  (exists o c t, old = NP o /\ cur = NP c /\ twhere mk o c = Some t /\ r = NP t) \/
  (exists ov ow cv cw tv tw, old = NW ov (Some ow) /\ cur = NW cv (Some cw) /\
                             twhere mk ov cv = Some tv /\ twhere mk ow cw = Some tw /\ r = NW tv (Some tw)) \/
  (exists ov cv tv, old = NW ov None /\ cur = NW cv None /\ twhere mk ov cv = Some tv /\ r = NW tv None) \/
  DiffKinds mk old cur r.
Proof.
  unfold nselect, nselect_with, DiffKinds.
  destruct old as [o|ov [ow|]|], cur as [c|cv [cw|]|]; cbn -[twhere ones_like]; try discriminate.
  - destruct (twhere mk o c) as [t|] eqn:E; [|discriminate]. intros H. injection H as <-. left. exists o, c, t. auto.
  - intros _. right. right. right. right. right. left. eauto.
  - intros _. right. right. right. right. right. left. eauto.
  - intros _. right. right. right. right. right. right. eauto.
  - destruct (twhere mk ov cv) as [tv|] eqn:E; [|discriminate]. destruct (twhere mk ow cw) as [tw|] eqn:E'; [|discriminate].
    intros H. injection H as <-. right. left. exists ov, ow, cv, cw, tv, tw. auto.
  - destruct (twhere mk ov cv) as [tv|] eqn:E; [|discriminate]. destruct (twhere mk ow (ones_like ow)) as [tw|] eqn:E'; [|discriminate].
    intros H. injection H as <-. right. right. right. left. exists ov, ow, cv, tv, tw. auto.
  - intros _. right. right. right. right. right. right. eauto.
  - destruct (twhere mk ov cv) as [tv|] eqn:E; [|discriminate]. destruct (twhere mk (ones_like cw) cw) as [tw|] eqn:E'; [|discriminate].
    intros H. injection H as <-. right. right. right. right. left. exists ov, cv, cw, tv, tw. auto.
  - destruct (twhere mk ov cv) as [tv|] eqn:E; [|discriminate]. intros H. injection H as <-. right. right. left. exists ov, cv, tv. auto.
Qed.

(** the kinds-differ case is impossible when the kinds of the two sides are known to agree, or useless when a node function refuses one side *)
Ltac split_diff HD :=
  destruct HD as [[?ov [?ow [?cv [?tv [?tw [?E1 [?E2 [?Hv [?Hw ?Er]]]]]]]]]|[[?ov [?cv [?cw [?tv [?tw [?E1 [?E2 [?Hv [?Hw ?Er]]]]]]]]]|
                  [[?o [?v [?w [?E1 ?E2]]]]|[?v [?w [?c [?E1 ?E2]]]]]]].

Lemma nselect_SN mk ov ow cv r : nselect mk (NW ov (Some ow)) (NW cv None) = Some r ->
  exists tv tw, twhere mk ov cv = Some tv /\ twhere mk ow (ones_like ow) = Some tw /\ r = NW tv (Some tw).
Proof.
  unfold nselect, nselect_with. cbn -[twhere ones_like].
  destruct (twhere mk ov cv) as [tv|]; [|discriminate]. destruct (twhere mk ow (ones_like ow)) as [tw|]; [|discriminate].
  intros H. injection H as <-. eauto.
Qed.

Lemma nselect_NS mk ov cv cw r : nselect mk (NW ov None) (NW cv (Some cw)) = Some r ->
  exists tv tw, twhere mk ov cv = Some tv /\ twhere mk (ones_like cw) cw = Some tw /\ r = NW tv (Some tw).
Proof.
  unfold nselect, nselect_with. cbn -[twhere ones_like].
  destruct (twhere mk ov cv) as [tv|]; [|discriminate]. destruct (twhere mk (ones_like cw) cw) as [tw|]; [|discriminate].
  intros H. injection H as <-. eauto.
Qed.

(** an entry with weight 1 counts fully: [weighted_value] of a value against all-ones weights is the value *)
Lemma wvA_one v : wvA v (AFin 1%Z) = v.
Proof. destruct v as [z| | | |]; cbn; try reflexivity. now destruct z. Qed.

Lemma map2_id_l {A B} (f : A -> B -> A) : forall la lb, length la = length lb ->
  (forall a b, In a la -> In b lb -> f a b = a) -> map2 f la lb = la.
Proof.
  induction la as [|a la IH]; intros [|b lb] L H; cbn in *; try discriminate; [reflexivity|].
  f_equal; [apply H; auto | apply IH; [lia | intros; apply H; auto]].
Qed.

Lemma shape_ones w : shape (ones_like w) = shape w.
Proof. apply shape_tmap. Qed.

Lemma wv_ones : forall v w s, shape v = Some s -> shape w = Some s -> tmap2 wvA v (ones_like w) = v.
Proof.
  induction v as [a|la IH] using tens_ind'; intros w s Ev Ew.
  - cbn in Ev. injection Ev as <-. destruct (shape_nil_T0 _ Ew) as [b ->]. unfold ones_like. cbn [tmap tmap2]. now rewrite wvA_one.
  - destruct w as [b|lw]; [cbn in Ew; injection Ew as <-; destruct (shape_TL_inv _ _ Ev) as [[_ E]|[_ [s [E _]]]]; discriminate|].
    unfold ones_like. cbn [tmap]. rewrite tmap2_TL. f_equal.
    destruct (shape_TL_inv _ _ Ev) as [[-> ->]|[Hla [s' [-> Fa]]]]; [reflexivity|].
    pose proof (shape_TL_len _ _ _ Ew) as Lw.
    assert (Hlw : lw <> []) by (destruct lw; [destruct la; [congruence|discriminate]|discriminate]).
    pose proof (shape_TL_rows _ _ _ Ew Hlw) as Fw.
    apply map2_id_l; [rewrite map_length; lia|].
    intros a b Ha Hb. apply in_map_iff in Hb. destruct Hb as [b' [<- Hb']].
    rewrite Forall_forall in IH, Fa, Fw. apply (IH a Ha b' s'); auto.
Qed.

Lemma nselect_NP mk o c s : shape o = Some s -> shape c = Some s -> fits (mdepth (fst mk) s) (snd mk) s = true ->
  nselect mk (NP o) (NP c) = Some (NP (nsel (mdepth (fst mk) s) (snd mk) o c)).
Proof. intros Eo Ec Hf. unfold nselect, nselect_with. now rewrite (twhere_intro mk o c s Eo Ec Hf). Qed.

Lemma oshape_eqb_true a b : oshape_eqb a b = true -> exists s, a = Some s /\ b = Some s.
Proof. destruct a as [x|], b as [y|]; cbn; try discriminate. intros H. apply nats_eqb_eq in H. subst. eauto. Qed.

Lemma oshape_eqb_refl s : oshape_eqb (Some s) (Some s) = true.
Proof. cbn. apply nats_eqb_refl. Qed.

(** what a selected parent looks like: both sides of one kind and one shape [s] that the mask fits; the new value is the selection *)
Definition dm (mk : nmask) (s : list nat) : nat := mdepth (fst mk) s.

Lemma some_inj {A} (a b : A) : Some a = Some b -> a = b.
Proof. now injection 1. Qed.

Ltac shapes :=
  repeat match goal with
         | H : shape ?t = Some ?a, H' : shape ?t = Some ?b |- _ =>
             first [ constr_eq a b; clear H' | let E := fresh in assert (E : a = b) by (apply some_inj; rewrite <- H, <- H'; reflexivity); subst ]
         end.

(** one weighted parent of shape [s], selected or the same on both sides: in both cases the new value is the selection *)
Lemma wparent_norm mk s ov ow cv cw n :
  shape ov = Some s -> shape ow = Some s -> shape cv = Some s -> shape cw = Some s -> fits (mdepth (fst mk) s) (snd mk) s = true ->
  (nselect mk (NW ov (Some ow)) (NW cv (Some cw)) = Some n \/ (NW ov (Some ow) = NW cv (Some cw) /\ n = NW cv (Some cw))) ->
  n = NW (nsel (mdepth (fst mk) s) (snd mk) ov cv) (Some (nsel (mdepth (fst mk) s) (snd mk) ow cw)).
Proof.
  intros E1 E2 E3 E4 Hf [H|[H ->]].
  - destruct (nselect_inv _ _ _ _ H) as [[? [? [? [E _]]]]|[[ov' [ow' [cv' [cw' [tv [tw [A1 [A2 [Hv [Hw ->]]]]]]]]]]|[[? [? [? [E _]]]]|HD]]]; try discriminate; try (split_diff HD; discriminate).
    injection A1 as <- <-. injection A2 as <- <-.
    rewrite (twhere_intro mk _ _ s) in Hv by assumption. rewrite (twhere_intro mk _ _ s) in Hw by assumption.
    injection Hv as <-. injection Hw as <-. reflexivity.
  - injection H as -> ->. now rewrite !(nsel_same _ _ _ s) by assumption.
Qed.

Lemma F_wadd mk c1 c2 o1 o2 k1 k2 n1 n2 x :
  (nselect mk o1 k1 = Some n1 \/ (o1 = k1 /\ n1 = k1)) -> (nselect mk o2 k2 = Some n2 \/ (o2 = k2 /\ n2 = k2)) ->
  nselect mk (eval_dfun (DWAdd c1 c2) [o1; o2]) (eval_dfun (DWAdd c1 c2) [k1; k2]) = Some x ->
  eval_dfun (DWAdd c1 c2) [n1; n2] = x.
Proof.
  intros H1 H2 Hx. cbn [eval_dfun] in Hx.
  destruct o1 as [|v1 [w1|]|]; try (now rewrite nselect_bad_l in Hx). destruct o2 as [|v2 [w2|]|]; try (now rewrite nselect_bad_l in Hx).
  destruct (oshape_eqb (shape v1) (shape w1) && oshape_eqb (shape v2) (shape w2) && oshape_eqb (shape v1) (shape v2)) eqn:Co;
    [|now rewrite nselect_bad_l in Hx].
  destruct k1 as [|u1 [y1|]|]; try (now rewrite nselect_bad_r in Hx). destruct k2 as [|u2 [y2|]|]; try (now rewrite nselect_bad_r in Hx).
  destruct (oshape_eqb (shape u1) (shape y1) && oshape_eqb (shape u2) (shape y2) && oshape_eqb (shape u1) (shape u2)) eqn:Ck;
    [|now rewrite nselect_bad_r in Hx].
  apply andb_prop in Co, Ck. destruct Co as [Co Co3], Ck as [Ck Ck3]. apply andb_prop in Co, Ck. destruct Co as [Co1 Co2], Ck as [Ck1 Ck2].
  destruct (oshape_eqb_true _ _ Co1) as [s [A1 A2]]. destruct (oshape_eqb_true _ _ Co2) as [s' [A3 A4]]. destruct (oshape_eqb_true _ _ Co3) as [s'' [A5 A6]].
  destruct (oshape_eqb_true _ _ Ck1) as [t [B1 B2]]. destruct (oshape_eqb_true _ _ Ck2) as [t' [B3 B4]]. destruct (oshape_eqb_true _ _ Ck3) as [t'' [B5 B6]].
  shapes.
  destruct (nselect_inv _ _ _ _ Hx) as [[? [? [? [E _]]]]|[[ov' [ow' [cv' [cw' [tv [tw [E1 [E2 [Hv [Hw ->]]]]]]]]]]|[[? [? [? [E _]]]]|HD]]]; try discriminate; try (split_diff HD; discriminate).
  injection E1 as <- <-. injection E2 as <- <-.
  destruct (twhere_inv _ _ _ _ Hw) as [z [Z1 [Z2 [Hf ->]]]].
  match type of A1 with _ = Some ?a => rewrite (shape_tmap2_same amul _ _ a) in Z1 by assumption end.
  match type of B1 with _ = Some ?a => rewrite (shape_tmap2_same amul _ _ a) in Z2 by assumption end.
  injection Z1 as <-. injection Z2 as ->.
  match type of A1 with _ = Some ?a =>
    assert (N1 := wparent_norm mk a _ _ _ _ n1 A1 A2 B1 B2 Hf H1);
    assert (N2 := wparent_norm mk a _ _ _ _ n2 A3 A4 B3 B4 Hf H2);
    rewrite N1, N2; cbn [eval_dfun];
    rewrite !(nsel_shape _ _ _ _ a) by assumption; rewrite !oshape_eqb_refl; cbn [andb];
    rewrite (twhere_intro mk _ _ a) in Hv by (first [assumption | apply shape_tmap2_same; rewrite shape_tmap; assumption]); injection Hv as <-;
    rewrite !tmap_nsel; rewrite !(tmap2_nsel _ _ _ _ _ _ _ a) by (rewrite ?shape_tmap; assumption); reflexivity
  end.
Qed.

Theorem F_mix_entrywise_nd (l : list dspec) : entrywise_axis_b l = true -> F_mix (mk_ngraph l) nsem.
Proof.
  intros HE k mk sel olds curs news x Hk Lk Ak Hmix HS _ Hx. cbn in *.
  pose proof (nth_forallb _ l dspec0 k HE Hk) as Hn. cbv beta in Hn. rewrite Lk, Ak in Hn. cbn in Hn.
  destruct (d_fun (nth k l dspec0)) as [c0 cs|c0 cs| |c0 cc thr|c0 cc|c0 cc|c0 cc|c0 cc|c0 cc|c1 c2] eqn:Ef; cbn in Hn; try discriminate.
  - (* affine, any number of parents *)
    exact (F_affine mk sel _ olds curs news c0 cs x Hmix HS Hx).
  - (* log2 *)
    destruct (d_parents (nth k l dspec0)) as [|q [|q' ps]] eqn:Eps; try discriminate. destruct HS as [p [[<-|[]] Sp]].
    inversion Hmix as [|? ? o os c cs' x0 xs Sq Hq Hrest|? ? os c cs' xs Sq Hrest]; subst; [|congruence]. inversion Hrest; subst. clear Hmix Hrest.
    cbn in Hq. destruct (nselect_inv _ _ _ _ Hq) as [[to [tc [t [-> [-> [Ht ->]]]]]]|[[ov [ow [cv [cw [tv [tw [-> [-> _]]]]]]]]|[[ov [cv [tv [-> [-> _]]]]]|HD]]];
      try (cbn in Hx; discriminate); try (split_diff HD; subst; cbn in Hx; first [discriminate | rewrite nselect_bad_r in Hx; discriminate | rewrite nselect_bad_l in Hx; discriminate]).
    destruct (twhere_inv _ _ _ _ Ht) as [s [Eo [Ec [Hf ->]]]]. cbn [eval_dfun] in *.
    rewrite (nselect_NP mk _ _ s) in Hx by (rewrite ?shape_tmap; assumption). injection Hx as <-. now rewrite tmap_nsel.
  - (* DThr: the weight is computed from the parent *)
    destruct (d_parents (nth k l dspec0)) as [|q [|q' ps]] eqn:Eps; try discriminate. destruct HS as [p [[<-|[]] Sp]].
    inversion Hmix as [|? ? o os c cs' x0 xs Sq Hq Hrest|? ? os c cs' xs Sq Hrest]; subst; [|congruence]. inversion Hrest; subst. clear Hmix Hrest.
    cbn in Hq. destruct (nselect_inv _ _ _ _ Hq) as [[to [tc [t [-> [-> [Ht ->]]]]]]|[[ov [ow [cv [cw [tv [tw [-> [-> _]]]]]]]]|[[ov [cv [tv [-> [-> _]]]]]|HD]]];
      try (cbn in Hx; discriminate); try (split_diff HD; subst; cbn in Hx; first [discriminate | rewrite nselect_bad_r in Hx; discriminate | rewrite nselect_bad_l in Hx; discriminate]).
    destruct (twhere_inv _ _ _ _ Ht) as [s [Eo [Ec [Hf ->]]]].
    destruct s as [|n s]; [now rewrite fits_nil in Hf|].
    destruct (shape_T0_or_TL to _ Eo ltac:(discriminate)) as [lo ->]. destruct (shape_T0_or_TL tc _ Ec ltac:(discriminate)) as [lc ->].
    assert (EN : exists ln, nsel (mdepth (fst mk) (n :: s)) (snd mk) (TL lo) (TL lc) = TL ln) by (destruct (mdepth (fst mk) (n :: s)); cbn; eauto).
    destruct EN as [ln EN]. rewrite EN. cbn [eval_dfun] in *. rewrite <- EN. unfold affT in *.
    destruct (nselect_inv _ _ _ _ Hx) as [[? [? [? [E _]]]]|[[ov [ow [cv [cw [tv [tw [E1 [E2 [Hv [Hw ->]]]]]]]]]]|[[? [? [? [E _]]]]|HD]]]; try discriminate; try (split_diff HD; discriminate).
    injection E1 as <- <-. injection E2 as <- <-.
    change (TL (map (tmap (aff c0 cc)) lo)) with (tmap (aff c0 cc) (TL lo)) in Hv.
    change (TL (map (tmap (aff c0 cc)) lc)) with (tmap (aff c0 cc) (TL lc)) in Hv.
    change (TL (map (tmap (ageA thr)) lo)) with (tmap (ageA thr) (TL lo)) in Hw.
    change (TL (map (tmap (ageA thr)) lc)) with (tmap (ageA thr) (TL lc)) in Hw.
    rewrite (twhere_intro mk _ _ (n :: s)) in Hv by (rewrite ?shape_tmap; assumption).
    rewrite (twhere_intro mk _ _ (n :: s)) in Hw by (rewrite ?shape_tmap; assumption).
    injection Hv as <-. injection Hw as <-. now rewrite !tmap_nsel.
  - (* DMap *)
    destruct (d_parents (nth k l dspec0)) as [|q [|q' ps]] eqn:Eps; try discriminate. destruct HS as [p [[<-|[]] Sp]].
    inversion Hmix as [|? ? o os c cs' x0 xs Sq Hq Hrest|? ? os c cs' xs Sq Hrest]; subst; [|congruence]. inversion Hrest; subst. clear Hmix Hrest.
    cbn in Hq. destruct (nselect_inv _ _ _ _ Hq) as [[to [tc [t [-> [-> [Ht ->]]]]]]|[[ov [ow [cv [cw [tv [tw [-> [-> [Hv [Hw ->]]]]]]]]]]|[[ov [cv [tv [-> [-> [Hv ->]]]]]]|HD]]];
      try (cbn in Hx; discriminate); try (split_diff HD; subst; try (cbn in Hx; first [discriminate | rewrite nselect_bad_r in Hx; discriminate | rewrite nselect_bad_l in Hx; discriminate]));
      cbn [eval_dfun] in *; unfold affT in *.
    + destruct (twhere_inv _ _ _ _ Hv) as [s [Eo [Ec [Hf ->]]]].
      destruct (nselect_inv _ _ _ _ Hx) as [[? [? [? [E _]]]]|[[ov' [ow' [cv' [cw' [tv' [tw' [E1 [E2 [Hv' [Hw' ->]]]]]]]]]]|[[? [? [? [E _]]]]|HD]]]; try discriminate; try (split_diff HD; discriminate).
      injection E1 as <- <-. injection E2 as <- <-. rewrite Hw in Hw'. injection Hw' as <-.
      rewrite (twhere_intro mk _ _ s) in Hv' by (rewrite ?shape_tmap; assumption). injection Hv' as <-. now rewrite tmap_nsel.
    + destruct (twhere_inv _ _ _ _ Hv) as [s [Eo [Ec [Hf ->]]]].
      destruct (nselect_inv _ _ _ _ Hx) as [[? [? [? [E _]]]]|[[? [? [? [? [? [? [E _]]]]]]]|[[ov' [cv' [tv' [E1 [E2 [Hv' ->]]]]]]|HD]]]; try discriminate; try (split_diff HD; discriminate).
      injection E1 as <-. injection E2 as <-.
      rewrite (twhere_intro mk _ _ s) in Hv' by (rewrite ?shape_tmap; assumption). injection Hv' as <-. now rewrite tmap_nsel.
    + (* the forked side has weights, the current one none *)
      destruct (twhere_inv _ _ _ _ Hv) as [s [Eo [Ec [Hf ->]]]].
      destruct (nselect_SN _ _ _ _ _ Hx) as [tv' [tw' [Hv' [Hw' ->]]]]. rewrite Hw in Hw'. injection Hw' as <-.
      rewrite (twhere_intro mk _ _ s) in Hv' by (rewrite ?shape_tmap; assumption). injection Hv' as <-. now rewrite tmap_nsel.
    + (* the current side has weights, the forked one none *)
      destruct (twhere_inv _ _ _ _ Hv) as [s [Eo [Ec [Hf ->]]]].
      destruct (nselect_NS _ _ _ _ _ Hx) as [tv' [tw' [Hv' [Hw' ->]]]]. rewrite Hw in Hw'. injection Hw' as <-.
      rewrite (twhere_intro mk _ _ s) in Hv' by (rewrite ?shape_tmap; assumption). injection Hv' as <-. now rewrite tmap_nsel.
  - (* DVal *)
    destruct (d_parents (nth k l dspec0)) as [|q [|q' ps]] eqn:Eps; try discriminate. destruct HS as [p [[<-|[]] Sp]].
    inversion Hmix as [|? ? o os c cs' x0 xs Sq Hq Hrest|? ? os c cs' xs Sq Hrest]; subst; [|congruence]. inversion Hrest; subst. clear Hmix Hrest.
    cbn in Hq. destruct (nselect_inv _ _ _ _ Hq) as [[to [tc [t [-> [-> [Ht ->]]]]]]|[[ov [ow [cv [cw [tv [tw [-> [-> [Hv [Hw ->]]]]]]]]]]|[[ov [cv [tv [-> [-> [Hv ->]]]]]]|HD]]];
      try (cbn in Hx; discriminate); try (split_diff HD; subst; try (cbn in Hx; first [discriminate | rewrite nselect_bad_r in Hx; discriminate | rewrite nselect_bad_l in Hx; discriminate]));
      cbn [eval_dfun] in *; unfold affT in *.
    + destruct (twhere_inv _ _ _ _ Hv) as [s [Eo [Ec [Hf ->]]]]. destruct (twhere_inv _ _ _ _ Hw) as [s' [Eo' [Ec' [Hf' ->]]]].
      destruct (oshape_eqb (shape ov) (shape ow)) eqn:E1; [|now rewrite nselect_bad_l in Hx].
      destruct (oshape_eqb (shape cv) (shape cw)) eqn:E2; [|now rewrite nselect_bad_r in Hx].
      destruct (oshape_eqb_true _ _ E1) as [s1 [A1 A2]]. shapes.
      match type of Eo with _ = Some ?z =>
        rewrite !(nsel_shape _ _ _ _ z) by assumption; rewrite oshape_eqb_refl;
        rewrite (nselect_NP mk _ _ z) in Hx by (rewrite ?shape_tmap; try apply shape_tmap2_same; assumption); injection Hx as <-;
        now rewrite (tmap2_nsel _ _ _ _ _ _ _ z), tmap_nsel by assumption
      end.
    + destruct (twhere_inv _ _ _ _ Hv) as [s [Eo [Ec [Hf ->]]]].
      rewrite (nselect_NP mk _ _ s) in Hx by (rewrite ?shape_tmap; assumption). injection Hx as <-. now rewrite tmap_nsel.
    + (* the forked side has weights, the current one none: its entries count fully *)
      destruct (twhere_inv _ _ _ _ Hv) as [s [Eo [Ec [Hf ->]]]]. destruct (twhere_inv _ _ _ _ Hw) as [s' [Eo' [_ [Hf' ->]]]].
      destruct (oshape_eqb (shape ov) (shape ow)) eqn:E1; [|now rewrite nselect_bad_l in Hx].
      destruct (oshape_eqb_true _ _ E1) as [s1 [A1 A2]]. shapes.
      match type of Eo with _ = Some ?z =>
        rewrite !(nsel_shape _ _ _ _ z) by (rewrite ?shape_ones; assumption); rewrite oshape_eqb_refl;
        rewrite (nselect_NP mk _ _ z) in Hx by (rewrite ?shape_tmap; try apply shape_tmap2_same; assumption); injection Hx as <-;
        rewrite (tmap2_nsel _ _ _ _ _ _ _ z) by (rewrite ?shape_ones; assumption);
        rewrite (wv_ones cv ow z) by assumption; now rewrite tmap_nsel
      end.
    + (* the current side has weights, the forked one none *)
      destruct (twhere_inv _ _ _ _ Hv) as [s [Eo [Ec [Hf ->]]]]. destruct (twhere_inv _ _ _ _ Hw) as [s' [_ [Ec' [Hf' ->]]]].
      destruct (oshape_eqb (shape cv) (shape cw)) eqn:E1; [|now rewrite nselect_bad_r in Hx].
      destruct (oshape_eqb_true _ _ E1) as [s1 [A1 A2]]. shapes.
      match type of Eo with _ = Some ?z =>
        rewrite !(nsel_shape _ _ _ _ z) by (rewrite ?shape_ones; assumption); rewrite oshape_eqb_refl;
        rewrite (nselect_NP mk _ _ z) in Hx by (rewrite ?shape_tmap; try apply shape_tmap2_same; assumption); injection Hx as <-;
        rewrite (tmap2_nsel _ _ _ _ _ _ _ z) by (rewrite ?shape_ones; assumption);
        rewrite (wv_ones ov cw z) by assumption; now rewrite tmap_nsel
      end.
  - (* DWgt *)
    destruct (d_parents (nth k l dspec0)) as [|q [|q' ps]] eqn:Eps; try discriminate. destruct HS as [p [[<-|[]] Sp]].
    inversion Hmix as [|? ? o os c cs' x0 xs Sq Hq Hrest|? ? os c cs' xs Sq Hrest]; subst; [|congruence]. inversion Hrest; subst. clear Hmix Hrest.
    cbn in Hq. destruct (nselect_inv _ _ _ _ Hq) as [[to [tc [t [-> [-> [Ht ->]]]]]]|[[ov [ow [cv [cw [tv [tw [-> [-> [Hv [Hw ->]]]]]]]]]]|[[ov [cv [tv [-> [-> [Hv ->]]]]]]|HD]]];
      try (cbn in Hx; discriminate); try (split_diff HD; subst; try (cbn in Hx; first [discriminate | rewrite nselect_bad_r in Hx; discriminate | rewrite nselect_bad_l in Hx; discriminate]));
      cbn [eval_dfun] in *; unfold affT in *.
    destruct (twhere_inv _ _ _ _ Hv) as [s [Eo [Ec [Hf ->]]]]. destruct (twhere_inv _ _ _ _ Hw) as [s' [Eo' [Ec' [Hf' ->]]]].
    destruct (oshape_eqb (shape ov) (shape ow)) eqn:E1; [|now rewrite nselect_bad_l in Hx].
    destruct (oshape_eqb (shape cv) (shape cw)) eqn:E2; [|now rewrite nselect_bad_r in Hx].
    destruct (oshape_eqb_true _ _ E1) as [s1 [A1 A2]]. shapes.
    match type of Eo with _ = Some ?z =>
      rewrite !(nsel_shape _ _ _ _ z) by assumption; rewrite oshape_eqb_refl;
      rewrite (nselect_NP mk _ _ z) in Hx by (rewrite ?shape_tmap; assumption); injection Hx as <-; now rewrite tmap_nsel
    end.
  - (* DWAdd: two weighted parents, each of them selected or the same on both sides *)
    destruct (d_parents (nth k l dspec0)) as [|q1 [|q2 [|q3 ps]]] eqn:Eps; try discriminate.
    inversion Hmix as [|? ? o1 os k1 cs' n1 xs S1 Hq1 Hrest|? ? os k1 cs' xs S1 Hrest]; subst;
      (inversion Hrest as [|? ? o2 os2 k2 cs2 n2 xs2 S2 Hq2 Hrest2|? ? os2 k2 cs2 xs2 S2 Hrest2]; subst; inversion Hrest2; subst);
      refine (F_wadd mk c1 c2 _ _ _ _ _ _ x _ _ Hx);
      first [left; assumption | right; split; reflexivity].
Qed.

(** * hence: never stale, and the partial-revert theorem, on every n-d toy graph of that class — no hypothesis on node functions *)
Theorem never_stale_nd (l : list dspec) :
  gwf_b (mk_ngraph l) = true -> entrywise_axis_b l = true ->
  forall ops, MaskDisciplined (mk_ngraph l) nsem (init_store (mk_ngraph l)) ops ->
  forall k i st,
    nth_error (fst (run_now (mk_ngraph l) nsem (init_store (mk_ngraph l)) ops)) k = Some st ->
    snd (step_now (mk_ngraph l) nsem (fst (run_now (mk_ngraph l) nsem (init_store (mk_ngraph l)) ops)) (Get k i)) =
      match scratch (mk_ngraph l) (values st) i with Some v => Ok v | None => Err InputError end.
Proof.
  intros W U ops D. apply (read_after_history_now nval nmask nat (mk_ngraph l) nsem (gwf_b_sound _ _ W) ops (F_mix_entrywise_nd l U) D).
Qed.

Theorem partial_revert_nd (l : list dspec) :
  gwf_b (mk_ngraph l) = true -> entrywise_axis_b l = true ->
  let g := mk_ngraph l in
  forall (st : state nval) (i : nat) (o : option nval) (reads : list nat) (m : nmask),
    Good g st -> mode st <> None -> i < gn g -> settable g i = true -> ind_axis g i = true ->
    (forall r, In r reads -> axis_read_ok g i r) ->
    let st1 := fst (set_state g true st i o) in
    let st2 := gets g st1 reads in
    shapes_ok g nsem m i (values st) (values st2) ->
    let st3 := fst (revert_mask_state nsem st2 m) in
    snd (revert_mask_state nsem st2 m) = Done /\
    (forall j, In j (i :: desc g i) ->
       values st3 j = match values st j, values st2 j with Some old, Some cur => nselect m old cur | _, _ => None end) /\
    (forall j, ~ In j (i :: desc g i) -> values st3 j = values st2 j) /\
    (forall j w, ~ In j (i :: desc g i) -> values st j = Some w -> values st3 j = Some w) /\
    (forall j, In j (desc g i) -> ind_axis g j = false -> values st3 j = None) /\
    Good g st3 /\ fork st3 = None /\ mode st3 = mode st.
Proof.
  intros W U g st i o reads m HG Hm Hi Hs Ha Hr.
  exact (partial_revert nval nmask nat g nsem true false (gwf_b_sound _ _ W) (or_introl eq_refl)
           st i o reads m (F_mix_entrywise_nd l U) HG Hm Hi Hs Ha Hr).
Qed.

(** * a concrete graph on (3, 2) values
      0  x                 per individual, shape (3, 2), settable
      1  w  = WeightedTensor(x, weight=(x >= 3))                               weight computed from x
      2  w2 = WeightedTensor(1 + 2*w.value, w.weight)
      3  u  = WeightedTensor(w.value - w2.value, w.weight * w2.weight)         TWO weighted parents
      4  v  = u.weighted_value
      5  z  = 1 + 2*x + 3*v                                                    TWO parents, entry-wise
      6  n  = u.weight.sum()                                                   aggregate *)
Local Open Scope Z_scope.
Definition nd_nodes : list dspec :=
  [ mkD false true None true [] [] [1; 2; 3; 4; 5; 6]%nat DLog2;
    mkD true false None true [0]%nat [0]%nat [2; 3; 4; 5; 6]%nat (DThr 0 1 3);
    mkD true false None true [1]%nat [0; 1]%nat [3; 4; 5; 6]%nat (DMap 1 2);
    mkD true false None true [1; 2]%nat [0; 1; 2]%nat [4; 5; 6]%nat (DWAdd 1 (-1));
    mkD true false None true [3]%nat [0; 1; 2; 3]%nat [5]%nat (DVal 0 1);
    mkD true false None true [0; 4]%nat [0; 1; 2; 3; 4]%nat [] (DAffine 1 [2; 3]);
    mkD true false None false [3]%nat [0; 1; 2; 3]%nat [] (DCnt 0 1) ].

(** x = [[1,5],[2,7],[4,0]]; read z, n; x += [[4,-4],[4,-4],[0,3]] (weights flip); read z; the decision *)
Definition nd_ops (mk : nmask) : list nop :=
  [ SetMode 0 (Some REF); Set_ 0 0 (Some (NP (mat [[1;5];[2;7];[4;0]]))); Get 0 5; Get 0 6;
    Put 0 0 None (NP (mat [[4;-4];[4;-4];[0;3]])) true; Get 0 5; RevertMask 0 mk ].

(** every read after the history equals the from-scratch evaluation of the current independent values *)
Definition all_fresh (sm : sem nval nmask nat) (ops : list nop) : bool :=
  forallb (fun i => match nfresh_of (mk_ngraph nd_nodes) sm true ops 0 i with
                    | Some (Some v) => gout_eqb nval_eqb (nread_of (mk_ngraph nd_nodes) sm true ops 0 i) (Ok v)
                    | _ => false
                    end) (seq 0 7).

Example nd_examples :
  gwf_b (mk_ngraph nd_nodes) = true /\ entrywise_axis_b nd_nodes = true /\
  (* individuals 1 and 2 rejected (right-broadcasting), then columns: column 0 rejected (right_broadcasting=False) *)
  MaskDisciplined (mk_ngraph nd_nodes) nsem (init_store (mk_ngraph nd_nodes)) (nd_ops (true, [false; true; true])) /\
  MaskDisciplined (mk_ngraph nd_nodes) nsem (init_store (mk_ngraph nd_nodes)) (nd_ops (false, [true; false])) /\
  nread_of (mk_ngraph nd_nodes) nsem true (nd_ops (true, [false; true; true])) 0 1
    = Ok (NW (mat [[5;1];[2;7];[4;0]]) (Some (mat [[1;0];[0;1];[1;0]]))) /\
  nread_of (mk_ngraph nd_nodes) nsem true (nd_ops (false, [true; false])) 0 1
    = Ok (NW (mat [[1;1];[2;3];[4;3]]) (Some (mat [[0;0];[0;1];[1;1]]))) /\
  all_fresh nsem (nd_ops (true, [false; true; true])) = true /\ all_fresh nsem (nd_ops (false, [true; false])) = true /\
  (* the two rules that are NOT the code leave stale reads on the same histories *)
  all_fresh nsem_old_weight (nd_ops (true, [false; true; true])) = false /\
  nread_of (mk_ngraph nd_nodes) nsem_old_weight true (nd_ops (true, [false; true; true])) 0 1
    = Ok (NW (mat [[5;1];[2;7];[4;0]]) (Some (mat [[0;1];[0;1];[1;0]]))) /\
  (* a mask of length 3 with right_broadcasting=False against (3, 2) values: refused (x keeps the proposal); the rule that aligns the
     mask on the wrong side accepts it and reverts individuals 0 and 2 *)
  nread_of (mk_ngraph nd_nodes) nsem true (nd_ops (false, [true; false; true])) 0 0 = Ok (NP (mat [[5;1];[6;3];[4;3]])) /\
  nread_of (mk_ngraph nd_nodes) nsem_wrong_side true (nd_ops (false, [true; false; true])) 0 0 = Ok (NP (mat [[1;5];[6;3];[4;0]])).
Proof.
  split; [vm_compute; reflexivity|]. split; [vm_compute; reflexivity|].
  split; [apply gmask_disciplined_b_sound; vm_compute; reflexivity|].
  split; [apply gmask_disciplined_b_sound; vm_compute; reflexivity|].
  vm_compute. repeat split.
Qed.

(** a value weighted on ONE side only: x = WeightedTensor([5, 7]) (no weight); y = x.weighted_value; read y;
    x = WeightedTensor([1, 2], weight=[0, 1]); read y; individual 0 rejected.
    BEFORE the repair of [_select] ([nsem_torch_old]: the rows of the side without weight take the OTHER side's weight) the history meets the
    precondition (the call is accepted), x is [5, 2] with weights [0, 1] — row 0 has the weight of the REJECTED proposal — and the cached y
    reads [5, 2] where the from-scratch evaluation gives [0, 2].
    With the code as it is ([nsem]: a side without weights is fully weighted) x is [5, 2] with weights [1, 1] and every read is fresh. *)
Definition one_sided_nodes : list dspec :=
  [ mkD false true None true [] [] [1]%nat DLog2; mkD true false None true [0]%nat [0]%nat [] (DVal 0 1) ].
Definition one_sided_ops : list nop :=
  [ SetMode 0 (Some REF); Set_ 0 0 (Some (NW (vec [5; 7]) None)); Get 0 1;
    Set_ 0 0 (Some (NW (vec [1; 2]) (Some (vec [0; 1])))); Get 0 1; RevertMask 0 (true, [true; false]) ].

Theorem one_sided_weight_old_refuted :
  gwf_b (mk_ngraph one_sided_nodes) = true /\
  MaskDisciplined (mk_ngraph one_sided_nodes) nsem_torch_old (init_store (mk_ngraph one_sided_nodes)) one_sided_ops /\
  nread_of (mk_ngraph one_sided_nodes) nsem_torch_old true one_sided_ops 0 0 = Ok (NW (vec [5; 2]) (Some (vec [0; 1]))) /\
  nread_of (mk_ngraph one_sided_nodes) nsem_torch_old true one_sided_ops 0 1 = Ok (NP (vec [5; 2])) /\
  nfresh_of (mk_ngraph one_sided_nodes) nsem_torch_old true one_sided_ops 0 1 = Some (Some (NP (vec [0; 2]))).
Proof.
  split; [vm_compute; reflexivity|]. split; [apply gmask_disciplined_b_sound; vm_compute; reflexivity|]. vm_compute. repeat split.
Qed.

Example one_sided_weight_now :
  entrywise_axis_b one_sided_nodes = true /\
  MaskDisciplined (mk_ngraph one_sided_nodes) nsem (init_store (mk_ngraph one_sided_nodes)) one_sided_ops /\
  nread_of (mk_ngraph one_sided_nodes) nsem true one_sided_ops 0 0 = Ok (NW (vec [5; 2]) (Some (vec [1; 1]))) /\
  nread_of (mk_ngraph one_sided_nodes) nsem true one_sided_ops 0 1 = Ok (NP (vec [5; 2])) /\
  nfresh_of (mk_ngraph one_sided_nodes) nsem true one_sided_ops 0 1 = Some (Some (NP (vec [5; 2]))) /\
  nread_of (mk_ngraph one_sided_nodes) nsem_torch true one_sided_ops 0 0 = Ok (NW (vec [5; 2]) (Some (vec [1; 1]))).
Proof.
  split; [vm_compute; reflexivity|]. split; [apply gmask_disciplined_b_sound; vm_compute; reflexivity|]. vm_compute. repeat split.
Qed.
Local Close Scope Z_scope.

(** * the headline: after a forked assignment, reads allowed by the contract and [revert(mask)] (right-broadcasting), row [j] of EVERY
      doubly cached node of the forked sub-graph — plain or weighted, whatever its trailing shape — is the forked row where [mask j]
      holds and the current row elsewhere (value and weight from the same side) *)
Lemma nselect_rows_selected m old cur r : nselect (true, m) old cur = Some r -> rows_selected m old cur r.
Proof.
  intros H. unfold rows_selected.
  destruct (nselect_inv _ _ _ _ H) as [[o [c [t [-> [-> [Ht ->]]]]]]|[[ov [ow [cv [cw [tv [tw [-> [-> [Hv [Hw ->]]]]]]]]]]|[[ov [cv [tv [-> [-> [Hv ->]]]]]]|HD]]]; cbn.
  - split; [exact (twhere_rows _ _ _ _ Ht)|eauto].
  - split; [exact (twhere_rows _ _ _ _ Hv)|exact (twhere_rows _ _ _ _ Hw)].
  - split; [exact (twhere_rows _ _ _ _ Hv)|exact I].
  - destruct HD as [[ov [ow [cv [tv [tw [-> [-> [Hv [Hw ->]]]]]]]]]|[[ov [cv [cw [tv [tw [-> [-> [Hv [Hw ->]]]]]]]]]|HM]]; cbn.
    + split; [exact (twhere_rows _ _ _ _ Hv)|exact (twhere_rows _ _ _ _ Hw)].
    + split; [exact (twhere_rows _ _ _ _ Hv)|exact (twhere_rows _ _ _ _ Hw)].
    + (* a plain tensor against a WeightedTensor *)
      unfold nselect, nselect_with in H.
      destruct HM as [[o [v [w [-> ->]]]]|[v [w [c [-> ->]]]]]; destruct w as [w|]; cbn -[twhere ones_like] in H |- *;
        repeat (match type of H with
                | match twhere ?a ?b ?c with _ => _ end = _ =>
                    let E := fresh "E" in destruct (twhere a b c) eqn:E; [|discriminate]; cbn -[twhere ones_like] in H
                end);
        injection H as <-; cbn; split; first [exact I | eapply twhere_rows; eassumption].
Qed.

Theorem partial_revert_nd_rows (l : list dspec) :
  gwf_b (mk_ngraph l) = true -> entrywise_axis_b l = true ->
  let g := mk_ngraph l in
  forall (st : state nval) (i : nat) (o : option nval) (reads : list nat) (m : list bool),
    Good g st -> mode st <> None -> i < gn g -> settable g i = true -> ind_axis g i = true ->
    (forall r, In r reads -> axis_read_ok g i r) ->
    let st1 := fst (set_state g true st i o) in
    let st2 := gets g st1 reads in
    shapes_ok g nsem (true, m) i (values st) (values st2) ->
    let st3 := fst (revert_mask_state nsem st2 (true, m)) in
    forall j old cur r, In j (i :: desc g i) -> values st j = Some old -> values st2 j = Some cur -> values st3 j = Some r ->
      rows_selected m old cur r.
Proof.
  intros W U g st i o reads m HG Hm Hi Hs Ha Hr st1 st2 Hsh st3 j old cur r Hj Eo Ec Er.
  destruct (partial_revert_nd l W U st i o reads (true, m) HG Hm Hi Hs Ha Hr Hsh) as [_ [Hv _]].
  specialize (Hv j Hj). fold g st1 st2 st3 in Hv. rewrite Eo, Ec, Er in Hv. apply nselect_rows_selected. now symmetry.
Qed.

(** * the same for histories with scoped blocks [with state.auto_fork(m): ...] on n-d graphs (StateScoped.v is generic in the value type):
      in every store the execution goes through, a read that returns a value returns the from-scratch evaluation *)
From Leaspy Require Import State.StateScoped State.StateScopedProofs State.StateScopedGExec.

Theorem never_stale_scoped_nd (l : list dspec) :
  gwf_b (mk_ngraph l) = true -> entrywise_axis_b l = true ->
  forall h, SMaskDisciplined (mk_ngraph l) nsem (init_store (mk_ngraph l)) h ->
  forall s', In s' (visits (mk_ngraph l) nsem true (init_store (mk_ngraph l)) h) ->
  forall k i st v, nth_error s' k = Some st ->
    snd (step_now (mk_ngraph l) nsem s' (Get k i)) = Ok v -> scratch (mk_ngraph l) (values st) i = Some v.
Proof.
  intros W U h. exact (scoped_never_stale_now nval nmask nat (mk_ngraph l) nsem (gwf_b_sound _ _ W) h (F_mix_entrywise_nd l U)).
Qed.

(** the decided precondition of a history with blocks, for any value type *)
Lemma gev_ok_b_sound {V M IX} (g : graph V) (sm : sem V M IX) chk (e : event V M IX) :
  gev_ok_b g sm chk e = true -> ev_ok (op_ok g sm chk) e.
Proof. destruct e as [s [o| | | |]]; cbn; auto. apply gop_ok_b_sound. Qed.

Lemma gsmask_disciplined_b_sound {V M IX} (g : graph V) (sm : sem V M IX) s h :
  gsdisciplined_b g sm true false s h = true -> SMaskDisciplined g sm s h.
Proof.
  intros H. apply SMaskDisciplined_iff. unfold gsdisciplined_b in H. unfold SDisciplinedWith.
  rewrite forallb_forall in H. apply Forall_forall. intros e He. apply gev_ok_b_sound. now apply H.
Qed.

(** x (3, 2); fork REF; x assigned; z read; inside [with auto_fork(None)]: a read, then the assignment of the non-settable z raises and
    leaves the block; the mode is REF again: x += delta is forked, z read, individuals 1 and 2 rejected: every read is fresh *)
Local Open Scope Z_scope.
Definition nd_scoped_ops : list nsop :=
  [ SPlain (SetMode 0 (Some REF)); SPlain (Set_ 0 0 (Some (NP (mat [[1;5];[2;7];[4;0]])))); SPlain (Get 0 5);
    SScoped 0 None (nblk [ SPlain (Get 0 6); SPlain (Set_ 0 5 (Some (NP (T0 (AFin 1))))); SPlain (Set_ 0 0 (Some (NP (T0 (AFin 9))))) ]);
    SLook 0;
    SPlain (Put 0 0 None (NP (mat [[4;-4];[4;-4];[0;3]])) true); SPlain (Get 0 5); SPlain (RevertMask 0 (true, [false; true; true])) ].

Example nd_scoped_example :
  SMaskDisciplined (mk_ngraph nd_nodes) nsem (init_store (mk_ngraph nd_nodes)) nd_scoped_ops /\
  hflat (mk_ngraph nd_nodes) nsem true (init_store (mk_ngraph nd_nodes)) nd_scoped_ops =
    [ SetMode 0 (Some REF); Set_ 0 0 (Some (NP (mat [[1;5];[2;7];[4;0]]))); Get 0 5;
      SetMode 0 None; Get 0 6; Set_ 0 5 (Some (NP (T0 (AFin 1)))); SetMode 0 (Some REF);
      Put 0 0 None (NP (mat [[4;-4];[4;-4];[0;3]])) true; Get 0 5; RevertMask 0 (true, [false; true; true]) ] /\
  all_fresh nsem (hflat (mk_ngraph nd_nodes) nsem true (init_store (mk_ngraph nd_nodes)) nd_scoped_ops) = true.
Proof. split; [apply gsmask_disciplined_b_sound; vm_compute; reflexivity|]. vm_compute. split; reflexivity. Qed.
Local Close Scope Z_scope.
