(** C02 — proofs on the executable instance: [torch.where] is a row-wise selection; the code's
    [old*mask + cur*~mask] coincides with it on finite values only; entry-wise node functions commute with the
    selection ([F_mix]); the witness of finding F2. *)
From Coq Require Import List Arith Bool ZArith Lia.
From Leaspy Require Import State.StateModel State.StateProofs State.StateExec State.StateExecProofs
                           State.Revert State.RevertProofs State.RevertExec.
Import ListNotations.

(** ** [xwhere] selects rows *)

Lemma pick_sel_rows (m : list bool) : forall o c,
  map2 (fun (b : bool) (oc : atom * atom) => if b then fst oc else snd oc) m (combine o c) = sel_rows m o c.
Proof. induction m as [|b m IH]; intros [|x o] [|y c]; cbn; try reflexivity. now rewrite IH. Qed.

Lemma xwhere_XP m o c : length o = length m -> length c = length m ->
  xwhere m (XP o) (XP c) = Some (XP (sel_rows m o c)).
Proof.
  intros Ho Hc. unfold xwhere. apply Nat.eqb_eq in Ho, Hc. rewrite Ho, Hc. cbn [andb]. now rewrite pick_sel_rows.
Qed.

Lemma xwhere_XP_inv m o c r : xwhere m (XP o) (XP c) = Some r ->
  length o = length m /\ length c = length m /\ r = XP (sel_rows m o c).
Proof.
  unfold xwhere. destruct (length o =? length m) eqn:Eo; [|discriminate]. destruct (length c =? length m) eqn:Ec; [|discriminate].
  cbn [andb]. rewrite pick_sel_rows. intros H. injection H as <-. apply Nat.eqb_eq in Eo, Ec. auto.
Qed.

(** row [j] of the result: the old row where the mask says "rejected", the new row elsewhere *)
Lemma sel_rows_nth (m : list bool) : forall o c j,
  nth_error (sel_rows m o c) j =
  match nth_error m j, nth_error o j, nth_error c j with
  | Some b, Some x, Some y => Some (if b then x else y)
  | _, _, _ => None
  end.
Proof.
  induction m as [|b m IH]; intros o c j.
  - cbn. destruct j; reflexivity.
  - destruct o as [|x o]; [cbn; destruct j; cbn; [reflexivity | now destruct (nth_error m j)]|].
    destruct c as [|y c]; [cbn; destruct j; cbn; [reflexivity | destruct (nth_error m j); [now destruct (nth_error o j) | reflexivity]]|].
    destruct j; cbn; [reflexivity | apply IH].
Qed.

Lemma sel_rows_length (m : list bool) : forall o c, length o = length m -> length c = length m -> length (sel_rows m o c) = length m.
Proof. induction m as [|b m IH]; intros [|x o] [|y c]; cbn; intros; try lia. rewrite IH; lia. Qed.

Theorem where_rows m o c r : xwhere m (XP o) (XP c) = Some (XP r) ->
  length r = length m /\
  forall j b, nth_error m j = Some b -> nth_error r j = if b then nth_error o j else nth_error c j.
Proof.
  intros H. destruct (xwhere_XP_inv _ _ _ _ H) as [Ho [Hc E]]. injection E as ->.
  split; [now apply sel_rows_length|]. intros j b Hb. rewrite sel_rows_nth, Hb.
  assert (Hj : j < length m) by (apply nth_error_Some; congruence).
  destruct (nth_error o j) eqn:Eo; [|apply nth_error_None in Eo; lia].
  destruct (nth_error c j) eqn:Ec; [|apply nth_error_None in Ec; lia].
  now destruct b.
Qed.

(** all rejected: the old value; all accepted: the new value *)
Lemma sel_rows_all_true (o : list atom) : forall c, length c = length o -> sel_rows (map (fun _ => true) o) o c = o.
Proof. induction o as [|x o IH]; intros [|y c]; cbn; intros; try lia; [reflexivity|]. rewrite IH; [reflexivity | lia]. Qed.

Lemma sel_rows_all_false (o : list atom) : forall c, length c = length o -> sel_rows (map (fun _ => false) o) o c = c.
Proof. induction o as [|x o IH]; intros [|y c]; cbn; intros; try lia; [reflexivity|]. rewrite IH; [reflexivity | lia]. Qed.

(** ** the code's mix is that selection on finite values — and only there *)

Lemma map2_length {A B C} (f : A -> B -> C) : forall a b, length a = length b -> length (map2 f a b) = length a.
Proof. induction a as [|x a IH]; intros [|y b]; cbn; intros; try lia. rewrite IH; lia. Qed.

Lemma mix_rows_finite (m : list bool) : forall o c, all_fin o = true -> all_fin c = true ->
  length o = length m -> length c = length m ->
  map2 aadd (map2 amulb o m) (map2 amulb c (map negb m)) = sel_rows m o c.
Proof.
  induction m as [|b m IH]; intros [|x o] [|y c] Fo Fc Ho Hc; cbn in *; try lia; [reflexivity|].
  apply andb_prop in Fo, Fc. destruct Fo as [Fx Fo], Fc as [Fy Fc].
  rewrite IH by (auto; lia). f_equal.
  destruct x; try discriminate. destruct y; try discriminate. destruct b; cbn; f_equal; lia.
Qed.

Theorem xmix_finite_XP m o c : all_fin o = true -> all_fin c = true -> length o = length m -> length c = length m ->
  xmix m (XP o) (XP c) = xwhere m (XP o) (XP c).
Proof.
  intros Fo Fc Ho Hc. rewrite xwhere_XP by assumption. unfold xmix. cbn [same_shape].
  assert (E : (length o =? length c) = true) by (apply Nat.eqb_eq; lia). rewrite E.
  unfold xmask. assert (Eo : (length o =? length m) = true) by now apply Nat.eqb_eq.
  assert (Ec : (length c =? length (map negb m)) = true) by (apply Nat.eqb_eq; now rewrite map_length).
  rewrite Eo, Ec. unfold xadd. cbn [xmap2].
  rewrite !map2_length by (rewrite ?map_length; lia). rewrite E.
  rewrite mix_rows_finite by assumption. reflexivity.
Qed.

Theorem xmix_finite_XS m (o c : atom) : afinite o = true -> afinite c = true ->
  xmix m (XS o) (XS c) = xwhere m (XS o) (XS c).
Proof.
  intros Fo Fc. unfold xmix, xwhere. cbn [same_shape xmask xadd xmap2].
  rewrite !map_length, Nat.eqb_refl. cbn [not_bad is_bad]. f_equal. f_equal.
  destruct o; try discriminate. destruct c; try discriminate.
  induction m as [|b m IH]; cbn; [reflexivity|]. rewrite IH. f_equal. destruct b; cbn; f_equal; lia.
Qed.

(** values for which the two coincide: finite, and of the mask's length when per individual *)
Definition mixable (m : list bool) (o c : xval) : Prop :=
  match o, c with
  | XS a, XS b => afinite a = true /\ afinite b = true
  | XP a, XP b => all_fin a = true /\ all_fin b = true /\ length a = length m /\ length b = length m
  | _, _ => False
  end.

Lemma xmix_mixable m o c : mixable m o c -> xmix m o c = xwhere m o c.
Proof.
  destruct o, c; cbn; try contradiction.
  - intros [A B]. now apply xmix_finite_XS.
  - intros [A [B [C D]]]. now apply xmix_finite_XP.
Qed.

(** the two partial reverts coincide on a state whose doubly cached forked entries are all mixable *)
Lemma revert_items_ext (m : list bool) : forall (fk : forkd xval) (vs : vals xval), NoDup (map fst fk) ->
  (forall c o cur, In (c, Some o) fk -> vs c = Some cur -> mixable m o cur) ->
  revert_items xsem m vs fk = revert_items xsem_where m vs fk.
Proof.
  induction fk as [|[k old] r IH]; intros vs ND H; [reflexivity|].
  cbn [map fst] in ND. inversion ND as [|? ? Hk NDr]; subst.
  assert (Step : forall x c o cur, In (c, Some o) r -> upd vs k x c = Some cur -> mixable m o cur).
  { intros x c o cur Hin Hc. apply (H c o cur); [now right|]. unfold upd in Hc.
    destruct (Nat.eqb c k) eqn:E; [|exact Hc]. apply Nat.eqb_eq in E. subst. exfalso. apply Hk. apply (in_map fst) in Hin. exact Hin. }
  cbn [revert_items]. destruct old as [o|]; [destruct (vs k) as [c|] eqn:Ec|]; try (apply IH; [exact NDr | apply Step]).
  cbn [mix xsem xsem_where]. rewrite (xmix_mixable m o c) by (apply (H k o c); [now left | exact Ec]).
  destruct (xwhere m o c); [|reflexivity]. apply IH; [exact NDr | apply Step].
Qed.

Theorem code_revert_is_where_when_finite (g : graph xval) (st : state xval) (m : list bool) :
  WF g -> Good g st ->
  (forall fk c o cur, fork st = Some fk -> In (c, Some o) fk -> values st c = Some cur -> mixable m o cur) ->
  revert_mask_state xsem st m = revert_mask_state xsem_where st m.
Proof.
  intros W HG H. unfold revert_mask_state. destruct (fork st) as [fk|] eqn:E; [|reflexivity].
  rewrite (revert_items_ext m fk (values st)); [reflexivity | now apply (fork_keys_nodup xval g W st) | intros c o cur; now apply (H fk)].
Qed.

(** ** entry-wise node functions commute with the selection *)

Lemma unary_eval f h a : unary_fun f = Some h -> eval_nfun f [a] = xmap1 h a.
Proof.
  destruct f as [c0 cs|c0 cs|]; cbn; try discriminate.
  - destruct cs as [|c [|c' cs]]; try discriminate. intros H. injection H as <-.
    destruct a; cbn; try reflexivity. now rewrite map_map.
  - intros H. injection H as <-. now destruct a.
Qed.

Lemma sel_rows_map (h : atom -> atom) (m : list bool) : forall o c,
  map h (sel_rows m o c) = sel_rows m (map h o) (map h c).
Proof. induction m as [|b m IH]; intros [|x o] [|y c]; cbn; try reflexivity. rewrite IH. now destruct b. Qed.

Lemma xwhere_map1 h m o c x0 : xwhere m o c = Some x0 -> xwhere m (xmap1 h o) (xmap1 h c) = Some (xmap1 h x0).
Proof.
  destruct o as [a|lo|], c as [b|lc|]; cbn [xmap1]; try (cbn; discriminate).
  - cbn. intros H. injection H as <-. cbn. rewrite map_map. f_equal. f_equal. apply map_ext. now intros [|].
  - intros H. destruct (xwhere_XP_inv _ _ _ _ H) as [Ho [Hc ->]].
    rewrite xwhere_XP by now rewrite map_length. cbn. now rewrite sel_rows_map.
Qed.

Lemma forallb_nth {A} (p : A -> bool) (l : list A) d k : forallb p l = true -> k < length l -> p (nth k l d) = true.
Proof. intros H Hk. rewrite forallb_forall in H. apply H. now apply nth_In. Qed.

Theorem F_mix_unary (l : list nspec) : unary_axis_b l = true -> F_mix (mk_graph l) xsem_where.
Proof.
  intros HU k m sel olds curs news x Hk Lk Ak Hmix [p [Hp Sp]] _ Hx. cbn in *.
  pose proof (forallb_nth _ l nspec0 k HU Hk) as Hn. cbv beta in Hn. rewrite Lk, Ak in Hn. cbn in Hn.
  apply andb_prop in Hn. destruct Hn as [Hpar Hun].
  destruct (s_parents (nth k l nspec0)) as [|q [|q' ps]] eqn:Eps; try discriminate.
  destruct (unary_fun (s_fun (nth k l nspec0))) as [h|] eqn:Eh; [|discriminate].
  destruct Hp as [<-|[]].
  inversion Hmix as [|? ? o os c cs x0 xs Sq Hq Hrest|? ? os c cs xs Sq Hrest]; subst; [|congruence].
  inversion Hrest; subst.
  rewrite !(unary_eval _ h _ Eh) in *. rewrite (xwhere_map1 h m o c x0 Hq) in Hx. now injection Hx.
Qed.

(** ** finding F2 *)

Lemma f2_wf : WF (mk_graph f2_nodes).
Proof. apply wf_b_sound. vm_compute. reflexivity. Qed.

Lemma f2b_wf : WF (mk_graph f2b_nodes).
Proof. apply wf_b_sound. vm_compute. reflexivity. Qed.

Lemma f2_fmix : F_mix (mk_graph f2_nodes) xsem_where.
Proof. apply F_mix_unary. vm_compute. reflexivity. Qed.

Lemma f2b_fmix : F_mix (mk_graph f2b_nodes) xsem_where.
Proof. apply F_mix_unary. vm_compute. reflexivity. Qed.

(** On the faithful model of the code ([xsem]: old*mask + cur*~mask): a history inside the documented contract
    (forked proposal, reads of per-individual variables only, shapes consistent with the mask) after which the
    read of y for the REJECTED individual 0 is NaN, while the state's own independent values (x = [1, 4]) give 0;
    with the selection ([xsem_where]) the same history reads the fresh value. *)
Theorem nonfinite_refuted :
  exists (g : graph xval) (ops : list xop) (i : nat),
    WF g /\ F_mix g xsem_where /\
    Disciplined g xsem false true (init_store g) ops /\
    read_of g xsem false ops 0 0 = Ok (XP [AFin 1; AFin 4]) /\
    read_of g xsem false ops 0 i = Ok (XP [ANaN; AFin 2]) /\
    fresh_of g xsem false ops 0 i = Some (Some (XP [AFin 0; AFin 2])) /\
    read_of g xsem_where false ops 0 i = Ok (XP [AFin 0; AFin 2]).
Proof.
  exists (mk_graph f2_nodes), f2_ops, 1. split; [exact f2_wf|]. split; [exact f2_fmix|].
  split; [apply disciplined_b_sound; vm_compute; reflexivity|]. repeat split; vm_compute; reflexivity.
Qed.

(** the second witness: a proposal evaluating to -inf for a rejected individual (x = 0), an accepted individual in
    between, an aggregated descendant that is not read before the decision: the aggregate read afterwards is NaN
    instead of 3 + 2*(2+3+0) = 13 *)
Example nonfinite_refuted_aggregate :
  Disciplined (mk_graph f2b_nodes) xsem false true (init_store (mk_graph f2b_nodes)) f2b_ops /\
  read_of (mk_graph f2b_nodes) xsem false f2b_ops 0 0 = Ok (XP [AFin 4; AFin 8; AFin 1]) /\
  read_of (mk_graph f2b_nodes) xsem false f2b_ops 0 2 = Ok (XS ANaN) /\
  read_of (mk_graph f2b_nodes) xsem_where false f2b_ops 0 2 = Ok (XS (AFin 13)) /\
  fresh_of (mk_graph f2b_nodes) xsem false f2b_ops 0 2 = Some (Some (XS (AFin 13))).
Proof. split; [apply disciplined_b_sound; vm_compute; reflexivity|]. repeat split; vm_compute; reflexivity. Qed.

(** ** non-vacuity: the hypotheses of the generic theorems are met by concrete non-trivial states *)

Definition ex_state (ops : list xop) (g : graph xval) (sm : sem xval (list bool) nat) : option (state xval) :=
  nth_error (fst (run g sm false (init_store g) ops)) 0.

Lemma run_good (g : graph xval) sm ops st : WF g -> F_mix g sm ->
  disciplined_b g sm false true (init_store g) ops = true -> ex_state ops g sm = Some st -> Good g st.
Proof.
  intros W Fm D E. unfold ex_state in E.
  apply (Good_run xval (list bool) nat g sm false true W (or_intror eq_refl) ops Fm (init_store g)
           (AllGood_init xval g W) (disciplined_b_sound g sm false true ops _ D) 0 st E).
Qed.

(** the diamond of C01 (per-individual root, two per-individual branches, aggregated sink) is NOT unary; the chain
    x -> y = log2 x -> (aggregate) is.  State reached after "fork REF; x = [4,2,1]; read z". *)
Definition pre_ops : list xop := [ SetMode 0 (Some REF); Set_ 0 0 (Some (XP [AFin 4; AFin 2; AFin 1])); Get 0 2 ]%Z.

Example hypotheses_met :
  exists st, ex_state pre_ops (mk_graph f2b_nodes) xsem_where = Some st /\
    Good (mk_graph f2b_nodes) st /\ mode st <> None /\ settable (mk_graph f2b_nodes) 0 = true /\
    ind_axis (mk_graph f2b_nodes) 0 = true /\ axis_read_ok (mk_graph f2b_nodes) 0 1 /\
    ~ axis_read_ok (mk_graph f2b_nodes) 0 2.
Proof.
  destruct (ex_state pre_ops (mk_graph f2b_nodes) xsem_where) as [st|] eqn:E; [|vm_compute in E; discriminate].
  exists st. split; [reflexivity|].
  split; [apply (run_good _ xsem_where pre_ops st f2b_wf f2b_fmix); [vm_compute; reflexivity | exact E]|].
  vm_compute in E. injection E as <-. cbn.
  split; [discriminate|]. split; [reflexivity|]. split; [reflexivity|]. split.
  - intros a Ha Hd. cbn in Ha, Hd. destruct Ha as [<-|[<-|[]]]; [reflexivity | reflexivity].
  - intros H. specialize (H 2). cbn in H. discriminate H; auto.
Qed.
