(** C02 — proofs: a full revert restores every cached value and every read; a partial revert mixes the forked
    sub-graph entry by entry and keeps the cache consistent; states that agree on their independent values are
    indistinguishable by every later history (simulation over all operations of the model). *)
From Coq Require Import List Arith Bool Lia.
From Leaspy Require Import State.StateModel State.StateProofs State.Revert.
Import ListNotations.

Section Proofs.
Variables V M IX : Type.
Variable g : graph V.
Variable sm : sem V M IX.
Variable fx chk : bool.
Hypothesis wf : WF g.
Hypothesis fx_or_chk : fx = true \/ chk = true.

Notation n := (gn g).
Notation vals := (vals V).
Notation Good := (Good g).
Notation sim := (sim g).
Notation same_indep := (same_indep V g).

(** ** reads *)

Lemma get_state_values (st : state V) r : values (fst (get_state g st r)) = fst (get g (values st) r).
Proof. unfold get_state. destruct (get g (values st) r). reflexivity. Qed.

Lemma get_state_out (st : state V) r : snd (get_state g st r) = snd (get g (values st) r).
Proof. unfold get_state. destruct (get g (values st) r). reflexivity. Qed.

Lemma get_list_cons (st : state V) r rs :
  get_list g st (r :: rs) =
  (fst (get_list g (fst (get_state g st r)) rs),
   snd (get_state g st r) :: snd (get_list g (fst (get_state g st r)) rs)).
Proof. cbn. destruct (get_state g st r) as [st1 o]. cbn. destruct (get_list g st1 rs). reflexivity. Qed.

Lemma gets_cons (st : state V) r rs : gets g st (r :: rs) = gets g (fst (get_state g st r)) rs.
Proof. unfold gets. now rewrite get_list_cons. Qed.

(** what a sequence of reads does to a consistent state *)
Lemma gets_props reads : forall st : state V, Good st ->
  let st' := gets g st reads in
  Good st' /\ fork st' = fork st /\ mode st' = mode st /\
  (forall j v, values st j = Some v -> values st' j = Some v) /\
  (forall j, values st' j <> values st j ->
     linked g j = true /\ values st j = None /\ exists r, In r reads /\ In j (anc g r ++ [r])).
Proof.
  induction reads as [|r rs IH]; intros st HG.
  - cbn. split; [exact HG|]. split; [reflexivity|]. split; [reflexivity|]. split; [auto|]. intros j H. exfalso. now apply H.
  - cbv zeta. rewrite gets_cons.
    pose proof (Good_get V g wf st r HG) as HG1. destruct (get_state_fork V g st r) as [Hf Hm].
    destruct HG as [HI [HB _]]. destruct (get_props V g wf (values st) r HI HB) as [_ [_ [[E1 E2] _]]].
    rewrite <- get_state_values in E1, E2.
    destruct (IH _ HG1) as [G' [F' [M' [K' C']]]].
    split; [exact G'|]. split; [congruence|]. split; [congruence|]. split.
    + intros j v Hj. apply K'. now apply E1.
    + intros j Hj. destruct (values st j) as [v|] eqn:E.
      * exfalso. apply Hj. apply K'. now apply E1.
      * destruct (values (fst (get_state g st r)) j) as [w|] eqn:E'.
        -- destruct (E2 j) as [Hin [L Hn]]; [rewrite E, E'; discriminate|].
           split; [exact L|]. split; [reflexivity|]. exists r. split; [now left | exact Hin].
        -- destruct (C' j) as [L [Hn [r' [Hr' Hin]]]]; [now rewrite E'|].
           split; [exact L|]. split; [reflexivity|]. exists r'. split; [now right | exact Hin].
Qed.

Lemma gets_indep reads (st : state V) : Good st -> forall j, linked g j = false -> values (gets g st reads) j = values st j.
Proof.
  intros HG j Lj. destruct (gets_props reads st HG) as [_ [_ [_ [K C]]]].
  destruct (values st j) as [v|] eqn:E; [now apply K|].
  destruct (values (gets g st reads) j) as [w|] eqn:E'; [|reflexivity].
  destruct (C j) as [L _]; [rewrite E, E'; discriminate | congruence].
Qed.

(** ** the forked assignment *)

Definition snapshot (vs : vals) (i : nat) : forkd V := map (fun c => (c, vs c)) (i :: desc g i).

Lemma set_state_ok (st : state V) i o : i < n -> settable g i = true ->
  set_state g fx st i o =
  (mkState (reset_list (upd (values st) i o) (desc g i))
           (match mode st with Some _ => Some (snapshot (values st) i) | None => if fx then None else fork st end)
           (mode st), Done).
Proof. intros Hi Hs. unfold set_state. apply Nat.ltb_lt in Hi. now rewrite Hi, Hs. Qed.

Lemma override_snap (vs vs0 : vals) i j :
  override vs (snapshot vs0 i) j = if mem j (i :: desc g i) then vs0 j else vs j.
Proof. unfold override, snapshot. rewrite assoc_map. now destruct (mem j (i :: desc g i)). Qed.

Lemma snap_keys (vs : vals) i : map fst (snapshot vs i) = i :: desc g i.
Proof. unfold snapshot. rewrite map_map. cbn [fst]. apply map_id. Qed.

Lemma set_values_out (st : state V) i o j : i < n -> settable g i = true -> ~ In j (i :: desc g i) ->
  values (fst (set_state g fx st i o)) j = values st j.
Proof.
  intros Hi Hs Hj. rewrite set_state_ok by assumption. cbn [fst values].
  rewrite reset_out by (intros H; apply Hj; now right). apply upd_other. intros ->. apply Hj. now left.
Qed.

Lemma not_in_desc_self i : i < n -> ~ In i (desc g i).
Proof. intros Hi H. pose proof (desc_gt V g wf i i Hi H). lia. Qed.

Lemma set_values_self (st : state V) i o : i < n -> settable g i = true ->
  values (fst (set_state g fx st i o)) i = o.
Proof.
  intros Hi Hs. rewrite set_state_ok by assumption. cbn [fst values].
  rewrite reset_out by now apply not_in_desc_self. apply upd_same.
Qed.

Lemma set_values_desc (st : state V) i o j : i < n -> settable g i = true -> In j (desc g i) ->
  values (fst (set_state g fx st i o)) j = None.
Proof. intros Hi Hs Hj. rewrite set_state_ok by assumption. cbn [fst values]. now apply reset_in. Qed.

Lemma forked_unforked_ok (st : state V) : mode st <> None -> unforked_ok chk st.
Proof. intros H _ H'. contradiction. Qed.

Lemma indep_not_desc i j : i < n -> linked g j = false -> ~ In j (desc g i).
Proof. intros Hi Lj H. rewrite (desc_linked V g wf i j Hi H) in Lj. discriminate. Qed.

(** ** full revert: everything is exactly back *)

Theorem full_revert (st : state V) i o reads :
  Good st -> mode st <> None -> i < n -> settable g i = true ->
  let st1 := fst (set_state g fx st i o) in
  let st2 := gets g st1 reads in
  let st3 := fst (revert_state st2) in
  snd (revert_state st2) = Done /\
  (forall j w, values st j = Some w -> values st3 j = Some w) /\
  (forall j, In j (i :: desc g i) -> values st3 j = values st j) /\
  (forall j, linked g j = false -> values st3 j = values st j) /\
  fork st3 = None /\ mode st3 = mode st /\ Good st3 /\
  (forall j, snd (get g (values st3) j) = snd (get g (values st) j)).
Proof.
  intros HG Hm Hi Hs st1 st2 st3.
  assert (HG1 : Good st1) by (apply (Good_set V g fx chk wf fx_or_chk); [exact HG | intros _ _; now apply forked_unforked_ok]).
  destruct (gets_props reads st1 HG1) as [HG2 [F2 [M2 [K2 C2]]]]. fold st2 in HG2, F2, M2, K2, C2.
  assert (F1 : fork st1 = Some (snapshot (values st) i) /\ mode st1 = mode st).
  { unfold st1. rewrite set_state_ok by assumption. cbn. destruct (mode st); [now split | contradiction]. }
  destruct F1 as [F1 M1].
  assert (R : revert_state st2 = (mkState (override (values st2) (snapshot (values st) i)) None (mode st2), Done)).
  { unfold revert_state. now rewrite F2, F1. }
  assert (V3 : forall j, values st3 j = if mem j (i :: desc g i) then values st j else values st2 j).
  { intros j. unfold st3. rewrite R. cbn [fst values]. apply override_snap. }
  assert (Vin : forall j, In j (i :: desc g i) -> values st3 j = values st j).
  { intros j Hj. rewrite V3. apply mem_in in Hj. now rewrite Hj. }
  assert (Vout : forall j, ~ In j (i :: desc g i) -> values st3 j = values st2 j).
  { intros j Hj. rewrite V3. apply mem_false in Hj. now rewrite Hj. }
  assert (HG3 : Good st3) by (apply Good_revert; exact HG2).
  assert (HI3 : forall j, linked g j = false -> values st3 j = values st j).
  { intros j Lj. destruct (in_dec Nat.eq_dec j (i :: desc g i)) as [Hj|Hj]; [now apply Vin|].
    rewrite Vout by exact Hj. unfold st2. rewrite gets_indep by assumption. now apply set_values_out. }
  split; [now rewrite R|]. split.
  { intros j w Hw. destruct (in_dec Nat.eq_dec j (i :: desc g i)) as [Hj|Hj]; [now rewrite Vin|].
    rewrite Vout by exact Hj. apply K2. unfold st1. now rewrite set_values_out. }
  split; [exact Vin|]. split; [exact HI3|].
  split; [unfold st3; now rewrite R|]. split; [unfold st3; rewrite R; cbn; congruence|]. split; [exact HG3|].
  intros j. destruct HG as [HI [HB _]]. destruct HG3 as [HI' [HB' _]].
  rewrite !(get_is_scratch V g wf) by assumption. unfold read_spec.
  now rewrite (scratch_ext V g wf (values st3) (values st) HI3).
Qed.

(** ** partial revert under the documented preconditions *)

Lemma in_snapshot (vs : vals) i c (x : option V) : In (c, x) (snapshot vs i) -> In c (i :: desc g i) /\ x = vs c.
Proof. unfold snapshot. intros H. apply in_map_iff in H. destruct H as [c' [E Hc]]. injection E as -> <-. now split. Qed.

Lemma revert_mask_snap (m : M) (cur old : vals) i j :
  revert_mask sm m cur (snapshot old i) j =
  if mem j (i :: desc g i)
  then match old j, cur j with Some o, Some c => mix sm m o c | _, _ => None end
  else cur j.
Proof. unfold revert_mask, snapshot. rewrite assoc_map. now destruct (mem j (i :: desc g i)). Qed.

Theorem partial_revert (st : state V) i o reads (m : M) :
  F_mix g sm -> Good st -> mode st <> None -> i < n -> settable g i = true -> ind_axis g i = true ->
  (forall r, In r reads -> axis_read_ok g i r) ->
  let st1 := fst (set_state g fx st i o) in
  let st2 := gets g st1 reads in
  shapes_ok g sm m i (values st) (values st2) ->
  let st3 := fst (revert_mask_state sm st2 m) in
  snd (revert_mask_state sm st2 m) = Done /\
  (forall j, In j (i :: desc g i) ->
     values st3 j = match values st j, values st2 j with Some old, Some cur => mix sm m old cur | _, _ => None end) /\
  (forall j, ~ In j (i :: desc g i) -> values st3 j = values st2 j) /\
  (forall j w, ~ In j (i :: desc g i) -> values st j = Some w -> values st3 j = Some w) /\
  (forall j, In j (desc g i) -> ind_axis g j = false -> values st3 j = None) /\
  Good st3 /\ fork st3 = None /\ mode st3 = mode st.
Proof.
  intros HFm HG Hm Hi Hs Hax Hreads st1 st2 Hshape st3.
  assert (HG1 : Good st1) by (apply (Good_set V g fx chk wf fx_or_chk); [exact HG | intros _ _; now apply forked_unforked_ok]).
  destruct (gets_props reads st1 HG1) as [HG2 [F2 [M2 [K2 C2]]]]. fold st2 in HG2, F2, M2, K2, C2.
  assert (F1 : fork st1 = Some (snapshot (values st) i) /\ mode st1 = mode st).
  { unfold st1. rewrite set_state_ok by assumption. cbn. destruct (mode st); [now split | contradiction]. }
  destruct F1 as [F1 M1].
  (* only nodes carrying the individual axis were cached below [i] *)
  assert (Hcached : forall c, In c (desc g i) -> values st2 c <> None -> ind_axis g c = true).
  { intros c Hc Hv.
    assert (E1 : values st1 c = None) by (unfold st1; now apply set_values_desc).
    destruct (C2 c) as [_ [_ [r [Hr Hin]]]]; [now rewrite E1|]. exact (Hreads r Hr c Hin Hc). }
  assert (Hmask : mask_ok g sm m st2).
  { unfold mask_ok. rewrite F2, F1. intros c o' cur Hin Hcur.
    destruct (in_snapshot _ _ _ _ Hin) as [Hc Ho]. split.
    - destruct Hc as [<-|Hc]; [exact Hax|]. apply Hcached; [exact Hc | congruence].
    - apply (Hshape c o' cur Hc); [now symmetry | exact Hcur]. }
  assert (HG3 : Good st3) by (apply (Good_revert_mask V M IX g sm wf); assumption).
  destruct (revert_items_spec V M IX sm m (snapshot (values st) i) (values st2)) as [Hok Hpt].
  { rewrite snap_keys. apply increasing_NoDup. now apply (wf_desc_inc wf). }
  { intros c o' cur Hin Hcur. destruct (in_snapshot _ _ _ _ Hin) as [Hc Ho]. apply (Hshape c o' cur Hc); [now symmetry | exact Hcur]. }
  assert (R : revert_mask_state sm st2 m =
              (mkState (fst (revert_items sm m (values st2) (snapshot (values st) i))) None (mode st2), Done)).
  { unfold revert_mask_state. rewrite F2, F1.
    destruct (revert_items sm m (values st2) (snapshot (values st) i)) as [vs' ok]. cbn [fst snd] in *. now subst ok. }
  assert (V3 : forall j, values st3 j =
                 if mem j (i :: desc g i)
                 then match values st j, values st2 j with Some o', Some c => mix sm m o' c | _, _ => None end
                 else values st2 j).
  { intros j. unfold st3. rewrite R. cbn [fst values]. rewrite Hpt. apply revert_mask_snap. }
  assert (Vout : forall j, ~ In j (i :: desc g i) -> values st3 j = values st2 j).
  { intros j Hj. rewrite V3. apply mem_false in Hj. now rewrite Hj. }
  split; [now rewrite R|]. split.
  { intros j Hj. rewrite V3. apply mem_in in Hj. now rewrite Hj. }
  split; [exact Vout|]. split.
  { intros j w Hj Hw. rewrite Vout by exact Hj. apply K2. unfold st1. now rewrite set_values_out. }
  split.
  { intros j Hj Hnax. rewrite V3. assert (Hj' : In j (i :: desc g i)) by now right. apply mem_in in Hj'. rewrite Hj'.
    destruct (values st2 j) eqn:E; [|now destruct (values st j)].
    rewrite Hcached in Hnax; [discriminate | exact Hj | congruence]. }
  split; [exact HG3|]. split; [unfold st3; now rewrite R|]. unfold st3. rewrite R. cbn. congruence.
Qed.

(** ** observational equivalence *)

Lemma Good_forget (st : state V) : Good st -> Good (forget_fork st).
Proof. intros [HI [HB _]]. split; [exact HI|]. split; [exact HB | exact I]. Qed.

Lemma fork_sim_refl (st : state V) : fork_sim g st st.
Proof. unfold fork_sim. destruct (fork st); [|exact I]. split; [reflexivity | intros j _; reflexivity]. Qed.

Lemma sim_refl (st : state V) : Good st -> sim st st.
Proof. intros HG. split; [exact HG|]. split; [exact HG|]. split; [intros j _; reflexivity|]. split; [reflexivity | apply fork_sim_refl]. Qed.

Lemma sim_sym (a b : state V) : sim a b -> sim b a.
Proof.
  intros [Ga [Gb [HS [Hm HF]]]]. split; [exact Gb|]. split; [exact Ga|].
  split; [intros j Lj; symmetry; now apply HS|]. split; [now symmetry|].
  unfold fork_sim in *. destruct (fork a), (fork b); try exact HF.
  destruct HF as [K S]. split; [now symmetry | intros j Lj; symmetry; now apply S].
Qed.

Lemma sim_trans (a b c : state V) : sim a b -> sim b c -> sim a c.
Proof.
  intros [Ga [Gb [HS [Hm HF]]]] [_ [Gc [HS' [Hm' HF']]]]. split; [exact Ga|]. split; [exact Gc|].
  split; [intros j Lj; rewrite HS by exact Lj; now apply HS'|]. split; [congruence|].
  unfold fork_sim in *. destruct (fork a), (fork b), (fork c); try exact I; try contradiction.
  destruct HF as [K S], HF' as [K' S']. split; [congruence | intros j Lj; rewrite S by exact Lj; now apply S'].
Qed.

Lemma sim_forget (a b : state V) : sim a b -> sim (forget_fork a) (forget_fork b).
Proof.
  intros [Ga [Gb [HS [Hm _]]]]. split; [now apply Good_forget|]. split; [now apply Good_forget|].
  split; [exact HS|]. split; [exact Hm | exact I].
Qed.

(** same keys: a name is in one undo log iff it is in the other *)
Lemma assoc_same_keys (f1 f2 : forkd V) j : map fst f1 = map fst f2 -> (assoc j f1 = None <-> assoc j f2 = None).
Proof. intros K. rewrite !assoc_keys. now rewrite K. Qed.

(** replacing the values by others with the same independent values keeps the undo logs equivalent *)
Lemma fork_sim_values (a b a' b' : state V) :
  fork_sim g a b -> fork a' = fork a -> fork b' = fork b -> same_indep (values a') (values b') -> fork_sim g a' b'.
Proof.
  unfold fork_sim. intros HF Fa Fb HS. rewrite Fa, Fb. destruct (fork a) as [f1|], (fork b) as [f2|]; try exact HF.
  destruct HF as [K S]. split; [exact K|]. intros j Lj. specialize (S j Lj). unfold override in *.
  destruct (assoc j f1) as [x|] eqn:E1, (assoc j f2) as [y|] eqn:E2.
  - exact S.
  - exfalso. apply (assoc_same_keys f1 f2 j K) in E2. congruence.
  - exfalso. apply (assoc_same_keys f1 f2 j K) in E1. congruence.
  - now apply HS.
Qed.

(** an operation that only changes derived cache entries *)
Lemma sim_cache_only (a b a' b' : state V) : sim a b -> Good a' -> Good b' ->
  (forall j, linked g j = false -> values a' j = values a j) ->
  (forall j, linked g j = false -> values b' j = values b j) ->
  fork a' = fork a -> fork b' = fork b -> mode a' = mode a -> mode b' = mode b -> sim a' b'.
Proof.
  intros [_ [_ [HS [Hm HF]]]] Ga Gb Ia Ib Fa Fb Ma Mb.
  assert (HS' : same_indep (values a') (values b')) by (intros j Lj; rewrite Ia, Ib by exact Lj; now apply HS).
  split; [exact Ga|]. split; [exact Gb|]. split; [exact HS'|]. split; [congruence|].
  now apply (fork_sim_values a b).
Qed.

Lemma sim_read_out (a b : state V) i : sim a b -> snd (get g (values a) i) = snd (get g (values b) i).
Proof.
  intros [[Ia [Ba _]] [[Ib [Bb _]] [HS _]]]. rewrite !(get_is_scratch V g wf) by assumption.
  unfold read_spec. now rewrite (scratch_ext V g wf _ _ HS).
Qed.

Lemma sim_get (a b : state V) i : sim a b ->
  sim (fst (get_state g a i)) (fst (get_state g b i)) /\ snd (get_state g a i) = snd (get_state g b i).
Proof.
  intros HS. pose proof HS as [Ga [Gb _]].
  destruct (get_transparent V g wf a i Ga) as [Ia [Fa [Ma _]]]. destruct (get_transparent V g wf b i Gb) as [Ib [Fb [Mb _]]].
  split; [|rewrite !get_state_out; now apply sim_read_out].
  apply (sim_cache_only a b); auto; now apply Good_get.
Qed.

Lemma sim_get_list reads : forall a b : state V, sim a b ->
  sim (fst (get_list g a reads)) (fst (get_list g b reads)) /\ snd (get_list g a reads) = snd (get_list g b reads).
Proof.
  induction reads as [|r rs IH]; intros a b HS; [split; [exact HS | reflexivity]|].
  rewrite !get_list_cons. cbn [fst snd]. destruct (sim_get a b r HS) as [HS1 Ho].
  destruct (IH _ _ HS1) as [HS2 Hos]. split; [exact HS2 | now rewrite Ho, Hos].
Qed.

Lemma sim_unforked_ok (a b : state V) : sim a b -> unforked_ok chk a -> unforked_ok chk b.
Proof.
  intros [_ [_ [_ [Hm HF]]]] H Hc Hmb. rewrite <- Hm in Hmb. specialize (H Hc Hmb).
  unfold fork_sim in HF. rewrite H in HF. now destruct (fork b).
Qed.

Lemma set_state_bad (st : state V) i o : ~ (i < n /\ settable g i = true) ->
  set_state g fx st i o = (st, Err InputError).
Proof.
  intros H. unfold set_state. destruct (i <? n) eqn:Ei; cbn [negb]; [|reflexivity].
  destruct (settable g i) eqn:Es; cbn [negb]; [|reflexivity]. exfalso. apply H. apply Nat.ltb_lt in Ei. now split.
Qed.

Lemma sim_set (a b : state V) i o : sim a b -> (i < n -> settable g i = true -> unforked_ok chk a) ->
  sim (fst (set_state g fx a i o)) (fst (set_state g fx b i o)) /\
  snd (set_state g fx a i o) = snd (set_state g fx b i o).
Proof.
  intros HS Hu.
  destruct (lt_dec i n) as [Hi|Hi]; [destruct (Bool.bool_dec (settable g i) true) as [Es|Es]|].
  2:{ rewrite !set_state_bad by (intros [_ H]; contradiction). now split. }
  2:{ rewrite !set_state_bad by (intros [H _]; contradiction). now split. }
  assert (Hub : unforked_ok chk b) by (apply (sim_unforked_ok a b HS); now apply Hu).
  pose proof HS as [Ga [Gb [HV [Hm HF]]]].
  pose proof (Good_set V g fx chk wf fx_or_chk a i o Ga (fun _ _ => Hu Hi Es)) as Ga'.
  pose proof (Good_set V g fx chk wf fx_or_chk b i o Gb (fun _ _ => Hub)) as Gb'.
  rewrite !set_state_ok in * by assumption. cbn [fst snd] in *. split; [|reflexivity].
  assert (HV' : same_indep (reset_list (upd (values a) i o) (desc g i)) (reset_list (upd (values b) i o) (desc g i))).
  { intros j Lj. rewrite !reset_out by now apply indep_not_desc.
    destruct (Nat.eq_dec j i) as [->|Hji]; [now rewrite !upd_same | rewrite !upd_other by exact Hji; now apply HV]. }
  split; [exact Ga'|]. split; [exact Gb'|]. split; [exact HV'|]. split; [exact Hm|].
  unfold fork_sim. cbn [fork values]. rewrite <- Hm. destruct (mode a).
  - split; [now rewrite !snap_keys|]. intros j Lj. unfold snapshot. rewrite !override_snapshot. now apply HV.
  - destruct fx; [exact I|].
    apply (fork_sim_values a b (mkState _ (fork a) None) (mkState _ (fork b) None) HF eq_refl eq_refl HV').
Qed.

Lemma sim_put (a b : state V) i ix v acc : sim a b -> (i < n -> settable g i = true -> unforked_ok chk a) ->
  sim (fst (put_state g sm fx a i ix v acc)) (fst (put_state g sm fx b i ix v acc)) /\
  snd (put_state g sm fx a i ix v acc) = snd (put_state g sm fx b i ix v acc).
Proof.
  intros HS Hu.
  assert (Hgen : sim (fst (let '(st', o) := get_state g a i in
                        match o with
                        | Ok old => match put_val sm ix v acc old with Some new => set_state g fx st' i (Some new) | None => (st', Err Crash) end
                        | other => (st', other) end))
                     (fst (let '(st', o) := get_state g b i in
                        match o with
                        | Ok old => match put_val sm ix v acc old with Some new => set_state g fx st' i (Some new) | None => (st', Err Crash) end
                        | other => (st', other) end)) /\
                 snd (let '(st', o) := get_state g a i in
                        match o with
                        | Ok old => match put_val sm ix v acc old with Some new => set_state g fx st' i (Some new) | None => (st', Err Crash) end
                        | other => (st', other) end) =
                 snd (let '(st', o) := get_state g b i in
                        match o with
                        | Ok old => match put_val sm ix v acc old with Some new => set_state g fx st' i (Some new) | None => (st', Err Crash) end
                        | other => (st', other) end)).
  { destruct (sim_get a b i HS) as [HS1 Ho]. destruct (get_state_fork V g a i) as [Hf Hmo].
    destruct (get_state g a i) as [a1 oa]. destruct (get_state g b i) as [b1 ob]. cbn [fst snd] in *. subst ob.
    destruct oa; try (split; [exact HS1 | reflexivity]).
    destruct (put_val sm ix v acc v0); [|split; [exact HS1 | reflexivity]].
    apply sim_set; [exact HS1|]. intros H1 H2 H3 H4. rewrite Hf. apply (Hu H1 H2 H3). now rewrite <- Hmo. }
  unfold put_state. destruct ix; [exact Hgen|]. destruct acc; [exact Hgen|]. now apply sim_set.
Qed.

Lemma sim_revert (a b : state V) : sim a b ->
  sim (fst (revert_state a)) (fst (revert_state b)) /\ snd (revert_state a) = snd (revert_state b).
Proof.
  intros HS. pose proof HS as [Ga [Gb [HV [Hm HF]]]].
  pose proof (Good_revert V g a Ga) as Ga'. pose proof (Good_revert V g b Gb) as Gb'.
  unfold revert_state in *. unfold fork_sim in HF.
  destruct (fork a) as [f1|], (fork b) as [f2|]; try contradiction; [|split; [exact HS | reflexivity]].
  cbn [fst snd] in *. split; [|reflexivity]. destruct HF as [K S].
  split; [exact Ga'|]. split; [exact Gb'|]. split; [exact S|]. split; [exact Hm | exact I].
Qed.

Lemma fork_keys_nodup (st : state V) fk : Good st -> fork st = Some fk -> NoDup (map fst fk).
Proof.
  intros [_ [_ HF]] E. unfold ForkOK in HF. rewrite E in HF. destruct HF as [i [Hi [_ [Hk _]]]].
  rewrite Hk. apply increasing_NoDup. now apply (wf_desc_inc wf).
Qed.

Lemma revert_mask_state_ok (st : state V) (m : M) fk : Good st -> fork st = Some fk -> mask_ok g sm m st ->
  snd (revert_mask_state sm st m) = Done /\
  fork (fst (revert_mask_state sm st m)) = None /\ mode (fst (revert_mask_state sm st m)) = mode st /\
  forall j, values (fst (revert_mask_state sm st m)) j = revert_mask sm m (values st) fk j.
Proof.
  intros HG E Hmk. unfold mask_ok in Hmk. rewrite E in Hmk.
  destruct (revert_items_spec V M IX sm m fk (values st)) as [Hok Hpt].
  { now apply (fork_keys_nodup st). }
  { intros c o cur Hin Hc. exact (proj2 (Hmk c o cur Hin Hc)). }
  unfold revert_mask_state. rewrite E. destruct (revert_items sm m (values st) fk) as [vs' ok]. cbn [fst snd] in *. subst ok.
  cbn. repeat split; auto.
Qed.

Lemma sim_revert_mask (a b : state V) (m : M) : F_mix g sm -> sim a b -> mask_ok g sm m a -> mask_ok g sm m b ->
  sim (fst (revert_mask_state sm a m)) (fst (revert_mask_state sm b m)) /\
  snd (revert_mask_state sm a m) = snd (revert_mask_state sm b m).
Proof.
  intros HFm HS Hma Hmb. pose proof HS as [Ga [Gb [HV [Hm HF]]]].
  pose proof (Good_revert_mask V M IX g sm wf a m HFm Ga Hma) as Ga'.
  pose proof (Good_revert_mask V M IX g sm wf b m HFm Gb Hmb) as Gb'.
  unfold fork_sim in HF. destruct (fork a) as [f1|] eqn:Ea, (fork b) as [f2|] eqn:Eb; try contradiction.
  2:{ unfold revert_mask_state. rewrite Ea, Eb. split; [exact HS | reflexivity]. }
  destruct (revert_mask_state_ok a m f1 Ga Ea Hma) as [Oa [Fa [Ma Pa]]].
  destruct (revert_mask_state_ok b m f2 Gb Eb Hmb) as [Ob [Fb [Mb Pb]]].
  split; [|congruence]. destruct HF as [K S].
  split; [exact Ga'|]. split; [exact Gb'|]. split.
  - intros j Lj. rewrite Pa, Pb. unfold revert_mask. specialize (S j Lj). unfold override in S.
    destruct (assoc j f1) as [x|] eqn:E1, (assoc j f2) as [y|] eqn:E2.
    + subst y. now rewrite (HV j Lj).
    + exfalso. apply (assoc_same_keys f1 f2 j K) in E2. congruence.
    + exfalso. apply (assoc_same_keys f1 f2 j K) in E1. congruence.
    + now apply HV.
  - split; [congruence|]. unfold fork_sim. now rewrite Fa, Fb.
Qed.

Lemma sim_clone (a b : state V) d kp : sim a b -> sim (clone_state a d kp) (clone_state b d kp).
Proof.
  intros [Ga [Gb [HV [Hm HF]]]]. split; [now apply Good_clone|]. split; [now apply Good_clone|].
  split; [exact HV|]. split; [cbn; now rewrite Hm|]. unfold fork_sim, clone_state. cbn. destruct kp; [exact HF | exact I].
Qed.

Lemma sim_setmode (a b : state V) md : sim a b -> sim (mkState (values a) (fork a) md) (mkState (values b) (fork b) md).
Proof. intros [Ga [Gb [HV [Hm HF]]]]. split; [exact Ga|]. split; [exact Gb|]. split; [exact HV|]. split; [reflexivity | exact HF]. Qed.

Lemma sim_clear (a b : state V) : sim a b -> sim (clear_state g a) (clear_state g b).
Proof.
  intros [_ [_ [_ [Hm _]]]]. unfold clear_state. rewrite <- Hm.
  destruct (Good_init V g wf (mode a)) as [H1 [H2 _]].
  assert (HG : Good (mkState (init_vals g) None (mode a))) by (split; [exact H1 | split; [exact H2 | exact I]]).
  now apply sim_refl.
Qed.

(** a successful walk has cached every node of its list *)
Lemma walk_all_cached l : forall vs : vals, before_ok V g vs l -> snd (walk g vs l) = None ->
  forall a, In a l -> fst (walk g vs l) a <> None.
Proof.
  induction l as [|a r IH]; intros vs0 HB Hs b Hb; [inversion Hb|]. cbn in *.
  destruct (vs0 a) eqn:Ea.
  - destruct Hb as [<-|Hb].
    + destruct (walk_extends V g r vs0) as [Hk _]. rewrite (Hk a v Ea). discriminate.
    + apply IH; auto. eapply before_ok_tail; [exact HB | auto | congruence].
  - destruct (compute g vs0 a) eqn:Ec; cbn in Hs; try discriminate.
    destruct Hb as [<-|Hb].
    + destruct (walk_extends V g r (upd vs0 a (Some v))) as [Hk _]. rewrite (Hk a v); [discriminate | apply upd_same].
    + apply IH; auto. eapply before_ok_tail; [exact HB | | now rewrite upd_same].
      intros j Hj. destruct (Nat.eq_dec j a) as [->|Hja]; [now rewrite upd_same | now rewrite upd_other].
Qed.

Lemma precompute_ok_transfer (va vb : vals) : Inv g va -> Bounded g va -> same_indep va vb ->
  snd (walk g va (seq 0 n)) = None -> snd (walk g vb (seq 0 n)) = None.
Proof.
  intros HI HB HS Hok.
  assert (Hl : forall a, In a (seq 0 n) -> a < n) by (intros a Ha; apply in_seq in Ha; lia).
  pose proof (walk_all_cached _ va (before_ok_seq V g wf va n (le_n _)) Hok) as Hall.
  pose proof (Inv_walk V g wf (seq 0 n) va Hl HI) as HI'.
  pose proof (walk_extends V g (seq 0 n) va) as HE.
  apply (walk_complete V g wf vb (seq 0 n) vb); [intros j _; reflexivity | exact Hl | | apply (before_ok_seq V g wf); lia].
  intros a Ha. rewrite <- (scratch_ext V g wf va vb HS).
  rewrite (scratch_ext V g wf va (fst (walk g va (seq 0 n)))).
  - destruct (fst (walk g va (seq 0 n)) a) as [v|] eqn:E; [|exfalso; exact (Hall a Ha E)].
    rewrite (cached_is_scratch V g wf _ HI' a v (Hl a Ha) E). discriminate.
  - intros j Lj. symmetry. exact (extends_indep V g _ _ _ HE j Lj).
Qed.

Lemma sim_precompute (a b : state V) : sim a b ->
  sim (fst (precompute_state g a)) (fst (precompute_state g b)) /\
  snd (precompute_state g a) = snd (precompute_state g b).
Proof.
  intros HS. pose proof HS as [Ga [Gb [HV [Hm HF]]]].
  pose proof (Good_precompute V g wf a Ga) as Ga'. pose proof (Good_precompute V g wf b Gb) as Gb'.
  pose proof (walk_extends V g (seq 0 n) (values a)) as Ea. pose proof (walk_extends V g (seq 0 n) (values b)) as Eb.
  pose proof (walk_no_crash V g (seq 0 n) (values a) (before_ok_seq V g wf (values a) n (le_n _))) as Na.
  pose proof (walk_no_crash V g (seq 0 n) (values b) (before_ok_seq V g wf (values b) n (le_n _))) as Nb.
  destruct Ga as [Ia [Ba _]]. destruct Gb as [Ib [Bb _]].
  pose proof (precompute_ok_transfer (values a) (values b) Ia Ba HV) as Tab.
  pose proof (precompute_ok_transfer (values b) (values a) Ib Bb (fun j Lj => eq_sym (HV j Lj))) as Tba.
  unfold precompute_state in *.
  destruct (walk g (values a) (seq 0 n)) as [va' ea]. destruct (walk g (values b) (seq 0 n)) as [vb' eb]. cbn [fst snd] in *.
  split.
  - apply (sim_cache_only a b); auto.
    + intros j Lj. exact (extends_indep V g _ _ _ Ea j Lj).
    + intros j Lj. exact (extends_indep V g _ _ _ Eb j Lj).
  - destruct ea as [[]|], eb as [[]|]; try reflexivity; try congruence.
    + specialize (Tba eq_refl). discriminate.
    + specialize (Tab eq_refl). discriminate.
Qed.

(** ** stores *)

Notation sim_store := (sim_store g).

Lemma sim_store_nth (s1 s2 : store V) k : sim_store s1 s2 ->
  match nth_error s1 k, nth_error s2 k with
  | Some a, Some b => sim a b
  | None, None => True
  | _, _ => False
  end.
Proof. intros H. revert k. induction H as [|a b r s Hab Hrs IH]; intros [|k]; cbn; auto. apply IH. Qed.

Lemma sim_store_set_nth (s1 s2 : store V) k a b : sim_store s1 s2 -> sim a b -> sim_store (set_nth s1 k a) (set_nth s2 k b).
Proof.
  intros H Hab. revert k. induction H as [|a0 b0 r s H0 Hrs IH]; intros k; [destruct k; constructor|].
  destruct k; cbn; constructor; auto.
Qed.

Lemma sim_store_app (s1 s2 t1 t2 : store V) : sim_store s1 s2 -> sim_store t1 t2 -> sim_store (s1 ++ t1) (s2 ++ t2).
Proof. intros H Ht. induction H; cbn; [exact Ht | constructor; auto]. Qed.

Lemma sim_on_state (s1 s2 : store V) k (f : state V -> state V * out V) : sim_store s1 s2 ->
  (forall a b, nth_error s1 k = Some a -> nth_error s2 k = Some b -> sim a b ->
               sim (fst (f a)) (fst (f b)) /\ snd (f a) = snd (f b)) ->
  sim_store (fst (on_state s1 k f)) (fst (on_state s2 k f)) /\ snd (on_state s1 k f) = snd (on_state s2 k f).
Proof.
  intros HS Hf. pose proof (sim_store_nth s1 s2 k HS) as Hk. unfold on_state.
  destruct (nth_error s1 k) as [a|] eqn:Ea, (nth_error s2 k) as [b|] eqn:Eb; try contradiction; [|now split].
  destruct (Hf a b eq_refl eq_refl Hk) as [H1 H2]. destruct (f a) as [a' oa], (f b) as [b' ob]. cbn [fst snd] in *.
  split; [now apply sim_store_set_nth | exact H2].
Qed.

Theorem sim_step (s1 s2 : store V) (o : op V M IX) : F_mix g sm -> sim_store s1 s2 ->
  op_ok g sm chk s1 o -> op_ok g sm chk s2 o ->
  sim_store (fst (step g sm fx s1 o)) (fst (step g sm fx s2 o)) /\
  (cache_blind g o = true -> snd (step g sm fx s1 o) = snd (step g sm fx s2 o)).
Proof.
  intros HFm HS Ok1 Ok2.
  assert (Weak : forall (P : Prop) (A B : Prop), A /\ B -> A /\ (P -> B)) by tauto.
  destruct o; cbn [step].
  - apply Weak. apply sim_on_state; [exact HS|]. intros a b _ _ Hab. now apply sim_get.
  - pose proof (sim_store_nth s1 s2 k HS) as Hk. unfold on_state.
    destruct (nth_error s1 k) as [a|] eqn:Ea, (nth_error s2 k) as [b|] eqn:Eb; try contradiction; [|now split].
    unfold isset_state. cbn [fst snd]. split; [now apply sim_store_set_nth|]. intros Hb. cbn [cache_blind] in Hb. apply negb_true_iff in Hb.
    destruct (i <? n); [|reflexivity]. destruct Hk as [_ [_ [HV _]]]. now rewrite (HV i Hb).
  - apply Weak. apply sim_on_state; [exact HS|]. intros a b Ea _ Hab. cbn in Ok1. rewrite Ea in Ok1. now apply sim_set.
  - apply Weak. apply sim_on_state; [exact HS|]. intros a b Ea _ Hab. cbn in Ok1. rewrite Ea in Ok1. now apply sim_put.
  - apply Weak. apply sim_on_state; [exact HS|]. intros a b _ _ Hab. now apply sim_revert.
  - apply Weak. apply sim_on_state; [exact HS|]. intros a b Ea Eb Hab. cbn in Ok1, Ok2. rewrite Ea in Ok1. rewrite Eb in Ok2.
    now apply sim_revert_mask.
  - pose proof (sim_store_nth s1 s2 k HS) as Hk.
    destruct (nth_error s1 k) as [a|] eqn:Ea, (nth_error s2 k) as [b|] eqn:Eb; try contradiction; [|now split].
    cbn [fst snd]. split; [|reflexivity]. apply sim_store_app; [exact HS|]. constructor; [now apply sim_clone | constructor].
  - apply Weak. apply sim_on_state; [exact HS|]. intros a b _ _ Hab. cbn. split; [now apply sim_setmode | reflexivity].
  - apply Weak. apply sim_on_state; [exact HS|]. intros a b _ _ Hab. now apply sim_precompute.
  - apply Weak. apply sim_on_state; [exact HS|]. intros a b _ _ Hab. cbn. split; [now apply sim_clear | reflexivity].
Qed.

Theorem sim_run ops : F_mix g sm -> forall s1 s2 : store V, sim_store s1 s2 ->
  Disciplined g sm fx chk s1 ops -> Disciplined g sm fx chk s2 ops ->
  sim_store (fst (run g sm fx s1 ops)) (fst (run g sm fx s2 ops)) /\
  outs_agree g ops (snd (run g sm fx s1 ops)) (snd (run g sm fx s2 ops)).
Proof.
  intros HFm. induction ops as [|o r IH]; intros s1 s2 HS D1 D2; [cbn; now split|].
  rewrite !(run_cons V M IX). cbn [fst snd]. destruct D1 as [O1 D1], D2 as [O2 D2].
  destruct (sim_step s1 s2 o HFm HS O1 O2) as [HS' Ho].
  destruct (IH _ _ HS' D1 D2) as [HS'' Hos]. split; [exact HS''|]. cbn. split; [exact Ho | exact Hos].
Qed.

(** when every operation is cache blind the result lists are equal *)
Lemma outs_agree_eq (ops : list (op V M IX)) : forall x y, forallb (cache_blind g) ops = true -> outs_agree g ops x y -> x = y.
Proof.
  induction ops as [|o r IH]; intros x y Hb H; destruct x, y; cbn in H; try contradiction; [reflexivity|].
  cbn in Hb. apply andb_prop in Hb. destruct Hb as [Hb1 Hb2]. destruct H as [H1 H2].
  rewrite (H1 Hb1), (IH _ _ Hb2 H2). reflexivity.
Qed.

(** ** "as if never proposed" at the level of one state *)

Theorem full_revert_sim (st : state V) i o reads :
  Good st -> mode st <> None -> i < n -> settable g i = true ->
  sim (fst (revert_state (gets g (fst (set_state g fx st i o)) reads))) (forget_fork st).
Proof.
  intros HG Hm Hi Hs. destruct (full_revert st i o reads HG Hm Hi Hs) as [_ [_ [_ [HI [HF [HM [HG3 _]]]]]]].
  split; [exact HG3|]. split; [now apply Good_forget|]. split; [exact HI|]. split; [exact HM|].
  unfold fork_sim. now rewrite HF.
Qed.

(** after a per-individual rejection the state is the one obtained by assigning the mixed value directly *)
Theorem partial_revert_sim (st : state V) i o reads (m : M) :
  F_mix g sm -> Good st -> mode st <> None -> i < n -> settable g i = true -> ind_axis g i = true ->
  (forall r, In r reads -> axis_read_ok g i r) ->
  let st2 := gets g (fst (set_state g fx st i o)) reads in
  shapes_ok g sm m i (values st) (values st2) ->
  let st3 := fst (revert_mask_state sm st2 m) in
  sim st3 (forget_fork (fst (set_state g fx st i (values st3 i)))).
Proof.
  intros HFm HG Hm Hi Hs Hax Hr st2 Hsh st3.
  destruct (partial_revert st i o reads m HFm HG Hm Hi Hs Hax Hr Hsh) as [_ [_ [Vout [_ [_ [HG3 [HF HM]]]]]]].
  fold st2 in Vout, HG3, HF, HM. fold st3 in Vout, HG3, HF, HM.
  assert (HGs : Good (fst (set_state g fx st i (values st3 i)))).
  { apply (Good_set V g fx chk wf fx_or_chk); [exact HG | intros _ _; now apply forked_unforked_ok]. }
  split; [exact HG3|]. split; [now apply Good_forget|]. split.
  - intros j Lj. cbn [forget_fork values]. destruct (Nat.eq_dec j i) as [->|Hji]; [now rewrite set_values_self|].
    assert (Hj : ~ In j (i :: desc g i)) by (intros [H|H]; [congruence | exact (indep_not_desc i j Hi Lj H)]).
    rewrite Vout by exact Hj. rewrite set_values_out by assumption.
    unfold st2. rewrite gets_indep; [now apply set_values_out | | exact Lj].
    apply (Good_set V g fx chk wf fx_or_chk); [exact HG | intros _ _; now apply forked_unforked_ok].
  - split; [|unfold fork_sim; now rewrite HF].
    rewrite HM. cbn. rewrite set_state_ok by assumption. reflexivity.
Qed.

(** ** the same, phrased on operation histories (a store holding one state) *)

Lemma run_app (s : store V) a b : fst (run g sm fx s (a ++ b)) = fst (run g sm fx (fst (run g sm fx s a)) b).
Proof. revert s. induction a as [|o r IH]; intros s; [reflexivity|]. cbn [app]. rewrite !(run_cons V M IX). cbn [fst]. apply IH. Qed.

Lemma run_gets_single reads : forall st : state V, fst (run g sm fx [st] (map (Get 0) reads)) = [gets g st reads].
Proof.
  induction reads as [|r rs IH]; intros st; [reflexivity|].
  cbn [map]. rewrite (run_cons V M IX). cbn [fst]. rewrite gets_cons.
  replace (fst (step g sm fx [st] (Get 0 r))) with [fst (get_state g st r)]; [apply IH|].
  cbn. now destruct (get_state g st r).
Qed.

Theorem full_revert_history (st : state V) i o reads later :
  F_mix g sm -> Good st -> mode st <> None -> i < n -> settable g i = true ->
  let s1 := fst (run g sm fx [st] (Set_ 0 i o :: map (Get 0) reads ++ [Revert 0])) in
  Disciplined g sm fx chk s1 later -> Disciplined g sm fx chk [forget_fork st] later ->
  outs_agree g later (snd (run g sm fx s1 later)) (snd (run g sm fx [forget_fork st] later)).
Proof.
  intros HFm HG Hm Hi Hs s1 D1 D2.
  assert (E : s1 = [fst (revert_state (gets g (fst (set_state g fx st i o)) reads))]).
  { unfold s1. rewrite (run_cons V M IX). cbn [fst].
    replace (fst (step g sm fx [st] (Set_ 0 i o))) with [fst (set_state g fx st i o)] by (cbn; now destruct (set_state g fx st i o)).
    rewrite run_app, run_gets_single. cbn. now destruct (revert_state (gets g (fst (set_state g fx st i o)) reads)). }
  rewrite E in *. apply sim_run; auto. constructor; [|constructor]. now apply full_revert_sim.
Qed.

End Proofs.
