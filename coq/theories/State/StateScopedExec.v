(** Executable comparison of a history with scoped blocks (StateScoped.v) with what the implementation did —
    definitions only.  The harness runs the history on real [State] objects, every block through the real context
    manager [with state.auto_fork(...)], and records one entry per primitive event, in execution order:
      the result of each executed operation (and whether the operation respected the precondition, evaluated on the
      real state), what [auto_fork_type] / [_last_fork] were at each [SLook], just inside each block and just after it.
    [check_scase_with] runs the model on the same history inside Coq and compares trace and record entry by entry
    (a different number of entries — an operation executed on one side and skipped on the other — is a disagreement). *)
From Coq Require Import List Arith Bool ZArith.
From Leaspy Require Import State.StateModel State.StateExec State.StateScoped.
Import ListNotations.

Definition xsop := sop xval (list bool) nat.
Definition xsblock := sblock xval (list bool) nat.
Definition xevent := event xval (list bool) nat.

Inductive xobs :=
| XOut (r : out xval)
| XSeen (k : nat) (m : option fork_type) (fk : option (list (nat * option xval)))
| XBad (k : nat).

Definition mode_eqb (a b : option fork_type) : bool :=
  match a, b with
  | None, None | Some REF, Some REF | Some COPY, Some COPY => true
  | _, _ => false
  end.

Definition oxval_eqb (a b : option xval) : bool :=
  match a, b with None, None => true | Some x, Some y => xval_eqb x y | _, _ => false end.

Fixpoint forkd_eqb (a b : list (nat * option xval)) : bool :=
  match a, b with
  | [], [] => true
  | (i, x) :: r, (j, y) :: r' => Nat.eqb i j && oxval_eqb x y && forkd_eqb r r'
  | _, _ => false
  end.

Definition ofork_eqb (a b : option (list (nat * option xval))) : bool :=
  match a, b with None, None => true | Some x, Some y => forkd_eqb x y | _, _ => false end.

Definition obs_matches (o : obs xval (list bool) nat) (x : xobs) : bool :=
  match o, x with
  | OOut _ r, XOut r' => out_eqb r r'
  | OSeen k m f, XSeen k' m' f' => Nat.eqb k k' && mode_eqb m m' && ofork_eqb f f'
  | OBad k, XBad k' => Nat.eqb k k'
  | _, _ => false
  end.

(** the precondition of an executed event, decided on the model's own store *)
Definition ev_ok_b (g : graph xval) (sm : sem xval (list bool) nat) (chk : bool) (e : xevent) : bool :=
  match snd e with EOp o => op_ok_b g sm chk (fst e) o | _ => true end.

Fixpoint tagree (g : graph xval) (sm : sem xval (list bool) nat) (fx : bool) (t : list xevent) (expected : list (xobs * bool)) : bool :=
  match t, expected with
  | [], [] => true
  | e :: r, (x, ok) :: r' =>
      obs_matches (obs_of g sm fx e) x && Bool.eqb (ev_ok_b g sm (negb fx) e) ok && tagree g sm fx r r'
  | _, _ => false
  end.

Definition check_scase_with (sm : sem xval (list bool) nat) (fx : bool)
                            (c : list nspec * list xsop * list (xobs * bool)) : bool :=
  let g := mk_graph (fst (fst c)) in
  wf_b g && tagree g sm fx (snd (srun g sm fx (init_store g) (snd (fst c)))) (snd c).

(** the whole precondition of a history, decided *)
Definition sdisciplined_b (g : graph xval) (sm : sem xval (list bool) nat) (fx chk : bool) (s : store xval) (h : list xsop) : bool :=
  forallb (ev_ok_b g sm chk) (snd (srun g sm fx s h)).

(** block literals *)
Fixpoint blk (l : list xsop) : xsblock := match l with [] => SNil | x :: r => SCons x (blk r) end.
