(** C02 — executable side (toy vocabulary of State/StateExec.v): row-wise selection, finiteness, the witness of
    finding F2 and the checkers evaluated by the harness inside Coq.  Definitions only. *)
From Coq Require Import List Arith Bool ZArith.
From Leaspy Require Import State.StateModel State.StateExec.
Import ListNotations.

(** rejected rows ([true] in the mask handed to [revert]) take the old row, accepted rows the new one *)
Fixpoint sel_rows (m : list bool) (o c : list atom) : list atom :=
  match m, o, c with
  | b :: m', x :: o', y :: c' => (if b then x else y) :: sel_rows m' o' c'
  | _, _, _ => []
  end.

Definition all_fin (l : list atom) : bool := forallb afinite l.

Definition fin_val (v : xval) : bool :=
  match v with XS a => afinite a | XP l => all_fin l | XBad => false end.

Definition xmap1 (f : atom -> atom) (a : xval) : xval :=
  match a with XS x => XS (f x) | XP l => XP (map f l) | XBad => XBad end.

(** node functions of one argument acting entry by entry *)
Definition unary_fun (f : nfun) : option (atom -> atom) :=
  match f with
  | NAffine c0 [c] => Some (fun x => aadd (AFin c0) (amul (AFin c) x))
  | NLog2 => Some alog2
  | _ => None
  end.

(** every derived node carrying the individual axis has one parent and an entry-wise function *)
Definition unary_axis_b (l : list nspec) : bool :=
  forallb (fun s => negb (s_linked s && s_axis s) ||
                    (match s_parents s with [_] => true | _ => false end) && is_some (unary_fun (s_fun s))) l.

(** ** finding F2:  y = log2 x  (x per individual) *)
Definition f2_nodes : list nspec :=
  [ mkN false true None true [] [] [1] NLog2;
    mkN true false None true [0] [0] [] NLog2 ].

(** x = [1, 2]; read y; propose x + [-2, 2] = [-1, 4]; read y = [NaN, 2]; reject individual 0 *)
Definition f2_ops : list xop :=
  [ SetMode 0 (Some REF); Set_ 0 0 (Some (XP [AFin 1; AFin 2])); Get 0 1;
    Put 0 0 None (XP [AFin (-2); AFin 2]) true; Get 0 1; RevertMask 0 [true; false] ]%Z.

(** the same with a proposal that evaluates to -inf (x = 0) and with an aggregating descendant that is not read:
    z = 3 + 2*sum(y) *)
Definition f2b_nodes : list nspec :=
  [ mkN false true None true [] [] [1; 2] NLog2;
    mkN true false None true [0] [0] [2] NLog2;
    mkN true false None false [1] [0; 1] [] (NSum 3 [2])%Z ].

Definition f2b_ops : list xop :=
  [ SetMode 0 (Some REF); Set_ 0 0 (Some (XP [AFin 4; AFin 2; AFin 1])); Get 0 2;
    Put 0 0 None (XP [AFin (-4); AFin 6; AFin 0]) true; Get 0 1; RevertMask 0 [true; false; true] ]%Z.

(** ** checkers used by the correspondence (evaluated with vm_compute on the histories the real State ran) *)

(** the history agrees, result by result, with the model built on the given mix *)
Definition check_case_sem (sm : sem xval (list bool) nat) (fx : bool) (c : list nspec * list (xop * out xval * bool)) : bool :=
  let g := mk_graph (fst c) in
  wf_b g && agree g sm fx (init_store g) (snd c).

Definition check_code := check_case_sem xsem false.          (* old*mask + cur*~mask : the code as it is *)
Definition check_where := check_case_sem xsem_where false.   (* torch.where : the proposed repair *)

(** the model's own "as if never proposed" check on one recorded history: the reads listed in [probe], made after
    [ops], equal the reads made after the reference history [ref] (where only the accepted part was assigned) *)
Definition reads_after (g : graph xval) (sm : sem xval (list bool) nat) (ops : list xop) (probe : list nat) : list (out xval) :=
  let s := fst (run g sm false (init_store g) ops) in
  map (fun i => snd (step g sm false s (Get 0 i))) probe.

Fixpoint outs_eqb (a b : list (out xval)) : bool :=
  match a, b with
  | [], [] => true
  | x :: a', y :: b' => out_eqb x y && outs_eqb a' b'
  | _, _ => false
  end.

Definition check_as_if (sm : sem xval (list bool) nat) (c : list nspec * list xop * list xop * list nat) : bool :=
  match c with (nodes, ops, ref, probe) =>
    let g := mk_graph nodes in
    wf_b g && outs_eqb (reads_after g sm ops probe) (reads_after g sm ref probe)
  end.
