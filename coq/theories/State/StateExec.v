(** Executable instance of the [State] model, used by the correspondence with the implementation
    (the same operation sequences are run on the real [State] and, inside Coq, on [step]).
    Definitions only.

    Values: scalars and per-individual vectors of extended integers (finite | +inf | -inf | NaN with the
    IEEE rules for 0*inf and inf-inf, no rounding).  Node functions: the toy vocabulary the harness
    builds as real [LinkedVariable]s: integer affine maps (row-wise, scalars broadcast), sums over
    individuals, and log2.  Nothing is totalised silently: a shape the implementation refuses is [XBad],
    a finite value outside the exact vocabulary is [AOff]; neither is ever equal to an observed value. *)
From Coq Require Import List Arith Bool ZArith Lia.
From Leaspy Require Import State.StateModel.
Import ListNotations.

Inductive atom := AFin (z : Z) | APInf | ANInf | ANaN | AOff.

Definition aadd (a b : atom) : atom :=
  match a, b with
  | AOff, _ | _, AOff => AOff
  | ANaN, _ | _, ANaN => ANaN
  | AFin x, AFin y => AFin (x + y)
  | APInf, ANInf | ANInf, APInf => ANaN
  | APInf, _ | _, APInf => APInf
  | ANInf, _ | _, ANInf => ANInf
  end.

Definition asign (z : Z) (pos neg : atom) : atom :=
  if (z =? 0)%Z then ANaN else if (0 <? z)%Z then pos else neg.

Definition amul (a b : atom) : atom :=
  match a, b with
  | AOff, _ | _, AOff => AOff
  | ANaN, _ | _, ANaN => ANaN
  | AFin x, AFin y => AFin (x * y)
  | AFin x, APInf | APInf, AFin x => asign x APInf ANInf
  | AFin x, ANInf | ANInf, AFin x => asign x ANInf APInf
  | APInf, APInf | ANInf, ANInf => APInf
  | APInf, ANInf | ANInf, APInf => ANInf
  end.

(** multiplication by a boolean mask entry, [x * True] / [x * False] *)
Definition amulb (a : atom) (b : bool) : atom := amul a (AFin (if b then 1 else 0)).

Definition alog2 (a : atom) : atom :=
  match a with
  | AFin z => if (z <? 0)%Z then ANaN
              else if (z =? 0)%Z then ANInf
              else if (2 ^ Z.log2 z =? z)%Z then AFin (Z.log2 z) else AOff
  | APInf => APInf
  | ANInf => ANaN
  | ANaN => ANaN
  | AOff => AOff
  end.

Definition atom_eqb (a b : atom) : bool :=
  match a, b with
  | AFin x, AFin y => (x =? y)%Z
  | APInf, APInf | ANInf, ANInf | ANaN, ANaN => true
  | _, _ => false
  end.

Definition afinite (a : atom) : bool := match a with AFin _ => true | _ => false end.

(** a 0-d tensor, a 1-d tensor over the individuals, or "torch raised a shape error" *)
Inductive xval := XS (a : atom) | XP (l : list atom) | XBad.

Fixpoint map2 {A B C} (f : A -> B -> C) (l1 : list A) (l2 : list B) : list C :=
  match l1, l2 with
  | a :: r1, b :: r2 => f a b :: map2 f r1 r2
  | _, _ => []
  end.

Definition xmap2 (f : atom -> atom -> atom) (a b : xval) : xval :=
  match a, b with
  | XS x, XS y => XS (f x y)
  | XS x, XP l => XP (map (f x) l)
  | XP l, XS y => XP (map (fun x => f x y) l)
  | XP l1, XP l2 => if length l1 =? length l2 then XP (map2 f l1 l2) else XBad
  | _, _ => XBad
  end.

Definition xadd := xmap2 aadd.
Definition xscale (c : Z) (a : xval) : xval :=
  match a with XS x => XS (amul (AFin c) x) | XP l => XP (map (amul (AFin c)) l) | XBad => XBad end.

Definition xsum (a : xval) : xval :=
  match a with XS x => XS x | XP l => XS (fold_left aadd l (AFin 0)) | XBad => XBad end.

Definition xlog2 (a : xval) : xval :=
  match a with XS x => XS (alog2 x) | XP l => XP (map alog2 l) | XBad => XBad end.

Definition is_bad (a : xval) : bool := match a with XBad => true | _ => false end.

(** [x * mask] with the 1-d boolean mask over individuals (a 0-d value broadcasts) *)
Definition xmask (a : xval) (m : list bool) : xval :=
  match a with
  | XS x => XP (map (amulb x) m)
  | XP l => if length l =? length m then XP (map2 amulb l m) else XBad
  | XBad => XBad
  end.

(** [assert old_v.shape == cur_v.shape] (state.py:563) *)
Definition same_shape (a b : xval) : bool :=
  match a, b with
  | XS _, XS _ => true
  | XP l1, XP l2 => length l1 =? length l2
  | _, _ => false
  end.

Definition not_bad (a : xval) : option xval := if is_bad a then None else Some a.

(** [old * to_revert + cur * ~to_revert]  (state.py:568-570); None = AssertionError / broadcast error *)
Definition xmix (m : list bool) (old cur : xval) : option xval :=
  if same_shape old cur then not_bad (xadd (xmask old m) (xmask cur (map negb m))) else None.

(** the planned repair: [torch.where(to_revert, old, cur)] (same assertion, same broadcasting) *)
Definition xwhere (m : list bool) (old cur : xval) : option xval :=
  let pick o c := map2 (fun (b : bool) (oc : atom * atom) => if b then fst oc else snd oc) m (combine o c) in
  match old, cur with
  | XS o, XS c => Some (XP (map (fun b : bool => if b then o else c) m))
  | XP o, XP c => if (length o =? length m) && (length c =? length m) then Some (XP (pick o c)) else None
  | _, _ => None
  end.

Fixpoint list_upd {A} (l : list A) (j : nat) (f : A -> A) : option (list A) :=
  match l, j with
  | [], _ => None
  | a :: r, 0 => Some (f a :: r)
  | a :: r, S j' => match list_upd r j' f with Some r' => Some (a :: r') | None => None end
  end.

(** [old + v] (indices = ()) and [old.index_put((tensor(j),), v, accumulate)] with a 0-d [v] *)
Definition xput (ix : option nat) (v : xval) (acc : bool) (old : xval) : option xval :=
  match ix with
  | None => let r := xadd old v in if is_bad r then None else Some r
  | Some j =>
      match old, v with
      | XP l, XS a => match list_upd l j (fun x => if acc then aadd x a else a) with
                      | Some l' => Some (XP l')
                      | None => None                 (* IndexError *)
                      end
      | _, _ => None                                 (* indexing a 0-d tensor / non-scalar value *)
      end
  end.

Definition xsem : sem xval (list bool) nat := mkSem xput xmix.
Definition xsem_where : sem xval (list bool) nat := mkSem xput xwhere.

(** node functions *)
Inductive nfun :=
| NAffine (c0 : Z) (cs : list Z)     (* c0 + sum_j cs_j * arg_j *)
| NSum (c0 : Z) (cs : list Z)        (* c0 + sum_j cs_j * arg_j.sum() *)
| NLog2.                             (* torch.log2(arg_0) *)

Fixpoint lin (acc : xval) (cs : list Z) (args : list xval) (pre : xval -> xval) : xval :=
  match cs, args with
  | c :: cr, a :: ar => lin (xadd acc (xscale c (pre a))) cr ar pre
  | [], [] => acc
  | _, _ => XBad
  end.

Definition eval_nfun (f : nfun) (args : list xval) : xval :=
  match f with
  | NAffine c0 cs => lin (XS (AFin c0)) cs args (fun a => a)
  | NSum c0 cs => lin (XS (AFin c0)) cs args xsum
  | NLog2 => match args with [a] => xlog2 a | _ => XBad end
  end.

(** a node as the harness describes it; [s_anc] / [s_desc] are what the implementation's DAG reports *)
Record nspec := mkN {
  s_linked : bool; s_settable : bool; s_hyper : option xval; s_axis : bool;
  s_parents : list nat; s_anc : list nat; s_desc : list nat; s_fun : nfun }.

Definition nspec0 : nspec := mkN false false None false [] [] [] NLog2.

Definition mk_graph (l : list nspec) : graph xval :=
  mkGraph (length l)
    (fun i => s_linked (nth i l nspec0)) (fun i => s_settable (nth i l nspec0))
    (fun i => s_hyper (nth i l nspec0)) (fun i => s_axis (nth i l nspec0))
    (fun i => s_parents (nth i l nspec0)) (fun i => s_anc (nth i l nspec0)) (fun i => s_desc (nth i l nspec0))
    (fun i args => eval_nfun (s_fun (nth i l nspec0)) args).

(** ** boolean well-formedness of a graph (reflected into [WF] in StateExecProofs.v) *)
Fixpoint increasingb (l : list nat) : bool :=
  match l with
  | [] => true
  | a :: r => (match r with [] => true | b :: _ => a <? b end) && increasingb r
  end.

Definition wf_node (g : graph xval) (k : nat) : bool :=
  let ps := parents g k in
  forallb (fun p => p <? k) ps
  && (linked g k || match ps with [] => true | _ => false end)
  && (negb (settable g k) || negb (linked g k))
  && (match hyper g k with Some _ => negb (linked g k) && negb (settable g k) | None => true end)
  && increasingb (k :: desc g k)
  && forallb (fun c => c <? gn g) (desc g k)
  && forallb (fun c => negb (existsb (fun p => Nat.eqb p k || mem p (desc g k)) (parents g c)) || mem c (desc g k)) (seq 0 (gn g))
  && forallb (fun c => existsb (fun p => Nat.eqb p k || mem p (desc g k)) (parents g c)) (desc g k)
  && increasingb (anc g k ++ [k])
  && forallb (fun p => mem p (anc g k)) ps
  && forallb (fun a => forallb (fun p => mem p (anc g k)) (parents g a)) (anc g k)
  && forallb (fun a => mem a ps || existsb (fun c => mem a (parents g c)) (anc g k)) (anc g k).

Definition wf_b (g : graph xval) : bool := forallb (wf_node g) (seq 0 (gn g)).

(** ** comparison of observed results *)
Fixpoint atoms_eqb (l1 l2 : list atom) : bool :=
  match l1, l2 with
  | [], [] => true
  | a :: r1, b :: r2 => atom_eqb a b && atoms_eqb r1 r2
  | _, _ => false
  end.

Definition xval_eqb (a b : xval) : bool :=
  match a, b with
  | XS x, XS y => atom_eqb x y
  | XP l1, XP l2 => atoms_eqb l1 l2
  | _, _ => false
  end.

Definition err_eqb (a b : err) : bool :=
  match a, b with InputError, InputError | Crash, Crash => true | _, _ => false end.

Definition out_eqb (a b : out xval) : bool :=
  match a, b with
  | Ok x, Ok y => xval_eqb x y
  | OkB x, OkB y => Bool.eqb x y
  | Done, Done => true
  | Err x, Err y => err_eqb x y
  | _, _ => false
  end.

(** ** decidable discipline (the hypothesis of the theorems, computed on the model's own state) *)
Definition mask_ok_b (g : graph xval) (sm : sem xval (list bool) nat) (m : list bool) (st : state xval) : bool :=
  match fork st with
  | None => true
  | Some fk => forallb (fun co => match snd co, values st (fst co) with
                                   | Some o, Some cur => ind_axis g (fst co) && is_some (mix sm m o cur)
                                   | _, _ => true end) fk
  end.

Definition unforked_ok_b (chk : bool) (st : state xval) : bool :=
  negb chk || is_some (mode st) || negb (is_some (fork st)).

Definition op_ok_b (g : graph xval) (sm : sem xval (list bool) nat) (chk : bool) (s : store xval) (o : op xval (list bool) nat) : bool :=
  match o with
  | RevertMask k m => match nth_error s k with Some st => mask_ok_b g sm m st | None => true end
  | Set_ k i _ | Put k i _ _ _ =>
      match nth_error s k with
      | Some st => negb (i <? gn g) || negb (settable g i) || unforked_ok_b chk st
      | None => true
      end
  | _ => true
  end.

(** one observed history: each operation with the implementation's result and the harness's opinion on
    whether the operation respects the discipline; [true] iff the model agrees on everything *)
Definition xop := op xval (list bool) nat.

Fixpoint agree (g : graph xval) (sm : sem xval (list bool) nat) (fx : bool) (s : store xval)
               (h : list (xop * out xval * bool)) : bool :=
  match h with
  | [] => true
  | (o, expected, ok) :: r =>
      let '(s', x) := step g sm fx s o in
      out_eqb x expected && Bool.eqb (op_ok_b g sm (negb fx) s o) ok && agree g sm fx s' r
  end.

Definition check_case (fx : bool) (c : list nspec * list (xop * out xval * bool)) : bool :=
  let g := mk_graph (fst c) in
  wf_b g && agree g xsem fx (init_store g) (snd c).

(** the same with the partial-revert rule as a parameter: [xsem] = [old * mask + cur * ~mask] (state.py before fe0cadd),
    [xsem_where] = [torch.where(mask, old, cur)] (since fe0cadd).  Both agree on finite values of the mask's length; the
    harness recognises on every run which one the tree under test has. *)
Definition check_case_with (sm : sem xval (list bool) nat) (fx : bool) (c : list nspec * list (xop * out xval * bool)) : bool :=
  let g := mk_graph (fst c) in
  wf_b g && agree g sm fx (init_store g) (snd c).
