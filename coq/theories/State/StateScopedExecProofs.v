(** Reflection of the decided precondition of a history with scoped blocks, and concrete histories (non-vacuity):
    an exception that leaves [with state.auto_fork(None)] while a fork is pending, nested blocks left by one exception,
    and what the same operations do when the mode is NOT put back (the plain history without the closing [SetMode]). *)
From Coq Require Import List Arith Bool ZArith Lia.
From Leaspy Require Import State.StateModel State.StateProofs State.StateExec State.StateExecProofs
                           State.StateNow State.StateNowProofs State.StateScoped State.StateScopedProofs State.StateScopedExec.
Import ListNotations.

Lemma ev_ok_b_sound g sm chk (e : xevent) : ev_ok_b g sm chk e = true -> ev_ok (op_ok g sm chk) e.
Proof. destruct e as [s [o| | | |]]; cbn; auto. apply op_ok_b_sound. Qed.

Lemma sdisciplined_b_sound g sm fx chk s h :
  sdisciplined_b g sm fx chk s h = true -> SDisciplinedWith g sm fx (op_ok g sm chk) s h.
Proof.
  unfold sdisciplined_b, SDisciplinedWith. rewrite forallb_forall, Forall_forall. intros H e He. apply ev_ok_b_sound. now apply H.
Qed.

Lemma smask_disciplined_b_sound g sm s h : sdisciplined_b g sm true false s h = true -> SMaskDisciplined g sm s h.
Proof. intros H. apply SMaskDisciplined_iff. now apply sdisciplined_b_sound. Qed.

Definition sobs_of (g : graph xval) (h : list xsop) : list (obs xval (list bool) nat) :=
  map (obs_of g xsem_where true) (snd (srun_now g xsem_where (init_store g) h)).

(** c = a + b.  fork REF; a = 1; b = 10; read c = 11; a = 2 (a fork is pending: {a: 1, c: 11});
      with auto_fork(None):  read c = 12;  c = 5 -> "not intended to be set": the exception leaves the block;  b = 99 is skipped
    (caught by the caller) look: the mode is REF again and the fork of [a = 2] is still pending;
    b = 20 (forked: {b: 10, c: 12}); read c = 22; revert() is accepted; read c = 12 = 2 + 10. *)
Definition sc_ops : list xsop :=
  [ SPlain (SetMode 0 (Some REF)); SPlain (Set_ 0 0 (Some (XS (AFin 1)))); SPlain (Set_ 0 1 (Some (XS (AFin 10))));
    SPlain (Get 0 2); SPlain (Set_ 0 0 (Some (XS (AFin 2))));
    SScoped 0 None (blk [ SPlain (Get 0 2); SPlain (Set_ 0 2 (Some (XS (AFin 5)))); SPlain (Set_ 0 1 (Some (XS (AFin 99)))) ]);
    SLook 0;
    SPlain (Set_ 0 1 (Some (XS (AFin 20)))); SPlain (Get 0 2); SPlain (Revert 0); SPlain (Get 0 2) ].

Example scoped_exception :
  SMaskDisciplined (mk_graph f1_nodes) xsem_where (init_store (mk_graph f1_nodes)) sc_ops /\
  sobs_of (mk_graph f1_nodes) sc_ops =
    [ OOut (SetMode 0 (Some REF)) Done; OOut (Set_ 0 0 (Some (XS (AFin 1)))) Done; OOut (Set_ 0 1 (Some (XS (AFin 10)))) Done;
      OOut (Get 0 2) (Ok (XS (AFin 11))); OOut (Set_ 0 0 (Some (XS (AFin 2)))) Done;
      OSeen 0 None (Some [(0, Some (XS (AFin 1))); (2, Some (XS (AFin 11)))]);            (* inside the block: mode None *)
      OOut (Get 0 2) (Ok (XS (AFin 12))); OOut (Set_ 0 2 (Some (XS (AFin 5)))) (Err InputError);
      OSeen 0 (Some REF) (Some [(0, Some (XS (AFin 1))); (2, Some (XS (AFin 11)))]);      (* after the block *)
      OSeen 0 (Some REF) (Some [(0, Some (XS (AFin 1))); (2, Some (XS (AFin 11)))]);      (* the look *)
      OOut (Set_ 0 1 (Some (XS (AFin 20)))) Done; OOut (Get 0 2) (Ok (XS (AFin 22)));
      OOut (Revert 0) Done; OOut (Get 0 2) (Ok (XS (AFin 12))) ] /\
  read_of (mk_graph f1_nodes) xsem_where true (hflat (mk_graph f1_nodes) xsem_where true (init_store (mk_graph f1_nodes)) sc_ops) 0 2
    = Ok (XS (AFin 12)) /\
  fresh_of (mk_graph f1_nodes) xsem_where true (hflat (mk_graph f1_nodes) xsem_where true (init_store (mk_graph f1_nodes)) sc_ops) 0 2
    = Some (Some (XS (AFin 12))).
Proof. split; [apply smask_disciplined_b_sound; vm_compute; reflexivity|]. vm_compute. repeat split. Qed.

(** its flattening: the block became  SetMode None; the two executed operations; SetMode REF *)
Example scoped_exception_flat :
  hflat (mk_graph f1_nodes) xsem_where true (init_store (mk_graph f1_nodes)) sc_ops =
    [ SetMode 0 (Some REF); Set_ 0 0 (Some (XS (AFin 1))); Set_ 0 1 (Some (XS (AFin 10))); Get 0 2; Set_ 0 0 (Some (XS (AFin 2)));
      SetMode 0 None; Get 0 2; Set_ 0 2 (Some (XS (AFin 5))); SetMode 0 (Some REF);
      Set_ 0 1 (Some (XS (AFin 20))); Get 0 2; Revert 0; Get 0 2 ].
Proof. vm_compute. reflexivity. Qed.

(** what the same operations do when the mode is NOT put back after the exception (the context manager without its
    [finally]): the assignment b = 20 is made un-forked, drops the pending fork, and the revert is refused — the
    proposal b = 20 stays and the caller reads 22 where the scoped history reads 12 *)
Example unrestored_mode_differs :
  let ops := [ SetMode 0 (Some REF); Set_ 0 0 (Some (XS (AFin 1))); Set_ 0 1 (Some (XS (AFin 10))); Get 0 2; Set_ 0 0 (Some (XS (AFin 2)));
               SetMode 0 None; Get 0 2; Set_ 0 2 (Some (XS (AFin 5)));
               Set_ 0 1 (Some (XS (AFin 20))); Get 0 2; Revert 0 ] in
  nth_error (outs_of (mk_graph f1_nodes) ops) 10 = Some (Err InputError) /\
  read_of (mk_graph f1_nodes) xsem_where true ops 0 2 = Ok (XS (AFin 22)).
Proof. vm_compute. split; reflexivity. Qed.

(** nested blocks on two states, left by ONE exception: state 1 is a clone (mode REF);
      with s0.auto_fork(COPY): with s1.auto_fork(None): a := 7 on s1; read of an unknown name on s1 -> raises; (skipped) ; (skipped)
    both modes are back (REF for both), the inner assignment was made un-forked. *)
Definition nested_ops : list xsop :=
  [ SPlain (SetMode 0 (Some REF)); SPlain (Set_ 0 0 (Some (XS (AFin 1)))); SPlain (Set_ 0 1 (Some (XS (AFin 10))));
    SPlain (Clone 0 false true);
    SScoped 0 (Some COPY) (blk [ SScoped 1 None (blk [ SPlain (Set_ 1 0 (Some (XS (AFin 7)))); SPlain (Get 1 9); SPlain (Set_ 1 0 (Some (XS (AFin 8)))) ]);
                                 SPlain (Set_ 0 0 (Some (XS (AFin 3)))) ]);
    SLook 0; SLook 1; SPlain (Get 1 2); SPlain (Get 0 2); SPlain (Revert 1) ].

Example nested_exception :
  SMaskDisciplined (mk_graph f1_nodes) xsem_where (init_store (mk_graph f1_nodes)) nested_ops /\
  sobs_of (mk_graph f1_nodes) nested_ops =
    [ OOut (SetMode 0 (Some REF)) Done; OOut (Set_ 0 0 (Some (XS (AFin 1)))) Done; OOut (Set_ 0 1 (Some (XS (AFin 10)))) Done;
      OOut (Clone 0 false true) Done;
      OSeen 0 (Some COPY) (Some [(1, None); (2, None)]);
      OSeen 1 None (Some [(1, None); (2, None)]);
      OOut (Set_ 1 0 (Some (XS (AFin 7)))) Done; OOut (Get 1 9) (Err InputError);
      OSeen 1 (Some REF) None;                        (* inner block left: REF again, the un-forked assignment dropped the fork *)
      OSeen 0 (Some REF) (Some [(1, None); (2, None)]);   (* outer block left by the same exception *)
      OSeen 0 (Some REF) (Some [(1, None); (2, None)]); OSeen 1 (Some REF) None;
      OOut (Get 1 2) (Ok (XS (AFin 17))); OOut (Get 0 2) (Ok (XS (AFin 11))); OOut (Revert 1) (Err InputError) ].
Proof. split; [apply smask_disciplined_b_sound; vm_compute; reflexivity|]. vm_compute. reflexivity. Qed.

(** the checker of the tie accepts the first history with its observations, and rejects it as soon as one observed
    mode is wrong (the mode a context manager without [finally] leaves behind) *)
Definition sc_expected (after_block : option fork_type) : list (xobs * bool) :=
  [ (XOut Done, true); (XOut Done, true); (XOut Done, true); (XOut (Ok (XS (AFin 11))), true); (XOut Done, true);
    (XSeen 0 None (Some [(0, Some (XS (AFin 1))); (2, Some (XS (AFin 11)))]), true);
    (XOut (Ok (XS (AFin 12))), true); (XOut (Err InputError), true);
    (XSeen 0 after_block (Some [(0, Some (XS (AFin 1))); (2, Some (XS (AFin 11)))]), true);
    (XSeen 0 after_block (Some [(0, Some (XS (AFin 1))); (2, Some (XS (AFin 11)))]), true);
    (XOut Done, true); (XOut (Ok (XS (AFin 22))), true); (XOut Done, true); (XOut (Ok (XS (AFin 12))), true) ].

Example checker_accepts_rejects :
  check_scase_with xsem_where true (f1_nodes, sc_ops, sc_expected (Some REF)) = true /\
  check_scase_with xsem_where true (f1_nodes, sc_ops, sc_expected None) = false.
Proof. vm_compute. split; reflexivity. Qed.

(** the conjunction stated in Props/C01.v *)
Example scoped_examples :
  (SMaskDisciplined (mk_graph f1_nodes) xsem_where (init_store (mk_graph f1_nodes)) sc_ops /\
   nth_error (sobs_of (mk_graph f1_nodes) sc_ops) 7 = Some (OOut (Set_ 0 2 (Some (XS (AFin 5)))) (Err InputError)) /\
   nth_error (sobs_of (mk_graph f1_nodes) sc_ops) 9 = Some (OSeen 0 (Some REF) (Some [(0, Some (XS (AFin 1))); (2, Some (XS (AFin 11)))])) /\
   nth_error (sobs_of (mk_graph f1_nodes) sc_ops) 12 = Some (OOut (Revert 0) Done) /\
   nth_error (sobs_of (mk_graph f1_nodes) sc_ops) 13 = Some (OOut (Get 0 2) (Ok (XS (AFin 12))))) /\
  (nth_error (outs_of (mk_graph f1_nodes) (firstn 8 (hflat (mk_graph f1_nodes) xsem_where true (init_store (mk_graph f1_nodes)) sc_ops)
                                            ++ [Set_ 0 1 (Some (XS (AFin 20))); Get 0 2; Revert 0; Get 0 2])) 10 = Some (Err InputError) /\
   nth_error (outs_of (mk_graph f1_nodes) (firstn 8 (hflat (mk_graph f1_nodes) xsem_where true (init_store (mk_graph f1_nodes)) sc_ops)
                                            ++ [Set_ 0 1 (Some (XS (AFin 20))); Get 0 2; Revert 0; Get 0 2])) 11 = Some (Ok (XS (AFin 22)))) /\
  (SMaskDisciplined (mk_graph f1_nodes) xsem_where (init_store (mk_graph f1_nodes)) nested_ops /\
   nth_error (sobs_of (mk_graph f1_nodes) nested_ops) 8 = Some (OSeen 1 (Some REF) None) /\
   nth_error (sobs_of (mk_graph f1_nodes) nested_ops) 9 = Some (OSeen 0 (Some REF) (Some [(1, None); (2, None)]))) /\
  check_scase_with xsem_where true (f1_nodes, sc_ops, sc_expected (Some REF)) = true /\
  check_scase_with xsem_where true (f1_nodes, sc_ops, sc_expected None) = false.
Proof.
  split; [split; [exact (proj1 scoped_exception) | vm_compute; repeat split]|].
  split; [vm_compute; split; reflexivity|].
  split; [split; [exact (proj1 nested_exception) | vm_compute; split; reflexivity]|]. exact checker_accepts_rejects.
Qed.
