(** The [State] model instantiated at the code as it is — definitions only.

    [StateModel.v] carries a flag [fx] for the two variants of [State.__setitem__] (state.py:417-452):
      [fx = false]  the code before commit 27ac519: an assignment made while [auto_fork_type is None] leaves
                    [_last_fork] alone (finding F1: a later [revert()] writes a stale undo log back);
      [fx = true]   the code since 27ac519: that assignment also forgets the undo log
                    ([else: self._last_fork = None]).
    The harness decides on every run which variant the tree under test contains (source shape of
    [__setitem__] + a probe on a real [State], fail closed); the theorems of Props/C01.v are about the
    definitions below, i.e. about [fx = true], and a tree that behaves like [fx = false] is a violation.

    With [fx = true] the only thing asked of a history is the documented precondition of per-individual
    reverts ([mask_ok]); the extra clause "no un-forked assignment while a fork is pending"
    ([unforked_ok], switched by [chk] in [StateModel.Disciplined]) is gone. *)
From Coq Require Import List Arith Bool.
From Leaspy Require Import State.StateModel.
Import ListNotations.
Set Implicit Arguments.

Section Now.
Variables V M IX : Type.
Variable g : graph V.
Variable sm : sem V M IX.

(** [State.__setitem__], every operation, a whole history — of the code as it is. *)
Definition set_now (st : state V) (i : nat) (o : option V) : state V * out V := set_state g true st i o.
Definition step_now (s : store V) (o : op V M IX) : store V * out V := step g sm true s o.
Definition run_now (s : store V) (ops : list (op V M IX)) : store V * list (out V) := run g sm true s ops.

(** The precondition of a history: a per-individual revert is only applied while every doubly cached node
    of the forked sub-graph carries the individual axis with shapes consistent with the mask (documented
    precondition of [State.revert(subset)]).  Nothing is asked of any other operation. *)
Definition pre_ok (s : store V) (o : op V M IX) : Prop :=
  match o with
  | RevertMask k m => match nth_error s k with Some st => mask_ok g sm m st | None => True end
  | _ => True
  end.

Fixpoint MaskDisciplined (s : store V) (ops : list (op V M IX)) : Prop :=
  match ops with
  | [] => True
  | o :: r => pre_ok s o /\ MaskDisciplined (fst (step_now s o)) r
  end.

(** a history without any per-individual revert *)
Definition no_partial_revert (o : op V M IX) : bool :=
  match o with RevertMask _ _ => false | _ => true end.

End Now.
