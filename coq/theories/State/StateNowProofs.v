(** Proofs about the [State] model at the code as it is ([StateNow.v]): the general theorems of
    [StateProofs.v] instantiated at [fx = true] without the extra discipline clause, what the repaired
    [__setitem__] does to a pending fork, and the concrete histories (non-vacuity, the history of the
    former finding F1). *)
From Coq Require Import List Arith Bool ZArith Lia.
From Leaspy Require Import State.StateModel State.StateProofs State.StateNow State.StateExec State.StateExecProofs.
Import ListNotations.

Section NowProofs.
Variables V M IX : Type.
Variable g : graph V.
Variable sm : sem V M IX.

(** What the instance is, spelled out: [__setitem__] since 27ac519 (the fork is replaced by a snapshot when
    auto-fork is on, and dropped when it is off). *)
Lemma set_now_unfold (st : state V) i o :
  set_now g st i o =
  if negb (i <? gn g) then (st, Err InputError)
  else if negb (settable g i) then (st, Err InputError)
  else (mkState (reset_list (upd (values st) i o) (desc g i))
                (match mode st with
                 | Some _ => Some (map (fun c => (c, values st c)) (i :: desc g i))
                 | None => None
                 end)
                (mode st), Done).
Proof. reflexivity. Qed.

Lemma pre_ok_iff (s : store V) (o : op V M IX) : pre_ok g sm s o <-> op_ok g sm false s o.
Proof.
  destruct o; cbn; try tauto.
  - split; [intros _|auto]. destruct (nth_error s k); [|exact I]. intros _ _ H. discriminate.
  - split; [intros _|auto]. destruct (nth_error s k); [|exact I]. intros _ _ H. discriminate.
Qed.

Lemma MaskDisciplined_iff ops : forall s : store V, MaskDisciplined g sm s ops <-> Disciplined g sm true false s ops.
Proof.
  induction ops as [|o r IH]; intros s; cbn; [tauto|].
  unfold step_now. rewrite (pre_ok_iff s o), (IH (fst (step g sm true s o))). tauto.
Qed.

(** a history without per-individual reverts meets the precondition, whatever it does *)
Lemma MaskDisciplined_no_partial ops : forallb (@no_partial_revert V M IX) ops = true -> forall s : store V, MaskDisciplined g sm s ops.
Proof.
  induction ops as [|o r IH]; intros H s; cbn; [exact I|].
  cbn in H. apply andb_prop in H. destruct H as [Ho Hr]. split; [|now apply IH].
  destruct o; cbn; try exact I. discriminate.
Qed.

(** An assignment made with auto-fork off leaves no fork behind: a following [revert()] — full or partial — is
    refused with the input error "no fork to revert from" and changes nothing. *)
Theorem unforked_set_drops_fork (st : state V) i o :
  i < gn g -> settable g i = true -> mode st = None ->
  let st' := fst (set_now g st i o) in
  fork st' = None /\ revert_state st' = (st', Err InputError) /\
  (forall m, revert_mask_state sm st' m = (st', Err InputError)).
Proof.
  intros Hi Hs Hm. rewrite set_now_unfold. apply Nat.ltb_lt in Hi. rewrite Hi, Hs, Hm. cbn.
  split; [reflexivity|]. split; [reflexivity|]. intros m. reflexivity.
Qed.

Hypothesis wf : WF g.

Theorem read_after_history_now ops : F_mix g sm -> MaskDisciplined g sm (init_store g) ops ->
  forall k i st, nth_error (fst (run_now g sm (init_store g) ops)) k = Some st ->
  snd (step_now g sm (fst (run_now g sm (init_store g) ops)) (Get k i)) =
    match scratch g (values st) i with Some v => Ok v | None => Err InputError end.
Proof.
  intros Fm D. apply MaskDisciplined_iff in D.
  exact (read_after_history V M IX g sm true false wf (or_introl eq_refl) ops Fm D).
Qed.

Theorem never_stale_now ops : F_mix g sm -> MaskDisciplined g sm (init_store g) ops ->
  forall k i st v, nth_error (fst (run_now g sm (init_store g) ops)) k = Some st ->
  snd (step_now g sm (fst (run_now g sm (init_store g) ops)) (Get k i)) = Ok v ->
  scratch g (values st) i = Some v.
Proof.
  intros Fm D. apply MaskDisciplined_iff in D.
  exact (never_stale V M IX g sm true false wf (or_introl eq_refl) ops Fm D).
Qed.

Theorem unset_is_error_now ops : F_mix g sm -> MaskDisciplined g sm (init_store g) ops ->
  forall k i st, nth_error (fst (run_now g sm (init_store g) ops)) k = Some st ->
  let r := snd (step_now g sm (fst (run_now g sm (init_store g) ops)) (Get k i)) in
  (r = Err InputError <-> scratch g (values st) i = None) /\ (forall e, r = Err e -> e = InputError).
Proof.
  intros Fm D. apply MaskDisciplined_iff in D.
  exact (unset_is_error V M IX g sm true false wf (or_introl eq_refl) ops Fm D).
Qed.

(** histories of full reverts only: no hypothesis on the history at all *)
Corollary never_stale_full_reverts ops : F_mix g sm -> forallb (@no_partial_revert V M IX) ops = true ->
  forall k i st v, nth_error (fst (run_now g sm (init_store g) ops)) k = Some st ->
  snd (step_now g sm (fst (run_now g sm (init_store g) ops)) (Get k i)) = Ok v ->
  scratch g (values st) i = Some v.
Proof. intros Fm H. apply never_stale_now; [exact Fm | now apply MaskDisciplined_no_partial]. Qed.

End NowProofs.

(** ** concrete histories on the executable instance

    The partial revert of the code as it is (since commit fe0cadd) selects, [torch.where(mask, old, cur)]: the
    executable instance is [xsem_where].  ([xsem], the blend [old * mask + cur * ~mask] of the code before, gives the
    same results on finite values; it differs when the discarded side is inf / NaN — see [nonfinite_now].) *)

Lemma mask_disciplined_b_sound (g : graph xval) (sm : sem xval (list bool) nat) ops s :
  disciplined_b g sm true false s ops = true -> MaskDisciplined g sm s ops.
Proof. intros H. apply MaskDisciplined_iff. now apply disciplined_b_sound. Qed.

Definition outs_of (g : graph xval) (ops : list xop) : list (out xval) := snd (run_now g xsem_where (init_store g) ops).

(** The history of the former finding F1 (c = a + b; fork REF; a=1, b=10; read c; a=2; auto_fork_type=None; b=20;
    revert(); read c) on the code as it is: it meets the precondition, the un-forked assignment of [b] drops the fork
    of [a], the revert is refused (input error) and the read is the fresh value 2 + 20. *)
Example f1_now :
  MaskDisciplined (mk_graph f1_nodes) xsem_where (init_store (mk_graph f1_nodes)) f1_ops /\
  nth_error (outs_of (mk_graph f1_nodes) f1_ops) 7 = Some (Err InputError) /\
  read_of (mk_graph f1_nodes) xsem_where true f1_ops 0 2 = Ok (XS (AFin 22)) /\
  fresh_of (mk_graph f1_nodes) xsem_where true f1_ops 0 2 = Some (Some (XS (AFin 22))).
Proof. split; [apply mask_disciplined_b_sound; vm_compute; reflexivity|]. vm_compute. repeat split. Qed.

(** Non-vacuity of the precondition: a 19-operation history on the diamond with forked assignments, reads, a partial
    revert that really mixes rows, an un-forked assignment made while a fork is pending followed by a full and a
    partial revert (both refused), a clone, a forked assignment and an accepted full revert on the clone. *)
Definition now_ops : list xop :=
  [ SetMode 0 (Some REF); Set_ 0 0 (Some (XP [AFin 1; AFin 2])); Get 0 3;
    Put 0 0 None (XP [AFin 5; AFin (-1)]) true; Get 0 1; Get 0 2; RevertMask 0 [true; false]; Get 0 3;
    Put 0 0 (Some 1) (XS (AFin 4)) true; Get 0 3;
    SetMode 0 None; Set_ 0 0 (Some (XP [AFin 3; AFin 4])); Get 0 1; Revert 0; RevertMask 0 [false; true]; Get 0 3;
    Clone 0 false true; SetMode 1 (Some COPY); Put 1 0 None (XP [AFin 1; AFin 1]) true ].

Example now_disciplined :
  MaskDisciplined (mk_graph diamond_nodes) xsem_where (init_store (mk_graph diamond_nodes)) (now_ops ++ [Get 1 3; Revert 1]) /\
  nth_error (outs_of (mk_graph diamond_nodes) now_ops) 6 = Some Done /\
  nth_error (outs_of (mk_graph diamond_nodes) now_ops) 13 = Some (Err InputError) /\
  nth_error (outs_of (mk_graph diamond_nodes) now_ops) 14 = Some (Err InputError) /\
  read_of (mk_graph diamond_nodes) xsem_where true now_ops 0 3 = Ok (XS (AFin 213)) /\
  fresh_of (mk_graph diamond_nodes) xsem_where true now_ops 0 3 = Some (Some (XS (AFin 213))) /\
  read_of (mk_graph diamond_nodes) xsem_where true (now_ops ++ [Get 1 3; Revert 1]) 1 3 = Ok (XS (AFin 213)).
Proof. split; [apply mask_disciplined_b_sound; vm_compute; reflexivity|]. vm_compute. repeat split. Qed.

(** A per-individual revert whose discarded side is not finite:  y = log2 x per individual; x = [1, 2]; read y;
    x += [-2, 2] (x = [-1, 4], y = [NaN, 2]); read y; reject individual 0.  The selection keeps y = [0, 2], the fresh
    value of x = [1, 4].  (With the blend of the code before fe0cadd the cached y was [NaN, 2]: NaN * 0 = NaN.) *)
Definition nf_nodes : list nspec :=
  [ mkN false true None true [] [] [1] NLog2;
    mkN true false None true [0] [0] [] NLog2 ].

Definition nf_ops : list xop :=
  [ SetMode 0 (Some REF); Set_ 0 0 (Some (XP [AFin 1; AFin 2])); Get 0 1;
    Put 0 0 None (XP [AFin (-2); AFin 2]) true; Get 0 1; RevertMask 0 [true; false] ]%Z.

Lemma nf_wf : WF (mk_graph nf_nodes).
Proof. apply wf_b_sound. vm_compute. reflexivity. Qed.

Example nonfinite_now :
  WF (mk_graph nf_nodes) /\
  MaskDisciplined (mk_graph nf_nodes) xsem_where (init_store (mk_graph nf_nodes)) nf_ops /\
  nth_error (outs_of (mk_graph nf_nodes) nf_ops) 4 = Some (Ok (XP [ANaN; AFin 2])) /\
  nth_error (outs_of (mk_graph nf_nodes) nf_ops) 5 = Some Done /\
  read_of (mk_graph nf_nodes) xsem_where true nf_ops 0 1 = Ok (XP [AFin 0; AFin 2]) /\
  fresh_of (mk_graph nf_nodes) xsem_where true nf_ops 0 1 = Some (Some (XP [AFin 0; AFin 2])).
Proof. split; [exact nf_wf|]. split; [apply mask_disciplined_b_sound; vm_compute; reflexivity|]. vm_compute. repeat split. Qed.

(** the two partial-revert rules differ on this history, and only the selection is fresh *)
Example nonfinite_blend_differs :
  read_of (mk_graph nf_nodes) xsem true nf_ops 0 1 = Ok (XP [ANaN; AFin 2]) /\
  fresh_of (mk_graph nf_nodes) xsem true nf_ops 0 1 = Some (Some (XP [AFin 0; AFin 2])).
Proof. vm_compute. split; reflexivity. Qed.
