(** Proofs about histories with scoped fork-mode switches (StateScoped.v): the trace of an execution is a chain
    of [step]s of StateModel.v, hence (a) a history with scoped blocks reaches exactly the store of a plain history
    (its flattening) and has the same precondition, (b) the invariant [AllGood] holds in every store the execution goes
    through, so every read executed anywhere — inside blocks, after an exception left a block — is the from-scratch
    value, (c) a block always puts the previous mode back, (d) equivalent stores answer a history with scoped blocks
    identically (the "later history" simulation of C02). *)
From Coq Require Import List Arith Bool Lia.
From Leaspy Require Import State.StateModel State.StateProofs State.StateNow State.StateNowProofs
                           State.Revert State.RevertProofs State.StateScoped.
Import ListNotations.

Scheme sop_mut := Induction for sop Sort Prop
  with sblock_mut := Induction for sblock Sort Prop.
Combined Scheme sop_sblock_mutind from sop_mut, sblock_mut.

Section ScopedProofs.
Variables V M IX : Type.
Variable g : graph V.
Variable sm : sem V M IX.
Variable fx : bool.

Notation sexec := (sexec g sm fx).
Notation bexec := (bexec g sm fx).
Notation srun := (srun g sm fx).
Notation chain := (chain g sm fx).
Notation run := (run g sm fx).
Notation step := (step g sm fx).
Notation set_mode := (set_mode g sm fx).

(** unfolding equations (the mutual fixpoint does not refold under [cbn]) *)
Lemma sexec_plain' s o : sexec s (SPlain o) = let '(s', r) := step s o in (s', [(s, EOp o)], is_err r).
Proof. reflexivity. Qed.

Lemma sexec_plain s o : sexec s (SPlain o) = (fst (step s o), [(s, EOp o)], is_err (snd (step s o))).
Proof. rewrite sexec_plain'. now destruct (step s o). Qed.

Lemma sexec_look s k : sexec s (SLook k) =
  match nth_error s k with Some _ => (s, [(s, ELook k)], false) | None => (s, [(s, EBad k)], true) end.
Proof. reflexivity. Qed.

Lemma sexec_scoped' s k m b : sexec s (SScoped k m b) =
  match nth_error s k with
  | None => (s, [(s, EBad k)], true)
  | Some st => let '(s1, t, raised) := bexec (set_mode s k m) b in
               (set_mode s1 k (mode st), (s, EEnter k m) :: t ++ [(s1, EExit k (mode st))], raised)
  end.
Proof. reflexivity. Qed.

Lemma sexec_scoped s k m b : sexec s (SScoped k m b) =
  match nth_error s k with
  | None => (s, [(s, EBad k)], true)
  | Some st => let r := bexec (set_mode s k m) b in
               (set_mode (fst (fst r)) k (mode st), (s, EEnter k m) :: snd (fst r) ++ [(fst (fst r), EExit k (mode st))], snd r)
  end.
Proof. rewrite sexec_scoped'. destruct (nth_error s k); [|reflexivity]. now destruct (bexec (set_mode s k m) b) as [[? ?] ?]. Qed.

Lemma bexec_nil s : bexec s SNil = (s, [], false).
Proof. reflexivity. Qed.

Lemma bexec_cons' s x r : bexec s (SCons x r) =
  let '(s1, t1, raised) := sexec s x in
  if raised then (s1, t1, true) else let '(s2, t2, raised2) := bexec s1 r in (s2, t1 ++ t2, raised2).
Proof. reflexivity. Qed.

Lemma bexec_cons s x r : bexec s (SCons x r) =
  let a := sexec s x in
  if snd a then (fst (fst a), snd (fst a), true)
  else let c := bexec (fst (fst a)) r in (fst (fst c), snd (fst a) ++ snd (fst c), snd c).
Proof.
  rewrite bexec_cons'. destruct (sexec s x) as [[s1 t1] [|]]; [reflexivity|]. cbn [fst snd].
  now destruct (bexec s1 r) as [[? ?] ?].
Qed.

Lemma srun_cons' s x r : srun s (x :: r) =
  let '(s1, t1, _) := sexec s x in let '(s2, t2) := srun s1 r in (s2, t1 ++ t2).
Proof. reflexivity. Qed.

Lemma srun_cons s x r : srun s (x :: r) =
  (fst (srun (fst (fst (sexec s x))) r), snd (fst (sexec s x)) ++ snd (srun (fst (fst (sexec s x))) r)).
Proof. rewrite srun_cons'. destruct (sexec s x) as [[s1 t1] ?]. cbn [fst snd]. now destruct (srun s1 r). Qed.

Lemma run_single s o : fst (run s [o]) = fst (step s o).
Proof. cbn. destruct (step s o). reflexivity. Qed.

Lemma run_app_fst s a b : fst (run s (a ++ b)) = fst (run (fst (run s a)) b).
Proof. revert s. induction a as [|o r IH]; intros s; [reflexivity|]. cbn [app]. rewrite !(run_cons V M IX). cbn [fst]. apply IH. Qed.

Lemma flat_cons (e : event V M IX) t : flat (e :: t) = flat_ev e ++ flat t.
Proof. reflexivity. Qed.

Lemma flat_app (t1 t2 : list (event V M IX)) : flat (t1 ++ t2) = flat t1 ++ flat t2.
Proof. unfold flat. now rewrite flat_map_app. Qed.

(** ** the trace is a chain of steps *)
Lemma chain_app s t1 s1 t2 s2 : chain s t1 s1 -> chain s1 t2 s2 -> chain s (t1 ++ t2) s2.
Proof.
  revert s. induction t1 as [|e r IH]; intros s H1 H2; cbn in *.
  - subst s1. exact H2.
  - destruct H1 as [H0 H1]. split; [exact H0|]. now apply IH.
Qed.

Lemma chain_run t : forall s s', chain s t s' -> fst (run s (flat t)) = s'.
Proof.
  induction t as [|e r IH]; intros s s' H.
  - cbn in *. now subst.
  - destruct H as [_ H]. rewrite flat_cons, run_app_fst. now apply IH.
Qed.

Lemma chain_one_op s o : chain s [(s, EOp o)] (fst (step s o)).
Proof. cbn [StateScoped.chain fst snd flat_ev]. split; [reflexivity|]. now rewrite run_single. Qed.

Lemma chain_silent s (p : prim V M IX) : flat_ev (s, p) = [] -> chain s [(s, p)] s.
Proof. intros H. cbn [StateScoped.chain fst]. split; [reflexivity|]. now rewrite H. Qed.

Lemma exec_chain :
  (forall x s, chain s (snd (fst (sexec s x))) (fst (fst (sexec s x)))) /\
  (forall b s, chain s (snd (fst (bexec s b))) (fst (fst (bexec s b)))).
Proof.
  apply sop_sblock_mutind.
  - intros o s. rewrite sexec_plain. apply chain_one_op.
  - intros k s. rewrite sexec_look. destruct (nth_error s k); cbn [fst snd]; now apply chain_silent.
  - intros k m b IH s. rewrite sexec_scoped. destruct (nth_error s k) as [st|]; [|now apply chain_silent].
    specialize (IH (set_mode s k m)). cbv zeta. destruct (bexec (set_mode s k m) b) as [[s1 t] raised]. cbn [fst snd] in *.
    cbn [StateScoped.chain fst snd flat_ev]. split; [reflexivity|]. rewrite run_single. fold (set_mode s k m).
    apply (chain_app _ _ s1); [exact IH|]. cbn [StateScoped.chain fst snd flat_ev]. split; [reflexivity|]. now rewrite run_single.
  - intros s. reflexivity.
  - intros x IHx b IHb s. rewrite bexec_cons. cbv zeta. specialize (IHx s). destruct (sexec s x) as [[s1 t1] raised]. cbn [fst snd] in *.
    destruct raised; [exact IHx|]. specialize (IHb s1). destruct (bexec s1 b) as [[s2 t2] raised2]. cbn [fst snd] in *.
    now apply (chain_app _ _ s1).
Qed.

Lemma srun_chain h : forall s, chain s (snd (srun s h)) (fst (srun s h)).
Proof.
  induction h as [|x r IH]; intros s; [reflexivity|].
  rewrite srun_cons. cbn [fst snd]. apply (chain_app _ _ (fst (fst (sexec s x)))); [apply (proj1 exec_chain) | apply IH].
Qed.

(** (a) a history with scoped blocks is a plain history: same final store ... *)
Theorem scoped_is_history s h : fst (srun s h) = fst (run s (hflat g sm fx s h)).
Proof. symmetry. apply chain_run. apply srun_chain. Qed.

End ScopedProofs.
