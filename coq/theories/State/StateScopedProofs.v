(** Proofs about histories with scoped fork-mode switches (StateScoped.v): the trace of an execution is a chain
    of [step]s of StateModel.v, hence (a) a history with scoped blocks reaches exactly the store of a plain history
    (its flattening) and has the same precondition, (b) the invariant [AllGood] holds in every store the execution goes
    through, so every read executed anywhere — inside blocks, after an exception left a block — is the from-scratch
    value, (c) a block always puts the previous mode back, (d) equivalent stores answer a history with scoped blocks
    identically (the "later history" simulation of C02). *)
From Coq Require Import List Arith Bool Lia.
From Leaspy Require Import State.StateModel State.StateProofs State.StateNow State.StateNowProofs
                           State.Revert State.RevertProofs State.StateScoped.
Import ListNotations.

Scheme sop_mut := Induction for sop Sort Prop
  with sblock_mut := Induction for sblock Sort Prop.
Combined Scheme sop_sblock_mutind from sop_mut, sblock_mut.

Section ScopedProofs.
Variables V M IX : Type.
Variable g : graph V.
Variable sm : sem V M IX.
Variable fx : bool.

Notation sexec := (sexec g sm fx).
Notation bexec := (bexec g sm fx).
Notation srun := (srun g sm fx).
Notation chain := (chain g sm fx).
Notation run := (run g sm fx).
Notation step := (step g sm fx).
Notation set_mode := (set_mode g sm fx).

(** unfolding equations (the mutual fixpoint does not refold under [cbn]) *)
Lemma sexec_plain' s o : sexec s (SPlain o) = let '(s', r) := step s o in (s', [(s, EOp o)], is_err r).
Proof. reflexivity. Qed.

Lemma sexec_plain s o : sexec s (SPlain o) = (fst (step s o), [(s, EOp o)], is_err (snd (step s o))).
Proof. rewrite sexec_plain'. now destruct (step s o). Qed.

Lemma sexec_look s k : sexec s (SLook k) =
  match nth_error s k with Some _ => (s, [(s, ELook k)], false) | None => (s, [(s, EBad k)], true) end.
Proof. reflexivity. Qed.

Lemma sexec_scoped' s k m b : sexec s (SScoped k m b) =
  match nth_error s k with
  | None => (s, [(s, EBad k)], true)
  | Some st => let '(s1, t, raised) := bexec (set_mode s k m) b in
               (set_mode s1 k (mode st), (s, EEnter k m) :: t ++ [(s1, EExit k (mode st))], raised)
  end.
Proof. reflexivity. Qed.

Lemma sexec_scoped s k m b : sexec s (SScoped k m b) =
  match nth_error s k with
  | None => (s, [(s, EBad k)], true)
  | Some st => let r := bexec (set_mode s k m) b in
               (set_mode (fst (fst r)) k (mode st), (s, EEnter k m) :: snd (fst r) ++ [(fst (fst r), EExit k (mode st))], snd r)
  end.
Proof. rewrite sexec_scoped'. destruct (nth_error s k); [|reflexivity]. now destruct (bexec (set_mode s k m) b) as [[? ?] ?]. Qed.

Lemma bexec_nil s : bexec s SNil = (s, [], false).
Proof. reflexivity. Qed.

Lemma bexec_cons' s x r : bexec s (SCons x r) =
  let '(s1, t1, raised) := sexec s x in
  if raised then (s1, t1, true) else let '(s2, t2, raised2) := bexec s1 r in (s2, t1 ++ t2, raised2).
Proof. reflexivity. Qed.

Lemma bexec_cons s x r : bexec s (SCons x r) =
  let a := sexec s x in
  if snd a then (fst (fst a), snd (fst a), true)
  else let c := bexec (fst (fst a)) r in (fst (fst c), snd (fst a) ++ snd (fst c), snd c).
Proof.
  rewrite bexec_cons'. destruct (sexec s x) as [[s1 t1] [|]]; [reflexivity|]. cbn [fst snd].
  now destruct (bexec s1 r) as [[? ?] ?].
Qed.

Lemma srun_cons' s x r : srun s (x :: r) =
  let '(s1, t1, _) := sexec s x in let '(s2, t2) := srun s1 r in (s2, t1 ++ t2).
Proof. reflexivity. Qed.

Lemma srun_cons s x r : srun s (x :: r) =
  (fst (srun (fst (fst (sexec s x))) r), snd (fst (sexec s x)) ++ snd (srun (fst (fst (sexec s x))) r)).
Proof. rewrite srun_cons'. destruct (sexec s x) as [[s1 t1] ?]. cbn [fst snd]. now destruct (srun s1 r). Qed.

Lemma run_single s o : fst (run s [o]) = fst (step s o).
Proof. cbn. destruct (step s o). reflexivity. Qed.

Lemma run_app_fst s a b : fst (run s (a ++ b)) = fst (run (fst (run s a)) b).
Proof. revert s. induction a as [|o r IH]; intros s; [reflexivity|]. cbn [app]. rewrite !(run_cons V M IX). cbn [fst]. apply IH. Qed.

Lemma flat_cons (e : event V M IX) t : flat (e :: t) = flat_ev e ++ flat t.
Proof. reflexivity. Qed.

Lemma flat_app (t1 t2 : list (event V M IX)) : flat (t1 ++ t2) = flat t1 ++ flat t2.
Proof. unfold flat. now rewrite flat_map_app. Qed.

(** ** the trace is a chain of steps *)
Lemma chain_app s t1 s1 t2 s2 : chain s t1 s1 -> chain s1 t2 s2 -> chain s (t1 ++ t2) s2.
Proof.
  revert s. induction t1 as [|e r IH]; intros s H1 H2; cbn in *.
  - subst s1. exact H2.
  - destruct H1 as [H0 H1]. split; [exact H0|]. now apply IH.
Qed.

Lemma chain_run t : forall s s', chain s t s' -> fst (run s (flat t)) = s'.
Proof.
  induction t as [|e r IH]; intros s s' H.
  - cbn in *. now subst.
  - destruct H as [_ H]. rewrite flat_cons, run_app_fst. now apply IH.
Qed.

Lemma chain_one_op s o : chain s [(s, EOp o)] (fst (step s o)).
Proof. cbn [StateScoped.chain fst snd flat_ev]. split; [reflexivity|]. now rewrite run_single. Qed.

Lemma chain_silent s (p : prim V M IX) : flat_ev (s, p) = [] -> chain s [(s, p)] s.
Proof. intros H. cbn [StateScoped.chain fst]. split; [reflexivity|]. now rewrite H. Qed.

Lemma exec_chain :
  (forall x s, chain s (snd (fst (sexec s x))) (fst (fst (sexec s x)))) /\
  (forall b s, chain s (snd (fst (bexec s b))) (fst (fst (bexec s b)))).
Proof.
  apply sop_sblock_mutind.
  - intros o s. rewrite sexec_plain. apply chain_one_op.
  - intros k s. rewrite sexec_look. destruct (nth_error s k); cbn [fst snd]; now apply chain_silent.
  - intros k m b IH s. rewrite sexec_scoped. destruct (nth_error s k) as [st|]; [|now apply chain_silent].
    specialize (IH (set_mode s k m)). cbv zeta. destruct (bexec (set_mode s k m) b) as [[s1 t] raised]. cbn [fst snd] in *.
    cbn [StateScoped.chain fst snd flat_ev]. split; [reflexivity|]. rewrite run_single. fold (set_mode s k m).
    apply (chain_app _ _ s1); [exact IH|]. cbn [StateScoped.chain fst snd flat_ev]. split; [reflexivity|]. now rewrite run_single.
  - intros s. reflexivity.
  - intros x IHx b IHb s. rewrite bexec_cons. cbv zeta. specialize (IHx s). destruct (sexec s x) as [[s1 t1] raised]. cbn [fst snd] in *.
    destruct raised; [exact IHx|]. specialize (IHb s1). destruct (bexec s1 b) as [[s2 t2] raised2]. cbn [fst snd] in *.
    now apply (chain_app _ _ s1).
Qed.

Lemma srun_chain h : forall s, chain s (snd (srun s h)) (fst (srun s h)).
Proof.
  induction h as [|x r IH]; intros s; [reflexivity|].
  rewrite srun_cons. cbn [fst snd]. apply (chain_app _ _ (fst (fst (sexec s x)))); [apply (proj1 exec_chain) | apply IH].
Qed.

(** (a) a history with scoped blocks is a plain history: same final store ... *)
Theorem scoped_is_history s h : fst (srun s h) = fst (run s (hflat g sm fx s h)).
Proof. symmetry. apply chain_run. apply srun_chain. Qed.

(** ... and the same precondition: what is asked of the executed operations is what [Disciplined] asks of the flattening *)
Lemma Disciplined_app chk a : forall s b,
  Disciplined g sm fx chk s (a ++ b) <-> Disciplined g sm fx chk s a /\ Disciplined g sm fx chk (fst (run s a)) b.
Proof.
  induction a as [|o r IH]; intros s b; cbn [app].
  - cbn. tauto.
  - cbn [Disciplined]. rewrite (run_cons V M IX). cbn [fst]. rewrite IH. tauto.
Qed.

Lemma ev_ok_flat chk s (p : prim V M IX) : ev_ok (op_ok g sm chk) (s, p) <-> Disciplined g sm fx chk s (flat_ev (s, p)).
Proof. destruct p; cbn; tauto. Qed.

Lemma chain_disciplined chk t : forall s s', chain s t s' ->
  (Forall (ev_ok (op_ok g sm chk)) t <-> Disciplined g sm fx chk s (flat t)).
Proof.
  induction t as [|e r IH]; intros s s' H.
  - cbn. split; [intros _; exact I | constructor].
  - destruct H as [H0 H]. rewrite flat_cons, Disciplined_app, <- (IH _ _ H).
    destruct e as [s0 p]. cbn [fst] in H0. subst s0. rewrite <- ev_ok_flat. split.
    + intros HF. inversion HF; subst. now split.
    + intros [H1 H2]. now constructor.
Qed.

Theorem scoped_discipline chk s h :
  SDisciplinedWith g sm fx (op_ok g sm chk) s h <-> Disciplined g sm fx chk s (hflat g sm fx s h).
Proof. apply (chain_disciplined chk _ s (fst (srun s h))). apply srun_chain. Qed.

Lemma SDisciplinedWith_ext (p q : store V -> op V M IX -> Prop) : (forall s o, p s o <-> q s o) ->
  forall s h, SDisciplinedWith g sm fx p s h <-> SDisciplinedWith g sm fx q s h.
Proof.
  intros E s h. unfold SDisciplinedWith. rewrite !Forall_forall.
  split; intros H e He; specialize (H e He); destruct e as [s0 [o| | | |]]; cbn in *; auto; now apply E.
Qed.

(** stores only grow *)
Lemma run_length ops : forall s, length s <= length (fst (run s ops)).
Proof.
  induction ops as [|o r IH]; intros s; [cbn; lia|]. rewrite (run_cons V M IX). cbn [fst].
  pose proof (step_length V M IX g sm fx s o). specialize (IH (fst (step s o))). lia.
Qed.

Lemma chain_length t : forall s s', chain s t s' -> length s <= length s'.
Proof. intros s s' H. rewrite <- (chain_run t s s' H). apply run_length. Qed.

Lemma set_mode_nth s k m st : nth_error s k = Some st ->
  nth_error (set_mode s k m) k = Some (mkState (values st) (fork st) m).
Proof.
  intros H. unfold StateScoped.set_mode. cbn [StateModel.step]. unfold on_state. rewrite H. cbn [fst].
  rewrite nth_set_nth, Nat.eqb_refl, H. reflexivity.
Qed.

Lemma set_mode_length s k m : length (set_mode s k m) = length s.
Proof.
  unfold StateScoped.set_mode. cbn [StateModel.step]. unfold on_state. destruct (nth_error s k); [|reflexivity]. cbn [fst].
  clear. revert k. induction s as [|y r IH]; intros [|k]; cbn; auto.
Qed.

(** (c) the contract of the context manager: whatever the body does — assignments, mode switches of its own, an
    exception that leaves the block — the block runs its body with the requested mode and afterwards the state has its
    previous mode again; leaving the block changes nothing else *)
Theorem scoped_restores_mode s k m b st : nth_error s k = Some st ->
  let r := sexec s (SScoped k m b) in
  let inner := bexec (set_mode s k m) b in
  (exists st0, nth_error (set_mode s k m) k = Some st0 /\ mode st0 = m /\ values st0 = values st /\ fork st0 = fork st) /\
  snd r = snd inner /\
  exists st1, nth_error (fst (fst inner)) k = Some st1 /\
              nth_error (fst (fst r)) k = Some (mkState (values st1) (fork st1) (mode st)).
Proof.
  intros H r inner. split; [eexists; split; [exact (set_mode_nth s k m st H) | cbn; repeat split]|].
  unfold r. rewrite sexec_scoped, H. cbv zeta. fold inner. cbn [fst snd]. split; [reflexivity|].
  pose proof (proj2 exec_chain b (set_mode s k m)) as Hc. fold inner in Hc. apply chain_length in Hc. rewrite set_mode_length in Hc.
  assert (Hk : k < length s) by (apply nth_error_Some; congruence).
  destruct (nth_error (fst (fst inner)) k) as [st1|] eqn:E1; [|apply nth_error_None in E1; lia].
  exists st1. split; [reflexivity | exact (set_mode_nth _ k (mode st) st1 E1)].
Qed.

(** ** (b) the invariant holds in every store the execution goes through *)
Section Good.
Variable chk : bool.
Hypothesis wf : WF g.
Hypothesis fx_or_chk : fx = true \/ chk = true.

Lemma chain_good t : F_mix g sm -> forall s s', AllGood V g s -> chain s t s' -> Forall (ev_ok (op_ok g sm chk)) t ->
  Forall (fun e => AllGood V g (fst e)) t /\ AllGood V g s'.
Proof.
  intros HFm. induction t as [|e r IH]; intros s s' HA H HF.
  - cbn in H. subst. split; [constructor | exact HA].
  - destruct H as [H0 H]. destruct e as [s0 p]. cbn [fst] in H0. subst s0. inversion HF as [|? ? He Hr]; subst.
    assert (HA' : AllGood V g (fst (run s (flat_ev (s, p))))).
    { apply (Good_run V M IX g sm fx chk wf fx_or_chk); [exact HFm | exact HA | now apply ev_ok_flat]. }
    destruct (IH _ _ HA' H Hr) as [H1 H2]. split; [constructor; [exact HA | exact H1] | exact H2].
Qed.

Theorem scoped_good h : F_mix g sm -> forall s, AllGood V g s -> SDisciplinedWith g sm fx (op_ok g sm chk) s h ->
  forall s', In s' (visits g sm fx s h) -> AllGood V g s'.
Proof.
  intros HFm s HA HD s' Hin. destruct (chain_good _ HFm s _ HA (srun_chain h s) HD) as [H1 H2].
  unfold visits in Hin. apply in_app_or in Hin. destruct Hin as [Hin|[<-|[]]]; [|exact H2].
  apply in_map_iff in Hin. destruct Hin as [e [<- He]]. rewrite Forall_forall in H1. now apply H1.
Qed.

(** every read, at every point of the execution, is the from-scratch evaluation *)
Theorem scoped_reads h : F_mix g sm -> SDisciplinedWith g sm fx (op_ok g sm chk) (init_store g) h ->
  forall s', In s' (visits g sm fx (init_store g) h) ->
  forall k i st, nth_error s' k = Some st ->
  snd (step s' (Get k i)) = match scratch g (values st) i with Some v => Ok v | None => Err InputError end.
Proof.
  intros HFm HD s' Hin k i st Hst.
  pose proof (scoped_good h HFm (init_store g) (AllGood_init V g wf) HD s' Hin k st Hst) as [HI [HB _]].
  rewrite (step_get V M IX g sm fx s' k i st Hst). now apply (get_is_scratch V g wf).
Qed.

(** ... in particular the result of every read that was executed, inside a block or not *)
Corollary scoped_executed_reads h : F_mix g sm -> SDisciplinedWith g sm fx (op_ok g sm chk) (init_store g) h ->
  forall e, In e (snd (srun (init_store g) h)) -> forall k i st, snd e = EOp (Get k i) -> nth_error (fst e) k = Some st ->
  obs_of g sm fx e = OOut (Get k i) (match scratch g (values st) i with Some v => Ok v | None => Err InputError end).
Proof.
  intros HFm HD e He k i st Hop Hst. unfold obs_of. rewrite Hop. f_equal.
  apply (scoped_reads h HFm HD); [|exact Hst]. unfold visits. apply in_or_app. left. now apply in_map.
Qed.

(** ** (d) equivalent stores answer a history with scoped blocks identically *)
Notation sim_store := (sim_store g).
Notation okc := (ev_ok (op_ok g sm chk)).

Lemma is_err_sim s1 s2 o : F_mix g sm -> sim_store s1 s2 -> op_ok g sm chk s1 o -> op_ok g sm chk s2 o ->
  is_err (snd (step s1 o)) = is_err (snd (step s2 o)).
Proof.
  intros HFm HS O1 O2. destruct (sim_step V M IX g sm fx chk wf fx_or_chk s1 s2 o HFm HS O1 O2) as [_ Ho].
  destruct (cache_blind g o) eqn:Eb; [now rewrite Ho|]. destruct o; try discriminate.
  cbn [StateModel.step]. unfold on_state. pose proof (sim_store_nth V g s1 s2 k HS) as Hk.
  destruct (nth_error s1 k), (nth_error s2 k); try contradiction; [|reflexivity].
  unfold isset_state. cbn [snd]. now destruct (i <? gn g).
Qed.

Lemma set_mode_sim s1 s2 k m : F_mix g sm -> sim_store s1 s2 -> sim_store (set_mode s1 k m) (set_mode s2 k m).
Proof. intros HFm HS. now apply (sim_step V M IX g sm fx chk wf fx_or_chk s1 s2 (SetMode k m) HFm HS I I). Qed.

Lemma exec_sim : F_mix g sm ->
  (forall x s1 s2, sim_store s1 s2 -> Forall okc (snd (fst (sexec s1 x))) -> Forall okc (snd (fst (sexec s2 x))) ->
     sim_store (fst (fst (sexec s1 x))) (fst (fst (sexec s2 x))) /\ snd (sexec s1 x) = snd (sexec s2 x) /\
     Forall2 (ev_sim g) (snd (fst (sexec s1 x))) (snd (fst (sexec s2 x)))) /\
  (forall b s1 s2, sim_store s1 s2 -> Forall okc (snd (fst (bexec s1 b))) -> Forall okc (snd (fst (bexec s2 b))) ->
     sim_store (fst (fst (bexec s1 b))) (fst (fst (bexec s2 b))) /\ snd (bexec s1 b) = snd (bexec s2 b) /\
     Forall2 (ev_sim g) (snd (fst (bexec s1 b))) (snd (fst (bexec s2 b)))).
Proof.
  intros HFm. apply sop_sblock_mutind.
  - intros o s1 s2 HS H1 H2. rewrite !sexec_plain in *. cbn [fst snd] in *.
    inversion H1 as [|? ? O1 _]; subst. inversion H2 as [|? ? O2 _]; subst. cbn in O1, O2.
    split; [now apply (sim_step V M IX g sm fx chk wf fx_or_chk s1 s2 o HFm HS O1 O2)|].
    split; [now apply is_err_sim|]. constructor; [now split | constructor].
  - intros k s1 s2 HS _ _. rewrite !sexec_look. pose proof (sim_store_nth V g s1 s2 k HS) as Hk.
    destruct (nth_error s1 k), (nth_error s2 k); try contradiction; cbn [fst snd];
      (split; [exact HS|]; split; [reflexivity|]; constructor; [now split | constructor]).
  - intros k m b IH s1 s2 HS H1 H2. rewrite !sexec_scoped in *. pose proof (sim_store_nth V g s1 s2 k HS) as Hk.
    destruct (nth_error s1 k) as [a|], (nth_error s2 k) as [c|]; try contradiction.
    2:{ cbn [fst snd]. split; [exact HS|]. split; [reflexivity|]. constructor; [now split | constructor]. }
    assert (Hm : mode a = mode c) by (destruct Hk as [_ [_ [_ [Hm _]]]]; exact Hm).
    cbv zeta in *. cbn [fst snd] in *.
    inversion H1 as [|? ? _ H1']; subst. inversion H2 as [|? ? _ H2']; subst.
    apply Forall_app in H1'. apply Forall_app in H2'.
    destruct (IH _ _ (set_mode_sim s1 s2 k m HFm HS) (proj1 H1') (proj1 H2')) as [HS' [Hr HT]].
    split; [rewrite Hm; now apply set_mode_sim|]. split; [exact Hr|].
    constructor; [now split|]. apply Forall2_app; [exact HT|]. constructor; [|constructor]. split; [cbn; now rewrite Hm | exact HS'].
  - intros s1 s2 HS _ _. rewrite !bexec_nil. cbn. split; [exact HS|]. split; [reflexivity | constructor].
  - intros x IHx b IHb s1 s2 HS H1 H2. rewrite !bexec_cons in *. cbv zeta in *.
    assert (A1 : Forall okc (snd (fst (sexec s1 x)))).
    { destruct (snd (sexec s1 x)); cbn [fst snd] in H1; [exact H1 | apply Forall_app in H1; tauto]. }
    assert (A2 : Forall okc (snd (fst (sexec s2 x)))).
    { destruct (snd (sexec s2 x)); cbn [fst snd] in H2; [exact H2 | apply Forall_app in H2; tauto]. }
    destruct (IHx s1 s2 HS A1 A2) as [HS' [Hr HT]]. rewrite <- Hr in *.
    destruct (snd (sexec s1 x)); cbn [fst snd] in *; [now split|].
    apply Forall_app in H1. apply Forall_app in H2.
    destruct (IHb _ _ HS' (proj2 H1) (proj2 H2)) as [HS'' [Hr' HT']].
    split; [exact HS''|]. split; [exact Hr'|]. now apply Forall2_app.
Qed.

Theorem scoped_sim h : F_mix g sm -> forall s1 s2, sim_store s1 s2 ->
  SDisciplinedWith g sm fx (op_ok g sm chk) s1 h -> SDisciplinedWith g sm fx (op_ok g sm chk) s2 h ->
  sim_store (fst (srun s1 h)) (fst (srun s2 h)) /\ Forall2 (ev_sim g) (snd (srun s1 h)) (snd (srun s2 h)).
Proof.
  intros HFm. induction h as [|x r IH]; intros s1 s2 HS D1 D2; [cbn; split; [exact HS | constructor]|].
  unfold SDisciplinedWith in D1, D2. rewrite !srun_cons in *. cbn [fst snd] in *.
  apply Forall_app in D1. apply Forall_app in D2.
  destruct (proj1 (exec_sim HFm) x s1 s2 HS (proj1 D1) (proj1 D2)) as [HS' [_ HT]].
  destruct (IH _ _ HS' (proj2 D1) (proj2 D2)) as [HS'' HT'].
  split; [exact HS'' | now apply Forall2_app].
Qed.

Lemma fork_sim_keys (a c : state V) : sim g a c -> option_map (map fst) (fork a) = option_map (map fst) (fork c).
Proof.
  intros [_ [_ [_ [_ HF]]]]. unfold fork_sim in HF. destruct (fork a), (fork c); try contradiction; [|reflexivity].
  cbn. now rewrite (proj1 HF).
Qed.

Lemma ev_sim_obs e1 e2 : F_mix g sm -> ev_sim g e1 e2 -> okc e1 -> okc e2 -> obs_agree g (obs_of g sm fx e1) (obs_of g sm fx e2).
Proof.
  intros HFm [Hp HS] O1 O2. destruct e1 as [s1 p1], e2 as [s2 p2]. cbn [fst snd] in *. subst p2.
  unfold obs_of. cbn [fst snd]. pose proof (fun k => sim_store_nth V g s1 s2 k HS) as Hk.
  destruct p1 as [o|k|k|k m|k m]; cbn [obs_agree].
  - split; [reflexivity|]. intros Hb. cbn in O1, O2.
    now apply (sim_step V M IX g sm fx chk wf fx_or_chk s1 s2 o HFm HS O1 O2).
  - specialize (Hk k). destruct (nth_error s1 k) as [a|], (nth_error s2 k) as [c|]; try contradiction; cbn; [|reflexivity].
    split; [reflexivity|]. split; [now destruct Hk as [_ [_ [_ [Hm _]]]] | now apply fork_sim_keys].
  - reflexivity.
  - unfold seen. specialize (Hk k). destruct (nth_error s1 k) as [a|], (nth_error s2 k) as [c|]; try contradiction; cbn; [|reflexivity].
    split; [reflexivity|]. split; [reflexivity | now apply fork_sim_keys].
  - unfold seen. specialize (Hk k). destruct (nth_error s1 k) as [a|], (nth_error s2 k) as [c|]; try contradiction; cbn; [|reflexivity].
    split; [reflexivity|]. split; [reflexivity | now apply fork_sim_keys].
Qed.

(** the "later history" simulation for histories with scoped blocks: equivalent stores stay equivalent, execute the
    same primitives (the same exceptions leave the same blocks) and return the same results *)
Theorem scoped_later_history h : F_mix g sm -> forall s1 s2, sim_store s1 s2 ->
  SDisciplinedWith g sm fx (op_ok g sm chk) s1 h -> SDisciplinedWith g sm fx (op_ok g sm chk) s2 h ->
  sim_store (fst (srun s1 h)) (fst (srun s2 h)) /\
  Forall2 (obs_agree g) (map (obs_of g sm fx) (snd (srun s1 h))) (map (obs_of g sm fx) (snd (srun s2 h))).
Proof.
  intros HFm s1 s2 HS D1 D2. destruct (scoped_sim h HFm s1 s2 HS D1 D2) as [HS' HT]. split; [exact HS'|].
  unfold SDisciplinedWith in D1, D2. revert D1 D2. induction HT as [|e1 e2 t1 t2 He HT IH]; intros D1 D2; [constructor|].
  inversion D1; subst. inversion D2; subst. cbn [map]. constructor; [now apply ev_sim_obs | now apply IH].
Qed.

End Good.

End ScopedProofs.

(** ** the instance at the code as it is ([fx = true], precondition = [pre_ok] of StateNow.v) *)
Section ScopedNowProofs.
Variables V M IX : Type.
Variable g : graph V.
Variable sm : sem V M IX.

Lemma SMaskDisciplined_iff s h : SMaskDisciplined g sm s h <-> SDisciplinedWith g sm true (op_ok g sm false) s h.
Proof. apply SDisciplinedWith_ext. intros s0 o. apply pre_ok_iff. Qed.

(** a history with scoped blocks amounts to the plain history [hflat] (every block replaced by: set the mode, the
    operations of the body that were executed, set the previous mode): same final store, same precondition *)
Theorem scoped_is_history_now s h :
  fst (srun_now g sm s h) = fst (run_now g sm s (hflat g sm true s h)) /\
  (SMaskDisciplined g sm s h <-> MaskDisciplined g sm s (hflat g sm true s h)).
Proof.
  split; [apply scoped_is_history|]. rewrite SMaskDisciplined_iff, MaskDisciplined_iff. apply scoped_discipline.
Qed.

Hypothesis wf : WF g.

Theorem scoped_read_is_scratch_now h : F_mix g sm -> SMaskDisciplined g sm (init_store g) h ->
  forall s', In s' (visits g sm true (init_store g) h) ->
  forall k i st, nth_error s' k = Some st ->
  snd (step_now g sm s' (Get k i)) = match scratch g (values st) i with Some v => Ok v | None => Err InputError end.
Proof.
  intros HFm HD. apply SMaskDisciplined_iff in HD.
  exact (scoped_reads V M IX g sm true false wf (or_introl eq_refl) h HFm HD).
Qed.

Theorem scoped_never_stale_now h : F_mix g sm -> SMaskDisciplined g sm (init_store g) h ->
  forall s', In s' (visits g sm true (init_store g) h) ->
  forall k i st v, nth_error s' k = Some st ->
  snd (step_now g sm s' (Get k i)) = Ok v -> scratch g (values st) i = Some v.
Proof.
  intros HFm HD s' Hin k i st v Hst Hv. rewrite (scoped_read_is_scratch_now h HFm HD s' Hin k i st Hst) in Hv.
  destruct (scratch g (values st) i); [now injection Hv as -> | discriminate].
Qed.

Theorem scoped_executed_reads_now h : F_mix g sm -> SMaskDisciplined g sm (init_store g) h ->
  forall e, In e (snd (srun_now g sm (init_store g) h)) -> forall k i st, snd e = EOp (Get k i) -> nth_error (fst e) k = Some st ->
  obs_of g sm true e = OOut (Get k i) (match scratch g (values st) i with Some v => Ok v | None => Err InputError end).
Proof.
  intros HFm HD. apply SMaskDisciplined_iff in HD.
  exact (scoped_executed_reads V M IX g sm true false wf (or_introl eq_refl) h HFm HD).
Qed.

End ScopedNowProofs.
