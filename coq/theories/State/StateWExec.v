(** Executable instance of the [State] model with WEIGHTED values ([leaspy.utils.weighted_tensor.WeightedTensor]:
    a value tensor + an optional weight tensor of the same shape; weight 0 <-> masked entry) — definitions only.

    Why: [State.revert(subset)] combines the forked and the current value of every doubly cached node of the forked
    sub-graph with the module-level helper [_select] (state.py:44-56).  For a [WeightedTensor] the helper selects BOTH
    components row by row, [torch.where(mask, old.value, cur.value)] and [torch.where(mask, old.weight, cur.weight)].
    The weights of the shipped models are data masks (the same on both sides), but the property quantifies over any
    model: a node function may compute the weight from its inputs (e.g. "only the visits after the individual onset
    count": [WeightedTensor(t - tau, weight = (t >= tau))]), and then a rule that keeps the weight of one side for all
    rows leaves a cached node that is no longer its definition applied to the current independent values.

    Value domain [wval]: the plain values of StateExec.v ([WPlain]: 0-d / 1-d tensors of exact atoms) and 1-d weighted
    values over the individuals ([WWt values weights], boolean weights).  0-d weighted values and weighted values with
    [weight=None] are outside the executable vocabulary: they are [WPlain XBad] (never equal to an observed value),
    nothing is totalised silently.

    Node functions [wfun]: the toy vocabulary of StateExec.v ([WOld]) plus
      [WThr c0 c thr]   WeightedTensor(c0 + c*x, weight = (x >= thr))       weight COMPUTED from the parent
      [WMap c0 c]       WeightedTensor(c0 + c*W.value, W.weight)             weighted -> weighted
      [WVal c0 c]       c0 + c * W.weighted_value                            per individual, uses the weight
      [WWgt c0 c]       c0 + c * W.weight.to(W.value.dtype)                  per individual, the weight itself
      [WSum c0 c]       c0 + c * W.weighted_value.sum()                      aggregate that uses the weight
      [WCnt c0 c]       c0 + c * W.weight.sum()                              aggregate of the weight
    ([weighted_value = weight * value.masked_fill(weight == 0, 0)], weighted_tensor/_weighted_tensor.py:86-101).

    The checkers ([gwf_b], [gagree] ...) are those of StateExec.v written once for any value type with a boolean
    comparison (section [Generic]); they are instantiated at [wval]. *)
From Coq Require Import List Arith Bool ZArith Lia.
From Leaspy Require Import State.StateModel State.StateExec.
Import ListNotations.

(** * checkers for any value type *)
Section Generic.
Variable V : Type.
Variable veqb : V -> V -> bool.
Variables M IX : Type.

Definition gwf_node (g : graph V) (k : nat) : bool :=
  let ps := parents g k in
  forallb (fun p => p <? k) ps
  && (linked g k || match ps with [] => true | _ => false end)
  && (negb (settable g k) || negb (linked g k))
  && (match hyper g k with Some _ => negb (linked g k) && negb (settable g k) | None => true end)
  && increasingb (k :: desc g k)
  && forallb (fun c => c <? gn g) (desc g k)
  && forallb (fun c => negb (existsb (fun p => Nat.eqb p k || mem p (desc g k)) (parents g c)) || mem c (desc g k)) (seq 0 (gn g))
  && forallb (fun c => existsb (fun p => Nat.eqb p k || mem p (desc g k)) (parents g c)) (desc g k)
  && increasingb (anc g k ++ [k])
  && forallb (fun p => mem p (anc g k)) ps
  && forallb (fun a => forallb (fun p => mem p (anc g k)) (parents g a)) (anc g k)
  && forallb (fun a => mem a ps || existsb (fun c => mem a (parents g c)) (anc g k)) (anc g k).

Definition gwf_b (g : graph V) : bool := forallb (gwf_node g) (seq 0 (gn g)).

Definition gout_eqb (a b : out V) : bool :=
  match a, b with
  | Ok x, Ok y => veqb x y
  | OkB x, OkB y => Bool.eqb x y
  | Done, Done => true
  | Err x, Err y => err_eqb x y
  | _, _ => false
  end.

Definition gmask_ok_b (g : graph V) (sm : sem V M IX) (m : M) (st : state V) : bool :=
  match fork st with
  | None => true
  | Some fk => forallb (fun co => match snd co, values st (fst co) with
                                   | Some o, Some cur => ind_axis g (fst co) && is_some (mix sm m o cur)
                                   | _, _ => true end) fk
  end.

Definition gunforked_ok_b (chk : bool) (st : state V) : bool :=
  negb chk || is_some (mode st) || negb (is_some (fork st)).

Definition gop_ok_b (g : graph V) (sm : sem V M IX) (chk : bool) (s : store V) (o : op V M IX) : bool :=
  match o with
  | RevertMask k m => match nth_error s k with Some st => gmask_ok_b g sm m st | None => true end
  | Set_ k i _ | Put k i _ _ _ =>
      match nth_error s k with
      | Some st => negb (i <? gn g) || negb (settable g i) || gunforked_ok_b chk st
      | None => true
      end
  | _ => true
  end.

Fixpoint gagree (g : graph V) (sm : sem V M IX) (fx : bool) (s : store V)
                (h : list (op V M IX * out V * bool)) : bool :=
  match h with
  | [] => true
  | (o, expected, ok) :: r =>
      let '(s', x) := step g sm fx s o in
      gout_eqb x expected && Bool.eqb (gop_ok_b g sm (negb fx) s o) ok && gagree g sm fx s' r
  end.

Fixpoint gdisciplined_b (g : graph V) (sm : sem V M IX) (fx chk : bool) (s : store V) (ops : list (op V M IX)) : bool :=
  match ops with
  | [] => true
  | o :: r => gop_ok_b g sm chk s o && gdisciplined_b g sm fx chk (fst (step g sm fx s o)) r
  end.

End Generic.

Arguments gwf_node {V}. Arguments gwf_b {V}. Arguments gout_eqb {V}. Arguments gmask_ok_b {V M IX}.
Arguments gunforked_ok_b {V}. Arguments gop_ok_b {V M IX}. Arguments gagree {V} veqb {M IX}.
Arguments gdisciplined_b {V M IX}.

(** * weighted values *)

Inductive wval := WPlain (x : xval) | WWt (v : list atom) (w : list bool).

Definition wbad : wval := WPlain XBad.

(** row-wise selection, any entry type: rows where the mask is [true] (rejected individuals) take the old entry *)
Fixpoint selp {A} (m : list bool) (o c : list A) : list A :=
  match m, o, c with
  | b :: m', x :: o', y :: c' => (if b then x else y) :: selp m' o' c'
  | _, _, _ => []
  end.

(** [_select(mask, old, cur)] (state.py:44-56): [torch.where] on the value AND on the weight *)
Definition wwhere (m : list bool) (old cur : wval) : option wval :=
  match old, cur with
  | WPlain o, WPlain c => option_map WPlain (xwhere m o c)
  | WWt ov ow, WWt cv cw =>
      if (length ov =? length m) && (length ow =? length m) && (length cv =? length m) && (length cw =? length m)
      then Some (WWt (selp m ov cv) (selp m ow cw)) else None
  | _, _ => None        (* a node that is weighted on one side only: outside the vocabulary *)
  end.

(** two rules that are NOT the code (kept as definitions for the discriminating examples): the values are selected
    row by row but the weight is taken from one side for all rows *)
Definition wwhere_old_weight (m : list bool) (old cur : wval) : option wval :=
  match old, cur with
  | WWt ov ow, WWt cv cw =>
      if (length ov =? length m) && (length ow =? length m) && (length cv =? length m) && (length cw =? length m)
      then Some (WWt (selp m ov cv) ow) else None
  | _, _ => wwhere m old cur
  end.

Definition wwhere_new_weight (m : list bool) (old cur : wval) : option wval :=
  match old, cur with
  | WWt ov ow, WWt cv cw =>
      if (length ov =? length m) && (length ow =? length m) && (length cv =? length m) && (length cw =? length m)
      then Some (WWt (selp m ov cv) cw) else None
  | _, _ => wwhere m old cur
  end.

(** [State.put] (state.py:494-507) with a plain [v]: on a plain value as in StateExec.v; on a weighted value (only derived
    nodes are weighted: the assignment that follows is refused) [old + v] adds to the values and keeps the weights
    ([WeightedTensor.__add__]), [old.index_put] does not exist (AttributeError: the crash class) *)
Definition wput (ix : option nat) (v : wval) (acc : bool) (old : wval) : option wval :=
  match v, old with
  | WPlain a, WPlain b => option_map WPlain (xput ix a acc b)
  | WPlain a, WWt ov ow =>
      match ix with
      | None => match xput None a acc (XP ov) with Some (XP r) => Some (WWt r ow) | _ => None end
      | Some _ => None
      end
  | _, _ => None
  end.

Definition wsem_where : sem wval (list bool) nat := mkSem wput wwhere.
Definition wsem_old_weight : sem wval (list bool) nat := mkSem wput wwhere_old_weight.
Definition wsem_new_weight : sem wval (list bool) nat := mkSem wput wwhere_new_weight.

(** * node functions *)

Definition aff (c0 c : Z) (x : atom) : atom := aadd (AFin c0) (amul (AFin c) x).

(** [x >= thr] on one entry (NaN compares false; an entry outside the exact vocabulary keeps the value [AOff], which
    marks the row as unknown for everything computed from it) *)
Definition age (thr : Z) (x : atom) : bool :=
  match x with AFin z => (thr <=? z)%Z | APInf => true | _ => false end.

(** one entry of [weighted_value]: [weight * value.masked_fill(weight == 0, 0)] *)
Definition wv_atom (v : atom) (w : bool) : atom :=
  match v with AOff => AOff | _ => if w then v else AFin 0 end.

(** one entry of [weight.to(dtype)] *)
Definition ww_atom (v : atom) (w : bool) : atom :=
  match v with AOff => AOff | _ => AFin (if w then 1 else 0) end.

Inductive wfun :=
| WOld (f : nfun)
| WThr (c0 c thr : Z)
| WMap (c0 c : Z)
| WVal (c0 c : Z)
| WWgt (c0 c : Z)
| WSum (c0 c : Z)
| WCnt (c0 c : Z).

Fixpoint unplain (l : list wval) : option (list xval) :=
  match l with
  | [] => Some []
  | WPlain x :: r => match unplain r with Some r' => Some (x :: r') | None => None end
  | _ :: _ => None
  end.

Definition is_off (a : atom) : bool := match a with AOff => true | _ => false end.

Definition eval_wfun (f : wfun) (args : list wval) : wval :=
  match f, args with
  | WOld h, _ => match unplain args with Some xs => WPlain (eval_nfun h xs) | None => wbad end
  | WThr c0 c thr, [WPlain (XP l)] => WWt (map (aff c0 c) l) (map (age thr) l)
  | WMap c0 c, [WWt v w] => WWt (map (aff c0 c) v) w
  | WVal c0 c, [WWt v w] => if length v =? length w then WPlain (XP (map (aff c0 c) (map2 wv_atom v w))) else wbad
  | WWgt c0 c, [WWt v w] => if length v =? length w then WPlain (XP (map (aff c0 c) (map2 ww_atom v w))) else wbad
  | WSum c0 c, [WWt v w] =>
      if length v =? length w then WPlain (XS (aff c0 c (fold_left aadd (map2 wv_atom v w) (AFin 0)))) else wbad
  | WCnt c0 c, [WWt v w] =>
      if (length v =? length w) && negb (existsb is_off v)
      then WPlain (XS (aff c0 c (AFin (Z.of_nat (length (filter (fun b : bool => b) w)))))) else wbad
  | _, _ => wbad
  end.

Record wspec := mkW {
  w_linked : bool; w_settable : bool; w_hyper : option wval; w_axis : bool;
  w_parents : list nat; w_anc : list nat; w_desc : list nat; w_fun : wfun }.

Definition wspec0 : wspec := mkW false false None false [] [] [] (WOld NLog2).

Definition mk_wgraph (l : list wspec) : graph wval :=
  mkGraph (length l)
    (fun i => w_linked (nth i l wspec0)) (fun i => w_settable (nth i l wspec0))
    (fun i => w_hyper (nth i l wspec0)) (fun i => w_axis (nth i l wspec0))
    (fun i => w_parents (nth i l wspec0)) (fun i => w_anc (nth i l wspec0)) (fun i => w_desc (nth i l wspec0))
    (fun i args => eval_wfun (w_fun (nth i l wspec0)) args).

(** * comparison with observed results: the weights are compared too, entry by entry *)
Fixpoint bools_eqb (a b : list bool) : bool :=
  match a, b with
  | [], [] => true
  | x :: a', y :: b' => Bool.eqb x y && bools_eqb a' b'
  | _, _ => false
  end.

Definition wval_eqb (a b : wval) : bool :=
  match a, b with
  | WPlain x, WPlain y => xval_eqb x y
  | WWt v w, WWt v' w' => atoms_eqb v v' && bools_eqb w w'
  | _, _ => false
  end.

Definition wop := op wval (list bool) nat.

Definition wwf_b : graph wval -> bool := gwf_b.

Definition check_wcase_with (sm : sem wval (list bool) nat) (fx : bool)
                            (c : list wspec * list (wop * out wval * bool)) : bool :=
  let g := mk_wgraph (fst c) in
  wwf_b g && gagree wval_eqb g sm fx (init_store g) (snd c).

Definition wdisciplined_b : graph wval -> sem wval (list bool) nat -> bool -> bool -> store wval -> list wop -> bool := gdisciplined_b.

(** the model's own "as if never proposed" check (C02): the reads listed in [probe], made after [ops], equal the reads made
    after the reference history [ref] (where the expected independent values are assigned directly) *)
Definition wreads_after (g : graph wval) (sm : sem wval (list bool) nat) (fx : bool) (ops : list wop) (probe : list nat) : list (out wval) :=
  let s := fst (run g sm fx (init_store g) ops) in
  map (fun i => snd (step g sm fx s (Get 0 i))) probe.

Fixpoint wouts_eqb (a b : list (out wval)) : bool :=
  match a, b with
  | [], [] => true
  | x :: a', y :: b' => gout_eqb wval_eqb x y && wouts_eqb a' b'
  | _, _ => false
  end.

Definition check_was_if (sm : sem wval (list bool) nat) (c : list wspec * list wop * list wop * list nat) : bool :=
  match c with (nodes, ops, ref, probe) =>
    let g := mk_wgraph nodes in
    wwf_b g && wouts_eqb (wreads_after g sm true ops probe) (wreads_after g sm true ref probe)
  end.

(** * the class for which [F_mix] is proved: every derived node carrying the individual axis has ONE parent and an
    entry-wise function (one-parent affine / log2 of StateExec.v, [WThr], [WMap], [WVal], [WWgt]) *)
Definition unary_fun_old (f : nfun) : bool :=
  match f with NAffine _ [_] => true | NLog2 => true | _ => false end.

Definition wunary_fun (f : wfun) : bool :=
  match f with
  | WOld h => unary_fun_old h
  | WThr _ _ _ | WMap _ _ | WVal _ _ | WWgt _ _ => true
  | WSum _ _ | WCnt _ _ => false
  end.

Definition wunary_axis_b (l : list wspec) : bool :=
  forallb (fun s => negb (w_linked s && w_axis s) ||
                    (match w_parents s with [_] => true | _ => false end) && wunary_fun (w_fun s)) l.

(** * the toy graph of the seeded defect (the demonstration's "since_onset"):
      0  x           per-individual, settable                         (the individual onset)
      1  w = WeightedTensor(0 + 1*x, weight = (x >= 3))               weight computed from x
      2  v = 0 + 1 * w.weighted_value                                 per individual
      3  n = 0 + 1 * w.weight.sum()                                   aggregate of the weight
      4  s = 0 + 1 * w.weighted_value.sum()                           aggregate that uses the weight *)
Definition onset_nodes : list wspec :=
  [ mkW false true None true [] [] [1; 2; 3; 4] (WOld NLog2);
    mkW true false None true [0] [0] [2; 3; 4] (WThr 0 1 3)%Z;
    mkW true false None true [1] [0; 1] [] (WVal 0 1)%Z;
    mkW true false None false [1] [0; 1] [] (WCnt 0 1)%Z;
    mkW true false None false [1] [0; 1] [] (WSum 0 1)%Z ].

(** x = [1, 5, 2, 7]; read v (caches w, v); x += [4, -4, 4, -4] (the weights of all four rows flip); read v;
    individuals 1 and 2 rejected *)
Definition onset_ops : list wop :=
  [ SetMode 0 (Some REF); Set_ 0 0 (Some (WPlain (XP [AFin 1; AFin 5; AFin 2; AFin 7]%Z))); Get 0 2;
    Put 0 0 None (WPlain (XP [AFin 4; AFin (-4); AFin 4; AFin (-4)]%Z)) true; Get 0 2;
    RevertMask 0 [false; true; true; false] ].

Definition wread_of (g : graph wval) (sm : sem wval (list bool) nat) (fx : bool) (ops : list wop) (k i : nat) : out wval :=
  snd (step g sm fx (fst (run g sm fx (init_store g) ops)) (Get k i)).

Definition wfresh_of (g : graph wval) (sm : sem wval (list bool) nat) (fx : bool) (ops : list wop) (k i : nat) : option (option wval) :=
  match nth_error (fst (run g sm fx (init_store g) ops)) k with
  | Some st => Some (scratch g (values st) i)
  | None => None
  end.
