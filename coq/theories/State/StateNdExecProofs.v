(** Proofs about the selection of n-d values (StateNdExec.v): what [revert(subset, right_broadcasting)] does to a value with a
    trailing shape, which calls are refused, and that the contract-restricted [nselect] is a restriction of [nselect_torch]. *)
From Coq Require Import List Arith Bool ZArith Lia.
From Leaspy Require Import State.StateModel State.StateExec State.StateWExec State.StateWExecProofs State.StateNdExec.
Import ListNotations.

(** * shapes *)
Lemma nats_eqb_eq a : forall b, nats_eqb a b = true <-> a = b.
Proof.
  induction a as [|x a IH]; intros [|y b]; cbn; split; intros H; try reflexivity; try discriminate.
  - apply andb_prop in H. destruct H as [H1 H2]. apply Nat.eqb_eq in H1. apply IH in H2. now subst.
  - injection H as -> ->. rewrite Nat.eqb_refl. cbn. now apply IH.
Qed.

Lemma nats_eqb_refl a : nats_eqb a a = true.
Proof. now apply nats_eqb_eq. Qed.

Lemma oshape_eqb_eq a b : oshape_eqb a b = true -> a = b /\ a <> None.
Proof. destruct a, b; cbn; try discriminate. intros H. apply nats_eqb_eq in H. subst. split; [reflexivity|discriminate]. Qed.

Lemma shape_TL_inv l sh : shape (TL l) = Some sh ->
  (l = [] /\ sh = [0]) \/ (l <> [] /\ exists s, sh = length l :: s /\ Forall (fun r => shape r = Some s) l).
Proof.
  cbn [shape]. destruct l as [|x l]; cbn [map].
  - intros H. injection H as <-. now left.
  - destruct (shape x) as [s|] eqn:Ex; [|discriminate].
    destruct (forallb (oshape_eqb (Some s)) (map shape l)) eqn:Ef; [|discriminate].
    intros H. injection H as <-. right. split; [discriminate|]. exists s. split; [reflexivity|].
    constructor; [exact Ex|]. rewrite forallb_forall in Ef. apply Forall_forall. intros r Hr.
    specialize (Ef (shape r) (in_map shape _ _ Hr)). apply oshape_eqb_eq in Ef. destruct Ef as [Ef _]. now symmetry.
Qed.

Lemma shape_TL_cons l n s : shape (TL l) = Some (n :: s) -> 0 < n ->
  length l = n /\ Forall (fun r => shape r = Some s) l.
Proof.
  intros H Hn. destruct (shape_TL_inv _ _ H) as [[-> E]|[_ [s' [E F]]]].
  - injection E; intros; subst; lia.
  - injection E; intros; subst. now split.
Qed.

Lemma shape_TL_len l n s : shape (TL l) = Some (n :: s) -> length l = n.
Proof.
  intros H. destruct (shape_TL_inv _ _ H) as [[-> E]|[_ [s' [E F]]]].
  - injection E; intros; subst; reflexivity.
  - injection E; intros; subst; reflexivity.
Qed.

Lemma shape_TL_rows l n s : shape (TL l) = Some (n :: s) -> l <> [] -> Forall (fun r => shape r = Some s) l.
Proof.
  intros H Hl. destruct (shape_TL_inv _ _ H) as [[-> E]|[_ [s' [E F]]]]; [congruence|]. injection E; intros; subst; assumption.
Qed.

Lemma shape_T0_or_TL t s : shape t = Some s -> s <> [] -> exists l, t = TL l.
Proof. destruct t as [a|l]; [cbn; intros H; injection H as <-; congruence | eauto]. Qed.

(** * right-broadcasting: rows, whatever the trailing shape *)

Lemma twhere_rb_inv m o c r : twhere (true, m) o c = Some r ->
  exists n s, shape o = Some (n :: s) /\ shape c = Some (n :: s) /\ n = length m /\ r = TL (selp m (rows o) (rows c)).
Proof.
  unfold twhere. destruct (shape o) as [so|] eqn:Eo; [|discriminate]. destruct (shape c) as [sc|] eqn:Ec; [|discriminate].
  destruct (nats_eqb so sc) eqn:E; [|discriminate]. apply nats_eqb_eq in E. subst sc.
  cbn [fst snd mdepth]. unfold fits. destruct so as [|n s]; cbn [nth_error]; [discriminate|].
  destruct (n =? length m) eqn:En; [|discriminate]. apply Nat.eqb_eq in En. intros H. injection H as <-.
  exists n, s. auto.
Qed.

(** row [j] of the result is the FORKED row where the mask says "revert" and the CURRENT row elsewhere — the rows being
    tensors of any shape *)
Theorem twhere_rows m o c r : twhere (true, m) o c = Some r ->
  length (rows r) = length m /\
  forall j b, nth_error m j = Some b ->
    nth_error (rows r) j = (if b then nth_error (rows o) j else nth_error (rows c) j).
Proof.
  intros H. destruct (twhere_rb_inv _ _ _ _ H) as [n [s [Eo [Ec [En ->]]]]]. cbn [rows].
  assert (Lo : length (rows o) = length m).
  { destruct o as [a|lo]; [cbn in Eo; discriminate|]. cbn [rows]. rewrite (shape_TL_len _ _ _ Eo). exact En. }
  assert (Lc : length (rows c) = length m).
  { destruct c as [a|lc]; [cbn in Ec; discriminate|]. cbn [rows]. rewrite (shape_TL_len _ _ _ Ec). exact En. }
  split; [now apply selp_length|]. intros j b Hb.
  assert (Hj : j < length m) by (apply nth_error_Some; congruence).
  rewrite selp_nth, Hb.
  destruct (nth_error (rows o) j) eqn:E1; [|apply nth_error_None in E1; lia].
  destruct (nth_error (rows c) j) eqn:E2; [|apply nth_error_None in E2; lia].
  now destruct b.
Qed.

(** values AND weights of a weighted value: row [j] of both comes from the same side *)
Theorem nselect_rows m ov ow cv cw r : nselect (true, m) (NW ov (Some ow)) (NW cv (Some cw)) = Some r ->
  exists rv rw, r = NW rv (Some rw) /\ length (rows rv) = length m /\ length (rows rw) = length m /\
  forall j b, nth_error m j = Some b ->
    nth_error (rows rv) j = (if b then nth_error (rows ov) j else nth_error (rows cv) j) /\
    nth_error (rows rw) j = (if b then nth_error (rows ow) j else nth_error (rows cw) j).
Proof.
  unfold nselect, nselect_with. cbn -[twhere].
  destruct (twhere (true, m) ov cv) as [rv|] eqn:Ev; [|discriminate].
  destruct (twhere (true, m) ow cw) as [rw|] eqn:Ew; [|discriminate].
  intros H. injection H as <-. exists rv, rw. split; [reflexivity|].
  destruct (twhere_rows _ _ _ _ Ev) as [Lv Hv]. destruct (twhere_rows _ _ _ _ Ew) as [Lw Hw].
  repeat split; auto.
Qed.

Theorem nselect_rows_plain m o c r : nselect (true, m) (NP o) (NP c) = Some r ->
  exists t, r = NP t /\ length (rows t) = length m /\
  forall j b, nth_error m j = Some b -> nth_error (rows t) j = (if b then nth_error (rows o) j else nth_error (rows c) j).
Proof.
  unfold nselect, nselect_with. destruct (twhere (true, m) o c) as [t|] eqn:E; cbn; [|discriminate].
  intros H. injection H as <-. exists t. split; [reflexivity|]. exact (twhere_rows _ _ _ _ E).
Qed.

(** * left-broadcasting ([right_broadcasting=False]): the mask is aligned on the LAST axis *)

(** the sub-tensor at an index path *)
Fixpoint tsub (p : list nat) (t : tens) : option tens :=
  match p with
  | [] => Some t
  | j :: p' => match nth_error (rows t) j with Some r => tsub p' r | None => None end
  end.

Lemma nth_error_map2 {A B C} (f : A -> B -> C) : forall la lb j,
  nth_error (map2 f la lb) j = match nth_error la j, nth_error lb j with Some a, Some b => Some (f a b) | _, _ => None end.
Proof.
  induction la as [|a la IH]; intros lb j.
  - cbn. destruct j; reflexivity.
  - destruct lb as [|b lb]; [cbn; destruct j; cbn; [reflexivity|now destruct (nth_error la j)]|].
    destruct j; cbn; [reflexivity|apply IH].
Qed.

Lemma nsel_sub m : forall d p o c o' c', length p = d -> tsub p o = Some o' -> tsub p c = Some c' ->
  tsub p (nsel d m o c) = Some (TL (selp m (rows o') (rows c'))).
Proof.
  induction d as [|d IH]; intros p o c o' c' Hp Ho Hc.
  - destruct p; [|discriminate]. cbn in *. injection Ho as <-. injection Hc as <-. reflexivity.
  - destruct p as [|j p]; [discriminate|]. cbn [length] in Hp. injection Hp as Hp. cbn [tsub] in *.
    cbn [nsel rows]. rewrite nth_error_map2.
    destruct (nth_error (rows o) j) as [oj|]; [|discriminate]. destruct (nth_error (rows c) j) as [cj|]; [|discriminate].
    exact (IH p oj cj o' c' Hp Ho Hc).
Qed.

(** every innermost vector of the result (index path [p] over all axes but the last) is the entry-by-entry selection of the
    two innermost vectors at the same path: entry [i] from the forked side where [m i] holds *)
Theorem twhere_last_axis m o c r s : twhere (false, m) o c = Some r -> shape o = Some s ->
  forall p o' c', length p = length s - 1 -> tsub p o = Some o' -> tsub p c = Some c' ->
    tsub p r = Some (TL (selp m (rows o') (rows c'))).
Proof.
  unfold twhere. intros H Es. rewrite Es in H. destruct (shape c) as [sc|]; [|discriminate].
  destruct (nats_eqb s sc); [|discriminate]. cbn [fst snd mdepth] in H.
  destruct (fits (length s - 1) m s); [|discriminate]. injection H as <-.
  intros p o' c' Hp Ho Hc. now apply nsel_sub.
Qed.

(** for a 1-d value the two alignments coincide *)
Lemma twhere_1d m rb o c n : shape o = Some [n] -> twhere (rb, m) o c = twhere (true, m) o c.
Proof. intros E. unfold twhere. rewrite E. destruct (shape c); [|reflexivity]. destruct (nats_eqb [n] l); [|reflexivity]. now destruct rb. Qed.

(** * refusals *)

(** (1) the assertion [old_v.shape == cur_v.shape] of [revert] (state.py:580-582) *)
Theorem twhere_torch_bad_shapes mk o c : shape o <> shape c -> twhere_torch mk o c = None /\ twhere mk o c = None.
Proof.
  intros H. unfold twhere_torch, twhere. destruct (shape o) as [so|]; [|now split]. destruct (shape c) as [sc|]; [|now split].
  destruct (nats_eqb so sc) eqn:E; [|now split]. apply nats_eqb_eq in E. congruence.
Qed.

Lemma sel_axis_refuses {A} (m : list bool) (o c : list A) :
  length o <> length m -> length m <> 1 -> length o <> 1 -> sel_axis m o c = None.
Proof.
  intros H1 H2 H3. unfold sel_axis. apply Nat.eqb_neq in H1. rewrite H1.
  destruct m as [|b [|b' m]]; cbn in H2; try lia;
    destruct o as [|x [|x' o]]; destruct c as [|y [|y' c]]; cbn in *; try lia; try discriminate; try reflexivity.
Qed.

Lemma nsel_t_refuses m : forall d o c s k, shape o = Some s -> shape c = Some s ->
  nth_error s d = Some k -> Forall (fun n => 0 < n) (firstn d s) ->
  k <> length m -> length m <> 1 -> k <> 1 -> nsel_t d m o c = None.
Proof.
  induction d as [|d IH]; intros o c s k Eo Ec Ek Hpos H1 H2 H3.
  - destruct s as [|n s]; [discriminate|]. cbn in Ek. injection Ek as ->.
    destruct (shape_T0_or_TL o _ Eo ltac:(discriminate)) as [lo ->]. cbn [nsel_t rows].
    rewrite sel_axis_refuses; [reflexivity| |assumption|]; rewrite (shape_TL_len _ _ _ Eo); assumption.
  - destruct s as [|n s]; [discriminate|]. cbn [nth_error firstn] in Ek, Hpos. inversion Hpos as [|? ? Hn Hpos']; subst.
    destruct (shape_T0_or_TL o _ Eo ltac:(discriminate)) as [lo ->].
    destruct (shape_T0_or_TL c _ Ec ltac:(discriminate)) as [lc ->].
    destruct (shape_TL_cons _ _ _ Eo Hn) as [Lo Fo]. destruct (shape_TL_cons _ _ _ Ec Hn) as [Lc Fc].
    cbn [nsel_t rows]. destruct lo as [|x lo]; [cbn in Lo; lia|]. destruct lc as [|y lc]; [cbn in Lc; lia|].
    inversion Fo; subst. inversion Fc; subst. cbn [mapM2].
    rewrite (IH x y s k); auto.
Qed.

(** (2) torch's broadcasting error: the mask has neither the length of the axis it is aligned on nor length 1, and that axis has
    not length 1 (all the axes before it being non-empty) *)
Theorem twhere_torch_refuses rb m o c s k : shape o = Some s -> shape c = Some s ->
  nth_error s (mdepth rb s) = Some k -> Forall (fun n => 0 < n) (firstn (mdepth rb s) s) ->
  k <> length m -> length m <> 1 -> k <> 1 -> twhere_torch (rb, m) o c = None.
Proof.
  intros Eo Ec Ek Hpos H1 H2 H3. unfold twhere_torch. rewrite Eo, Ec, nats_eqb_refl. cbn [fst snd].
  destruct s as [|n s]; [destruct (mdepth rb []); discriminate|].
  destruct (shape_T0_or_TL o _ Eo ltac:(discriminate)) as [lo ->].
  exact (nsel_t_refuses m _ _ _ _ _ Eo Ec Ek Hpos H1 H2 H3).
Qed.

(** (3) the contract-restricted selection refuses in addition whatever would change the shape: a 0-d value, a mask that does not
    have exactly the length of its axis *)
Theorem twhere_needs_fit rb m o c s : shape o = Some s -> nth_error s (mdepth rb s) <> Some (length m) -> twhere (rb, m) o c = None.
Proof.
  intros Eo H. unfold twhere. rewrite Eo. destruct (shape c) as [sc|]; [|reflexivity]. destruct (nats_eqb s sc); [|reflexivity].
  cbn [fst snd]. unfold fits. destruct (nth_error s (mdepth rb s)) as [k|]; [|reflexivity].
  destruct (k =? length m) eqn:E; [|reflexivity]. apply Nat.eqb_eq in E. congruence.
Qed.

(** * the contract-restricted selection is a restriction of what torch does *)

Lemma mapM2_map2 {A B C} (f : A -> B -> option C) (g : A -> B -> C) : forall la lb,
  length la = length lb -> (forall a b, In a la -> In b lb -> f a b = Some (g a b)) ->
  mapM2 f la lb = Some (map2 g la lb).
Proof.
  induction la as [|a la IH]; intros [|b lb] L H; cbn in *; try discriminate; [reflexivity|].
  rewrite (H a b) by auto. rewrite IH by (auto; lia). reflexivity.
Qed.

Lemma nsel_t_nsel m : forall d o c s, shape o = Some s -> shape c = Some s -> fits d m s = true ->
  nsel_t d m o c = Some (nsel d m o c).
Proof.
  induction d as [|d IH]; intros o c s Eo Ec Hf; unfold fits in Hf.
  - destruct s as [|n s]; [discriminate|]. cbn in Hf. apply Nat.eqb_eq in Hf.
    destruct (shape_T0_or_TL o _ Eo ltac:(discriminate)) as [lo ->].
    cbn [nsel_t nsel rows]. unfold sel_axis. rewrite (shape_TL_len _ _ _ Eo), Hf, Nat.eqb_refl. reflexivity.
  - destruct s as [|n s]; [discriminate|]. cbn [nth_error] in Hf.
    destruct (shape_T0_or_TL o _ Eo ltac:(discriminate)) as [lo ->].
    destruct (shape_T0_or_TL c _ Ec ltac:(discriminate)) as [lc ->].
    cbn [nsel_t nsel rows].
    assert (L : length lo = length lc) by (rewrite (shape_TL_len _ _ _ Eo), (shape_TL_len _ _ _ Ec); reflexivity).
    destruct lo as [|x lo].
    + destruct lc; [reflexivity|discriminate].
    + destruct lc as [|y lc]; [discriminate|].
      pose proof (shape_TL_rows _ _ _ Eo ltac:(discriminate)) as Fo. pose proof (shape_TL_rows _ _ _ Ec ltac:(discriminate)) as Fc.
      rewrite Forall_forall in Fo, Fc.
      rewrite (mapM2_map2 (nsel_t d m) (nsel d m)); [reflexivity|exact L|].
      intros a b Ha Hb. apply (IH a b s); auto.
Qed.

Theorem twhere_sub_torch mk o c r : twhere mk o c = Some r -> twhere_torch mk o c = Some r.
Proof.
  unfold twhere, twhere_torch. destruct (shape o) as [so|] eqn:Eo; [|discriminate]. destruct (shape c) as [sc|] eqn:Ec; [|discriminate].
  destruct (nats_eqb so sc) eqn:E; [|discriminate]. apply nats_eqb_eq in E. subst sc.
  destruct (fits (mdepth (fst mk) so) (snd mk) so) eqn:Hf; [|discriminate]. intros H. injection H as <-.
  destruct so as [|n s]; [unfold fits in Hf; destruct (mdepth (fst mk) []); discriminate|].
  destruct (shape_T0_or_TL o _ Eo ltac:(discriminate)) as [lo ->].
  exact (nsel_t_nsel _ _ _ _ _ Eo Ec Hf).
Qed.

Ltac sub_torch :=
  repeat (match goal with
          | |- context [twhere ?a ?b ?c] =>
              let E := fresh "E" in destruct (twhere a b c) eqn:E; [rewrite (twhere_sub_torch _ _ _ _ E)|]
          end; cbn -[twhere twhere_torch ones_like]); try discriminate; auto.

Theorem nselect_sub_torch mk old cur r : nselect mk old cur = Some r -> nselect_torch mk old cur = Some r.
Proof.
  unfold nselect, nselect_torch, nselect_with.
  destruct old as [o|ov [ow|]|], cur as [c|cv [cw|]|]; cbn -[twhere twhere_torch ones_like]; try discriminate; sub_torch.
Qed.

Theorem nselect_old_sub_torch mk old cur r : nselect_old mk old cur = Some r -> nselect_torch_old mk old cur = Some r.
Proof.
  unfold nselect_old, nselect_torch_old, nselect_with.
  destruct old as [o|ov [ow|]|], cur as [c|cv [cw|]|]; cbn -[twhere twhere_torch]; try discriminate; sub_torch.
Qed.

(** the repair changes nothing for two sides of the same kind *)
Theorem nselect_same_kind_unchanged mk old cur : nselect_old mk old cur <> None -> nselect mk old cur = nselect_old mk old cur.
Proof.
  unfold nselect, nselect_old, nselect_with.
  destruct old as [o|ov [ow|]|], cur as [c|cv [cw|]|]; cbn -[twhere ones_like]; intros H; try reflexivity; now elim H.
Qed.

(** the result of the contract-restricted selection has the shape of the two sides *)
Lemma selp_Forall {A} (P : A -> Prop) m : forall o c, Forall P o -> Forall P c -> Forall P (selp m o c).
Proof.
  induction m as [|b m IH]; intros [|x o] [|y c] Ho Hc; cbn; try constructor.
  - inversion Ho; inversion Hc; subst. now destruct b.
  - inversion Ho; inversion Hc; subst. now apply IH.
Qed.

Lemma shape_TL_intro l s : l <> [] -> Forall (fun r => shape r = Some s) l -> shape (TL l) = Some (length l :: s).
Proof.
  intros Hl F. destruct l as [|x l]; [congruence|]. cbn [shape map]. inversion F as [|? ? Hx Hr]; subst. rewrite Hx.
  replace (forallb (oshape_eqb (Some s)) (map shape l)) with true; [reflexivity|].
  symmetry. apply forallb_forall. intros q Hq. apply in_map_iff in Hq. destruct Hq as [r [<- Hr']].
  rewrite Forall_forall in Hr. rewrite (Hr r Hr'). cbn. apply nats_eqb_refl.
Qed.

Lemma map2_Forall {A B C} (P : C -> Prop) (f : A -> B -> C) : forall la lb,
  (forall a b, In a la -> In b lb -> P (f a b)) -> Forall P (map2 f la lb).
Proof. induction la as [|a la IH]; intros [|b lb] H; cbn; constructor; [apply H; cbn; auto|apply IH; intros; apply H; cbn; auto]. Qed.

Lemma map2_length_min {A B C} (f : A -> B -> C) : forall la lb, length la = length lb -> length (map2 f la lb) = length la.
Proof. induction la as [|a la IH]; intros [|b lb] L; cbn in *; try discriminate; [reflexivity|]. rewrite IH; lia. Qed.

Lemma nsel_shape m : forall d o c s, shape o = Some s -> shape c = Some s -> fits d m s = true -> shape (nsel d m o c) = Some s.
Proof.
  induction d as [|d IH]; intros o c s Eo Ec Hf; unfold fits in Hf.
  - destruct s as [|n s]; [discriminate|]. cbn in Hf. apply Nat.eqb_eq in Hf. subst n.
    destruct (shape_T0_or_TL o _ Eo ltac:(discriminate)) as [lo ->]. destruct (shape_T0_or_TL c _ Ec ltac:(discriminate)) as [lc ->].
    cbn [nsel rows]. pose proof (shape_TL_len _ _ _ Eo) as Lo. pose proof (shape_TL_len _ _ _ Ec) as Lc.
    destruct m as [|b m].
    + destruct lo; [|discriminate]. cbn in Eo. injection Eo as <-. reflexivity.
    + assert (lo <> []) by (destruct lo; [discriminate|congruence]). assert (lc <> []) by (destruct lc; [discriminate|congruence]).
      rewrite (shape_TL_intro _ s); [now rewrite selp_length| |].
      * destruct lo; [congruence|]. destruct lc; [congruence|]. cbn. discriminate.
      * apply selp_Forall; [exact (shape_TL_rows _ _ _ Eo H)|exact (shape_TL_rows _ _ _ Ec H0)].
  - destruct s as [|n s]; [discriminate|]. cbn [nth_error] in Hf.
    destruct (shape_T0_or_TL o _ Eo ltac:(discriminate)) as [lo ->]. destruct (shape_T0_or_TL c _ Ec ltac:(discriminate)) as [lc ->].
    cbn [nsel rows]. pose proof (shape_TL_len _ _ _ Eo) as Lo. pose proof (shape_TL_len _ _ _ Ec) as Lc.
    destruct lo as [|x lo].
    + cbn in Lo. subst n. destruct lc; [|discriminate]. cbn. cbn in Eo. now injection Eo as <-.
    + destruct lc as [|y lc]; [cbn in *; lia|].
      pose proof (shape_TL_rows _ _ _ Eo ltac:(discriminate)) as Fo. pose proof (shape_TL_rows _ _ _ Ec ltac:(discriminate)) as Fc.
      rewrite Forall_forall in Fo, Fc.
      rewrite (shape_TL_intro _ s).
      * rewrite map2_length_min by lia. now rewrite Lo.
      * cbn. discriminate.
      * apply map2_Forall. intros a b Ha Hb. apply IH; auto.
Qed.

Theorem twhere_keeps_shape mk o c r : twhere mk o c = Some r -> shape r = shape o /\ shape r = shape c.
Proof.
  unfold twhere. destruct (shape o) as [so|] eqn:Eo; [|discriminate]. destruct (shape c) as [sc|] eqn:Ec; [|discriminate].
  destruct (nats_eqb so sc) eqn:E; [|discriminate]. apply nats_eqb_eq in E. subst sc.
  destruct (fits (mdepth (fst mk) so) (snd mk) so) eqn:Hf; [|discriminate]. intros H. injection H as <-.
  rewrite (nsel_shape _ _ _ _ _ Eo Ec Hf). now split.
Qed.

(** * concrete values: a (3, 2) value, both alignments, the refusals, the two wrong rules *)
Local Open Scope Z_scope.
Definition vec (l : list Z) : tens := TL (map (fun z => T0 (AFin z)) l).
Definition mat (l : list (list Z)) : tens := TL (map vec l).

Example nd_select_examples :
  (* right-broadcasting: rows 0 and 2 forked, row 1 current *)
  twhere (true, [true; false; true]) (mat [[1;2];[3;4];[5;6]]) (mat [[10;20];[30;40];[50;60]]) = Some (mat [[1;2];[30;40];[5;6]]) /\
  (* right_broadcasting=False: the mask (length 2) is aligned on the LAST axis: column 0 forked, column 1 current *)
  twhere (false, [true; false]) (mat [[1;2];[3;4];[5;6]]) (mat [[10;20];[30;40];[50;60]]) = Some (mat [[1;20];[3;40];[5;60]]) /\
  (* refused by torch: the per-individual mask (length 3) against the last axis (length 2), and conversely *)
  twhere_torch (false, [true; false; true]) (mat [[1;2];[3;4];[5;6]]) (mat [[10;20];[30;40];[50;60]]) = None /\
  twhere_torch (true, [true; false]) (mat [[1;2];[3;4];[5;6]]) (mat [[10;20];[30;40];[50;60]]) = None /\
  (* refused by the assertion of [revert]: the two sides have different shapes *)
  twhere_torch (true, [true; false]) (mat [[1;2];[3;4]]) (vec [1;2]) = None /\
  (* accepted by torch, outside the contract (the shape changes): a (3, 1) value with [right_broadcasting=False] becomes (3, 2);
     a value with one row is expanded to the length of the mask; a 0-d value becomes 1-d *)
  twhere_torch (false, [true; false]) (mat [[1];[3];[5]]) (mat [[10];[30];[50]]) = Some (mat [[1;10];[3;30];[5;50]]) /\
  twhere (false, [true; false]) (mat [[1];[3];[5]]) (mat [[10];[30];[50]]) = None /\
  twhere_torch (true, [true; false; true]) (mat [[1;2]]) (mat [[10;20]]) = Some (mat [[1;2];[10;20];[1;2]]) /\
  twhere (true, [true; false; true]) (mat [[1;2]]) (mat [[10;20]]) = None /\
  twhere_torch (true, [true; false]) (T0 (AFin 1)) (T0 (AFin 10)) = Some (vec [1; 10]) /\
  (* a weighted (2, 2) value with NON-boolean weights: value and weight of row 1 forked, of row 0 current *)
  nselect (true, [false; true]) (NW (mat [[1;2];[3;4]]) (Some (mat [[2;0];[0;5]]))) (NW (mat [[10;20];[30;40]]) (Some (mat [[0;3];[1;1]])))
    = Some (NW (mat [[10;20];[3;4]]) (Some (mat [[0;3];[0;5]]))) /\
  (* the two rules that are NOT the code give something else on the same input *)
  nselect_old_weight (true, [false; true]) (NW (mat [[1;2];[3;4]]) (Some (mat [[2;0];[0;5]]))) (NW (mat [[10;20];[30;40]]) (Some (mat [[0;3];[1;1]])))
    = Some (NW (mat [[10;20];[3;4]]) (Some (mat [[2;0];[0;5]]))) /\
  nselect_wrong_side (true, [false; true]) (NW (mat [[1;2];[3;4]]) (Some (mat [[2;0];[0;5]]))) (NW (mat [[10;20];[30;40]]) (Some (mat [[0;3];[1;1]])))
    = Some (NW (mat [[10;2];[30;4]]) (Some (mat [[0;0];[1;5]]))) /\
  (* a value weighted on ONE side only: the rows of the side without weight are fully weighted (1); before the repair they took the OTHER
     side's weight, and the contract had to exclude such pairs *)
  nselect_torch (true, [true; false]) (NW (vec [5;7]) None) (NW (vec [1;2]) (Some (vec [0;1]))) = Some (NW (vec [5;2]) (Some (vec [1;1]))) /\
  nselect (true, [true; false]) (NW (vec [5;7]) None) (NW (vec [1;2]) (Some (vec [0;1]))) = Some (NW (vec [5;2]) (Some (vec [1;1]))) /\
  nselect (true, [false; true]) (NP (vec [5;7])) (NW (vec [1;2]) (Some (vec [0;3]))) = Some (NW (vec [1;7]) (Some (vec [0;1]))) /\
  nselect_torch_old (true, [true; false]) (NW (vec [5;7]) None) (NW (vec [1;2]) (Some (vec [0;1]))) = Some (NW (vec [5;2]) (Some (vec [0;1]))) /\
  nselect_old (true, [true; false]) (NW (vec [5;7]) None) (NW (vec [1;2]) (Some (vec [0;1]))) = None.
Proof. vm_compute. repeat split. Qed.
