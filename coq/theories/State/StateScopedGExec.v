(** The executable comparison of StateScopedExec.v (histories with [with state.auto_fork(m):] blocks against what the
    implementation did, entry by entry) written once for ANY value type with a boolean comparison — definitions only — and
    its instances at the weighted values of StateWExec.v and at the n-d values of StateNdExec.v.  StateScoped.v itself is
    generic in the value type; only the checker of the tie was tied to [xval]. *)
From Coq Require Import List Arith Bool ZArith.
From Leaspy Require Import State.StateModel State.StateExec State.StateScoped State.StateScopedExec State.StateWExec State.StateNdExec.
Import ListNotations.

Section GenericScoped.
Variable V : Type.
Variable veqb : V -> V -> bool.
Variables M IX : Type.

Inductive gobs :=
| GOut (r : out V)
| GSeen (k : nat) (m : option fork_type) (fk : option (list (nat * option V)))
| GBadH (k : nat).

Definition goval_eqb (a b : option V) : bool :=
  match a, b with None, None => true | Some x, Some y => veqb x y | _, _ => false end.

Fixpoint gforkd_eqb (a b : list (nat * option V)) : bool :=
  match a, b with
  | [], [] => true
  | (i, x) :: r, (j, y) :: r' => Nat.eqb i j && goval_eqb x y && gforkd_eqb r r'
  | _, _ => false
  end.

Definition gofork_eqb (a b : option (list (nat * option V))) : bool :=
  match a, b with None, None => true | Some x, Some y => gforkd_eqb x y | _, _ => false end.

Definition gobs_matches (o : obs V M IX) (x : gobs) : bool :=
  match o, x with
  | OOut _ r, GOut r' => gout_eqb veqb r r'
  | OSeen k m f, GSeen k' m' f' => Nat.eqb k k' && mode_eqb m m' && gofork_eqb f f'
  | OBad k, GBadH k' => Nat.eqb k k'
  | _, _ => false
  end.

Definition gev_ok_b (g : graph V) (sm : sem V M IX) (chk : bool) (e : event V M IX) : bool :=
  match snd e with EOp o => gop_ok_b g sm chk (fst e) o | _ => true end.

Fixpoint gtagree (g : graph V) (sm : sem V M IX) (fx : bool) (t : list (event V M IX)) (expected : list (gobs * bool)) : bool :=
  match t, expected with
  | [], [] => true
  | e :: r, (x, ok) :: r' =>
      gobs_matches (obs_of g sm fx e) x && Bool.eqb (gev_ok_b g sm (negb fx) e) ok && gtagree g sm fx r r'
  | _, _ => false
  end.

Definition gsdisciplined_b (g : graph V) (sm : sem V M IX) (fx chk : bool) (s : store V) (h : list (sop V M IX)) : bool :=
  forallb (gev_ok_b g sm chk) (snd (srun g sm fx s h)).

Fixpoint gblk (l : list (sop V M IX)) : sblock V M IX := match l with [] => SNil | x :: r => SCons x (gblk r) end.

End GenericScoped.

Arguments GOut {V}. Arguments GSeen {V}. Arguments GBadH {V}.
Arguments gobs_matches {V} veqb {M IX}. Arguments gev_ok_b {V M IX}. Arguments gtagree {V} veqb {M IX}.
Arguments gsdisciplined_b {V M IX}. Arguments gblk {V M IX}.

(** ** weighted values *)
Definition wsop := sop wval (list bool) nat.
Definition wblk : list wsop -> sblock wval (list bool) nat := gblk.
Definition check_wscase_with (sm : sem wval (list bool) nat) (fx : bool)
                             (c : list wspec * list wsop * list (gobs wval * bool)) : bool :=
  let g := mk_wgraph (fst (fst c)) in
  wwf_b g && gtagree wval_eqb g sm fx (snd (srun g sm fx (init_store g) (snd (fst c)))) (snd c).

(** ** n-d values *)
Definition nsop := sop nval nmask nat.
Definition nblk : list nsop -> sblock nval nmask nat := gblk.
Definition check_nscase_with (sm : sem nval nmask nat) (fx : bool)
                             (c : list dspec * list nsop * list (gobs nval * bool)) : bool :=
  let g := mk_ngraph (fst (fst c)) in
  gwf_b g && gtagree nval_eqb g sm fx (snd (srun g sm fx (init_store g) (snd (fst c)))) (snd c).
