(** Model of [leaspy.variables.state.State] (src/leaspy/variables/state.py) — definitions only.

    Nodes are [nat] indices in the topological order the code itself uses
    ([VariablesDAG.sorted_variables_names], the order of [for n in self.dag]).
    The model is generic in the value type [V], the type [M] of revert masks and the type [IX] of
    [put] indices.  What torch does on values is a record of functions [sem] that stays a visible
    parameter of every theorem.

    [fx] ("clear_fork_on_unforked_set") selects between the two variants of [__setitem__]:
    [fx = true] is the code as it is since commit 27ac519 (an assignment made while [auto_fork_type is None]
    also forgets [_last_fork] — the repair of finding F1), [fx = false] the code before it.  StateNow.v fixes
    [fx = true]; the harness checks on every run which variant the tree under test contains. *)
From Coq Require Import List Arith Bool Lia.
Import ListNotations.
Set Implicit Arguments.

Inductive err := InputError | Crash.
(** [InputError] = LeaspyInputError; [Crash] = any other exception (TypeError from a node function
    called on None, IndexError from index_put, an unknown state handle of the harness). *)

Inductive fork_type := REF | COPY.

Section Model.
Variables V M IX : Type.

(** The stateless DAG ([VariablesDAG]) and the variable specs ([specs.py]). *)
Record graph := mkGraph {
  gn : nat;                          (* number of nodes; names outside [0, gn) are unknown *)
  linked : nat -> bool;              (* LinkedVariable *)
  settable : nat -> bool;            (* VariableInterface.is_settable *)
  hyper : nat -> option V;           (* Hyperparameter.value *)
  ind_axis : nat -> bool;            (* value carries the individual axis (used by partial reverts only) *)
  parents : nat -> list nat;         (* LinkedVariable.parameters, as indices *)
  anc : nat -> list nat;             (* dag.sorted_ancestors[name] *)
  desc : nat -> list nat;            (* dag.sorted_children[name] *)
  F : nat -> list V -> V             (* LinkedVariable.f on the values of [parents] *)
}.

(** torch-level operations on values. *)
Record sem := mkSem {
  put_val : option IX -> V -> bool -> V -> option V;
     (* [put_val ix v acc old]: [old + v] / [old.index_put(ix, v, accumulate=acc)]; None = torch raised *)
  mix : M -> V -> V -> option V
     (* [mix m old cur] = old * m + cur * ~m  (right-broadcast), state.py:563-570;
        None = the shape assertion failed or torch could not broadcast *)
}.

Variable g : graph.
Variable sm : sem.
Variable fx : bool.

(** [State._values]: name -> value or None. *)
Definition vals := nat -> option V.

Definition upd (vs : vals) (k : nat) (o : option V) : vals :=
  fun j => if Nat.eqb j k then o else vs j.

Definition is_some {A} (o : option A) : bool := match o with Some _ => true | None => false end.

Fixpoint mapM (vs : vals) (l : list nat) : option (list V) :=
  match l with
  | [] => Some []
  | p :: r => match vs p, mapM vs r with Some v, Some vr => Some (v :: vr) | _, _ => None end
  end.

(** [self.dag[name].compute(self._values)] followed by the [value is None] test of
    [_get_or_compute_and_cache] (state.py:315-319). *)
Inductive cres := COk (v : V) | CUnset | CCrash.

Definition compute (vs : vals) (k : nat) : cres :=
  if linked g k then
    match mapM vs (parents g k) with
    | Some args => COk (F g k args)
    | None => CCrash                 (* a node function called on a None argument *)
    end
  else CUnset.                       (* IndepVariable.compute returns None -> LeaspyInputError *)

(** The loop [for parent in sorted_ancestors[name]: _get_or_compute_and_cache(parent)] (state.py:345)
    and the loop of [precompute_all] (state.py:509).  An error leaves what was cached so far. *)
Fixpoint walk (vs : vals) (l : list nat) : vals * option err :=
  match l with
  | [] => (vs, None)
  | a :: r =>
      match vs a with
      | Some _ => walk vs r
      | None =>
          match compute vs a with
          | COk v => walk (upd vs a (Some v)) r
          | CUnset => (vs, Some InputError)
          | CCrash => (vs, Some Crash)
          end
      end
  end.

Inductive out := Ok (v : V) | OkB (b : bool) | Done | Err (e : err).

(** [State.__getitem__] (state.py:323-347). *)
Definition get (vs : vals) (i : nat) : vals * out :=
  if negb (i <? gn g) then (vs, Err InputError)          (* _check_key_exists *)
  else match vs i with
       | Some v => (vs, Ok v)
       | None =>
           let '(vs', e) := walk vs (anc g i) in
           match e with
           | Some e => (vs', Err e)
           | None =>
               match compute vs' i with                    (* force_computation=True *)
               | COk v => (upd vs' i (Some v), Ok v)
               | CUnset => (vs', Err InputError)
               | CCrash => (vs', Err Crash)
               end
           end
       end.

Definition mem (j : nat) (l : list nat) : bool := existsb (Nat.eqb j) l.

Definition reset_list (vs : vals) (l : list nat) : vals :=
  fun j => if mem j l then None else vs j.

(** [_last_fork]: a dict name -> value-or-None; python dict keys are unique, so
    [dict.update] is "first match wins". *)
Definition forkd := list (nat * option V).

Fixpoint assoc (j : nat) (fk : forkd) : option (option V) :=
  match fk with
  | [] => None
  | (k, o) :: r => if Nat.eqb j k then Some o else assoc j r
  end.

(** [self._values.update(self._last_fork)] (state.py:553). *)
Definition override (vs : vals) (fk : forkd) : vals :=
  fun j => match assoc j fk with Some o => o | None => vs j end.

(** the loop of the partial revert (state.py:558-572): None if either side is unset; an exception in the
    middle of the loop leaves the entries already processed modified (and [_last_fork] in place). *)
Fixpoint revert_items (m : M) (vs : vals) (fk : forkd) : vals * bool :=
  match fk with
  | [] => (vs, true)
  | (k, old) :: r =>
      match old, vs k with
      | Some o, Some c => match mix sm m o c with
                          | Some x => revert_items m (upd vs k (Some x)) r
                          | None => (vs, false)
                          end
      | _, _ => revert_items m (upd vs k None) r
      end
  end.

(** the same, entry by entry (what the loop computes when nothing raises; used in the proofs) *)
Definition revert_mask (m : M) (vs : vals) (fk : forkd) : vals :=
  fun j => match assoc j fk with
           | Some old => match old, vs j with
                         | Some o, Some c => mix sm m o c
                         | _, _ => None
                         end
           | None => vs j
           end.

Record state := mkState {
  values : vals;                     (* _values *)
  fork : option forkd;               (* _last_fork *)
  mode : option fork_type            (* auto_fork_type *)
}.

Definition with_values (st : state) (vs : vals) : state := mkState vs (fork st) (mode st).

Definition get_state (st : state) (i : nat) : state * out :=
  let '(vs', o) := get (values st) i in (with_values st vs', o).

(** [State.__setitem__] (state.py:417-448). *)
Definition set_state (st : state) (i : nat) (o : option V) : state * out :=
  if negb (i <? gn g) then (st, Err InputError)
  else if negb (settable g i) then (st, Err InputError)
  else
    let fk := match mode st with
              | Some _ => Some (map (fun c => (c, values st c)) (i :: desc g i))
              | None => if fx then None else fork st
              end in
    (mkState (reset_list (upd (values st) i o) (desc g i)) fk (mode st), Done).

(** [State.put] (state.py:450-489): a plain assignment, or read + out-of-place update + assignment. *)
Definition put_state (st : state) (i : nat) (ix : option IX) (v : V) (acc : bool) : state * out :=
  match ix, acc with
  | None, false => set_state st i (Some v)
  | _, _ =>
      let '(st', o) := get_state st i in
      match o with
      | Ok old => match put_val sm ix v acc old with
                  | Some new => set_state st' i (Some new)
                  | None => (st', Err Crash)
                  end
      | other => (st', other)
      end
  end.

(** [State.revert] (state.py:521-573). *)
Definition revert_state (st : state) : state * out :=
  match fork st with
  | None => (st, Err InputError)
  | Some fk => (mkState (override (values st) fk) None (mode st), Done)
  end.

Definition revert_mask_state (st : state) (m : M) : state * out :=
  match fork st with
  | None => (st, Err InputError)
  | Some fk =>
      let '(vs', ok) := revert_items m (values st) fk in
      if ok then (mkState vs' None (mode st), Done)
      else (mkState vs' (fork st) (mode st), Err Crash)
  end.

(** [State.clone] (state.py:187-215). *)
Definition clone_state (st : state) (disable_auto_fork keep_last_fork : bool) : state :=
  mkState (values st)
          (if keep_last_fork then fork st else None)
          (if disable_auto_fork then None else mode st).

(** [State.clear] / [State.__init__] (state.py:179-185). *)
Definition init_vals : vals := fun i => if i <? gn g then hyper g i else None.
Definition init_state (m : option fork_type) : state := mkState init_vals None m.
Definition clear_state (st : state) : state := mkState init_vals None (mode st).

(** [State.precompute_all] (state.py:507-510). *)
Definition precompute_state (st : state) : state * out :=
  let '(vs', e) := walk (values st) (seq 0 (gn g)) in
  (with_values st vs', match e with None => Done | Some e => Err e end).

(** [State.is_variable_set] (state.py:383-398). *)
Definition isset_state (st : state) (i : nat) : state * out :=
  (st, if i <? gn g then OkB (is_some (values st i)) else Err InputError).

(** A store of states: [Clone] appends.  [k] is the harness's handle of a state. *)
Definition store := list state.

Inductive op :=
| Get (k i : nat)
| IsSet (k i : nat)
| Set_ (k i : nat) (o : option V)
| Put (k i : nat) (ix : option IX) (v : V) (acc : bool)
| Revert (k : nat)
| RevertMask (k : nat) (m : M)
| Clone (k : nat) (disable_auto_fork keep_last_fork : bool)
| SetMode (k : nat) (m : option fork_type)
| Precompute (k : nat)
| Clear (k : nat).

Fixpoint set_nth {A} (l : list A) (k : nat) (x : A) : list A :=
  match l, k with
  | [], _ => []
  | _ :: r, 0 => x :: r
  | y :: r, S k' => y :: set_nth r k' x
  end.

Definition on_state (s : store) (k : nat) (f : state -> state * out) : store * out :=
  match nth_error s k with
  | None => (s, Err Crash)
  | Some st => let '(st', o) := f st in (set_nth s k st', o)
  end.

Definition step (s : store) (o : op) : store * out :=
  match o with
  | Get k i => on_state s k (fun st => get_state st i)
  | IsSet k i => on_state s k (fun st => isset_state st i)
  | Set_ k i v => on_state s k (fun st => set_state st i v)
  | Put k i ix v acc => on_state s k (fun st => put_state st i ix v acc)
  | Revert k => on_state s k revert_state
  | RevertMask k m => on_state s k (fun st => revert_mask_state st m)
  | Clone k d kp =>
      match nth_error s k with
      | None => (s, Err Crash)
      | Some st => (s ++ [clone_state st d kp], Done)
      end
  | SetMode k m => on_state s k (fun st => (mkState (values st) (fork st) m, Done))
  | Precompute k => on_state s k precompute_state
  | Clear k => on_state s k (fun st => (clear_state st, Done))
  end.

Fixpoint run (s : store) (ops : list op) : store * list out :=
  match ops with
  | [] => (s, [])
  | o :: r => let '(s', x) := step s o in let '(s'', xs) := run s' r in (s'', x :: xs)
  end.

Definition init_store : store := [init_state None].

(** * Specification: evaluation from scratch, from the independent values only.
    A left fold over 0 .. gn-1 in topological order; no cache, no fork. *)
Definition node_eval (t : vals) (ind : vals) (k : nat) : option V :=
  if linked g k then
    match mapM t (parents g k) with Some args => Some (F g k args) | None => None end
  else ind k.

Fixpoint scratch_tab (ind : vals) (m : nat) : vals :=
  match m with
  | 0 => fun _ => None
  | S m' => let t := scratch_tab ind m' in upd t m' (node_eval t ind m')
  end.

Definition scratch (ind : vals) (i : nat) : option V := scratch_tab ind (gn g) i.

(** * Well-formed graphs (what dag.py is supposed to deliver; C15's subject). *)
Fixpoint increasing (l : list nat) : Prop :=
  match l with
  | [] => True
  | a :: r => (match r with [] => True | b :: _ => a < b end) /\ increasing r
  end.

Unset Implicit Arguments.
Record WF : Prop := mkWF {
  wf_parents_lt : forall k p, k < gn g -> In p (parents g k) -> p < k;
  wf_indep_no_parents : forall k, k < gn g -> linked g k = false -> parents g k = [];
  wf_settable_indep : forall k, k < gn g -> settable g k = true -> linked g k = false;
  wf_hyper_fixed : forall k, k < gn g -> hyper g k <> None -> linked g k = false /\ settable g k = false;
  (* sorted_children = the proper descendants, in increasing (topological) order *)
  wf_desc_inc : forall i, i < gn g -> increasing (i :: desc g i);
  wf_desc_bound : forall i k, i < gn g -> In k (desc g i) -> k < gn g;
  wf_desc_closed : forall i k p, i < gn g -> k < gn g -> In p (parents g k) ->
                     p = i \/ In p (desc g i) -> In k (desc g i);
  wf_desc_only : forall i k, i < gn g -> In k (desc g i) ->
                     exists p, In p (parents g k) /\ (p = i \/ In p (desc g i));
  (* sorted_ancestors = the proper ancestors, in increasing (topological) order *)
  wf_anc_inc : forall i, i < gn g -> increasing (anc g i ++ [i]);
  wf_anc_parents : forall i p, i < gn g -> In p (parents g i) -> In p (anc g i);
  wf_anc_trans : forall i a p, i < gn g -> In a (anc g i) -> In p (parents g a) -> In p (anc g i);
  wf_anc_only : forall i a, i < gn g -> In a (anc g i) ->
                     In a (parents g i) \/ exists c, In c (anc g i) /\ In a (parents g c)
}.
Set Implicit Arguments.

(** * Invariants *)

(** every cached derived value is its definition applied to cached parents *)
Definition Inv (vs : vals) : Prop :=
  forall k v, k < gn g -> linked g k = true -> vs k = Some v ->
    exists args, mapM vs (parents g k) = Some args /\ v = F g k args.

(** nothing is stored outside the graph *)
Definition Bounded (vs : vals) : Prop := forall k, gn g <= k -> vs k = None.

(** the undo log, written back, gives a consistent cache again *)
Definition ForkOK (st : state) : Prop :=
  match fork st with
  | None => True
  | Some fk => exists i, i < gn g /\ settable g i = true /\ map fst fk = i :: desc g i
                         /\ Inv (override (values st) fk)
                         /\ (forall c o, In (c, o) fk -> o <> None -> c < gn g)
  end.

Definition Good (st : state) : Prop := Inv (values st) /\ Bounded (values st) /\ ForkOK st.

(** * Discipline of a history.
    (a) [mask_ok]: the documented precondition of a per-individual revert, in its weakest form: every
        node of the forked sub-graph that is cached on both sides carries the individual axis and has
        shapes "consistent with the subset" (the mix does not raise).
    (b) [unforked_ok], demanded only when [chk = true] (needed only for the variant [fx = false], the code before
        27ac519): no assignment is made with auto-fork switched off while an earlier fork is still pending — finding F1.
        The code as it is needs (a) only: [StateNow.MaskDisciplined]. *)
Definition mask_ok (m : M) (st : state) : Prop :=
  match fork st with
  | None => True
  | Some fk => forall c o cur, In (c, Some o) fk -> values st c = Some cur ->
                 ind_axis g c = true /\ mix sm m o cur <> None
  end.

Definition unforked_ok (chk : bool) (st : state) : Prop :=
  chk = true -> mode st = None -> fork st = None.

Definition op_ok (chk : bool) (s : store) (o : op) : Prop :=
  match o with
  | RevertMask k m => match nth_error s k with Some st => mask_ok m st | None => True end
  | Set_ k i _ | Put k i _ _ _ =>
      match nth_error s k with
      | Some st => i < gn g -> settable g i = true -> unforked_ok chk st
      | None => True
      end
  | _ => True
  end.

Fixpoint Disciplined (chk : bool) (s : store) (ops : list op) : Prop :=
  match ops with
  | [] => True
  | o :: r => op_ok chk s o /\ Disciplined chk (fst (step s o)) r
  end.

(** node functions of per-individual nodes commute with the row-wise selection [mix]:
    [sel] marks the parents whose value was selected row by row ([news] holds the selected value), the other
    parents have the same value on both sides. *)
Inductive mixed_args (m : M) (sel : nat -> bool) : list nat -> list V -> list V -> list V -> Prop :=
| MixNil : mixed_args m sel [] [] [] []
| MixSel p ps o os c cs x xs : sel p = true -> mix sm m o c = Some x ->
    mixed_args m sel ps os cs xs -> mixed_args m sel (p :: ps) (o :: os) (c :: cs) (x :: xs)
| MixSame p ps os c cs xs : sel p = false ->
    mixed_args m sel ps os cs xs -> mixed_args m sel (p :: ps) (c :: os) (c :: cs) (c :: xs).

Definition F_mix : Prop :=
  forall k m sel olds curs news x,
    k < gn g -> linked g k = true -> ind_axis g k = true ->
    mixed_args m sel (parents g k) olds curs news ->
    (exists p, In p (parents g k) /\ sel p = true) ->
    (forall p, In p (parents g k) -> sel p = true -> ind_axis g p = true) ->
    mix sm m (F g k olds) (F g k curs) = Some x ->
    F g k news = x.

End Model.

Arguments WF {V} g.
Arguments wf_parents_lt {V g} _.
Arguments wf_indep_no_parents {V g} _.
Arguments wf_settable_indep {V g} _.
Arguments wf_hyper_fixed {V g} _.
Arguments wf_desc_inc {V g} _.
Arguments wf_desc_bound {V g} _.
Arguments wf_desc_closed {V g} _.
Arguments wf_desc_only {V g} _.
Arguments wf_anc_inc {V g} _.
Arguments wf_anc_parents {V g} _.
Arguments wf_anc_trans {V g} _.
Arguments wf_anc_only {V g} _.
Arguments Ok {V}. Arguments OkB {V}. Arguments Done {V}. Arguments Err {V}.
Arguments Get {V M IX}. Arguments IsSet {V M IX}. Arguments Set_ {V M IX}. Arguments Put {V M IX}.
Arguments Revert {V M IX}. Arguments RevertMask {V M IX}. Arguments Clone {V M IX}.
Arguments SetMode {V M IX}. Arguments Precompute {V M IX}. Arguments Clear {V M IX}.
Arguments COk {V}. Arguments CUnset {V}. Arguments CCrash {V}.
