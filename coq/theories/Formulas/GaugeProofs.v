(** C10 — facts about the mean and the exponential used by the gauge theorems. *)
From Coq Require Import Reals List Lra Lia.
From Leaspy Require Import Formulas.Gauge.
Import ListNotations.
Local Open Scope R_scope.

Lemma rsum_map_sub c l : rsum (map (fun x => x - c) l) = rsum l - INR (length l) * c.
Proof.
  induction l as [|x l IH]; [simpl; ring|].
  change (rsum (map (fun x0 => x0 - c) (x :: l))) with ((x - c) + rsum (map (fun x0 => x0 - c) l)).
  change (rsum (x :: l)) with (x + rsum l).
  rewrite IH. change (length (x :: l)) with (S (length l)). rewrite S_INR. ring.
Qed.

(** the centred values have mean exactly 0 *)
Lemma mean_center xs : xs <> [] -> mean (center xs) = 0.
Proof.
  intros H. unfold center, mean at 1. rewrite map_length, rsum_map_sub.
  assert (Hn : INR (length xs) <> 0).
  { destruct xs as [|x xs]; [congruence|]. apply not_0_INR. simpl; lia. }
  unfold mean. field. exact Hn.
Qed.

Lemma center_length xs : length (center xs) = length xs.
Proof. apply map_length. Qed.

(** the two cancellations everything rests on *)
Lemma gauge_key lv xi m s : exp (lv + m) * (exp (xi - m) * s) = exp lv * (exp xi * s).
Proof.
  unfold Rminus. rewrite !exp_plus, exp_Ropp. field. apply Rgt_not_eq, exp_pos.
Qed.

Lemma gauge_key_nu xi nln m : exp (- (xi - m)) * exp ((nln + m) * -1) = exp (- xi) * exp (nln * -1).
Proof. rewrite <- !exp_plus. f_equal. ring. Qed.

Lemma gauge_key_nu_src xi nln m z : exp ((nln + m) * -1) * exp (- (xi - m + z)) = exp (nln * -1) * exp (- (xi + z)).
Proof. rewrite <- !exp_plus. f_equal. ring. Qed.

Lemma map_exp_shift m lv : map exp (shift m lv) = map (Rmult (exp m)) (map exp lv).
Proof.
  unfold shift. rewrite !map_map. apply map_ext. intros x. rewrite exp_plus. ring.
Qed.
