(** C10 (extension) — the Householder basis of [compute_orthonormal_basis] for EVERY branch of the code:
    scalar (0-D), diagonal (1-D) and full (2-D) metric, any [strip_col = j], any dimension.
    All three branches are [householder_at j n D] with D = g·d, G∘d, G@d.  Proved here, for every D and j < n:
    - [hh_at_orthonormal]: the kept columns are orthonormal for the CANONICAL (Euclidean) inner product — the one
      the docstring of the code announces — as soon as D <> 0 (no condition on D_j);
    - [hh_at_orthogonal]: every kept column is orthogonal to D, i.e. orthogonal to d for the inner product
      <x,y>_G = xᵀ G y of the branch, provided D_j <> 0;
    - with D_j = 0 and D <> 0 orthogonality fails in every branch ([torch.sign(0) = 0]) — witnesses;
    - the columns are NOT orthonormal for <.,.>_G (witness g = 2) — as the docstring says;
    - multiplying d by c > 0 leaves the basis of every branch unchanged. *)
From Coq Require Import Reals List Arith Lra Lia.
From Leaspy Require Import Formulas.Ortho Formulas.OrthoProofs.
Import ListNotations.
Local Open Scope R_scope.

(** ** the unit vector e_j = [vset (vzeros_like D) j 1] *)

Lemma dot_unit_l D j X : (j < length D)%nat -> dot (vset (vzeros_like D) j 1) X = nth j X 0.
Proof.
  revert j X; induction D as [|x D IH]; intros j X Hj; [simpl in Hj; lia|].
  destruct j as [|j]; destruct X as [|y X]; try reflexivity.
  - change (1 * y + dot (vzeros_like D) X = y). unfold vzeros_like. rewrite dot_zeros_l. ring.
  - change (0 * y + dot (vset (vzeros_like D) j 1) X = nth j X 0). rewrite IH by (simpl in Hj; lia). ring.
Qed.

Lemma nth_unit D j k : (j < length D)%nat -> nth k (vset (vzeros_like D) j 1) 0 = if Nat.eqb k j then 1 else 0.
Proof.
  revert j k; induction D as [|x D IH]; intros j k Hj; [simpl in Hj; lia|].
  destruct j as [|j]; destruct k as [|k]; try reflexivity.
  - change (nth k (vzeros_like D) 0 = 0). unfold vzeros_like.
    clear. revert k; induction D; intros [|k]; simpl; auto.
  - change (nth k (vset (vzeros_like D) j 1) 0 = if Nat.eqb k j then 1 else 0). apply IH. simpl in Hj; lia.
Qed.

Lemma dot_unit_self D j : (j < length D)%nat -> dot (vset (vzeros_like D) j 1) (vset (vzeros_like D) j 1) = 1.
Proof. intros H. rewrite dot_unit_l, nth_unit by exact H. now rewrite Nat.eqb_refl. Qed.

Lemma dot_vsub_r a b c : dot c (vsub a b) = dot c a - dot c b.
Proof. rewrite dot_comm, dot_vsub_l, (dot_comm a), (dot_comm b). reflexivity. Qed.

Lemma dot_vscale_r c a b : dot a (vscale c b) = c * dot a b.
Proof. rewrite dot_comm, dot_vscale_l, dot_comm. reflexivity. Qed.

Lemma dot_vdivs_r a c b : dot b (vdivs a c) = dot b a / c.
Proof. rewrite dot_comm, dot_vdivs_l, dot_comm. reflexivity. Qed.

Lemma sqr_le_dot_self D j : nth j D 0 * nth j D 0 <= dot D D.
Proof.
  revert j; induction D as [|x D IH]; intros j.
  - rewrite nth_nil_R. simpl. lra.
  - destruct j as [|j]; simpl.
    + pose proof (dot_self_nonneg D). lra.
    + pose proof (IH j). pose proof (Rle_0_sqr x) as Hx. unfold Rsqr in Hx. lra.
Qed.

(** D·z <> 0 for some z -> D <> 0 (used for: non-zero metric norm dᵀ G d <> 0 -> G d <> 0) *)
Lemma dot_nonzero_self D z : dot z D <> 0 -> 0 < dot D D.
Proof.
  intros H. destruct (Rle_lt_or_eq_dec 0 (dot D D) (dot_self_nonneg D)) as [P|E]; [exact P|].
  exfalso. apply H. symmetry in E. apply dot_self_0 in E. rewrite dot_comm.
  clear H. revert z; induction D as [|x D IH]; intros [|y z]; simpl; try reflexivity.
  inversion E; subst. rewrite IH by assumption. ring.
Qed.

(** ** the Householder vector for an arbitrary pivot j *)

Section HouseholderAt.
  Variables (j : nat) (D : list R).
  Hypothesis Hj : (j < length D)%nat.
  Let e := vset (vzeros_like D) j 1.
  Let alpha := (- sign (vget D j)) * vnorm D.
  Let u := vsub D (vscale alpha e).

  Lemma hha_e1 X : dot e X = nth j X 0.
  Proof. apply dot_unit_l, Hj. Qed.
  Lemma hha_e2 X : dot X e = nth j X 0.
  Proof. rewrite dot_comm. apply hha_e1. Qed.
  Lemma hha_e3 : nth j e 0 = 1.
  Proof. unfold e. rewrite nth_unit by exact Hj. now rewrite Nat.eqb_refl. Qed.

  Lemma hha_uu : dot u u = dot D D - 2 * alpha * nth j D 0 + alpha * alpha.
  Proof.
    unfold u. rewrite dot_vsub_l, !dot_vsub_r, !dot_vscale_l, !dot_vscale_r, !hha_e1, !hha_e2, hha_e3. ring.
  Qed.

  Lemma hha_uD : dot u D = dot D D - alpha * nth j D 0.
  Proof. unfold u. rewrite dot_vsub_l, dot_vscale_l, hha_e1. reflexivity. Qed.

  Lemma hha_alpha_D : alpha * nth j D 0 <= 0.
  Proof.
    unfold alpha, vnorm, vget. pose proof (sign_mul_nonneg (nth j D 0)). pose proof (sqrt_pos (dot D D)). nra.
  Qed.

  Lemma hha_nth_u k : k <> j -> nth k u 0 = nth k D 0.
  Proof.
    intros Hk. unfold u. rewrite nth_vsub, nth_vscale. unfold e. rewrite nth_unit by exact Hj.
    apply Nat.eqb_neq in Hk. rewrite Hk. ring.
  Qed.

  (** u <> 0 whenever D <> 0 — whatever the sign of D_j, D_j = 0 included *)
  Lemma hha_uu_pos : 0 < dot D D -> 0 < dot u u.
  Proof.
    intros HD. rewrite hha_uu. pose proof hha_alpha_D. pose proof (Rle_0_sqr alpha) as Ha. unfold Rsqr in Ha. lra.
  Qed.

  Lemma hha_alpha_sqr : nth j D 0 <> 0 -> alpha * alpha = dot D D.
  Proof.
    intros H. unfold alpha, vnorm, vget.
    replace (- sign (nth j D 0) * sqrt (dot D D) * (- sign (nth j D 0) * sqrt (dot D D)))
      with ((sign (nth j D 0) * sign (nth j D 0)) * (sqrt (dot D D) * sqrt (dot D D))) by ring.
    rewrite sign_sqr by exact H. rewrite sqrt_sqrt by apply dot_self_nonneg. ring.
  Qed.

  (** the scalar identity behind orthogonality *)
  Lemma hha_uu_2uD : nth j D 0 <> 0 -> dot u u = 2 * dot u D.
  Proof. intros H. rewrite hha_uu, hha_uD, (hha_alpha_sqr H). ring. Qed.
End HouseholderAt.

(** ** columns of Q = I - (2v)vᵀ and of Q with column j removed *)

Lemma dot_col_Q n v k X :
  (k < n)%nat -> dot (col k (msub (eye n) (outer (vscale 2 v) v))) X = nth k X 0 - 2 * nth k v 0 * dot v X.
Proof.
  intros Hk. rewrite col_msub, dot_vsub_l, dot_col_eye by exact Hk.
  rewrite col_outer, !dot_vscale_l. ring.
Qed.

Lemma nth_const0 {X} (l : list X) k : nth k (map (fun _ => 0) l) 0 = 0.
Proof. revert k; induction l; intros [|k]; simpl; auto. Qed.

Lemma nth_col_eye n : forall k l, (k < n)%nat -> (l < n)%nat ->
  nth k (col l (eye n)) 0 = if Nat.eqb k l then 1 else 0.
Proof.
  induction n as [|n IH]; intros k l Hk Hl; [lia|].
  simpl eye. rewrite col_cons. destruct k as [|k].
  - simpl nth at 1. destruct l as [|l]; [reflexivity|]. simpl. apply nth_repeat.
  - change (nth k (col l (map (cons 0) (eye n))) 0 = (if Nat.eqb (S k) l then 1 else 0)).
    destruct l as [|l].
    + rewrite col_map_cons0_O. apply nth_const0.
    + rewrite col_map_cons0_S. change (Nat.eqb (S k) (S l)) with (Nat.eqb k l). apply IH; lia.
Qed.

Lemma nth_col_Q n v k l :
  (k < n)%nat -> (l < n)%nat ->
  nth k (col l (msub (eye n) (outer (vscale 2 v) v))) 0 = (if Nat.eqb k l then 1 else 0) - 2 * nth k v 0 * nth l v 0.
Proof.
  intros Hk Hl. rewrite col_msub, nth_vsub, nth_col_eye by assumption.
  rewrite col_outer, !nth_vscale. ring.
Qed.

(** Q is orthogonal (QᵀQ = I, column-wise) as soon as v·v = 1 *)
Lemma Q_columns_orthonormal n v k l :
  dot v v = 1 -> (k < n)%nat -> (l < n)%nat ->
  dot (col k (msub (eye n) (outer (vscale 2 v) v))) (col l (msub (eye n) (outer (vscale 2 v) v)))
  = if Nat.eqb k l then 1 else 0.
Proof.
  intros Hv Hk Hl. rewrite dot_col_Q by exact Hk. rewrite nth_col_Q by assumption.
  rewrite (dot_comm v), dot_col_Q by exact Hl. rewrite Hv. ring.
Qed.

(** removing entry j of a row *)
Lemma nth_strip : forall (j : nat) (r : list R) (c : nat), (j <= length r)%nat ->
  nth c (firstn j r ++ skipn (S j) r) 0 = nth (if Nat.ltb c j then c else S c) r 0.
Proof.
  induction j as [|j IH]; intros r c Hr.
  - simpl. destruct r; [destruct c; reflexivity | reflexivity].
  - destruct r as [|x r]; [simpl in Hr; lia|]. destruct c as [|c]; [reflexivity|].
    change (nth c (firstn j r ++ skipn (S j) r) 0 = nth (if Nat.ltb (S c) (S j) then S c else S (S c)) (x :: r) 0).
    rewrite IH by (simpl in Hr; lia).
    change (Nat.ltb (S c) (S j)) with (Nat.ltb c j). destruct (Nat.ltb c j); reflexivity.
Qed.

Lemma col_strip j c Q : Forall (fun r => (j <= length r)%nat) Q ->
  col c (mcat_cols (cols_before j Q) (cols_from (j + 1) Q)) = col (if Nat.ltb c j then c else S c) Q.
Proof.
  intros H. unfold cols_before, cols_from. rewrite mcat_cols_map. unfold col. rewrite map_map.
  apply map_ext_in. intros r Hr. rewrite Forall_forall in H. rewrite Nat.add_1_r. apply nth_strip, H, Hr.
Qed.

Lemma vsub_length_ge a b : (length a <= length (vsub a b))%nat.
Proof.
  revert b; induction a as [|x a IH]; intros b; [simpl; lia|].
  destruct b as [|y b]; simpl; [lia|]. specialize (IH b). lia.
Qed.

Lemma msub_rows_ge n A B : Forall (fun r => (n <= length r)%nat) A -> (length B <= length A)%nat ->
  Forall (fun r => (n <= length r)%nat) (msub A B).
Proof.
  revert B; induction A as [|a A IH]; intros B HA HB.
  - destruct B; [constructor | simpl in HB; lia].
  - destruct B as [|b B]; [exact HA|]. inversion HA; subst. simpl. constructor.
    + pose proof (vsub_length_ge a b). lia.
    + apply IH; [assumption | simpl in HB; lia].
Qed.

Lemma eye_rows n : Forall (fun r => (n <= length r)%nat) (eye n).
Proof.
  induction n as [|n IH]; simpl; constructor.
  - simpl. rewrite repeat_length. lia.
  - rewrite Forall_forall in *. intros r Hr. apply in_map_iff in Hr. destruct Hr as (r' & <- & Hr').
    simpl. specialize (IH r' Hr'). lia.
Qed.

Lemma vsub_length_eq a b : length a = length b -> length (vsub a b) = length a.
Proof.
  revert b; induction a as [|x a IH]; intros [|y b] H; simpl in *; try discriminate; auto.
Qed.

(** ** the two theorems about [householder_at] *)

Section Main.
  Variables (j n : nat) (D : list R).
  Hypothesis Hn : length D = n.
  Hypothesis Hj : (j < n)%nat.
  Let alpha := (- sign (vget D j)) * vnorm D.
  Let u := vsub D (vscale alpha (vset (vzeros_like D) j 1)).
  Let v := vdivs u (vnorm u).
  Let Q := msub (eye n) (outer (vscale 2 v) v).

  Lemma hh_at_unfold : householder_at j n D = mcat_cols (cols_before j Q) (cols_from (j + 1) Q).
  Proof. reflexivity. Qed.

  Lemma hh_at_col c : col c (householder_at j n D) = col (if Nat.ltb c j then c else S c) Q.
  Proof.
    rewrite hh_at_unfold. apply col_strip.
    assert (HQ : Forall (fun r => (n <= length r)%nat) Q).
    { apply msub_rows_ge; [apply eye_rows|]. rewrite eye_length. unfold outer, vscale, v, vdivs, u.
      rewrite !map_length, vsub_length_eq; [lia|]. unfold vscale, vzeros_like. now rewrite map_length, vset_length, map_length. }
    eapply Forall_impl; [|exact HQ]. simpl. intros; lia.
  Qed.

  Lemma hh_at_vv : 0 < dot D D -> dot v v = 1.
  Proof.
    intros HD. assert (Hj' : (j < length D)%nat) by lia.
    pose proof (hha_uu_pos j D Hj' HD) as Hpos. fold alpha in Hpos. fold u in Hpos.
    unfold v. rewrite dot_vdivs_l, dot_vdivs_r.
    assert (Hs : vnorm u * vnorm u = dot u u) by (unfold vnorm; apply sqrt_sqrt, dot_self_nonneg).
    assert (Hp : 0 < vnorm u) by (apply sqrt_lt_R0, Hpos).
    rewrite <- Hs. field. lra.
  Qed.

  (** Euclidean orthonormality of the kept columns: only D <> 0 is needed *)
  Theorem hh_at_orthonormal c c' :
    0 < dot D D -> (S c < n)%nat -> (S c' < n)%nat ->
    dot (col c (householder_at j n D)) (col c' (householder_at j n D)) = if Nat.eqb c c' then 1 else 0.
  Proof.
    intros HD Hc Hc'. rewrite !hh_at_col. unfold Q.
    rewrite Q_columns_orthonormal; [ | now apply hh_at_vv | destruct (Nat.ltb c j); lia | destruct (Nat.ltb c' j); lia ].
    destruct (Nat.ltb c j) eqn:A; destruct (Nat.ltb c' j) eqn:B; try reflexivity.
    - apply Nat.ltb_lt in A. apply Nat.ltb_ge in B.
      replace (Nat.eqb c (S c')) with false by (symmetry; apply Nat.eqb_neq; lia).
      replace (Nat.eqb c c') with false by (symmetry; apply Nat.eqb_neq; lia). reflexivity.
    - apply Nat.ltb_ge in A. apply Nat.ltb_lt in B.
      replace (Nat.eqb (S c) c') with false by (symmetry; apply Nat.eqb_neq; lia).
      replace (Nat.eqb c c') with false by (symmetry; apply Nat.eqb_neq; lia). reflexivity.
  Qed.

  (** every kept column is orthogonal to D, provided the pivot coordinate D_j is non-zero *)
  Theorem hh_at_orthogonal c :
    nth j D 0 <> 0 -> (S c < n)%nat -> dot (col c (householder_at j n D)) D = 0.
  Proof.
    intros H0 Hc. assert (Hj' : (j < length D)%nat) by lia.
    assert (HD : 0 < dot D D).
    { pose proof (sqr_le_dot_self D j). assert (0 < nth j D 0 * nth j D 0) by nra. lra. }
    rewrite hh_at_col. set (k := if Nat.ltb c j then c else S c).
    assert (Hk : (k < n)%nat) by (unfold k; destruct (Nat.ltb c j); lia).
    assert (Hkj : k <> j).
    { unfold k. destruct (Nat.ltb c j) eqn:A; [apply Nat.ltb_lt in A | apply Nat.ltb_ge in A]; lia. }
    unfold Q. rewrite dot_col_Q by exact Hk. unfold v. rewrite nth_vdivs, dot_vdivs_l.
    pose proof (hha_uu_2uD j D Hj' H0) as H2. pose proof (hha_uu_pos j D Hj' HD) as Hpos.
    pose proof (hha_nth_u j D Hj' k Hkj) as Hu.
    fold alpha in H2, Hpos, Hu. fold u in H2, Hpos, Hu.
    assert (Hs : vnorm u * vnorm u = dot u u) by (unfold vnorm; apply sqrt_sqrt, dot_self_nonneg).
    assert (Hp : 0 < vnorm u) by (apply sqrt_lt_R0, Hpos).
    rewrite Hu. replace (dot u D) with (vnorm u * vnorm u / 2) by lra. field. lra.
  Qed.
End Main.

(** ** scale invariance, any pivot *)

Lemma householder_at_scale j n c D : 0 < c -> householder_at j n (vscale c D) = householder_at j n D.
Proof.
  intros Hc. unfold householder_at.
  rewrite vzeros_like_vscale. unfold vget. rewrite nth_vscale, sign_scale by exact Hc.
  rewrite (vnorm_vscale c D) by lra.
  replace (- sign (nth j D 0) * (c * vnorm D)) with (c * (- sign (nth j D 0) * vnorm D)) by ring.
  rewrite vsub_vscale.
  set (u := vsub D (vscale (- sign (nth j D 0) * vnorm D) (vset (vzeros_like D) j 1))).
  rewrite (vnorm_vscale c u) by lra. rewrite vdivs_vscale by exact Hc. reflexivity.
Qed.

Lemma vscale_vscale a b d : vscale a (vscale b d) = vscale b (vscale a d).
Proof. unfold vscale. rewrite !map_map. apply map_ext. intros; ring. Qed.

Lemma matvec_vscale c G d : matvec G (vscale c d) = vscale c (matvec G d).
Proof. unfold matvec, vscale. rewrite map_map. apply map_ext. intros r. fold (vscale c d). apply dot_vscale_r. Qed.

Lemma vscale_length c d : length (vscale c d) = length d.
Proof. apply map_length. Qed.

Theorem ortho_branches_collinear c j d g G1 G2 : 0 < c ->
  ortho_basis_0d j (vscale c d) g = ortho_basis_0d j d g /\
  ortho_basis_1d j (vscale c d) G1 = ortho_basis_1d j d G1 /\
  ortho_basis_2d j (vscale c d) G2 = ortho_basis_2d j d G2.
Proof.
  intros Hc. unfold ortho_basis_0d, ortho_basis_1d, ortho_basis_2d, metric_dir_0d, metric_dir_1d, metric_dir_2d.
  rewrite !vscale_length. split; [|split].
  - rewrite vscale_vscale. now apply householder_at_scale.
  - rewrite vmul_vscale_r. now apply householder_at_scale.
  - rewrite matvec_vscale. now apply householder_at_scale.
Qed.

(** ** mixing matrix and space shifts built on ANY branch / pivot: orthogonal to D *)

Lemma householder_at_rows j n D : length D = n -> length (householder_at j n D) = n.
Proof.
  intros H. unfold householder_at, cols_before, cols_from. rewrite mcat_cols_map, map_length, msub_length, eye_length.
  unfold outer, vscale, vdivs. rewrite !map_length, vsub_length, map_length, vset_length.
  unfold vzeros_like. rewrite map_length. lia.
Qed.

(** abstract version of [space_shifts_orthogonal]: any basis matrix B with |D| rows whose first |betas| columns are orthogonal to D *)
Lemma space_shifts_orthogonal_any B D betas sources i :
  length B = length D -> (0 < length D)%nat -> (forall c, (c < length betas)%nat -> dot (col c B) D = 0) ->
  dot (nth i (space_shifts sources (mixing_matrix B betas)) []) D = 0.
Proof.
  intros HB Hn H. unfold space_shifts.
  destruct (Nat.eq_dec (ncols betas) 0) as [E|E].
  - unfold mixing_matrix, transpose. rewrite ncols_matmul by lia.
    rewrite E. simpl seq. simpl map. unfold matmul. simpl ncols. simpl seq. simpl map.
    destruct (lt_dec i (length sources)) as [Hi|Hi].
    + rewrite (map_nth (fun _ : list R => @nil R) sources [] i). reflexivity.
    + rewrite nth_overflow; [reflexivity | rewrite map_length; lia].
  - apply matmul_rows_orthogonal.
    + unfold mixing_matrix. rewrite ncols_transpose.
      * rewrite matmul_length. lia.
      * rewrite ncols_matmul by lia. lia.
    + intros k. unfold mixing_matrix. now apply col_matmul_orthogonal.
Qed.

Theorem hh_at_mixing_space_shifts j n D betas sources k :
  length D = n -> (j < n)%nat -> nth j D 0 <> 0 -> (S (length betas) <= n)%nat ->
  dot (nth k (mixing_matrix (householder_at j n D) betas) []) D = 0 /\
  dot (nth k (space_shifts sources (mixing_matrix (householder_at j n D) betas)) []) D = 0.
Proof.
  intros Hn Hj H0 Hb.
  assert (Hc : forall c, (c < length betas)%nat -> dot (col c (householder_at j n D)) D = 0).
  { intros c Hc. apply hh_at_orthogonal; auto. lia. }
  split.
  - unfold mixing_matrix. now apply col_matmul_orthogonal.
  - apply space_shifts_orthogonal_any; auto; [rewrite householder_at_rows; auto | lia].
Qed.

(** ** lengths of the three directions under the guards of the code *)

Lemma matvec_length G d : length (matvec G d) = length G.
Proof. apply map_length. Qed.

(** ** the theorems per branch *)

Theorem ortho_0d_orthogonal j d g c :
  ortho_pre_0d j d g -> nth j (metric_dir_0d g d) 0 <> 0 -> (S c < length d)%nat ->
  inner_0d g (col c (ortho_basis_0d j d g)) d = 0.
Proof.
  intros (Hg & Hj) H0 Hc. unfold inner_0d, ortho_basis_0d.
  apply hh_at_orthogonal; auto. apply vscale_length.
Qed.

Theorem ortho_1d_orthogonal j d G c :
  ortho_pre_1d j d G -> nth j (metric_dir_1d G d) 0 <> 0 -> (S c < length d)%nat ->
  inner_1d G (col c (ortho_basis_1d j d G)) d = 0.
Proof.
  intros (HG & HL & Hj) H0 Hc. unfold inner_1d, ortho_basis_1d.
  apply hh_at_orthogonal; auto. now apply vmul_length.
Qed.

Theorem ortho_2d_orthogonal j d G c :
  ortho_pre_2d j d G -> nth j (metric_dir_2d G d) 0 <> 0 -> (S c < length d)%nat ->
  inner_2d G (col c (ortho_basis_2d j d G)) d = 0.
Proof.
  intros ((HL & HR) & Hj) H0 Hc. unfold inner_2d, ortho_basis_2d.
  apply hh_at_orthogonal; auto. unfold metric_dir_2d. now rewrite matvec_length.
Qed.

(** Euclidean orthonormality of each branch: hypothesis = the direction has a non-zero metric norm,
    <d, d>_G = dᵀ G d <> 0 (true for every d <> 0 when G is positive definite). *)
Theorem ortho_0d_orthonormal j d g c c' :
  ortho_pre_0d j d g -> inner_0d g d d <> 0 -> (S c < length d)%nat -> (S c' < length d)%nat ->
  dot (col c (ortho_basis_0d j d g)) (col c' (ortho_basis_0d j d g)) = if Nat.eqb c c' then 1 else 0.
Proof.
  intros (Hg & Hj) H0 Hc Hc'. unfold ortho_basis_0d.
  apply hh_at_orthonormal; auto; [apply vscale_length | apply (dot_nonzero_self _ d), H0].
Qed.

Theorem ortho_1d_orthonormal j d G c c' :
  ortho_pre_1d j d G -> inner_1d G d d <> 0 -> (S c < length d)%nat -> (S c' < length d)%nat ->
  dot (col c (ortho_basis_1d j d G)) (col c' (ortho_basis_1d j d G)) = if Nat.eqb c c' then 1 else 0.
Proof.
  intros (HG & HL & Hj) H0 Hc Hc'. unfold ortho_basis_1d.
  apply hh_at_orthonormal; auto; [now apply vmul_length | apply (dot_nonzero_self _ d), H0].
Qed.

Theorem ortho_2d_orthonormal j d G c c' :
  ortho_pre_2d j d G -> inner_2d G d d <> 0 -> (S c < length d)%nat -> (S c' < length d)%nat ->
  dot (col c (ortho_basis_2d j d G)) (col c' (ortho_basis_2d j d G)) = if Nat.eqb c c' then 1 else 0.
Proof.
  intros ((HL & HR) & Hj) H0 Hc Hc'. unfold ortho_basis_2d.
  apply hh_at_orthonormal; auto; [unfold metric_dir_2d; now rewrite matvec_length | apply (dot_nonzero_self _ d), H0].
Qed.

(** for a diagonal / scalar positive metric the metric norm of d <> 0 is non-zero: no hypothesis left *)
Lemma inner_1d_pos G d : Forall (fun x => 0 < x) G -> length G = length d -> (exists i, nth i d 0 <> 0) -> 0 < inner_1d G d d.
Proof.
  unfold inner_1d. revert d; induction G as [|g G IH]; intros [|x d] HG HL (i & Hi); simpl in HL; try discriminate.
  - rewrite nth_nil_R in Hi. lra.
  - inversion HG; subst. simpl.
    assert (Hnn : forall G' d', Forall (fun x => 0 < x) G' -> 0 <= dot d' (vmul G' d')).
    { clear. induction G' as [|g G' IH]; intros [|x d'] HG; simpl; try lra. inversion HG; subst.
      specialize (IH d' H2). pose proof (Rle_0_sqr x) as Hx. unfold Rsqr in Hx. nra. }
    destruct i as [|i].
    + simpl in Hi. specialize (Hnn G d H2). assert (0 < x * x) by nra. nra.
    + simpl in Hi. assert (0 < dot d (vmul G d)) by (apply IH; auto; now exists i).
      pose proof (Rle_0_sqr x) as Hx. unfold Rsqr in Hx. nra.
Qed.

Lemma dot_self_pos_nonzero d : (exists i, nth i d 0 <> 0) -> 0 < dot d d.
Proof.
  intros (i & Hi). pose proof (sqr_le_dot_self d i). assert (0 < nth i d 0 * nth i d 0) by nra. lra.
Qed.

Lemma inner_0d_pos g d : 0 < g -> (exists i, nth i d 0 <> 0) -> 0 < inner_0d g d d.
Proof.
  intros Hg Hd. unfold inner_0d. rewrite dot_vscale_r. apply Rmult_lt_0_compat; [exact Hg | now apply dot_self_pos_nonzero].
Qed.

(** every direction that is not the zero vector: orthonormal columns in every branch (2-D: G positive definite) *)
Theorem ortho_branches_orthonormal_nonzero j d g G1 G2 c c' :
  (exists i, nth i d 0 <> 0) -> (S c < length d)%nat -> (S c' < length d)%nat ->
  (ortho_pre_0d j d g ->
     dot (col c (ortho_basis_0d j d g)) (col c' (ortho_basis_0d j d g)) = if Nat.eqb c c' then 1 else 0) /\
  (ortho_pre_1d j d G1 ->
     dot (col c (ortho_basis_1d j d G1)) (col c' (ortho_basis_1d j d G1)) = if Nat.eqb c c' then 1 else 0) /\
  (ortho_pre_2d j d G2 -> pos_def_2d G2 (length d) ->
     dot (col c (ortho_basis_2d j d G2)) (col c' (ortho_basis_2d j d G2)) = if Nat.eqb c c' then 1 else 0).
Proof.
  intros Hd Hc Hc'. split; [|split].
  - intros P. apply ortho_0d_orthonormal; auto. destruct P as (Hg & _). apply Rgt_not_eq. now apply inner_0d_pos.
  - intros P. apply ortho_1d_orthonormal; auto. destruct P as (HG & HL & _). apply Rgt_not_eq. now apply inner_1d_pos.
  - intros P PD. apply ortho_2d_orthonormal; auto. apply Rgt_not_eq. now apply PD.
Qed.

Example ex_pos_def : pos_def_2d [[2; 1]; [1; 2]] 2.
Proof.
  intros x Hx (i & Hi). destruct x as [|a [|b [|? ?]]]; try discriminate.
  unfold inner_2d, matvec. simpl.
  assert (a <> 0 \/ b <> 0) as H.
  { destruct i as [|[|i]]; simpl in Hi; [left | right | destruct i]; auto; simpl in Hi; lra. }
  assert (0 < a * a + b * b) by (destruct H; nra). nra.
Qed.

(** ** what does NOT hold *)

(** D_j = 0, D <> 0: [torch.sign(0) = 0], the reflection is about D itself; witness d = (1, 0), strip_col = 1,
    identity metric in the three representations — the kept column is -D/|D|. *)
Lemma hh_at_zero_pivot_witness : dot (col 0 (householder_at 1 2 [1; 0])) [1; 0] = -1.
Proof.
  unfold householder_at, vget, vnorm, sign. simpl.
  destruct (Rlt_dec 0 0) as [H|_]; [lra|].
  replace (1 * 1 + (0 * 0 + 0)) with 1 by ring. rewrite sqrt_1.
  replace ((1 - - 0 * 1 * 0) * (1 - - 0 * 1 * 0) + ((0 - - 0 * 1 * 1) * (0 - - 0 * 1 * 1) + 0)) with 1 by ring.
  rewrite sqrt_1. unfold Rdiv. rewrite Rinv_1. ring.
Qed.

Theorem ortho_branches_zero_pivot_refuted :
  (ortho_pre_0d 1 [1; 0] 1 /\ inner_0d 1 [1; 0] [1; 0] <> 0 /\ inner_0d 1 (col 0 (ortho_basis_0d 1 [1; 0] 1)) [1; 0] <> 0) /\
  (ortho_pre_1d 1 [1; 0] [1; 1] /\ inner_1d [1; 1] [1; 0] [1; 0] <> 0 /\
     inner_1d [1; 1] (col 0 (ortho_basis_1d 1 [1; 0] [1; 1])) [1; 0] <> 0) /\
  (ortho_pre_2d 1 [1; 0] [[1; 0]; [0; 1]] /\ inner_2d [[1; 0]; [0; 1]] [1; 0] [1; 0] <> 0 /\
     inner_2d [[1; 0]; [0; 1]] (col 0 (ortho_basis_2d 1 [1; 0] [[1; 0]; [0; 1]])) [1; 0] <> 0).
Proof.
  assert (E0 : metric_dir_0d 1 [1; 0] = [1; 0]) by (unfold metric_dir_0d; simpl; repeat f_equal; ring).
  assert (E1 : metric_dir_1d [1; 1] [1; 0] = [1; 0]) by (unfold metric_dir_1d; simpl; repeat f_equal; ring).
  assert (E2 : metric_dir_2d [[1; 0]; [0; 1]] [1; 0] = [1; 0]) by (unfold metric_dir_2d, matvec; simpl; repeat f_equal; ring).
  unfold ortho_pre_0d, ortho_pre_1d, ortho_pre_2d, inner_0d, inner_1d, inner_2d, ortho_basis_0d, ortho_basis_1d, ortho_basis_2d.
  fold (metric_dir_0d 1 [1; 0]). fold (metric_dir_1d [1; 1] [1; 0]). fold (metric_dir_2d [[1; 0]; [0; 1]] [1; 0]).
  rewrite E0, E1, E2. change (length [1; 0]) with 2%nat. rewrite hh_at_zero_pivot_witness.
  assert (N : dot [1; 0] [1; 0] <> 0) by (simpl; lra).
  repeat split; auto; try lra; try (simpl; lia); repeat constructor; lra.
Qed.

(** the kept columns are orthonormal for the canonical inner product, NOT for <.,.>_G: scalar metric g = 2 *)
Theorem ortho_metric_orthonormal_refuted :
  ortho_pre_0d 0 [1; 1] 2 /\ inner_0d 2 [1; 1] [1; 1] <> 0 /\
  inner_0d 2 (col 0 (ortho_basis_0d 0 [1; 1] 2)) (col 0 (ortho_basis_0d 0 [1; 1] 2)) <> 1.
Proof.
  assert (P : ortho_pre_0d 0 [1; 1] 2) by (unfold ortho_pre_0d; simpl; split; [lra | lia]).
  assert (N : inner_0d 2 [1; 1] [1; 1] <> 0) by (unfold inner_0d; simpl; lra).
  split; [exact P|]. split; [exact N|].
  unfold inner_0d at 1. rewrite dot_vscale_r.
  rewrite (ortho_0d_orthonormal 0 [1; 1] 2 0 0 P N) by (simpl; lia). simpl. lra.
Qed.

(** ** non-vacuity of the hypotheses *)
Example ex_branches_hyp :
  ortho_pre_2d 1 [1; 2; 3] [[2; 1; 0]; [1; 2; 0]; [0; 0; 1]] /\
  nth 1 (metric_dir_2d [[2; 1; 0]; [1; 2; 0]; [0; 0; 1]] [1; 2; 3]) 0 <> 0 /\
  inner_2d [[2; 1; 0]; [1; 2; 0]; [0; 0; 1]] [1; 2; 3] [1; 2; 3] <> 0 /\
  ortho_pre_0d 2 [1; 2; 3] (1/2) /\ nth 2 (metric_dir_0d (1/2) [1; 2; 3]) 0 <> 0 /\
  ortho_pre_1d 1 [1; -2; 3] [2; 3; 4] /\ nth 1 (metric_dir_1d [2; 3; 4] [1; -2; 3]) 0 <> 0.
Proof.
  unfold ortho_pre_2d, ortho_pre_0d, ortho_pre_1d, metric_dir_2d, metric_dir_0d, metric_dir_1d, inner_2d, matvec.
  simpl. repeat split; try lra; try lia; repeat constructor; lra.
Qed.

(** ** rows of the mixing matrix and individual space shifts, every branch and strip_col *)
Theorem ortho_branches_mixing_space_shifts j d g G1 G2 betas sources k :
  (S (length betas) <= length d)%nat ->
  (ortho_pre_0d j d g -> nth j (metric_dir_0d g d) 0 <> 0 ->
     inner_0d g (nth k (mixing_matrix (ortho_basis_0d j d g) betas) []) d = 0 /\
     inner_0d g (nth k (space_shifts sources (mixing_matrix (ortho_basis_0d j d g) betas)) []) d = 0) /\
  (ortho_pre_1d j d G1 -> nth j (metric_dir_1d G1 d) 0 <> 0 ->
     inner_1d G1 (nth k (mixing_matrix (ortho_basis_1d j d G1) betas) []) d = 0 /\
     inner_1d G1 (nth k (space_shifts sources (mixing_matrix (ortho_basis_1d j d G1) betas)) []) d = 0) /\
  (ortho_pre_2d j d G2 -> nth j (metric_dir_2d G2 d) 0 <> 0 ->
     inner_2d G2 (nth k (mixing_matrix (ortho_basis_2d j d G2) betas) []) d = 0 /\
     inner_2d G2 (nth k (space_shifts sources (mixing_matrix (ortho_basis_2d j d G2) betas)) []) d = 0).
Proof.
  intros Hb. unfold inner_0d, inner_1d, inner_2d, ortho_basis_0d, ortho_basis_1d, ortho_basis_2d. split; [|split].
  - intros (Hg & Hj) H0. apply hh_at_mixing_space_shifts; auto. apply vscale_length.
  - intros (HG & HL & Hj) H0. apply hh_at_mixing_space_shifts; auto. now apply vmul_length.
  - intros ((HL & HR) & Hj) H0. apply hh_at_mixing_space_shifts; auto. unfold metric_dir_2d. now rewrite matvec_length.
Qed.
