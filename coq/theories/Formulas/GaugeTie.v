(** C10 — theorems about the definitions REGENERATED from the code (coq/gen/GenC10.v):
    the generated Householder function is the model of [Ortho.v]; the gauge move leaves the traced
    trajectories / attachment / event terms unchanged; the directions the models pass to the basis are
    positive; the translated re-centring scripts perform exactly the gauge move. *)
From Coq Require Import String Reals List Lra Lia.
From Leaspy Require Import Base.RAux Formulas.Ortho Formulas.OrthoProofs Formulas.Gauge Formulas.GaugeProofs.
From LeaspyGen Require Import GenC10.
Import ListNotations.
Local Open Scope R_scope.

(** ** the generated [compute_orthonormal_basis] is the hand-written model *)

Lemma tie_ortho_basis d G : gen_ortho_basis d G = ortho_basis d G.
Proof. reflexivity. Qed.

Lemma tie_ortho_pre d G : gen_ortho_pre d G <-> ortho_pre d G.
Proof. unfold gen_ortho_pre, ortho_pre. tauto. Qed.

Lemma tie_wiring B betas Srcs :
  gen_logistic_mixing B betas = mixing_matrix B betas /\ gen_linear_mixing B betas = mixing_matrix B betas /\
  gen_joint_mixing B betas = mixing_matrix B betas /\ gen_shared_mixing B betas = mixing_matrix B betas /\
  gen_logistic_space_shifts Srcs B = space_shifts Srcs B /\ gen_linear_space_shifts Srcs B = space_shifts Srcs B /\
  gen_joint_space_shifts Srcs B = space_shifts Srcs B /\ gen_shared_space_shifts Srcs B = space_shifts Srcs B.
Proof. repeat split; reflexivity. Qed.

(** ** gauge invariance of the traced scalar formulas *)

Ltac gauge := intros; rewrite ?gauge_key, ?gauge_key_nu, ?gauge_key_nu_src; reflexivity.

Lemma gauge_traj m lg g lv xi tau t :
  gen_logistic_traj lg (lv + m) (xi - m) tau t = gen_logistic_traj lg lv xi tau t /\
  gen_linear_traj g (lv + m) (xi - m) tau t = gen_linear_traj g lv xi tau t /\
  gen_joint_traj lg (lv + m) (xi - m) tau t = gen_joint_traj lg lv xi tau t.
Proof. unfold gen_logistic_traj, gen_linear_traj, gen_joint_traj. repeat split; gauge. Qed.

Lemma gauge_traj_src m lg g lv xi tau t w :
  gen_logistic_traj_src lg (lv + m) (xi - m) tau t w = gen_logistic_traj_src lg lv xi tau t w /\
  gen_linear_traj_src g (lv + m) (xi - m) tau t w = gen_linear_traj_src g lv xi tau t w /\
  gen_joint_traj_src lg (lv + m) (xi - m) tau t w = gen_joint_traj_src lg lv xi tau t w.
Proof. unfold gen_logistic_traj_src, gen_linear_traj_src, gen_joint_traj_src. repeat split; gauge. Qed.

Lemma gauge_attach m y s lg g lv xi tau t w :
  gen_logistic_attach y s lg (lv + m) (xi - m) tau t = gen_logistic_attach y s lg lv xi tau t /\
  gen_linear_attach y s g (lv + m) (xi - m) tau t = gen_linear_attach y s g lv xi tau t /\
  gen_joint_attach y s lg (lv + m) (xi - m) tau t = gen_joint_attach y s lg lv xi tau t /\
  gen_logistic_attach_src y s lg (lv + m) (xi - m) tau t w = gen_logistic_attach_src y s lg lv xi tau t w /\
  gen_linear_attach_src y s g (lv + m) (xi - m) tau t w = gen_linear_attach_src y s g lv xi tau t w /\
  gen_joint_attach_src y s lg (lv + m) (xi - m) tau t w = gen_joint_attach_src y s lg lv xi tau t w.
Proof.
  unfold gen_logistic_attach, gen_linear_attach, gen_joint_attach, gen_logistic_attach_src, gen_linear_attach_src,
    gen_joint_attach_src. repeat split; gauge.
Qed.

(** the Weibull event term: xi - m together with n_log_nu + m (nu = exp(- n_log_nu), nu_rep = exp(-xi) nu) *)
Lemma gauge_event m et eb lrho nln xi tau s :
  gen_joint_event et eb lrho (nln + m) (xi - m) tau = gen_joint_event et eb lrho nln xi tau /\
  gen_joint_event_src et eb lrho (nln + m) (xi - m) tau s = gen_joint_event_src et eb lrho nln xi tau s.
Proof. unfold gen_joint_event, gen_joint_event_src. split; gauge. Qed.

(** ** the directions passed to the basis are positive *)

Lemma logistic_G_pos lg : 0 < gen_logistic_G lg.
Proof.
  unfold gen_logistic_G. pose proof (exp_pos lg) as H. apply pow_lt. apply Rdiv_lt_0_compat; [apply pow_lt|]; lra.
Qed.

Lemma joint_G_pos lg : 0 < gen_joint_G lg.
Proof.
  unfold gen_joint_G. pose proof (exp_pos lg) as H. apply pow_lt. apply Rdiv_lt_0_compat; [apply pow_lt|]; lra.
Qed.

Lemma linear_G_pos : 0 < gen_linear_G.
Proof. unfold gen_linear_G. lra. Qed.

Lemma dir_pos lv : 0 < gen_logistic_dir lv /\ 0 < gen_linear_dir lv /\ 0 < gen_joint_dir lv.
Proof. unfold gen_logistic_dir, gen_linear_dir, gen_joint_dir. repeat split; apply exp_pos. Qed.

Lemma shared_dir_pos lg dl : 0 < gen_shared_dir lg dl.
Proof.
  unfold gen_shared_dir. pose proof (exp_pos lg). pose proof (exp_pos (dl * -1)).
  apply Rdiv_lt_0_compat; [assumption|]. apply pow_lt. nra.
Qed.

Lemma shared_G_pos lg dl : 0 < gen_shared_G lg dl.
Proof.
  unfold gen_shared_G. cbv zeta.
  set (a := exp lg * exp (dl * -1)).
  assert (Ha : 0 < a) by (unfold a; apply Rmult_lt_0_compat; apply exp_pos).
  assert (Hc : 0 < 1 / (a + 1)) by (apply Rdiv_lt_0_compat; lra).
  assert (Hd : 1 - 1 / (a + 1) = a / (a + 1)) by (field; lra).
  assert (He : 0 < a / (a + 1)) by (apply Rdiv_lt_0_compat; lra).
  apply Rdiv_lt_0_compat; [lra|]. apply pow_lt. rewrite Hd. nra.
Qed.

Lemma Forall_map_pos {X} (f : X -> R) l : (forall x, 0 < f x) -> Forall (fun y => 0 < y) (map f l).
Proof. intros H. induction l; simpl; constructor; auto. Qed.

(** ** G is the square of the coefficient the trajectory puts on (v0 rt + w) *)

Lemma metric_is_trajectory_metric lg g lv xi tau t w dl :
  (gen_logistic_G lg = gen_logistic_metric lg ^ 2 /\
   gen_logistic_traj_src lg lv xi tau t w = sigmoid (gen_logistic_metric lg * (exp lv * (exp xi * (t - tau)) + w) - ln (exp lg))) /\
  (gen_joint_G lg = gen_joint_metric lg ^ 2 /\
   gen_joint_traj_src lg lv xi tau t w = sigmoid (gen_joint_metric lg * (exp lv * (exp xi * (t - tau)) + w) - ln (exp lg))) /\
  (gen_linear_G = gen_linear_metric ^ 2 /\
   gen_linear_traj_src g lv xi tau t w = g + gen_linear_metric * (exp lv * (exp xi * (t - tau)) + w)) /\
  (gen_shared_G lg dl * gen_shared_dir lg dl = gen_shared_metric lg dl / exp lg /\
   gen_shared_traj_src lg dl xi tau t w = sigmoid (gen_shared_metric lg dl * w + 1 * (exp xi * (t - tau)) + dl - lg)).
Proof.
  repeat split; try reflexivity.
  - unfold gen_linear_traj_src, gen_linear_metric. ring.
  - unfold gen_shared_G, gen_shared_dir, gen_shared_metric. cbv zeta.
    pose proof (exp_pos lg). pose proof (exp_pos (dl * -1)).
    set (e := exp lg) in *. set (f := exp (dl * -1)) in *.
    field. repeat split; nra.
  - unfold gen_shared_traj_src, gen_shared_metric. cbv zeta. f_equal. ring.
Qed.

(** ** the basis of each model kind is unchanged by log_v0 + m *)

Lemma gauge_basis m lgl lvl :
  gen_logistic_basis lgl (shift m lvl) = gen_logistic_basis lgl lvl /\
  gen_linear_basis (shift m lvl) = gen_linear_basis lvl /\
  gen_joint_basis lgl (shift m lvl) = gen_joint_basis lgl lvl.
Proof.
  unfold gen_logistic_basis, gen_linear_basis, gen_joint_basis, gen_logistic_dir, gen_linear_dir, gen_joint_dir.
  rewrite !tie_ortho_basis.
  assert (E : map (fun x => exp x) (shift m lvl) = vscale (exp m) (map (fun x => exp x) lvl)).
  { unfold vscale. exact (map_exp_shift m lvl). }
  rewrite !E.
  assert (E2 : map (fun _ : R => gen_linear_G) (shift m lvl) = map (fun _ : R => gen_linear_G) lvl).
  { unfold shift. rewrite map_map. reflexivity. }
  rewrite E2.
  repeat split; apply ortho_basis_collinear, exp_pos.
Qed.

(** ** orthogonality for the generated function and for the four model kinds *)

Lemma gen_orthogonal d G j :
  nth 0 (vmul G d) 0 <> 0 -> (S j < length d)%nat -> dot (col j (gen_ortho_basis d G)) (vmul G d) = 0.
Proof. rewrite tie_ortho_basis. apply ortho_basis_orthogonal. Qed.

Lemma gen_collinear c d G : 0 < c -> gen_ortho_basis (vscale c d) G = gen_ortho_basis d G.
Proof. rewrite !tie_ortho_basis. apply ortho_basis_collinear. Qed.

Lemma mixing_pos d G betas k :
  Forall (fun x => 0 < x) G -> Forall (fun x => 0 < x) d -> length G = length d -> (0 < length d)%nat ->
  (S (length betas) <= length d)%nat ->
  dot (nth k (mixing_matrix (gen_ortho_basis d G) betas) []) (vmul G d) = 0.
Proof.
  intros HG Hd HL Hn Hb. rewrite tie_ortho_basis. apply mixing_rows_orthogonal; [|exact Hb].
  apply Rgt_not_eq. now apply first_coordinate_pos.
Qed.

Lemma shifts_pos d G betas Srcs i :
  Forall (fun x => 0 < x) G -> Forall (fun x => 0 < x) d -> length G = length d -> (0 < length d)%nat ->
  (S (length betas) <= length d)%nat ->
  dot (nth i (space_shifts Srcs (mixing_matrix (gen_ortho_basis d G) betas)) []) (vmul G d) = 0.
Proof.
  intros HG Hd HL Hn Hb. rewrite tie_ortho_basis. apply space_shifts_orthogonal; [|exact HL|exact Hb].
  apply Rgt_not_eq. now apply first_coordinate_pos.
Qed.

Section Kinds.
  Variables (lgl lvl dll : list R) (lg : R) (betas Srcs : matrix) (k : nat).
  Hypothesis Hlen : length lgl = length lvl.
  Hypothesis Hn : (0 < length lvl)%nat.
  Hypothesis Hb : (S (length betas) <= length lvl)%nat.
  Hypothesis Hns : (0 < length dll)%nat.
  Hypothesis Hbs : (S (length betas) <= length dll)%nat.

  Lemma logistic_mixing :
    dot (nth k (gen_logistic_mixing (gen_logistic_basis lgl lvl) betas) [])
        (vmul (map gen_logistic_G lgl) (map gen_logistic_dir lvl)) = 0.
  Proof.
    apply mixing_pos; rewrite ?map_length; auto; apply Forall_map_pos; intros; [apply logistic_G_pos | apply dir_pos].
  Qed.

  Lemma joint_mixing :
    dot (nth k (gen_joint_mixing (gen_joint_basis lgl lvl) betas) [])
        (vmul (map gen_joint_G lgl) (map gen_joint_dir lvl)) = 0.
  Proof.
    apply mixing_pos; rewrite ?map_length; auto; apply Forall_map_pos; intros; [apply joint_G_pos | apply dir_pos].
  Qed.

  Lemma linear_mixing :
    dot (nth k (gen_linear_mixing (gen_linear_basis lvl) betas) [])
        (vmul (map (fun _ => gen_linear_G) lvl) (map gen_linear_dir lvl)) = 0.
  Proof.
    apply mixing_pos; rewrite ?map_length; auto; apply Forall_map_pos; intros; [apply linear_G_pos | apply dir_pos].
  Qed.

  Lemma shared_mixing :
    dot (nth k (gen_shared_mixing (gen_shared_basis lg dll) betas) [])
        (vmul (map (gen_shared_G lg) dll) (map (gen_shared_dir lg) dll)) = 0.
  Proof.
    apply mixing_pos; rewrite ?map_length; auto; apply Forall_map_pos; intros; [apply shared_G_pos | apply shared_dir_pos].
  Qed.

  Lemma logistic_shifts :
    dot (nth k (gen_logistic_space_shifts Srcs (gen_logistic_mixing (gen_logistic_basis lgl lvl) betas)) [])
        (vmul (map gen_logistic_G lgl) (map gen_logistic_dir lvl)) = 0.
  Proof.
    apply shifts_pos; rewrite ?map_length; auto; apply Forall_map_pos; intros; [apply logistic_G_pos | apply dir_pos].
  Qed.

  Lemma joint_shifts :
    dot (nth k (gen_joint_space_shifts Srcs (gen_joint_mixing (gen_joint_basis lgl lvl) betas)) [])
        (vmul (map gen_joint_G lgl) (map gen_joint_dir lvl)) = 0.
  Proof.
    apply shifts_pos; rewrite ?map_length; auto; apply Forall_map_pos; intros; [apply joint_G_pos | apply dir_pos].
  Qed.

  Lemma linear_shifts :
    dot (nth k (gen_linear_space_shifts Srcs (gen_linear_mixing (gen_linear_basis lvl) betas)) [])
        (vmul (map (fun _ => gen_linear_G) lvl) (map gen_linear_dir lvl)) = 0.
  Proof.
    apply shifts_pos; rewrite ?map_length; auto; apply Forall_map_pos; intros; [apply linear_G_pos | apply dir_pos].
  Qed.

  Lemma shared_shifts :
    dot (nth k (gen_shared_space_shifts Srcs (gen_shared_mixing (gen_shared_basis lg dll) betas)) [])
        (vmul (map (gen_shared_G lg) dll) (map (gen_shared_dir lg) dll)) = 0.
  Proof.
    apply shifts_pos; rewrite ?map_length; auto; apply Forall_map_pos; intros; [apply shared_G_pos | apply shared_dir_pos].
  Qed.
End Kinds.

(** ** the translated re-centring scripts *)

Local Open Scope string_scope.

Definition gauge_moved (with_nu : bool) (st st' : store) (xs lv nu : list R) : Prop :=
  st' "xi" = Some (VV (center xs)) /\
  st' "log_v0" = Some (VV (shift (mean xs) lv)) /\
  (if with_nu then st' "n_log_nu" = Some (VV (shift (mean xs) nu)) else st' "n_log_nu" = st "n_log_nu") /\
  forall v, v <> "xi" -> v <> "log_v0" -> v <> "n_log_nu" -> st' v = st v.

Lemma upd_eq s k v : upd s k v k = Some v.
Proof. unfold upd. now rewrite String.eqb_refl. Qed.

Lemma upd_neq s k v k' : k <> k' -> upd s k v k' = s k'.
Proof. intros H. unfold upd. destruct (String.eqb_spec k k'); [contradiction | reflexivity]. Qed.

Ltac lookup := repeat (rewrite upd_eq || rewrite upd_neq by (discriminate || congruence)).
Ltac run_center Hxi Hlv Hnu :=
  repeat (cbn [run_script eval vbin]; lookup; rewrite ?Hxi, ?Hlv, ?Hnu);
  eexists; split; [reflexivity|];
  unfold gauge_moved; repeat split; lookup; try reflexivity;
  intros v H1 H2 H3; lookup; reflexivity.

Lemma script_logistic st xs lv :
  st "xi" = Some (VV xs) -> st "log_v0" = Some (VV lv) ->
  exists st', run_script gen_center_script_logistic st empty = Some st' /\ gauge_moved false st st' xs lv [].
Proof. intros Hxi Hlv. unfold gen_center_script_logistic. run_center Hxi Hlv Hlv. Qed.

Lemma script_linear st xs lv :
  st "xi" = Some (VV xs) -> st "log_v0" = Some (VV lv) ->
  exists st', run_script gen_center_script_linear st empty = Some st' /\ gauge_moved false st st' xs lv [].
Proof. intros Hxi Hlv. unfold gen_center_script_linear. run_center Hxi Hlv Hlv. Qed.

Lemma script_joint st xs lv nu :
  st "xi" = Some (VV xs) -> st "log_v0" = Some (VV lv) -> st "n_log_nu" = Some (VV nu) ->
  exists st', run_script gen_center_script_joint st empty = Some st' /\ gauge_moved true st st' xs lv nu.
Proof. intros Hxi Hlv Hnu. unfold gen_center_script_joint. run_center Hxi Hlv Hnu. Qed.

Local Open Scope R_scope.

(** ** with sources: the space shifts themselves are unchanged by the move (the basis is) *)
Lemma gauge_space_shifts m lgl lvl betas Srcs :
  gen_logistic_space_shifts Srcs (gen_logistic_mixing (gen_logistic_basis lgl (shift m lvl)) betas)
    = gen_logistic_space_shifts Srcs (gen_logistic_mixing (gen_logistic_basis lgl lvl) betas) /\
  gen_linear_space_shifts Srcs (gen_linear_mixing (gen_linear_basis (shift m lvl)) betas)
    = gen_linear_space_shifts Srcs (gen_linear_mixing (gen_linear_basis lvl) betas) /\
  gen_joint_space_shifts Srcs (gen_joint_mixing (gen_joint_basis lgl (shift m lvl)) betas)
    = gen_joint_space_shifts Srcs (gen_joint_mixing (gen_joint_basis lgl lvl) betas).
Proof.
  destruct (gauge_basis m lgl lvl) as (E1 & E2 & E3). rewrite E1, E2, E3. repeat split.
Qed.

(** ** torch.sign(0) = 0: with a vanishing first coordinate the kept column is not orthogonal *)
Lemma orthogonal_first_zero_refuted :
  exists d G j, gen_ortho_pre d G /\ (exists i, nth i (vmul G d) 0 <> 0) /\ (S j < length d)%nat /\
                dot (col j (gen_ortho_basis d G)) (vmul G d) <> 0.
Proof.
  exists [0; 1], [1; 1], 0%nat. split; [|split; [|split]].
  - unfold gen_ortho_pre. simpl. repeat split; try lia. repeat constructor; lra.
  - exists 1%nat. simpl. lra.
  - simpl. lia.
  - rewrite tie_ortho_basis, ortho_basis_first_zero_witness. lra.
Qed.

(** ** non-vacuity of the hypotheses used above *)
Example ex_orthogonal_hyp : nth 0 (vmul [2; 3; 1/2] [1/4; 1; 5]) 0 <> 0 /\ (S 1 < length [1/4; 1; 5]%R)%nat.
Proof. simpl. split; [lra | lia]. Qed.

Example ex_kinds_hyp :
  length [0; 1/2; -1] = length [-3; -4; -7/2] /\ (0 < length [-3; -4; -7/2]%R)%nat /\
  (S (length [[1/10]; [-1/5]]%R) <= length [-3; -4; -7/2]%R)%nat.
Proof. simpl. repeat split; lia. Qed.

Example ex_script_hyp :
  let st := upd (upd (upd empty "xi" (VV [1; 2; 6])) "log_v0" (VV [-3; -4])) "n_log_nu" (VV [2]) in
  st "xi"%string = Some (VV [1; 2; 6]) /\ st "log_v0"%string = Some (VV [-3; -4]) /\ st "n_log_nu"%string = Some (VV [2])
  /\ [1; 2; 6] <> [] /\ mean [1; 2; 6] = 3.
Proof. simpl. repeat split; try discriminate. unfold mean. simpl. field. Qed.
