(** C10 — proofs about the Householder basis ([Ortho.ortho_basis]), any dimension, no matrix library:
    - every kept column is orthogonal to D = G∘d as soon as the first coordinate of D is non-zero
      (scalar identity u·u = 2 u·D from alpha² = D·D, bilinearity of the list dot product);
    - with D_0 = 0 and D <> 0 the statement is false ([torch.sign(0) = 0]) — concrete witness;
    - the basis does not change when d is multiplied by c > 0;
    - rows of (B·betas)ᵀ and of sources·(B·betas)ᵀ are orthogonal to D. *)
From Coq Require Import Reals List Arith Lra Lia.
From Leaspy Require Import Formulas.Ortho.
Import ListNotations.
Local Open Scope R_scope.

(** ** entries *)

Lemma nth_nil_R k : nth k (@nil R) 0 = 0.
Proof. destruct k; reflexivity. Qed.

Lemma nth_vscale c a k : nth k (vscale c a) 0 = c * nth k a 0.
Proof.
  revert k; induction a as [|x a IH]; intros [|k]; simpl; try ring. apply IH.
Qed.

Lemma nth_vdivs a c k : nth k (vdivs a c) 0 = nth k a 0 / c.
Proof.
  revert k; induction a as [|x a IH]; intros [|k]; simpl; try (unfold Rdiv; ring). apply IH.
Qed.

Lemma nth_opp a k : nth k (map Ropp a) 0 = - nth k a 0.
Proof.
  revert k; induction a as [|x a IH]; intros [|k]; simpl; try ring. apply IH.
Qed.

Lemma nth_vsub a b k : nth k (vsub a b) 0 = nth k a 0 - nth k b 0.
Proof.
  revert b k; induction a as [|x a IH]; intros b k.
  - simpl vsub. rewrite nth_opp, nth_nil_R. ring.
  - destruct b as [|y b].
    + simpl vsub. rewrite (nth_nil_R k). ring.
    + destruct k; simpl; [ring | apply IH].
Qed.

Lemma nth_vadd a b k : nth k (vadd a b) 0 = nth k a 0 + nth k b 0.
Proof.
  revert b k; induction a as [|x a IH]; intros b k.
  - simpl vadd. rewrite nth_nil_R. ring.
  - destruct b as [|y b].
    + simpl vadd. rewrite (nth_nil_R k). ring.
    + destruct k; simpl; [ring | apply IH].
Qed.

Lemma nth_vmul a b k : nth k (vmul a b) 0 = nth k a 0 * nth k b 0.
Proof.
  revert b k; induction a as [|x a IH]; intros b k.
  - simpl vmul. rewrite !nth_nil_R. ring.
  - destruct b as [|y b].
    + simpl vmul. rewrite !(nth_nil_R k). ring.
    + destruct k; simpl; [ring | apply IH].
Qed.

Lemma vmul_length a b : length a = length b -> length (vmul a b) = length b.
Proof.
  revert b; induction a as [|x a IH]; intros [|y b] H; simpl in *; try discriminate; auto.
Qed.

(** ** dot product: bilinear, symmetric, positive *)

Lemma dot_nil_r a : dot a [] = 0.
Proof. destruct a; reflexivity. Qed.

Lemma dot_comm a b : dot a b = dot b a.
Proof.
  revert b; induction a as [|x a IH]; intros [|y b]; simpl; try reflexivity.
  rewrite IH. ring.
Qed.

Lemma dot_vscale_l c a b : dot (vscale c a) b = c * dot a b.
Proof.
  revert b; induction a as [|x a IH]; intros [|y b]; simpl; try ring.
  unfold vscale in IH. rewrite IH. ring.
Qed.

Lemma dot_vdivs_l a c b : dot (vdivs a c) b = dot a b / c.
Proof.
  revert b; induction a as [|x a IH]; intros [|y b]; simpl; try (unfold Rdiv; ring).
  unfold vdivs in IH. rewrite IH. unfold Rdiv. ring.
Qed.

Lemma dot_opp_l a b : dot (map Ropp a) b = - dot a b.
Proof.
  revert b; induction a as [|x a IH]; intros [|y b]; simpl; try ring.
  rewrite IH. ring.
Qed.

Lemma dot_vsub_l a b c : dot (vsub a b) c = dot a c - dot b c.
Proof.
  revert b c; induction a as [|x a IH]; intros b c.
  - simpl vsub. rewrite dot_opp_l. simpl. ring.
  - destruct b as [|y b].
    + simpl vsub. simpl (dot [] c). ring.
    + destruct c as [|z c]; simpl; [ring|]. rewrite IH. ring.
Qed.

Lemma dot_vadd_l a b c : dot (vadd a b) c = dot a c + dot b c.
Proof.
  revert b c; induction a as [|x a IH]; intros b c.
  - simpl. ring.
  - destruct b as [|y b].
    + simpl vadd. simpl (dot [] c). ring.
    + destruct c as [|z c]; simpl; [ring|]. rewrite IH. ring.
Qed.

Lemma dot_self_nonneg a : 0 <= dot a a.
Proof.
  induction a as [|x a IH]; simpl; [lra|]. pose proof (Rle_0_sqr x) as H. unfold Rsqr in H. lra.
Qed.

Lemma dot_zeros_l {X} (l : list X) b : dot (map (fun _ => 0) l) b = 0.
Proof.
  revert b; induction l as [|x l IH]; intros [|y b]; simpl; try reflexivity.
  rewrite IH. ring.
Qed.

Lemma dot_self_0 a : dot a a = 0 -> Forall (fun x => x = 0) a.
Proof.
  induction a as [|x a IH]; simpl; intros H; constructor.
  - pose proof (dot_self_nonneg a). pose proof (Rle_0_sqr x) as Hx. unfold Rsqr in Hx. nra.
  - apply IH. pose proof (dot_self_nonneg a). pose proof (Rle_0_sqr x) as Hx. unfold Rsqr in Hx. nra.
Qed.

(** if z vanishes on the support of c then z·c = 0 *)
Lemma dot_vanishing z c : (forall j, (j < length c)%nat -> nth j z 0 = 0) -> dot z c = 0.
Proof.
  revert c; induction z as [|y z IH]; intros [|x c] H; simpl; try reflexivity.
  assert (E : y = 0) by (apply (H 0%nat); simpl; lia). rewrite E, IH; [ring|].
  intros j Hj. apply (H (S j)). simpl; lia.
Qed.

(** ** columns *)

Lemma col_cons j r M : col j (r :: M) = nth j r 0 :: col j M.
Proof. reflexivity. Qed.

Lemma col_length j M : length (col j M) = length M.
Proof. apply map_length. Qed.

Lemma col_msub j A B : col j (msub A B) = vsub (col j A) (col j B).
Proof.
  revert B; induction A as [|a A IH]; intros B.
  - simpl. unfold col. rewrite !map_map. apply map_ext. intros r. apply nth_opp.
  - destruct B as [|b B]; [reflexivity|]. simpl msub. rewrite !col_cons, IH, nth_vsub. reflexivity.
Qed.

Lemma col_outer j a b : col j (outer a b) = vscale (nth j b 0) a.
Proof.
  unfold col, outer, vscale. rewrite map_map. apply map_ext. intros x.
  fold (vscale x b). rewrite nth_vscale. ring.
Qed.

Lemma col_map_cons0_O M : col 0 (map (cons 0) M) = map (fun _ => 0) M.
Proof. unfold col. rewrite map_map. reflexivity. Qed.

Lemma col_map_cons0_S j M : col (S j) (map (cons 0) M) = col j M.
Proof. unfold col. rewrite map_map. reflexivity. Qed.

(** column j of the identity dotted with D picks D_j *)
Lemma dot_col_eye n j D : (j < n)%nat -> dot (col j (eye n)) D = nth j D 0.
Proof.
  revert j D; induction n as [|n IH]; intros j D Hj; [lia|].
  simpl eye. rewrite col_cons. destruct D as [|x D].
  - simpl. destruct j; reflexivity.
  - destruct j as [|j].
    + rewrite col_map_cons0_O. simpl. rewrite dot_zeros_l. ring.
    + rewrite col_map_cons0_S. simpl. rewrite nth_repeat, IH by lia. ring.
Qed.

Lemma mcat_cols_map {X} (f g : X -> list R) (l : list X) :
  mcat_cols (map f l) (map g l) = map (fun x => f x ++ g x) l.
Proof. induction l as [|x l IH]; simpl; [reflexivity | now rewrite IH]. Qed.

(** dropping the first column shifts the column index *)
Lemma col_drop_first j Q : col j (mcat_cols (cols_before 0 Q) (cols_from (0 + 1) Q)) = col (S j) Q.
Proof.
  unfold cols_before, cols_from. rewrite mcat_cols_map. unfold col. rewrite map_map.
  apply map_ext. intros r. simpl. destruct r; [destruct j; reflexivity | reflexivity].
Qed.

(** ** the Householder vector *)

Lemma sign_sqr x : x <> 0 -> sign x * sign x = 1.
Proof.
  intros H. unfold sign. destruct (Rlt_dec 0 x); [ring|]. destruct (Rlt_dec x 0); [ring|]. lra.
Qed.

Lemma sign_mul_nonneg x : 0 <= sign x * x.
Proof.
  unfold sign. destruct (Rlt_dec 0 x); [lra|]. destruct (Rlt_dec x 0); lra.
Qed.

Lemma sign_scale c x : 0 < c -> sign (c * x) = sign x.
Proof.
  intros Hc. unfold sign.
  destruct (Rlt_dec 0 x) as [H|H]; destruct (Rlt_dec 0 (c * x)) as [H'|H']; try reflexivity; try nra.
  destruct (Rlt_dec x 0) as [K|K]; destruct (Rlt_dec (c * x) 0) as [K'|K']; try reflexivity; nra.
Qed.

Lemma vsub_scaled_zeros c D : vsub D (vscale c (vzeros_like D)) = D.
Proof.
  induction D as [|x D IH]; [reflexivity|].
  change (vsub (x :: D) (vscale c (vzeros_like (x :: D))))
    with ((x - c * 0) :: vsub D (vscale c (vzeros_like D))).
  rewrite IH. f_equal. ring.
Qed.

(** u = D - alpha e_0 = (D_0 - alpha) :: tail *)
Lemma householder_u x D alpha :
  vsub (x :: D) (vscale alpha (vset (vzeros_like (x :: D)) 0 1)) = (x - alpha) :: D.
Proof.
  change (vsub (x :: D) (vscale alpha (vset (vzeros_like (x :: D)) 0 1)))
    with ((x - alpha * 1) :: vsub D (vscale alpha (vzeros_like D))).
  rewrite vsub_scaled_zeros. f_equal. ring.
Qed.

Section Householder.
  Variables (x : R) (D : list R).
  Hypothesis Hx : x <> 0.
  Let DD := x :: D.
  Let alpha := (- sign (vget DD 0)) * vnorm DD.
  Let u := (x - alpha) :: D.

  Lemma hh_DD_pos : 0 < dot DD DD.
  Proof.
    simpl. pose proof (dot_self_nonneg D). pose proof (Rle_0_sqr x) as H1. unfold Rsqr in H1.
    assert (x * x <> 0) by (intros E; apply Rmult_integral in E; tauto). lra.
  Qed.

  Lemma hh_alpha_sqr : alpha * alpha = dot DD DD.
  Proof.
    unfold alpha, vnorm, vget. simpl nth.
    replace (- sign x * sqrt (dot DD DD) * (- sign x * sqrt (dot DD DD)))
      with ((sign x * sign x) * (sqrt (dot DD DD) * sqrt (dot DD DD))) by ring.
    rewrite sign_sqr by exact Hx. rewrite sqrt_sqrt by apply dot_self_nonneg. ring.
  Qed.

  Lemma hh_alpha_x : alpha * x <= 0.
  Proof.
    unfold alpha, vnorm, vget. simpl nth.
    pose proof (sign_mul_nonneg x). pose proof (sqrt_pos (dot DD DD)). nra.
  Qed.

  (** the scalar identity *)
  Lemma hh_uu : dot u u = 2 * dot u DD.
  Proof.
    pose proof hh_alpha_sqr as H. unfold u, DD in *. simpl in *. nra.
  Qed.

  Lemma hh_uu_pos : 0 < dot u u.
  Proof.
    rewrite hh_uu. pose proof hh_DD_pos as H. pose proof hh_alpha_x as H2.
    unfold u, DD in *. simpl in *. nra.
  Qed.

  Lemma hh_norm_u_pos : 0 < vnorm u.
  Proof. apply sqrt_lt_R0, hh_uu_pos. Qed.
End Householder.

(** Every kept column of the reflection is orthogonal to D (first coordinate non-zero). *)
Lemma householder_orthogonal n D j :
  nth 0 D 0 <> 0 -> (S j < n)%nat -> dot (col j (householder n D)) D = 0.
Proof.
  intros H0 Hj. destruct D as [|x D]; [simpl in H0; lra|]. simpl in H0.
  unfold householder. rewrite col_drop_first, col_msub, dot_vsub_l, dot_col_eye by exact Hj.
  rewrite col_outer, dot_vscale_l, dot_vscale_l, nth_vdivs, dot_vdivs_l.
  rewrite householder_u.
  set (alpha := - sign (vget (x :: D) 0) * vnorm (x :: D)).
  set (u := (x - alpha) :: D).
  pose proof (hh_uu x D H0) as Huu. pose proof (hh_uu_pos x D H0) as Hpos.
  pose proof (hh_norm_u_pos x D H0) as Hn. fold alpha in Huu, Hpos, Hn. fold u in Huu, Hpos, Hn.
  assert (Hsq : vnorm u * vnorm u = dot u u) by (unfold vnorm; apply sqrt_sqrt, dot_self_nonneg).
  change (nth (S j) u 0) with (nth j D 0). change (nth (S j) (x :: D) 0) with (nth j D 0).
  assert (E : 2 * (dot u (x :: D) / vnorm u) = vnorm u).
  { apply (Rmult_eq_reg_r (vnorm u)); [|lra]. unfold Rdiv.
    replace (2 * (dot u (x :: D) * / vnorm u) * vnorm u) with (2 * dot u (x :: D) * (vnorm u * / vnorm u)) by ring.
    rewrite Rinv_r by lra. lra. }
  replace (nth j D 0 / vnorm u * (2 * (dot u (x :: D) / vnorm u))) with (nth j D 0 / vnorm u * vnorm u) by (rewrite E; reflexivity).
  unfold Rdiv. rewrite Rmult_assoc, Rinv_l by lra. ring.
Qed.

(** The code's basis: all n-1 columns orthogonal to G∘d. *)
Theorem ortho_basis_orthogonal d G j :
  nth 0 (vmul G d) 0 <> 0 -> (S j < length d)%nat ->
  dot (col j (ortho_basis d G)) (vmul G d) = 0.
Proof. intros. unfold ortho_basis. now apply householder_orthogonal. Qed.

(** In the models the first coordinate is a product of positive numbers. *)
Lemma first_coordinate_pos d G :
  Forall (fun x => 0 < x) G -> Forall (fun x => 0 < x) d -> length G = length d -> (0 < length d)%nat ->
  0 < nth 0 (vmul G d) 0.
Proof.
  intros HG Hd HL Hn. destruct d as [|x d]; [simpl in Hn; lia|]. destruct G as [|g G]; [discriminate|].
  inversion HG; inversion Hd; subst. simpl. nra.
Qed.

(** [torch.sign(0) = 0]: when the first coordinate of D vanishes the reflection is about D itself and the
    kept columns are NOT orthogonal to D.  Witness: D = (0, 1). *)
Lemma ortho_basis_first_zero_witness :
  dot (col 0 (ortho_basis [0; 1] [1; 1])) (vmul [1; 1] [0; 1]) = -1.
Proof.
  unfold ortho_basis, householder, vget, vnorm, sign. simpl.
  destruct (Rlt_dec 0 (1 * 0)) as [H|_]; [lra|]. destruct (Rlt_dec (1 * 0) 0) as [H|_]; [lra|].
  replace (1 * 0 * (1 * 0) + (1 * 1 * (1 * 1) + 0)) with 1 by ring. rewrite sqrt_1.
  replace ((1 * 0 - - 0 * 1 * 1) * (1 * 0 - - 0 * 1 * 1) + ((1 * 1 - - 0 * 1 * 0) * (1 * 1 - - 0 * 1 * 0) + 0)) with 1 by ring.
  rewrite sqrt_1. unfold Rdiv. rewrite Rinv_1. ring.
Qed.

(** ** scale invariance *)

Lemma vmul_vscale_r c G d : vmul G (vscale c d) = vscale c (vmul G d).
Proof.
  revert d; induction G as [|g G IH]; intros [|x d]; try reflexivity.
  change (g * (c * x) :: vmul G (vscale c d) = c * (g * x) :: vscale c (vmul G d)).
  rewrite IH. f_equal. ring.
Qed.

Lemma vzeros_like_vscale c D : vzeros_like (vscale c D) = vzeros_like D.
Proof. unfold vzeros_like, vscale. rewrite map_map. reflexivity. Qed.

Lemma dot_vscale_both c a : dot (vscale c a) (vscale c a) = (c * c) * dot a a.
Proof. rewrite dot_vscale_l, dot_comm, dot_vscale_l. ring. Qed.

Lemma vnorm_vscale c a : 0 <= c -> vnorm (vscale c a) = c * vnorm a.
Proof.
  intros Hc. unfold vnorm. rewrite dot_vscale_both.
  rewrite sqrt_mult by (try apply dot_self_nonneg; nra). rewrite sqrt_square by exact Hc. reflexivity.
Qed.

Lemma vsub_vscale c k a b : vsub (vscale c a) (vscale (c * k) b) = vscale c (vsub a (vscale k b)).
Proof.
  revert b; induction a as [|x a IH]; intros b.
  - simpl. unfold vscale. rewrite !map_map. apply map_ext. intros y. ring.
  - destruct b as [|y b]; [reflexivity|].
    change ((c * x - c * k * y) :: vsub (vscale c a) (vscale (c * k) b) = c * (x - k * y) :: vscale c (vsub a (vscale k b))).
    rewrite IH. f_equal. ring.
Qed.

Lemma vdivs_vscale c u : 0 < c -> vdivs (vscale c u) (c * vnorm u) = vdivs u (vnorm u).
Proof.
  intros Hc. unfold vdivs, vscale. rewrite map_map.
  destruct (Req_dec (vnorm u) 0) as [E|E].
  - assert (Z : Forall (fun x => x = 0) u).
    { apply dot_self_0. unfold vnorm in E. apply sqrt_eq_0 in E; [exact E | apply dot_self_nonneg]. }
    apply map_ext_in. intros x Hx. rewrite Forall_forall in Z. rewrite (Z x Hx). unfold Rdiv. ring.
  - apply map_ext. intros x. field. split; lra.
Qed.

Lemma vget_vscale c D : vget (vscale c D) 0 = c * vget D 0.
Proof. unfold vget. apply nth_vscale. Qed.

Lemma householder_scale n c D : 0 < c -> householder n (vscale c D) = householder n D.
Proof.
  intros Hc. unfold householder.
  rewrite vzeros_like_vscale, vget_vscale, sign_scale by exact Hc.
  rewrite (vnorm_vscale c D) by lra.
  replace (- sign (vget D 0) * (c * vnorm D)) with (c * (- sign (vget D 0) * vnorm D)) by ring.
  rewrite vsub_vscale.
  set (u := vsub D (vscale (- sign (vget D 0) * vnorm D) (vset (vzeros_like D) 0 1))).
  rewrite (vnorm_vscale c u) by lra. rewrite vdivs_vscale by exact Hc. reflexivity.
Qed.

(** Multiplying the direction by c > 0 leaves the basis unchanged — no other hypothesis. *)
Theorem ortho_basis_collinear c d G : 0 < c -> ortho_basis (vscale c d) G = ortho_basis d G.
Proof.
  intros Hc. unfold ortho_basis. rewrite vmul_vscale_r. unfold vscale at 1. rewrite map_length.
  now apply householder_scale.
Qed.

(** ** mixing matrix and space shifts *)

Lemma nth_vecmat j x M : nth j (vecmat x M) 0 = dot (col j M) x.
Proof.
  revert M; induction x as [|c x IH]; intros [|r M].
  - simpl vecmat. rewrite nth_nil_R. reflexivity.
  - simpl vecmat. rewrite nth_nil_R. symmetry. apply dot_nil_r.
  - simpl vecmat. rewrite nth_nil_R. reflexivity.
  - change (vecmat (c :: x) (r :: M)) with (vadd (vscale c r) (vecmat x M)).
    rewrite nth_vadd, nth_vscale, IH, col_cons. simpl dot. ring.
Qed.

Lemma dot_rows_vecmat c M x : dot (map (fun a => dot a c) M) x = dot (vecmat x M) c.
Proof.
  revert x; induction M as [|r M IH]; intros [|y x]; try reflexivity.
  change (vecmat (y :: x) (r :: M)) with (vadd (vscale y r) (vecmat x M)).
  rewrite dot_vadd_l, dot_vscale_l. simpl. rewrite IH. ring.
Qed.

Lemma nth_map_seq {X} (f : nat -> X) (d : X) n k : (k < n)%nat -> nth k (map f (seq 0 n)) d = f k.
Proof.
  intros H. rewrite (nth_indep _ d (f 0%nat)) by (rewrite map_length, seq_length; exact H).
  rewrite map_nth, seq_nth by exact H. reflexivity.
Qed.

Lemma col_matmul k A B : (k < ncols B)%nat -> col k (matmul A B) = map (fun a => dot a (col k B)) A.
Proof.
  intros H. unfold col at 1, matmul. rewrite map_map. apply map_ext. intros a.
  exact (nth_map_seq (fun j => dot a (col j B)) 0 (ncols B) k H).
Qed.

(** D^T (B betas) = 0 as soon as D^T B vanishes on the rows of betas *)
Lemma col_matmul_orthogonal B betas D k :
  (forall j, (j < length betas)%nat -> dot (col j B) D = 0) ->
  dot (nth k (transpose (matmul B betas)) []) D = 0.
Proof.
  intros H. unfold transpose.
  destruct (lt_dec k (ncols (matmul B betas))) as [Hk|Hk].
  - rewrite nth_map_seq by exact Hk.
    destruct B as [|b B]; [reflexivity|].
    assert (Hk' : (k < ncols betas)%nat).
    { unfold matmul, ncols in Hk. simpl in Hk. rewrite map_length, seq_length in Hk. exact Hk. }
    rewrite col_matmul by exact Hk'. rewrite dot_rows_vecmat.
    apply dot_vanishing. intros j Hj. rewrite col_length in Hj. rewrite nth_vecmat. now apply H.
  - rewrite nth_overflow; [reflexivity|]. rewrite map_length, seq_length. lia.
Qed.

Theorem mixing_rows_orthogonal d G betas k :
  nth 0 (vmul G d) 0 <> 0 -> (S (length betas) <= length d)%nat ->
  dot (nth k (mixing_matrix (ortho_basis d G) betas) []) (vmul G d) = 0.
Proof.
  intros H0 HL. unfold mixing_matrix. apply col_matmul_orthogonal.
  intros j Hj. apply ortho_basis_orthogonal; [exact H0 | lia].
Qed.

(** padding a row with zeros up to m >= |D| does not change its dot product with D *)
Lemma dot_padded r m D : (length D <= m)%nat -> dot (map (fun j => nth j r 0) (seq 0 m)) D = dot r D.
Proof.
  revert m D; induction r as [|y r IH]; intros m D H.
  - rewrite (map_ext _ (fun _ => 0)) by (intros; apply nth_nil_R). rewrite dot_zeros_l. reflexivity.
  - destruct D as [|x D]; [rewrite !dot_nil_r; reflexivity|].
    destruct m as [|m]; [simpl in H; lia|].
    simpl seq. rewrite <- seq_shift, map_cons, map_map. simpl. rewrite IH by (simpl in H; lia). reflexivity.
Qed.

Lemma dot_map_add f g l D :
  dot (map (fun j : nat => f j + g j) l) D = dot (map f l) D + dot (map g l) D.
Proof.
  revert D; induction l as [|j l IH]; intros [|x D]; simpl; try ring. rewrite IH. ring.
Qed.

Lemma dot_map_scale c f (l : list nat) D : dot (map (fun j => c * f j) l) D = c * dot (map f l) D.
Proof.
  revert D; induction l as [|j l IH]; intros [|x D]; simpl; try ring. rewrite IH. ring.
Qed.

(** (s^T A) · D = s · (A D) *)
Lemma dot_row_matmul s A m D :
  (length D <= m)%nat ->
  dot (map (fun j => dot s (col j A)) (seq 0 m)) D = dot s (map (fun r => dot r D) A).
Proof.
  intros H. revert A; induction s as [|c s IH]; intros A.
  - simpl. rewrite (dot_zeros_l (seq 0 m) D). reflexivity.
  - destruct A as [|r A].
    + simpl. apply dot_zeros_l.
    + transitivity (dot (map (fun j => c * nth j r 0 + dot s (col j A)) (seq 0 m)) D).
      { f_equal. }
      rewrite dot_map_add, (dot_map_scale c (fun j => nth j r 0)), dot_padded, IH by exact H. reflexivity.
Qed.

Lemma nth_rows_dot A D j : nth j (map (fun r => dot r D) A) 0 = dot (nth j A []) D.
Proof. change 0 with (dot [] D) at 1. apply (map_nth (fun r => dot r D)). Qed.

(** every individual space shift s_i · A is orthogonal to D when every row of A is *)
Lemma matmul_rows_orthogonal S A D i :
  (length D <= ncols A)%nat -> (forall k, dot (nth k A []) D = 0) ->
  dot (nth i (matmul S A) []) D = 0.
Proof.
  intros HL H. unfold matmul.
  destruct (lt_dec i (length S)) as [Hi|Hi].
  - rewrite (nth_indep _ [] ((fun a => map (fun j => dot a (col j A)) (seq 0 (ncols A))) [])) by (rewrite map_length; exact Hi).
    rewrite (map_nth (fun a => map (fun j => dot a (col j A)) (seq 0 (ncols A)))).
    rewrite dot_row_matmul by exact HL.
    rewrite dot_comm. apply dot_vanishing. intros j _. rewrite nth_rows_dot. apply H.
  - rewrite nth_overflow; [reflexivity|]. rewrite map_length. lia.
Qed.

Lemma transpose_row_length M k : (k < ncols M)%nat -> length (nth k (transpose M) []) = length M.
Proof. intros H. unfold transpose. rewrite nth_map_seq by exact H. apply col_length. Qed.

Lemma ncols_transpose M : (0 < ncols M)%nat -> ncols (transpose M) = length M.
Proof.
  intros H. unfold transpose. destruct (ncols M) as [|n]; [lia|]. simpl. apply col_length.
Qed.

(** shapes: the basis has as many rows as the direction has coordinates *)
Lemma vsub_length a b : length (vsub a b) = Nat.max (length a) (length b).
Proof.
  revert b; induction a as [|x a IH]; intros [|y b]; simpl; try reflexivity.
  - now rewrite map_length.
  - now rewrite IH.
Qed.

Lemma msub_length A B : length (msub A B) = Nat.max (length A) (length B).
Proof.
  revert B; induction A as [|x a IH]; intros [|y b]; simpl; try reflexivity.
  - now rewrite map_length.
  - now rewrite IH.
Qed.

Lemma eye_length n : length (eye n) = n.
Proof. induction n as [|n IH]; simpl; [reflexivity|]. now rewrite map_length, IH. Qed.

Lemma vset_length a j x : length (vset a j x) = length a.
Proof. revert j; induction a as [|y a IH]; intros [|j]; simpl; try reflexivity. now rewrite IH. Qed.

Lemma householder_rows n D : length D = n -> length (householder n D) = n.
Proof.
  intros H. unfold householder, cols_before, cols_from. rewrite mcat_cols_map, map_length, msub_length, eye_length.
  unfold outer, vscale, vdivs. rewrite !map_length, vsub_length, map_length, vset_length.
  unfold vzeros_like. rewrite map_length. lia.
Qed.

Lemma ortho_basis_rows d G : length G = length d -> length (ortho_basis d G) = length d.
Proof. intros H. unfold ortho_basis. apply householder_rows. now apply vmul_length. Qed.

Lemma matmul_length A B : length (matmul A B) = length A.
Proof. apply map_length. Qed.

Lemma ncols_matmul A B : (0 < length A)%nat -> ncols (matmul A B) = ncols B.
Proof.
  intros H. destruct A as [|a A]; [simpl in H; lia|]. unfold matmul, ncols. simpl.
  now rewrite map_length, seq_length.
Qed.

(** Every individual space shift (row i of sources · mixing_matrix) is orthogonal to G∘d. *)
Theorem space_shifts_orthogonal d G betas sources i :
  nth 0 (vmul G d) 0 <> 0 -> length G = length d -> (S (length betas) <= length d)%nat ->
  dot (nth i (space_shifts sources (mixing_matrix (ortho_basis d G) betas)) []) (vmul G d) = 0.
Proof.
  intros H0 HG HL. unfold space_shifts.
  destruct (Nat.eq_dec (ncols betas) 0) as [E|E].
  - (* no source: the mixing matrix is empty and every shift is the empty sum *)
    unfold mixing_matrix, transpose. rewrite ncols_matmul by (rewrite ortho_basis_rows by exact HG; lia).
    rewrite E. simpl seq. simpl map. unfold matmul. simpl ncols. simpl seq. simpl map.
    destruct (lt_dec i (length sources)) as [Hi|Hi].
    + rewrite (map_nth (fun _ : list R => @nil R) sources [] i). reflexivity.
    + rewrite nth_overflow; [reflexivity | rewrite map_length; lia].
  - apply matmul_rows_orthogonal.
    + unfold mixing_matrix. rewrite ncols_transpose.
      * rewrite matmul_length, ortho_basis_rows, vmul_length by exact HG. lia.
      * rewrite ncols_matmul by (rewrite ortho_basis_rows by exact HG; lia). lia.
    + intros k. now apply mixing_rows_orthogonal.
Qed.
