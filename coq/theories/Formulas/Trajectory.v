(** C09 — the DOCUMENTED individual trajectories (definitions only; written from the documentation, not from the code).

    Sources:
    - docs/models.md:9      psi_i(t) = e^{xi_i} (t - tau_i) + t0            (latent disease age)
    - docs/models.md:94     gamma_{i,k}(t) = [1 + g_k exp(-((1+g_k)^2/g_k) (v0_k (psi_i(t) - t0) + w_{i,k}))]^{-1}
    - docs/models.md:102    1/(1+g_k) is the value of the logistic curve at t0
    - docs/models.md:23     w_i = A s_i                                     (space shifts = mixing matrix x sources)
    - src/leaspy/models/linear.py (class doc: "linear formulation"), docs/mathematics.md:60 (Euclidean metric: straight
      lines): g_k + v0_k e^{xi}(t - tau) + w_{i,k}
    - src/leaspy/models/shared_speed_logistic.py class doc: "same average evolution pace for all variables (logistic
      curves are only time-shifted)", [metric] doc: (g e^{-delta} + 1)^2 / (g e^{-delta}), [pad_deltas] doc:
      "delta_1 is set to zero in the equations": the logistic curve of position g_k = g e^{-delta_k} followed at unit pace
      in reparametrized time. *)
From Coq Require Import Reals List.
Import ListNotations.
Local Open Scope R_scope.

(** psi_i(t) - t0 *)
Definition reparam (xi tau t : R) : R := exp xi * (t - tau).

Definition doc_metric (g : R) : R := (1 + g) ^ 2 / g.

Definition doc_logistic (g v0 xi tau w t : R) : R :=
  / (1 + g * exp (- (doc_metric g * (v0 * reparam xi tau t + w)))).

Definition doc_linear (g v0 xi tau w t : R) : R :=
  g + v0 * reparam xi tau t + w.

(** shared-speed logistic, feature with shift [delta] (0 for the first feature) *)
Definition doc_shared_g (g delta : R) : R := g * exp (- delta).

Definition doc_shared (g delta xi tau w t : R) : R :=
  / (1 + doc_shared_g g delta * exp (- (reparam xi tau t + doc_metric (doc_shared_g g delta) * w))).

(** space shift of feature k: (A s)_k = sum_j s_j A_{j,k}; [col] is the k-th column of the mixing matrix
    (code: [MatMul("sources", "mixing_matrix")], mixing matrix of shape (n_sources, n_features)) *)
Fixpoint dot (s col : list R) : R :=
  match s, col with
  | x :: s', a :: col' => x * a + dot s' col'
  | _, _ => 0
  end.
