(** Proofs about the textbook densities (Density.v) and the code-shaped Weibull terms (LikelihoodCode.v).
    Nothing here mentions the generated file; DensityTie.v instantiates these on the generated definitions. *)
From Coq Require Import Reals Lra.
From Coquelicot Require Import Coquelicot.
From Leaspy Require Import Base.RAux Formulas.TorchDist Formulas.Density Formulas.LikelihoodCode.
Local Open Scope R_scope.

(** * Gaussian *)

Lemma sqrt_2PI_pos : 0 < sqrt (2 * PI).
Proof. apply sqrt_lt_R0. pose proof PI_RGT_0. lra. Qed.

Lemma normal_pdf_pos x mu sigma : 0 < sigma -> 0 < normal_pdf x mu sigma.
Proof.
  intros Hs. unfold normal_pdf. pose proof sqrt_2PI_pos as Hq.
  apply Rmult_lt_0_compat; [|apply exp_pos].
  apply Rdiv_lt_0_compat; [lra|]. apply Rmult_lt_0_compat; assumption.
Qed.

(** the closed form the code uses, with ANY additive constant [c] in place of the float32 one *)
Lemma normal_nll_closed x mu sigma c :
  0 < sigma ->
  ((x - mu) / sigma) ^ 2 * (1 / 2) + ln sigma + c = - ln (normal_pdf x mu sigma) + (c - ln (sqrt (2 * PI))).
Proof.
  intros Hs. unfold normal_pdf. pose proof sqrt_2PI_pos as Hq.
  assert (Hp : 0 < sigma * sqrt (2 * PI)) by (apply Rmult_lt_0_compat; assumption).
  rewrite ln_mult; [| apply Rdiv_lt_0_compat; lra | apply exp_pos].
  rewrite ln_exp.
  replace (1 / (sigma * sqrt (2 * PI))) with (/ (sigma * sqrt (2 * PI))) by (field; split; lra).
  rewrite ln_Rinv by assumption.
  rewrite ln_mult by assumption. field. lra.
Qed.

Lemma normal_jacobian_is_derivative x mu sigma c :
  sigma <> 0 ->
  is_derive (fun x0 => ((x0 - mu) / sigma) ^ 2 * (1 / 2) + ln sigma + c) x ((x - mu) / sigma ^ 2).
Proof.
  intros Hs. auto_derive; [exact I|]. field. exact Hs.
Qed.

(** * Bernoulli *)

(** the kernel model (stable form) is the documented loss of torch.nn.BCEWithLogitsLoss *)
Lemma bce_doc_form x y :
  torch_bce_with_logits x y = - (y * ln (sigmoid x) + (1 - y) * ln (1 - sigmoid x)).
Proof.
  unfold torch_bce_with_logits, sigmoid.
  pose proof (exp_pos (- x)) as He.
  assert (H1 : 0 < 1 + exp (- x)) by lra.
  rewrite ln_Rinv by exact H1.
  replace (1 - / (1 + exp (- x))) with (exp (- x) * / (1 + exp (- x))) by (field; lra).
  rewrite ln_mult; [| exact He | apply Rinv_0_lt_compat; exact H1].
  rewrite ln_exp, ln_Rinv by exact H1. ring.
Qed.

(** ... and at the logit of a probability strictly inside ]0,1[ it is the Bernoulli cross-entropy *)
Lemma bce_at_logit c y :
  0 < c < 1 -> torch_bce_with_logits (ln c - ln (1 + - c)) y = - (y * ln c + (1 - y) * ln (1 - c)).
Proof.
  intros [H0 H1]. unfold torch_bce_with_logits.
  replace (1 + - c) with (1 - c) by ring.
  assert (E : exp (- (ln c - ln (1 - c))) = (1 - c) / c).
  { replace (- (ln c - ln (1 - c))) with (ln (1 - c) + - ln c) by ring.
    rewrite exp_plus, exp_Ropp, !exp_ln by lra. reflexivity. }
  rewrite E. replace (1 + (1 - c) / c) with (/ c) by (field; lra).
  rewrite ln_Rinv by lra. ring.
Qed.

Lemma clamp_prob_range lo hi p : lo <= hi -> lo <= clamp_prob lo hi p <= hi.
Proof.
  intros H. unfold clamp_prob. split; [apply Rmin_glb; [apply Rmax_r | exact H] | apply Rmin_r].
Qed.

Lemma clamp_prob_id lo hi p : lo <= p <= hi -> clamp_prob lo hi p = p.
Proof. intros [H1 H2]. unfold clamp_prob. rewrite Rmax_left by lra. rewrite Rmin_left by lra. reflexivity. Qed.

Lemma clamp_prob_hi lo hi p : lo <= hi -> hi <= p -> clamp_prob lo hi p = hi.
Proof. intros H1 H2. unfold clamp_prob. rewrite Rmax_left by lra. rewrite Rmin_right by lra. reflexivity. Qed.

Lemma clamp_prob_lo lo hi p : lo <= hi -> p <= lo -> clamp_prob lo hi p = lo.
Proof. intros H1 H2. unfold clamp_prob. rewrite Rmax_right by lra. rewrite Rmin_left by lra. reflexivity. Qed.

Lemma bernoulli_pmf_cases y c :
  y = 0 \/ y = 1 -> - (y * ln c + (1 - y) * ln (1 - c)) = - ln (bernoulli_pmf y c).
Proof.
  intros [Hy|Hy]; subst y; unfold bernoulli_pmf.
  - destruct (Req_EM_T 0 1) as [E|_]; [lra|]. destruct (Req_EM_T 0 0) as [_|N]; [|lra]. f_equal. ring.
  - destruct (Req_EM_T 1 1) as [_|N]; [|lra]. f_equal. ring.
Qed.

(** the traced code path, for ANY probability argument: the negative log-pmf at the CLAMPED probability *)
Lemma code_bernoulli_clamped lo hi y p :
  0 < lo -> lo <= hi -> hi < 1 -> y = 0 \/ y = 1 ->
  code_bernoulli_nll lo hi y p = - ln (bernoulli_pmf y (clamp_prob lo hi p)).
Proof.
  intros Hl Hlh Hh Hy. unfold code_bernoulli_nll. pose proof (clamp_prob_range lo hi p Hlh) as Hc.
  rewrite bce_at_logit by lra. rewrite Ropp_involutive. apply bernoulli_pmf_cases. exact Hy.
Qed.

(** probabilities that the clamp leaves alone: the negative log-pmf itself *)
Lemma code_bernoulli_interior lo hi y p :
  0 < lo -> hi < 1 -> lo <= p <= hi -> y = 0 \/ y = 1 ->
  code_bernoulli_nll lo hi y p = - ln (bernoulli_pmf y p).
Proof.
  intros Hl Hh Hp Hy. rewrite code_bernoulli_clamped by (try assumption; lra).
  rewrite clamp_prob_id by exact Hp. reflexivity.
Qed.

(** finite for every probability argument, saturated or not *)
Lemma code_bernoulli_bounds lo hi y p :
  0 < lo -> lo <= hi -> hi < 1 -> y = 0 \/ y = 1 ->
  0 <= code_bernoulli_nll lo hi y p <= - ln (Rmin lo (1 - hi)).
Proof.
  intros Hl Hlh Hh Hy. rewrite code_bernoulli_clamped by assumption.
  pose proof (clamp_prob_range lo hi p Hlh) as [Hc1 Hc2]. set (c := clamp_prob lo hi p) in *.
  assert (Hm : 0 < Rmin lo (1 - hi)) by (apply Rmin_glb_lt; lra).
  assert (Hq : forall q, Rmin lo (1 - hi) <= q -> q <= 1 -> 0 <= - ln q <= - ln (Rmin lo (1 - hi))).
  { intros q Hq1 Hq2. split.
    - assert (ln q <= ln 1) by (apply ln_le; lra). rewrite ln_1 in *. lra.
    - assert (ln (Rmin lo (1 - hi)) <= ln q) by (apply ln_le; lra). lra. }
  destruct Hy as [Hy|Hy]; subst y; unfold bernoulli_pmf.
  - destruct (Req_EM_T 0 1) as [E|_]; [lra|]. destruct (Req_EM_T 0 0) as [_|N]; [|lra].
    apply Hq; [|lra]. pose proof (Rmin_r lo (1 - hi)). lra.
  - destruct (Req_EM_T 1 1) as [_|N]; [|lra].
    apply Hq; [|lra]. pose proof (Rmin_l lo (1 - hi)). lra.
Qed.

(** saturated probability with the matching outcome: -ln(1 - eps), a rounding unit — not 0 * ln 0 *)
Lemma code_bernoulli_saturated lo hi p :
  0 < lo -> lo <= hi -> hi < 1 ->
  (hi <= p -> code_bernoulli_nll lo hi 1 p = - ln hi /\ code_bernoulli_nll lo hi 0 p = - ln (1 - hi)) /\
  (p <= lo -> code_bernoulli_nll lo hi 0 p = - ln (1 - lo) /\ code_bernoulli_nll lo hi 1 p = - ln lo).
Proof.
  intros Hl Hlh Hh. split; intros Hp; split; rewrite code_bernoulli_clamped by (try assumption; lra || (left; reflexivity) || (right; reflexivity));
    rewrite ?(clamp_prob_hi lo hi p Hlh Hp), ?(clamp_prob_lo lo hi p Hlh Hp); unfold bernoulli_pmf;
    repeat match goal with |- context [Req_EM_T ?a ?b] => destruct (Req_EM_T a b); try lra end; reflexivity.
Qed.

(** * Weibull: textbook facts *)

Lemma weibull_hazard_pos lam rho t : 0 < lam -> 0 < rho -> 0 < t -> 0 < weibull_hazard lam rho t.
Proof.
  intros Hl Hr Ht. unfold weibull_hazard. apply Rmult_lt_0_compat.
  - apply Rdiv_lt_0_compat; assumption.
  - unfold Rpower. apply exp_pos.
Qed.

Lemma weibull_survival_pos lam rho t : 0 < weibull_survival lam rho t.
Proof. unfold weibull_survival. destruct (Rlt_dec 0 t); [apply exp_pos | lra]. Qed.

Lemma weibull_survival_le_1 lam rho t : weibull_survival lam rho t <= 1.
Proof.
  unfold weibull_survival. destruct (Rlt_dec 0 t); [|lra].
  rewrite <- exp_0. left. apply exp_increasing. unfold Rpower. pose proof (exp_pos (rho * ln (t / lam))). lra.
Qed.

Lemma weibull_pdf_pos lam rho t : 0 < lam -> 0 < rho -> 0 < t -> 0 < weibull_pdf lam rho t.
Proof.
  intros. unfold weibull_pdf. apply Rmult_lt_0_compat; [apply weibull_hazard_pos; assumption | apply weibull_survival_pos].
Qed.

Lemma weibull_density_pos lam rho t :
  0 < lam -> 0 < rho ->
  (0 < t -> 0 < weibull_hazard lam rho t * weibull_survival lam rho t) /\ 0 < weibull_survival lam rho t <= 1.
Proof.
  intros Hl Hr. split; [intros Ht; exact (weibull_pdf_pos lam rho t Hl Hr Ht) |].
  split; [apply weibull_survival_pos | apply weibull_survival_le_1].
Qed.

Lemma weibull_survival_before lam rho t : t <= 0 -> weibull_survival lam rho t = 1.
Proof. intros H. unfold weibull_survival. destruct (Rlt_dec 0 t); [lra | reflexivity]. Qed.

(** the hazard and the survival function written by hand describe ONE distribution: h = -(ln S)' on t > 0 *)
Lemma hazard_is_minus_dlog_survival lam rho t :
  0 < lam -> 0 < rho -> 0 < t ->
  is_derive (fun s => - ln (exp (- Rpower (s / lam) rho))) t (weibull_hazard lam rho t).
Proof.
  intros Hl Hr Ht. unfold weibull_hazard.
  assert (Hq : 0 < t / lam) by (apply Rdiv_lt_0_compat; assumption).
  apply is_derive_ext_loc with (f := fun s => exp (rho * ln (s / lam))).
  - assert (Hloc : locally t (fun s => 0 < s)).
    { exists (mkposreal t Ht). intros y Hy. unfold ball in Hy; simpl in Hy. unfold AbsRing_ball, abs, minus, plus, opp in Hy; simpl in Hy.
      apply Rabs_def2 in Hy. lra. }
    apply filter_imp with (2 := Hloc). intros s Hs. rewrite ln_exp, Ropp_involutive. reflexivity.
  - auto_derive.
    + exact Hq.
    + change (t * / lam) with (t / lam). unfold Rpower. replace ((rho - 1) * ln (t / lam)) with (rho * ln (t / lam) - ln (t / lam)) by ring.
      unfold Rminus at 1. rewrite exp_plus, exp_Ropp, exp_ln by exact Hq. field. split; lra.
Qed.

(** * Weibull: the code-shaped terms *)

Section Code.
  Variable INF : R.
  Hypothesis INF_pos : 0 < INF.

  Lemma code_log_survival_after lam rho t :
    0 < lam -> 0 < t -> code_log_survival lam rho t = - Rpower (t / lam) rho.
  Proof.
    intros Hl Ht. unfold code_log_survival. rewrite Rmax_left by lra.
    rewrite tpow_pos; [reflexivity | apply Rdiv_lt_0_compat; assumption].
  Qed.

  Lemma code_log_survival_before lam rho t :
    0 < rho -> t <= 0 -> code_log_survival lam rho t = 0.
  Proof.
    intros Hr Ht. unfold code_log_survival. rewrite Rmax_right by lra.
    unfold Rdiv. rewrite Rmult_0_l, tpow_0 by assumption. ring.
  Qed.

  Lemma code_log_survival_is_ln_S lam rho t :
    0 < lam -> 0 < rho -> code_log_survival lam rho t = ln (weibull_survival lam rho t).
  Proof.
    intros Hl Hr. unfold weibull_survival. destruct (Rlt_dec 0 t) as [Ht|Ht].
    - rewrite code_log_survival_after, ln_exp by assumption. reflexivity.
    - rewrite code_log_survival_before, ln_1 by lra. reflexivity.
  Qed.

  Lemma code_hazard_after lam rho t :
    0 < lam -> 0 < t -> code_hazard INF lam rho t = weibull_hazard lam rho t.
  Proof.
    intros Hl Ht. unfold code_hazard, weibull_hazard. destruct (Rlt_dec 0 t); [|contradiction].
    rewrite tpow_pos; [reflexivity | apply Rdiv_lt_0_compat; assumption].
  Qed.

  Lemma code_log_hazard_event lam rho t delta :
    0 < lam -> 0 < rho -> 0 < t -> delta <> 0 ->
    code_log_hazard INF lam rho t delta = ln (weibull_hazard lam rho t).
  Proof.
    intros Hl Hr Ht Hd. unfold code_log_hazard. destruct (Req_EM_T delta 0); [contradiction|].
    rewrite code_hazard_after by assumption.
    destruct (Rlt_dec 0 (weibull_hazard lam rho t)) as [_|N]; [reflexivity|].
    exfalso. apply N. apply weibull_hazard_pos; assumption.
  Qed.

  Lemma code_log_hazard_censored lam rho t delta :
    delta = 0 -> code_log_hazard INF lam rho t delta = 0.
  Proof. intros Hd. unfold code_log_hazard. destruct (Req_EM_T delta 0); [reflexivity | contradiction]. Qed.

  Lemma code_log_hazard_before lam rho t delta :
    t <= 0 -> delta <> 0 -> code_log_hazard INF lam rho t delta = - INF.
  Proof.
    intros Ht Hd. unfold code_log_hazard, code_hazard. destruct (Req_EM_T delta 0); [contradiction|].
    destruct (Rlt_dec 0 t); [lra|]. destruct (Rlt_dec 0 (- INF)); [lra | reflexivity].
  Qed.

  (** observed event after the reference time: -ln (h S), the negative log-density *)
  Theorem code_nll_event lam rho t delta :
    0 < lam -> 0 < rho -> 0 < t -> delta <> 0 ->
    code_nll INF lam rho t delta = - ln (weibull_hazard lam rho t * weibull_survival lam rho t).
  Proof.
    intros Hl Hr Ht Hd. unfold code_nll.
    rewrite code_log_survival_is_ln_S, code_log_hazard_event by assumption.
    rewrite ln_mult; [ring | apply weibull_hazard_pos; assumption | apply weibull_survival_pos].
  Qed.

  (** censored individual: the survival term only, wherever the censoring time lies *)
  Theorem code_nll_censored lam rho t delta :
    0 < lam -> 0 < rho -> delta = 0 ->
    code_nll INF lam rho t delta = - ln (weibull_survival lam rho t).
  Proof.
    intros Hl Hr Hd. unfold code_nll.
    rewrite code_log_survival_is_ln_S, code_log_hazard_censored by assumption. ring.
  Qed.

  (** observed event at or before the reference time: exactly the penalty, for every scale (the survival term at the clamped time 0 vanishes) *)
  Theorem code_nll_before lam rho t delta :
    0 < rho -> t <= 0 -> delta <> 0 -> code_nll INF lam rho t delta = INF.
  Proof.
    intros Hr Ht Hd. unfold code_nll.
    rewrite code_log_survival_before, code_log_hazard_before by assumption. ring.
  Qed.
End Code.

(** * Reparametrisation: the textbook Weibull with the individual scale is the documented formula *)

Lemma nu_tilde_pos nu xi : 0 < nu -> 0 < nu_tilde nu xi.
Proof. intros. unfold nu_tilde. apply Rmult_lt_0_compat; [assumption | apply exp_pos]. Qed.

Lemma nu_tilde_src_pos nu rho xi u : 0 < nu -> 0 < nu_tilde_src nu rho xi u.
Proof. intros. unfold nu_tilde_src. apply Rmult_lt_0_compat; [assumption | apply exp_pos]. Qed.

Lemma nu_tilde_src_0 nu rho xi : nu_tilde_src nu rho xi 0 = nu_tilde nu xi.
Proof. unfold nu_tilde_src, nu_tilde, Rdiv. rewrite Rmult_0_l, Rplus_0_r. reflexivity. Qed.

Lemma time_over_nu_tilde_src nu rho xi u t :
  0 < nu -> 0 < rho -> t / nu_tilde_src nu rho xi u = (exp xi * t / nu) * exp (u / rho).
Proof.
  intros Hn Hr. unfold nu_tilde_src.
  rewrite Ropp_plus_distr, exp_plus, !exp_Ropp.
  pose proof (exp_pos xi). pose proof (exp_pos (u / rho)). field. repeat split; lra.
Qed.

Lemma reparam_survival nu rho xi tau u x :
  0 < nu -> 0 < rho -> tau < x ->
  weibull_survival (nu_tilde_src nu rho xi u) rho (x - tau) = doc_survival nu rho xi tau u x.
Proof.
  intros Hn Hr Hx. unfold weibull_survival, doc_survival. destruct (Rlt_dec 0 (x - tau)); [|lra].
  rewrite time_over_nu_tilde_src by assumption. f_equal. f_equal.
  assert (Hb : 0 < exp xi * (x - tau) / nu).
  { apply Rdiv_lt_0_compat; [|assumption]. apply Rmult_lt_0_compat; [apply exp_pos | lra]. }
  rewrite <- Rpower_mult_distr; [| exact Hb | apply exp_pos]. f_equal.
  unfold Rpower. rewrite ln_exp. f_equal. field. lra.
Qed.

Lemma reparam_hazard nu rho xi tau u x :
  0 < nu -> 0 < rho -> tau < x ->
  weibull_hazard (nu_tilde_src nu rho xi u) rho (x - tau) = doc_hazard nu rho xi tau u x.
Proof.
  intros Hn Hr Hx. unfold weibull_hazard, doc_hazard.
  rewrite (time_over_nu_tilde_src nu rho xi u (x - tau)) by assumption.
  assert (Hb : 0 < exp xi * (x - tau) / nu).
  { apply Rdiv_lt_0_compat; [|assumption]. apply Rmult_lt_0_compat; [apply exp_pos | lra]. }
  rewrite <- Rpower_mult_distr; [| exact Hb | apply exp_pos].
  assert (E : Rpower (exp (u / rho)) (rho - 1) = exp u * / exp (u / rho)).
  { unfold Rpower. rewrite ln_exp. replace ((rho - 1) * (u / rho)) with (u + - (u / rho)) by (field; lra).
    rewrite exp_plus, exp_Ropp. reflexivity. }
  rewrite E. unfold nu_tilde_src. rewrite Ropp_plus_distr, exp_plus, !exp_Ropp.
  pose proof (exp_pos xi). pose proof (exp_pos (u / rho)). field. repeat split; lra.
Qed.
