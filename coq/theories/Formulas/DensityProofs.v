(** Proofs about the textbook densities (Density.v) and the code-shaped Weibull terms (LikelihoodCode.v).
    Nothing here mentions the generated file; DensityTie.v instantiates these on the generated definitions. *)
From Coq Require Import Reals Lra.
From Coquelicot Require Import Coquelicot.
From Leaspy Require Import Base.RAux Formulas.TorchDist Formulas.Density Formulas.LikelihoodCode.
Local Open Scope R_scope.

(** * Gaussian *)

Lemma sqrt_2PI_pos : 0 < sqrt (2 * PI).
Proof. apply sqrt_lt_R0. pose proof PI_RGT_0. lra. Qed.

Lemma normal_pdf_pos x mu sigma : 0 < sigma -> 0 < normal_pdf x mu sigma.
Proof.
  intros Hs. unfold normal_pdf. pose proof sqrt_2PI_pos as Hq.
  apply Rmult_lt_0_compat; [|apply exp_pos].
  apply Rdiv_lt_0_compat; [lra|]. apply Rmult_lt_0_compat; assumption.
Qed.

(** the closed form the code uses, with ANY additive constant [c] in place of the float32 one *)
Lemma normal_nll_closed x mu sigma c :
  0 < sigma ->
  ((x - mu) / sigma) ^ 2 * (1 / 2) + ln sigma + c = - ln (normal_pdf x mu sigma) + (c - ln (sqrt (2 * PI))).
Proof.
  intros Hs. unfold normal_pdf. pose proof sqrt_2PI_pos as Hq.
  assert (Hp : 0 < sigma * sqrt (2 * PI)) by (apply Rmult_lt_0_compat; assumption).
  rewrite ln_mult; [| apply Rdiv_lt_0_compat; lra | apply exp_pos].
  rewrite ln_exp.
  replace (1 / (sigma * sqrt (2 * PI))) with (/ (sigma * sqrt (2 * PI))) by (field; split; lra).
  rewrite ln_Rinv by assumption.
  rewrite ln_mult by assumption. field. lra.
Qed.

Lemma normal_jacobian_is_derivative x mu sigma c :
  sigma <> 0 ->
  is_derive (fun x0 => ((x0 - mu) / sigma) ^ 2 * (1 / 2) + ln sigma + c) x ((x - mu) / sigma ^ 2).
Proof.
  intros Hs. auto_derive; [exact I|]. field. exact Hs.
Qed.

(** * Bernoulli *)

Lemma bernoulli_nll_is_neg_log_pmf y p :
  0 < p < 1 -> y = 0 \/ y = 1 ->
  - torch_bernoulli_log_prob p y = - ln (bernoulli_pmf y p).
Proof.
  intros Hp [Hy|Hy]; subst y; unfold torch_bernoulli_log_prob, bernoulli_pmf.
  - destruct (Req_EM_T 0 1) as [E|_]; [lra|]. destruct (Req_EM_T 0 0) as [_|N]; [|lra]. f_equal. ring.
  - destruct (Req_EM_T 1 1) as [_|N]; [|lra]. f_equal. ring.
Qed.

(** * Weibull: textbook facts *)

Lemma weibull_hazard_pos lam rho t : 0 < lam -> 0 < rho -> 0 < t -> 0 < weibull_hazard lam rho t.
Proof.
  intros Hl Hr Ht. unfold weibull_hazard. apply Rmult_lt_0_compat.
  - apply Rdiv_lt_0_compat; assumption.
  - unfold Rpower. apply exp_pos.
Qed.

Lemma weibull_survival_pos lam rho t : 0 < weibull_survival lam rho t.
Proof. unfold weibull_survival. destruct (Rlt_dec 0 t); [apply exp_pos | lra]. Qed.

Lemma weibull_survival_le_1 lam rho t : weibull_survival lam rho t <= 1.
Proof.
  unfold weibull_survival. destruct (Rlt_dec 0 t); [|lra].
  rewrite <- exp_0. left. apply exp_increasing. unfold Rpower. pose proof (exp_pos (rho * ln (t / lam))). lra.
Qed.

Lemma weibull_pdf_pos lam rho t : 0 < lam -> 0 < rho -> 0 < t -> 0 < weibull_pdf lam rho t.
Proof.
  intros. unfold weibull_pdf. apply Rmult_lt_0_compat; [apply weibull_hazard_pos; assumption | apply weibull_survival_pos].
Qed.

Lemma weibull_density_pos lam rho t :
  0 < lam -> 0 < rho ->
  (0 < t -> 0 < weibull_hazard lam rho t * weibull_survival lam rho t) /\ 0 < weibull_survival lam rho t <= 1.
Proof.
  intros Hl Hr. split; [intros Ht; exact (weibull_pdf_pos lam rho t Hl Hr Ht) |].
  split; [apply weibull_survival_pos | apply weibull_survival_le_1].
Qed.

Lemma weibull_survival_before lam rho t : t <= 0 -> weibull_survival lam rho t = 1.
Proof. intros H. unfold weibull_survival. destruct (Rlt_dec 0 t); [lra | reflexivity]. Qed.

(** the hazard and the survival function written by hand describe ONE distribution: h = -(ln S)' on t > 0 *)
Lemma hazard_is_minus_dlog_survival lam rho t :
  0 < lam -> 0 < rho -> 0 < t ->
  is_derive (fun s => - ln (exp (- Rpower (s / lam) rho))) t (weibull_hazard lam rho t).
Proof.
  intros Hl Hr Ht. unfold weibull_hazard.
  assert (Hq : 0 < t / lam) by (apply Rdiv_lt_0_compat; assumption).
  apply is_derive_ext_loc with (f := fun s => exp (rho * ln (s / lam))).
  - assert (Hloc : locally t (fun s => 0 < s)).
    { exists (mkposreal t Ht). intros y Hy. unfold ball in Hy; simpl in Hy. unfold AbsRing_ball, abs, minus, plus, opp in Hy; simpl in Hy.
      apply Rabs_def2 in Hy. lra. }
    apply filter_imp with (2 := Hloc). intros s Hs. rewrite ln_exp, Ropp_involutive. reflexivity.
  - auto_derive.
    + exact Hq.
    + change (t * / lam) with (t / lam). unfold Rpower. replace ((rho - 1) * ln (t / lam)) with (rho * ln (t / lam) - ln (t / lam)) by ring.
      unfold Rminus at 1. rewrite exp_plus, exp_Ropp, exp_ln by exact Hq. field. split; lra.
Qed.

(** * Weibull: the code-shaped terms *)

Section Code.
  Variable INF : R.
  Hypothesis INF_pos : 0 < INF.

  Lemma code_log_survival_after lam rho t :
    0 < lam -> 0 < t -> code_log_survival lam rho t = - Rpower (t / lam) rho.
  Proof.
    intros Hl Ht. unfold code_log_survival. rewrite Rmax_left by lra.
    rewrite tpow_pos; [reflexivity | apply Rdiv_lt_0_compat; assumption].
  Qed.

  Lemma code_log_survival_before lam rho t :
    0 < rho -> t <= 0 -> code_log_survival lam rho t = 0.
  Proof.
    intros Hr Ht. unfold code_log_survival. rewrite Rmax_right by lra.
    unfold Rdiv. rewrite Rmult_0_l, tpow_0 by assumption. ring.
  Qed.

  Lemma code_log_survival_is_ln_S lam rho t :
    0 < lam -> 0 < rho -> code_log_survival lam rho t = ln (weibull_survival lam rho t).
  Proof.
    intros Hl Hr. unfold weibull_survival. destruct (Rlt_dec 0 t) as [Ht|Ht].
    - rewrite code_log_survival_after, ln_exp by assumption. reflexivity.
    - rewrite code_log_survival_before, ln_1 by lra. reflexivity.
  Qed.

  Lemma code_hazard_after lam rho t :
    0 < lam -> 0 < t -> code_hazard INF lam rho t = weibull_hazard lam rho t.
  Proof.
    intros Hl Ht. unfold code_hazard, weibull_hazard. destruct (Rlt_dec 0 t); [|contradiction].
    rewrite tpow_pos; [reflexivity | apply Rdiv_lt_0_compat; assumption].
  Qed.

  Lemma code_log_hazard_event lam rho t delta :
    0 < lam -> 0 < rho -> 0 < t -> delta <> 0 ->
    code_log_hazard INF lam rho t delta = ln (weibull_hazard lam rho t).
  Proof.
    intros Hl Hr Ht Hd. unfold code_log_hazard. destruct (Req_EM_T delta 0); [contradiction|].
    rewrite code_hazard_after by assumption.
    destruct (Rlt_dec 0 (weibull_hazard lam rho t)) as [_|N]; [reflexivity|].
    exfalso. apply N. apply weibull_hazard_pos; assumption.
  Qed.

  Lemma code_log_hazard_censored lam rho t delta :
    delta = 0 -> code_log_hazard INF lam rho t delta = 0.
  Proof. intros Hd. unfold code_log_hazard. destruct (Req_EM_T delta 0); [reflexivity | contradiction]. Qed.

  Lemma code_log_hazard_before lam rho t delta :
    t <= 0 -> delta <> 0 -> code_log_hazard INF lam rho t delta = - INF.
  Proof.
    intros Ht Hd. unfold code_log_hazard, code_hazard. destruct (Req_EM_T delta 0); [contradiction|].
    destruct (Rlt_dec 0 t); [lra|]. destruct (Rlt_dec 0 (- INF)); [lra | reflexivity].
  Qed.

  (** observed event after the reference time: -ln (h S), the negative log-density *)
  Theorem code_nll_event lam rho t delta :
    0 < lam -> 0 < rho -> 0 < t -> delta <> 0 ->
    code_nll INF lam rho t delta = - ln (weibull_hazard lam rho t * weibull_survival lam rho t).
  Proof.
    intros Hl Hr Ht Hd. unfold code_nll.
    rewrite code_log_survival_is_ln_S, code_log_hazard_event by assumption.
    rewrite ln_mult; [ring | apply weibull_hazard_pos; assumption | apply weibull_survival_pos].
  Qed.

  (** censored individual: the survival term only, wherever the censoring time lies *)
  Theorem code_nll_censored lam rho t delta :
    0 < lam -> 0 < rho -> delta = 0 ->
    code_nll INF lam rho t delta = - ln (weibull_survival lam rho t).
  Proof.
    intros Hl Hr Hd. unfold code_nll.
    rewrite code_log_survival_is_ln_S, code_log_hazard_censored by assumption. ring.
  Qed.

  (** observed event at or before the reference time: exactly the penalty, for every scale (the survival term at the clamped time 0 vanishes) *)
  Theorem code_nll_before lam rho t delta :
    0 < rho -> t <= 0 -> delta <> 0 -> code_nll INF lam rho t delta = INF.
  Proof.
    intros Hr Ht Hd. unfold code_nll.
    rewrite code_log_survival_before, code_log_hazard_before by assumption. ring.
  Qed.
End Code.

(** * Reparametrisation: the textbook Weibull with the individual scale is the documented formula *)

Lemma nu_tilde_pos nu xi : 0 < nu -> 0 < nu_tilde nu xi.
Proof. intros. unfold nu_tilde. apply Rmult_lt_0_compat; [assumption | apply exp_pos]. Qed.

Lemma nu_tilde_src_pos nu rho xi u : 0 < nu -> 0 < nu_tilde_src nu rho xi u.
Proof. intros. unfold nu_tilde_src. apply Rmult_lt_0_compat; [assumption | apply exp_pos]. Qed.

Lemma nu_tilde_src_0 nu rho xi : nu_tilde_src nu rho xi 0 = nu_tilde nu xi.
Proof. unfold nu_tilde_src, nu_tilde, Rdiv. rewrite Rmult_0_l, Rplus_0_r. reflexivity. Qed.

Lemma time_over_nu_tilde_src nu rho xi u t :
  0 < nu -> 0 < rho -> t / nu_tilde_src nu rho xi u = (exp xi * t / nu) * exp (u / rho).
Proof.
  intros Hn Hr. unfold nu_tilde_src.
  rewrite Ropp_plus_distr, exp_plus, !exp_Ropp.
  pose proof (exp_pos xi). pose proof (exp_pos (u / rho)). field. repeat split; lra.
Qed.

Lemma reparam_survival nu rho xi tau u x :
  0 < nu -> 0 < rho -> tau < x ->
  weibull_survival (nu_tilde_src nu rho xi u) rho (x - tau) = doc_survival nu rho xi tau u x.
Proof.
  intros Hn Hr Hx. unfold weibull_survival, doc_survival. destruct (Rlt_dec 0 (x - tau)); [|lra].
  rewrite time_over_nu_tilde_src by assumption. f_equal. f_equal.
  assert (Hb : 0 < exp xi * (x - tau) / nu).
  { apply Rdiv_lt_0_compat; [|assumption]. apply Rmult_lt_0_compat; [apply exp_pos | lra]. }
  rewrite <- Rpower_mult_distr; [| exact Hb | apply exp_pos]. f_equal.
  unfold Rpower. rewrite ln_exp. f_equal. field. lra.
Qed.

Lemma reparam_hazard nu rho xi tau u x :
  0 < nu -> 0 < rho -> tau < x ->
  weibull_hazard (nu_tilde_src nu rho xi u) rho (x - tau) = doc_hazard nu rho xi tau u x.
Proof.
  intros Hn Hr Hx. unfold weibull_hazard, doc_hazard.
  rewrite (time_over_nu_tilde_src nu rho xi u (x - tau)) by assumption.
  assert (Hb : 0 < exp xi * (x - tau) / nu).
  { apply Rdiv_lt_0_compat; [|assumption]. apply Rmult_lt_0_compat; [apply exp_pos | lra]. }
  rewrite <- Rpower_mult_distr; [| exact Hb | apply exp_pos].
  assert (E : Rpower (exp (u / rho)) (rho - 1) = exp u * / exp (u / rho)).
  { unfold Rpower. rewrite ln_exp. replace ((rho - 1) * (u / rho)) with (u + - (u / rho)) by (field; lra).
    rewrite exp_plus, exp_Ropp. reflexivity. }
  rewrite E. unfold nu_tilde_src. rewrite Ropp_plus_distr, exp_plus, !exp_Ropp.
  pose proof (exp_pos xi). pose proof (exp_pos (u / rho)). field. repeat split; lra.
Qed.
