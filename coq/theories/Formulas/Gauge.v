(** C10 — the re-centring step ([RiemanianManifoldModel._center_xi_realizations],
    [JointModel._center_xi_realizations]) as a tiny op-script language with its interpreter.
    Definitions only.  The scripts themselves are regenerated from the source (coq/gen/GenC10.v,
    [gen_center_script_*]); [GaugeTie.v] runs them through [run_script]. *)
From Coq Require Import String Reals List.
Import ListNotations.
Local Open Scope R_scope.

Definition rsum (l : list R) : R := fold_right Rplus 0 l.

(** [torch.mean] over all entries (the tensor flattened).  For an empty tensor torch returns NaN; here the
    value is [0 / 0]: every statement below has the hypothesis [xs <> []]. *)
Definition mean (l : list R) : R := rsum l / INR (length l).

Definition center (xs : list R) : list R := map (fun x => x - mean xs) xs.
Definition shift (m : R) (l : list R) : list R := map (fun x => x + m) l.

(** expressions and statements of the re-centring methods *)
Inductive sexpr : Type :=
| SRead (v : string)            (* state["v"] *)
| SLocal (x : string)           (* a local python variable *)
| SMean (e : sexpr)             (* torch.mean(e) *)
| SAdd (a b : sexpr)
| SSub (a b : sexpr).

Inductive sop : Type :=
| OLet (x : string) (e : sexpr)   (* x = e *)
| OPut (v : string) (e : sexpr).  (* state["v"] = e *)

(** a tensor flattened, or a 0-d tensor *)
Inductive value : Type := VS (x : R) | VV (l : list R).

Definition store := string -> option value.
Definition empty : store := fun _ => None.
Definition upd (s : store) (k : string) (v : value) : store :=
  fun k' => if String.eqb k k' then Some v else s k'.

(** broadcasting of a 0-d tensor against a tensor; tensor-tensor is not needed by the scripts: [None] *)
Definition vbin (f : R -> R -> R) (a b : value) : option value :=
  match a, b with
  | VS x, VS y => Some (VS (f x y))
  | VV l, VS y => Some (VV (map (fun x => f x y) l))
  | VS x, VV l => Some (VV (map (fun y => f x y) l))
  | VV _, VV _ => None
  end.

Fixpoint eval (st loc : store) (e : sexpr) : option value :=
  match e with
  | SRead v => st v
  | SLocal x => loc x
  | SMean a => match eval st loc a with
               | Some (VV l) => Some (VS (mean l))
               | Some (VS x) => Some (VS x)
               | None => None
               end
  | SAdd a b => match eval st loc a, eval st loc b with
                | Some x, Some y => vbin Rplus x y
                | _, _ => None
                end
  | SSub a b => match eval st loc a, eval st loc b with
                | Some x, Some y => vbin Rminus x y
                | _, _ => None
                end
  end.

(** runs the statements in order; [None] = a read of an unset variable / unsupported broadcast *)
Fixpoint run_script (ops : list sop) (st loc : store) : option store :=
  match ops with
  | [] => Some st
  | OLet x e :: r => match eval st loc e with
                     | Some v => run_script r st (upd loc x v)
                     | None => None
                     end
  | OPut k e :: r => match eval st loc e with
                     | Some v => run_script r (upd st k v) loc
                     | None => None
                     end
  end.
