(** C10 (extension) — the functions REGENERATED from utils/linalg.py for every branch of the code
    ([gen_ortho_basis_{0,1,2}d], [strip_col] a parameter; coq/gen/GenC10.v) are the hand-written models of
    [Ortho.v]; the theorems of [OrthoBranchProofs.v] restated on the generated definitions. *)
From Coq Require Import Reals List Arith Lra Lia.
From Leaspy Require Import Formulas.Ortho Formulas.OrthoProofs Formulas.OrthoBranchProofs.
From LeaspyGen Require Import GenC10.
Import ListNotations.
Local Open Scope R_scope.

Lemma tie_branches j d g G1 G2 :
  gen_ortho_basis_0d j d g = ortho_basis_0d j d g /\ gen_ortho_basis_1d j d G1 = ortho_basis_1d j d G1 /\
  gen_ortho_basis_2d j d G2 = ortho_basis_2d j d G2 /\
  (gen_ortho_pre_0d j d g <-> ortho_pre_0d j d g) /\ (gen_ortho_pre_1d j d G1 <-> ortho_pre_1d j d G1) /\
  (gen_ortho_pre_2d j d G2 <-> ortho_pre_2d j d G2) /\
  gen_ortho_basis d G1 = gen_ortho_basis_1d gen_ortho_strip_default d G1 /\
  (gen_ortho_pre d G1 <-> gen_ortho_pre_1d gen_ortho_strip_default d G1).
Proof.
  split; [reflexivity|]. split; [reflexivity|]. split; [reflexivity|].
  unfold gen_ortho_pre_0d, gen_ortho_pre_1d, gen_ortho_pre_2d, gen_ortho_pre, ortho_pre_0d, ortho_pre_1d, ortho_pre_2d,
    gen_ortho_strip_default. cbv zeta.
  split; [tauto|]. split; [tauto|]. split; [tauto|]. split; [reflexivity | tauto].
Qed.

Lemma gen_branches_orthogonal j d g G1 G2 c :
  (S c < length d)%nat ->
  (gen_ortho_pre_0d j d g -> nth j (vscale g d) 0 <> 0 -> inner_0d g (col c (gen_ortho_basis_0d j d g)) d = 0) /\
  (gen_ortho_pre_1d j d G1 -> nth j (vmul G1 d) 0 <> 0 -> inner_1d G1 (col c (gen_ortho_basis_1d j d G1)) d = 0) /\
  (gen_ortho_pre_2d j d G2 -> nth j (matvec G2 d) 0 <> 0 -> inner_2d G2 (col c (gen_ortho_basis_2d j d G2)) d = 0).
Proof.
  intros Hc. destruct (tie_branches j d g G1 G2) as (E0 & E1 & E2 & P0 & P1 & P2 & _).
  rewrite E0, E1, E2, P0, P1, P2. split; [|split]; intros.
  - now apply ortho_0d_orthogonal.
  - now apply ortho_1d_orthogonal.
  - now apply ortho_2d_orthogonal.
Qed.

Lemma gen_branches_orthonormal j d g G1 G2 c c' :
  (S c < length d)%nat -> (S c' < length d)%nat ->
  (gen_ortho_pre_0d j d g -> inner_0d g d d <> 0 ->
     dot (col c (gen_ortho_basis_0d j d g)) (col c' (gen_ortho_basis_0d j d g)) = if Nat.eqb c c' then 1 else 0) /\
  (gen_ortho_pre_1d j d G1 -> inner_1d G1 d d <> 0 ->
     dot (col c (gen_ortho_basis_1d j d G1)) (col c' (gen_ortho_basis_1d j d G1)) = if Nat.eqb c c' then 1 else 0) /\
  (gen_ortho_pre_2d j d G2 -> inner_2d G2 d d <> 0 ->
     dot (col c (gen_ortho_basis_2d j d G2)) (col c' (gen_ortho_basis_2d j d G2)) = if Nat.eqb c c' then 1 else 0).
Proof.
  intros Hc Hc'. destruct (tie_branches j d g G1 G2) as (E0 & E1 & E2 & P0 & P1 & P2 & _).
  rewrite E0, E1, E2, P0, P1, P2. split; [|split]; intros.
  - now apply ortho_0d_orthonormal.
  - now apply ortho_1d_orthonormal.
  - now apply ortho_2d_orthonormal.
Qed.

(** the basis the models use (1-D metric, default strip_col): orthonormal for every non-zero direction *)
Lemma gen_default_orthonormal d G c c' :
  gen_ortho_pre d G -> (exists i, nth i d 0 <> 0) -> (S c < length d)%nat -> (S c' < length d)%nat ->
  dot (col c (gen_ortho_basis d G)) (col c' (gen_ortho_basis d G)) = if Nat.eqb c c' then 1 else 0.
Proof.
  intros HP Hd Hc Hc'. destruct (tie_branches gen_ortho_strip_default d 1 G []) as (_ & E1 & _ & _ & P1 & _ & ED & PD).
  rewrite ED, E1. apply PD, P1 in HP. apply ortho_1d_orthonormal; auto.
  destruct HP as (HG & HL & _). apply Rgt_not_eq, inner_1d_pos; auto.
Qed.

Lemma gen_branches_collinear c j d g G1 G2 : 0 < c ->
  gen_ortho_basis_0d j (vscale c d) g = gen_ortho_basis_0d j d g /\
  gen_ortho_basis_1d j (vscale c d) G1 = gen_ortho_basis_1d j d G1 /\
  gen_ortho_basis_2d j (vscale c d) G2 = gen_ortho_basis_2d j d G2.
Proof. exact (ortho_branches_collinear c j d g G1 G2). Qed.

Lemma gen_branches_zero_pivot_refuted :
  (exists j d g c, gen_ortho_pre_0d j d g /\ inner_0d g d d <> 0 /\ (S c < length d)%nat /\
     inner_0d g (col c (gen_ortho_basis_0d j d g)) d <> 0) /\
  (exists j d G c, gen_ortho_pre_1d j d G /\ inner_1d G d d <> 0 /\ (S c < length d)%nat /\
     inner_1d G (col c (gen_ortho_basis_1d j d G)) d <> 0) /\
  (exists j d G c, gen_ortho_pre_2d j d G /\ inner_2d G d d <> 0 /\ (S c < length d)%nat /\
     inner_2d G (col c (gen_ortho_basis_2d j d G)) d <> 0).
Proof.
  destruct ortho_branches_zero_pivot_refuted as ((A1 & A2 & A3) & (B1 & B2 & B3) & (C1 & C2 & C3)).
  destruct (tie_branches 1 [1; 0] 1 [1; 1] [[1; 0]; [0; 1]]) as (E0 & E1 & E2 & P0 & P1 & P2 & _).
  split; [|split].
  - exists 1%nat, [1; 0], 1, 0%nat.
    split; [apply P0, A1 | split; [exact A2 | split; [simpl; lia | rewrite E0; exact A3]]].
  - exists 1%nat, [1; 0], [1; 1], 0%nat.
    split; [apply P1, B1 | split; [exact B2 | split; [simpl; lia | rewrite E1; exact B3]]].
  - exists 1%nat, [1; 0], [[1; 0]; [0; 1]], 0%nat.
    split; [apply P2, C1 | split; [exact C2 | split; [simpl; lia | rewrite E2; exact C3]]].
Qed.

Lemma gen_metric_orthonormal_refuted :
  exists j d g c, gen_ortho_pre_0d j d g /\ inner_0d g d d <> 0 /\ (S c < length d)%nat /\
    inner_0d g (col c (gen_ortho_basis_0d j d g)) (col c (gen_ortho_basis_0d j d g)) <> 1.
Proof.
  destruct ortho_metric_orthonormal_refuted as (A & B & C).
  destruct (tie_branches 0 [1; 1] 2 [] []) as (E0 & _ & _ & P0 & _).
  exists 0%nat, [1; 1], 2, 0%nat.
  split; [apply P0, A | split; [exact B | split; [simpl; lia | rewrite E0; exact C]]].
Qed.

(** rows of the mixing matrix (B betas)ᵀ and individual space shifts sources (B betas)ᵀ built on the basis of ANY branch
    and strip_col are orthogonal to d for the inner product of the branch *)
Lemma gen_branches_mixing_space_shifts j d g G1 G2 betas sources k :
  (S (length betas) <= length d)%nat ->
  (gen_ortho_pre_0d j d g -> nth j (vscale g d) 0 <> 0 ->
     inner_0d g (nth k (mixing_matrix (gen_ortho_basis_0d j d g) betas) []) d = 0 /\
     inner_0d g (nth k (space_shifts sources (mixing_matrix (gen_ortho_basis_0d j d g) betas)) []) d = 0) /\
  (gen_ortho_pre_1d j d G1 -> nth j (vmul G1 d) 0 <> 0 ->
     inner_1d G1 (nth k (mixing_matrix (gen_ortho_basis_1d j d G1) betas) []) d = 0 /\
     inner_1d G1 (nth k (space_shifts sources (mixing_matrix (gen_ortho_basis_1d j d G1) betas)) []) d = 0) /\
  (gen_ortho_pre_2d j d G2 -> nth j (matvec G2 d) 0 <> 0 ->
     inner_2d G2 (nth k (mixing_matrix (gen_ortho_basis_2d j d G2) betas) []) d = 0 /\
     inner_2d G2 (nth k (space_shifts sources (mixing_matrix (gen_ortho_basis_2d j d G2) betas)) []) d = 0).
Proof.
  intros Hb. destruct (tie_branches j d g G1 G2) as (E0 & E1 & E2 & P0 & P1 & P2 & _).
  rewrite E0, E1, E2, P0, P1, P2. exact (ortho_branches_mixing_space_shifts j d g G1 G2 betas sources k Hb).
Qed.

Example ex_mixing_hyp :
  (S (length [[1; 2]; [0; 1]]%R) <= length [1; 2; 3]%R)%nat /\ gen_ortho_pre_0d 2 [1; 2; 3] (1/2) /\ nth 2 (vscale (1/2) [1; 2; 3]) 0 <> 0.
Proof. unfold gen_ortho_pre_0d. simpl. repeat split; try lia; lra. Qed.

Lemma gen_branches_orthonormal_nonzero j d g G1 G2 c c' :
  (exists i, nth i d 0 <> 0) -> (S c < length d)%nat -> (S c' < length d)%nat ->
  (gen_ortho_pre_0d j d g ->
     dot (col c (gen_ortho_basis_0d j d g)) (col c' (gen_ortho_basis_0d j d g)) = if Nat.eqb c c' then 1 else 0) /\
  (gen_ortho_pre_1d j d G1 ->
     dot (col c (gen_ortho_basis_1d j d G1)) (col c' (gen_ortho_basis_1d j d G1)) = if Nat.eqb c c' then 1 else 0) /\
  (gen_ortho_pre_2d j d G2 -> pos_def_2d G2 (length d) ->
     dot (col c (gen_ortho_basis_2d j d G2)) (col c' (gen_ortho_basis_2d j d G2)) = if Nat.eqb c c' then 1 else 0).
Proof.
  intros Hd Hc Hc'. destruct (tie_branches j d g G1 G2) as (E0 & E1 & E2 & P0 & P1 & P2 & _).
  rewrite E0, E1, E2, P0, P1, P2. exact (ortho_branches_orthonormal_nonzero j d g G1 G2 c c' Hd Hc Hc').
Qed.
