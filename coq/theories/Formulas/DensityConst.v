(** The single numeric fact of C08: the float32 constant the code adds ([NormalFamily.nll_constant_standard], read from the running
    code as the exact rational [c32]) is 1/2 ln(2 pi) up to float32 rounding.  Proved with Coq-Interval, hence this lemma — and only
    this one among the C08 theorems — additionally depends on the primitive-integer axioms Interval uses. *)
From Coq Require Import Reals Lra.
From Interval Require Import Tactic.
From LeaspyGen Require Import GenC08.
Local Open Scope R_scope.

Lemma c32_is_half_ln_2pi : Rabs (c32 - ln (sqrt (2 * PI))) <= / 2 ^ 25.
Proof. unfold c32. interval with (i_prec 80). Qed.

(** ln sqrt(2 pi) = 1/2 ln (2 pi): the constant of the docstring *)
Lemma ln_sqrt_2pi : ln (sqrt (2 * PI)) = / 2 * ln (2 * PI).
Proof.
  assert (H : 0 < 2 * PI) by (pose proof PI_RGT_0; lra).
  rewrite <- (sqrt_sqrt (2 * PI)) at 2 by (left; exact H).
  rewrite ln_mult by (apply sqrt_lt_R0; exact H). field.
Qed.
