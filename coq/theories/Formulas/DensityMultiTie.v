(** C08, extension 3: ANY number of sources / competing events / mixture clusters.

    From LeaspyGen.GenC08 (regenerated on every run):
      [gen_joint_survival_shifts]        introspection of the graph node: MatMul(sources, zeta) = Ortho.matmul sources zeta
      [gen_joint_srccut_event_nll_ind]   state["nll_attach_event_ind"] traced through the real graph, product cut ([shift])
      [gen_joint_srcs_event_entry]       entry (i, e): the cut trace at entry (i, e) of the product
      [gen_joint_src2/src3_*], [gen_joint_src2e2/src3e2_*]   the SAME graph traced with array symbols (2, 3 sources; 1, 2 events):
                                         the product executed on the symbols, nothing cut
      [gen_mixture2/3_nll_k*], [gen_mixture_src2x2/2x3_nll_s*_k*]   MixtureNormalFamily._nll on K-cluster parameter arrays
    A semantic edit of the code changes GenC08.v and a proof below stops compiling. *)
From Coq Require Import Reals Lra List Arith.
From Coquelicot Require Import Coquelicot.
From Leaspy Require Import Base.RAux Formulas.TorchDist Formulas.Density Formulas.LikelihoodCode Formulas.DensityProofs
  Formulas.Ortho Formulas.DensityMulti Formulas.DensityMultiProofs Formulas.DensityTie.
From LeaspyGen Require Import GenC08.
Import ListNotations.
Local Open Scope R_scope.

(** * Shapes *)

Lemma gen_joint_srccut_shape event delta n_log_nu log_rho xi tau shift :
  gen_joint_srccut_event_nll_ind event delta n_log_nu log_rho xi tau shift
  = gen_weibull_src_nll event delta (gen_joint_nu n_log_nu) (gen_joint_rho log_rho) xi tau shift.
Proof. reflexivity. Qed.

(** the 1-source 1-event trace of the first version is the cut trace at the product *)
Lemma gen_joint_src_is_cut event delta n_log_nu log_rho xi tau sources zeta :
  gen_joint_src_event_nll_ind event delta n_log_nu log_rho xi tau sources zeta
  = gen_joint_srccut_event_nll_ind event delta n_log_nu log_rho xi tau (sources * zeta).
Proof. reflexivity. Qed.

Lemma gen_joint_srcs_entry_shape event delta n_log_nu log_rho xi tau sources zeta i e :
  (i < length sources)%nat -> (e < ncols zeta)%nat ->
  gen_joint_srcs_event_entry event delta n_log_nu log_rho xi tau sources zeta i e
  = gen_weibull_src_nll event delta (exp (- n_log_nu)) (exp log_rho) xi tau (survival_shift sources zeta i e).
Proof.
  intros Hi He. unfold gen_joint_srcs_event_entry, gen_joint_survival_shifts.
  rewrite matmul_entry by assumption. rewrite gen_joint_srccut_shape, gen_joint_nu_eq. reflexivity.
Qed.

(** * The event attachment for ANY number of sources and events: entry (i, e) *)

Theorem joint_srcs_event event delta n_log_nu log_rho xi tau sources zeta i e :
  shift_shapes_ok sources zeta i e -> 0 < event - tau -> delta <> 0 ->
  gen_joint_srcs_event_entry event delta n_log_nu log_rho xi tau sources zeta i e
  = - ln (weibull_pdf (nu_tilde_src (exp (- n_log_nu)) (exp log_rho) xi (survival_shift sources zeta i e)) (exp log_rho) (event - tau)).
Proof.
  intros (Hi & He & _) Ht Hd. rewrite gen_joint_srcs_entry_shape by assumption. unfold weibull_pdf.
  apply weibull_src_event; try assumption; apply exp_pos.
Qed.

Theorem joint_srcs_censored event delta n_log_nu log_rho xi tau sources zeta i e :
  shift_shapes_ok sources zeta i e -> delta = 0 ->
  gen_joint_srcs_event_entry event delta n_log_nu log_rho xi tau sources zeta i e
  = - ln (weibull_survival (nu_tilde_src (exp (- n_log_nu)) (exp log_rho) xi (survival_shift sources zeta i e)) (exp log_rho) (event - tau)).
Proof.
  intros (Hi & He & _) Hd. rewrite gen_joint_srcs_entry_shape by assumption.
  apply weibull_src_censored; try assumption; apply exp_pos.
Qed.

(** an observed event at or before the reference time: exactly the finite prohibitive penalty, whatever the sources and zeta *)
Theorem joint_srcs_event_before_ref event delta n_log_nu log_rho xi tau sources zeta i e :
  shift_shapes_ok sources zeta i e -> event - tau <= 0 -> delta <> 0 ->
  gen_joint_srcs_event_entry event delta n_log_nu log_rho xi tau sources zeta i e = INFINITY_c
  /\ IZR (10 ^ 306) <= INFINITY_c < IZR (2 ^ 1023).
Proof.
  intros (Hi & He & _) Ht Hd. split; [|exact INFINITY_c_bounds]. rewrite gen_joint_srcs_entry_shape by assumption.
  apply src_event_before_ref; try assumption; apply exp_pos.
Qed.

(** the hazard and the survival of entry (i, e) are the documented ones (docs/models.md) with u = sum_s sources_{i,s} zeta_{s,e} *)
Theorem joint_srcs_documented event n_log_nu log_rho xi tau sources zeta i e :
  0 < event - tau ->
  weibull_hazard (nu_tilde_src (exp (- n_log_nu)) (exp log_rho) xi (survival_shift sources zeta i e)) (exp log_rho) (event - tau)
  = doc_hazard (exp (- n_log_nu)) (exp log_rho) xi tau (sum_products (nth i sources []) (map (fun r => nth e r 0) zeta)) event
  /\ weibull_survival (nu_tilde_src (exp (- n_log_nu)) (exp log_rho) xi (survival_shift sources zeta i e)) (exp log_rho) (event - tau)
  = doc_survival (exp (- n_log_nu)) (exp log_rho) xi tau (sum_products (nth i sources []) (map (fun r => nth e r 0) zeta)) event.
Proof.
  intros Ht. rewrite <- survival_shift_sum.
  split; [apply reparam_hazard | apply reparam_survival]; try apply exp_pos; lra.
Qed.

(** * The array traces (product executed on the symbols) are instances of the list-level definition *)

Ltac shifts := cbv [survival_shift nth col map dot]; ring.

Lemma gen_joint_src2_shift_eq s0 s1 z0 z1 :
  gen_joint_src2_shift s0 s1 z0 z1 = survival_shift [[s0; s1]] [[z0]; [z1]] 0 0.
Proof. unfold gen_joint_src2_shift. shifts. Qed.

Lemma gen_joint_src3_shift_eq s0 s1 s2 z0 z1 z2 :
  gen_joint_src3_shift s0 s1 s2 z0 z1 z2 = survival_shift [[s0; s1; s2]] [[z0]; [z1]; [z2]] 0 0.
Proof. unfold gen_joint_src3_shift. shifts. Qed.

Lemma entry_at_shift event delta n_log_nu log_rho xi tau sources zeta i e u :
  (i < length sources)%nat -> (e < ncols zeta)%nat -> u = survival_shift sources zeta i e ->
  gen_joint_srccut_event_nll_ind event delta n_log_nu log_rho xi tau u
  = gen_joint_srcs_event_entry event delta n_log_nu log_rho xi tau sources zeta i e.
Proof.
  intros Hi He ->. unfold gen_joint_srcs_event_entry, gen_joint_survival_shifts. rewrite matmul_entry by assumption. reflexivity.
Qed.

Ltac small := simpl; repeat constructor.

Theorem joint_src2_is_list event delta n_log_nu log_rho xi tau s0 s1 z0 z1 :
  gen_joint_src2_event_nll_ind event delta n_log_nu log_rho xi tau s0 s1 z0 z1
  = gen_joint_srcs_event_entry event delta n_log_nu log_rho xi tau [[s0; s1]] [[z0]; [z1]] 0 0.
Proof.
  change (gen_joint_src2_event_nll_ind event delta n_log_nu log_rho xi tau s0 s1 z0 z1)
    with (gen_joint_srccut_event_nll_ind event delta n_log_nu log_rho xi tau (gen_joint_src2_shift s0 s1 z0 z1)).
  apply entry_at_shift; [small | small | apply gen_joint_src2_shift_eq].
Qed.

Theorem joint_src3_is_list event delta n_log_nu log_rho xi tau s0 s1 s2 z0 z1 z2 :
  gen_joint_src3_event_nll_ind event delta n_log_nu log_rho xi tau s0 s1 s2 z0 z1 z2
  = gen_joint_srcs_event_entry event delta n_log_nu log_rho xi tau [[s0; s1; s2]] [[z0]; [z1]; [z2]] 0 0.
Proof.
  change (gen_joint_src3_event_nll_ind event delta n_log_nu log_rho xi tau s0 s1 s2 z0 z1 z2)
    with (gen_joint_srccut_event_nll_ind event delta n_log_nu log_rho xi tau (gen_joint_src3_shift s0 s1 s2 z0 z1 z2)).
  apply entry_at_shift; [small | small | apply gen_joint_src3_shift_eq].
Qed.

(** two competing events, every per-event quantity traced as an array: entry e reads event e's time / indicator / nu / rho and
    COLUMN e of zeta, nothing of the other event; the per-individual attachment is the sum of the two entries *)
Theorem joint_src2e2_entrywise ev0 ev1 d0 d1 n0 n1 r0 r1 xi tau s0 s1 z00 z01 z10 z11 :
  gen_joint_src2e2_entry_0 ev0 ev1 d0 d1 n0 n1 r0 r1 xi tau s0 s1 z00 z01 z10 z11
  = gen_joint_srcs_event_entry ev0 d0 n0 r0 xi tau [[s0; s1]] [[z00; z01]; [z10; z11]] 0 0
  /\ gen_joint_src2e2_entry_1 ev0 ev1 d0 d1 n0 n1 r0 r1 xi tau s0 s1 z00 z01 z10 z11
  = gen_joint_srcs_event_entry ev1 d1 n1 r1 xi tau [[s0; s1]] [[z00; z01]; [z10; z11]] 0 1
  /\ gen_joint_src2e2_event_nll_ind ev0 ev1 d0 d1 n0 n1 r0 r1 xi tau s0 s1 z00 z01 z10 z11
  = gen_joint_src2e2_entry_0 ev0 ev1 d0 d1 n0 n1 r0 r1 xi tau s0 s1 z00 z01 z10 z11
    + gen_joint_src2e2_entry_1 ev0 ev1 d0 d1 n0 n1 r0 r1 xi tau s0 s1 z00 z01 z10 z11.
Proof.
  split; [|split].
  - change (gen_joint_src2e2_entry_0 ev0 ev1 d0 d1 n0 n1 r0 r1 xi tau s0 s1 z00 z01 z10 z11)
      with (gen_joint_srccut_event_nll_ind ev0 d0 n0 r0 xi tau (s0 * z00 + s1 * z10)).
    apply entry_at_shift; [small | small | shifts].
  - change (gen_joint_src2e2_entry_1 ev0 ev1 d0 d1 n0 n1 r0 r1 xi tau s0 s1 z00 z01 z10 z11)
      with (gen_joint_srccut_event_nll_ind ev1 d1 n1 r1 xi tau (s0 * z01 + s1 * z11)).
    apply entry_at_shift; [small | small | shifts].
  - reflexivity.
Qed.

(** non-square: 3 sources, 2 events (a transposed zeta cannot even be multiplied) *)
Theorem joint_src3e2_entrywise ev0 ev1 d0 d1 n0 n1 r0 r1 xi tau s0 s1 s2 z00 z01 z10 z11 z20 z21 :
  gen_joint_src3e2_entry_0 ev0 ev1 d0 d1 n0 n1 r0 r1 xi tau s0 s1 s2 z00 z01 z10 z11 z20 z21
  = gen_joint_srcs_event_entry ev0 d0 n0 r0 xi tau [[s0; s1; s2]] [[z00; z01]; [z10; z11]; [z20; z21]] 0 0
  /\ gen_joint_src3e2_entry_1 ev0 ev1 d0 d1 n0 n1 r0 r1 xi tau s0 s1 s2 z00 z01 z10 z11 z20 z21
  = gen_joint_srcs_event_entry ev1 d1 n1 r1 xi tau [[s0; s1; s2]] [[z00; z01]; [z10; z11]; [z20; z21]] 0 1
  /\ gen_joint_src3e2_event_nll_ind ev0 ev1 d0 d1 n0 n1 r0 r1 xi tau s0 s1 s2 z00 z01 z10 z11 z20 z21
  = gen_joint_src3e2_entry_0 ev0 ev1 d0 d1 n0 n1 r0 r1 xi tau s0 s1 s2 z00 z01 z10 z11 z20 z21
    + gen_joint_src3e2_entry_1 ev0 ev1 d0 d1 n0 n1 r0 r1 xi tau s0 s1 s2 z00 z01 z10 z11 z20 z21.
Proof.
  split; [|split].
  - change (gen_joint_src3e2_entry_0 ev0 ev1 d0 d1 n0 n1 r0 r1 xi tau s0 s1 s2 z00 z01 z10 z11 z20 z21)
      with (gen_joint_srccut_event_nll_ind ev0 d0 n0 r0 xi tau (s0 * z00 + s1 * z10 + s2 * z20)).
    apply entry_at_shift; [small | small | shifts].
  - change (gen_joint_src3e2_entry_1 ev0 ev1 d0 d1 n0 n1 r0 r1 xi tau s0 s1 s2 z00 z01 z10 z11 z20 z21)
      with (gen_joint_srccut_event_nll_ind ev1 d1 n1 r1 xi tau (s0 * z01 + s1 * z11 + s2 * z21)).
    apply entry_at_shift; [small | small | shifts].
  - reflexivity.
Qed.

(** * Mixture-normal family: entry (i, k) is the Gaussian term of value i with the mean and std of cluster k ONLY *)

Definition gauss_nll_doc (x m s : R) : R := - ln (normal_pdf x m s) + (c32 - ln (sqrt (2 * PI))).

Theorem mixture2_entrywise x l0 l1 s0 s1 :
  [gen_mixture2_nll_k0 x l0 l1 s0 s1; gen_mixture2_nll_k1 x l0 l1 s0 s1] = mixture_row gen_normal_nll x [l0; l1] [s0; s1].
Proof. reflexivity. Qed.

Theorem mixture3_entrywise x l0 l1 l2 s0 s1 s2 :
  [gen_mixture3_nll_k0 x l0 l1 l2 s0 s1 s2; gen_mixture3_nll_k1 x l0 l1 l2 s0 s1 s2; gen_mixture3_nll_k2 x l0 l1 l2 s0 s1 s2]
  = mixture_row gen_normal_nll x [l0; l1; l2] [s0; s1; s2].
Proof. reflexivity. Qed.

(** the `sources` layout: value (i, s), mean (s, k), one common std: entry (i, s, k) *)
Theorem mixture_src2x2_entrywise x0 x1 l00 l01 l10 l11 sc :
  [gen_mixture_src2x2_nll_s0_k0 x0 x1 l00 l01 l10 l11 sc; gen_mixture_src2x2_nll_s0_k1 x0 x1 l00 l01 l10 l11 sc]
  = mixture_row gen_normal_nll x0 [l00; l01] [sc; sc]
  /\ [gen_mixture_src2x2_nll_s1_k0 x0 x1 l00 l01 l10 l11 sc; gen_mixture_src2x2_nll_s1_k1 x0 x1 l00 l01 l10 l11 sc]
  = mixture_row gen_normal_nll x1 [l10; l11] [sc; sc].
Proof. split; reflexivity. Qed.

Theorem mixture_src2x3_entrywise x0 x1 l00 l01 l02 l10 l11 l12 sc :
  [gen_mixture_src2x3_nll_s0_k0 x0 x1 l00 l01 l02 l10 l11 l12 sc; gen_mixture_src2x3_nll_s0_k1 x0 x1 l00 l01 l02 l10 l11 l12 sc;
   gen_mixture_src2x3_nll_s0_k2 x0 x1 l00 l01 l02 l10 l11 l12 sc]
  = mixture_row gen_normal_nll x0 [l00; l01; l02] [sc; sc; sc]
  /\ [gen_mixture_src2x3_nll_s1_k0 x0 x1 l00 l01 l02 l10 l11 l12 sc; gen_mixture_src2x3_nll_s1_k1 x0 x1 l00 l01 l02 l10 l11 l12 sc;
      gen_mixture_src2x3_nll_s1_k2 x0 x1 l00 l01 l02 l10 l11 l12 sc]
  = mixture_row gen_normal_nll x1 [l10; l11; l12] [sc; sc; sc].
Proof. split; reflexivity. Qed.

(** any number of clusters: entry k of the row is the negative log-density of N(loc_k, scale_k^2) at x (+ the float32 constant gap) *)
Theorem mixture_row_entry x locs scales k :
  length locs = length scales -> (k < length locs)%nat -> 0 < nth k scales 0 ->
  nth k (mixture_row gen_normal_nll x locs scales) 0 = gauss_nll_doc x (nth k locs 0) (nth k scales 0).
Proof. intros Hl Hk Hs. rewrite mixture_row_nth by assumption. apply normal_nll. exact Hs. Qed.

(** * The attachment of the mixture model: its observation model is the ordinary Gaussian one on ONE individual trajectory *)

Theorem attach_mixture y model noise_std :
  0 < noise_std -> gen_attach_mixture y model noise_std = - ln (normal_pdf y model noise_std) + (c32 - ln (sqrt (2 * PI))).
Proof. intros. change (gen_attach_mixture y model noise_std) with (gen_normal_nll y model noise_std). apply normal_nll. assumption. Qed.

(** * Non-vacuity *)

Example ex_attach_mixture : gen_attach_mixture (3/10) (1/2) (1/20) = - ln (normal_pdf (3/10) (1/2) (1/20)) + (c32 - ln (sqrt (2 * PI))).
Proof. apply attach_mixture. lra. Qed.


Example ex_srcs_shapes : shift_shapes_ok [[1/2; -1; 2]; [0; 1; 1]] [[1; 2]; [3; 4]; [5; 6]] 1 1.
Proof. unfold shift_shapes_ok. simpl. repeat split; repeat constructor. Qed.

Example ex_srcs_shift : survival_shift [[1/2; -1; 2]; [0; 1; 1]] [[1; 2]; [3; 4]; [5; 6]] 1 1 = 10
  /\ survival_shift [[1/2; -1; 2]; [0; 1; 1]] [[1; 2]; [3; 4]; [5; 6]] 0 0 = 15 / 2.
Proof. split; cbv [survival_shift nth col map dot]; lra. Qed.

Example ex_srcs_event : gen_joint_srcs_event_entry 75 1 (-2) (1/3) 0 70 [[1/2; -1; 2]; [0; 1; 1]] [[1; 2]; [3; 4]; [5; 6]] 1 1
  = - ln (weibull_pdf (nu_tilde_src (exp (- (-2))) (exp (1/3)) 0 (survival_shift [[1/2; -1; 2]; [0; 1; 1]] [[1; 2]; [3; 4]; [5; 6]] 1 1))
            (exp (1/3)) (75 - 70)).
Proof. apply joint_srcs_event; [exact ex_srcs_shapes | lra | lra]. Qed.

Example ex_srcs_before : gen_joint_srcs_event_entry 69 1 (-2) (1/3) 0 70 [[1/2; -1; 2]; [0; 1; 1]] [[1; 2]; [3; 4]; [5; 6]] 1 1 = INFINITY_c.
Proof. apply joint_srcs_event_before_ref; [exact ex_srcs_shapes | lra | lra]. Qed.

Example ex_mixture_row : nth 2 (mixture_row gen_normal_nll (3/10) [0; 1; 2] [1; 1/2; 1/4]) 0 = gauss_nll_doc (3/10) 2 (1/4).
Proof. apply mixture_row_entry; simpl; try reflexivity; try lra; repeat constructor. Qed.
