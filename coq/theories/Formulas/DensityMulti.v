(** Any number of sources, competing events and mixture clusters (C08, extension 3).  Definitions only (proofs in
    DensityMultiProofs.v); written by hand from docs/notations.md / docs/models.md, NOT from the code.

    [survival_shift]: "u_{i,e} = sum_s sources_{i,s} * zeta_{s,e}" - the shift of the survival sub-model of event e for
    individual i ([sources] : n_individuals x n_sources, [zeta] : n_sources x n_events; matrices are lists of rows, as in
    Formulas/Ortho.v whose [dot], [col] are reused).
    [mixture_row]: the K per-cluster Gaussian terms of one value (the (n, K) result of the mixture-normal family, row i). *)
From Coq Require Import Reals List.
From Leaspy Require Import Formulas.Ortho.
Import ListNotations.
Local Open Scope R_scope.

Definition survival_shift (sources zeta : matrix) (i e : nat) : R := dot (nth i sources []) (col e zeta).

(** the shapes for which the matrix product is defined (torch raises otherwise): every row of [zeta] has the same length, the
    individual's row of [sources] has one entry per row of [zeta] *)
Definition shift_shapes_ok (sources zeta : matrix) (i e : nat) : Prop :=
  (i < length sources)%nat /\ (e < ncols zeta)%nat /\ length (nth i sources []) = length zeta
  /\ Forall (fun r => length r = ncols zeta) zeta.

(** the explicit sum  sum_s a_s * b_s *)
Definition sum_products (a b : list R) : R := fold_right Rplus 0 (map (fun p => fst p * snd p) (combine a b)).

(** row of per-cluster terms [f x loc_k scale_k], k = 0 .. K-1 *)
Fixpoint mixture_row (f : R -> R -> R -> R) (x : R) (locs scales : list R) : list R :=
  match locs, scales with
  | l :: locs', s :: scales' => f x l s :: mixture_row f x locs' scales'
  | _, _ => []
  end.
