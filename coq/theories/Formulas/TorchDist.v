(** Hand-written model of the ONE torch kernel the Bernoulli family reaches without leaspy or torch *python* code in between.
    [BernoulliFamily._nll] (inherited from [StatelessDistributionFamilyFromTorchDistribution._nll]) calls
    [torch.distributions.Bernoulli(p).log_prob(y)]; that python code IS traced on every run (harness/props/c08.py):
    clamp of [p] to [eps, 1 - eps] (eps = machine epsilon of the dtype), logit [ln pc - log1p(-pc)], then
    [-binary_cross_entropy_with_logits(logit, y, reduction="none")].  Only the last call is a compiled kernel: it is modelled here
    in the numerically stable form ATen evaluates, [(1 - y) x + ln (1 + exp(-x))]; DensityProofs.v proves that this is the documented
    loss  -[y ln sigmoid(x) + (1 - y) ln (1 - sigmoid(x))]  (torch.nn.BCEWithLogitsLoss).
    NOT derived from the code: tied to the running torch by the T3 lemmas of C08 (float32 and float64, interior and saturated
    probabilities).  Definitions only. *)
From Coq Require Import Reals.
Local Open Scope R_scope.

Definition torch_bce_with_logits (x y : R) : R := (1 - y) * x + ln (1 + exp (- x)).
