(** Hand-written model of the one call the distribution families delegate to torch without leaspy code in between:
    [torch.distributions.Bernoulli(probs=p).log_prob(y)] = [-binary_cross_entropy_with_logits(logit p, y)]
    = [y ln p + (1-y) ln (1-p)] for [p] strictly inside ]0,1[ (torch clamps [p] to [eps, 1-eps], eps = machine epsilon of
    the dtype, before taking the logit; the clamp is outside this model and outside the T3 sampling range).
    NOT derived from the code: tied to the running torch by the T3 lemmas of C08 only. Definitions only. *)
From Coq Require Import Reals.
Local Open Scope R_scope.

Definition torch_bernoulli_log_prob (p y : R) : R := y * ln p + (1 - y) * ln (1 - p).
