(** C10 (extension) — EVERY copy of [_center_xi_realizations] found in the source (coq/gen/GenC10.v:
    [gen_center_scripts], one entry per shipped model kind whose class resolves the method, with the class that
    defines it and whether the model has an [n_log_nu] variable), and the mixture model, which has a copy of its
    own: traced trajectory / attachment term, DAG wiring, and the second centring method
    ([_center_sources_realizations]) its [compute_sufficient_statistics] calls. *)
From Coq Require Import String Reals List Bool Lra Lia.
From Leaspy Require Import Base.RAux Formulas.Ortho Formulas.OrthoProofs Formulas.Gauge Formulas.GaugeProofs Formulas.GaugeTie.
From LeaspyGen Require Import GenC10.
Import ListNotations.
Local Open Scope string_scope.

(** a script performs the gauge move m = mean xi: xi := xi - m, log_v0 := log_v0 + m, and — exactly when the model
    has the variable — n_log_nu := n_log_nu + m; every other variable is left alone *)
Definition script_gauge (nu : bool) (s : list sop) : Prop :=
  forall (st : store) (xs lv nul : list R),
    st "xi" = Some (VV xs) -> st "log_v0" = Some (VV lv) -> (nu = true -> st "n_log_nu" = Some (VV nul)) ->
    exists st', run_script s st empty = Some st' /\ gauge_moved nu st st' xs lv nul.

Lemma all_scripts_gauge : Forall (fun e => script_gauge (fst (snd e)) (snd (snd e))) gen_center_scripts.
Proof.
  unfold gen_center_scripts.
  repeat (apply Forall_cons;
          [ cbn [fst snd]; intros st xs lv nul Hxi Hlv Hnu;
            first [ (specialize (Hnu eq_refl); run_center Hxi Hlv Hnu) | run_center Hxi Hlv Hlv ] | ]).
  apply Forall_nil.
Qed.

(** every class of the source that defines the method is the defining class of at least one entry *)
Definition classes_covered_b : bool :=
  forallb (fun c => existsb (fun e => String.eqb (snd (fst e)) c) gen_center_scripts) gen_center_classes.

Lemma classes_covered : classes_covered_b = true /\ gen_center_classes <> [].
Proof. split; [vm_compute; reflexivity | discriminate]. Qed.

(** the kinds of the property's quantifier are among the entries, with the script the per-kind theorems are about *)
Lemma scripts_of_the_kinds :
  In (("logistic", "RiemanianManifoldModel"), (false, gen_center_script_logistic)) gen_center_scripts /\
  In (("linear", "RiemanianManifoldModel"), (false, gen_center_script_linear)) gen_center_scripts /\
  In (("joint", "JointModel"), (true, gen_center_script_joint)) gen_center_scripts.
Proof. unfold gen_center_scripts. simpl. auto 10. Qed.

(** ** the mixture model's own copy *)

Local Open Scope R_scope.

Lemma gauge_mixture m y s lg lv xi tau t w :
  gen_mixture_traj_src lg (lv + m) (xi - m) tau t w = gen_mixture_traj_src lg lv xi tau t w /\
  gen_mixture_attach_src y s lg (lv + m) (xi - m) tau t w = gen_mixture_attach_src y s lg lv xi tau t w.
Proof. unfold gen_mixture_traj_src, gen_mixture_attach_src. split; gauge. Qed.

Lemma gauge_basis_mixture m lgl lvl : gen_mixture_basis lgl (shift m lvl) = gen_mixture_basis lgl lvl.
Proof.
  unfold gen_mixture_basis, gen_mixture_dir. rewrite !tie_ortho_basis.
  assert (E : map (fun x => exp x) (shift m lvl) = vscale (exp m) (map (fun x => exp x) lvl)).
  { unfold vscale. exact (map_exp_shift m lvl). }
  rewrite E. apply ortho_basis_collinear, exp_pos.
Qed.

Lemma gauge_space_shifts_mixture m lgl lvl betas Srcs :
  gen_mixture_space_shifts Srcs (gen_mixture_mixing (gen_mixture_basis lgl (shift m lvl)) betas)
  = gen_mixture_space_shifts Srcs (gen_mixture_mixing (gen_mixture_basis lgl lvl) betas).
Proof. now rewrite gauge_basis_mixture. Qed.

Lemma mixture_G_pos lg : 0 < gen_mixture_G lg.
Proof.
  unfold gen_mixture_G. pose proof (exp_pos lg) as H. apply pow_lt. apply Rdiv_lt_0_compat; [apply pow_lt|]; lra.
Qed.

Lemma mixture_dir_pos lv : 0 < gen_mixture_dir lv.
Proof. unfold gen_mixture_dir. apply exp_pos. Qed.

Lemma mixture_orthogonal lgl lvl betas Srcs k :
  length lgl = length lvl -> (0 < length lvl)%nat -> (S (length betas) <= length lvl)%nat ->
  dot (nth k (gen_mixture_mixing (gen_mixture_basis lgl lvl) betas) [])
      (vmul (map gen_mixture_G lgl) (map gen_mixture_dir lvl)) = 0 /\
  dot (nth k (gen_mixture_space_shifts Srcs (gen_mixture_mixing (gen_mixture_basis lgl lvl) betas)) [])
      (vmul (map gen_mixture_G lgl) (map gen_mixture_dir lvl)) = 0.
Proof.
  intros HL Hn Hb. split.
  - apply mixing_pos; rewrite ?map_length; auto; apply Forall_map_pos; intros; [apply mixture_G_pos | apply mixture_dir_pos].
  - apply shifts_pos; rewrite ?map_length; auto; apply Forall_map_pos; intros; [apply mixture_G_pos | apply mixture_dir_pos].
Qed.

Lemma tie_wiring_mixture B betas Srcs :
  gen_mixture_mixing B betas = mixing_matrix B betas /\ gen_mixture_space_shifts Srcs B = space_shifts Srcs B.
Proof. split; reflexivity. Qed.

(** ** the other centring method of the mixture model: [sources := sources - mean(sources)] (mean over ALL entries) *)

Local Open Scope string_scope.

Lemma script_mixture_sources st ss :
  st "sources" = Some (VV ss) ->
  exists st', run_script gen_center_extra_mixture_sources st empty = Some st' /\
              st' "sources" = Some (VV (center ss)) /\ forall v, v <> "sources" -> st' v = st v.
Proof.
  intros Hs. unfold gen_center_extra_mixture_sources.
  repeat (cbn [run_script eval vbin]; lookup; rewrite ?Hs).
  eexists; split; [reflexivity|]. split; lookup; [reflexivity|]. intros v Hv. lookup. reflexivity.
Qed.

Local Open Scope R_scope.

(** ... which is NOT a gauge change: nothing compensates it, the space shifts move (one source, two individuals
    with sources 1 and 3, mixing row (1, -1): space shift of the first individual (1,-1) -> (-1,1)) *)
Lemma mixture_sources_centring_moves_space_shifts :
  exists (ss : list R) (M : matrix),
    space_shifts (map (fun x => [x]) (center ss)) M <> space_shifts (map (fun x => [x]) ss) M.
Proof.
  exists [1; 3], [[1; -1]]. intros H.
  apply (f_equal (fun m => nth 0 (nth 0 m []) 0)) in H.
  unfold space_shifts, matmul, center, mean, rsum in H. simpl in H. lra.
Qed.

(** non-vacuity *)
Example ex_script_gauge_hyp :
  let st := upd (upd empty "xi" (VV [1; 2; 6])) "log_v0" (VV [-3; -4]) in
  st "xi"%string = Some (VV [1; 2; 6]) /\ st "log_v0"%string = Some (VV [-3; -4]) /\ (false = true -> st "n_log_nu"%string = Some (VV [])).
Proof. simpl. repeat split; discriminate. Qed.
