(** C10 (extension) — EVERY copy of [_center_xi_realizations] found in the source (coq/gen/GenC10.v:
    [gen_center_scripts], one entry per shipped model kind whose class resolves the method, with the class that
    defines it and whether the model has an [n_log_nu] variable), and the mixture model, which has a copy of its
    own: traced trajectory / attachment term, DAG wiring, and the second centring method
    ([_center_sources_realizations]) its [compute_sufficient_statistics] calls. *)
From Coq Require Import String Reals List Bool Lra Lia.
From Leaspy Require Import Base.RAux Formulas.Ortho Formulas.OrthoProofs Formulas.Gauge Formulas.GaugeProofs Formulas.GaugeTie.
From LeaspyGen Require Import GenC10.
Import ListNotations.
Local Open Scope string_scope.

(** a script performs the gauge move m = mean xi: xi := xi - m, log_v0 := log_v0 + m, and — exactly when the model
    has the variable — n_log_nu := n_log_nu + m; every other variable is left alone *)
Definition script_gauge (nu : bool) (s : list sop) : Prop :=
  forall (st : store) (xs lv nul : list R),
    st "xi" = Some (VV xs) -> st "log_v0" = Some (VV lv) -> (nu = true -> st "n_log_nu" = Some (VV nul)) ->
    exists st', run_script s st empty = Some st' /\ gauge_moved nu st st' xs lv nul.

Lemma all_scripts_gauge : Forall (fun e => script_gauge (fst (snd e)) (snd (snd e))) gen_center_scripts.
Proof.
  unfold gen_center_scripts.
  repeat (apply Forall_cons;
          [ cbn [fst snd]; intros st xs lv nul Hxi Hlv Hnu;
            first [ (specialize (Hnu eq_refl); run_center Hxi Hlv Hnu) | run_center Hxi Hlv Hlv ] | ]).
  apply Forall_nil.
Qed.

(** every class of the source that defines the method is the defining class of at least one entry *)
Definition classes_covered_b : bool :=
  forallb (fun c => existsb (fun e => String.eqb (snd (fst e)) c) gen_center_scripts) gen_center_classes.

Lemma classes_covered : classes_covered_b = true /\ gen_center_classes <> [].
Proof. split; [vm_compute; reflexivity | discriminate]. Qed.

(** the kinds of the property's quantifier are among the entries, with the script the per-kind theorems are about *)
Lemma scripts_of_the_kinds :
  In (("logistic", "RiemanianManifoldModel"), (false, gen_center_script_logistic)) gen_center_scripts /\
  In (("linear", "RiemanianManifoldModel"), (false, gen_center_script_linear)) gen_center_scripts /\
  In (("joint", "JointModel"), (true, gen_center_script_joint)) gen_center_scripts.
Proof. unfold gen_center_scripts. simpl. auto 10. Qed.

(** ** the mixture model's own copy *)

Local Open Scope R_scope.

Lemma gauge_mixture m y s lg lv xi tau t w :
  gen_mixture_traj_src lg (lv + m) (xi - m) tau t w = gen_mixture_traj_src lg lv xi tau t w /\
  gen_mixture_attach_src y s lg (lv + m) (xi - m) tau t w = gen_mixture_attach_src y s lg lv xi tau t w.
Proof. unfold gen_mixture_traj_src, gen_mixture_attach_src. split; gauge. Qed.

Lemma gauge_basis_mixture m lgl lvl : gen_mixture_basis lgl (shift m lvl) = gen_mixture_basis lgl lvl.
Proof.
  unfold gen_mixture_basis, gen_mixture_dir. rewrite !tie_ortho_basis.
  assert (E : map (fun x => exp x) (shift m lvl) = vscale (exp m) (map (fun x => exp x) lvl)).
  { unfold vscale. exact (map_exp_shift m lvl). }
  rewrite E. apply ortho_basis_collinear, exp_pos.
Qed.

Lemma gauge_space_shifts_mixture m lgl lvl betas Srcs :
  gen_mixture_space_shifts Srcs (gen_mixture_mixing (gen_mixture_basis lgl (shift m lvl)) betas)
  = gen_mixture_space_shifts Srcs (gen_mixture_mixing (gen_mixture_basis lgl lvl) betas).
Proof. now rewrite gauge_basis_mixture. Qed.

Lemma mixture_G_pos lg : 0 < gen_mixture_G lg.
Proof.
  unfold gen_mixture_G. pose proof (exp_pos lg) as H. apply pow_lt. apply Rdiv_lt_0_compat; [apply pow_lt|]; lra.
Qed.

Lemma mixture_dir_pos lv : 0 < gen_mixture_dir lv.
Proof. unfold gen_mixture_dir. apply exp_pos. Qed.

Lemma mixture_orthogonal lgl lvl betas Srcs k :
  length lgl = length lvl -> (0 < length lvl)%nat -> (S (length betas) <= length lvl)%nat ->
  dot (nth k (gen_mixture_mixing (gen_mixture_basis lgl lvl) betas) [])
      (vmul (map gen_mixture_G lgl) (map gen_mixture_dir lvl)) = 0 /\
  dot (nth k (gen_mixture_space_shifts Srcs (gen_mixture_mixing (gen_mixture_basis lgl lvl) betas)) [])
      (vmul (map gen_mixture_G lgl) (map gen_mixture_dir lvl)) = 0.
Proof.
  intros HL Hn Hb. split.
  - apply mixing_pos; rewrite ?map_length; auto; apply Forall_map_pos; intros; [apply mixture_G_pos | apply mixture_dir_pos].
  - apply shifts_pos; rewrite ?map_length; auto; apply Forall_map_pos; intros; [apply mixture_G_pos | apply mixture_dir_pos].
Qed.

Lemma tie_wiring_mixture B betas Srcs :
  gen_mixture_mixing B betas = mixing_matrix B betas /\ gen_mixture_space_shifts Srcs B = space_shifts Srcs B.
Proof. split; reflexivity. Qed.

(** ** the other centring method of the mixture model: [sources := sources - mean(sources)] (mean over ALL entries) *)

Local Open Scope string_scope.

Lemma script_mixture_sources st ss :
  st "sources" = Some (VV ss) ->
  exists st', run_script gen_center_extra_mixture_sources st empty = Some st' /\
              st' "sources" = Some (VV (center ss)) /\ forall v, v <> "sources" -> st' v = st v.
Proof.
  intros Hs. unfold gen_center_extra_mixture_sources.
  repeat (cbn [run_script eval vbin]; lookup; rewrite ?Hs).
  eexists; split; [reflexivity|]. split; lookup; [reflexivity|]. intros v Hv. lookup. reflexivity.
Qed.

Local Open Scope R_scope.

(** ... which is NOT a gauge change: nothing compensates it, the space shifts move (one source, two individuals
    with sources 1 and 3, mixing row (1, -1): space shift of the first individual (1,-1) -> (-1,1)) *)
Lemma mixture_sources_centring_moves_space_shifts :
  exists (ss : list R) (M : matrix),
    space_shifts (map (fun x => [x]) (center ss)) M <> space_shifts (map (fun x => [x]) ss) M.
Proof.
  exists [1; 3], [[1; -1]]. intros H.
  apply (f_equal (fun m => nth 0 (nth 0 m []) 0)) in H.
  unfold space_shifts, matmul, center, mean, rsum in H. simpl in H. lra.
Qed.

(** non-vacuity *)
Example ex_script_gauge_hyp :
  let st := upd (upd empty "xi" (VV [1; 2; 6])) "log_v0" (VV [-3; -4]) in
  st "xi"%string = Some (VV [1; 2; 6]) /\ st "log_v0"%string = Some (VV [-3; -4]) /\ (false = true -> st "n_log_nu"%string = Some (VV [])).
Proof. simpl. repeat split; discriminate. Qed.

(** ** composition: the translated step, run on a store, leaves every traced formula unchanged, individual by
    individual and coordinate by coordinate — script semantics ([script_gauge]) + gauge invariance of the formulas *)

(** all the traced trajectory / attachment formulas (every kind, without and with a space shift) take the same value at
    (xi', log_v0') as at (xi, log_v0) *)
Definition formulas_invariant (x x' l l' : R) : Prop :=
  forall lg g tau t w y s : R,
    (gen_logistic_traj lg l' x' tau t = gen_logistic_traj lg l x tau t /\
     gen_linear_traj g l' x' tau t = gen_linear_traj g l x tau t /\
     gen_joint_traj lg l' x' tau t = gen_joint_traj lg l x tau t) /\
    (gen_logistic_traj_src lg l' x' tau t w = gen_logistic_traj_src lg l x tau t w /\
     gen_linear_traj_src g l' x' tau t w = gen_linear_traj_src g l x tau t w /\
     gen_joint_traj_src lg l' x' tau t w = gen_joint_traj_src lg l x tau t w /\
     gen_mixture_traj_src lg l' x' tau t w = gen_mixture_traj_src lg l x tau t w) /\
    (gen_logistic_attach y s lg l' x' tau t = gen_logistic_attach y s lg l x tau t /\
     gen_linear_attach y s g l' x' tau t = gen_linear_attach y s g l x tau t /\
     gen_joint_attach y s lg l' x' tau t = gen_joint_attach y s lg l x tau t /\
     gen_logistic_attach_src y s lg l' x' tau t w = gen_logistic_attach_src y s lg l x tau t w /\
     gen_linear_attach_src y s g l' x' tau t w = gen_linear_attach_src y s g l x tau t w /\
     gen_joint_attach_src y s lg l' x' tau t w = gen_joint_attach_src y s lg l x tau t w /\
     gen_mixture_attach_src y s lg l' x' tau t w = gen_mixture_attach_src y s lg l x tau t w).

(** the Weibull event terms of the joint model at (xi', n_log_nu') and at (xi, n_log_nu) *)
Definition event_invariant (x x' n n' : R) : Prop :=
  forall et eb lrho tau s : R,
    gen_joint_event et eb lrho n' x' tau = gen_joint_event et eb lrho n x tau /\
    gen_joint_event_src et eb lrho n' x' tau s = gen_joint_event_src et eb lrho n x tau s.

Local Open Scope string_scope.

Definition step_preserves (nu : bool) (s : list sop) : Prop :=
  forall (st : store) (xs lv nul : list R),
    st "xi" = Some (VV xs) -> st "log_v0" = Some (VV lv) -> (nu = true -> st "n_log_nu" = Some (VV nul)) ->
    exists st' xs' lv',
      run_script s st empty = Some st' /\ st' "xi" = Some (VV xs') /\ st' "log_v0" = Some (VV lv') /\
      length xs' = length xs /\ length lv' = length lv /\
      (xs <> [] -> mean xs' = 0) /\
      (forall i k, (i < length xs)%nat -> (k < length lv)%nat ->
         formulas_invariant (nth i xs 0) (nth i xs' 0) (nth k lv 0) (nth k lv' 0)) /\
      (nu = true -> exists nul', st' "n_log_nu" = Some (VV nul') /\ length nul' = length nul /\
         forall i q, (i < length xs)%nat -> (q < length nul)%nat ->
           event_invariant (nth i xs 0) (nth i xs' 0) (nth q nul 0) (nth q nul' 0)) /\
      (nu = false -> st' "n_log_nu" = st "n_log_nu") /\
      (forall v, v <> "xi" -> v <> "log_v0" -> v <> "n_log_nu" -> st' v = st v).

Local Open Scope R_scope.

Lemma nth_center xs i : (i < length xs)%nat -> nth i (center xs) 0 = nth i xs 0 - mean xs.
Proof.
  intros H. unfold center. rewrite (nth_indep _ 0 (0 - mean xs)) by (now rewrite map_length).
  apply (map_nth (fun x => x - mean xs)).
Qed.

Lemma nth_shift m l k : (k < length l)%nat -> nth k (shift m l) 0 = nth k l 0 + m.
Proof.
  intros H. unfold shift. rewrite (nth_indep _ 0 (0 + m)) by (now rewrite map_length).
  apply (map_nth (fun x => x + m)).
Qed.

Lemma formulas_invariant_move m x l : formulas_invariant x (x - m) l (l + m).
Proof.
  intros lg g tau t w y s. split; [|split; [|]].
  - apply gauge_traj.
  - destruct (gauge_traj_src m lg g l x tau t w) as (A & B & C). destruct (gauge_mixture m y s lg l x tau t w) as (D & _). auto.
  - destruct (gauge_attach m y s lg g l x tau t w) as (A & B & C & D & E & F).
    destruct (gauge_mixture m y s lg l x tau t w) as (_ & G). repeat split; assumption.
Qed.

Lemma event_invariant_move m x n : event_invariant x (x - m) n (n + m).
Proof. intros et eb lrho tau s. apply gauge_event. Qed.

Lemma script_gauge_preserves nu s : script_gauge nu s -> step_preserves nu s.
Proof.
  intros H st xs lv nul Hxi Hlv Hnu.
  destruct (H st xs lv nul Hxi Hlv Hnu) as (st' & Hrun & Hx & Hl & Hn & Hrest).
  exists st', (center xs), (shift (mean xs) lv).
  split; [exact Hrun|]. split; [exact Hx|]. split; [exact Hl|].
  split; [apply center_length|]. split; [unfold shift; apply map_length|].
  split; [apply mean_center|].
  split.
  { intros i k Hi Hk. rewrite nth_center, nth_shift by assumption. apply formulas_invariant_move. }
  split.
  { intros E. subst nu. exists (shift (mean xs) nul). split; [exact Hn|]. split; [unfold shift; apply map_length|].
    intros i q Hi Hq. rewrite nth_center, nth_shift by assumption. apply event_invariant_move. }
  split; [intros E; subst nu; exact Hn | exact Hrest].
Qed.

(** every copy of the step found in the source is a pure gauge change of every traced formula *)
Theorem all_steps_preserve : Forall (fun e => step_preserves (fst (snd e)) (snd (snd e))) gen_center_scripts.
Proof.
  eapply Forall_impl; [|exact all_scripts_gauge]. intros e. apply script_gauge_preserves.
Qed.
