(** C09 — the trajectories regenerated from the running code (gen/GenC09.v) are the documented ones.
    The proofs go through the "sigmoid of an affine logit" form and close the logit equality with [field]/[ring],
    so a re-association or commutation in the code does not break them while a changed term does. *)
From Coq Require Import Reals Lra List.
From Leaspy Require Import Base.RAux Formulas.Trajectory Formulas.TrajectoryProofs.
From LeaspyGen Require Import GenC09.
Import ListNotations.
Local Open Scope R_scope.

Ltac logit := apply sigmoid_eq; rewrite ?ln_exp; unfold doc_metric, doc_shared_g, reparam.
Ltac expnz := repeat split; try apply exp_neq_0; try apply Rgt_not_eq; try apply exp_pos; try lra.

(** time reparametrization *)
Lemma tie_time_reparam_static xi t tau : gen_time_reparam t (exp xi) tau = reparam xi tau t.
Proof. unfold gen_time_reparam, reparam. ring. Qed.

Lemma tie_alpha xi : gen_alpha xi = exp xi.
Proof. unfold gen_alpha. ring. Qed.

Lemma tie_rt xi tau t : gen_rt xi tau t = exp xi * (t - tau).
Proof. unfold gen_rt. ring. Qed.

Lemma tie_rt_static xi tau t : gen_rt xi tau t = gen_time_reparam t (gen_alpha xi) tau.
Proof. unfold gen_rt, gen_time_reparam, gen_alpha. ring. Qed.

(** logistic *)
Lemma tie_logistic_static g v0 xi tau w t : 0 < g ->
  gen_logistic_model (gen_time_reparam t (exp xi) tau) w (gen_logistic_metric g) v0 g = doc_logistic g v0 xi tau w t.
Proof.
  intros Hg. rewrite doc_logistic_sigmoid by assumption.
  unfold gen_logistic_model, gen_logistic_metric, gen_time_reparam. logit. field. lra.
Qed.

Lemma tie_logistic_no_sources_static rt metric v0 g :
  gen_logistic_model_no_sources rt metric v0 g = gen_logistic_model rt 0 metric v0 g.
Proof. unfold gen_logistic_model_no_sources, gen_logistic_model. apply sigmoid_eq. ring. Qed.

Lemma tie_logistic_traj_w log_g log_v0 xi tau w t :
  gen_logistic_traj_w log_g log_v0 xi tau w t = doc_logistic (exp log_g) (exp log_v0) xi tau w t.
Proof.
  rewrite doc_logistic_sigmoid by apply exp_pos.
  unfold gen_logistic_traj_w. logit. field. expnz.
Qed.

Lemma tie_logistic_traj log_g log_v0 xi tau t :
  gen_logistic_traj log_g log_v0 xi tau t = doc_logistic (exp log_g) (exp log_v0) xi tau 0 t.
Proof.
  rewrite doc_logistic_sigmoid by apply exp_pos.
  unfold gen_logistic_traj. logit. field. expnz.
Qed.

(** the composition along the DAG is the composition of the static node functions *)
Lemma tie_logistic_dag_static log_g log_v0 xi tau w t :
  gen_logistic_traj_w log_g log_v0 xi tau w t =
  gen_logistic_model (gen_time_reparam t (gen_alpha xi) tau) w (gen_logistic_metric (exp log_g)) (exp log_v0) (exp log_g).
Proof.
  unfold gen_alpha. rewrite tie_logistic_static by apply exp_pos. apply tie_logistic_traj_w.
Qed.

Lemma gen_logistic_range log_g log_v0 xi tau w t : 0 < gen_logistic_traj_w log_g log_v0 xi tau w t < 1.
Proof. rewrite tie_logistic_traj_w. apply doc_logistic_range, exp_pos. Qed.

Lemma gen_logistic_range0 log_g log_v0 xi tau t : 0 < gen_logistic_traj log_g log_v0 xi tau t < 1.
Proof. rewrite tie_logistic_traj. apply doc_logistic_range, exp_pos. Qed.

Lemma gen_logistic_monotone log_g log_v0 xi tau w t1 t2 : t1 <= t2 ->
  gen_logistic_traj_w log_g log_v0 xi tau w t1 <= gen_logistic_traj_w log_g log_v0 xi tau w t2.
Proof. intros H. rewrite !tie_logistic_traj_w. apply doc_logistic_monotone; try apply exp_pos; assumption. Qed.

Lemma gen_logistic_monotone0 log_g log_v0 xi tau t1 t2 : t1 <= t2 ->
  gen_logistic_traj log_g log_v0 xi tau t1 <= gen_logistic_traj log_g log_v0 xi tau t2.
Proof. intros H. rewrite !tie_logistic_traj. apply doc_logistic_monotone; try apply exp_pos; assumption. Qed.

Lemma gen_logistic_monotone_static g v0 xi tau w t1 t2 : 0 < g -> 0 < v0 -> t1 <= t2 ->
  gen_logistic_model (gen_time_reparam t1 (exp xi) tau) w (gen_logistic_metric g) v0 g <=
  gen_logistic_model (gen_time_reparam t2 (exp xi) tau) w (gen_logistic_metric g) v0 g.
Proof. intros Hg Hv Ht. rewrite !tie_logistic_static by assumption. now apply doc_logistic_monotone. Qed.

Lemma gen_logistic_at_reference log_g log_v0 xi tau :
  gen_logistic_traj log_g log_v0 xi tau tau = / (1 + exp log_g).
Proof. rewrite tie_logistic_traj. apply doc_logistic_at_reference. Qed.

Lemma gen_logistic_at_reference_w log_g log_v0 xi tau :
  gen_logistic_traj_w log_g log_v0 xi tau 0 tau = / (1 + exp log_g).
Proof. rewrite tie_logistic_traj_w. apply doc_logistic_at_reference. Qed.

(** linear *)
Lemma tie_linear_static g v0 xi tau w t :
  gen_linear_model (gen_time_reparam t (exp xi) tau) w (gen_linear_metric g) v0 g = doc_linear g v0 xi tau w t.
Proof. unfold gen_linear_model, gen_time_reparam, doc_linear, reparam. ring. Qed.

Lemma tie_linear_traj_w g log_v0 xi tau w t :
  gen_linear_traj_w g log_v0 xi tau w t = doc_linear g (exp log_v0) xi tau w t.
Proof. unfold gen_linear_traj_w, doc_linear, reparam. ring. Qed.

Lemma tie_linear_traj g log_v0 xi tau t :
  gen_linear_traj g log_v0 xi tau t = doc_linear g (exp log_v0) xi tau 0 t.
Proof. unfold gen_linear_traj, doc_linear, reparam. ring. Qed.

(** shared speed *)
Lemma tie_shared_static log_g delta xi tau w t :
  gen_shared_model (gen_time_reparam t (exp xi) tau) w
    (gen_shared_metric (gen_shared_g_deltas_exp (exp log_g) (gen_shared_deltas_exp delta))) delta log_g
  = doc_shared (exp log_g) delta xi tau w t.
Proof.
  rewrite doc_shared_sigmoid by apply exp_pos.
  unfold gen_shared_model, gen_shared_metric, gen_shared_g_deltas_exp, gen_shared_deltas_exp, gen_time_reparam.
  logit. replace (delta * -1) with (- delta) by ring. field. expnz.
Qed.

Lemma tie_shared_pad delta : gen_shared_pad_first delta = 0 /\ gen_shared_pad_other delta = delta.
Proof. split; reflexivity. Qed.

Lemma tie_shared_other_w log_g delta xi tau w t :
  gen_shared_traj_other_w log_g delta xi tau w t = doc_shared (exp log_g) delta xi tau w t.
Proof.
  rewrite doc_shared_sigmoid by apply exp_pos.
  unfold gen_shared_traj_other_w. cbv zeta. logit.
  replace (delta * -1) with (- delta) by ring. field. expnz.
Qed.

Lemma tie_shared_other log_g delta xi tau t :
  gen_shared_traj_other log_g delta xi tau t = doc_shared (exp log_g) delta xi tau 0 t.
Proof.
  rewrite doc_shared_sigmoid by apply exp_pos.
  unfold gen_shared_traj_other. cbv zeta. logit.
  replace (delta * -1) with (- delta) by ring. field. expnz.
Qed.

Lemma tie_shared_first_w log_g xi tau w t :
  gen_shared_traj_first_w log_g xi tau w t = doc_shared (exp log_g) 0 xi tau w t.
Proof.
  rewrite doc_shared_sigmoid by apply exp_pos.
  unfold gen_shared_traj_first_w. cbv zeta. logit.
  replace (0 * -1) with (- 0) by ring. field. expnz.
Qed.

Lemma tie_shared_first log_g xi tau t :
  gen_shared_traj_first log_g xi tau t = doc_shared (exp log_g) 0 xi tau 0 t.
Proof.
  rewrite doc_shared_sigmoid by apply exp_pos.
  unfold gen_shared_traj_first. cbv zeta. logit.
  replace (0 * -1) with (- 0) by ring. field. expnz.
Qed.

Lemma gen_shared_time_shift log_g delta xi tau t :
  gen_shared_traj_other log_g delta xi tau t = gen_shared_traj_first log_g xi tau (t + delta * exp (- xi)).
Proof. rewrite tie_shared_other, tie_shared_first. apply doc_shared_time_shift, exp_pos. Qed.

Lemma gen_shared_range log_g delta xi tau w t :
  0 < gen_shared_traj_other_w log_g delta xi tau w t < 1 /\ 0 < gen_shared_traj_first_w log_g xi tau w t < 1.
Proof. rewrite tie_shared_other_w, tie_shared_first_w. split; apply doc_shared_range, exp_pos. Qed.

Lemma gen_shared_monotone log_g delta xi tau w t1 t2 : t1 <= t2 ->
  gen_shared_traj_other_w log_g delta xi tau w t1 <= gen_shared_traj_other_w log_g delta xi tau w t2 /\
  gen_shared_traj_first_w log_g xi tau w t1 <= gen_shared_traj_first_w log_g xi tau w t2.
Proof.
  intros H. rewrite !tie_shared_other_w, !tie_shared_first_w.
  split; apply doc_shared_monotone; try apply exp_pos; assumption.
Qed.

Lemma gen_shared_at_reference log_g delta xi tau :
  gen_shared_traj_other log_g delta xi tau tau = / (1 + exp log_g * exp (- delta)) /\
  gen_shared_traj_first log_g xi tau tau = / (1 + exp log_g).
Proof.
  rewrite tie_shared_other, tie_shared_first, !doc_shared_at_reference. split; [reflexivity|].
  rewrite Ropp_0, exp_0. f_equal. ring.
Qed.

(** non-vacuity of the hypotheses used above: g = 2 (curve value 1/3 at the reference time), v0 = 1/20, ages 70 <= 75 *)
Example static_hypotheses_met :
  0 < 2 /\ 0 < / 20 /\ 70 <= 75 /\
  gen_logistic_model (gen_time_reparam 72 (exp 0) 72) 0 (gen_logistic_metric 2) (/ 20) 2 = / 3.
Proof.
  repeat split; try lra.
  rewrite tie_logistic_static by lra. rewrite doc_logistic_at_reference. replace (1 + 2) with 3 by lra. reflexivity.
Qed.

(** the two other shipped kinds with a logistic longitudinal part *)
Lemma tie_mixture_traj_w log_g log_v0 xi tau w t :
  gen_mixture_traj_w log_g log_v0 xi tau w t = doc_logistic (exp log_g) (exp log_v0) xi tau w t.
Proof.
  rewrite doc_logistic_sigmoid by apply exp_pos.
  unfold gen_mixture_traj_w. logit. field. expnz.
Qed.

Lemma tie_joint_traj_w log_g log_v0 xi tau w t :
  gen_joint_traj_w log_g log_v0 xi tau w t = doc_logistic (exp log_g) (exp log_v0) xi tau w t.
Proof.
  rewrite doc_logistic_sigmoid by apply exp_pos.
  unfold gen_joint_traj_w. logit. field. expnz.
Qed.

Lemma tie_joint_traj log_g log_v0 xi tau t :
  gen_joint_traj log_g log_v0 xi tau t = doc_logistic (exp log_g) (exp log_v0) xi tau 0 t.
Proof.
  rewrite doc_logistic_sigmoid by apply exp_pos.
  unfold gen_joint_traj. logit. field. expnz.
Qed.
