(** Textbook densities of the documented observation / prior distributions, written by hand from the documentation
    (docs/models.md "Survival Submodel", docs/notations.md, the class docstrings of variables/distributions.py) —
    NOT from the code.  Definitions only; proofs in DensityProofs.v. *)
From Coq Require Import Reals.
Local Open Scope R_scope.

(** Gaussian N(mu, sigma^2): noise of continuous outcomes and priors of the latent variables. *)
Definition normal_pdf (x mu sigma : R) : R :=
  1 / (sigma * sqrt (2 * PI)) * exp (- ((x - mu) ^ 2 / (2 * sigma ^ 2))).

(** Bernoulli(p) on {0,1}: binary outcomes. *)
Definition bernoulli_pmf (y p : R) : R :=
  if Req_EM_T y 1 then p else if Req_EM_T y 0 then 1 - p else 0.

(** Weibull with scale [lam] and shape [rho], on the reparametrised time [t] (t = x - tau):
    hazard h(t) = (rho/lam) (t/lam)^(rho-1) for t > 0, survival S(t) = exp(-(t/lam)^rho) for t > 0 and 1 before the origin. *)
Definition weibull_hazard (lam rho t : R) : R := (rho / lam) * Rpower (t / lam) (rho - 1).

Definition weibull_survival (lam rho t : R) : R :=
  if Rlt_dec 0 t then exp (- Rpower (t / lam) rho) else 1.

(** density of an observed event at t > 0 *)
Definition weibull_pdf (lam rho t : R) : R := weibull_hazard lam rho t * weibull_survival lam rho t.

(** individual scale: nu~ = nu e^{-xi}; with survival shift u (= sources . zeta): nu~ = nu exp(-(xi + u/rho)) *)
Definition nu_tilde (nu xi : R) : R := nu * exp (- xi).
Definition nu_tilde_src (nu rho xi u : R) : R := nu * exp (- (xi + u / rho)).

(** The formulas as printed in docs/models.md (x = age, u = survival shift, 0 without sources):
    h(x) = (rho e^xi / nu) (e^xi (x - tau) / nu)^(rho-1) exp(u),  S(x) = exp(-(e^xi (x - tau)/nu)^rho exp(u)). *)
Definition doc_hazard (nu rho xi tau u x : R) : R :=
  (rho * exp xi / nu) * Rpower (exp xi * (x - tau) / nu) (rho - 1) * exp u.

Definition doc_survival (nu rho xi tau u x : R) : R :=
  exp (- (Rpower (exp xi * (x - tau) / nu) rho * exp u)).
