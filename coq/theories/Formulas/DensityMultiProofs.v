(** Proofs about the list-level definitions of DensityMulti.v (no generated file involved). *)
From Coq Require Import Reals List Arith Lia Lra.
From Leaspy Require Import Formulas.Ortho Formulas.DensityMulti.
Import ListNotations.
Local Open Scope R_scope.

Lemma nth_map_default {A B} (f : A -> B) (l : list A) (i : nat) (d : A) (d' : B) :
  (i < length l)%nat -> nth i (map f l) d' = f (nth i l d).
Proof. intros H. rewrite (nth_indep _ d' (f d)) by (rewrite map_length; exact H). apply map_nth. Qed.

(** entry (i, e) of [torch.matmul] (Ortho.matmul) = row i . column e *)
Lemma matmul_entry (A B : matrix) (i e : nat) :
  (i < length A)%nat -> (e < ncols B)%nat -> nth e (nth i (matmul A B) []) 0 = survival_shift A B i e.
Proof.
  intros Hi He. unfold matmul, survival_shift.
  rewrite (nth_map_default _ A i []) by exact Hi.
  rewrite (nth_map_default _ (seq 0 (ncols B)) e 0%nat) by (rewrite seq_length; exact He).
  rewrite seq_nth by exact He. reflexivity.
Qed.

Lemma dot_sum_products (a b : list R) : dot a b = sum_products a b.
Proof.
  unfold sum_products. revert b. induction a as [|x a IH]; intros [|y b]; simpl; try reflexivity.
  rewrite IH. reflexivity.
Qed.

(** the shift is the sum over the sources of source * coefficient of THAT event *)
Lemma survival_shift_sum (sources zeta : matrix) (i e : nat) :
  survival_shift sources zeta i e = sum_products (nth i sources []) (map (fun r => nth e r 0) zeta).
Proof. unfold survival_shift, col. apply dot_sum_products. Qed.

(** the shift of event e does not depend on the other columns of zeta *)
Lemma survival_shift_column_only (sources zeta zeta' : matrix) (i e : nat) :
  col e zeta = col e zeta' -> survival_shift sources zeta i e = survival_shift sources zeta' i e.
Proof. intros H. unfold survival_shift. rewrite H. reflexivity. Qed.

(** ... nor on the other individuals' sources *)
Lemma survival_shift_row_only (sources sources' zeta : matrix) (i e : nat) :
  nth i sources [] = nth i sources' [] -> survival_shift sources zeta i e = survival_shift sources' zeta i e.
Proof. intros H. unfold survival_shift. rewrite H. reflexivity. Qed.

Lemma mixture_row_length f x locs scales :
  length locs = length scales -> length (mixture_row f x locs scales) = length locs.
Proof.
  revert scales. induction locs as [|l locs IH]; intros [|s scales] H; simpl in *; try reflexivity; try discriminate.
  f_equal. apply IH. lia.
Qed.

(** entry k of the row is the term of cluster k: it reads the mean and the std of cluster k and nothing else *)
Lemma mixture_row_nth f x locs scales k :
  length locs = length scales -> (k < length locs)%nat ->
  nth k (mixture_row f x locs scales) 0 = f x (nth k locs 0) (nth k scales 0).
Proof.
  revert scales k. induction locs as [|l locs IH]; intros [|s scales] k H Hk; simpl in *; try lia.
  destruct k as [|k]; [reflexivity|]. apply IH; lia.
Qed.
