(** Shape of the right-censored Weibull code path of variables/distributions.py, parametrised by the reparametrised
    scale [lam] (so that the two families, the SymbolicDistribution route and the joint-model composition, which differ
    only in how [lam], [rho] are obtained, share one set of proofs).  Mirrors, line by line:
      compute_log_survival          (distributions.py:1353)   -((clamp(t, min=0) / lam) ** rho)
      compute_log_likelihood_hazard (distributions.py:1269)   where(t > 0, (rho/lam) (t/lam)**(rho-1), -INFINITY);
                                                              where(hazard > 0, log hazard, hazard); where(event_bool != 0, ., 0)
      _nll                          (distributions.py:1499)   -1 * (log_survival + log_hazard)
    [DensityTie.v] proves that every GENERATED definition is an instance of these.  Definitions only.

    Bernoulli: shape of [StatelessDistributionFamilyFromTorchDistribution._nll] (distributions.py:317) followed INTO
    [torch.distributions.Bernoulli.__init__/logits/log_prob] (python code of torch, traced):
      -( -bce_with_logits( ln pc - log1p(-pc), y ) ),  pc = clamp(p, min=eps, max=1-eps)  *)
From Coq Require Import Reals.
From Leaspy Require Import Base.RAux Formulas.TorchDist.
Local Open Scope R_scope.

Definition code_log_survival (lam rho t : R) : R := - tpow (Rmax t 0 / lam) rho.

Definition code_hazard (INF lam rho t : R) : R :=
  if Rlt_dec 0 t then (rho / lam) * tpow (t / lam) (rho - 1) else - INF.

Definition code_log_hazard (INF lam rho t delta : R) : R :=
  if Req_EM_T delta 0 then 0
  else if Rlt_dec 0 (code_hazard INF lam rho t) then ln (code_hazard INF lam rho t) else code_hazard INF lam rho t.

Definition code_nll (INF lam rho t delta : R) : R :=
  (code_log_survival lam rho t + code_log_hazard INF lam rho t delta) * (-1).

(** [lo] = eps, [hi] = 1 - eps of the dtype (2^-23 for float32, 2^-52 for float64), both read from the trace *)
Definition clamp_prob (lo hi p : R) : R := Rmin (Rmax p lo) hi.

Definition code_bernoulli_nll (lo hi y p : R) : R :=
  - - torch_bce_with_logits (ln (clamp_prob lo hi p) - ln (1 + - clamp_prob lo hi p)) y.
