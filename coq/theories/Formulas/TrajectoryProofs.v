(** C09 — facts about the documented trajectories (no generated code here). *)
From Coq Require Import Reals Lra List.
From Leaspy Require Import Base.RAux Formulas.Trajectory.
Import ListNotations.
Local Open Scope R_scope.

Lemma sigmoid_shift a g : 0 < g -> sigmoid (a - ln g) = / (1 + g * exp (- a)).
Proof.
  intros Hg. unfold sigmoid. f_equal. f_equal.
  replace (- (a - ln g)) with (ln g + - a) by ring.
  rewrite exp_plus, exp_ln by assumption. reflexivity.
Qed.

Lemma sigmoid_eq a b : a = b -> sigmoid a = sigmoid b.
Proof. intros ->. reflexivity. Qed.

Lemma doc_metric_pos g : 0 < g -> 0 < doc_metric g.
Proof.
  intros Hg. unfold doc_metric. apply Rdiv_lt_0_compat; [|assumption].
  apply pow_lt. lra.
Qed.

(** the documented logistic curve is the sigmoid of an affine function of the reparametrized time *)
Lemma doc_logistic_sigmoid g v0 xi tau w t : 0 < g ->
  doc_logistic g v0 xi tau w t = sigmoid (doc_metric g * (v0 * reparam xi tau t + w) - ln g).
Proof. intros Hg. unfold doc_logistic. symmetry. now apply sigmoid_shift. Qed.

Lemma doc_logistic_range g v0 xi tau w t : 0 < g -> 0 < doc_logistic g v0 xi tau w t < 1.
Proof.
  intros Hg. rewrite doc_logistic_sigmoid by assumption.
  split; [apply sigmoid_pos | apply sigmoid_lt_1].
Qed.

Lemma reparam_incr xi tau t1 t2 : t1 <= t2 -> reparam xi tau t1 <= reparam xi tau t2.
Proof.
  intros H. unfold reparam. apply Rmult_le_compat_l; [left; apply exp_pos | lra].
Qed.

Lemma doc_logistic_monotone g v0 xi tau w t1 t2 : 0 < g -> 0 < v0 -> t1 <= t2 ->
  doc_logistic g v0 xi tau w t1 <= doc_logistic g v0 xi tau w t2.
Proof.
  intros Hg Hv Ht. rewrite !doc_logistic_sigmoid by assumption.
  apply sigmoid_incr.
  pose proof (doc_metric_pos g Hg) as Hm.
  pose proof (reparam_incr xi tau t1 t2 Ht) as Hr.
  apply Rplus_le_compat_r. apply Rmult_le_compat_l; [lra|].
  apply Rplus_le_compat_r. apply Rmult_le_compat_l; lra.
Qed.

Lemma reparam_at_tau xi tau : reparam xi tau tau = 0.
Proof. unfold reparam. ring. Qed.

Lemma doc_logistic_at_reference g v0 xi tau : doc_logistic g v0 xi tau 0 tau = / (1 + g).
Proof.
  unfold doc_logistic. rewrite reparam_at_tau.
  replace (- (doc_metric g * (v0 * 0 + 0))) with 0 by ring.
  rewrite exp_0. f_equal. ring.
Qed.

Lemma doc_linear_at_reference g v0 xi tau : doc_linear g v0 xi tau 0 tau = g.
Proof. unfold doc_linear. rewrite reparam_at_tau. ring. Qed.

Lemma doc_linear_monotone g v0 xi tau w t1 t2 : 0 < v0 -> t1 <= t2 ->
  doc_linear g v0 xi tau w t1 <= doc_linear g v0 xi tau w t2.
Proof.
  intros Hv Ht. unfold doc_linear. pose proof (reparam_incr xi tau t1 t2 Ht).
  apply Rplus_le_compat_r. apply Rplus_le_compat_l. apply Rmult_le_compat_l; lra.
Qed.

(** shared speed *)
Lemma doc_shared_g_pos g delta : 0 < g -> 0 < doc_shared_g g delta.
Proof. intros Hg. unfold doc_shared_g. apply Rmult_lt_0_compat; [assumption | apply exp_pos]. Qed.

Lemma doc_shared_sigmoid g delta xi tau w t : 0 < g ->
  doc_shared g delta xi tau w t =
  sigmoid (reparam xi tau t + doc_metric (doc_shared_g g delta) * w + delta - ln g).
Proof.
  intros Hg. unfold doc_shared.
  pose proof (doc_shared_g_pos g delta Hg) as Hk.
  rewrite <- sigmoid_shift by assumption.
  apply sigmoid_eq. unfold doc_shared_g at 2.
  rewrite ln_mult by (try assumption; apply exp_pos). rewrite ln_exp. ring.
Qed.

(** the shared-speed curve of a feature is the documented logistic curve of position g e^{-delta} whose speed is the
    inverse of its metric: every feature advances at the same pace in reparametrized time *)
Lemma doc_shared_is_logistic g delta xi tau w t : 0 < g ->
  doc_shared g delta xi tau w t =
  doc_logistic (doc_shared_g g delta) (/ doc_metric (doc_shared_g g delta)) xi tau w t.
Proof.
  intros Hg. unfold doc_shared, doc_logistic.
  pose proof (doc_metric_pos _ (doc_shared_g_pos g delta Hg)) as Hm.
  f_equal. f_equal. f_equal. f_equal. f_equal. field. lra.
Qed.

Lemma doc_shared_range g delta xi tau w t : 0 < g -> 0 < doc_shared g delta xi tau w t < 1.
Proof.
  intros Hg. rewrite doc_shared_sigmoid by assumption. split; [apply sigmoid_pos | apply sigmoid_lt_1].
Qed.

Lemma doc_shared_monotone g delta xi tau w t1 t2 : 0 < g -> t1 <= t2 ->
  doc_shared g delta xi tau w t1 <= doc_shared g delta xi tau w t2.
Proof.
  intros Hg Ht. rewrite !doc_shared_sigmoid by assumption. apply sigmoid_incr.
  pose proof (reparam_incr xi tau t1 t2 Ht). lra.
Qed.

Lemma doc_shared_at_reference g delta xi tau : doc_shared g delta xi tau 0 tau = / (1 + g * exp (- delta)).
Proof.
  unfold doc_shared. rewrite reparam_at_tau.
  replace (- (0 + doc_metric (doc_shared_g g delta) * 0)) with 0 by ring.
  rewrite exp_0. unfold doc_shared_g. f_equal. ring.
Qed.

(** "logistic curves are only time-shifted": without space shift, the curve of a feature with shift delta is the
    curve of the first feature (delta = 0) read delta later in reparametrized time, i.e. delta e^{-xi} later in age *)
Lemma doc_shared_time_shift g delta xi tau t : 0 < g ->
  doc_shared g delta xi tau 0 t = doc_shared g 0 xi tau 0 (t + delta * exp (- xi)).
Proof.
  intros Hg. rewrite !doc_shared_sigmoid by assumption. apply sigmoid_eq.
  unfold reparam.
  replace (exp xi * (t + delta * exp (- xi) - tau)) with (exp xi * (t - tau) + delta * (exp xi * exp (- xi))) by ring.
  rewrite <- exp_plus. replace (xi + - xi) with 0 by ring. rewrite exp_0. ring.
Qed.
