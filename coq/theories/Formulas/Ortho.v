(** C10 — vectors as [list R], the torch vocabulary used by [utils/linalg.py:compute_orthonormal_basis]
    and by the [MatMul]/[torch.t] wiring of [mixing_matrix] / [space_shifts] (models/time_reparametrized.py).
    Definitions only.  The function [gen_ortho_basis] regenerated from linalg.py (coq/gen/GenC10.v) is
    written with exactly these names; [ortho_basis] below is the hand-written twin the proofs are about,
    and [OrthoTie.v] shows the two are the same function.

    Shapes.  A list stands for a finitely supported sequence: reading past the end gives 0
    ([nth k a 0]).  [dot] and [vmul] stop at the shorter argument, [vsub] keeps the longer tail; all of
    them agree with torch on equal shapes, which is the only case the code reaches (the shape guards of
    the code are the preconditions [ortho_pre]; torch raises on any other shape). *)
From Coq Require Import Reals List Arith.
Import ListNotations.
Local Open Scope R_scope.

(** [torch.sign]: 0 at 0 *)
Definition sign (x : R) : R :=
  if Rlt_dec 0 x then 1 else if Rlt_dec x 0 then -1 else 0.

Fixpoint dot (a b : list R) : R :=
  match a, b with
  | x :: a', y :: b' => x * y + dot a' b'
  | _, _ => 0
  end.

(** [torch.norm] of a 1-D tensor: the 2-norm *)
Definition vnorm (a : list R) : R := sqrt (dot a a).

(** scalar * vector, vector / scalar *)
Definition vscale (c : R) (a : list R) : list R := map (Rmult c) a.
Definition vdivs (a : list R) (c : R) : list R := map (fun x => x / c) a.

(** component-wise product of two vectors *)
Fixpoint vmul (a b : list R) : list R :=
  match a, b with
  | x :: a', y :: b' => x * y :: vmul a' b'
  | _, _ => []
  end.

Fixpoint vsub (a b : list R) : list R :=
  match a, b with
  | x :: a', y :: b' => (x - y) :: vsub a' b'
  | [], _ => map Ropp b
  | _, [] => a
  end.

Fixpoint vadd (a b : list R) : list R :=
  match a, b with
  | x :: a', y :: b' => (x + y) :: vadd a' b'
  | [], _ => b
  | _, [] => a
  end.

(** [torch.zeros_like(a)]; [a[j] = x] (out of place) ; [a[j]] *)
Definition vzeros_like (a : list R) : list R := map (fun _ => 0) a.
Fixpoint vset (a : list R) (j : nat) (x : R) : list R :=
  match a, j with
  | [], _ => []
  | _ :: a', O => x :: a'
  | y :: a', S j' => y :: vset a' j' x
  end.
Definition vget (a : list R) (j : nat) : R := nth j a 0.

(** matrices: lists of rows *)
Definition matrix := list (list R).

(** [torch.eye(n)] *)
Fixpoint eye (n : nat) : matrix :=
  match n with
  | O => []
  | S n' => (1 :: repeat 0 n') :: map (cons 0) (eye n')
  end.

(** [a.view(-1, 1) * b] : the outer product (row i = a_i * b) *)
Definition outer (a b : list R) : matrix := map (fun x => vscale x b) a.

Fixpoint msub (A B : matrix) : matrix :=
  match A, B with
  | a :: A', b :: B' => vsub a b :: msub A' B'
  | [], _ => map (map Ropp) B
  | _, [] => A
  end.

(** [M[:, :k]], [M[:, k:]], [torch.cat((A, B), dim=1)] *)
Definition cols_before (k : nat) (M : matrix) : matrix := map (firstn k) M.
Definition cols_from (k : nat) (M : matrix) : matrix := map (skipn k) M.
Fixpoint mcat_cols (A B : matrix) : matrix :=
  match A, B with
  | a :: A', b :: B' => (a ++ b) :: mcat_cols A' B'
  | _, _ => []
  end.

(** column j of a matrix, number of columns, [torch.t], [torch.matmul] on 2-D tensors *)
Definition col (j : nat) (M : matrix) : list R := map (fun r => nth j r 0) M.
Definition ncols (M : matrix) : nat := match M with [] => O | r :: _ => length r end.
Definition transpose (M : matrix) : matrix := map (fun j => col j M) (seq 0 (ncols M)).
Definition matmul (A B : matrix) : matrix :=
  map (fun a => map (fun j => dot a (col j B)) (seq 0 (ncols B))) A.

(** Sum_i x_i * row_i(M)  (x^T M), used in the proofs only *)
Fixpoint vecmat (x : list R) (M : matrix) : list R :=
  match x, M with
  | c :: x', r :: M' => vadd (vscale c r) (vecmat x' M')
  | _, _ => []
  end.

(** ---- hand-written twin of [compute_orthonormal_basis] (1-D metric branch, strip_col = 0) ---- *)

(** the guards of the code that raise: metric entries positive, same length as the direction;
    [assert 0 <= strip_col < dimension] with strip_col = 0 *)
Definition ortho_pre (d G : list R) : Prop :=
  Forall (fun x => 0 < x) G /\ length G = length d /\ (0 < length d)%nat.

(** Householder reflection sending [D] to [alpha e_0]; the first column is dropped *)
Definition householder (n : nat) (D : list R) : matrix :=
  let ej := vset (vzeros_like D) 0 1 in
  let alpha := (- sign (vget D 0)) * vnorm D in
  let u := vsub D (vscale alpha ej) in
  let v := vdivs u (vnorm u) in
  let Q := msub (eye n) (outer (vscale 2 v) v) in
  mcat_cols (cols_before 0 Q) (cols_from (0 + 1) Q).

Definition ortho_basis (d G : list R) : matrix := householder (length d) (vmul G d).

(** wiring of the DAG nodes (time_reparametrized.py) *)
Definition mixing_matrix (basis betas : matrix) : matrix := transpose (matmul basis betas).
Definition space_shifts (sources mixing : matrix) : matrix := matmul sources mixing.

(** ---- all branches of [compute_orthonormal_basis] (extension): scalar / diagonal / full metric, any [strip_col] ---- *)

(** [G @ d] for a 2-D [G] and a 1-D [d] ([torch.matmul], matrix-vector): entry i = row_i(G) · d *)
Definition matvec (G : matrix) (d : list R) : list R := map (fun r => dot r d) G.

(** Householder reflection sending [D] to [alpha e_j]; column [j] is dropped.  [householder n D] above is
    [householder_at 0 n D] (by computation). *)
Definition householder_at (j n : nat) (D : list R) : matrix :=
  let ej := vset (vzeros_like D) j 1 in
  let alpha := (- sign (vget D j)) * vnorm D in
  let u := vsub D (vscale alpha ej) in
  let v := vdivs u (vnorm u) in
  let Q := msub (eye n) (outer (vscale 2 v) v) in
  mcat_cols (cols_before j Q) (cols_from (j + 1) Q).

(** the direction the columns are made orthogonal to (canonical inner product), per branch of the code *)
Definition metric_dir_0d (g : R) (d : list R) : list R := vscale g d.          (* G_metric.item() * dgamma_t0 *)
Definition metric_dir_1d (G d : list R) : list R := vmul G d.                  (* G_metric * dgamma_t0 *)
Definition metric_dir_2d (G : matrix) (d : list R) : list R := matvec G d.     (* G_metric @ dgamma_t0 *)

Definition ortho_basis_0d (j : nat) (d : list R) (g : R) : matrix := householder_at j (length d) (metric_dir_0d g d).
Definition ortho_basis_1d (j : nat) (d G : list R) : matrix := householder_at j (length d) (metric_dir_1d G d).
Definition ortho_basis_2d (j : nat) (d : list R) (G : matrix) : matrix := householder_at j (length d) (metric_dir_2d G d).

(** the guards of each branch that raise (linalg.py:72-93) and the assertion on strip_col (:104) *)
Definition ortho_pre_0d (j : nat) (d : list R) (g : R) : Prop := 0 < g /\ (j < length d)%nat.
Definition ortho_pre_1d (j : nat) (d G : list R) : Prop :=
  Forall (fun x => 0 < x) G /\ length G = length d /\ (j < length d)%nat.
Definition ortho_pre_2d (j : nat) (d : list R) (G : matrix) : Prop :=
  (length G = length d /\ Forall (fun r => length r = length d) G) /\ (j < length d)%nat.

(** the inner product of the docstring, equation (1): <x, y>_G = xᵀ G y, per representation of G *)
Definition inner_0d (g : R) (x y : list R) : R := dot x (vscale g y).
Definition inner_1d (G x y : list R) : R := dot x (vmul G y).
Definition inner_2d (G : matrix) (x y : list R) : R := dot x (matvec G y).

(** a full metric is positive definite on the vectors of dimension n (the code does not check it: "no check on positivity
    of matrix to remain light"); hypothesis of the statements about every non-zero direction *)
Definition pos_def_2d (G : matrix) (n : nat) : Prop :=
  forall x : list R, length x = n -> (exists i, nth i x 0 <> 0) -> 0 < inner_2d G x x.
