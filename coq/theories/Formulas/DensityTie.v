(** The definitions GENERATED from the running code (LeaspyGen.GenC08, regenerated on every run) are instances of the
    code shapes of LikelihoodCode.v / of the closed form proved in DensityProofs.v; the property theorems about the
    generated definitions follow.  A semantic edit of the code changes GenC08.v and one of the proofs below stops compiling. *)
From Coq Require Import Reals Lra List.
From Coquelicot Require Import Coquelicot.
From Leaspy Require Import Base.RAux Formulas.TorchDist Formulas.Density Formulas.LikelihoodCode Formulas.DensityProofs.
From LeaspyGen Require Import GenC08.
Local Open Scope R_scope.

(** * The penalty constant read from constants.py *)

Lemma INFINITY_c_pos : 0 < INFINITY_c.
Proof. unfold INFINITY_c. apply IZR_lt. reflexivity. Qed.

(** prohibitive (>= 10^306) and representable in binary64 with room to spare (< 2^1023 < max double) *)
Lemma INFINITY_c_bounds : IZR (10 ^ 306) <= INFINITY_c < IZR (2 ^ 1023).
Proof. unfold INFINITY_c. split; [apply IZR_le | apply IZR_lt]; vm_compute; first [reflexivity | discriminate]. Qed.

(** * Shapes (tie) *)

Ltac tie := intros; first [ reflexivity | (cbv delta [code_nll code_log_survival code_log_hazard code_hazard] beta zeta; reflexivity) ].

Lemma gen_event_rep_eq x tau : gen_event_rep x tau = x - tau.
Proof. reflexivity. Qed.

Lemma gen_nu_rep_eq nu rho xi tau : gen_nu_rep nu rho xi tau = nu_tilde nu xi.
Proof. unfold gen_nu_rep, nu_tilde. ring. Qed.

Lemma gen_nu_rep_sources_eq nu rho xi tau s : gen_nu_rep_sources nu rho xi tau s = nu_tilde_src nu rho xi s.
Proof. unfold gen_nu_rep_sources, nu_tilde_src. f_equal. f_equal. f_equal. f_equal. unfold Rdiv. ring. Qed.

Lemma gen_weibull_log_survival_shape x delta nu rho xi tau :
  gen_weibull_log_survival x delta nu rho xi tau = code_log_survival (gen_nu_rep nu rho xi tau) rho (gen_event_rep x tau).
Proof. tie. Qed.

Lemma gen_weibull_log_hazard_shape x delta nu rho xi tau :
  gen_weibull_log_hazard x delta nu rho xi tau = code_log_hazard INFINITY_c (gen_nu_rep nu rho xi tau) rho (gen_event_rep x tau) delta.
Proof. tie. Qed.

Lemma gen_weibull_nll_shape x delta nu rho xi tau :
  gen_weibull_nll x delta nu rho xi tau = code_nll INFINITY_c (gen_nu_rep nu rho xi tau) rho (gen_event_rep x tau) delta.
Proof. tie. Qed.

Lemma gen_weibull_nll_sum x delta nu rho xi tau :
  gen_weibull_nll x delta nu rho xi tau
  = (gen_weibull_log_survival x delta nu rho xi tau + gen_weibull_log_hazard x delta nu rho xi tau) * (-1).
Proof. tie. Qed.

Lemma gen_weibull_src_log_survival_shape x delta nu rho xi tau s :
  gen_weibull_src_log_survival x delta nu rho xi tau s = code_log_survival (gen_nu_rep_sources nu rho xi tau s) rho (gen_event_rep x tau).
Proof. tie. Qed.

Lemma gen_weibull_src_log_hazard_shape x delta nu rho xi tau s :
  gen_weibull_src_log_hazard x delta nu rho xi tau s
  = code_log_hazard INFINITY_c (gen_nu_rep_sources nu rho xi tau s) rho (gen_event_rep x tau) delta.
Proof. tie. Qed.

Lemma gen_weibull_src_nll_shape x delta nu rho xi tau s :
  gen_weibull_src_nll x delta nu rho xi tau s
  = code_nll INFINITY_c (gen_nu_rep_sources nu rho xi tau s) rho (gen_event_rep x tau) delta.
Proof. tie. Qed.

Lemma gen_joint_event_shape event delta n_log_nu log_rho xi tau :
  gen_joint_event_nll_ind event delta n_log_nu log_rho xi tau
  = gen_weibull_nll event delta (gen_joint_nu n_log_nu) (gen_joint_rho log_rho) xi tau.
Proof. tie. Qed.

Lemma gen_joint_event_total event delta n_log_nu log_rho xi tau :
  gen_joint_event_nll event delta n_log_nu log_rho xi tau = gen_joint_event_nll_ind event delta n_log_nu log_rho xi tau.
Proof. tie. Qed.

Lemma gen_joint_nu_eq n_log_nu : gen_joint_nu n_log_nu = exp (- n_log_nu).
Proof. unfold gen_joint_nu. f_equal. ring. Qed.

Lemma gen_joint_rho_eq log_rho : gen_joint_rho log_rho = exp log_rho.
Proof. reflexivity. Qed.

(** * Gaussian *)

Theorem normal_nll x mu sigma :
  0 < sigma -> gen_normal_nll x mu sigma = - ln (normal_pdf x mu sigma) + (c32 - ln (sqrt (2 * PI))).
Proof. intros. unfold gen_normal_nll. apply normal_nll_closed. assumption. Qed.

Theorem normal_jacobian x mu sigma :
  0 < sigma -> is_derive (fun x0 => gen_normal_nll x0 mu sigma) x (gen_normal_nll_jac x mu sigma).
Proof. intros. unfold gen_normal_nll, gen_normal_nll_jac. apply normal_jacobian_is_derivative. lra. Qed.

Theorem normal_and_jacobian x mu sigma :
  0 < sigma ->
  gen_normal_aj_nll x mu sigma = gen_normal_nll x mu sigma /\ gen_normal_aj_jac x mu sigma = gen_normal_nll_jac x mu sigma.
Proof.
  intros. split; [reflexivity|]. unfold gen_normal_aj_jac, gen_normal_nll_jac. field. lra.
Qed.

Theorem route_normal x mu sigma : gen_route_normal_nll x mu sigma = gen_normal_nll x mu sigma.
Proof. reflexivity. Qed.

Theorem route_regularization x mu sigma : gen_route_normal_regul x mu sigma = gen_normal_nll x mu sigma.
Proof. reflexivity. Qed.

Theorem prior_xi xi xi_mean xi_std :
  0 < xi_std -> gen_prior_xi xi xi_mean xi_std = - ln (normal_pdf xi xi_mean xi_std) + (c32 - ln (sqrt (2 * PI))).
Proof. intros. change (gen_prior_xi xi xi_mean xi_std) with (gen_normal_nll xi xi_mean xi_std). apply normal_nll. assumption. Qed.

Theorem prior_tau tau tau_mean tau_std :
  0 < tau_std -> gen_prior_tau tau tau_mean tau_std = - ln (normal_pdf tau tau_mean tau_std) + (c32 - ln (sqrt (2 * PI))).
Proof. intros. change (gen_prior_tau tau tau_mean tau_std) with (gen_normal_nll tau tau_mean tau_std). apply normal_nll. assumption. Qed.

Theorem prior_population v m s :
  0 < s ->
  gen_prior_log_g v m s = - ln (normal_pdf v m s) + (c32 - ln (sqrt (2 * PI))) /\
  gen_prior_n_log_nu v m s = - ln (normal_pdf v m s) + (c32 - ln (sqrt (2 * PI))) /\
  gen_prior_log_rho v m s = - ln (normal_pdf v m s) + (c32 - ln (sqrt (2 * PI))).
Proof.
  intros. change (gen_prior_log_g v m s) with (gen_normal_nll v m s). change (gen_prior_n_log_nu v m s) with (gen_normal_nll v m s).
  change (gen_prior_log_rho v m s) with (gen_normal_nll v m s). repeat split; apply normal_nll; assumption.
Qed.

Theorem attach_gaussian y model noise_std :
  0 < noise_std ->
  gen_attach_gaussian y model noise_std = - ln (normal_pdf y model noise_std) + (c32 - ln (sqrt (2 * PI))).
Proof. intros. change (gen_attach_gaussian y model noise_std) with (gen_normal_nll y model noise_std). apply normal_nll. assumption. Qed.

(** * Every latent variable with a Normal prior, of every shipped model kind (list regenerated by introspection) *)

Theorem prior_all_latents v m s :
  0 < s -> List.Forall (fun f : R -> R -> R -> R => f v m s = - ln (normal_pdf v m s) + (c32 - ln (sqrt (2 * PI)))) gen_regul_list.
Proof.
  intros H. unfold gen_regul_list. repeat (apply List.Forall_cons; [exact (normal_nll v m s H) |]). apply List.Forall_nil.
Qed.

(** one cluster coordinate of MixtureNormalFamily._nll (priors of xi, tau, sources in the mixture model): the Gaussian nll of that cluster *)
Theorem mixture_cluster x loc scale :
  0 < scale -> gen_mixture_cluster_nll x loc scale = - ln (normal_pdf x loc scale) + (c32 - ln (sqrt (2 * PI))).
Proof. intros. change (gen_mixture_cluster_nll x loc scale) with (gen_normal_nll x loc scale). apply normal_nll. assumption. Qed.

(** * Bernoulli: the traced path StatelessDistributionFamilyFromTorchDistribution._nll -> torch.distributions.Bernoulli.log_prob
      (python code of torch followed by the tracer; the kernel model is in TorchDist.v) *)

Lemma gen_bernoulli_shape y p : gen_bernoulli_nll y p = code_bernoulli_nll (1 / 8388608) (8388607 / 8388608) y p.
Proof. reflexivity. Qed.

Lemma gen_bernoulli64_shape y p :
  gen_bernoulli_nll64 y p = code_bernoulli_nll (1 / 4503599627370496) (4503599627370495 / 4503599627370496) y p.
Proof. reflexivity. Qed.

Theorem bernoulli y p :
  1 / 8388608 <= p <= 8388607 / 8388608 -> y = 0 \/ y = 1 -> gen_bernoulli_nll y p = - ln (bernoulli_pmf y p).
Proof. intros. rewrite gen_bernoulli_shape. apply code_bernoulli_interior; try assumption; lra. Qed.

Theorem bernoulli_f64 y p :
  1 / 4503599627370496 <= p <= 4503599627370495 / 4503599627370496 -> y = 0 \/ y = 1 ->
  gen_bernoulli_nll64 y p = - ln (bernoulli_pmf y p).
Proof. intros. rewrite gen_bernoulli64_shape. apply code_bernoulli_interior; try assumption; lra. Qed.

(** for EVERY probability argument (saturated, or even outside [0,1]): the negative log-pmf at the clamped probability, finite *)
Theorem bernoulli_every_p y p :
  y = 0 \/ y = 1 ->
  gen_bernoulli_nll y p = - ln (bernoulli_pmf y (clamp_prob (1 / 8388608) (8388607 / 8388608) p)) /\
  0 <= gen_bernoulli_nll y p <= - ln (1 / 8388608) /\
  gen_bernoulli_nll64 y p = - ln (bernoulli_pmf y (clamp_prob (1 / 4503599627370496) (4503599627370495 / 4503599627370496) p)) /\
  0 <= gen_bernoulli_nll64 y p <= - ln (1 / 4503599627370496).
Proof.
  intros Hy. rewrite gen_bernoulli_shape, gen_bernoulli64_shape.
  pose proof (code_bernoulli_bounds (1 / 8388608) (8388607 / 8388608) y p) as B32.
  pose proof (code_bernoulli_bounds (1 / 4503599627370496) (4503599627370495 / 4503599627370496) y p) as B64.
  rewrite Rmin_left in B32, B64 by lra.
  split; [apply code_bernoulli_clamped; try assumption; lra|].
  split; [apply B32; try assumption; lra|].
  split; [apply code_bernoulli_clamped; try assumption; lra|].
  apply B64; try assumption; lra.
Qed.

(** a probability saturated in float32 with the matching outcome costs -ln(1 - 2^-23) (one rounding unit), not 0 * ln 0 *)
Theorem bernoulli_saturated p :
  (8388607 / 8388608 <= p -> gen_bernoulli_nll 1 p = - ln (8388607 / 8388608)) /\
  (p <= 1 / 8388608 -> gen_bernoulli_nll 0 p = - ln (8388607 / 8388608)) /\
  0 <= - ln (8388607 / 8388608) <= 1 / 8388607.
Proof.
  pose proof (code_bernoulli_saturated (1 / 8388608) (8388607 / 8388608) p) as [Hhi Hlo]; try lra.
  split; [intros H; rewrite gen_bernoulli_shape; apply Hhi; exact H|].
  split; [intros H; rewrite gen_bernoulli_shape; destruct (Hlo H) as [E _]; rewrite E; f_equal; f_equal; lra|].
  split.
  - assert (ln (8388607 / 8388608) <= ln 1) by (apply ln_le; lra). rewrite ln_1 in *. lra.
  - (* -ln(1 - e) = ln(1 + e/(1-e)) <= e/(1-e) *)
    replace (- ln (8388607 / 8388608)) with (ln (1 + 1 / 8388607)).
    + assert (Hx : ln (1 + 1 / 8388607) < ln (exp (1 / 8388607))) by (apply ln_increasing; [lra | apply exp_ineq1; lra]).
      rewrite ln_exp in Hx. lra.
    + replace (1 + 1 / 8388607) with (/ (8388607 / 8388608)) by (field; lra). rewrite ln_Rinv by lra. reflexivity.
Qed.

Theorem route_bernoulli y p : gen_route_bernoulli_nll y p = gen_bernoulli_nll y p.
Proof. reflexivity. Qed.

(** * Right-censored Weibull, without sources *)

Theorem weibull_event x delta nu rho xi tau :
  0 < nu -> 0 < rho -> 0 < x - tau -> delta <> 0 ->
  gen_weibull_nll x delta nu rho xi tau
  = - ln (weibull_hazard (nu_tilde nu xi) rho (x - tau) * weibull_survival (nu_tilde nu xi) rho (x - tau)).
Proof.
  intros Hn Hr Ht Hd. rewrite gen_weibull_nll_shape, gen_nu_rep_eq, gen_event_rep_eq.
  apply code_nll_event; try assumption. apply nu_tilde_pos; assumption.
Qed.

Theorem weibull_censored x delta nu rho xi tau :
  0 < nu -> 0 < rho -> delta = 0 ->
  gen_weibull_nll x delta nu rho xi tau = - ln (weibull_survival (nu_tilde nu xi) rho (x - tau)).
Proof.
  intros Hn Hr Hd. rewrite gen_weibull_nll_shape, gen_nu_rep_eq, gen_event_rep_eq.
  apply code_nll_censored; try assumption. apply nu_tilde_pos; assumption.
Qed.

Theorem event_before_ref x delta nu rho xi tau :
  0 < rho -> x - tau <= 0 -> delta <> 0 -> gen_weibull_nll x delta nu rho xi tau = INFINITY_c.
Proof.
  intros Hr Ht Hd. rewrite gen_weibull_nll_shape, gen_event_rep_eq.
  apply (code_nll_before INFINITY_c INFINITY_c_pos); assumption.
Qed.

Theorem route_weibull x delta nu rho xi tau : gen_route_weibull_nll x delta nu rho xi tau = gen_weibull_nll x delta nu rho xi tau.
Proof. reflexivity. Qed.

(** * Right-censored Weibull, with sources (s = survival shift of the individual for the event) *)

Theorem weibull_src_event x delta nu rho xi tau s :
  0 < nu -> 0 < rho -> 0 < x - tau -> delta <> 0 ->
  gen_weibull_src_nll x delta nu rho xi tau s
  = - ln (weibull_hazard (nu_tilde_src nu rho xi s) rho (x - tau) * weibull_survival (nu_tilde_src nu rho xi s) rho (x - tau)).
Proof.
  intros Hn Hr Ht Hd. rewrite gen_weibull_src_nll_shape, gen_nu_rep_sources_eq, gen_event_rep_eq.
  apply code_nll_event; try assumption. apply nu_tilde_src_pos; assumption.
Qed.

Theorem weibull_src_censored x delta nu rho xi tau s :
  0 < nu -> 0 < rho -> delta = 0 ->
  gen_weibull_src_nll x delta nu rho xi tau s = - ln (weibull_survival (nu_tilde_src nu rho xi s) rho (x - tau)).
Proof.
  intros Hn Hr Hd. rewrite gen_weibull_src_nll_shape, gen_nu_rep_sources_eq, gen_event_rep_eq.
  apply code_nll_censored; try assumption. apply nu_tilde_src_pos; assumption.
Qed.

Theorem src_event_before_ref x delta nu rho xi tau s :
  0 < rho -> x - tau <= 0 -> delta <> 0 -> gen_weibull_src_nll x delta nu rho xi tau s = INFINITY_c.
Proof.
  intros Hr Ht Hd. rewrite gen_weibull_src_nll_shape, gen_event_rep_eq.
  apply (code_nll_before INFINITY_c INFINITY_c_pos); assumption.
Qed.

Theorem route_weibull_src x delta nu rho xi tau s :
  gen_route_weibull_src_nll x delta nu rho xi tau s = gen_weibull_src_nll x delta nu rho xi tau s.
Proof. reflexivity. Qed.

(** * The event attachment of a real joint model, read through its own dependency graph:
      nu = exp(-n_log_nu) and rho = exp(log_rho) are positive by construction, so no admissibility hypothesis is left. *)

Theorem joint_event event delta n_log_nu log_rho xi tau :
  0 < event - tau -> delta <> 0 ->
  gen_joint_event_nll_ind event delta n_log_nu log_rho xi tau
  = - ln (weibull_pdf (nu_tilde (exp (- n_log_nu)) xi) (exp log_rho) (event - tau)).
Proof.
  intros Ht Hd. rewrite gen_joint_event_shape, gen_joint_nu_eq. unfold gen_joint_rho. unfold weibull_pdf.
  apply weibull_event; try assumption; apply exp_pos.
Qed.

Theorem joint_censored event delta n_log_nu log_rho xi tau :
  delta = 0 ->
  gen_joint_event_nll_ind event delta n_log_nu log_rho xi tau
  = - ln (weibull_survival (nu_tilde (exp (- n_log_nu)) xi) (exp log_rho) (event - tau)).
Proof.
  intros Hd. rewrite gen_joint_event_shape, gen_joint_nu_eq. unfold gen_joint_rho.
  apply weibull_censored; try assumption; apply exp_pos.
Qed.

Theorem joint_event_before_ref event delta n_log_nu log_rho xi tau :
  event - tau <= 0 -> delta <> 0 ->
  gen_joint_event_nll_ind event delta n_log_nu log_rho xi tau = INFINITY_c
  /\ gen_joint_event_nll event delta n_log_nu log_rho xi tau = INFINITY_c.
Proof.
  intros Ht Hd.
  assert (E : gen_joint_event_nll_ind event delta n_log_nu log_rho xi tau = INFINITY_c).
  { rewrite gen_joint_event_shape. unfold gen_joint_rho. apply event_before_ref; try assumption; apply exp_pos. }
  split; [exact E|]. etransitivity; [apply gen_joint_event_total | exact E].
Qed.

(** * The event attachment of a real joint model WITH sources (one source, one event), read through its own dependency graph:
      survival shift = sources * zeta (MatMul), nu = exp(-n_log_nu), rho = exp(log_rho) *)

Lemma gen_joint_src_event_shape event delta n_log_nu log_rho xi tau sources zeta :
  gen_joint_src_event_nll_ind event delta n_log_nu log_rho xi tau sources zeta
  = gen_weibull_src_nll event delta (gen_joint_nu n_log_nu) (gen_joint_rho log_rho) xi tau (gen_joint_src_shift sources zeta).
Proof. tie. Qed.

Theorem joint_src_event event delta n_log_nu log_rho xi tau sources zeta :
  0 < event - tau -> delta <> 0 ->
  gen_joint_src_event_nll_ind event delta n_log_nu log_rho xi tau sources zeta
  = - ln (weibull_pdf (nu_tilde_src (exp (- n_log_nu)) (exp log_rho) xi (sources * zeta)) (exp log_rho) (event - tau)).
Proof.
  intros Ht Hd. rewrite gen_joint_src_event_shape, gen_joint_nu_eq. unfold gen_joint_rho, gen_joint_src_shift, weibull_pdf.
  apply weibull_src_event; try assumption; apply exp_pos.
Qed.

Theorem joint_src_censored event delta n_log_nu log_rho xi tau sources zeta :
  delta = 0 ->
  gen_joint_src_event_nll_ind event delta n_log_nu log_rho xi tau sources zeta
  = - ln (weibull_survival (nu_tilde_src (exp (- n_log_nu)) (exp log_rho) xi (sources * zeta)) (exp log_rho) (event - tau)).
Proof.
  intros Hd. rewrite gen_joint_src_event_shape, gen_joint_nu_eq. unfold gen_joint_rho, gen_joint_src_shift.
  apply weibull_src_censored; try assumption; apply exp_pos.
Qed.

Theorem joint_src_event_before_ref event delta n_log_nu log_rho xi tau sources zeta :
  event - tau <= 0 -> delta <> 0 ->
  gen_joint_src_event_nll_ind event delta n_log_nu log_rho xi tau sources zeta = INFINITY_c.
Proof.
  intros Ht Hd. rewrite gen_joint_src_event_shape. unfold gen_joint_rho. apply src_event_before_ref; try assumption; apply exp_pos.
Qed.

(** * Reparametrisation = documented formulas *)

Theorem reparam nu rho xi tau u x :
  0 < nu -> 0 < rho -> 0 < x - tau ->
  weibull_hazard (gen_nu_rep_sources nu rho xi tau u) rho (gen_event_rep x tau) = doc_hazard nu rho xi tau u x.
Proof. intros. rewrite gen_nu_rep_sources_eq, gen_event_rep_eq. apply reparam_hazard; lra. Qed.

Theorem reparam_surv nu rho xi tau u x :
  0 < nu -> 0 < rho -> 0 < x - tau ->
  weibull_survival (gen_nu_rep_sources nu rho xi tau u) rho (gen_event_rep x tau) = doc_survival nu rho xi tau u x.
Proof. intros. rewrite gen_nu_rep_sources_eq, gen_event_rep_eq. apply reparam_survival; lra. Qed.

Theorem reparam_no_sources nu rho xi tau x :
  0 < nu -> 0 < rho -> 0 < x - tau ->
  weibull_hazard (gen_nu_rep nu rho xi tau) rho (gen_event_rep x tau) = doc_hazard nu rho xi tau 0 x /\
  weibull_survival (gen_nu_rep nu rho xi tau) rho (gen_event_rep x tau) = doc_survival nu rho xi tau 0 x.
Proof.
  intros. rewrite gen_nu_rep_eq, gen_event_rep_eq, <- (nu_tilde_src_0 nu rho xi).
  split; [apply reparam_hazard | apply reparam_survival]; lra.
Qed.

(** * Non-vacuity: every hypothesis set above is inhabited by ordinary parameter values *)

Example ex_normal : gen_normal_nll (3/10) (1/2) (1/20) = - ln (normal_pdf (3/10) (1/2) (1/20)) + (c32 - ln (sqrt (2 * PI))).
Proof. apply normal_nll. lra. Qed.

Example ex_event : gen_weibull_nll 75 1 12 (3/2) (1/5) 70
  = - ln (weibull_hazard (nu_tilde 12 (1/5)) (3/2) (75 - 70) * weibull_survival (nu_tilde 12 (1/5)) (3/2) (75 - 70)).
Proof. apply weibull_event; lra. Qed.

Example ex_censored_after : gen_weibull_nll 75 0 12 (3/2) (1/5) 70 = - ln (weibull_survival (nu_tilde 12 (1/5)) (3/2) (75 - 70)).
Proof. apply weibull_censored; lra. Qed.

Example ex_censored_before : gen_weibull_nll 68 0 12 (3/2) (1/5) 70 = 0.
Proof. rewrite weibull_censored by lra. rewrite weibull_survival_before by lra. rewrite ln_1. ring. Qed.

Example ex_before : gen_weibull_nll 68 1 12 (3/2) (1/5) 70 = INFINITY_c /\ gen_weibull_nll 70 1 12 (3/2) (1/5) 70 = INFINITY_c.
Proof. split; apply event_before_ref; lra. Qed.

Example ex_src_event : gen_weibull_src_nll 75 1 12 (3/2) (1/5) 70 (-1/3)
  = - ln (weibull_hazard (nu_tilde_src 12 (3/2) (1/5) (-1/3)) (3/2) (75 - 70) * weibull_survival (nu_tilde_src 12 (3/2) (1/5) (-1/3)) (3/2) (75 - 70)).
Proof. apply weibull_src_event; lra. Qed.

Example ex_bernoulli : gen_bernoulli_nll 1 (7/10) = - ln (bernoulli_pmf 1 (7/10)) /\ gen_bernoulli_nll 0 (7/10) = - ln (bernoulli_pmf 0 (7/10)).
Proof. split; apply bernoulli; lra || (right; reflexivity) || (left; reflexivity). Qed.

Example ex_bernoulli_saturated : gen_bernoulli_nll 1 1 = - ln (8388607 / 8388608) /\ gen_bernoulli_nll 0 0 = - ln (8388607 / 8388608).
Proof. split; apply bernoulli_saturated; lra. Qed.

Example ex_regul_list : (36 <= length gen_regul_list)%nat /\ In gen_regul_jointsrc_zeta gen_regul_list.
Proof. split; [vm_compute; repeat constructor | unfold gen_regul_list; simpl; tauto]. Qed.

Example ex_joint_src_before : gen_joint_src_event_nll_ind 69 1 (-2) (1/3) 0 70 (1/2) (-1) = INFINITY_c.
Proof. apply joint_src_event_before_ref; lra. Qed.

Example ex_joint_before : gen_joint_event_nll_ind 69 1 (-2) (1/3) 0 70 = INFINITY_c.
Proof. apply joint_event_before_ref; lra. Qed.
