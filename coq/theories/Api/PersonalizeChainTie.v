(** C17 — the skeleton regenerated from the source (gen/GenC17Chain.v, harness/translate/c17_chain.py) is the model's. *)
From Coq Require Import String ZArith QArith List Bool.
From Leaspy Require Import Sampler.SamplerModel Saem.Anneal Sampler.AdaptiveStd Api.Personalize Api.PersonalizeChain.
From LeaspyGen Require Import GenC17Chain.
Import ListNotations.

Lemma tie_iteration_body : gen_iteration_body = iteration_body.
Proof. reflexivity. Qed.

Lemma tie_skeleton :
  gen_record_reads = record_reads /\ gen_sweep_temperature = sweep_temperature /\ gen_init_calls = init_calls /\
  gen_sample_effects = sample_effects /\ gen_ind_scale_factor = ind_scale_factor /\
  gen_no_population_sampler = ["mean_posterior"; "mode_posterior"]%string.
Proof. repeat split; reflexivity. Qed.

(** the run that interprets the REGENERATED statement list is the model's run *)
Lemma tie_run A add mul ofQ decide att regv regsum scf acf nb random_order n_ind :
  personalize_run_with A add mul ofQ decide att regv regsum scf acf nb random_order n_ind gen_iteration_body
  = personalize_run A add mul ofQ decide att regv regsum scf acf nb random_order n_ind.
Proof. unfold personalize_run. now rewrite tie_iteration_body. Qed.
