(** C18 — the GENERATION of a simulated cohort as a function of a tape of draws
    (leaspy/algo/simulate/simulate.py: [_sample_individual_parameters_from_model_parameters] as far as it draws,
    [_generate_visit_ages] for both visit types, the rounding / de-duplication of [_generate_dataset], the ingestion
    sort of [Data.from_dataframe]).  Definitions only; proofs in SimulateGenProofs.v; the tie to the program regenerated
    from the source (gen/GenC18Gen.v) in SimulateGenTie.v.

    The statements of the generation are a small PROGRAM ([gen_prog]: column expressions over draws, the per-individual
    visit loop) interpreted by [run_random] / [run_table]; the program the code holds today is [model_prog], regenerated on
    every run as [GenC18Gen.gen_prog_src] and proved equal to it.

    The arithmetic is a PARAMETER of the interpreter ([add], [absT], [ltb], the rounding [key], the injection [ofQ] of the
    table's ages): every theorem holds for every arithmetic — exact rationals ([Qarith], the instance the older loop model
    [Simulate.visit_loop] is) and binary64 ([SimulateGenFloat.v], the instance the recorded runs are re-executed with,
    bit for bit).

    A TAPE is the list of values returned by the successive calls of [numpy.random.normal], in the order the code makes
    them: [DVec l] for a call with a size, [DScal x] for a scalar call.  The interpreter also LOGS which call it makes
    (location parameter, scale parameter, size) so that the recorded calls of the implementation can be compared. *)
From Coq Require Import ZArith QArith Qabs Bool List String Lia.
From Leaspy Require Import Base.QAux Api.Simulate.
Import ListNotations.

(* ------------------------------------------------------------------------------------------ *)
(** * the program *)

(** where a parameter of a draw comes from: [model.hyperparameters[k]], [model.parameters[k]], [self.param_study[k]], a literal *)
Inductive dparam := PHyper (k : string) | PModel (k : string) | PStudy (k : string) | PConst (q : Q).
(** [size = self.param_study["patient_number"]] / no size (one scalar) *)
Inductive dsize := SzN | SzScalar.
Definition dcall := (dparam * dparam * dsize)%type.

(** expressions: a column of the working table, the running [time] of the visit loop, a draw, [np.abs], [+] *)
Inductive cexpr := CCol (c : string) | CTime | CDraw (d : dcall) | CAbs (e : cexpr) | CAdd (a b : cexpr).

(** [time = row[start]; ages = [time]; while time < row[end]: time = <step>; ages.append(time)] *)
Record loop_prog := { lp_start : string; lp_end : string; lp_step : cexpr; lp_keep_start : bool }.

Record gen_prog := {
  gp_ip : list (string * cexpr);     (** columns of the individual-parameter table drawn first (xi, tau) *)
  gp_source : cexpr;                 (** one column per source, [for i in range(model.source_dimension)] *)
  gp_cols : list (string * cexpr);   (** columns added by [_generate_visit_ages] (random design) *)
  gp_loop : loop_prog                (** the per-individual visit loop (random design) *)
}.

(** the program of the current source (tie: SimulateGenTie.tie_gen_prog) *)
Definition call_xi : dcall := (PHyper "xi_mean", PModel "xi_std", SzN).
Definition call_tau : dcall := (PModel "tau_mean", PModel "tau_std", SzN).
Definition call_source : dcall := (PConst 0, PConst 1, SzN).
Definition call_baseline : dcall := (PStudy "first_visit_mean", PStudy "first_visit_std", SzN).
Definition call_followup : dcall := (PStudy "time_follow_up_mean", PStudy "time_follow_up_std", SzN).
Definition call_step : dcall := (PStudy "distance_visit_mean", PStudy "distance_visit_std", SzScalar).

Definition model_loop : loop_prog :=
  {| lp_start := "AGE_AT_BASELINE"; lp_end := "AGE_FOLLOW_UP"; lp_step := CAdd CTime (CDraw call_step); lp_keep_start := true |}.

Definition model_prog : gen_prog :=
  {| gp_ip := [("xi", CDraw call_xi); ("tau", CDraw call_tau)]%string;
     gp_source := CDraw call_source;
     gp_cols := [("AGE_AT_BASELINE", CAdd (CCol "tau") (CDraw call_baseline));
                 ("AGE_FOLLOW_UP", CAdd (CCol "AGE_AT_BASELINE") (CAbs (CDraw call_followup)))]%string;
     gp_loop := model_loop |}.

(* ------------------------------------------------------------------------------------------ *)
(** * results, tapes *)

(** [GExhausted]: the tape (or the fuel) ran out before the generation ended — the visit loop had not terminated;
    [GMismatch]: the next element of the tape is not of the kind / size the code asks for;
    [GCrash]: the code raises (a missing column, a count that is not an integer, no integer precision) *)
Inductive gres (A : Type) := GOk (a : A) | GExhausted | GMismatch | GCrash.
Arguments GOk {A} a. Arguments GExhausted {A}. Arguments GMismatch {A}. Arguments GCrash {A}.

Definition gbind {A B} (x : gres A) (f : A -> gres B) : gres B :=
  match x with GOk a => f a | GExhausted => GExhausted | GMismatch => GMismatch | GCrash => GCrash end.

Inductive draw (T : Type) := DVec (l : list T) | DScal (x : T).
Arguments DVec {T} l. Arguments DScal {T} x.

(** elementary draws held by a tape element *)
Definition draw_size {T} (d : draw T) : nat := match d with DVec l => List.length l | DScal _ => 1 end.
Definition tape_size {T} (tp : list (draw T)) : nat := fold_right (fun d a => (draw_size d + a)%nat) 0%nat tp.

Section Gen.
  Variable T : Type.
  Variable add : T -> T -> T.
  Variable absT : T -> T.
  Variable ltb : T -> T -> bool.
  Variable key : Z -> T -> Z.        (** the age rounded at [p] decimals, in units of 10^-p *)
  Variable ofQ : Q -> T.             (** the ages of a visit table *)

  Definition tape := list (draw T).
  Definition env := list (string * list T).
  (** value, rest of the tape, calls made *)
  Definition step_out (A : Type) := (A * tape * list dcall)%type.

  Fixpoint elookup (k : string) (e : env) : option (list T) :=
    match e with [] => None | (k', v) :: r => if String.eqb k k' then Some v else elookup k r end.

  Fixpoint zip_add (a b : list T) : option (list T) :=
    match a, b with
    | [], [] => Some []
    | x :: a', y :: b' => match zip_add a' b' with Some l => Some (add x y :: l) | None => None end
    | _, _ => None
    end.

  (** a column expression over the [n] individuals (left operand first, as Python) *)
  Fixpoint eval_vec (n : nat) (e : env) (x : cexpr) (tp : tape) : gres (step_out (list T)) :=
    match x with
    | CCol c => match elookup c e with Some l => GOk (l, tp, []) | None => GCrash end
    | CTime => GCrash
    | CDraw (lo, sc, SzN) =>
        match tp with
        | [] => GExhausted
        | DVec l :: r => if (List.length l =? n)%nat then GOk (l, r, [(lo, sc, SzN)]) else GMismatch
        | DScal _ :: _ => GMismatch
        end
    | CDraw (_, _, SzScalar) => GCrash
    | CAbs a => gbind (eval_vec n e a tp) (fun o => match o with (l, r, g) => GOk (map absT l, r, g) end)
    | CAdd a b =>
        gbind (eval_vec n e a tp) (fun o => match o with (la, r, g) =>
        gbind (eval_vec n e b r) (fun o' => match o' with (lb, r', g') =>
          match zip_add la lb with Some l => GOk (l, r', (g ++ g')%list) | None => GCrash end end) end)
    end.

  (** a scalar expression inside the visit loop, [t] the running time *)
  Fixpoint eval_scal (t : T) (x : cexpr) (tp : tape) : gres (step_out T) :=
    match x with
    | CTime => GOk (t, tp, [])
    | CCol _ => GCrash
    | CDraw (lo, sc, SzScalar) =>
        match tp with
        | [] => GExhausted
        | DScal s :: r => GOk (s, r, [(lo, sc, SzScalar)])
        | DVec _ :: _ => GMismatch
        end
    | CDraw (_, _, SzN) => GCrash
    | CAbs a => gbind (eval_scal t a tp) (fun o => match o with (v, r, g) => GOk (absT v, r, g) end)
    | CAdd a b =>
        gbind (eval_scal t a tp) (fun o => match o with (va, r, g) =>
        gbind (eval_scal t b r) (fun o' => match o' with (vb, r', g') => GOk (add va vb, r', (g ++ g')%list) end) end)
    end.

  (** [while time < follow_up: time = <step>; ages.append(time)]; explicit fuel ([GExhausted] when it runs out) *)
  Fixpoint run_loop (fuel : nat) (step : cexpr) (t fu : T) (tp : tape) : gres (step_out (list T)) :=
    if ltb t fu then
      match fuel with
      | O => GExhausted
      | S f =>
          gbind (eval_scal t step tp) (fun o => match o with (t', r, g) =>
          gbind (run_loop f step t' fu r) (fun o' => match o' with (l, r', g') => GOk (t' :: l, r', (g ++ g')%list) end) end)
      end
    else GOk ([], tp, []).

  Definition col_at (e : env) (c : string) (i : nat) : option T :=
    match elookup c e with Some l => nth_error l i | None => None end.

  (** [for id_ in df_ind.index.values: ...] *)
  Fixpoint run_inds (fuel : nat) (lp : loop_prog) (e : env) (is : list nat) (tp : tape) : gres (step_out (list (list T))) :=
    match is with
    | [] => GOk ([], tp, [])
    | i :: rest =>
        match col_at e (lp_start lp) i, col_at e (lp_end lp) i with
        | Some t0, Some fu =>
            gbind (run_loop fuel (lp_step lp) t0 fu tp) (fun o => match o with (l, r, g) =>
            gbind (run_inds fuel lp e rest r) (fun o' => match o' with (ls, r', g') =>
              GOk ((if lp_keep_start lp then t0 :: l else l) :: ls, r', (g ++ g')%list) end) end)
        | _, _ => GCrash
        end
    end.

  (** successive column assignments *)
  Fixpoint run_cols (n : nat) (e : env) (cs : list (string * cexpr)) (tp : tape) : gres (step_out env) :=
    match cs with
    | [] => GOk (e, tp, [])
    | (c, x) :: rest =>
        gbind (eval_vec n e x tp) (fun o => match o with (l, r, g) =>
        gbind (run_cols n ((c, l) :: e) rest r) (fun o' => match o' with (e', r', g') => GOk (e', r', (g ++ g')%list) end) end)
    end.

  (** the draws of [_sample_individual_parameters_from_model_parameters]: xi, tau, one column per source *)
  Definition ip_cols (P : gen_prog) (nsrc : nat) : list (string * cexpr) :=
    (gp_ip P ++ repeat ("sources"%string, gp_source P) nsrc)%list.

  (** requested ages per individual, in the order of the parameter table: random design *)
  Definition run_random (P : gen_prog) (n nsrc : nat) (tp : tape) : gres (step_out (list (string * list T))) :=
    gbind (run_cols n [] (ip_cols P nsrc) tp) (fun o => match o with (e, r, g) =>
    gbind (run_cols n e (gp_cols P) r) (fun o' => match o' with (e', r', g') =>
    gbind (run_inds (S (List.length r')) (gp_loop P) e' (seq 0 n) r') (fun o'' => match o'' with (vs, r'', g'') =>
      GOk (combine (ids_random n) vs, r'', (g ++ g' ++ g'')%list) end) end) end).

  (** table design: the ages are the table's, per ID, in the table's row order — the row LABELS of the table do not exist here *)
  Definition table_ids (f : frame) : list string :=
    flat_map (fun i => match i with IdStr s => [s] | _ => [] end)
             (uniq idv_eqb (filter (fun i => negb (is_null i)) (map fst (rows f)))).
  Definition table_times (f : frame) (id : string) : list T :=
    flat_map (fun r => match r with (IdStr s, Some t) => if String.eqb s id then [ofQ t] else [] | _ => [] end) (rows f).
  Definition all_string_ids (f : frame) : bool := forallb (fun r => match fst r with IdStr _ => true | _ => false end) (rows f).

  Definition run_table (P : gen_prog) (nsrc : nat) (f : frame) (tp : tape) : gres (step_out (list (string * list T))) :=
    if negb (all_string_ids f) then GCrash
    else
      gbind (run_cols (List.length (table_ids f)) [] (ip_cols P nsrc) tp) (fun o => match o with (_, r, g) =>
        GOk (map (fun id => (id, table_times f id)) (table_ids f), r, g) end).

  (** ** post-processing: rounding at [p] decimals, keep-first de-duplication, ingestion sort (the row functions of Simulate.v) *)
  Definition grows (p : Z) (out : list (string * list T)) : list srow :=
    flat_map (fun it => map (fun t => (fst it, key p t, @nil Q)) (snd it)) out.
  Definition final_ages (p : Z) (out : list (string * list T)) (id : string) : list Z :=
    map (fun r => snd (rkey r)) (sort_rows (rows_of id (dedup_first (grows p out)))).
  Definition final_table (p : Z) (out : list (string * list T)) : list (string * list Z) :=
    map (fun it => (fst it, final_ages p out (fst it))) out.

  (** ** the whole generation from the stored parameters of an accepted design.
      [opts], [init], [dflt]: the regenerated rounding options / value bound before the precision loop / default spacing. *)
  Record gen_out := { go_precision : Z; go_requested : list (string * list T); go_ages : list (string * list Z);
                      go_rest : tape; go_calls : list dcall }.

  Definition generate (opts : list (Z * Q)) (init : option Z) (dflt : Q) (P : gen_prog) (nsrc : nat)
             (vt : vtype) (ps : dict) (tp : tape) : gres gen_out :=
    match vt with
    | VtOther => GCrash
    | VtRandom =>
        match lookup "patient_number" ps, min_spacing_of dflt ps with
        | Some (VInt n), Some ms =>
            match precision_of opts init ms with
            | None => GCrash
            | Some p =>
                if (n <? 0)%Z then GCrash else
                gbind (run_random P (Z.to_nat n) nsrc tp) (fun o => match o with (out, r, g) =>
                  GOk {| go_precision := p; go_requested := out; go_ages := final_table p out; go_rest := r; go_calls := g |} end)
            end
        | _, _ => GCrash
        end
    | VtDataframe =>
        match lookup "df_visits" ps, precision_of opts init dflt with
        | Some (VFrame f), Some p =>
            gbind (run_table P nsrc f tp) (fun o => match o with (out, r, g) =>
              GOk {| go_precision := p; go_requested := out; go_ages := final_table p out; go_rest := r; go_calls := g |} end)
        | _, _ => GCrash
        end
    end.

  (** elementary normal draws consumed: what was on the tape minus what is left *)
  Definition consumed (tp : tape) (o : gen_out) : nat := (tape_size tp - tape_size (go_rest o))%nat.
End Gen.

Arguments go_precision {T} g. Arguments go_requested {T} g. Arguments go_ages {T} g. Arguments go_rest {T} g.
Arguments go_calls {T} g.

(** the calls a random / table design makes, as a function of the design and of the number of scalar draws *)
Definition calls_ip (nsrc : nat) : list dcall := ([call_xi; call_tau] ++ repeat call_source nsrc)%list.
Definition calls_random (nsrc nscal : nat) : list dcall :=
  (calls_ip nsrc ++ [call_baseline; call_followup] ++ repeat call_step nscal)%list.

(** elementary draws a logged call stands for, with [n] individuals *)
Definition call_draws (n : nat) (c : dcall) : nat := match snd c with SzN => n | SzScalar => 1%nat end.
Definition calls_draws (n : nat) (g : list dcall) : nat := fold_right (fun c a => (call_draws n c + a)%nat) 0%nat g.

(** the calls an expression makes, statically *)
Fixpoint static_calls (x : cexpr) : list dcall :=
  match x with
  | CDraw d => [d]
  | CAbs a => static_calls a
  | CAdd a b => (static_calls a ++ static_calls b)%list
  | _ => []
  end.
Definition cols_calls (cs : list (string * cexpr)) : list dcall := flat_map (fun c => static_calls (snd c)) cs.
(** the ages of one individual produced INSIDE the loop (all but the baseline age when it is kept) *)
Definition loop_ages {T} (lp : loop_prog) (v : list T) : list T := if lp_keep_start lp then tl v else v.
Definition loop_calls {T} (lp : loop_prog) (out : list (string * list T)) : list dcall :=
  flat_map (fun it => flat_map (fun _ => static_calls (lp_step lp)) (loop_ages lp (snd it))) out.
(** number of ages generated after the first one, over the cohort *)
Definition later_visits {T} (out : list (string * list T)) : nat :=
  fold_right (fun it a => (List.length (tl (snd it)) + a)%nat) 0%nat out.

(** the exact-rational instance *)
Definition Q_key (p : Z) (t : Q) : Z := age_key p t.
Definition generate_Q := generate Q Qplus Qabs Qlt_bool Q_key (fun q => q).
