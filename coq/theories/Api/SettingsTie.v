(* C13 — tie of the AlgorithmSettings model (Settings.v) to today's source:
   (1) the rule REGENERATED from src/leaspy/algo/settings.py (LeaspyGen.GenSettings) is the model's rule, so the theorems of
       SettingsProofs.v are about the rule of the source; the kind of copy of `BaseAlgorithm.__init__` is the one read by the
       C13 call translator (LeaspyGen.GenC13.gen_settings_copy);
   (2) checkers evaluated by harness/props/c13_settings.py (vm_compute) on real constructions: the model's `resolve`,
       `ctor_view`, `save`/`load` and the heap-level `hresolve` against what the implementation just produced. *)
From Coq Require Import List Arith Bool ZArith Ascii String Lia.
From Leaspy Require Import Api.Settings Api.SettingsProofs Api.SrcProg.
From LeaspyGen Require Import GenSettings GenC13.
Import ListNotations.
Local Open Scope string_scope.

(* ---------------------------------------------------------------------- (1) the regenerated rule is the model's *)
Lemma gen_merge_table_is_model : gen_merge_table = merge_table.
Proof. reflexivity. Qed.
Lemma gen_special_keys_is_model : gen_special_keys = special_keys.
Proof. reflexivity. Qed.
Lemma gen_known_keys_is_model : gen_known_keys = known_keys.
Proof. reflexivity. Qed.
Lemma gen_dynamic_is_model : gen_dynamic = dynamic_table.
Proof. reflexivity. Qed.
Lemma gen_defaults_source_is_fresh : gen_defaults_source = FreshLoad.
Proof. reflexivity. Qed.

Lemma merge_act_is_table a b c : act_of_table merge_table a b c = merge_act a b c.
Proof. destruct a, b, c; reflexivity. Qed.

Lemma merge_entries_ext act1 act2 (rec1 rec2 : jv -> dict -> outcome dict) nd :
  (forall a b c, act1 a b c = act2 a b c) ->
  Forall (fun kv => forall ref, rec1 (snd kv) ref = rec2 (snd kv) ref) nd ->
  forall ref, merge_entries act1 rec1 nd ref = merge_entries act2 rec2 nd ref.
Proof.
  intros A. induction nd as [|[k v] t IH]; simpl; intros F ref; auto.
  inversion F as [|? ? Fv Ft]; subst. simpl in Fv. rewrite A.
  destruct (act2 _ _ _); auto.
  destruct (dget ref k) as [[| | | | | |rd]|]; auto. rewrite Fv.
  destruct (rec2 v rd); auto.
Qed.

Lemma mergev_with_ext act1 act2 : (forall a b c, act1 a b c = act2 a b c) ->
  forall v ref, mergev_with act1 v ref = mergev_with act2 v ref.
Proof.
  intros A v. induction v as [v N|d IH] using jv_dict_ind; intros ref.
  - destruct v; simpl in *; auto; discriminate.
  - simpl. apply merge_entries_ext; auto.
Qed.

(* `AlgorithmSettings(name, **kwargs)` with the pieces read from the source *)
Definition src_resolve (file : dict) (det : bool) (kwargs : dict) : outcome settings :=
  obind (load_defaults file det)
        (fun s => manage_kwargs_with gen_special_keys (act_of_table gen_merge_table) gen_dynamic s kwargs).

Theorem src_resolve_is_model file det kwargs : src_resolve file det kwargs = resolve file det kwargs.
Proof.
  unfold src_resolve, resolve, manage_kwargs.
  rewrite gen_merge_table_is_model, gen_special_keys_is_model, gen_dynamic_is_model.
  destruct (load_defaults file det); simpl; auto.
  unfold manage_kwargs_with.
  rewrite (mergev_with_ext _ _ merge_act_is_table). reflexivity.
Qed.

(* the copy the algorithm works on, by the kind read from BaseAlgorithm.__init__ *)
Definition hcopy_of (k : copy_kind) (f : nat) (h : heap) (v : hval) : option (heap * hval) :=
  match k with CopyDeep => hdeepcopy f h v | CopyShallow => hshallow h v | CopyAlias => halias h v end.

Theorem src_settings_isolated f h s h1 r1 ws :
  closed h -> hcopy_of gen_settings_copy f h s = Some (h1, r1) ->
  forall g v, hval_in h v -> hview g (do_hwrites r1 h1 ws) v = hview g h v.
Proof. change gen_settings_copy with CopyDeep. simpl. apply deepcopy_isolates. Qed.

(* the two wrong kinds of copy: one write of the algorithm shows in the caller's settings *)
Definition demo_settings : jv :=
  JDict [("n_iter", JInt 100); ("n_burn_in_iter", JNull); ("annealing", JDict [("do_annealing", JBool true); ("n_iter", JNull)])].
Definition demo_heap : heap := fst (halloc demo_settings []).
Definition demo_root : hval := snd (halloc demo_settings []).
Definition w_burn : hwrite := {| w_path := []; w_key := "n_burn_in_iter"; w_val := JInt 90 |}.
Definition w_anneal : hwrite := {| w_path := ["annealing"]; w_key := "n_iter"; w_val := JInt 50 |}.
Definition caller_sees (k : copy_kind) (ws : list hwrite) : option jv :=
  match hcopy_of k 5 demo_heap demo_root with
  | Some (h1, r1) => hview 5 (do_hwrites r1 h1 ws) demo_root
  | None => None
  end.

Definition closedb (h : heap) : bool :=
  forallb (fun o : hobj => forallb (fun kv => match snd kv with HR b => Nat.ltb b (List.length h) | HA _ => true end) o) h.
Lemma closedb_closed h : closedb h = true -> closed h.
Proof.
  unfold closedb, closed, obj_closed. rewrite forallb_forall. intros H a o E k b I.
  apply nth_error_In in E. specialize (H _ E). rewrite forallb_forall in H. specialize (H _ I). simpl in H.
  now apply Nat.ltb_lt in H.
Qed.
Lemma demo_closed : closed demo_heap.
Proof. apply closedb_closed. reflexivity. Qed.

Example copy_kinds_demo :
  closed demo_heap /\ hval_in demo_heap demo_root
  /\ caller_sees CopyDeep [w_burn; w_anneal] = Some demo_settings
  /\ caller_sees CopyAlias [w_burn] <> Some demo_settings
  /\ caller_sees CopyShallow [w_burn] = Some demo_settings      (* a one-level copy protects the top level ... *)
  /\ caller_sees CopyShallow [w_anneal] <> Some demo_settings.   (* ... not the nested dictionary *)
Proof.
  split; [exact demo_closed|]. split; [simpl; lia|].
  split; [vm_compute; reflexivity|]. split; [vm_compute; discriminate|].
  split; [vm_compute; reflexivity|]. vm_compute; discriminate.
Qed.

(* the heap-level construction with the origin of the defaults read from the source *)
Definition src_hresolve := hresolve gen_defaults_source.

Definition same_outcome_b (m : outcome settings) (s : settings) : bool := match m with Done a => settings_eqb a s | _ => false end.

(* ---------------------------------------------------------------------- witnesses *)
Definition demo_file : dict :=
  [("name", JStr "mcmc_saem"); ("seed", JNull); ("algorithm_initialization_method", JNull); ("device", JStr "cpu");
   ("parameters", JDict [("n_iter", JInt 100); ("n_burn_in_iter", JNull); ("n_burn_in_iter_frac", JFloat 1 2);
                         ("annealing", JDict [("do_annealing", JBool false); ("n_plateau", JInt 10); ("n_iter", JNull);
                                              ("n_iter_frac", JFloat 1 2)])])].
Definition demo_kwargs : dict :=
  [("seed", JInt 3); ("n_burn_in_iter", JInt 7); ("annealing", JDict [("do_annealing", JBool true); ("n_iter", JInt 13)]);
   ("unknown", JDict [("a", JInt 1)])].
Definition demo_params : dict :=
  [("n_iter", JInt 100); ("n_burn_in_iter", JInt 7); ("n_burn_in_iter_frac", JFloat 1 2);
   ("annealing", JDict [("do_annealing", JBool true); ("n_plateau", JInt 10); ("n_iter", JInt 13); ("n_iter_frac", JFloat 1 2)]);
   ("unknown", JDict [("a", JInt 1)])].

(* non-vacuity: a construction with an explicit seed, an explicit count, a partially given nested dictionary and an unknown
   key; the algorithm keeps both explicit counts; with the defaults it computes int(0.5 * 100); save -> load gives the object back *)
Example resolve_demo :
  option_map s_params (match resolve demo_file false demo_kwargs with Done s => Some s | _ => None end) = Some demo_params
  /\ wf (JDict demo_kwargs)
  /\ (match resolve demo_file false demo_kwargs with Done s => ctor_view true true s | _ => Failed end) = Done demo_params
  /\ (match resolve demo_file false [] with Done s => option_map (fun p => dget p "n_burn_in_iter")
                                                         (match ctor_view true true s with Done p => Some p | _ => None end)
       | _ => None end) = Some (Some (JInt 50))
  /\ (match resolve demo_file false demo_kwargs with
      | Done s => same_outcome_b (load demo_file false (save s)) s | _ => false end) = true
  /\ resolve demo_file false [("annealing", JInt 3)] = Refused.
Proof.
  split; [vm_compute; reflexivity|]. split.
  { apply wf_dict. split; [repeat constructor; simpl; intuition discriminate|].
    repeat constructor; simpl; auto; intuition discriminate. }
  repeat split; vm_compute; reflexivity.
Qed.

(* the wrong rule (a nested dictionary given by the user REPLACES the default one) loses the default nested keys *)
Example replacement_refuted :
  exists d kw m m', merge d kw = Done m /\ mergev_with replace_act (JDict kw) d = Done m' /\ m <> m'.
Proof.
  exists [("annealing", JDict [("do_annealing", JBool false); ("n_plateau", JInt 10)])],
         [("annealing", JDict [("do_annealing", JBool true)])].
  eexists. eexists. split; [vm_compute; reflexivity|]. split; [vm_compute; reflexivity|]. discriminate.
Qed.

(* the wrong origin of the defaults (one kept object handed out again): the update of the first construction is logged at
   the kept object, and a second construction WITHOUT arguments sees the first one's keyword arguments *)
Definition shared_demo : option (list addr * option jv * option jv) :=
  let (h0, cache) := halloc (JDict [("n_iter", JInt 100)]) [] in
  let (h1, kw1) := halloc (JDict [("n_iter", JInt 5)]) h0 in
  let (h2, kw2) := halloc (JDict []) h1 in
  match cache, kw1, kw2 with
  | HR c, HR k1, HR k2 =>
      match hresolve SharedObject 5 [("n_iter", JInt 100)] h2 c k1 with
      | Some (h3, _, log) =>
          match hresolve SharedObject 5 [("n_iter", JInt 100)] h3 c k2, hresolve FreshLoad 5 [("n_iter", JInt 100)] h3 c k2 with
          | Some (h4, r4, _), Some (h5, r5, _) => Some (log, hview 5 h4 r4, hview 5 h5 r5)
          | _, _ => None
          end
      | None => None
      end
  | _, _, _ => None
  end.
Example shared_defaults_refuted :
  shared_demo = Some ([0], Some (JDict [("n_iter", JInt 5)]), Some (JDict [("n_iter", JInt 100)])).
Proof. vm_compute. reflexivity. Qed.

(* a nested dictionary given for a key whose default is NOT a dictionary is stored as it is: `.parameters` then SHARES it
   with the caller (only the algorithm's deep copy is private).  The update itself wrote into new objects only. *)
Example caller_dictionary_shared :
  let (h0, kw) := halloc (JDict [("custom", JDict [("method", JStr "BFGS")])]) [] in
  match kw with
  | HR ka => match hresolve FreshLoad 5 [("custom", JNull)] h0 0 ka with
             | Some (h1, HR ra, log) => (forallb (Nat.leb (List.length h0)) log, shared_paths 5 (List.length h0) h1 ra [])
             | _ => (false, [])
             end
  | _ => (false, [])
  end = (true, [["custom"]]).
Proof. vm_compute. reflexivity. Qed.

