(** C20 (extension) — model of what [LMEFitAlgorithm._run] STORES after statsmodels' fit, and of the conditional
    means in covariance form.  Definitions only (proofs: BenchFitProofs.v).

      leaspy/algo/fit/lme_fit.py::_run (l.63-120)

    statsmodels' optimiser is outside the model: its result (fixed effects, covariance of the random effects, noise
    variance [scale]) is the input [sm_result].  [cov_re_unscaled] is statsmodels' property [cov_re / scale].
    Square roots are not rational: the record keeps the SQUARES ([st_ages_var] = ages_std^2, [st_noise_var] = noise_std^2). *)
From Coq Require Import String QArith List Bool Arith.
From Leaspy Require Import Base.QAux Api.Bench Api.BenchNumpy.
Import ListNotations.
Open Scope Q_scope.

Record sm_result (M : Type) := SmResult { sm_fe : Q * Q; sm_cov_re : M; sm_scale : Q }.
Arguments SmResult {M}.
Arguments sm_fe {M}.
Arguments sm_cov_re {M}.
Arguments sm_scale {M}.

Definition mscale2 (s : Q) (m : mat2) : mat2 := Mat2 (s * m11 m) (s * m12 m) (s * m21 m) (s * m22 m).

(** statsmodels [MixedLMResults.cov_re_unscaled] = [cov_re / scale] *)
Definition sm_cov_re_unscaled_2 (f : sm_result mat2) : mat2 := mscale2 (/ sm_scale f) (sm_cov_re f).
Definition sm_cov_re_unscaled_1 (f : sm_result Q) : Q := / sm_scale f * sm_cov_re f.

Record lme_stored (M : Type) := LmeStored {
  st_ages_mean : Q; st_ages_var : Q;      (** mean and squared std of the ages of the observed values *)
  st_fe : Q * Q; st_cov_re : M;
  st_cov_inv : M;                          (** cov_re_unscaled_inv *)
  st_noise_var : Q                         (** noise_std ^ 2 *)
}.
Arguments LmeStored {M}.
Arguments st_ages_mean {M}.
Arguments st_ages_var {M}.
Arguments st_fe {M}.
Arguments st_cov_re {M}.
Arguments st_cov_inv {M}.
Arguments st_noise_var {M}.

(** [Refused] = [LeaspyDataInputError("Cannot predict random effects from singular covariance structure.")] *)
Inductive fit_outcome (M : Type) := Accepted (s : lme_stored M) | Refused.
Arguments Accepted {M}.
Arguments Refused {M}.

(** hand-written model of the storing step *)
Definition lme_fit_store_2 (ages : list Q) (f : sm_result mat2) : fit_outcome mat2 :=
  match inv2 (sm_cov_re_unscaled_2 f) with
  | Ok ci => Accepted (LmeStored (np_mean ages) (np_var ages) (sm_fe f) (sm_cov_re f) ci (sm_scale f))
  | Err _ => Refused
  end.

Definition lme_fit_store_1 (ages : list Q) (f : sm_result Q) : fit_outcome Q :=
  if Qeq_bool (sm_cov_re_unscaled_1 f) 0 then Refused
  else Accepted (LmeStored (np_mean ages) (np_var ages) (sm_fe f) (sm_cov_re f) (/ sm_cov_re_unscaled_1 f) (sm_scale f)).

(** the parameters handed to personalisation: with random slope the 2x2 inverse, without it the scalar in [m11] *)
Definition params_of_2 (s : lme_stored mat2) (ages_std : Q) : lme_params :=
  LmeParams (st_ages_mean s) ages_std (fst (st_fe s)) (snd (st_fe s)) (st_cov_inv s).
Definition params_of_1 (s : lme_stored Q) (ages_std : Q) : lme_params :=
  LmeParams (st_ages_mean s) ages_std (fst (st_fe s)) (snd (st_fe s)) (Mat2 (st_cov_inv s) 0 0 1).

(** which source expression is stored under which key (normalised python source) *)
Definition fit_table : list (string * string) :=
  [("ages_mean", "np.mean(ages).item()"); ("ages_std", "np.std(ages).item()");
   ("fe_params", "fitted_lme.fe_params"); ("cov_re", "fitted_lme.cov_re");
   ("cov_re_unscaled_inv", "np.linalg.inv(fitted_lme.cov_re_unscaled)");
   ("noise_std", "fitted_lme.scale ** 0.5");
   ("bse_fe", "fitted_lme.bse_fe"); ("bse_re", "fitted_lme.bse_re")]%string.

(* ------------------------------------------------------------------------------------ *)
(** * 2x2 algebra and the covariance form of the conditional mean *)

Definition mmul2 (a b : mat2) : mat2 :=
  Mat2 (m11 a * m11 b + m12 a * m21 b) (m11 a * m12 b + m12 a * m22 b)
       (m21 a * m11 b + m22 a * m21 b) (m21 a * m12 b + m22 a * m22 b).
Definition mid2 : mat2 := Mat2 1 0 0 1.
Definition meq2 (a b : mat2) : Prop := m11 a == m11 b /\ m12 a == m12 b /\ m21 a == m21 b /\ m22 a == m22 b.

(** [w] solves [(Z D Z' + I) w = r]:  entry by entry, [Z_i . (D (Z' w)) + w_i = r_i] *)
Definition cov_system2 (Z : list (Q * Q)) (D : mat2) (w r : list Q) : Prop :=
  length w = length Z /\ length r = length Z /\
  Forall2 Qeq (map (fun p => fst p + snd p) (combine (np_matvec_n2 Z (mulv D (Ztr Z w))) w)) r.

(** the conditional mean in covariance form: [D Z' w] with [w = (Z D Z' + I)^-1 r] *)
Definition cov_form2 (Z : list (Q * Q)) (D : mat2) (w : list Q) : Q * Q := mulv D (Ztr Z w).

(** one random effect *)
Definition cov_system1 (z : list Q) (d : Q) (w r : list Q) : Prop :=
  length w = length z /\ length r = length z /\
  Forall2 Qeq (map (fun p => fst p + snd p) (combine (map (fun x => x * (d * dotQ z w)) z) w)) r.
Definition cov_form1 (z : list Q) (d : Q) (w : list Q) : Q := d * dotQ z w.

(* ------------------------------------------------------------------------------------ *)
(** * checkers evaluated by vm_compute (harness/props/c20.py): the model on what statsmodels returned against what the code stored *)

Definition mat_close (tol : Q) (a b : mat2) : bool :=
  close tol (m11 a) (m11 b) && close tol (m12 a) (m12 b) && close tol (m21 a) (m21 b) && close tol (m22 a) (m22 b).

(** case: (statsmodels result, its own cov_re_unscaled, stored inverse or None = refused, tolerance) *)
Definition check_fit_store_2 (c : sm_result mat2 * mat2 * option mat2 * Q) : bool :=
  let '(f, unscaled, obs, tol) := c in
  mat_close tol (sm_cov_re_unscaled_2 f) unscaled &&
  match lme_fit_store_2 [] f, obs with
  | Accepted s, Some ci => mat_close tol (st_cov_inv s) ci
  | Refused, None => true
  | _, _ => false
  end.

Definition check_fit_store_1 (c : sm_result Q * Q * option Q * Q) : bool :=
  let '(f, unscaled, obs, tol) := c in
  close tol (sm_cov_re_unscaled_1 f) unscaled &&
  match lme_fit_store_1 [] f, obs with
  | Accepted s, Some ci => close tol (st_cov_inv s) ci
  | Refused, None => true
  | _, _ => false
  end.
