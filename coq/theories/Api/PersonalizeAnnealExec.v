(** C17 — boolean checkers (vm_compute) for runs recorded under an annealing schedule and for directed calls of the
    real estimators on synthetic histories (harness/props/c17.py).  Definitions only; no generated file is imported,
    so these run whatever happened to the translation. *)
From Coq Require Import String ZArith QArith Qabs List Bool.
From Leaspy Require Import Base.QAux Api.Personalize Api.PersonalizeExec Api.PersonalizeAnneal.
Import ListNotations.

(** a whole recorded run: the chain and the temperature_inv of every iteration (last = at the estimator) *)
Definition check_mode_annealed (n nb : Z) (tinv : list Q) (ids : list string) (l : list (list (list Q * Q * Q))) (impl : list (string * list Q)) : bool :=
  match personalize_mode_annealed (mkRun (chain_of l) (sched_of tinv)) n nb (ids_of ids) with
  | Ok out => out_eqb out impl
  | Err _ => false
  end.

Definition rows_eqb (r1 r2 : list (list Q)) : bool := list_eqb (list_eqb Qeq_bool) r1 r2.
Definition rows_close (tol : Q) (r1 r2 : list (list Q)) : bool := list_eqb (list_eqb (Qclose tol)) r1 r2.

(** directed call of `_compute_individual_parameters_from_samples_torch` on a stacked history [h] (draw, individual) *)
Definition check_est_mode (h : list (list (list Q * Q * Q))) (impl : list (list Q)) : bool :=
  match mode_posterior (map (map cell_of) h) (length impl) with
  | Ok rows => rows_eqb rows impl
  | Err _ => false
  end.

Definition check_est_mean (tol : Q) (dim : nat) (h : list (list (list Q * Q * Q))) (impl : list (list Q)) : bool :=
  match mean_posterior (map (map cell_of) h) (length impl) dim with
  | Ok rows => rows_close tol rows impl
  | Err _ => false
  end.
