(* Two concrete instances of the interface of ApiProofs.v.

   1. `Memo`: a real (tiny) memo table — a, b independent, c = a + b derived and CACHED by the first read, invalidated by
      an assignment to a or b.  All interface hypotheses (`get_transparent`, `get_determined`, `set_agree`, `set_frame`,
      `set_get`, `clone_isolated`, ...) are PROVED for it: they are jointly satisfiable by a state whose reads do mutate it
      (non-vacuity of every theorem of Props/C11.v and Props/C13.v), and the theorems are then instantiated and run.
   2. `Shape`: values are irrelevant (unit), a read returns the slot as found.  Used to EXECUTE the scripts of ApiModel.v
      inside Coq on the set/unset pattern observed on the implementation and to compare the emitted log with the
      recorded trace (harness/props/c13.py). *)
From Coq Require Import List Arith Bool Lia ZArith.
From Leaspy Require Import Api.ApiModel Api.ApiProofs.
Import ListNotations.

Module Memo.
  Definition V := Z.
  Definition a_of (s : st V) := nth 0 s None.
  Definition b_of (s : st V) := nth 1 s None.
  Definition c_of (s : st V) := nth 2 s None.
  Definition sum (a b : option Z) : option Z :=
    match a, b with Some x, Some y => Some (x + y)%Z | _, _ => None end.

  Definition sread (s : st V) (n : nat) : st V * option V :=
    match n with
    | 0 => (s, a_of s)
    | 1 => (s, b_of s)
    | 2 => match c_of s with
           | Some v => (s, Some v)
           | None => ([a_of s; b_of s; sum (a_of s) (b_of s)], sum (a_of s) (b_of s))
           end
    | _ => (s, None)
    end.
  Definition swrite (s : st V) (n : nat) (v : option V) : st V :=
    match n with
    | 0 => [v; b_of s; None]
    | 1 => [a_of s; v; None]
    | _ => s
    end.
  Definition sclone (s : st V) : st V := s.
  Definition anc (n : nat) : list nat := match n with 0 => [0] | 1 => [1] | 2 => [0; 1] | _ => [] end.
  Definition indep (n : nat) : bool := n <? 2.

  Definition wf (s : st V) : Prop := s = [a_of s; b_of s; c_of s] /\ (c_of s = None \/ c_of s = sum (a_of s) (b_of s)).
  Definition simOn (P : view) (s s' : st V) : Prop :=
    wf s /\ wf s' /\ (P 0 = true -> a_of s = a_of s') /\ (P 1 = true -> b_of s = b_of s').

  Lemma sim_sym P s s' : simOn P s s' -> simOn P s' s.
  Proof. intros (A & B & C & D); split; [exact B|]; split; [exact A|]; split; intros; symmetry; auto. Qed.
  Lemma sim_trans P s1 s2 s3 : simOn P s1 s2 -> simOn P s2 s3 -> simOn P s1 s3.
  Proof. intros (A & B & C & D) (A' & B' & C' & D'); split; [exact A|]; split; [exact B'|]; split; intros; [rewrite C, C' by auto | rewrite D, D' by auto]; reflexivity. Qed.
  Lemma sim_mono (P Q : view) s s' : (forall m, Q m = true -> P m = true) -> simOn P s s' -> simOn Q s s'.
  Proof. intros H (A & B & C & D); split; [exact A|]; split; [exact B|]; split; intros; auto. Qed.

  Lemma wf_read s n : wf s -> wf (fst (sread s n)) /\ a_of (fst (sread s n)) = a_of s /\ b_of (fst (sread s n)) = b_of s.
  Proof.
    intros W. destruct n as [|[|[|n]]]; simpl; auto.
    destruct (c_of s) eqn:Ec; simpl; auto.
    split; [|split; reflexivity]. unfold wf; simpl. split; auto.
  Qed.

  Lemma get_transparent P s n : simOn P s s -> simOn P (fst (sread s n)) s.
  Proof. intros (A & _ & _ & _). destruct (wf_read s n A) as (W & Ea & Eb). split; [exact W|]. split; [exact A|]. split; intros; auto. Qed.

  Lemma read2 s : wf s -> snd (sread s 2) = sum (a_of s) (b_of s).
  Proof. intros (E & [C|C]); simpl; rewrite C; simpl; auto. destruct (sum (a_of s) (b_of s)); auto. Qed.

  Lemma get_determined P s s' n : simOn P s s' -> forallb P (anc n) = true -> snd (sread s n) = snd (sread s' n).
  Proof.
    intros (A & B & C & D) H. destruct n as [|[|[|n]]]; simpl in H.
    - simpl. apply C. destruct (P 0); auto; discriminate.
    - simpl. apply D. destruct (P 1); auto; discriminate.
    - rewrite !read2 by auto. destruct (P 0), (P 1); try discriminate. rewrite C, D; auto.
    - reflexivity.
  Qed.

  Lemma wf_write s n v : wf s -> wf (swrite s n v).
  Proof. intros (E & C). destruct n as [|[|n]]; simpl; unfold wf; simpl; auto. Qed.

  Lemma set_agree P s s' n v : simOn P s s' -> simOn (vadd n P) (swrite s n v) (swrite s' n v).
  Proof.
    intros (A & B & C & D). split; [apply wf_write; auto|]. split; [apply wf_write; auto|].
    destruct n as [|[|n]]; simpl; unfold vadd; simpl; split; auto.
  Qed.

  Lemma set_frame (P : view) s n v : simOn P s s -> P n = false -> simOn P (swrite s n v) s.
  Proof.
    intros (A & _ & _ & _) H. split; [apply wf_write; auto|]. split; auto.
    destruct n as [|[|n]]; simpl; split; auto; intros; congruence.
  Qed.

  Lemma set_get P s n v : simOn P s s -> indep n = true -> snd (sread (swrite s n v) n) = v.
  Proof. intros _ H. destruct n as [|[|n]]; simpl in *; auto; discriminate. Qed.

  Lemma clone_isolated P s : simOn P s s -> simOn P (sclone s) s.
  Proof. auto. Qed.

  Lemma anc_indep n : indep n = true -> anc n = [n].
  Proof. destruct n as [|[|n]]; simpl; auto; discriminate. Qed.

  Definition tracked := [2].
  Definition tape (g : gen) (i : nat) : V := (Z.of_nat i * 3 + match g with GPy => 0 | GNp => 1 | GTorch => 2 end)%Z.
  Definition seed_pos (g : gen) (s : nat) : nat := 1000 * s.

  Definition exec := exec V sread swrite sclone tracked tape seed_pos.
  Definition fit_run := fit_run V sread swrite sclone tracked tape seed_pos.

  (* a run: a := draw; b := a-read + draw ...; observers read the derived c (which FILLS the cache of the model's state),
     save, clone and assign on the clone *)
  Definition s0 : st V := [Some 1%Z; Some 10%Z; None].
  Definition c0 : cfg V := Cfg [s0] 0 (5, 6, 7) [] [].
  Definition hd_or (r : regs V) : option V := match r with x :: _ => x | [] => None end.
  Definition iter1 : list (ev V) :=
    [EGet Cur 2; EDraw GTorch (fun _ => true); ESet Cur 0 hd_or; EGet Cur 2; EDraw GPy (fun _ => true); ESet Cur 1 hd_or].
  Definition obs1 : list (ev V) := [EGet Cur 2; ESave Cur; EClone Cur; ESet (Loc 0) 0 (fun _ => Some 99%Z); EGet (Loc 0) 2].
  Definition sched1 (i : nat) : list (list (ev V)) := if Nat.even i then [obs1; obs1] else [obs1].
  Definition fin1 : list (ev V) := [EClone Cur; ESet (Loc 0) 1 (fun _ => Some 0%Z); EReplace (Loc 0); EGet Cur 2].

  Definition final_view (o : option (cfg V)) :=
    match o with
    | None => None
    | Some c => Some (map (fun s => (snd (sread s 0), snd (sread s 1), snd (sread s 2))) (cS c), cCur c, cPos c, cRegs c, cLog c)
    end.

  Example observers_fill_the_cache :
    (* the observer DOES mutate the model's State object (the derived slot is filled) ... *)
    option_map (fun c => cS c) (run_obs V sread swrite sclone tracked tape seed_pos obs1 c0) = Some [[Some 1; Some 10; Some 11]]%Z
    /\ read_only V obs1 = true.
  Proof. split; vm_compute; reflexivity. Qed.

  Example logged_equals_plain :
    (* ... and yet every read, the registers, the log and the generator positions of the logged run are those of the plain one *)
    final_view (fit_run 1 3 [] [iter1; iter1; iter1] fin1 sched1 c0)
    = final_view (fit_run 1 3 [] [iter1; iter1; iter1] fin1 (no_observers V) c0)
    /\ final_view (fit_run 1 3 [] [iter1; iter1; iter1] fin1 sched1 c0) <> None.
  Proof. split; vm_compute; [reflexivity | discriminate]. Qed.

  Example drawing_observer_is_visible :
    (* an observer that draws is not read-only and does change the outcome *)
    let bad := [EDraw GTorch (fun _ => true)] in
    read_only V bad = false /\
    final_view (fit_run 1 3 [] [iter1; iter1] fin1 (fun _ => [bad]) c0)
    <> final_view (fit_run 1 3 [] [iter1; iter1] fin1 (no_observers V) c0).
  Proof. split; vm_compute; [reflexivity | discriminate]. Qed.

  Example wf_c0 : wf_cfg V simOn c0.
  Proof.
    intros k s H. destruct k as [|[|k]]; simpl in H; inversion H; subst.
    unfold simOn, wf, s0; simpl. repeat split; auto.
  Qed.

  (* ---- C13: scipy_minimize starts from whatever individual value the model's state holds.
     Variable 0 plays xi (individual), variable 1 the model parameter (kept); the optimiser oracle returns a function
     of its start point (here: the start point itself).  `after_fit` still holds the first training individual's xi = 5,
     `after_load` holds none: same kept variables, different result. *)
  Definition api_call := api_call V sread swrite sclone tracked tape seed_pos.
  Definition kept : view := fun m => m =? 1.
  Definition opt (r : regs V) : option V := hd_or r.
  Definition scipy : list (ev V) := scipy_script V [] 0 0 [0] opt.
  Definition after_fit : st V := [Some 5%Z; Some 10%Z; None].
  Definition after_load : st V := [None; Some 10%Z; None].

  Example scipy_start_refuted :
    simOn kept after_fit after_load
    /\ option_map (fun c => cRegs c) (api_call scipy after_fit (0, 0, 0))
       <> option_map (fun c => cRegs c) (api_call scipy after_load (0, 0, 0))
    /\ flow_all V anc 1 ([kept], 0) scipy = None
    /\ option_map (fun c => hd_or (cRegs c)) (api_call scipy after_fit (0, 0, 0)) = Some (Some 5%Z).
  Proof.
    split; [|split; [|split]].
    - unfold simOn, wf, after_fit, after_load, kept; simpl. repeat split; auto; intros; discriminate.
    - vm_compute. discriminate.
    - vm_compute. reflexivity.
    - vm_compute. reflexivity.
  Qed.

  (* the same call through a state cleaned by an MCMC personalisation (individual variables unset) agrees with the loaded model *)
  Example scipy_after_clean_agrees :
    option_map (fun c => cRegs c) (api_call scipy [None; Some 10%Z; Some 3%Z] (0, 0, 0))
    = option_map (fun c => cRegs c) (api_call scipy after_load (0, 0, 0)).
  Proof. vm_compute. reflexivity. Qed.

  (* non-vacuity of the C13 statements: an estimate and an MCMC personalisation on the memo table *)
  Definition est : list (ev V) := estimate_script V 0 2 (Some 7%Z) [].
  Example estimate_runs :
    option_map (fun c => (cRegs c, nth_error (cS c) 0)) (api_call est after_fit (0, 0, 0))
    = Some ([Some 17%Z], Some after_fit)
    /\ forallb (vadds (map fst (@nil (nat * option V))) (vadd 0 kept)) (anc 2) = true.
  Proof. split; vm_compute; reflexivity. Qed.

  Definition mcmc : list (ev V) :=
    mcmc_script V [] [(0, fun _ => Some 0%Z)]
                [EGet Cur 2; EDraw GTorch (fun _ => true); ESet Cur 0 hd_or; EGet Cur 2] [] [0].
  Example mcmc_runs :
    option_map (fun c => (cCur c, option_map (fun s => (snd (sread s 0), snd (sread s 1))) (model_state V c)))
               (api_call mcmc after_fit (0, 0, 0))
    = Some (1, Some (None, Some 10%Z)).
  Proof. vm_compute; reflexivity. Qed.

  (* the interface holds for this memo table *)
  Lemma interface : state_interface V sread swrite sclone anc indep simOn.
  Proof.
    constructor.
    - exact sim_sym. - exact sim_trans. - exact sim_mono. - exact get_transparent. - exact get_determined.
    - exact set_agree. - exact set_frame. - exact set_get. - exact clone_isolated. - exact anc_indep.
  Qed.
End Memo.

Module Shape.
  Definition V := unit.
  Definition sread (s : st V) (n : nat) : st V * option V := (s, nth n s None).
  Definition swrite (s : st V) (n : nat) (v : option V) : st V := upd s n v.
  Definition sclone (s : st V) : st V := s.
  Definition tape (g : gen) (i : nat) : V := tt.
  Definition seed_pos (g : gen) (s : nat) : nat := 0.
  Definition exec tracked := exec V sread swrite sclone tracked tape seed_pos.
End Shape.
