(** C20 (extension, T1) — the VOCABULARY of the source-level translation (harness/translate/c20_bench.py).
    Definitions only (proofs: BenchSrcTie.v).

    Each definition is the exact-arithmetic meaning given to ONE python / numpy / statsmodels primitive that occurs
    in the five translated functions; the regenerated file coq/gen/GenC20.v is a composition of these and nothing else.
    A NaN is [None], numbers are rationals, numpy's exceptions and non-finite results are explicit [Err] values.
    These meanings are trusted (they are what the executed correspondence T2 exercises on every run); what the
    translation adds is WHICH primitive the code calls, on what, in what order, with which constants. *)
From Coq Require Import String QArith List Bool Arith.
From Leaspy Require Import Base.QAux Api.Bench.
Import ListNotations.
Open Scope Q_scope.

(* ------------------------------------------------------------------------------------ *)
(** * python sequences *)

(** [l[i]] (IndexError -> [Err Empty] on an empty sequence position) *)
Definition py_index {A} (l : list A) (i : nat) : res A :=
  match nth_error l i with Some a => Ok a | None => Err Empty end.

(** stable ascending insertion sort on the key (python's [sorted] is stable; with [reverse=True] it is
    stable too: equal keys keep their input order) *)
Fixpoint insert_asc {A} (r : Q * A) (l : list (Q * A)) : list (Q * A) :=
  match l with
  | [] => [r]
  | x :: l' => if Qle_bool (fst r) (fst x) then r :: l else x :: insert_asc r l'
  end.
Fixpoint sort_asc {A} (l : list (Q * A)) : list (Q * A) :=
  match l with
  | [] => []
  | r :: l' => insert_asc r (sort_asc l')
  end.

(** [sorted(range(len(times)), key=times.__getitem__, reverse=rev)] : the indices 0..n-1 ordered by their time *)
Definition py_sorted_range (rev : bool) (times : list Q) : list nat :=
  let keyed := combine times (seq 0 (length times)) in
  map snd (if rev then sort_desc keyed else sort_asc keyed).

(** [[x] * n] *)
Definition py_list_repeat {A} (x : A) (n : nat) : list A := repeat x n.

(** [d[key]] on a dict given as an association list (KeyError -> [Err Shape]) *)
Fixpoint py_dict_get (d : list (string * Q)) (key : string) : res Q :=
  match d with
  | [] => Err Shape
  | (k, v) :: d' => if String.eqb k key then Ok v else py_dict_get d' key
  end.

(* ------------------------------------------------------------------------------------ *)
(** * numpy on a 2-D array of values with NaN: [V : list (list value)], one row per visit *)

Definition np_isnan (v : value) : bool := match v with None => true | Some _ => false end.

(** [V[i]] for an integer [i] *)
Definition np_row {A} (V : list A) (i : nat) : res A :=
  match nth_error V i with Some r => Ok r | None => Err Shape end.

(** [V[idx]] for a list of integers (fancy indexing on axis 0) *)
Definition np_take {A} (V : list A) (idx : list nat) : res (list A) := mapM (np_row V) idx.

(** column [j] (a row without entry [j] cannot occur in a numpy array: explicit error) *)
Definition vcolumn (j : nat) (V : list (list value)) : res (list value) :=
  mapM (fun row => match nth_error row j with Some v => Ok v | None => Err Ragged end) V.

(** a reduction [f(..., axis=0)] of a [(n, d)] array: [f] on each of the [d] columns *)
Definition np_axis0 {X} (d : nat) (f : list value -> res X) (V : list (list value)) : res (list X) :=
  mapM (fun j => rbind (vcolumn j V) f) (seq 0 d).

(** the non-NaN entries of a 1-D array, in order *)
Fixpoint np_present (c : list value) : list Q :=
  match c with
  | [] => []
  | Some x :: c' => x :: np_present c'
  | None :: c' => np_present c'
  end.

(** [numpy.nanmax] of one column: NaN (RuntimeWarning) when all-NaN, ValueError on a zero-size array *)
Definition np_nanmax1 (c : list value) : res value :=
  match c with
  | [] => Err Empty
  | _ => match np_present c with
         | [] => Ok None
         | x :: xs => Ok (Some (fold_left qmax2 xs x))
         end
  end.

(** [numpy.max] of one column: NaN as soon as one entry is NaN *)
Definition np_max1 (c : list value) : res value :=
  if existsb np_isnan c then (match c with [] => Err Empty | _ => Ok None end) else np_nanmax1 c.

(** [numpy.nanmean] of one column: NaN (RuntimeWarning) when there is no non-NaN entry, also on a zero-size array *)
Definition np_nanmean1 (c : list value) : res value :=
  match np_present c with
  | [] => Ok None
  | xs => Ok (Some (sumQ xs / Qnat (length xs)))
  end.

(** [numpy.mean] of one column *)
Definition np_mean1 (c : list value) : res value :=
  if existsb np_isnan c then Ok None else np_nanmean1 c.

(** [b.argmax()] of one boolean column: first [True], 0 when none, ValueError on an empty sequence *)
Definition np_argmax1 (b : list bool) : res nat :=
  match b with [] => Err Empty | _ => Ok (argmax_first b) end.

(** [V[ix, range(d)]] : entry [(ix[j], j)] for every column [j] *)
Definition np_pick (d : nat) (V : list (list value)) (ix : list nat) : res (list value) :=
  mapM (fun j => rbind (np_row ix j) (fun i => rbind (np_row V i) (fun row =>
                 match nth_error row j with Some v => Ok v | None => Err Ragged end))) (seq 0 d).

(* ------------------------------------------------------------------------------------ *)
(** * numpy on 1-D arrays of numbers and small dense matrices (LME) *)

(** [x[mask]] for a boolean mask *)
Fixpoint np_compress {A} (m : list bool) (xs : list A) : list A :=
  match m, xs with
  | b :: m', x :: xs' => if b then x :: np_compress m' xs' else np_compress m' xs'
  | _, _ => []
  end.

(** [v - s], [v / s] (a zero divisor gives non-finite entries: explicit error [e]), [a - b] elementwise *)
Definition np_sub_s (v : list Q) (s : Q) : list Q := map (fun x => x - s) v.
Definition np_div_s (e : err) (v : list Q) (s : Q) : res (list Q) :=
  if Qeq_bool s 0 then Err e else Ok (map (fun x => x / s) v).
Definition np_vsub (a b : list Q) : list Q := map (fun p => fst p - snd p) (combine a b).
Definition q_div (e : err) (a b : Q) : res Q := if Qeq_bool b 0 then Err e else Ok (a / b).

(** [statsmodels.api.add_constant(v, prepend=True, has_constant="add")] : a column of ones in front
    (ValueError on an empty array) *)
Definition sm_add_constant (v : list Q) : res (list (Q * Q)) :=
  match v with [] => Err Empty | _ => Ok (map (fun a => (1, a)) v) end.

(** [X @ b] for [X : (n, 2)], [b : (2,)] *)
Definition np_matvec_n2 (X : list (Q * Q)) (b : Q * Q) : list Q := map (fun x => fst x * fst b + snd x * snd b) X.
Definition np_add_k_2 (a b : Q * Q) : Q * Q := (fst a + fst b, snd a + snd b).

(** two random effects: [Z : (n, 2)] stored by rows; [A.T] is denoted by the array it transposes *)
Definition np_dot_T_2 (A B : list (Q * Q)) : mat2 :=
  Mat2 (dotQ (map fst A) (map fst B)) (dotQ (map fst A) (map snd B))
       (dotQ (map snd A) (map fst B)) (dotQ (map snd A) (map snd B)).
Definition np_dot_Tv_2 (A : list (Q * Q)) (r : list Q) : res (Q * Q) :=
  if (length A =? length r)%nat then Ok (dotQ (map fst A) r, dotQ (map snd A) r) else Err Shape.
Definition np_add_kk_2 : mat2 -> mat2 -> mat2 := madd.
Definition np_dot_kk_k_2 : mat2 -> Q * Q -> Q * Q := mulv.
Definition np_inv_2 : mat2 -> res mat2 := inv2.

Definition mzero2 (m : mat2) : bool := Qeq_bool (m11 m) 0 && Qeq_bool (m12 m) 0 && Qeq_bool (m21 m) 0 && Qeq_bool (m22 m) 0.
(** [numpy.linalg.pinv] (never raises): the inverse when regular, 0 for 0, [A' / |A|_F^2] for a matrix of rank one *)
Definition np_pinv_2 (m : mat2) : res mat2 :=
  match inv2 m with
  | Ok g => Ok g
  | Err _ => if mzero2 m then Ok m else
             let f := m11 m * m11 m + m12 m * m12 m + m21 m * m21 m + m22 m * m22 m in
             Ok (Mat2 (m11 m / f) (m21 m / f) (m12 m / f) (m22 m / f))
  end.

(** one random effect: [Z : (n, 1)] is a list, a [(1, 1)] matrix is a number *)
Definition np_dot_T_1 (A B : list Q) : Q := dotQ A B.
Definition np_dot_Tv_1 (A : list Q) (r : list Q) : res Q :=
  if (length A =? length r)%nat then Ok (dotQ A r) else Err Shape.
Definition np_add_kk_1 : Q -> Q -> Q := Qplus.
Definition np_dot_kk_k_1 : Q -> Q -> Q := Qmult.
Definition np_inv_1 (a : Q) : res Q := if Qeq_bool a 0 then Err Singular else Ok (/ a).
Definition np_pinv_1 (a : Q) : res Q := Ok (if Qeq_bool a 0 then 0 else / a).

(** [numpy.mean], and the SQUARE of [numpy.std] (population variance, ddof = 0) of a 1-D array *)
Definition np_mean (v : list Q) : Q := sumQ v / Qnat (length v).
Definition np_var (v : list Q) : Q := sumQ (map (fun x => (x - np_mean v) * (x - np_mean v)) v) / Qnat (length v).
