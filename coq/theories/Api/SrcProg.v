(* C13 — the public calls as SOURCE-LEVEL programs (definitions only; proofs: SrcProgProofs.v, tie: SrcProgTie.v,
   SrcProgGenProofs.v).

   `coq/gen/GenC13.v` is regenerated on every run by harness/translate/c13_calls.py from the python `ast` of
     models/base.py (estimate, personalize, simulate), models/mcmc_saem_compatible.py + models/joint.py
     (compute_individual_trajectory, put_data_variables, reset_data_variables, _put_data_timepoints), algo/base.py (run,
     _initialize_seed, deepcopy of the settings), algo/personalize/base.py, mcmc.py, scipy_minimize.py, algo/simulate/*.py,
     variables/state.py (put_individual_latent_variables)
   as values of type [prog]: a list of statements over NAMED python objects.  Which `State` object a statement addresses is
   an [sobj] — `model.state` itself, a local python name, or the entry of a per-individual dictionary — exactly as written
   in the source; [denote] resolves the names (aliases of `model.state`, clones, `model.state = x`) and produces the event
   script of ApiModel.v for ANY instance [inst] (number of individuals, variable lists, values, and the activity of the
   optimiser / samplers, which is arbitrary but CONFINED to the object the source hands them).

   Nothing is totalised: a name that is not bound, an alias of the former `model.state` used after `model.state = x`,
   a clone into an indexed dictionary whose numbering does not match give [None]. *)
From Coq Require Import List Arith Bool String.
From Leaspy Require Import Api.ApiModel Api.ApiCalls.
Import ListNotations.

(* which State object *)
Inductive sobj :=
| OModel                 (* `model.state` / `self.state` / `self._state`, evaluated where the statement stands *)
| OVar (x : string)      (* a local python name *)
| OAt (x : string).      (* `x[idx]`: the entry of the dictionary x for the individual of the enclosing loop *)

(* which variables *)
Inductive vgroup :=
| GName (s : string)     (* one literal variable name *)
| GObs                   (* `obs_model.name for obs_model in model.obs_models` *)
| GInd                   (* the individual latent variables of the DAG (sorted) *)
| GKeys (s : string)     (* the keys of the python dictionary s (individual parameters given by the caller / just computed) *)
| GParams                (* `model.parameters` : every model parameter *)
| GHyper                 (* `model.hyperparameters` *)
| GScal.                 (* what `_AffineScalings1D.from_state` reads: the prior parameters of the individual variables *)

(* which value *)
Inductive vsrc :=
| VNone                  (* `= None` *)
| VIn (lbl : string)     (* a value computed from the caller's inputs only (label = source text) *)
| VInit.                 (* `var.get_init_func(method, ...).call(state)`: reads on the same state, then the assignment *)

Inductive atom :=
| ASeed                                   (* BaseAlgorithm._initialize_seed: random, numpy, torch *)
| AAlias (x : string) (o : sobj)          (* x = o  (no State operation) *)
| AClone (dst src : sobj)                 (* dst = src.clone(...) *)
| APut (o : sobj) (g : vgroup) (v : vsrc) (* o[n] = v  for n in g *)
| AGet (o : sobj) (g : vgroup)            (* o[n]      for n in g *)
| AWork (tag : string) (o : sobj)         (* optimiser / samplers / model-specific initialisation: any reads, assignments and
                                             draws, all on o *)
| ADraws (tag : string) (g : gen)         (* draws from a global generator (data-dependent number) *)
| ASetModel (o : sobj)                    (* model.state = o *)
| AFork (o : sobj) (enter : bool).        (* with o.auto_fork(None): enter / exit  (no State operation in ApiModel.v) *)

Inductive stmt :=
| SAtom (a : atom)
| SForInd (body : list atom)              (* once per individual / request, in the order of the input *)
| SRepeat (tag : string) (body : list atom). (* a data-dependent number of times *)

Definition prog := list stmt.

(* how a python name is bound *)
Inductive bind :=
| BModel                 (* an alias of `model.state` AS IT WAS when bound *)
| BRef (i : nat)         (* the i-th State created by the call *)
| BIdx (base stride : nat). (* dictionary: entry of individual j = State number base + j * stride *)

Definition env := list (string * bind).
Fixpoint lookup (e : env) (x : string) : option bind :=
  match e with
  | [] => None
  | (y, b) :: t => if String.eqb x y then Some b else lookup t x
  end.

Record dst := Dst { d_env : env; d_next : nat; d_repl : bool }.

Definition resolve_obj (d : dst) (j : nat) (o : sobj) : option ref :=
  match o with
  | OModel => Some Cur
  | OVar x => match lookup (d_env d) x with
              | Some BModel => if d_repl d then None else Some Cur
              | Some (BRef i) => Some (Loc i)
              | _ => None
              end
  | OAt x => match lookup (d_env d) x with
             | Some (BIdx b s) => Some (Loc (b + j * s))
             | _ => None
             end
  end.

Fixpoint count_clones (l : list atom) : nat :=
  match l with
  | [] => 0
  | AClone _ _ :: t => S (count_clones t)
  | _ :: t => count_clones t
  end.

(* the dictionaries filled by the clones of a loop body: x[idx] = ....clone() *)
Fixpoint idx_binds (l : list atom) (next stride : nat) : env :=
  match l with
  | [] => []
  | AClone (OAt x) _ :: t => (x, BIdx next stride) :: idx_binds t (S next) stride
  | AClone _ _ :: t => idx_binds t (S next) stride
  | _ :: t => idx_binds t next stride
  end.

Section Src.
  Variable V : Type.
  Notation ev := (ev V).

  (* an operation of an opaque activity, relative to the object it is confined to *)
  Inductive lop :=
  | LGet (n : nat)
  | LSet (n : nat) (f : regs V -> option V)
  | LSetIf (n : nat) (f : regs V -> option (option V))
  | LDraw (g : gen) (b : regs V -> bool).

  Definition lop_on (r : ref) (l : lop) : ev :=
    match l with
    | LGet n => EGet r n
    | LSet n f => ESet r n f
    | LSetIf n f => ESetIf r n f
    | LDraw g b => EDraw g b
    end.

  (* assignments of an opaque activity concern variables of W only *)
  Definition lop_writes_in (W : nat -> bool) (l : lop) : bool :=
    match l with LSet n _ | LSetIf n _ => W n | _ => true end.

  Record inst := Inst {
    i_name : string -> nat;                        (* index of a variable name *)
    i_obs : list nat;
    i_ind : list nat;
    i_params : list nat;
    i_hyper : list nat;
    i_scal : list nat;
    i_keys : string -> nat -> list nat;            (* dictionary, individual -> its keys *)
    i_seed : nat;
    i_n : nat;                                     (* number of individuals / requests *)
    i_val : string -> nat -> nat -> option V;      (* label, individual, variable -> value taken from the inputs *)
    i_reads : nat -> list nat;                     (* what the initialisation function of an individual variable reads *)
    i_init : nat -> regs V -> option V;            (* ... and the value it gives, a function of what was read *)
    i_work : string -> nat -> list lop;            (* tag, individual -> the opaque activity *)
    i_rep : string -> nat -> nat                   (* tag, individual -> number of repetitions / draws *)
  }.

  Definition vars (I : inst) (j : nat) (g : vgroup) : list nat :=
    match g with
    | GName s => [i_name I s]
    | GObs => i_obs I
    | GInd => i_ind I
    | GKeys s => i_keys I s j
    | GParams => i_params I
    | GHyper => i_hyper I
    | GScal => i_scal I
    end.

  Definition always : regs V -> bool := fun _ => true.

  Definition put_evs (I : inst) (r : ref) (j : nat) (g : vgroup) (v : vsrc) : list ev :=
    match v with
    | VNone => map (fun n => ESet r n (konst V None)) (vars I j g)
    | VIn lbl => map (fun n => ESet r n (konst V (i_val I lbl j n))) (vars I j g)
    | VInit => flat_map (fun n => map (fun m => EGet r m) (i_reads I n) ++ [ESet r n (i_init I n)]) (vars I j g)
    end.

  Definition bind_of (d : dst) (r : ref) : bind := match r with Cur => BModel | Loc i => BRef i end.

  Definition denote_atom (I : inst) (d : dst) (j : nat) (a : atom) : option (list ev * dst) :=
    match a with
    | ASeed => Some (seed_all V (i_seed I), d)
    | AAlias x o =>
        match resolve_obj d j o with
        | Some r => Some ([], Dst ((x, bind_of d r) :: d_env d) (d_next d) (d_repl d))
        | None => None
        end
    | AClone dst src =>
        match resolve_obj d j src with
        | None => None
        | Some r =>
            match dst with
            | OModel => None
            | OVar x => Some ([EClone r], Dst ((x, BRef (d_next d)) :: d_env d) (S (d_next d)) (d_repl d))
            | OAt x =>
                match lookup (d_env d) x with
                | Some (BIdx b s) => if b + j * s =? d_next d then Some ([EClone r], Dst (d_env d) (S (d_next d)) (d_repl d)) else None
                | _ => None
                end
            end
        end
    | APut o g v => match resolve_obj d j o with Some r => Some (put_evs I r j g v, d) | None => None end
    | AGet o g => match resolve_obj d j o with Some r => Some (map (fun n => EGet r n) (vars I j g), d) | None => None end
    | AWork tag o => match resolve_obj d j o with Some r => Some (map (lop_on r) (i_work I tag j), d) | None => None end
    | ADraws tag g => Some (repeat (EDraw g always) (i_rep I tag j), d)
    | ASetModel o =>
        match resolve_obj d j o with
        | Some (Loc i) => Some ([EReplace (Loc i)], Dst (d_env d) (d_next d) true)
        | _ => None                    (* `model.state = model.state`: not a script of the model *)
        end
    | AFork o _ => match resolve_obj d j o with Some _ => Some ([], d) | None => None end
    end.

  Fixpoint denote_atoms (I : inst) (d : dst) (j : nat) (l : list atom) : option (list ev * dst) :=
    match l with
    | [] => Some ([], d)
    | a :: t =>
        match denote_atom I d j a with
        | None => None
        | Some (e1, d1) =>
            match denote_atoms I d1 j t with
            | None => None
            | Some (e2, d2) => Some (e1 ++ e2, d2)
            end
        end
    end.

  (* iterations j, j+1, ..., j+count-1; the local names of an iteration do not survive it *)
  Fixpoint denote_loop (I : inst) (body : list atom) (d : dst) (j count : nat) : option (list ev * dst) :=
    match count with
    | 0 => Some ([], d)
    | S c =>
        match denote_atoms I d j body with
        | None => None
        | Some (e1, d1) =>
            match denote_loop I body (Dst (d_env d) (d_next d1) (d_repl d1)) (S j) c with
            | None => None
            | Some (e2, d2) => Some (e1 ++ e2, d2)
            end
        end
    end.

  Definition denote_stmt (I : inst) (d : dst) (s : stmt) : option (list ev * dst) :=
    match s with
    | SAtom a => denote_atom I d 0 a
    | SForInd body =>
        denote_loop I body (Dst (idx_binds body (d_next d) (count_clones body) ++ d_env d) (d_next d) (d_repl d)) 0 (i_n I)
    | SRepeat tag body =>
        denote_loop I body (Dst (idx_binds body (d_next d) (count_clones body) ++ d_env d) (d_next d) (d_repl d)) 0 (i_rep I tag 0)
    end.

  Fixpoint denote_from (I : inst) (d : dst) (p : prog) : option (list ev * dst) :=
    match p with
    | [] => Some ([], d)
    | s :: t =>
        match denote_stmt I d s with
        | None => None
        | Some (e1, d1) =>
            match denote_from I d1 t with
            | None => None
            | Some (e2, d2) => Some (e1 ++ e2, d2)
            end
        end
    end.

  Definition denote (I : inst) (p : prog) : option (list ev) :=
    match denote_from I (Dst [] 0 false) p with Some (e, _) => Some e | None => None end.

  (* ------------------------------------------------------------------ what the instance gives for the hand-written scripts *)
  Definition seq_map {A} (f : nat -> A) (j n : nat) : list A := map f (seq j n).

  (* the requests of `estimate` *)
  Definition req_of (I : inst) (tlbl iplbl keys : string) (extra : list (string * string)) (j : nat) : ereq V :=
    (i_val I tlbl j (i_name I "t"%string),
     map (fun sl => (i_name I (fst sl), i_val I (snd sl) j (i_name I (fst sl)))) extra
       ++ map (fun n => (n, i_val I iplbl j n)) (i_keys I keys j)).
End Src.

Arguments LGet {V}. Arguments LSet {V}. Arguments LSetIf {V}. Arguments LDraw {V}.

(* statements that address entries of per-individual dictionaries only (never `model.state`, whatever the names are bound to) *)
Definition at_obj (o : sobj) : bool := match o with OAt _ => true | _ => false end.
Definition atom_at (a : atom) : bool :=
  match a with
  | AClone dst _ => at_obj dst
  | APut o _ _ | AGet o _ | AWork _ o => at_obj o
  | ADraws _ _ => true
  | _ => false
  end.

(* ---------------------------------------------------------------------- footprint of a call (simulate): which operations
   on the MODEL'S OWN state and on the generators the source contains, without the data-dependent loop structure *)
Section Foot.
  Variable V : Type.
  Notation ev := (ev V).

  Definition gen_eqb (g g' : gen) : bool :=
    match g, g' with GPy, GPy | GNp, GNp | GTorch, GTorch => true | _, _ => false end.

  (* the events on the MODEL'S OWN state / the generators that a footprint atom stands for (any instance, any individual) *)
  Definition atom_covers (I : inst V) (a : atom) (e : ev) : bool :=
    match a, e with
    | ASeed, ESeed _ _ => true
    | AGet OModel g, EGet Cur n => existsb (Nat.eqb n) (vars V I 0 g)
    | APut OModel g _, ESet Cur n _ => existsb (Nat.eqb n) (vars V I 0 g)
    | APut OModel g _, ESetIf Cur n _ => existsb (Nat.eqb n) (vars V I 0 g)
    | ADraws _ g, EDraw g' _ => gen_eqb g g'
    | ASetModel _, EReplace _ => true
    | _, _ => false
    end.

  (* a script stays within a footprint: every event addresses a state created by the call (clones of anything allowed)
     or is covered by an atom of the footprint *)
  Definition within (I : inst V) (foot : list atom) (script : list ev) : bool :=
    forallb (fun e => untouched_ev V e || existsb (fun a => atom_covers I a e) foot) script.

  Definition readonly_atom (a : atom) : bool :=
    match a with ASeed | AGet _ _ | ADraws _ _ => true | _ => false end.
End Foot.

(* how the algorithm obtains ITS parameters from the caller's settings (algo/base.py, BaseAlgorithm.__init__) *)
Inductive copy_kind := CopyDeep | CopyShallow | CopyAlias.
Definition copy_of (k : copy_kind) (h : heap) (a : nat) : heap * nat :=
  match k with CopyDeep => deep_copy h a | CopyShallow => shallow_copy h a | CopyAlias => alias h a end.

(* ---------------------------------------------------------------------- the calls as the model expects them
   (reference programs: SrcProgGenProofs.v shows `gen_* = ref_*` for the programs regenerated from the source, by
   computation; SrcProgProofs.v shows what the reference programs denote, for every instance) *)
Local Open Scope string_scope.

(* BaseModel.estimate -> McmcSaemCompatibleModel.compute_individual_trajectory, one clone per request *)
Definition ref_estimate : prog :=
  [SForInd [AClone (OVar "local_state") OModel;
            APut (OVar "local_state") (GName "t") (VIn "timepoints");
            APut (OVar "local_state") (GKeys "individual_parameters") (VIn "individual_parameter_value");
            AGet (OVar "local_state") (GName "model")]].

(* ... -> JointModel.compute_individual_trajectory *)
Definition ref_estimate_joint : prog :=
  [SForInd [AClone (OVar "local_state") OModel;
            APut (OVar "local_state") (GName "t") (VIn "timepoints");
            APut (OVar "local_state") (GName "event") (VIn "WeightedTensor(timepoints.T, torch.zeros(timepoints.T.shape).bool())");
            APut (OVar "local_state") (GKeys "individual_parameters") (VIn "ip_v");
            AGet (OVar "local_state") (GName "model");
            AGet (OVar "local_state") (GName "predictions_event")]].

(* BaseModel.personalize -> BaseAlgorithm.run -> McmcPersonalizeAlgorithm._compute_individual_parameters *)
Definition ref_mcmc : prog :=
  [SAtom ASeed;
   (* _get_individual_parameters / _initialize_algo *)
   SAtom (AAlias "state" OModel);
   SAtom (AFork (OVar "state") true);
   SAtom (APut (OVar "state") (GName "t") (VIn "WeightedTensor(dataset.timepoints, dataset.mask.to(torch.bool).any(dim=LVL_FT))"));
   SAtom (APut (OVar "state") GObs (VIn "obs_model.getter(dataset)"));
   SAtom (APut (OVar "state") GInd VInit);
   SAtom (AFork (OVar "state") false);
   SAtom (AWork "sampling" (OVar "state"));
   (* _terminate_algo *)
   SAtom (AClone (OVar "model_state") (OVar "state"));
   SAtom (AFork (OVar "model_state") true);
   SAtom (APut (OVar "model_state") (GName "t") VNone);
   SAtom (APut (OVar "model_state") GObs VNone);
   SAtom (APut (OVar "model_state") GInd VNone);
   SAtom (AFork (OVar "model_state") false);
   SAtom (ASetModel (OVar "model_state"));
   (* back in _compute_individual_parameters *)
   SAtom (AClone (OVar "local_state") OModel);
   SAtom (APut (OVar "local_state") (GName "t") (VIn "WeightedTensor(dataset.timepoints, dataset.mask.to(torch.bool).any(dim=LVL_FT))"));
   SAtom (APut (OVar "local_state") GObs (VIn "obs_model.getter(dataset)"));
   SAtom (APut (OVar "local_state") (GKeys "pyt_individual_parameters") (VIn "ip_vals"))].

(* ... -> ScipyMinimizeAlgorithm._compute_individual_parameters *)
Definition ref_scipy : prog :=
  [SAtom ASeed;
   SAtom (AAlias "state" OModel);
   SAtom (AGet (OVar "state") GScal);
   SForInd [AClone (OAt "states") (OVar "state");
            APut (OAt "states") (GName "t") (VIn "WeightedTensor(dataset.timepoints, dataset.mask.to(torch.bool).any(dim=LVL_FT))");
            APut (OAt "states") GObs (VIn "obs_model.getter(dataset)");
            AWork "put_individual_parameters" (OAt "states")];
   SForInd [AWork "patient" (OAt "states")]].
