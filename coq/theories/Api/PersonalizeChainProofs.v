(** C17 — proofs about the generated chain (PersonalizeChain.v). *)
From Coq Require Import String ZArith QArith List Bool Arith Lia ZifyBool Permutation Reals Qreals.
From Leaspy Require Import Base.QAux Sampler.SamplerModel Sampler.SamplerProofs Saem.Anneal Sampler.AdaptiveStd
     Api.Personalize Api.PersonalizeProofs Api.PersonalizeChain.
Import ListNotations.

Lemma obind_done {X Y} (r : outcome X) (f : X -> outcome Y) y :
  obind r f = Done y -> exists x, r = Done x /\ f x = Done y.
Proof. destruct r; simpl; intros H; [eauto | discriminate]. Qed.

(** * set_nth *)
Lemma set_nth_length {X} i (x : X) l : length (set_nth i x l) = length l.
Proof. revert i; induction l as [|a r IH]; intros [|i]; simpl; auto. Qed.

Lemma set_nth_same {X} i (x x0 : X) l : nth_error l i = Some x0 -> nth_error (set_nth i x l) i = Some x.
Proof. revert i; induction l as [|a r IH]; intros [|i] H; simpl in *; try discriminate; auto. Qed.

Lemma set_nth_other {X} i j (x : X) l : i <> j -> nth_error (set_nth i x l) j = nth_error l j.
Proof.
  revert i j; induction l as [|a r IH]; intros [|i] [|j] H; simpl; auto; try congruence.
Qed.

Lemma set_nth_id {X} i (x : X) l : nth_error l i = Some x -> set_nth i x l = l.
Proof. revert i; induction l as [|a r IH]; intros [|i] H; simpl in *; try discriminate; [now inversion H | f_equal; auto]. Qed.

Lemma set_nth_set_nth {X} i (x y : X) l : set_nth i x (set_nth i y l) = set_nth i x l.
Proof. revert i; induction l as [|a r IH]; intros [|i]; simpl; auto. now rewrite IH. Qed.

Lemma map_set_nth {X Y} (f : X -> Y) i x l : map f (set_nth i x l) = set_nth i (f x) (map f l).
Proof. revert i; induction l as [|a r IH]; intros [|i]; simpl; auto. now rewrite IH. Qed.

Definition sumn (l : list nat) : nat := fold_right Nat.add 0%nat l.

Lemma sumn_app a b : sumn (a ++ b) = (sumn a + sumn b)%nat.
Proof. induction a; simpl; lia. Qed.

Lemma sumn_perm a b : Permutation a b -> sumn a = sumn b.
Proof. induction 1; simpl; lia. Qed.

Lemma sumn_repeat c n : sumn (repeat c n) = (n * c)%nat.
Proof. induction n; simpl; lia. Qed.

Section Generic.
  Variable A : Type.
  Variables add mul : A -> A -> A.
  Variable ofQ : Q -> A.
  Variable decide : A -> A -> A -> A -> A -> A -> bool.
  Variable att : istate A -> list A.
  Variable regv : nat -> istate A -> list A.
  Variable regsum : istate A -> list A.
  Variable scf : scfg.
  Variable acf : Anneal.cfg.
  Variable nb : Z.
  Variable random_order : bool.
  Variable n_ind : nat.

  Notation gstep := (gstep A add mul decide att regv).
  Notation sweep := (sweep A add mul ofQ decide att regv scf).
  Notation step_ok := (step_ok A add mul ofQ decide att regv).
  Notation cells := (cells A att regsum n_ind).
  Notation exec_body := (exec_body A add mul ofQ decide att regv regsum scf acf nb random_order n_ind).
  Notation run_iters := (run_iters A add mul ofQ decide att regv regsum scf acf nb random_order n_ind).
  Notation trace_ok := (trace_ok A add mul ofQ decide att regv regsum acf n_ind).
  Notation personalize_run := (personalize_run A add mul ofQ decide att regv regsum scf acf nb random_order n_ind).

  (** * decisions *)
  Lemma decisions_sound tinv : forall pa na pr nr us bs r,
    decisions A decide tinv pa na pr nr us = Some (bs, r) ->
    length bs = length pa /\ length na = length pa /\ length pr = length pa /\ length nr = length pa /\
    (length pa <= length us)%nat /\ r = skipn (length pa) us /\
    forall j u a b c d, nth_error us j = Some u -> nth_error pa j = Some a -> nth_error na j = Some b ->
                        nth_error pr j = Some c -> nth_error nr j = Some d ->
                        nth_error bs j = Some (decide u a b c d tinv).
  Proof.
    induction pa as [|a pa IH]; intros [|b na] [|c pr] [|d nr] us bs r H; simpl in H; try discriminate.
    - inversion H; subst. simpl. repeat split; auto; try lia. intros [|j] ? ? ? ? ? ? ? X; discriminate.
    - destruct us as [|u us]; [discriminate|].
      destruct (decisions A decide tinv pa na pr nr us) as [[bs' r']|] eqn:E; [|discriminate].
      inversion H; subst; clear H.
      destruct (IH _ _ _ _ _ _ E) as (L1 & L2 & L3 & L4 & L5 & L6 & Hn). simpl. repeat split; try lia; auto.
      intros [|j] u' a' b' c' d' U A' B C D; simpl in *.
      + now inversion U; inversion A'; inversion B; inversion C; inversion D; subst.
      + now apply Hn.
  Qed.

  Lemma decisions_total tinv : forall pa na pr nr us,
    length na = length pa -> length pr = length pa -> length nr = length pa -> (length pa <= length us)%nat ->
    exists bs r, decisions A decide tinv pa na pr nr us = Some (bs, r).
  Proof.
    induction pa as [|a pa IH]; intros [|b na] [|c pr] [|d nr] us H1 H2 H3 H4; simpl in *; try discriminate; [eauto|].
    destruct us as [|u us]; [simpl in H4; lia|].
    destruct (IH na pr nr us) as (bs & r & E); try lia. { simpl in H4; lia. }
    rewrite E. eauto.
  Qed.

  Lemma gmix_nth : forall acc old new j b o n,
    nth_error acc j = Some b -> nth_error old j = Some o -> nth_error new j = Some n ->
    nth_error (gmix A acc old new) j = Some (if b then n else o).
  Proof.
    induction acc as [|b0 acc IH]; intros [|o0 old] [|n0 new] [|j] b o n Ha Ho Hn; simpl in *; try discriminate.
    - now inversion Ha; inversion Ho; inversion Hn; subst.
    - now apply IH.
  Qed.

  Lemma gmix_length : forall acc old new,
    length acc = length old -> length new = length old -> length (gmix A acc old new) = length old.
  Proof.
    induction acc as [|b acc IH]; intros [|o old] [|n new] H1 H2; simpl in *; try discriminate; auto.
  Qed.

  (** the proposal keeps the number of coordinates of every row *)
  Lemma add_noise_size sd (t t' : tens A) zs zs' : add_noise add mul sd t zs = Some (t', zs') -> size t' = size t.
  Proof.
    intros H. destruct (add_noise_sound add mul _ _ _ _ _ H) as (L & _ & F & _).
    unfold size at 1. rewrite F. rewrite noise_flat_length; [reflexivity|].
    rewrite firstn_length. unfold size in *. lia.
  Qed.

  Lemma add_noise_rows_sizes : forall sds rows zs rows' zs',
    add_noise_rows add mul sds rows zs = Some (rows', zs') -> Forall2 (fun o n => size n = size o) rows rows'.
  Proof.
    induction sds as [|sd sds IH]; intros [|r rows] zs rows' zs' H; simpl in H; try discriminate.
    - inversion H; subst. constructor.
    - destruct (add_noise add mul sd r zs) as [[r' zs1]|] eqn:E1; [|discriminate].
      destruct (add_noise_rows add mul sds rows zs1) as [[rs' zs2]|] eqn:E2; [|discriminate].
      inversion H; subst; clear H. constructor; [eapply add_noise_size; eauto | eapply IH; eauto].
  Qed.

  Lemma gmix_size : forall acc old new,
    length acc = length old -> Forall2 (fun o n => size n = size o) old new ->
    size (Nd (gmix A acc old new)) = size (Nd old).
  Proof.
    induction acc as [|b acc IH]; intros old new L F; destruct F as [|o n old new E F]; simpl in *; try discriminate; auto.
    rewrite !size_Nd_cons. rewrite IH by (auto; lia). destruct b; lia.
  Qed.

  (** * One sampler call *)
  Lemma gstep_sound v tinv sds st tp st' tp' acc :
    gstep v tinv sds st tp = Some (st', tp', acc) ->
    exists rows rows',
      nth_error st v = Some (Nd rows) /\
      add_noise_rows add mul sds rows (normals tp) = Some (rows', normals tp') /\
      st' = set_nth v (Nd (gmix A acc rows rows')) st /\
      length acc = length rows /\ length rows' = length rows /\ length sds = length rows /\
      length (att st) = length rows /\
      (length rows <= length (uniforms tp))%nat /\ uniforms tp' = skipn (length rows) (uniforms tp) /\
      (size (Nd rows) <= length (normals tp))%nat /\ normals tp' = skipn (size (Nd rows)) (normals tp) /\
      (forall j u a b c d,
          nth_error (uniforms tp) j = Some u ->
          nth_error (att st) j = Some a -> nth_error (att (set_nth v (Nd rows') st)) j = Some b ->
          nth_error (regv v st) j = Some c -> nth_error (regv v (set_nth v (Nd rows') st)) j = Some d ->
          nth_error acc j = Some (decide u a b c d tinv)).
  Proof.
    unfold PersonalizeChain.gstep. intros H.
    destruct (nth_error st v) as [[?|rows]|] eqn:Ev; try discriminate.
    destruct (add_noise_rows add mul sds rows (normals tp)) as [[rows' zs']|] eqn:En; [|discriminate].
    destruct (decisions A decide tinv (att st) (att (set_nth v (Nd rows') st)) (regv v st) (regv v (set_nth v (Nd rows') st)) (uniforms tp))
      as [[bs us']|] eqn:Ed; [|discriminate].
    destruct (Nat.eqb_spec (length bs) (length rows)) as [El|]; [|discriminate].
    inversion H; subst; clear H. simpl.
    destruct (add_noise_rows_sound add mul _ _ _ _ _ En) as (Ls & Lr & Ln & Sn & _).
    destruct (decisions_sound _ _ _ _ _ _ _ _ Ed) as (D1 & D2 & D3 & D4 & D5 & D6 & Hd).
    exists rows, rows'. repeat split; auto; try lia.
    - now rewrite <- D1, El in D6.
  Qed.

  Definition sig (st : istate A) : list (nat * nat) := map (fun t => (nrows t, size t)) st.

  Lemma gstep_sig v tinv sds st tp st' tp' acc :
    gstep v tinv sds st tp = Some (st', tp', acc) -> sig st' = sig st.
  Proof.
    intros H. destruct (gstep_sound _ _ _ _ _ _ _ _ H) as (rows & rows' & Ev & En & E & La & Lr & _).
    subst st'. unfold sig. rewrite map_set_nth. apply set_nth_id.
    rewrite nth_error_map, Ev. simpl. f_equal. f_equal.
    - symmetry. apply gmix_length; auto.
    - symmetry. apply gmix_size; auto. eapply add_noise_rows_sizes; eauto.
  Qed.

  Definition nrows_at (sg : list (nat * nat)) (v : nat) : nat := fst (nth v sg (0, 0)%nat).
  Definition size_at (sg : list (nat * nat)) (v : nat) : nat := snd (nth v sg (0, 0)%nat).

  Lemma gstep_draws v tinv sds st tp st' tp' acc :
    gstep v tinv sds st tp = Some (st', tp', acc) ->
    uniforms tp' = skipn (nrows_at (sig st) v) (uniforms tp) /\ normals tp' = skipn (size_at (sig st) v) (normals tp) /\
    length acc = nrows_at (sig st) v.
  Proof.
    intros H. destruct (gstep_sound _ _ _ _ _ _ _ _ H) as (rows & rows' & Ev & _ & _ & La & _ & _ & _ & _ & U & _ & N & _).
    assert (E : nth v (sig st) (0, 0)%nat = (length rows, size (Nd rows))).
    { apply nth_error_nth. unfold sig. now rewrite nth_error_map, Ev. }
    unfold nrows_at, size_at. rewrite E. simpl. auto.
  Qed.

  (** * The inner loop *)
  Lemma sweep_sound tinv : forall ord s s' log,
    sweep tinv ord s = Done (s', log) ->
    Forall step_ok log /\ Forall (fun r => sr_tinv r = tinv) log /\ map sr_var log = ord /\
    chained A (r_vals s) (r_tape s) log (r_vals s') (r_tape s') /\
    sig (r_vals s') = sig (r_vals s) /\ length (r_samp s') = length (r_samp s) /\
    uniforms (r_tape s') = skipn (sumn (map (nrows_at (sig (r_vals s))) ord)) (uniforms (r_tape s)) /\
    normals (r_tape s') = skipn (sumn (map (size_at (sig (r_vals s))) ord)) (normals (r_tape s)).
  Proof.
    induction ord as [|v rest IH]; intros s s' log H; simpl in H.
    - inversion H; subst. simpl. repeat split; auto.
    - destruct (nth_error (r_samp s) v) as [sst|] eqn:Es; [|discriminate].
      destruct (gstep v (ofQ tinv) (map ofQ (std sst)) (r_vals s) (r_tape s)) as [[[st1 tp1] acc]|] eqn:Eg; [|discriminate].
      destruct (sample_step scf sst acc) as [sst'|e] eqn:Ess; [|discriminate].
      apply obind_done in H. destruct H as ([s2 log2] & Hsw & Hd). inversion Hd; subst; clear Hd. simpl.
      destruct (IH _ _ _ Hsw) as (F1 & F2 & F3 & Ch & Sg & Ls & U & N). simpl in *.
      pose proof (gstep_sig _ _ _ _ _ _ _ _ Eg) as Sg1.
      destruct (gstep_draws _ _ _ _ _ _ _ _ Eg) as (U1 & N1 & _).
      split; [constructor; auto|]. split; [constructor; auto|]. split; [now rewrite F3|].
      split; [auto|]. split; [now rewrite Sg|]. split; [now rewrite Ls, set_nth_length|].
      split.
      + rewrite U, U1, Sg1. apply skipn_skipn.
      + rewrite N, N1, Sg1. apply skipn_skipn.
  Qed.

  (** * One iteration: the statements of [iteration_body] *)
  Lemma iteration_inv k ord_k ast rs ord x :
    exec_body k ord_k iteration_body (mkIt A ast rs ord [] []) = Done x ->
    let ord' := if random_order then ord_k else ord in
    exists log,
      sweep (temp_inv ast) ord' rs = Done (i_rs A x, log) /\ i_log A x = log /\ i_ord A x = ord' /\
      update_temperature acf k ast = Anneal.Ok (i_ast A x) /\
      (if keep k nb then exists d, cells (r_vals (i_rs A x)) = Some d /\ i_rec A x = [d] else i_rec A x = []).
  Proof.
    unfold iteration_body. simpl. intros H.
    apply obind_done in H. destruct H as (x1 & H1 & H). apply obind_done in H1. destruct H1 as ([rs1 log1] & Hsw & H1).
    inversion H1; subst x1; clear H1. simpl in *.
    apply obind_done in H. destruct H as (x2 & H2 & H). apply obind_done in H. destruct H as (x3 & H3 & H).
    inversion H; subst x3; clear H.
    exists log1. destruct (keep k nb) eqn:Ek.
    - simpl in H2. destruct (cells (r_vals rs1)) as [d|] eqn:Ec; [|discriminate]. inversion H2; subst x2; clear H2. simpl in *.
      destruct (update_temperature acf k ast) as [a|e] eqn:Eu; [|discriminate]. inversion H3; subst x; clear H3. simpl.
      repeat split; auto. exists d. auto.
    - inversion H2; subst x2; clear H2. simpl in *.
      destruct (update_temperature acf k ast) as [a|e] eqn:Eu; [|discriminate]. inversion H3; subst x; clear H3. simpl.
      repeat split; auto.
  Qed.

  (** * The loop over the iterations *)
  Lemma run_iters_sound : forall orders k ast rs ord o,
    run_iters iteration_body orders k ast rs ord = Done o ->
    length (o_all o) = length orders /\
    o_hist o = fkeep nb k (o_all o) /\
    map fst (o_trace o) = zrange k (k + Z.of_nat (length orders)) /\
    trace_ok k ast (r_vals rs) (r_tape rs) (o_trace o) (o_all o) (r_vals (o_rs o)) (r_tape (o_rs o)) /\
    sig (r_vals (o_rs o)) = sig (r_vals rs).
  Proof.
    induction orders as [|ord_k rest IH]; intros k ast rs ord o H; simpl in H.
    - inversion H; subst; simpl. rewrite zrange_nil by lia. repeat split; auto.
    - apply obind_done in H. destruct H as (x & Hx & H).
      destruct (cells (r_vals (i_rs A x))) as [d|] eqn:Ec; [|discriminate].
      apply obind_done in H. destruct H as (o' & Ho & H). inversion H; subst o; clear H. simpl.
      destruct (iteration_inv _ _ _ _ _ _ Hx) as (log & Hsw & Hlog & Hord & Hup & Hrec).
      destruct (sweep_sound _ _ _ _ _ Hsw) as (F1 & F2 & _ & Ch & Sg & _).
      destruct (IH _ _ _ _ _ Ho) as (L & Hh & Hk & Tr & Sg').
      split; [now rewrite L|]. split.
      { rewrite Hh. destruct (keep k nb).
        - destruct Hrec as (d' & Ec' & Er). rewrite Ec in Ec'. inversion Ec'; subst d'. now rewrite Er.
        - now rewrite Hrec. }
      split.
      { rewrite Hk. rewrite (zrange_cons k) by lia. f_equal. f_equal. lia. }
      split.
      { split; [reflexivity|]. rewrite Hlog. split; [exact F1|]. split; [exact F2|].
        exists (r_vals (i_rs A x)), (r_tape (i_rs A x)), (i_ast A x). repeat split; auto. }
      now rewrite Sg', Sg.
  Qed.

  (** the inverse temperature of the calls of iteration m+1 is that of the C19 schedule after m updates *)
  Lemma trace_temps : forall tr all k m ast st tp st' tp',
    k = Z.of_nat (S m) ->
    trace_ok k ast st tp tr all st' tp' -> state_at acf m = Anneal.Ok ast ->
    Forall (fun kl => exists m' a, fst kl = Z.of_nat (S m') /\ state_at acf m' = Anneal.Ok a /\
                                   Forall (fun r => sr_tinv r = temp_inv a /\ step_ok r) (snd kl)) tr.
  Proof.
    induction tr as [|[k' log] rest IH]; intros all k m ast st tp st' tp' Hk T S0; [constructor|].
    destruct all as [|d all']; [contradiction|].
    destruct T as (Ek & F1 & F2 & st1 & tp1 & ast1 & Ch & Ec & Hup & T).
    constructor.
    - exists m, ast. cbn [fst snd]. split; [congruence|]. split; [exact S0|].
      rewrite Forall_forall in *. intros r Hr. split; auto.
    - eapply (IH _ (k + 1)%Z (S m)); [lia | exact T |].
      change (state_at acf (S m)) with (Anneal.bind (state_at acf m) (update_temperature acf (Z.of_nat (S m)))).
      rewrite S0. cbn [Anneal.bind]. rewrite <- Hk. exact Hup.
  Qed.

  Lemma map_nth_seq {X} (l : list X) d : map (fun v => nth v l d) (seq 0 (length l)) = l.
  Proof.
    induction l as [|a r IH]; simpl; [reflexivity|]. f_equal.
    rewrite <- seq_shift, map_map. exact IH.
  Qed.

  Lemma sweep_count_perm (f : nat * nat -> nat) sg ord :
    Permutation ord (seq 0 (length sg)) ->
    sumn (map (fun v => f (nth v sg (0, 0)%nat)) ord) = sumn (map f sg).
  Proof.
    intros P. rewrite (sumn_perm _ _ (Permutation_map _ P)).
    rewrite <- (map_map (fun v => nth v sg (0, 0)%nat) f), map_nth_seq. reflexivity.
  Qed.

  Definition per_sweep_uniforms (st : istate A) : nat := sumn (map fst (sig st)).
  Definition per_sweep_normals (st : istate A) : nat := sumn (map snd (sig st)).

  Lemma run_iters_counts : forall orders k ast rs ord o,
    Permutation ord (seq 0 (length (r_vals rs))) ->
    (random_order = true -> Forall (fun od => Permutation od (seq 0 (length (r_vals rs)))) orders) ->
    run_iters iteration_body orders k ast rs ord = Done o ->
    uniforms (r_tape (o_rs o)) = skipn (length orders * per_sweep_uniforms (r_vals rs)) (uniforms (r_tape rs)) /\
    normals (r_tape (o_rs o)) = skipn (length orders * per_sweep_normals (r_vals rs)) (normals (r_tape rs)).
  Proof.
    induction orders as [|ord_k rest IH]; intros k ast rs ord o P PO H; simpl in H.
    - inversion H; subst; simpl. auto.
    - apply obind_done in H. destruct H as (x & Hx & H).
      destruct (cells (r_vals (i_rs A x))) as [d|] eqn:Ec; [|discriminate].
      apply obind_done in H. destruct H as (o' & Ho & H). inversion H; subst o; clear H. simpl.
      destruct (iteration_inv _ _ _ _ _ _ Hx) as (log & Hsw & Hlog & Hord & Hup & Hrec).
      destruct (sweep_sound _ _ _ _ _ Hsw) as (_ & _ & _ & _ & Sg & _ & U & N).
      assert (Ln : length (r_vals (i_rs A x)) = length (r_vals rs)).
      { apply (f_equal (@length _)) in Sg. unfold sig in Sg. now rewrite !map_length in Sg. }
      assert (P' : Permutation (if random_order then ord_k else ord) (seq 0 (length (r_vals rs)))).
      { destruct random_order; [|exact P]. specialize (PO eq_refl). now inversion PO. }
      destruct (IH (k + 1)%Z (i_ast A x) (i_rs A x) (i_ord A x) o') as (U' & N'); auto.
      { rewrite Hord, Ln. exact P'. }
      { intros Hr. specialize (PO Hr). inversion PO; subst. now rewrite Ln. }
      assert (Lsg : length (sig (r_vals rs)) = length (r_vals rs)) by (unfold sig; now rewrite map_length).
      unfold per_sweep_uniforms, per_sweep_normals in *. rewrite Sg in U', N'.
      split.
      + rewrite U', U. unfold nrows_at. rewrite (sweep_count_perm fst) by (now rewrite Lsg).
        rewrite skipn_skipn. f_equal.
      + rewrite N', N. unfold size_at. rewrite (sweep_count_perm snd) by (now rewrite Lsg).
        rewrite skipn_skipn. f_equal.
  Qed.

  (** * The whole run *)
  Lemma personalize_run_inv orders init scales tp o :
    personalize_run orders init scales tp = Done o ->
    exists samp a0, init_samplers scf n_ind scales = Done samp /\ init_anneal acf = Anneal.Ok a0 /\
      run_iters iteration_body orders 1 a0 (mkRs init tp samp) (seq 0 (length init)) = Done o.
  Proof.
    unfold PersonalizeChain.personalize_run, personalize_run_with. intros H.
    apply obind_done in H. destruct H as (samp & Hs & H).
    destruct (init_anneal acf) as [a0|e] eqn:Ea; [|discriminate]. eauto.
  Qed.

  (** (a), generic form: what the code appends = the kept part of the chain, which has one draw per iteration *)
  Theorem run_records orders init scales tp o :
    personalize_run orders init scales tp = Done o ->
    length (o_all o) = length orders /\ o_hist o = fkeep nb 1 (o_all o).
  Proof.
    intros H. destruct (personalize_run_inv _ _ _ _ _ H) as (samp & a0 & _ & _ & Hr).
    destruct (run_iters_sound _ _ _ _ _ _ Hr) as (L & Hh & _). auto.
  Qed.

  (** (b), generic form: the run is a chain of sampler calls, each a step of the model at the inverse temperature of the
      C19 schedule of its iteration; the draw of iteration k is the state after its last call *)
  Theorem run_steps orders init scales tp o :
    personalize_run orders init scales tp = Done o ->
    exists a0, init_anneal acf = Anneal.Ok a0 /\
      map fst (o_trace o) = iterations (Z.of_nat (length orders)) /\
      trace_ok 1 a0 init tp (o_trace o) (o_all o) (r_vals (o_rs o)) (r_tape (o_rs o)) /\
      Forall (fun kl => exists m a, fst kl = Z.of_nat (S m) /\ state_at acf m = Anneal.Ok a /\
                                    Forall (fun r => sr_tinv r = temp_inv a /\ step_ok r) (snd kl)) (o_trace o).
  Proof.
    intros H. destruct (personalize_run_inv _ _ _ _ _ H) as (samp & a0 & _ & Ha & Hr).
    destruct (run_iters_sound _ _ _ _ _ _ Hr) as (_ & _ & Hk & Tr & _). simpl in Tr.
    exists a0. split; [exact Ha|]. split.
    { rewrite Hk. unfold iterations. f_equal. lia. }
    split; [exact Tr|].
    eapply (trace_temps _ _ 1%Z 0%nat); [reflexivity | exact Tr | exact Ha].
  Qed.

  (** (c): the draws consumed by the whole run are n_iter x (draws of one sweep), whatever the data, the model parameters,
      the temperatures, the proposal scales and the decisions *)
  Theorem run_draws orders init scales tp o :
    (random_order = true -> Forall (fun od => Permutation od (seq 0 (length init))) orders) ->
    personalize_run orders init scales tp = Done o ->
    uniforms (r_tape (o_rs o)) = skipn (length orders * per_sweep_uniforms init) (uniforms tp) /\
    normals (r_tape (o_rs o)) = skipn (length orders * per_sweep_normals init) (normals tp) /\
    sig (r_vals (o_rs o)) = sig init.
  Proof.
    intros PO H. destruct (personalize_run_inv _ _ _ _ _ H) as (samp & a0 & _ & _ & Hr).
    destruct (run_iters_counts orders 1%Z a0 (mkRs init tp samp) (seq 0 (length init)) o (Permutation_refl _) PO Hr) as (U & N).
    destruct (run_iters_sound _ _ _ _ _ _ Hr) as (_ & _ & _ & _ & Sg). auto.
  Qed.
End Generic.

(** * The rational instance: the existing C17 model applies to the generated chain *)
Section HistoryZ.
Local Open Scope Z_scope.
Lemma history_fkeep nb : forall (all pre : list (list (list Q * Q * Q))),
  map (chain_q (pre ++ all))
      (filter (fun k => keep k nb) (zrange (1 + Z.of_nat (length pre)) (1 + Z.of_nat (length pre) + Z.of_nat (length all))))
  = map (map cell_q) (fkeep nb (1 + Z.of_nat (length pre)) all).
Proof.
  induction all as [|d r IH]; intros pre.
  - simpl. rewrite zrange_nil by lia. reflexivity.
  - rewrite (zrange_cons (1 + Z.of_nat (length pre))) by (simpl length; lia).
    assert (E : chain_q (pre ++ d :: r) (1 + Z.of_nat (length pre)) = map cell_q d).
    { unfold chain_q. replace (1 <=? 1 + Z.of_nat (length pre)) with true by lia.
      replace (Z.to_nat (1 + Z.of_nat (length pre) - 1)) with (length pre) by lia.
      rewrite app_nth2 by lia. now rewrite Nat.sub_diag. }
    specialize (IH (pre ++ [d])). rewrite <- app_assoc in IH. simpl app in IH.
    rewrite app_length in IH. simpl length in IH.
    replace (1 + Z.of_nat (length pre + 1)) with (1 + Z.of_nat (length pre) + 1) in IH by lia.
    replace (1 + Z.of_nat (length pre) + 1 + Z.of_nat (length r))
      with (1 + Z.of_nat (length pre) + Z.of_nat (length (d :: r))) in IH by (simpl length; lia).
    cbn [filter fkeep]. destruct (keep (1 + Z.of_nat (length pre)) nb).
    + cbn [map]. rewrite E. f_equal. exact IH.
    + exact IH.
Qed.
End HistoryZ.

(** (a): [history] of the existing C17 model on the generated chain IS what the composed run appends to the histories *)
Theorem generated_history add mul ofQ decide att regv regsum scf acf nb random_order n_ind orders init scales tp o :
  personalize_run Q add mul ofQ decide att regv regsum scf acf nb random_order n_ind orders init scales tp = Done o ->
  length (o_all o) = length orders /\
  history (chain_q (o_all o)) (Z.of_nat (length orders)) nb = map (map cell_q) (o_hist o).
Proof.
  intros H. destruct (run_records _ _ _ _ _ _ _ _ _ _ _ _ _ _ _ _ _ _ H) as (L & Hh).
  split; [exact L|]. rewrite Hh. unfold history, kept_iterations, iterations.
  pose proof (history_fkeep nb (o_all o) []) as E. cbn [app] in E. rewrite <- L.
  replace (Z.of_nat (length (o_all o)) + 1)%Z with (1 + Z.of_nat (@length (list (list (list Q * Q * Q))) []) + Z.of_nat (length (o_all o)))%Z
    by (cbn [length]; lia).
  exact E.
Qed.

(** the decision of a rational run: accepted exactly when u < exp(-D) on the images *)
Lemma decideQR_iff u pa na pr nr tinv :
  decideQR u pa na pr nr tinv = true <->
  (Q2R u < exp (- ((Q2R na - Q2R pa) + Q2R tinv * (Q2R nr - Q2R pr))))%R.
Proof. unfold decideQR, decideR. rewrite acceptb_true_iff, alpha_eq. reflexivity. Qed.

(** * The real instance is C03's individual step *)
Lemma decisions_R tinv : forall pa na pr nr us,
  decisions R decideR tinv pa na pr nr us =
  match alphas tinv pa na pr nr with
  | Some al => group_accept al us
  | None => None
  end.
Proof.
  induction pa as [|a pa IH]; intros [|b na] [|c pr] [|d nr] us; simpl; try reflexivity.
  destruct us as [|u us].
  - destruct (alphas tinv pa na pr nr); reflexivity.
  - rewrite IH. destruct (alphas tinv pa na pr nr) as [al|]; [|reflexivity]. simpl.
    destruct (group_accept al us) as [[bs r]|]; reflexivity.
Qed.

Lemma gmix_R : forall acc old new, gmix R acc old new = mix_rows acc old new.
Proof. induction acc as [|b acc IH]; intros [|o old] [|n new]; simpl; auto. Qed.

(** [gstep] on the carrier R with C03's rule = [ind_step] of C03 for variable [v], the fresh attachment / regularity being read
    on the state in which only that variable changes *)
Theorem gstep_is_ind_step att regv v tinv sds st tp x :
  nth_error st v = Some x ->
  gstep R Rplus Rmult decideR att regv v tinv sds st tp =
  match ind_step (fun y => att (set_nth v y st)) (fun y => regv v (set_nth v y st)) tinv sds x tp with
  | Some (y, tp', acc) => Some (set_nth v y st, tp', acc)
  | None => None
  end.
Proof.
  intros Hv. unfold gstep, ind_step. rewrite Hv. destruct x as [s|rows]; [reflexivity|].
  destruct (add_noise_rows Rplus Rmult sds rows (normals tp)) as [[rows' zs']|]; [|reflexivity].
  rewrite (set_nth_id v (Nd rows) st Hv). rewrite decisions_R.
  destruct (alphas tinv (att st) (att (set_nth v (Nd rows') st)) (regv v st) (regv v (set_nth v (Nd rows') st))) as [al|]; [|reflexivity].
  destruct (group_accept al (uniforms tp)) as [[acc us']|]; [|reflexivity].
  destruct (Nat.eqb (length acc) (length rows)); [|reflexivity]. now rewrite gmix_R.
Qed.

(** (b) for one call of a rational run: the rows after the call are the previous rows or the proposed ones (previous + std * normal,
    C03's [add_noise_rows]), row j being the proposal exactly when u_j < exp(-D_j), D_j = change of attachment + inverse-temperature
    weighted change of the variable's own regularity, both read on the state in which only that variable is replaced *)
Theorem gstep_decision_Q add mul att regv v tinv sds st tp st' tp' acc :
  gstep Q add mul decideQR att regv v tinv sds st tp = Some (st', tp', acc) ->
  exists rows rows',
    nth_error st v = Some (Nd rows) /\
    add_noise_rows add mul sds rows (normals tp) = Some (rows', normals tp') /\
    st' = set_nth v (Nd (gmix Q acc rows rows')) st /\
    length acc = length rows /\ length rows' = length rows /\
    uniforms tp' = skipn (length rows) (uniforms tp) /\ normals tp' = skipn (size (Nd rows)) (normals tp) /\
    (forall j o n b, nth_error rows j = Some o -> nth_error rows' j = Some n -> nth_error acc j = Some b ->
       nth_error (gmix Q acc rows rows') j = Some (if b then n else o)) /\
    (forall j u a b c d,
       nth_error (uniforms tp) j = Some u ->
       nth_error (att st) j = Some a -> nth_error (att (set_nth v (Nd rows') st)) j = Some b ->
       nth_error (regv v st) j = Some c -> nth_error (regv v (set_nth v (Nd rows') st)) j = Some d ->
       exists dj, nth_error acc j = Some dj /\
         (dj = true <-> (Q2R u < exp (- ((Q2R b - Q2R a) + Q2R tinv * (Q2R d - Q2R c))))%R)).
Proof.
  intros H. destruct (gstep_sound _ _ _ _ _ _ _ _ _ _ _ _ _ _ H) as (rows & rows' & Ev & En & E & La & Lr & _ & _ & _ & U & _ & N & Hd).
  exists rows, rows'. repeat split; auto.
  - intros j o n b Ho Hn Hb. eapply gmix_nth; eauto.
  - intros j u a b c d Hu Ha Hb Hc Hdd. exists (decideQR u a b c d tinv). split; [eapply Hd; eauto|]. apply decideQR_iff.
Qed.

(** * Non-vacuity: a run of 3 iterations (burn-in 1), two variables (one scalar, one of 2 coordinates) of two individuals, shuffled *)
Definition ex_att (st : istate Q) : list Q := map (fun i => sumQ (row_vals Q st i)) [0%nat; 1%nat].
Definition ex_regv (v : nat) (st : istate Q) : list Q :=
  map (fun i => match nth_error st v with Some (Nd rows) => sumQ (flat (nth i rows (Nd []))) | _ => 0 end) [0%nat; 1%nat].
Definition ex_decide (u pa na pr nr tinv : Q) : bool := Qle_bool (u + (na - pa) + tinv * (nr - pr)) 1.
Definition ex_scf : scfg := {| hist_len := 2; lo := 1 # 5; hi := 2 # 5; fac := 1 # 10 |}.
Definition ex_acf : Anneal.cfg := {| a_on := true; n_ann := 2; T0 := 3; n_plateau := 3 |}.
Definition ex_init : istate Q := [Nd [Nd [Sc 0; Sc 0]; Nd [Sc 0; Sc 0]]; Nd [Sc 0; Sc 0]].
Definition ex_tape : tape Q :=
  Build_tape [1; -1; 2; 1 # 2; 1; -2; 1; 1; -1; 3; 0; 1; 1; -1; 2; 1 # 2; 1; -2]
             [1 # 2; 9 # 10; 1 # 10; 1 # 2; 3 # 4; 1 # 5; 1 # 2; 1 # 2; 1 # 3; 1; 0; 1 # 2].
Definition ex_orders : list (list nat) := [[1; 0]; [0; 1]; [1; 0]]%nat.
Definition ex_run := personalize_run Q Qplus Qmult (fun q => q) ex_decide ex_att ex_regv ex_att ex_scf ex_acf 1 true 2
                                     ex_orders ex_init [1; 2] ex_tape.

Example ex_run_done :
  exists o, ex_run = Done o /\ length (o_all o) = 3%nat /\ length (o_hist o) = 2%nat /\
            normals (r_tape (o_rs o)) = [] /\ uniforms (r_tape (o_rs o)) = [] /\
            map (fun kl => map (fun r => Qred (sr_tinv r)) (snd kl)) (o_trace o) = [[1 # 3; 1 # 3]; [1 # 2; 1 # 2]; [1; 1]] /\
            map (fun s => map Qred (std s)) (r_samp (o_rs o)) = [[9 # 20; 11 # 20]; [11 # 10; 11 # 10]] /\
            Forall (fun od => Permutation od (seq 0 (length ex_init))) ex_orders.
Proof.
  destruct ex_run as [o|e] eqn:E; vm_compute in E; [|discriminate].
  exists o. inversion E; subst o; clear E. cbn [o_all o_hist o_rs r_tape r_samp normals uniforms o_trace length].
  repeat split; try reflexivity.
  repeat constructor; apply perm_swap || apply Permutation_refl.
Qed.
