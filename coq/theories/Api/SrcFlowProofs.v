(* C13 — proofs about the shapes of SrcFlow.v: the flow check accepts `mcmc_full_reads` and `estimate_many` for EVERY number of
   variables / individuals / requests under computable hypotheses on the instance; hence history independence. *)
From Coq Require Import List Arith Bool Lia.
From Leaspy Require Import Api.ApiModel Api.ApiProofs Api.ApiCalls Api.ApiCallsProofs Api.SrcProg Api.SrcProgProofs Api.SrcFlow.
Import ListNotations.

Section FlowProofs.
  Variable V : Type.
  Variable sread : st V -> nat -> st V * option V.
  Variable swrite : st V -> nat -> option V -> st V.
  Variable sclone : st V -> st V.
  Variable tracked : list nat.
  Variable tape : gen -> nat -> V.
  Variable seed_pos : gen -> nat -> nat.
  Variable anc : nat -> list nat.
  Variable indep : nat -> bool.
  Variable simOn : view -> st V -> st V -> Prop.

  Notation ev := (ev V).
  Notation api_call := (api_call V sread swrite sclone tracked tape seed_pos).
  Notation flow_all := (flow_all V anc).
  Notation same_outcome := (same_outcome V).

  (* ------------------------------------------------------------------ views *)
  Lemma vadds_cons n l (v : view) : vadds (n :: l) v = vadds l (vadd n v).
  Proof. reflexivity. Qed.

  Lemma vadds_keeps l : forall (v : view) m, v m = true -> vadds l v m = true.
  Proof.
    induction l as [|n l IH]; intros v m H; [exact H|]. rewrite vadds_cons. apply IH. unfold vadd. rewrite H. apply orb_true_r.
  Qed.

  Lemma flow_all_app base evs1 : forall fs evs2,
    flow_all base fs (evs1 ++ evs2) = match flow_all base fs evs1 with None => None | Some fs' => flow_all base fs' evs2 end.
  Proof.
    induction evs1 as [|e t IH]; intros fs evs2; [reflexivity|].
    rewrite <- app_comm_cons, !(flow_all_cons V anc). destruct (flow V anc base fs e); [apply IH | reflexivity].
  Qed.

  (* ------------------------------------------------------------------ reads and assignments on the model's own state *)
  Lemma flow_gets_cur reads : forall (v : view) rest,
    forallb (fun m => forallb v (anc m)) reads = true ->
    flow_all 1 ([v], 0) (map (fun m => EGet Cur m) reads ++ rest) = flow_all 1 ([v], 0) rest.
  Proof.
    induction reads as [|m t IH]; intros v rest H; [reflexivity|].
    simpl in H. apply andb_true_iff in H as (H1 & H2).
    simpl map. rewrite <- app_comm_cons, (flow_all_cons V anc). simpl. rewrite H1. apply IH. exact H2.
  Qed.

  Lemma init_reads_cons x l :
    init_reads V (x :: l) = map (fun m => EGet Cur m) (it_reads V x) ++ ESet Cur (it_var V x) (snd x) :: init_reads V l.
  Proof. unfold init_reads. simpl. rewrite <- app_assoc. reflexivity. Qed.

  Lemma flow_init_reads (kept : view) l : forall (v : view) rest,
    (forall m, kept m = true -> v m = true) -> reads_kept V anc kept l = true ->
    flow_all 1 ([v], 0) (init_reads V l ++ rest) = flow_all 1 ([vadds (map (it_var V) l) v], 0) rest.
  Proof.
    induction l as [|x l IH]; intros v rest Hk H; [reflexivity|].
    unfold reads_kept in H. simpl in H. apply andb_true_iff in H as (H1 & H2).
    change (vadds (map (it_var V) (x :: l)) v) with (vadds (map (it_var V) l) (vadd (it_var V x) v)).
    rewrite <- (IH (vadd (it_var V x) v) rest); [| |exact H2].
    - rewrite init_reads_cons, <- app_assoc, flow_gets_cur.
      + rewrite <- app_comm_cons, (flow_all_cons V anc). reflexivity.
      + rewrite forallb_forall in *. intros m Hm. apply (forallb_mono kept v); auto.
    - intros m Hm. unfold vadd. rewrite (Hk m Hm). apply orb_true_r.
  Qed.

  Lemma map_it_var_no_reads l : map (it_var V) (no_reads V l) = map fst l.
  Proof. unfold no_reads. rewrite map_map. reflexivity. Qed.

  (* `mcmc_full` is the shape without reads *)
  Lemma mcmc_full_is_reads sd data init_ind body dvars ivars tail :
    mcmc_full V sd data init_ind body dvars ivars tail = mcmc_full_reads V sd data (no_reads V init_ind) body dvars ivars tail.
  Proof.
    unfold mcmc_full, mcmc_full_reads. do 3 f_equal. f_equal. unfold init_reads, no_reads.
    induction init_ind as [|x l IH]; simpl; [reflexivity|]. now rewrite IH.
  Qed.

  Lemma reads_kept_no_reads kept l : reads_kept V anc kept (no_reads V l) = true.
  Proof. unfold reads_kept, no_reads. rewrite forallb_forall. intros x Hx. apply in_map_iff in Hx as (y & <- & _). reflexivity. Qed.

  (* the flow check accepts the initial part, and then anything *)
  Theorem mcmc_reads_flow (kept : view) data init_ind rest :
    reads_kept V anc kept init_ind = true ->
    closed anc (vadds (map (it_var V) init_ind) (vadds (map fst data) kept)) ->
    flow_all 1 ([kept], 0) (sets V Cur data ++ init_reads V init_ind ++ rest) <> None.
  Proof.
    intros Hr Hc. unfold sets. rewrite (flow_sets_cur V anc fst (fun nv => konst V (snd nv))).
    rewrite (flow_init_reads kept); [|apply vadds_keeps|exact Hr].
    apply (flow_covers V anc) with (U := vadds (map (it_var V) init_ind) (vadds (map fst data) kept)); auto.
    intros k v Hv m Hm. destruct k as [|[|k]]; simpl in Hv; try discriminate. inversion Hv; subst; auto.
  Qed.

  Lemma mcmc_full_reads_seeded sd data init_ind body dvars ivars tail :
    mcmc_full_reads V sd data init_ind body dvars ivars tail
    = seeded V sd (sets V Cur data ++ init_reads V init_ind ++ (body ++ terminate_script V 0 dvars ivars ++ tail)).
  Proof. unfold mcmc_full_reads, mcmc_call, seeded. rewrite <- !app_assoc. reflexivity. Qed.

  Hypothesis SI : state_interface V sread swrite sclone anc indep simOn.

  (* history independence of the whole call, from any two generator positions *)
  Theorem mcmc_reads_history_independent (kept : view) sd data init_ind body dvars ivars tail s s' p p' :
    simOn kept s s' ->
    reads_kept V anc kept init_ind = true ->
    closed anc (vadds (map (it_var V) init_ind) (vadds (map fst data) kept)) ->
    orel same_outcome (api_call (mcmc_full_reads V sd data init_ind body dvars ivars tail) s p)
                      (api_call (mcmc_full_reads V sd data init_ind body dvars ivars tail) s' p').
  Proof.
    intros Hs Hr Hc. rewrite mcmc_full_reads_seeded.
    eapply (seeded_call_function_of_seed V sread swrite sclone tracked tape seed_pos anc indep simOn SI); eauto.
    apply mcmc_reads_flow; auto.
  Qed.

  (* clean AND repeatable (the generalisation of ApiCallsProofs.mcmc_repeat_same_answer) *)
  Theorem mcmc_reads_repeat_same_answer (kept : view) sd data init_ind body dvars ivars tail s p c1 :
    simOn ApiModel.top s s ->
    (forall n, In n (dvars ++ ivars) -> kept n = false /\ indep n = true) ->
    (forall nv, In nv data -> In (fst nv) (dvars ++ ivars)) ->
    (forall x, In x init_ind -> In (it_var V x) (dvars ++ ivars)) ->
    forallb (fun e => writes_in V (mem (dvars ++ ivars)) e && noclone_ev V e) body = true ->
    forallb (clones_from V 1) tail = true ->
    reads_kept V anc kept init_ind = true ->
    closed anc (vadds (map (it_var V) init_ind) (vadds (map fst data) kept)) ->
    api_call (mcmc_full_reads V sd data init_ind body dvars ivars tail) s p = Some c1 ->
    exists s1, model_state V c1 = Some s1 /\ cCur c1 = 1 /\ simOn kept s1 s
               /\ (forall n, In n (dvars ++ ivars) -> snd (sread s1 n) = None)
               /\ orel same_outcome (api_call (mcmc_full_reads V sd data init_ind body dvars ivars tail) s1 (cPos c1)) (Some c1).
  Proof.
    intros Hwf Hvars Hdata Hinit Hbody Htail Hr Hcl H.
    assert (Hpre : forallb (fun e => writes_in V (mem (dvars ++ ivars)) e && noclone_ev V e)
                           (seed_all V sd ++ sets V Cur data ++ init_reads V init_ind ++ body) = true).
    { apply forallb_app_true; [reflexivity|]. apply forallb_app_true; [|apply forallb_app_true; auto].
      - apply forallb_forall. intros e He. apply in_map_iff in He as (nv & <- & Hin). simpl.
        rewrite andb_true_r. apply mem_In; auto.
      - apply forallb_forall. intros e He. apply in_flat_map in He as (x & Hx & He).
        apply in_app_or in He as [He|[<-|[]]].
        + apply in_map_iff in He as (m & <- & _). reflexivity.
        + simpl. rewrite andb_true_r. apply mem_In; auto. }
    destruct (mcmc_call_clean V sread swrite sclone tracked tape seed_pos anc indep simOn SI kept _ dvars ivars tail s p c1
                              Hwf Hvars Hpre Htail H) as (s1 & A & B & C & D).
    exists s1. repeat (split; auto).
    rewrite mcmc_full_reads_seeded in *.
    eapply (repeated_call_same_answer V sread swrite sclone tracked tape seed_pos anc indep simOn SI); eauto.
    apply mcmc_reads_flow; auto.
  Qed.

  (* ------------------------------------------------------------------ estimate, any number of requests *)
  Lemma nth_error_last {A} (l : list A) x : nth_error (l ++ [x]) (length l) = Some x.
  Proof. rewrite nth_error_app2 by lia. rewrite Nat.sub_diag. reflexivity. Qed.

  Lemma upd_last {A} (l : list A) x y : upd (l ++ [x]) (length l) y = l ++ [y].
  Proof. induction l as [|h t IH]; simpl; [reflexivity|]. now rewrite IH. Qed.

  Lemma flow_set_loc l (vs : list view) cur n f (v : view) :
    nth_error vs (S l) = Some v -> flow V anc 1 (vs, cur) (ESet (Loc l) n f) = Some (upd vs (S l) (vadd n v), cur).
  Proof. intros H. unfold flow, resolve. change (1 + l) with (S l). rewrite H. reflexivity. Qed.

  Lemma flow_get_loc l (vs : list view) cur n (v : view) :
    nth_error vs (S l) = Some v ->
    flow V anc 1 (vs, cur) (EGet (Loc l) n) = if forallb v (anc n) then Some (vs, cur) else None.
  Proof. intros H. unfold flow, resolve. change (1 + l) with (S l). rewrite H. reflexivity. Qed.

  Lemma flow_clone_cur (vs : list view) cur (v : view) :
    nth_error vs cur = Some v -> flow V anc 1 (vs, cur) (EClone Cur) = Some (vs ++ [v], cur).
  Proof. intros H. unfold flow, resolve. rewrite H. reflexivity. Qed.

  Lemma flow_sets_last {A} (f : A -> nat) (g : A -> regs V -> option V) l items : forall (vs : list view) (v : view) cur rest,
    length vs = S l ->
    flow_all 1 (vs ++ [v], cur) (map (fun x => ESet (Loc l) (f x) (g x)) items ++ rest)
    = flow_all 1 (vs ++ [vadds (map f items) v], cur) rest.
  Proof.
    induction items as [|x t IH]; intros vs v cur rest L; [reflexivity|].
    simpl map. rewrite <- app_comm_cons, (flow_all_cons V anc).
    rewrite (flow_set_loc l _ cur (f x) (g x) v) by (rewrite <- L; apply nth_error_last).
    rewrite <- L, upd_last. rewrite vadds_cons. apply IH. exact L.
  Qed.

  Lemma flow_gets_last l outs : forall (vs : list view) (v : view) cur rest,
    length vs = S l -> forallb (fun n => forallb v (anc n)) outs = true ->
    flow_all 1 (vs ++ [v], cur) (map (fun n => EGet (Loc l) n) outs ++ rest) = flow_all 1 (vs ++ [v], cur) rest.
  Proof.
    induction outs as [|n t IH]; intros vs v cur rest L H; [reflexivity|].
    simpl in H. apply andb_true_iff in H as (H1 & H2).
    simpl map. rewrite <- app_comm_cons, (flow_all_cons V anc).
    rewrite (flow_get_loc l _ cur n v) by (rewrite <- L; apply nth_error_last). rewrite H1. apply IH; auto.
  Qed.

  Lemma flow_estimate_at (kept : view) tvar outs q l (vs : list view) rest :
    length vs = S l -> nth_error vs 0 = Some kept ->
    forallb (fun n => forallb (vadds (map fst (snd q)) (vadd tvar kept)) (anc n)) outs = true ->
    flow_all 1 (vs, 0) (estimate_at V l tvar outs q ++ rest)
    = flow_all 1 (vs ++ [vadds (map fst (snd q)) (vadd tvar kept)], 0) rest.
  Proof.
    intros L H0 Hq. unfold estimate_at. rewrite <- !app_assoc. simpl app.
    rewrite (flow_all_cons V anc), (flow_clone_cur vs 0 kept H0).
    rewrite (flow_all_cons V anc), (flow_set_loc l _ 0 tvar _ kept) by (rewrite <- L; apply nth_error_last).
    rewrite <- L, upd_last.
    unfold sets. rewrite (flow_sets_last fst (fun nv => konst V (snd nv)) l (snd q) vs _ 0 _ L).
    apply (flow_gets_last l outs vs _ 0 _ L Hq).
  Qed.

  Lemma flow_estimate_many (kept : view) tvar outs reqs : forall l (vs : list view),
    length vs = S l -> nth_error vs 0 = Some kept ->
    est_flow_ok V anc kept tvar outs reqs = true ->
    exists vs', flow_all 1 (vs, 0) (estimate_many V l tvar outs reqs) = Some (vs', 0).
  Proof.
    induction reqs as [|q t IH]; intros l vs L H0 H; [simpl; eauto|].
    unfold est_flow_ok in H. simpl in H. apply andb_true_iff in H as (Hq & Ht).
    change (estimate_many V l tvar outs (q :: t)) with (estimate_at V l tvar outs q ++ estimate_many V (S l) tvar outs t).
    rewrite (flow_estimate_at kept tvar outs q l vs _ L H0 Hq).
    apply IH; [rewrite app_length; simpl; lia | |exact Ht].
    destruct vs as [|v0 vs]; [discriminate|]. exact H0.
  Qed.

  Theorem estimate_many_flow (kept : view) tvar outs reqs :
    est_flow_ok V anc kept tvar outs reqs = true ->
    flow_all 1 ([kept], 0) (estimate_many V 0 tvar outs reqs) <> None.
  Proof.
    intros H. destruct (flow_estimate_many kept tvar outs reqs 0 [kept] eq_refl eq_refl H) as (vs' & E). rewrite E. discriminate.
  Qed.

  Theorem estimate_many_history_independent (kept : view) tvar outs reqs s s' p :
    simOn kept s s' -> est_flow_ok V anc kept tvar outs reqs = true ->
    orel same_outcome (api_call (estimate_many V 0 tvar outs reqs) s p) (api_call (estimate_many V 0 tvar outs reqs) s' p).
  Proof.
    intros Hs H. destruct SI.
    eapply (history_independent V sread swrite sclone tracked tape seed_pos anc simOn); eauto.
    apply estimate_many_flow; auto.
  Qed.

  (* ------------------------------------------------------------------ what the instance gives for the MCMC program *)
  Lemma mcmc_pre_is_reads (I : inst V) :
    mcmc_pre V I = seed_all V (i_seed V I) ++ sets V Cur (inst_data V I) ++ init_reads V (inst_init V I) ++ inst_sampling V I.
  Proof.
    unfold mcmc_pre, inst_data, inst_init, inst_sampling, sets, init_reads. f_equal.
    cbn [put_evs vars map app]. rewrite map_map. cbn [fst snd]. f_equal. f_equal.
    f_equal. induction (i_ind V I) as [|n l IH]; [reflexivity|]. cbn [flat_map map]. rewrite IH. reflexivity.
  Qed.

  Lemma inst_init_vars (I : inst V) : map (it_var V) (inst_init V I) = i_ind V I.
  Proof. unfold inst_init. rewrite map_map. apply map_id. Qed.

  Lemma inst_data_vars (I : inst V) : map fst (inst_data V I) = mcmc_dvars V I.
  Proof. unfold inst_data, mcmc_dvars. simpl. rewrite map_map. simpl. now rewrite map_id. Qed.

  Lemma mcmc_call_is_full_reads (I : inst V) :
    mcmc_call V (mcmc_pre V I) (mcmc_dvars V I) (i_ind V I) (mcmc_tail V I)
    = mcmc_full_reads V (i_seed V I) (inst_data V I) (inst_init V I) (inst_sampling V I) (mcmc_dvars V I) (i_ind V I) (mcmc_tail V I).
  Proof. unfold mcmc_full_reads. rewrite mcmc_pre_is_reads. reflexivity. Qed.
End FlowProofs.
