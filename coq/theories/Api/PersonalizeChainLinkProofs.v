(** C17 — proofs of the two links (PersonalizeChainLink.v): (b) the proposal scales of the generated chain are the [std] of
    C19's [run_sampler] along the run's own acceptance history; (a) the generic run commutes with carrier homomorphisms. *)
From Coq Require Import ZArith QArith List Bool Arith Lia.
From Leaspy Require Import Base.QAux Sampler.SamplerModel Sampler.SamplerProofs Saem.Anneal Sampler.AdaptiveStd
  Api.Personalize Api.PersonalizeChain Api.PersonalizeChainProofs Api.PersonalizeChainLink.
Import ListNotations.

(** * (b) scales *)

Lemma follows_app c : forall l1 l2 s s1 s2, follows c s l1 s1 -> follows c s1 l2 s2 -> follows c s (l1 ++ l2) s2.
Proof.
  induction l1 as [|[sd acc] l1 IH]; intros l2 s s1 s2 F1 F2; simpl in *.
  - now subst.
  - destruct F1 as (E & s' & St & F1). split; [exact E|]. exists s'. split; [exact St|]. eapply IH; eauto.
Qed.

Lemma last_cons_default {X} : forall (l : list X) a d d', last (a :: l) d = last (a :: l) d'.
Proof. induction l as [|b l IH]; intros a d d'; [reflexivity|]. change (last (b :: l) d = last (b :: l) d'). apply IH. Qed.

(** [follows] is [run_sampler]: the scales are the [std] of the states BEFORE each call, the end state is the last one *)
Lemma follows_run_sampler c : forall calls s s', follows c s calls s' ->
  exists sts, run_sampler c s (map snd calls) = Anneal.Ok sts /\
    map fst calls = map std (removelast (s :: sts)) /\ s' = last sts s.
Proof.
  induction calls as [|[sd acc] r IH]; intros s s' F; simpl in F.
  - subst. exists []. repeat split.
  - destruct F as (E & s1 & St & F). destruct (IH _ _ F) as (sts & R & M & L).
    exists (s1 :: sts). cbn [map snd fst run_sampler]. rewrite St. cbn [Anneal.bind]. rewrite R. cbn [Anneal.bind].
    split; [reflexivity|]. split.
    + change (removelast (s :: s1 :: sts)) with (s :: removelast (s1 :: sts)). cbn [map]. now rewrite E, M.
    + rewrite L. destruct sts as [|s2 sts]; [reflexivity|]. change (last (s1 :: s2 :: sts) s) with (last (s2 :: sts) s). apply last_cons_default.
Qed.

Lemma filter_app_var {A} v (a b : list (step_rec A)) :
  filter (fun r => Nat.eqb (sr_var r) v) (a ++ b) = filter (fun r => Nat.eqb (sr_var r) v) a ++ filter (fun r => Nat.eqb (sr_var r) v) b.
Proof. apply filter_app. Qed.

Section Scales.
  Variable A : Type.
  Variables add mul : A -> A -> A.
  Variable ofQ : Q -> A.
  Variable decide : A -> A -> A -> A -> A -> A -> bool.
  Variable att : istate A -> list A.
  Variable regv : nat -> istate A -> list A.
  Variable regsum : istate A -> list A.
  Variable scf : scfg.
  Variable acf : Anneal.cfg.
  Variable nb : Z.
  Variable random_order : bool.
  Variable n_ind : nat.

  Notation sweep := (sweep A add mul ofQ decide att regv scf).
  Notation run_iters := (run_iters A add mul ofQ decide att regv regsum scf acf nb random_order n_ind).
  Notation personalize_run := (personalize_run A add mul ofQ decide att regv regsum scf acf nb random_order n_ind).
  Notation vfilter v := (filter (fun r : step_rec A => Nat.eqb (sr_var r) v)).

  Lemma sweep_follows tinv v : forall ord s s' log sv,
    sweep tinv ord s = Done (s', log) -> nth_error (r_samp s) v = Some sv ->
    exists sv', nth_error (r_samp s') v = Some sv' /\ follows scf sv (map call_of (vfilter v log)) sv'.
  Proof.
    induction ord as [|w rest IH]; intros s s' log sv H Hv; simpl in H.
    - inversion H; subst. exists sv. split; [exact Hv|reflexivity].
    - destruct (nth_error (r_samp s) w) as [sst|] eqn:Es; [|discriminate].
      destruct (gstep A add mul decide att regv w (ofQ tinv) (map ofQ (std sst)) (r_vals s) (r_tape s)) as [[[st1 tp1] acc]|] eqn:Eg; [|discriminate].
      destruct (sample_step scf sst acc) as [sst'|e] eqn:Ess; [|discriminate].
      apply obind_done in H. destruct H as ([s2 log2] & Hsw & Hd). inversion Hd; subst; clear Hd.
      cbn [filter sr_var]. destruct (Nat.eqb w v) eqn:Ewv.
      + apply Nat.eqb_eq in Ewv. subst w. rewrite Hv in Es. inversion Es; subst sst.
        destruct (IH _ _ _ sst' Hsw) as (sv' & Hn & F).
        { simpl. eapply set_nth_same; eauto. }
        exists sv'. split; [exact Hn|]. cbn [map call_of sr_sds sr_acc follows]. split; [reflexivity|]. exists sst'. auto.
      + apply Nat.eqb_neq in Ewv.
        destruct (IH _ _ _ sv Hsw) as (sv' & Hn & F).
        { simpl. rewrite set_nth_other by exact Ewv. exact Hv. }
        exists sv'. auto.
  Qed.

  Lemma run_iters_follows v : forall orders k ast rs ord o sv,
    run_iters iteration_body orders k ast rs ord = Done o -> nth_error (r_samp rs) v = Some sv ->
    exists sv', nth_error (r_samp (o_rs o)) v = Some sv' /\ follows scf sv (map call_of (var_calls v (o_trace o))) sv'.
  Proof.
    induction orders as [|ord_k rest IH]; intros k ast rs ord o sv H Hv; simpl in H.
    - inversion H; subst; simpl. exists sv. split; [exact Hv|reflexivity].
    - apply obind_done in H. destruct H as (x & Hx & H).
      destruct (cells A att regsum n_ind (r_vals (i_rs A x))) as [d|] eqn:Ec; [|discriminate].
      apply obind_done in H. destruct H as (o' & Ho & H). inversion H; subst o; clear H.
      destruct (iteration_inv _ _ _ _ _ _ _ _ _ _ _ _ _ _ _ _ _ _ _ Hx) as (log & Hsw & Hlog & _).
      destruct (sweep_follows _ v _ _ _ _ sv Hsw Hv) as (sv1 & Hn1 & F1).
      destruct (IH _ _ _ _ _ sv1 Ho Hn1) as (sv' & Hn & F).
      exists sv'. split; [exact Hn|]. unfold var_calls in *. cbn [o_trace map snd concat]. rewrite filter_app, map_app, Hlog.
      eapply follows_app; eauto.
  Qed.

  Lemma init_samplers_nth : forall scales samp v sc, init_samplers scf n_ind scales = Done samp -> nth_error scales v = Some sc ->
    exists s0, init_sampler scf ind_scale_factor (repeat sc n_ind) = Anneal.Ok s0 /\ nth_error samp v = Some s0.
  Proof.
    induction scales as [|sc0 r IH]; intros samp v sc H Hv; [destruct v; discriminate|]. simpl in H.
    destruct (init_sampler scf ind_scale_factor (repeat sc0 n_ind)) as [s|e] eqn:E; [|discriminate].
    apply obind_done in H. destruct H as (l & Hl & H). inversion H; subst samp; clear H.
    destruct v as [|v]; simpl in Hv.
    - inversion Hv; subst. exists s. auto.
    - destruct (IH _ _ _ Hl Hv) as (s0 & E0 & N0). exists s0. auto.
  Qed.

  (** THE LINK (b): for every variable, the proposal scales the run used ([sr_sds] of its calls, in call order) are the [std] of
      the states C19's [run_sampler] goes through on the run's OWN acceptance history of that variable, starting from
      [init_sampler] at STD_SCALE_FACTOR x scale; the sampler left in the final state is the last of these states *)
  Theorem run_scales orders init scales tp o v sc :
    personalize_run orders init scales tp = Done o -> nth_error scales v = Some sc ->
    exists s0 sts, init_sampler scf ind_scale_factor (repeat sc n_ind) = Anneal.Ok s0 /\
      run_sampler scf s0 (map sr_acc (var_calls v (o_trace o))) = Anneal.Ok sts /\
      map sr_sds (var_calls v (o_trace o)) = map std (removelast (s0 :: sts)) /\
      nth_error (r_samp (o_rs o)) v = Some (last sts s0).
  Proof.
    intros H Hv. destruct (personalize_run_inv _ _ _ _ _ _ _ _ _ _ _ _ _ _ _ _ _ _ H) as (samp & a0 & Hs & _ & Hr).
    destruct (init_samplers_nth _ _ _ _ Hs Hv) as (s0 & E0 & N0).
    destruct (run_iters_follows v _ _ _ _ _ _ s0 Hr N0) as (sv' & Hn & F).
    destruct (follows_run_sampler _ _ _ _ F) as (sts & R & M & L).
    exists s0, sts. rewrite !map_map in *. split; [exact E0|]. split; [exact R|]. split; [exact M|]. now rewrite <- L.
  Qed.
End Scales.
