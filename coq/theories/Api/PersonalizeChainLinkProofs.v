(** C17 — proofs of the two links (PersonalizeChainLink.v): (b) the proposal scales of the generated chain are the [std] of
    C19's [run_sampler] along the run's own acceptance history; (a) the generic run commutes with carrier homomorphisms. *)
From Coq Require Import ZArith QArith List Bool Arith Lia.
From Leaspy Require Import Base.QAux Sampler.SamplerModel Sampler.SamplerProofs Saem.Anneal Sampler.AdaptiveStd
  Api.Personalize Api.PersonalizeChain Api.PersonalizeChainProofs Api.PersonalizeChainLink.
Import ListNotations.

(** * (b) scales *)

Lemma follows_app c : forall l1 l2 s s1 s2, follows c s l1 s1 -> follows c s1 l2 s2 -> follows c s (l1 ++ l2) s2.
Proof.
  induction l1 as [|[sd acc] l1 IH]; intros l2 s s1 s2 F1 F2; simpl in *.
  - now subst.
  - destruct F1 as (E & s' & St & F1). split; [exact E|]. exists s'. split; [exact St|]. eapply IH; eauto.
Qed.

Lemma last_cons_default {X} : forall (l : list X) a d d', last (a :: l) d = last (a :: l) d'.
Proof. induction l as [|b l IH]; intros a d d'; [reflexivity|]. change (last (b :: l) d = last (b :: l) d'). apply IH. Qed.

(** [follows] is [run_sampler]: the scales are the [std] of the states BEFORE each call, the end state is the last one *)
Lemma follows_run_sampler c : forall calls s s', follows c s calls s' ->
  exists sts, run_sampler c s (map snd calls) = Anneal.Ok sts /\
    map fst calls = map std (removelast (s :: sts)) /\ s' = last sts s.
Proof.
  induction calls as [|[sd acc] r IH]; intros s s' F; simpl in F.
  - subst. exists []. repeat split.
  - destruct F as (E & s1 & St & F). destruct (IH _ _ F) as (sts & R & M & L).
    exists (s1 :: sts). cbn [map snd fst run_sampler]. rewrite St. cbn [Anneal.bind]. rewrite R. cbn [Anneal.bind].
    split; [reflexivity|]. split.
    + change (removelast (s :: s1 :: sts)) with (s :: removelast (s1 :: sts)). cbn [map]. now rewrite E, M.
    + rewrite L. destruct sts as [|s2 sts]; [reflexivity|]. change (last (s1 :: s2 :: sts) s) with (last (s2 :: sts) s). apply last_cons_default.
Qed.

Lemma filter_app_var {A} v (a b : list (step_rec A)) :
  filter (fun r => Nat.eqb (sr_var r) v) (a ++ b) = filter (fun r => Nat.eqb (sr_var r) v) a ++ filter (fun r => Nat.eqb (sr_var r) v) b.
Proof. apply filter_app. Qed.

Section Scales.
  Variable A : Type.
  Variables add mul : A -> A -> A.
  Variable ofQ : Q -> A.
  Variable decide : A -> A -> A -> A -> A -> A -> bool.
  Variable att : istate A -> list A.
  Variable regv : nat -> istate A -> list A.
  Variable regsum : istate A -> list A.
  Variable scf : scfg.
  Variable acf : Anneal.cfg.
  Variable nb : Z.
  Variable random_order : bool.
  Variable n_ind : nat.

  Notation sweep := (sweep A add mul ofQ decide att regv scf).
  Notation run_iters := (run_iters A add mul ofQ decide att regv regsum scf acf nb random_order n_ind).
  Notation personalize_run := (personalize_run A add mul ofQ decide att regv regsum scf acf nb random_order n_ind).
  Notation vfilter v := (filter (fun r : step_rec A => Nat.eqb (sr_var r) v)).

  Lemma sweep_follows tinv v : forall ord s s' log sv,
    sweep tinv ord s = Done (s', log) -> nth_error (r_samp s) v = Some sv ->
    exists sv', nth_error (r_samp s') v = Some sv' /\ follows scf sv (map call_of (vfilter v log)) sv'.
  Proof.
    induction ord as [|w rest IH]; intros s s' log sv H Hv; simpl in H.
    - inversion H; subst. exists sv. split; [exact Hv|reflexivity].
    - destruct (nth_error (r_samp s) w) as [sst|] eqn:Es; [|discriminate].
      destruct (gstep A add mul decide att regv w (ofQ tinv) (map ofQ (std sst)) (r_vals s) (r_tape s)) as [[[st1 tp1] acc]|] eqn:Eg; [|discriminate].
      destruct (sample_step scf sst acc) as [sst'|e] eqn:Ess; [|discriminate].
      apply obind_done in H. destruct H as ([s2 log2] & Hsw & Hd). inversion Hd; subst; clear Hd.
      cbn [filter sr_var]. destruct (Nat.eqb w v) eqn:Ewv.
      + apply Nat.eqb_eq in Ewv. subst w. rewrite Hv in Es. inversion Es; subst sst.
        destruct (IH _ _ _ sst' Hsw) as (sv' & Hn & F).
        { simpl. eapply set_nth_same; eauto. }
        exists sv'. split; [exact Hn|]. cbn [map call_of sr_sds sr_acc follows]. split; [reflexivity|]. exists sst'. auto.
      + apply Nat.eqb_neq in Ewv.
        destruct (IH _ _ _ sv Hsw) as (sv' & Hn & F).
        { simpl. rewrite set_nth_other by exact Ewv. exact Hv. }
        exists sv'. auto.
  Qed.

  Lemma run_iters_follows v : forall orders k ast rs ord o sv,
    run_iters iteration_body orders k ast rs ord = Done o -> nth_error (r_samp rs) v = Some sv ->
    exists sv', nth_error (r_samp (o_rs o)) v = Some sv' /\ follows scf sv (map call_of (var_calls v (o_trace o))) sv'.
  Proof.
    induction orders as [|ord_k rest IH]; intros k ast rs ord o sv H Hv; simpl in H.
    - inversion H; subst; simpl. exists sv. split; [exact Hv|reflexivity].
    - apply obind_done in H. destruct H as (x & Hx & H).
      destruct (cells A att regsum n_ind (r_vals (i_rs A x))) as [d|] eqn:Ec; [|discriminate].
      apply obind_done in H. destruct H as (o' & Ho & H). inversion H; subst o; clear H.
      destruct (iteration_inv _ _ _ _ _ _ _ _ _ _ _ _ _ _ _ _ _ _ _ Hx) as (log & Hsw & Hlog & _).
      destruct (sweep_follows _ v _ _ _ _ sv Hsw Hv) as (sv1 & Hn1 & F1).
      destruct (IH _ _ _ _ _ sv1 Ho Hn1) as (sv' & Hn & F).
      exists sv'. split; [exact Hn|]. unfold var_calls in *. cbn [o_trace map snd concat]. rewrite filter_app, map_app, Hlog.
      eapply follows_app; eauto.
  Qed.

  Lemma init_samplers_nth : forall scales samp v sc, init_samplers scf n_ind scales = Done samp -> nth_error scales v = Some sc ->
    exists s0, init_sampler scf ind_scale_factor (repeat sc n_ind) = Anneal.Ok s0 /\ nth_error samp v = Some s0.
  Proof.
    induction scales as [|sc0 r IH]; intros samp v sc H Hv; [destruct v; discriminate|]. simpl in H.
    destruct (init_sampler scf ind_scale_factor (repeat sc0 n_ind)) as [s|e] eqn:E; [|discriminate].
    apply obind_done in H. destruct H as (l & Hl & H). inversion H; subst samp; clear H.
    destruct v as [|v]; simpl in Hv.
    - inversion Hv; subst. exists s. auto.
    - destruct (IH _ _ _ Hl Hv) as (s0 & E0 & N0). exists s0. auto.
  Qed.

  (** THE LINK (b): for every variable, the proposal scales the run used ([sr_sds] of its calls, in call order) are the [std] of
      the states C19's [run_sampler] goes through on the run's OWN acceptance history of that variable, starting from
      [init_sampler] at STD_SCALE_FACTOR x scale; the sampler left in the final state is the last of these states *)
  Theorem run_scales orders init scales tp o v sc :
    personalize_run orders init scales tp = Done o -> nth_error scales v = Some sc ->
    exists s0 sts, init_sampler scf ind_scale_factor (repeat sc n_ind) = Anneal.Ok s0 /\
      run_sampler scf s0 (map sr_acc (var_calls v (o_trace o))) = Anneal.Ok sts /\
      map sr_sds (var_calls v (o_trace o)) = map std (removelast (s0 :: sts)) /\
      nth_error (r_samp (o_rs o)) v = Some (last sts s0).
  Proof.
    intros H Hv. destruct (personalize_run_inv _ _ _ _ _ _ _ _ _ _ _ _ _ _ _ _ _ _ H) as (samp & a0 & Hs & _ & Hr).
    destruct (init_samplers_nth _ _ _ _ Hs Hv) as (s0 & E0 & N0).
    destruct (run_iters_follows v _ _ _ _ _ _ s0 Hr N0) as (sv' & Hn & F).
    destruct (follows_run_sampler _ _ _ _ F) as (sts & R & M & L).
    exists s0, sts. rewrite !map_map in *. split; [exact E0|]. split; [exact R|]. split; [exact M|]. now rewrite <- L.
  Qed.
End Scales.

(** * (a) simulation between carriers *)

Lemma outcome_map_obind {X Y X' Y'} (g : X -> X') (g' : Y -> Y') (r : outcome X) (k : X -> outcome Y) (k' : X' -> outcome Y') :
  (forall x, k' (g x) = outcome_map g' (k x)) -> obind (outcome_map g r) k' = outcome_map g' (obind r k).
Proof. intros H. destruct r; simpl; auto. Qed.

Section Hom.
  Variables A B : Type.
  Variable f : A -> B.
  Variables addA mulA : A -> A -> A.
  Variable ofQA : Q -> A.
  Variable decideA : A -> A -> A -> A -> A -> A -> bool.
  Variable attA : istate A -> list A.
  Variable regvA : nat -> istate A -> list A.
  Variable regsumA : istate A -> list A.
  Variables addB mulB : B -> B -> B.
  Variable ofQB : Q -> B.
  Variable decideB : B -> B -> B -> B -> B -> B -> bool.
  Variable attB : istate B -> list B.
  Variable regvB : nat -> istate B -> list B.
  Variable regsumB : istate B -> list B.
  Hypothesis H : carrier_hom A B f addA mulA ofQA decideA attA regvA regsumA addB mulB ofQB decideB attB regvB regsumB.
  Variable scf : scfg.
  Variable acf : Anneal.cfg.
  Variable nb : Z.
  Variable random_order : bool.
  Variable n_ind : nat.

  Notation tm := (tmap f).

  Lemma tmap_flat : forall t : tens A, flat (tm t) = map f (flat t).
  Proof.
    induction t as [x | l IH] using tens_ind'; [reflexivity|]. simpl.
    induction IH as [|c cs Hc _ IHl]; [reflexivity|]. simpl. now rewrite map_app, Hc, IHl.
  Qed.

  Definition pmapT (p : tens A * list A) : tens B * list B := (tm (fst p), map f (snd p)).
  Definition pmapL (p : list (tens A) * list A) : list (tens B) * list B := (map tm (fst p), map f (snd p)).

  Lemma add_noise_hom sd : forall (t : tens A) zs,
    add_noise addB mulB (f sd) (tm t) (map f zs) = option_map pmapT (add_noise addA mulA sd t zs).
  Proof.
    induction t as [x | l IH] using tens_ind'; intros zs.
    - destruct zs as [|z r]; simpl; [reflexivity|]. unfold pmapT. simpl. now rewrite (h_add _ _ _ _ _ _ _ _ _ _ _ _ _ _ _ _ _ H), (h_mul _ _ _ _ _ _ _ _ _ _ _ _ _ _ _ _ _ H).
    - change (tm (Nd l)) with (Nd (map tm l)). rewrite !add_noise_Nd.
      assert (E : forall zs, add_noise_list addB mulB (f sd) (map tm l) (map f zs) = option_map pmapL (add_noise_list addA mulA sd l zs)).
      { clear zs. induction IH as [|c cs Hc _ IHl]; intros zs; [reflexivity|]. cbn [map add_noise_list]. rewrite Hc.
        destruct (add_noise addA mulA sd c zs) as [[c' zs1]|]; [|reflexivity]. cbn [option_map pmapT fst snd]. rewrite IHl.
        destruct (add_noise_list addA mulA sd cs zs1) as [[cs' zs2]|]; reflexivity. }
      rewrite E. destruct (add_noise_list addA mulA sd l zs) as [[l' zs']|]; reflexivity.
  Qed.

  Lemma add_noise_rows_hom : forall sds (rows : list (tens A)) zs,
    add_noise_rows addB mulB (map f sds) (map tm rows) (map f zs) = option_map pmapL (add_noise_rows addA mulA sds rows zs).
  Proof.
    induction sds as [|sd sds IH]; intros [|r rows] zs; try reflexivity.
    cbn [map add_noise_rows]. rewrite add_noise_hom. destruct (add_noise addA mulA sd r zs) as [[r' zs1]|]; [|reflexivity].
    cbn [option_map pmapT fst snd]. rewrite IH. destruct (add_noise_rows addA mulA sds rows zs1) as [[rs' zs2]|]; reflexivity.
  Qed.

  Lemma decisions_hom tinv : forall pa na pr nr us,
    decisions B decideB (f tinv) (map f pa) (map f na) (map f pr) (map f nr) (map f us)
    = option_map (fun p => (fst p, map f (snd p))) (decisions A decideA tinv pa na pr nr us).
  Proof.
    induction pa as [|a pa IH]; intros [|b na] [|c pr] [|d nr] us; try reflexivity.
    cbn [map decisions]. destruct us as [|u us]; [reflexivity|]. cbn [map]. rewrite IH.
    destruct (decisions A decideA tinv pa na pr nr us) as [[bs r]|]; [|reflexivity]. cbn [option_map fst snd].
    now rewrite (h_decide _ _ _ _ _ _ _ _ _ _ _ _ _ _ _ _ _ H).
  Qed.

  Lemma gmix_hom : forall acc (old new : list (tens A)), gmix B acc (map tm old) (map tm new) = map tm (gmix A acc old new).
  Proof.
    induction acc as [|b acc IH]; intros [|o old] [|n new]; try reflexivity.
    cbn [map gmix]. rewrite IH. now destruct b.
  Qed.

  Definition gmap (p : istate A * tape A * list bool) : istate B * tape B * list bool :=
    (smap f (fst (fst p)), tape_map f (snd (fst p)), snd p).

  Lemma smap_set_nth v (t : tens A) st : smap f (set_nth v t st) = set_nth v (tm t) (smap f st).
  Proof. unfold smap. apply map_set_nth. Qed.

  Lemma gstep_hom v tinv sds st tp :
    gstep B addB mulB decideB attB regvB v (f tinv) (map f sds) (smap f st) (tape_map f tp)
    = option_map gmap (gstep A addA mulA decideA attA regvA v tinv sds st tp).
  Proof.
    unfold gstep. unfold smap at 1. rewrite nth_error_map.
    destruct (nth_error st v) as [[x|rows]|]; try reflexivity. cbn [option_map tmap]. fold (tmap f).
    cbn [tape_map normals uniforms]. rewrite add_noise_rows_hom.
    destruct (add_noise_rows addA mulA sds rows (normals tp)) as [[rows' zs']|]; [|reflexivity]. cbn [option_map pmapL fst snd].
    change (Nd (map tm rows')) with (tm (Nd rows')). rewrite <- smap_set_nth.
    rewrite !(h_att _ _ _ _ _ _ _ _ _ _ _ _ _ _ _ _ _ H), !(h_regv _ _ _ _ _ _ _ _ _ _ _ _ _ _ _ _ _ H), decisions_hom.
    destruct (decisions A decideA tinv (attA st) (attA (set_nth v (Nd rows') st)) (regvA v st) (regvA v (set_nth v (Nd rows') st)) (uniforms tp))
      as [[acc us']|]; [|reflexivity]. cbn [option_map fst snd]. rewrite map_length.
    destruct (Nat.eqb (length acc) (length rows)); [|reflexivity]. cbn [option_map]. unfold gmap. cbn [fst snd].
    rewrite gmix_hom. change (Nd (map tm (gmix A acc rows rows'))) with (tm (Nd (gmix A acc rows rows'))). rewrite <- smap_set_nth. reflexivity.
  Qed.

  Definition swmap (p : rstate A * list (step_rec A)) : rstate B * list (step_rec B) := (rs_map f (fst p), map (step_map f) (snd p)).

  Lemma sweep_hom tinv : forall ord s,
    sweep B addB mulB ofQB decideB attB regvB scf tinv ord (rs_map f s) = outcome_map swmap (sweep A addA mulA ofQA decideA attA regvA scf tinv ord s).
  Proof.
    induction ord as [|v rest IH]; intros s; [reflexivity|]. cbn [sweep]. cbn [rs_map r_samp r_vals r_tape].
    destruct (nth_error (r_samp s) v) as [sst|]; [|reflexivity].
    assert (E : map ofQB (std sst) = map f (map ofQA (std sst))).
    { rewrite map_map. apply map_ext. intros q. symmetry. apply (h_ofQ _ _ _ _ _ _ _ _ _ _ _ _ _ _ _ _ _ H). }
    rewrite E, <- (h_ofQ _ _ _ _ _ _ _ _ _ _ _ _ _ _ _ _ _ H), gstep_hom.
    destruct (gstep A addA mulA decideA attA regvA v (ofQA tinv) (map ofQA (std sst)) (r_vals s) (r_tape s)) as [[[st' tp'] acc]|]; [|reflexivity].
    cbn [option_map gmap fst snd]. destruct (sample_step scf sst acc) as [sst'|e]; [|reflexivity].
    change (mkRs (smap f st') (tape_map f tp') (set_nth v sst' (r_samp s))) with (rs_map f (mkRs st' tp' (set_nth v sst' (r_samp s)))).
    rewrite IH. destruct (sweep A addA mulA ofQA decideA attA regvA scf tinv rest (mkRs st' tp' (set_nth v sst' (r_samp s)))) as [[s2 log]|e]; reflexivity.
  Qed.

  Lemma row_vals_hom (st : istate A) i : row_vals B (smap f st) i = map f (row_vals A st i).
  Proof.
    unfold row_vals, smap. induction st as [|t st IH]; [reflexivity|]. cbn [map flat_map]. rewrite map_app, IH. f_equal.
    destruct t as [x|rows]; [reflexivity|]. cbn [tmap]. rewrite nth_error_map. destruct (nth_error rows i) as [r|]; [|reflexivity].
    cbn [option_map]. apply tmap_flat.
  Qed.

  Lemma combine_map {X Y X' Y'} (g : X -> X') (g' : Y -> Y') : forall l1 l2,
    combine (map g l1) (map g' l2) = map (fun p => (g (fst p), g' (snd p))) (combine l1 l2).
  Proof. induction l1 as [|a l1 IH]; intros [|b l2]; simpl; try reflexivity. now rewrite IH. Qed.

  Lemma cells_hom st : cells B attB regsumB n_ind (smap f st) = option_map (draw_map f) (cells A attA regsumA n_ind st).
  Proof.
    unfold cells. rewrite (h_att _ _ _ _ _ _ _ _ _ _ _ _ _ _ _ _ _ H), (h_regsum _ _ _ _ _ _ _ _ _ _ _ _ _ _ _ _ _ H), !map_length.
    destruct (Nat.eqb (length (attA st)) n_ind && Nat.eqb (length (regsumA st)) n_ind); [|reflexivity]. cbn [option_map]. f_equal.
    rewrite (map_ext _ (fun i => map f (row_vals A st i)) (row_vals_hom st)), <- (map_map (row_vals A st) (map f)).
    rewrite !combine_map. unfold draw_map. apply map_ext. intros [[a b] c]. reflexivity.
  Qed.

  Lemma exec_stmt_hom k ord_k s x :
    exec_stmt B addB mulB ofQB decideB attB regvB regsumB scf acf nb random_order n_ind k ord_k s (iter_map A B f x)
    = outcome_map (iter_map A B f) (exec_stmt A addA mulA ofQA decideA attA regvA regsumA scf acf nb random_order n_ind k ord_k s x).
  Proof.
    destruct s; cbn [exec_stmt]; cbn [iter_map i_ast i_rs i_ord i_rec i_log].
    - reflexivity.
    - rewrite sweep_hom. destruct (sweep A addA mulA ofQA decideA attA regvA scf (temp_inv (i_ast A x)) (i_ord A x) (i_rs A x)) as [[s2 log]|e]; [|reflexivity].
      cbn [outcome_map obind swmap fst snd]. unfold iter_map. cbn [i_ast i_rs i_ord i_rec i_log]. now rewrite map_app.
    - destruct (keep k nb); [|reflexivity]. cbn [rs_map r_vals]. rewrite cells_hom.
      destruct (cells A attA regsumA n_ind (r_vals (i_rs A x))) as [d|]; [|reflexivity]. cbn [option_map outcome_map]. unfold iter_map. cbn [i_ast i_rs i_ord i_rec i_log].
      now rewrite map_app.
    - destruct (update_temperature acf k (i_ast A x)); reflexivity.
  Qed.

  Lemma exec_body_hom k ord_k : forall body x,
    exec_body B addB mulB ofQB decideB attB regvB regsumB scf acf nb random_order n_ind k ord_k body (iter_map A B f x)
    = outcome_map (iter_map A B f) (exec_body A addA mulA ofQA decideA attA regvA regsumA scf acf nb random_order n_ind k ord_k body x).
  Proof.
    induction body as [|s rest IH]; intros x; [reflexivity|]. cbn [exec_body]. rewrite exec_stmt_hom.
    apply outcome_map_obind. exact IH.
  Qed.

  Lemma run_iters_hom body : forall orders k ast rs ord,
    run_iters B addB mulB ofQB decideB attB regvB regsumB scf acf nb random_order n_ind body orders k ast (rs_map f rs) ord
    = outcome_map (out_map f) (run_iters A addA mulA ofQA decideA attA regvA regsumA scf acf nb random_order n_ind body orders k ast rs ord).
  Proof.
    induction orders as [|ord_k rest IH]; intros k ast rs ord; [reflexivity|]. cbn [run_iters].
    change (mkIt B ast (rs_map f rs) ord [] []) with (iter_map A B f (mkIt A ast rs ord [] [])). rewrite exec_body_hom.
    apply outcome_map_obind. intros x. cbn [iter_map i_ast i_rs i_ord i_rec i_log]. cbn [rs_map r_vals]. rewrite cells_hom.
    destruct (cells A attA regsumA n_ind (r_vals (i_rs A x))) as [d|]; [|reflexivity]. cbn [option_map].
    change (mkRs (smap f (r_vals (i_rs A x))) (tape_map f (r_tape (i_rs A x))) (r_samp (i_rs A x))) with (rs_map f (i_rs A x)).
    rewrite IH. apply outcome_map_obind. intros o. unfold out_map. cbn [outcome_map o_ast o_rs o_all o_hist o_trace map fst snd].
    now rewrite map_app.
  Qed.

  (** THE LINK (a): running over [A] then mapping the whole result (final state, tape left, chain, histories, trace of the sampler
      calls with their decisions and scales) through [f] = running over [B] on the mapped initial values and the mapped tape;
      a failing run fails over [B] with the same error *)
  Theorem run_hom orders init scales tp :
    personalize_run B addB mulB ofQB decideB attB regvB regsumB scf acf nb random_order n_ind orders (smap f init) scales (tape_map f tp)
    = outcome_map (out_map f) (personalize_run A addA mulA ofQA decideA attA regvA regsumA scf acf nb random_order n_ind orders init scales tp).
  Proof.
    unfold personalize_run, personalize_run_with.
    destruct (init_samplers scf n_ind scales) as [samp|e]; [|reflexivity]. cbn [obind].
    destruct (init_anneal acf) as [a0|e]; [|reflexivity].
    unfold smap at 2. rewrite map_length.
    change (mkRs (smap f init) (tape_map f tp) samp) with (rs_map f (mkRs init tp samp)). apply run_iters_hom.
  Qed.
End Hom.

(** * Non-vacuity of (b): on the example run (3 shuffled iterations, acceptance window of 2 calls) the scales of variable 0 are the
    initial ones for its first two calls and the ADAPTED ones (one individual shrunk, the other enlarged) for the third *)
Example run_scales_example :
  exists o s0 sts,
    personalize_run Q Qplus Qmult (fun q => q) ex_decide ex_att ex_regv ex_att ex_scf ex_acf 1 true 2 ex_orders ex_init [1; 2]%Q ex_tape = Done o /\
    init_sampler ex_scf ind_scale_factor (repeat 1%Q 2) = Anneal.Ok s0 /\
    run_sampler ex_scf s0 (map sr_acc (var_calls 0 (o_trace o))) = Anneal.Ok sts /\
    map sr_sds (var_calls 0 (o_trace o)) = map std (removelast (s0 :: sts)) /\
    nth_error (r_samp (o_rs o)) 0 = Some (last sts s0) /\
    map (map Qred) (map sr_sds (var_calls 0 (o_trace o))) = [[1 # 2; 1 # 2]; [1 # 2; 1 # 2]; [9 # 20; 11 # 20]]%Q.
Proof.
  destruct (personalize_run Q Qplus Qmult (fun q => q) ex_decide ex_att ex_regv ex_att ex_scf ex_acf 1 true 2 ex_orders ex_init [1; 2]%Q ex_tape)
    as [o|e] eqn:E; [|vm_compute in E; discriminate].
  destruct (run_scales _ _ _ _ _ _ _ _ _ _ _ _ _ _ _ _ _ o 0%nat 1%Q E eq_refl) as (s0 & sts & I0 & R0 & M0 & N0).
  exists o, s0, sts. repeat split; auto.
  vm_compute in E. inversion E; subst o. vm_compute. reflexivity.
Qed.
