(* C11 — what the six methods of the output manager DO, as lists of abstract operations read from the source
   (coq/gen/GenC11Obs.v, harness/translate/c11_observers.py), and which event scripts of ApiModel.v realise such a list.

   Definitions only (proofs: ObserverSrcProofs.v; the generated value: ObserverSrcTie.v).

   An abstract operation names ONE statement-level effect of `FitOutputManager.<method>` (algo/fit/fit_output_manager.py) or of a
   function it reaches (`__str__` of the algorithm / model, `compute_individual_trajectory`, ...):
   * `OReadState name`  a load from the model's State: `state[name]`, `get_tensor_value`, `tracked_variables` (name "*" when it is computed)
   * `OReadModel`       an attribute load / whitelisted pure reader on the model, the algorithm or the dataset (it may read the State)
   * `OSaveState`       `State.save` (the save itself and the reads of the tracked variables it makes; csv files)
   * `OWriteOwn`        an assignment to an attribute of the output manager itself, a local file, a matplotlib call
   * `OCloneAndRead`    `State.clone` followed by anything on the clone (and reads of the model's State)
   The remaining constructors are the effects the property forbids to logging.  The translator refuses them (broken translation);
   they exist so that the decision `ops_allowed` and the theorem are not vacuous. *)
From Coq Require Import List Bool String.
From Leaspy Require Import Api.ApiModel Api.RunProg.
Import ListNotations.

Inductive obs_op :=
| OReadState (name : string)
| OReadModel
| OSaveState
| OWriteOwn
| OCloneAndRead
| OWriteState (name : string)   (* state[name] = ... / put / revert on the model's State *)
| OWriteAlgo                    (* algo.<attr> = ...   : a register of the algorithm *)
| OWriteModel                   (* model.<attr> = ...  : includes `model.state = ...` *)
| ODraw                         (* an RNG entry point *)
| OSeed.

Definition op_allowed (op : obs_op) : bool :=
  match op with
  | OReadState _ | OReadModel | OSaveState | OWriteOwn | OCloneAndRead => true
  | OWriteState _ | OWriteAlgo | OWriteModel | ODraw | OSeed => false
  end.
Definition ops_allowed (l : list obs_op) : bool := forallb op_allowed l.

Definition all_onames : list oname := [OPrintAlgo; OPrintModel; OPrintTime; OSave; OPlotPatients; OPlotConvergence].

Section Obs.
  Variable V : Type.

  Definition on_local (e : ev V) : bool :=
    match e with
    | EGet (Loc _) _ | ESet (Loc _) _ _ | ESetIf (Loc _) _ _ | ESave (Loc _) | EClone (Loc _) => true
    | _ => false
    end.
  Definition is_cur_get (e : ev V) : bool := match e with EGet Cur _ => true | _ => false end.

  (* the events one abstract operation may stand for.  `OWriteOwn` stands for NO event: the observer's own registers, files and
     figures are outside the store (run_obs discards them).  `OWriteAlgo` has no event either — the event model cannot even
     express it (run_obs restores the algorithm's registers): that the source contains none is what justifies that modelling. *)
  Definition ev_of_op (op : obs_op) (e : ev V) : bool :=
    match op with
    | OReadState _ | OReadModel => is_cur_get e
    | OSaveState => match e with ESave Cur => true | _ => is_cur_get e end   (* `State.save` = the reads of the tracked variables *)
    | OWriteOwn => false
    | OCloneAndRead => match e with EClone Cur => true | _ => on_local e || is_cur_get e end
    | OWriteState _ => match e with ESet Cur _ _ | ESetIf Cur _ _ => true | _ => false end
    | OWriteAlgo => false
    | OWriteModel => match e with EReplace _ => true | _ => false end
    | ODraw => match e with EDraw _ _ => true | _ => false end
    | OSeed => match e with ESeed _ _ => true | _ => false end
    end.

  (* `realises ops s`: every event of the script is of the kind of SOME operation of the list (order-insensitive: the methods
     loop, so the operations interleave).  Decidable: the same predicate is evaluated on recorded observer segments. *)
  Definition realises (ops : list obs_op) (s : list (ev V)) : bool :=
    forallb (fun e => existsb (fun op => ev_of_op op e) ops) s.

  (* a canonical realisation, for ANY reading of the names: `vars name` = the variables a name denotes, `mv` = the variables a
     model-level reader reads, `w` = the value an assignment on a clone writes *)
  Definition den1 (vars : string -> list nat) (mv : list nat) (w : regs V -> option V) (op : obs_op) : list (ev V) :=
    match op with
    | OReadState n => map (@EGet V Cur) (vars n)
    | OReadModel => map (@EGet V Cur) mv
    | OSaveState => [@ESave V Cur]
    | OWriteOwn => []
    | OCloneAndRead => @EClone V Cur :: @ESet V (Loc 0) (hd 0 mv) w :: map (@EGet V (Loc 0)) mv
    | OWriteState n => map (fun k => @ESet V Cur k w) (vars n)
    | OWriteAlgo => []
    | OWriteModel => [@EReplace V Cur]
    | ODraw => [@EDraw V GTorch (fun _ => true)]
    | OSeed => [@ESeed V GTorch 0]
    end.
  Definition den vars mv w (ops : list obs_op) : list (ev V) := flat_map (den1 vars mv w) ops.
End Obs.
