(** C17 — the MCMC chain of a sampling-based personalisation as the OUTPUT of the model
    (leaspy/algo/personalize/mcmc.py::_get_individual_parameters l.54-110, ::_initialize_algo l.112-141,
    algo/algo_with_samplers.py::_initialize_individual_samplers l.115-143, samplers/gibbs.py::IndividualGibbsSampler).
    Definitions only; proofs are in PersonalizeChainProofs.v, the tie to the skeleton regenerated from the source
    (gen/GenC17Chain.v) in PersonalizeChainTie.v, the executable checkers in PersonalizeChainExec.v.

    Ingredients that are IMPORTED, not copied:
    - C03 (Sampler/SamplerModel.v): tensors, tapes, [add_noise_rows] (the proposal of the individual sampler),
      [acceptb], [alpha]; the step [gstep] below is [ind_step] itself on the carrier R (PersonalizeChainProofs.gstep_is_ind_step);
    - C19 (Saem/Anneal.v): [init_anneal], [update_temperature] — `temperature_inv` handed to the samplers of iteration k is
      [temp_inv] of the state after k-1 updates ([state_at c (k-1)]);
    - C19 (Sampler/AdaptiveStd.v): [init_sampler], [sample_step] — the proposal scale of every sampler call;
    - C17 (Api/Personalize.v): [keep] (`if not self._is_burn_in()`), [history], [personalize_mode], [personalize_mean].

    What one iteration does is a LIST OF STATEMENTS ([iteration_body]) that [exec_stmt] interprets; the translator regenerates
    that list from the `for self.current_iteration in range(1, n_iter + 1)` loop (order of the statements, what is passed as
    temperature, what is appended under which test), PersonalizeChainTie.v proves the two lists equal.

    The carrier [A] is R in the statements about decisions and Q when the model is executed; the acceptance decision is a
    parameter [decide u pa na pr nr tinv] (on R: [acceptb u (alpha pa na pr nr tinv)], i.e. u < exp(-D)).
    `nll_attach_ind`, `nll_regul_<var>_ind`, `nll_regul_ind_sum_ind` are functions of the values of the individual latent
    variables (model parameters, population variables and data are FIXED during the run: no statement below can assign them).
    Randomness: the C03 tape (normals, uniforms) plus the list [orders] of the permutations `random.shuffle` leaves in
    `individual_variable_names` (one per iteration; ignored when `random_order_variables` is off). *)
From Coq Require Import String ZArith QArith List Bool Arith.
From Leaspy Require Import Base.QAux Sampler.SamplerModel Saem.Anneal Sampler.AdaptiveStd Api.Personalize.
Import ListNotations.

Inductive run_error :=
| StepFailed                       (* C03's [None]: tape exhausted, or a state / oracle vector of the wrong shape *)
| UnknownVariable                  (* the order names a variable without sampler *)
| AnnealError (e : Anneal.err)     (* _initialize_annealing / _update_temperature raised *)
| SamplerError (e : Anneal.err).   (* the sampler constructor / _update_std raised *)

Inductive outcome (X : Type) := Done (x : X) | Failed (e : run_error).
Arguments Done {X} x.
Arguments Failed {X} e.

Definition obind {X Y} (r : outcome X) (f : X -> outcome Y) : outcome Y :=
  match r with Done x => f x | Failed e => Failed e end.

(** the statements of the body of the iteration loop (mcmc.py l.67-84) *)
Inductive stmt :=
| SShuffle      (* if self.random_order_variables: shuffle(individual_variable_names) *)
| SSweep        (* for name in individual_variable_names: self.samplers[name].sample(state, temperature_inv=self.temperature_inv) *)
| SRecord       (* if not self._is_burn_in(): append state[name] for every name, nll_attach_ind, nll_regul_ind_sum_ind *)
| SAnneal.      (* self._update_temperature() *)

Definition iteration_body : list stmt := [SShuffle; SSweep; SRecord; SAnneal].

(** what SRecord reads, and what the sweep passes as temperature (compared with the source by the tie) *)
Definition record_reads : list (string * string) :=
  [("values_history", "state[name]"); ("attachment_history", "nll_attach_ind"); ("regularity_history", "nll_regul_ind_sum_ind")]%string.
Definition sweep_temperature : string := "self.temperature_inv"%string.
(** `_initialize_algo`: individual latent variables at the mode of their prior, then the samplers, then the annealing *)
Definition init_calls : list string :=
  ["put_data_variables"; "put_individual_latent_variables:PRIOR_MODE"; "_initialize_samplers"; "_initialize_annealing"]%string.
(** effects of IndividualGibbsSampler.sample in order (gibbs.py l.679-761) *)
Definition sample_effects : list string :=
  ["read"; "put:self.name:_proposed_change:accumulate"; "read"; "_group_metropolis_step"; "revert:~accepted";
   "_update_acceptation_rate"; "_update_std"]%string.
(** IndividualGibbsSampler.STD_SCALE_FACTOR *)
Definition ind_scale_factor : Q := 1 # 2.

Fixpoint set_nth {X} (i : nat) (x : X) (l : list X) : list X :=
  match l, i with
  | [], _ => []
  | _ :: r, O => x :: r
  | a :: r, S j => a :: set_nth j x r
  end.

Definition nrows {A} (t : tens A) : nat := match t with Nd rows => length rows | Sc _ => 0 end.

Section Chain.
  Variable A : Type.
  Variables add mul : A -> A -> A.
  Variable ofQ : Q -> A.
  (** [decide u pa na pr nr tinv]: the acceptance decision for the uniform draw [u] *)
  Variable decide : A -> A -> A -> A -> A -> A -> bool.

  (** the values of the individual latent variables, one tensor [Nd rows] (row i = individual i) per variable, in the
      sorted order of the names *)
  Definition istate := list (tens A).

  Variable att : istate -> list A.           (* nll_attach_ind *)
  Variable regv : nat -> istate -> list A.   (* nll_regul_<v>_ind (mixture: after the cluster weighting, as in C03) *)
  Variable regsum : istate -> list A.        (* nll_regul_ind_sum_ind *)
  Variable scf : scfg.                       (* sampler_ind_params *)
  Variable acf : Anneal.cfg.                 (* annealing *)
  Variable nb : Z.                           (* n_burn_in_iter *)
  Variable random_order : bool.              (* random_order_variables *)
  Variable n_ind : nat.

  (** _group_metropolis_step on the threshold of every individual: one uniform per individual, always *)
  Fixpoint decisions (tinv : A) (pa na pr nr us : list A) : option (list bool * list A) :=
    match pa, na, pr, nr with
    | [], [], [], [] => Some ([], us)
    | a :: pa', b :: na', c :: pr', d :: nr' =>
        match us with
        | u :: us' => match decisions tinv pa' na' pr' nr' us' with
                      | Some (bs, r) => Some (decide u a b c d tinv :: bs, r)
                      | None => None
                      end
        | [] => None
        end
    | _, _, _, _ => None
    end.

  Fixpoint gmix (acc : list bool) (old new : list (tens A)) : list (tens A) :=
    match acc, old, new with
    | b :: acc', o :: old', n :: new' => (if b then n else o) :: gmix acc' old' new'
    | _, _, _ => []
    end.

  (** one call `self.samplers[v].sample(state, temperature_inv=tinv)`: C03's [ind_step] for variable [v], the other
      variables of the state being left as they are *)
  Definition gstep (v : nat) (tinv : A) (sds : list A) (st : istate) (tp : tape A) : option (istate * tape A * list bool) :=
    match nth_error st v with
    | Some (Nd rows) =>
        match add_noise_rows add mul sds rows (normals tp) with
        | Some (rows', zs') =>
            let st' := set_nth v (Nd rows') st in
            match decisions tinv (att st) (att st') (regv v st) (regv v st') (uniforms tp) with
            | Some (acc, us') =>
                if Nat.eqb (length acc) (length rows)
                then Some (set_nth v (Nd (gmix acc rows rows')) st, Build_tape zs' us', acc)
                else None
            | None => None
            end
        | None => None
        end
    | _ => None
    end.

  (** values, tape and samplers (one [sstate] per variable) *)
  Record rstate := mkRs { r_vals : istate; r_tape : tape A; r_samp : list sstate }.

  (** one sampler call, as observed *)
  Record step_rec := mkStep {
    sr_var : nat; sr_tinv : Q; sr_sds : list Q;
    sr_before : istate; sr_tape : tape A;
    sr_after : istate; sr_tape' : tape A;
    sr_acc : list bool }.

  (** the inner loop over [ord]; every call ends with _update_acceptation_rate(accepted); _update_std() *)
  Fixpoint sweep (tinv : Q) (ord : list nat) (s : rstate) : outcome (rstate * list step_rec) :=
    match ord with
    | [] => Done (s, [])
    | v :: rest =>
        match nth_error (r_samp s) v with
        | None => Failed UnknownVariable
        | Some sst =>
            match gstep v (ofQ tinv) (map ofQ (std sst)) (r_vals s) (r_tape s) with
            | None => Failed StepFailed
            | Some (st', tp', acc) =>
                match sample_step scf sst acc with
                | Anneal.Err e => Failed (SamplerError e)
                | Anneal.Ok sst' =>
                    obind (sweep tinv rest (mkRs st' tp' (set_nth v sst' (r_samp s)))) (fun r =>
                    Done (fst r, mkStep v tinv (std sst) (r_vals s) (r_tape s) st' tp' acc :: snd r))
                end
            end
        end
    end.

  (** one cell per individual: values of all its individual variables (sorted-name order, flattened), attachment, regularity *)
  Definition gcell : Type := list A * A * A.
  Definition gdraw := list gcell.

  Definition row_vals (st : istate) (i : nat) : list A :=
    flat_map (fun x => match x with
                       | Nd rows => match nth_error rows i with Some r => flat r | None => [] end
                       | Sc _ => []
                       end) st.

  Definition cells (st : istate) : option gdraw :=
    if Nat.eqb (length (att st)) n_ind && Nat.eqb (length (regsum st)) n_ind
    then Some (combine (combine (map (row_vals st) (seq 0 n_ind)) (att st)) (regsum st))
    else None.

  (** the variables one iteration reads and writes *)
  Record iter_st := mkIt {
    i_ast : astate;            (* the annealing attributes of the algorithm object *)
    i_rs : rstate;
    i_ord : list nat;          (* `individual_variable_names` (shuffled IN PLACE: persists across iterations) *)
    i_rec : list gdraw;        (* what this iteration appended to the histories: nothing or one draw *)
    i_log : list step_rec }.

  Definition exec_stmt (k : Z) (ord_k : list nat) (s : stmt) (x : iter_st) : outcome iter_st :=
    match s with
    | SShuffle => Done (mkIt (i_ast x) (i_rs x) (if random_order then ord_k else i_ord x) (i_rec x) (i_log x))
    | SSweep =>
        obind (sweep (temp_inv (i_ast x)) (i_ord x) (i_rs x)) (fun r =>
        Done (mkIt (i_ast x) (fst r) (i_ord x) (i_rec x) (i_log x ++ snd r)))
    | SRecord =>
        if keep k nb then
          match cells (r_vals (i_rs x)) with
          | Some d => Done (mkIt (i_ast x) (i_rs x) (i_ord x) (i_rec x ++ [d]) (i_log x))
          | None => Failed StepFailed
          end
        else Done x
    | SAnneal =>
        match update_temperature acf k (i_ast x) with
        | Anneal.Ok a => Done (mkIt a (i_rs x) (i_ord x) (i_rec x) (i_log x))
        | Anneal.Err e => Failed (AnnealError e)
        end
    end.

  Fixpoint exec_body (k : Z) (ord_k : list nat) (body : list stmt) (x : iter_st) : outcome iter_st :=
    match body with
    | [] => Done x
    | s :: rest => obind (exec_stmt k ord_k s x) (exec_body k ord_k rest)
    end.

  (** what a run produces *)
  Record run_out := mkOut {
    o_ast : astate;                        (* annealing attributes when the estimator is called *)
    o_rs : rstate;                         (* final values, tape left, samplers *)
    o_all : list gdraw;                    (* THE CHAIN: element k-1 = the state after the sweep of iteration k (burn-in included) *)
    o_hist : list gdraw;                   (* what the code appended to the three histories *)
    o_trace : list (Z * list step_rec) }.  (* the sampler calls of every iteration *)

  (** `for self.current_iteration in range(1, n_iter + 1)`, [body] being the statements of the loop *)
  Fixpoint run_iters (body : list stmt) (orders : list (list nat)) (k : Z) (ast : astate) (rs : rstate) (ord : list nat)
    : outcome run_out :=
    match orders with
    | [] => Done (mkOut ast rs [] [] [])
    | ord_k :: rest =>
        obind (exec_body k ord_k body (mkIt ast rs ord [] [])) (fun x =>
        match cells (r_vals (i_rs x)) with
        | None => Failed StepFailed
        | Some d =>
            obind (run_iters body rest (k + 1) (i_ast x) (i_rs x) (i_ord x)) (fun o =>
            Done (mkOut (o_ast o) (o_rs o) (d :: o_all o) (i_rec x ++ o_hist o) ((k, i_log x) :: o_trace o)))
        end)
    end.

  (** `_initialize_individual_samplers`: std = STD_SCALE_FACTOR * scale * ones(n_individuals), scale = mean of the prior stddev *)
  Fixpoint init_samplers (scales : list Q) : outcome (list sstate) :=
    match scales with
    | [] => Done []
    | sc :: r =>
        match init_sampler scf ind_scale_factor (repeat sc n_ind) with
        | Anneal.Err e => Failed (SamplerError e)
        | Anneal.Ok s => obind (init_samplers r) (fun l => Done (s :: l))
        end
    end.

  (** the whole `_get_individual_parameters` up to the call of the estimator; [init] = the individual variables at the mode
      of their prior, [scales] = the scale of each sampler, [length orders] = n_iter *)
  Definition personalize_run_with (body : list stmt) (orders : list (list nat)) (init : istate) (scales : list Q) (tp : tape A)
    : outcome run_out :=
    obind (init_samplers scales) (fun samp =>
    match init_anneal acf with
    | Anneal.Err e => Failed (AnnealError e)
    | Anneal.Ok a0 => run_iters body orders 1 a0 (mkRs init tp samp) (seq 0 (length init))
    end).

  Definition personalize_run := personalize_run_with iteration_body.

  (** element k-1 of a list, for 1-based iteration numbers *)
  Definition at_iter {X} (l : list X) (k : Z) : option X := if (1 <=? k)%Z then nth_error l (Z.to_nat (k - 1)) else None.

  (** the kept part of a list of per-iteration values starting at iteration [k] *)
  Fixpoint fkeep {X} (k : Z) (l : list X) : list X :=
    match l with
    | [] => []
    | d :: r => if keep k nb then d :: fkeep (k + 1) r else fkeep (k + 1) r
    end.

  (** consecutive sampler calls: each starts where the previous one stopped *)
  Fixpoint chained (st : istate) (tp : tape A) (steps : list step_rec) (st' : istate) (tp' : tape A) : Prop :=
    match steps with
    | [] => st = st' /\ tp = tp'
    | r :: rest => sr_before r = st /\ sr_tape r = tp /\ chained (sr_after r) (sr_tape' r) rest st' tp'
    end.

  (** one recorded call is a step of the model at the scale and inverse temperature it names *)
  Definition step_ok (r : step_rec) : Prop :=
    gstep (sr_var r) (ofQ (sr_tinv r)) (map ofQ (sr_sds r)) (sr_before r) (sr_tape r) = Some (sr_after r, sr_tape' r, sr_acc r).

  (** the sampler calls of the iterations k, k+1, ... chain from ([st], [tp]) to ([st'], [tp']); those of one iteration run at
      the inverse temperature in force at its start, the draw of the chain is what the state reads as after its last call,
      and the temperature is updated once per iteration *)
  Fixpoint trace_ok (k : Z) (ast : astate) (st : istate) (tp : tape A) (tr : list (Z * list step_rec)) (all : list gdraw)
           (st' : istate) (tp' : tape A) : Prop :=
    match tr, all with
    | [], [] => st = st' /\ tp = tp'
    | (k', log) :: rest, d :: all' =>
        k' = k /\ Forall step_ok log /\ Forall (fun r => sr_tinv r = temp_inv ast) log /\
        exists st1 tp1 ast1,
          chained st tp log st1 tp1 /\ cells st1 = Some d /\ update_temperature acf k ast = Anneal.Ok ast1 /\
          trace_ok (k + 1) ast1 st1 tp1 rest all' st' tp'
    | _, _ => False
    end.
End Chain.

Arguments mkStep {A}.
Arguments sr_var {A}. Arguments sr_tinv {A}. Arguments sr_sds {A}. Arguments sr_before {A}. Arguments sr_tape {A}.
Arguments sr_after {A}. Arguments sr_tape' {A}. Arguments sr_acc {A}.
Arguments mkRs {A}. Arguments r_vals {A}. Arguments r_tape {A}. Arguments r_samp {A}.
Arguments mkOut {A}. Arguments o_ast {A}. Arguments o_rs {A}. Arguments o_all {A}. Arguments o_hist {A}. Arguments o_trace {A}.
Arguments at_iter {X}.

(** * The two instances *)
From Coq Require Import Reals Qreals.

(** decisions over R: C03's rule *)
Definition decideR (u pa na pr nr tinv : R) : bool := acceptb u (alpha pa na pr nr tinv).
(** decisions of a rational run: the same rule on the images *)
Definition decideQR (u pa na pr nr tinv : Q) : bool := decideR (Q2R u) (Q2R pa) (Q2R na) (Q2R pr) (Q2R nr) (Q2R tinv).

(** the chain of the existing C17 model made of the generated draws: [chain_q all k] = the state after iteration k *)
Definition cell_q (t : list Q * Q * Q) : cell := mkCell (fst (fst t)) (snd (fst t)) (snd t).
Definition chain_q (all : list (list (list Q * Q * Q))) : chain :=
  fun k => if (1 <=? k)%Z then map cell_q (nth (Z.to_nat (k - 1)) all []) else [].

(** the two sampling-based algorithms END TO END on a rational run: the existing estimators applied to the GENERATED chain *)
Section EndToEnd.
  Variable decide : Q -> Q -> Q -> Q -> Q -> Q -> bool.
  Variable att : list (tens Q) -> list Q.
  Variable regv : nat -> list (tens Q) -> list Q.
  Variable regsum : list (tens Q) -> list Q.
  Variables (scf : scfg) (acf : Anneal.cfg) (nb : Z) (random_order : bool).

  Definition runQ (ids : list pid) := personalize_run Q Qplus Qmult (fun q => q) decide att regv regsum scf acf nb random_order (length ids).

  Definition n_iter_of (orders : list (list nat)) : Z := Z.of_nat (length orders).

  Definition chain_mode (orders : list (list nat)) init scales tp (ids : list pid) : outcome (Personalize.result (list (string * list Q))) :=
    obind (runQ ids orders init scales tp) (fun o => Done (personalize_mode (chain_q (o_all o)) (n_iter_of orders) nb ids)).

  Definition chain_mean (orders : list (list nat)) init scales tp (ids : list pid) (dim : nat) : outcome (Personalize.result (list (string * list Q))) :=
    obind (runQ ids orders init scales tp) (fun o => Done (personalize_mean (chain_q (o_all o)) (n_iter_of orders) nb ids dim)).
End EndToEnd.
