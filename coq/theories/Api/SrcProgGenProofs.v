(* The programs REGENERATED from today's source (LeaspyGen.GenC13) are the reference programs of SrcProg.v — decided by
   computation — hence, by SrcProgProofs.v, they denote the hand-written scripts of ApiCalls.v for every instance, and the
   theorems of ApiCallsProofs.v hold for them.  A change of the source that moves a put from a clone to `model.state`,
   drops a clean-up, adds `model.state = ...` regenerates another program and these lemmas stop compiling. *)
From Coq Require Import List Arith Bool String Lia.
From Leaspy Require Import Api.ApiModel Api.ApiProofs Api.ApiCalls Api.ApiCallsProofs Api.SrcProg Api.SrcProgProofs.
From LeaspyGen Require Import GenC13.
Import ListNotations.

Lemma gen_estimate_is_ref : gen_estimate = ref_estimate.
Proof. reflexivity. Qed.
Lemma gen_estimate_joint_is_ref : gen_estimate_joint = ref_estimate_joint.
Proof. reflexivity. Qed.

Section GenProofs.
  Variable V : Type.
  Variable sread : st V -> nat -> st V * option V.
  Variable swrite : st V -> nat -> option V -> st V.
  Variable sclone : st V -> st V.
  Variable tracked : list nat.
  Variable tape : gen -> nat -> V.
  Variable seed_pos : gen -> nat -> nat.
  Notation api_call := (api_call V sread swrite sclone tracked tape seed_pos).

  (* estimate as written in the source today: for every instance the program denotes `estimate_many` of the requests of
     the instance, every event of the script leaves the model's state alone and uses no generator, and the call leaves the
     model's State OBJECT, the pointer to it and the generators as they were *)
  Theorem src_estimate_pure (joint : bool) (I : inst V) :
    exists script,
      denote V I (if joint then gen_estimate_joint else gen_estimate) = Some script
      /\ script = (if joint
                   then estimate_many V 0 (i_name V I "t") (estj_outs V I) (map (estj_req V I) (seq 0 (i_n V I)))
                   else estimate_many V 0 (i_name V I "t") [i_name V I "model"] (map (est_req V I) (seq 0 (i_n V I))))
      /\ forallb (untouched_ev V) script = true /\ forallb (nodraw_ev V) script = true
      /\ forall s p c', api_call script s p = Some c' -> nth_error (cS c') 0 = Some s /\ cCur c' = 0 /\ cPos c' = p.
  Proof.
    destruct joint.
    - rewrite gen_estimate_joint_is_ref, ref_estimate_joint_denotes. eexists; split; [reflexivity|]. split; [reflexivity|].
      destruct (estimate_many_untouched V (i_name V I "t") (estj_outs V I) (map (estj_req V I) (seq 0 (i_n V I))) 0) as (A & B).
      repeat split; auto; eapply estimate_many_pure; eauto.
    - rewrite gen_estimate_is_ref, ref_estimate_denotes. eexists; split; [reflexivity|]. split; [reflexivity|].
      destruct (estimate_many_untouched V (i_name V I "t") [i_name V I "model"] (map (est_req V I) (seq 0 (i_n V I))) 0) as (A & B).
      repeat split; auto; eapply estimate_many_pure; eauto.
  Qed.
End GenProofs.

(* ---------------------------------------------------------------------- non-vacuity on the memo table of ApiInst.v *)
From Coq Require Import ZArith.
From Leaspy Require Import Api.ApiInst Api.ApiCallsInst.

Module SrcDemo.
  Import Memo.
  Local Open Scope string_scope.
  Definition names (s : string) : nat :=
    if String.eqb s "t" then 0 else if String.eqb s "model" then 2 else 1.

  (* two requests, time points 7 and 8, no individual parameter *)
  Definition est_inst : inst V :=
    Inst V names [] [0] [1] [] [1] (fun _ _ => []) 3 2
         (fun _ j _ => Some (7 + Z.of_nat j)%Z) (fun _ => []) (fun _ _ => None) (fun _ _ => []) (fun _ _ => 0).

  Lemma estimate_demo :
    denote V est_inst gen_estimate = Some MemoCalls.est2
    /\ option_map (fun c => (cRegs c, nth_error (cS c) 0, cCur c))
                  (match denote V est_inst gen_estimate with Some sc => api_call sc after_fit (4, 5, 6) | None => None end)
       = Some ([Some 18%Z; Some 17%Z], Some after_fit, 0).
  Proof. split; vm_compute; reflexivity. Qed.
End SrcDemo.
