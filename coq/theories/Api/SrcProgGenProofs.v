(* The programs REGENERATED from today's source (LeaspyGen.GenC13) are the reference programs of SrcProg.v — decided by
   computation — hence, by SrcProgProofs.v, they denote the hand-written scripts of ApiCalls.v for every instance, and the
   theorems of ApiCallsProofs.v hold for them.  A change of the source that moves a put from a clone to `model.state`,
   drops a clean-up, adds `model.state = ...` regenerates another program and these lemmas stop compiling. *)
From Coq Require Import List Arith Bool String Lia.
From Leaspy Require Import Api.ApiModel Api.ApiProofs Api.ApiCalls Api.ApiCallsProofs Api.SrcProg Api.SrcProgProofs.
From LeaspyGen Require Import GenC13.
Import ListNotations.

Lemma gen_estimate_is_ref : gen_estimate = ref_estimate.
Proof. reflexivity. Qed.
Lemma gen_estimate_joint_is_ref : gen_estimate_joint = ref_estimate_joint.
Proof. reflexivity. Qed.

Lemma gen_mcmc_is_ref : gen_mcmc = ref_mcmc.
Proof. reflexivity. Qed.
Lemma gen_scipy_is_ref : gen_scipy = ref_scipy.
Proof. reflexivity. Qed.
Lemma gen_simulate_foot_readonly : forallb readonly_atom gen_simulate_foot = true.
Proof. reflexivity. Qed.
Lemma gen_settings_copy_is_deep : gen_settings_copy = CopyDeep.
Proof. reflexivity. Qed.

(* the caller's settings: the kind of copy read from BaseAlgorithm.__init__ today is the deep one, so every sequence of
   writes of the algorithm into ITS parameters leaves the caller's view unchanged *)
Theorem src_settings_copied h a ws :
  caller_ok h a ->
  view_dict (do_writes (snd (copy_of gen_settings_copy h a)) (fst (copy_of gen_settings_copy h a)) ws) a = view_dict h a.
Proof. rewrite gen_settings_copy_is_deep. exact (settings_copied h a ws). Qed.

Section GenProofs.
  Variable V : Type.
  Variable sread : st V -> nat -> st V * option V.
  Variable swrite : st V -> nat -> option V -> st V.
  Variable sclone : st V -> st V.
  Variable tracked : list nat.
  Variable tape : gen -> nat -> V.
  Variable seed_pos : gen -> nat -> nat.
  Notation api_call := (api_call V sread swrite sclone tracked tape seed_pos).

  (* estimate as written in the source today: for every instance the program denotes `estimate_many` of the requests of
     the instance, every event of the script leaves the model's state alone and uses no generator, and the call leaves the
     model's State OBJECT, the pointer to it and the generators as they were *)
  Theorem src_estimate_pure (joint : bool) (I : inst V) :
    exists script,
      denote V I (if joint then gen_estimate_joint else gen_estimate) = Some script
      /\ script = (if joint
                   then estimate_many V 0 (i_name V I "t") (estj_outs V I) (map (estj_req V I) (seq 0 (i_n V I)))
                   else estimate_many V 0 (i_name V I "t") [i_name V I "model"] (map (est_req V I) (seq 0 (i_n V I))))
      /\ forallb (untouched_ev V) script = true /\ forallb (nodraw_ev V) script = true
      /\ forall s p c', api_call script s p = Some c' -> nth_error (cS c') 0 = Some s /\ cCur c' = 0 /\ cPos c' = p.
  Proof.
    destruct joint.
    - rewrite gen_estimate_joint_is_ref, ref_estimate_joint_denotes. eexists; split; [reflexivity|]. split; [reflexivity|].
      destruct (estimate_many_untouched V (i_name V I "t") (estj_outs V I) (map (estj_req V I) (seq 0 (i_n V I))) 0) as (A & B).
      repeat split; auto; eapply estimate_many_pure; eauto.
    - rewrite gen_estimate_is_ref, ref_estimate_denotes. eexists; split; [reflexivity|]. split; [reflexivity|].
      destruct (estimate_many_untouched V (i_name V I "t") [i_name V I "model"] (map (est_req V I) (seq 0 (i_n V I))) 0) as (A & B).
      repeat split; auto; eapply estimate_many_pure; eauto.
  Qed.

  Variable anc : nat -> list nat.
  Variable indep : nat -> bool.
  Variable simOn : view -> st V -> st V -> Prop.
  Hypothesis SI : state_interface V sread swrite sclone anc indep simOn.

  (* mean_posterior / mode_posterior as written in the source today: the program denotes `mcmc_call` with everything that
     precedes the clean-up acting on the model's own state without any clone, a clean-up that unsets "t", every observation
     variable and every individual latent variable, and a tail that addresses later clones only; hence the model is left
     clean.  Hypothesis left: the samplers assign data / individual variables only ([sampling_ok], computable). *)
  Theorem src_mcmc_call_clean (I : inst V) :
    denote V I gen_mcmc = Some (mcmc_call V (mcmc_pre V I) (mcmc_dvars V I) (i_ind V I) (mcmc_tail V I))
    /\ forallb (clones_from V 1) (mcmc_tail V I) = true
    /\ (sampling_ok V I = true ->
        forallb (fun e => writes_in V (mem (mcmc_dvars V I ++ i_ind V I)) e && noclone_ev V e) (mcmc_pre V I) = true
        /\ forall (P : view) s p c',
             simOn ApiModel.top s s ->
             (forall n, In n (mcmc_dvars V I ++ i_ind V I) -> P n = false /\ indep n = true) ->
             api_call (mcmc_call V (mcmc_pre V I) (mcmc_dvars V I) (i_ind V I) (mcmc_tail V I)) s p = Some c' ->
             exists sf, model_state V c' = Some sf /\ cCur c' = 1 /\ simOn P sf s /\
                        forall n, In n (mcmc_dvars V I ++ i_ind V I) -> snd (sread sf n) = None).
  Proof.
    split; [rewrite gen_mcmc_is_ref; apply ref_mcmc_denotes|]. split; [apply mcmc_tail_late|].
    intros Hw. pose proof (mcmc_pre_ok V I Hw) as Hpre. split; [exact Hpre|].
    intros P s p c' Hwf Hvars H.
    eapply (mcmc_call_clean V sread swrite sclone tracked tape seed_pos anc indep simOn SI); eauto. apply mcmc_tail_late.
  Qed.

  (* scipy_minimize as written in the source today: whenever the program denotes a script, it is `scipy_call` — seeds, reads
     of the prior parameters on the model's state, then work ALL of whose events address per-individual clones (the puts of
     the data and of the start point, the optimiser: on `states[idx]`, decided from the source) — for any number of
     individuals and any optimiser activity; hence `model.state` is the same object and reads as before. *)
  Theorem src_scipy_call_pure (I : inst V) script :
    denote V I gen_scipy = Some script ->
    exists work, script = scipy_call V (i_seed V I) (i_scal V I) work
      /\ forallb (untouched_ev V) work = true
      /\ forallb (writes_in V (fun _ => false)) script = true
      /\ forall s p c', simOn ApiModel.top s s -> api_call script s p = Some c' ->
           exists s', model_state V c' = Some s' /\ cCur c' = 0 /\ simOn ApiModel.top s' s /\ forall n, snd (sread s' n) = snd (sread s n).
  Proof.
    rewrite gen_scipy_is_ref. intros H. destruct (ref_scipy_denotes V I script H) as (work & -> & Hu).
    exists work. split; auto. split; auto. split.
    - apply (scipy_call_readonly V); auto.
    - intros s p c' Hwf Hc.
      eapply (scipy_call_pure V sread swrite sclone tracked tape seed_pos anc indep simOn SI); eauto.
  Qed.

  (* simulate as written in the source today: its footprint on the model's own state is reads only (parameters,
     hyper-parameters, "mixing_matrix"), the rest is draws and `estimate` on clones; any script within that footprint — any
     number of patients, visits, draws — leaves `model.state` the same object, reading as before *)
  Theorem src_simulate_pure (I : inst V) script :
    within V I gen_simulate_foot script = true ->
    forallb (writes_in V (fun _ => false)) script = true
    /\ forall s p c', simOn ApiModel.top s s -> api_call script s p = Some c' ->
         exists s', model_state V c' = Some s' /\ cCur c' = 0 /\ simOn ApiModel.top s' s /\ forall n, snd (sread s' n) = snd (sread s n).
  Proof.
    intros Hw. pose proof (within_readonly V I _ _ gen_simulate_foot_readonly Hw) as Hr. split; auto.
    intros s p c' Hwf Hc.
    eapply (readonly_call_pure V sread swrite sclone tracked tape seed_pos anc indep simOn SI); eauto.
  Qed.
End GenProofs.

(* ---------------------------------------------------------------------- non-vacuity on the memo table of ApiInst.v *)
From Coq Require Import ZArith.
From Leaspy Require Import Api.ApiInst Api.ApiCallsInst.

Module SrcDemo.
  Import Memo.
  Local Open Scope string_scope.
  Definition names (s : string) : nat :=
    if String.eqb s "t" then 0 else if String.eqb s "model" then 2 else 1.

  (* two requests, time points 7 and 8, no individual parameter *)
  Definition est_inst : inst V :=
    Inst V names [] [0] [1] [] [1] (fun _ _ => []) 3 2
         (fun _ j _ => Some (7 + Z.of_nat j)%Z) (fun _ => []) (fun _ _ => None) (fun _ _ => []) (fun _ _ => 0).

  (* MCMC personalisation: "a" (variable 0) is the individual variable, no observation variable beyond "t" := a as well is
     not needed: data = {}, the sampler reads c, draws, assigns a, reads c *)
  Definition mcmc_names (s : string) : nat := if String.eqb s "t" then 0 else 1.
  Definition mcmc_inst : inst V :=
    Inst V mcmc_names [] [0] [1] [] [1] (fun _ _ => [0]) 3 1
         (fun _ _ _ => Some 1%Z) (fun _ => [1]) (fun _ r => hd_or r) 
         (fun _ _ => [LGet 2; LDraw GTorch (fun _ => true); LSet 0 hd_or; LGet 2]) (fun _ _ => 0).

  Lemma mcmc_demo :
    sampling_ok V mcmc_inst = true
    /\ option_map (fun c => (cCur c, option_map (fun s => (snd (sread s 0), snd (sread s 1))) (model_state V c)))
                  (match denote V mcmc_inst gen_mcmc with Some sc => api_call sc after_fit (4, 5, 6) | None => None end)
       = Some (1, Some (None, Some 10%Z)).
  Proof. split; vm_compute; reflexivity. Qed.

  (* scipy_minimize for 2 individuals: clone, t := 1, then the "optimiser" reads c and assigns a on the clone *)
  Definition scipy_inst : inst V :=
    Inst V mcmc_names [] [0] [1] [] [1] (fun _ _ => []) 3 2
         (fun _ _ _ => Some 1%Z) (fun _ => []) (fun _ _ => None)
         (fun tag j => if String.eqb tag "patient" then [LGet 2; LSet 0 hd_or; LGet 2] else [LGet 0]) (fun _ _ => 0).

  Lemma scipy_demo :
    option_map (fun c => (cCur c, nth_error (cS c) 0, List.length (cS c), List.length (cRegs c)))
               (match denote V scipy_inst gen_scipy with Some sc => api_call sc after_fit (4, 5, 6) | None => None end)
    = Some (0, Some after_fit, 3, 7).
  Proof. vm_compute; reflexivity. Qed.

  Lemma estimate_demo :
    denote V est_inst gen_estimate = Some MemoCalls.est2
    /\ option_map (fun c => (cRegs c, nth_error (cS c) 0, cCur c))
                  (match denote V est_inst gen_estimate with Some sc => api_call sc after_fit (4, 5, 6) | None => None end)
       = Some ([Some 18%Z; Some 17%Z], Some after_fit, 0).
  Proof. split; vm_compute; reflexivity. Qed.
End SrcDemo.
