(** C20 — non-vacuity: the hypotheses of the theorems are met by concrete non-trivial values, and the
    executable definitions give the expected results on them (unsorted rows, missing values, a feature
    entirely missing). *)
From Coq Require Import QArith List Bool Arith Lia Permutation.
From Leaspy Require Import Base.QAux Api.Bench Api.BenchProofs.
Import ListNotations.

(** the history of tests/unit_tests/algo/personalize/test_constant_prediction_algo.py plus a third,
    always-missing feature; rows are NOT sorted by age *)
Definition ex_table : table :=
  [ (31, [Some 1; Some (1 # 2); None]);
    (32, [Some 2; Some (1 # 2); None]);
    (34, [None; Some 2; None]);
    (33, [Some 3; None; None]) ].

Example ex_wf : wf 3 ex_table.
Proof. repeat constructor. Qed.

Example ex_distinct : distinct_times ex_table.
Proof.
  intros r r' H H'. simpl in H, H'.
  repeat (destruct H as [<-|H]; [|]); try contradiction;
  repeat (destruct H' as [<-|H']; [|]); try contradiction; simpl; intros E; try reflexivity;
  exfalso; revert E; unfold Qeq; simpl; lia.
Qed.

Example ex_nonempty : ex_table <> [].
Proof. discriminate. Qed.

Example ex_last : predict Last 3 ex_table = Ok [None; Some 2; None].
Proof. reflexivity. Qed.
Example ex_last_known : predict LastKnown 3 ex_table = Ok [Some 3; Some 2; None].
Proof. reflexivity. Qed.
Example ex_max : predict Max 3 ex_table = Ok [Some 3; Some 2; None].
Proof. reflexivity. Qed.
Example ex_mean : match predict Mean 3 ex_table with
                  | Ok [Some a; Some b; None] => a == 2 /\ b == 1
                  | _ => False end.
Proof. vm_compute. split; reflexivity. Qed.

Example ex_perm : Permutation ex_table (rev ex_table).
Proof. apply Permutation_rev. Qed.
Example ex_last_known_rev : predict LastKnown 3 (rev ex_table) = predict LastKnown 3 ex_table.
Proof. reflexivity. Qed.

Example ex_estimate :
  constant_estimate LastKnown 3 ex_table [70; 5 # 2; 1000000000]
  = Ok [[Some 3; Some 2; None]; [Some 3; Some 2; None]; [Some 3; Some 2; None]].
Proof. reflexivity. Qed.

(** error values are really produced (nothing totalised) *)
Example ex_empty_last : predict Last 2 [] = Err Empty.
Proof. reflexivity. Qed.
Example ex_empty_max : predict Max 2 [] = Err Empty.
Proof. reflexivity. Qed.
Example ex_empty_last_known : predict LastKnown 2 [] = Err Empty.
Proof. reflexivity. Qed.
Example ex_empty_mean : predict Mean 2 [] = Ok [None; None].   (* numpy.nanmean of an empty slice is NaN, no exception *)
Proof. reflexivity. Qed.
Example ex_ragged : predict Max 2 [(1, [Some 1])] = Err Ragged.
Proof. reflexivity. Qed.

(** ties in age (not reachable through ingestion unless ages collide in float32): first row in input order *)
Example ex_tie : predict Last 1 [(1, [Some 5]); (1, [Some 7])] = Ok [Some 5].
Proof. reflexivity. Qed.

(** LME: a well-posed system *)
Definition ex_params : lme_params := LmeParams 70 4 (1 # 2) (1 # 4) (Mat2 (1 # 2) (- 1 # 10) (- 1 # 10) 2).
Definition ex_obs : hist := [(74, Some 1); (66, None); (62, Some (1 # 4)); (72, Some (3 # 4))].

Example ex_det :
  let o := remove_nans ex_obs in
  ~ det2 (madd (ZtZ (design ex_params (map fst o))) (cov_inv ex_params)) == 0.
Proof. vm_compute. discriminate. Qed.

Example ex_personalize_slope :
  match lme_personalize true ex_params ex_obs with Ok (a, b) => ~ a == 0 /\ ~ b == 0 | _ => False end.
Proof. vm_compute. split; discriminate. Qed.

Example ex_personalize_intercept :
  match lme_personalize false ex_params ex_obs with Ok (a, b) => ~ a == 0 /\ b == 0 | _ => False end.
Proof. vm_compute. split; [discriminate|reflexivity]. Qed.

Example ex_singular : blup2 [(1, 1)] [1] (Mat2 0 0 0 0) = Err Singular.
Proof. reflexivity. Qed.
Example ex_shape : blup2 [(1, 1)] [] (Mat2 1 0 0 1) = Err Shape.
Proof. reflexivity. Qed.
Example ex_zero_scale : lme_personalize true (LmeParams 70 0 0 0 (Mat2 1 0 0 1)) ex_obs = Err ZeroScale.
Proof. reflexivity. Qed.
Example ex_std_nonzero : ~ ages_std ex_params == 0.
Proof. vm_compute. discriminate. Qed.
Example ex_conditional_mean : 0 < 1 # 4 /\ 0 < 1 # 2 /\ exists b, intercept_re [1; 2; 3] ((1 # 4) / (1 # 2)) = Ok b.
Proof. repeat split. eexists. reflexivity. Qed.

(** hypotheses of the penalised least-squares theorem: a symmetric positive semi-definite penalty *)
Example ex_psd : let P := Mat2 1 0 0 1 in m12 P == m21 P /\ forall v, 0 <= quad P v.
Proof.
  split; [reflexivity|]. intros [a b]. unfold quad. simpl.
  setoid_replace (a * (1 * a + 0 * b) + b * (0 * a + 1 * b)) with (a * a + b * b) by ring.
  setoid_replace 0 with (0 + 0) by ring.
  assert (S : forall x : Q, 0 <= x * x).
  { intros x. destruct (Qlt_le_dec x 0) as [H|H].
    - setoid_replace (x * x) with ((- x) * (- x)) by ring.
      apply Qmult_le_0_compat; apply (Qopp_le_compat x 0); now apply Qlt_le_weak.
    - now apply Qmult_le_0_compat. }
  apply Qplus_le_compat; apply S.
Qed.
