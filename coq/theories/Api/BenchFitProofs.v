(** C20 (extension) — proofs about what the LME fit stores and about the covariance form of the conditional means. *)
From Coq Require Import String QArith List Bool Arith Lia.
From Leaspy Require Import Base.QAux Api.Bench Api.BenchProofs Api.BenchNumpy Api.BenchFit.
Import ListNotations.
Open Scope Q_scope.

(* ==================================================================================== *)
(** * [inv2] is a two-sided inverse *)

Lemma inv2_det M G : inv2 M = Ok G -> ~ det2 M == 0.
Proof. unfold inv2. destruct (Qeq_bool (det2 M) 0) eqn:E; [discriminate|]. intros _. now apply Qeq_bool_neq. Qed.

Lemma inv2_singular M : det2 M == 0 -> inv2 M = Err Singular.
Proof. intros H. unfold inv2. apply Qeq_bool_iff in H. now rewrite H. Qed.

Theorem inv2_two_sided M G : inv2 M = Ok G -> meq2 (mmul2 G M) mid2 /\ meq2 (mmul2 M G) mid2.
Proof.
  intros H. pose proof (inv2_det _ _ H) as D. unfold inv2 in H.
  destruct (Qeq_bool (det2 M) 0); [discriminate|]. inversion H; subst; clear H.
  destruct M as [a b c d]. unfold det2, meq2, mmul2, mid2 in *. simpl in *.
  repeat split; field; exact D.
Qed.

Lemma det2_scale s M : det2 (mscale2 s M) == s * s * det2 M.
Proof. destruct M. unfold det2, mscale2. simpl. ring. Qed.

(* ==================================================================================== *)
(** * what the fit stores *)

(** accepted: the stored matrix is a two-sided inverse of [cov_re / noise^2] (the fields of the stored record) *)
Theorem fit_store_2_inverse ages f s :
  lme_fit_store_2 ages f = Accepted s ->
  let U := mscale2 (/ st_noise_var s) (st_cov_re s) in
  meq2 (mmul2 (st_cov_inv s) U) mid2 /\ meq2 (mmul2 U (st_cov_inv s)) mid2 /\
  st_fe s = sm_fe f /\ st_cov_re s = sm_cov_re f /\ st_noise_var s = sm_scale f /\
  st_ages_mean s = np_mean ages /\ st_ages_var s = np_var ages.
Proof.
  unfold lme_fit_store_2. destruct (inv2 (sm_cov_re_unscaled_2 f)) as [ci|e] eqn:E; [|discriminate].
  intros H. inversion H; subst; clear H. cbv zeta.
  cbn [st_cov_inv st_noise_var st_cov_re st_fe st_ages_mean st_ages_var]. fold (sm_cov_re_unscaled_2 f).
  destruct (inv2_two_sided _ _ E) as [A B]. split; [exact A|]. split; [exact B|]. repeat split; reflexivity.
Qed.

(** a singular covariance is refused, a regular one accepted *)
Theorem fit_store_2_refuses ages f :
  (det2 (sm_cov_re_unscaled_2 f) == 0 -> lme_fit_store_2 ages f = Refused) /\
  (~ sm_scale f == 0 -> det2 (sm_cov_re f) == 0 -> lme_fit_store_2 ages f = Refused) /\
  (~ det2 (sm_cov_re_unscaled_2 f) == 0 -> exists s, lme_fit_store_2 ages f = Accepted s).
Proof.
  unfold lme_fit_store_2. split; [|split].
  - intros H. now rewrite (inv2_singular _ H).
  - intros _ H. rewrite inv2_singular; [reflexivity|]. unfold sm_cov_re_unscaled_2. rewrite det2_scale, H. ring.
  - intros H. destruct (inv2_ok _ H) as [G E]. rewrite E. eexists; reflexivity.
Qed.

Theorem fit_store_1_inverse ages f s :
  lme_fit_store_1 ages f = Accepted s ->
  let u := / st_noise_var s * st_cov_re s in
  st_cov_inv s * u == 1 /\ u * st_cov_inv s == 1 /\
  st_fe s = sm_fe f /\ st_cov_re s = sm_cov_re f /\ st_noise_var s = sm_scale f.
Proof.
  unfold lme_fit_store_1. destruct (Qeq_bool (sm_cov_re_unscaled_1 f) 0) eqn:E; [discriminate|].
  apply Qeq_bool_neq in E. intros H. inversion H; subst; clear H. cbv zeta.
  cbn [st_cov_inv st_noise_var st_cov_re st_fe]. fold (sm_cov_re_unscaled_1 f).
  remember (sm_cov_re_unscaled_1 f) as x eqn:Ex. clear Ex.
  split; [field; exact E|]. split; [field; exact E|]. repeat split; reflexivity.
Qed.

Theorem fit_store_1_refuses ages f :
  (sm_cov_re f == 0 -> lme_fit_store_1 ages f = Refused) /\
  (~ sm_cov_re_unscaled_1 f == 0 -> exists s, lme_fit_store_1 ages f = Accepted s).
Proof.
  unfold lme_fit_store_1, sm_cov_re_unscaled_1. split.
  - intros H. assert (E : / sm_scale f * sm_cov_re f == 0) by (rewrite H; ring).
    apply Qeq_bool_iff in E. now rewrite E.
  - intros H. destruct (Qeq_bool (/ sm_scale f * sm_cov_re f) 0) eqn:E.
    + apply Qeq_bool_iff in E. contradiction.
    + eexists; reflexivity.
Qed.

(* ==================================================================================== *)
(** * precision form = covariance form *)

(** [Z' (Z v + w) = (Z'Z) v + Z' w], one row of [Z'] at a time ([g] = the column of [Z] taken) *)
Lemma Zt_affine (g : Q * Q -> Q) (v : Q * Q) : forall (Z : list (Q * Q)) (w r : list Q),
  length w = length Z ->
  Forall2 Qeq (map (fun p => fst p + snd p) (combine (np_matvec_n2 Z v) w)) r ->
  dotQ (map g Z) r == sumQ (map (fun z => g z * fst z) Z) * fst v + sumQ (map (fun z => g z * snd z) Z) * snd v + dotQ (map g Z) w.
Proof.
  induction Z as [|z Z IH]; intros w r Hl H.
  - simpl. ring.
  - destruct w as [|w0 w]; [discriminate|]. simpl in H. inversion H as [|x0 r0 l r' E0 Er]; subst. clear H.
    simpl in Hl. simpl map. simpl dotQ. simpl sumQ. rewrite (IH w r') by (trivial; lia). rewrite <- E0. ring.
Qed.

Lemma dotQ_nil_r a : dotQ a [] = 0.
Proof. destruct a; reflexivity. Qed.

Lemma alg2a (S11 S12 e11 e12 d11 d12 d21 d22 u1 u2 : Q) :
  e11 * d11 + e12 * d21 == 1 -> e11 * d12 + e12 * d22 == 0 ->
  (S11 + e11) * (d11 * u1 + d12 * u2) + (S12 + e12) * (d21 * u1 + d22 * u2)
  == S11 * (d11 * u1 + d12 * u2) + S12 * (d21 * u1 + d22 * u2) + u1.
Proof.
  intros A1 A2.
  setoid_replace ((S11 + e11) * (d11 * u1 + d12 * u2) + (S12 + e12) * (d21 * u1 + d22 * u2))
    with (S11 * (d11 * u1 + d12 * u2) + S12 * (d21 * u1 + d22 * u2) + ((e11 * d11 + e12 * d21) * u1 + (e11 * d12 + e12 * d22) * u2)) by ring.
  rewrite A1, A2. ring.
Qed.

Lemma alg2b (S21 S22 e21 e22 d11 d12 d21 d22 u1 u2 : Q) :
  e21 * d11 + e22 * d21 == 0 -> e21 * d12 + e22 * d22 == 1 ->
  (S21 + e21) * (d11 * u1 + d12 * u2) + (S22 + e22) * (d21 * u1 + d22 * u2)
  == S21 * (d11 * u1 + d12 * u2) + S22 * (d21 * u1 + d22 * u2) + u2.
Proof.
  intros A1 A2.
  setoid_replace ((S21 + e21) * (d11 * u1 + d12 * u2) + (S22 + e22) * (d21 * u1 + d22 * u2))
    with (S21 * (d11 * u1 + d12 * u2) + S22 * (d21 * u1 + d22 * u2) + ((e21 * d11 + e22 * d21) * u1 + (e21 * d12 + e22 * d22) * u2)) by ring.
  rewrite A1, A2. ring.
Qed.

(** 2x2, invertible D: for EVERY solution [w] of [(Z D Z' + I) w = r] the covariance form [D Z' w] is the
    precision form [(Z'Z + D^-1)^-1 Z' r] computed by the code *)
Theorem cov_form2_eq_precision Z r D Dinv b w :
  inv2 D = Ok Dinv -> blup2 Z r Dinv = Ok b -> cov_system2 Z D w r ->
  fst (cov_form2 Z D w) == fst b /\ snd (cov_form2 Z D w) == snd b.
Proof.
  intros HD Hb [Lw [Lr S]]. apply (blup2_unique Z r Dinv b _ Hb).
  destruct (inv2_two_sided _ _ HD) as [[A1 [A2 [A3 A4]]] _].
  pose proof (Zt_affine fst (mulv D (Ztr Z w)) Z w r Lw S) as E1.
  pose proof (Zt_affine snd (mulv D (Ztr Z w)) Z w r Lw S) as E2.
  destruct D as [d11 d12 d21 d22], Dinv as [e11 e12 e21 e22].
  unfold mat_apply_eq, cov_form2, madd, ZtZ, Ztr, mulv, mmul2, mid2 in *. cbn [m11 m12 m21 m22 fst snd] in *.
  rewrite E1, E2. split; [now apply alg2a|now apply alg2b].
Qed.

(** D = 0 (variance components on the boundary): the covariance form gives 0 *)
Theorem cov_form2_zero Z w :
  fst (cov_form2 Z (Mat2 0 0 0 0) w) == 0 /\ snd (cov_form2 Z (Mat2 0 0 0 0) w) == 0.
Proof. unfold cov_form2, mulv. cbn [m11 m12 m21 m22 fst snd]. split; ring. Qed.

(** one random effect *)
Lemma z_affine (c : Q) : forall (z w r : list Q),
  length w = length z ->
  Forall2 Qeq (map (fun p => fst p + snd p) (combine (map (fun x => x * c) z) w)) r ->
  dotQ z r == dotQ z z * c + dotQ z w.
Proof.
  induction z as [|x z IH]; intros w r Hl H.
  - simpl. ring.
  - destruct w as [|w0 w]; [discriminate|]. simpl in H. inversion H as [|x0 r0 l r' E0 Er]; subst. clear H.
    simpl in Hl. simpl dotQ. rewrite (IH w r') by (trivial; lia). rewrite <- E0. ring.
Qed.

Theorem cov_form1_eq_precision z r d b w :
  ~ d == 0 -> blup1 z r (/ d) = Ok b -> cov_system1 z d w r -> cov_form1 z d w == b.
Proof.
  intros Hd Hb [Lw [Lr S]]. pose proof (blup1_normal_eq _ _ _ _ Hb) as N.
  unfold blup1 in Hb. destruct (negb (length z =? length r)%nat); [discriminate|].
  destruct (Qeq_bool (dotQ z z + / d) 0) eqn:E; [discriminate|]. apply Qeq_bool_neq in E.
  pose proof (z_affine (d * dotQ z w) z w r Lw S) as A. unfold cov_form1.
  assert (M : (dotQ z z + / d) * (d * dotQ z w) == (dotQ z z + / d) * b).
  { rewrite N, A. field. exact Hd. }
  apply Qmult_inj_l in M; assumption.
Qed.

Theorem cov_form1_zero z w : cov_form1 z 0 w == 0.
Proof. unfold cov_form1. ring. Qed.

(* ==================================================================================== *)
(** * the covariance system is solvable whenever the precision form is defined: [w = r - Z b] *)

Lemma Zt_sub (g : Q * Q -> Q) (b : Q * Q) : forall (Z : list (Q * Q)) (r : list Q), length Z = length r ->
  dotQ (map g Z) (np_vsub r (np_matvec_n2 Z b))
  == dotQ (map g Z) r - (sumQ (map (fun z => g z * fst z) Z) * fst b + sumQ (map (fun z => g z * snd z) Z) * snd b).
Proof.
  unfold np_vsub, np_matvec_n2. induction Z as [|z Z IH]; intros r L.
  - simpl. ring.
  - destruct r as [|r0 r]; [discriminate|]. simpl in L. simpl. rewrite IH by lia. ring.
Qed.

Lemma recompose (v v' : Q * Q) : fst v == fst v' -> snd v == snd v' -> forall (Z : list (Q * Q)) (r : list Q),
  length Z = length r ->
  Forall2 Qeq (map (fun p => fst p + snd p) (combine (np_matvec_n2 Z v) (np_vsub r (np_matvec_n2 Z v')))) r.
Proof.
  intros H1 H2. unfold np_vsub, np_matvec_n2. induction Z as [|z Z IH]; intros [|r0 r] L; simpl in *; try discriminate; constructor.
  - rewrite H1, H2. ring.
  - apply IH. lia.
Qed.

Lemma alg3a (S11 S12 S21 S22 e11 e12 e21 e22 d11 d12 b1 b2 P1 P2 : Q) :
  (S11 + e11) * b1 + (S12 + e12) * b2 == P1 -> (S21 + e21) * b1 + (S22 + e22) * b2 == P2 ->
  d11 * e11 + d12 * e21 == 1 -> d11 * e12 + d12 * e22 == 0 ->
  d11 * (P1 - (S11 * b1 + S12 * b2)) + d12 * (P2 - (S21 * b1 + S22 * b2)) == b1.
Proof.
  intros N1 N2 B1 B2. rewrite <- N1, <- N2.
  setoid_replace (d11 * ((S11 + e11) * b1 + (S12 + e12) * b2 - (S11 * b1 + S12 * b2)) + d12 * ((S21 + e21) * b1 + (S22 + e22) * b2 - (S21 * b1 + S22 * b2)))
    with ((d11 * e11 + d12 * e21) * b1 + (d11 * e12 + d12 * e22) * b2) by ring.
  rewrite B1, B2. ring.
Qed.

Lemma alg3b (S11 S12 S21 S22 e11 e12 e21 e22 d21 d22 b1 b2 P1 P2 : Q) :
  (S11 + e11) * b1 + (S12 + e12) * b2 == P1 -> (S21 + e21) * b1 + (S22 + e22) * b2 == P2 ->
  d21 * e11 + d22 * e21 == 0 -> d21 * e12 + d22 * e22 == 1 ->
  d21 * (P1 - (S11 * b1 + S12 * b2)) + d22 * (P2 - (S21 * b1 + S22 * b2)) == b2.
Proof.
  intros N1 N2 B1 B2. rewrite <- N1, <- N2.
  setoid_replace (d21 * ((S11 + e11) * b1 + (S12 + e12) * b2 - (S11 * b1 + S12 * b2)) + d22 * ((S21 + e21) * b1 + (S22 + e22) * b2 - (S21 * b1 + S22 * b2)))
    with ((d21 * e11 + d22 * e21) * b1 + (d21 * e12 + d22 * e22) * b2) by ring.
  rewrite B1, B2. ring.
Qed.

Theorem cov_system2_solvable Z r D Dinv b :
  inv2 D = Ok Dinv -> blup2 Z r Dinv = Ok b -> cov_system2 Z D (np_vsub r (np_matvec_n2 Z b)) r.
Proof.
  intros HD Hb.
  assert (L : length Z = length r).
  { unfold blup2 in Hb. destruct (length Z =? length r)%nat eqn:E; [now apply Nat.eqb_eq|discriminate]. }
  pose proof (blup2_normal_eq _ _ _ _ Hb) as [N1 N2].
  destruct (inv2_two_sided _ _ HD) as [_ [B1 [B2 [B3 B4]]]].
  split; [|split].
  - unfold np_vsub, np_matvec_n2. rewrite map_length, combine_length, map_length. lia.
  - now symmetry.
  - destruct D as [d11 d12 d21 d22], Dinv as [e11 e12 e21 e22]. apply recompose; [| |exact L].
    + unfold mulv, Ztr. cbn [m11 m12 m21 m22 fst snd]. rewrite !Zt_sub by exact L.
      unfold mat_apply_eq, madd, ZtZ, Ztr, mmul2, mid2 in *. cbn [m11 m12 m21 m22 fst snd] in *.
      eapply alg3a; eassumption.
    + unfold mulv, Ztr. cbn [m11 m12 m21 m22 fst snd]. rewrite !Zt_sub by exact L.
      unfold mat_apply_eq, madd, ZtZ, Ztr, mmul2, mid2 in *. cbn [m11 m12 m21 m22 fst snd] in *.
      eapply alg3b; eassumption.
Qed.

(** one random effect *)
Lemma z_sub (b : Q) : forall (z r : list Q), length z = length r ->
  dotQ z (map (fun p => fst p - snd p) (combine r (map (fun x => x * b) z))) == dotQ z r - dotQ z z * b.
Proof.
  induction z as [|x z IH]; intros r L.
  - simpl. ring.
  - destruct r as [|r0 r]; [discriminate|]. simpl in L. simpl. rewrite IH by lia. ring.
Qed.

Lemma recompose1 (c b : Q) : c == b -> forall (z r : list Q), length z = length r ->
  Forall2 Qeq (map (fun p => fst p + snd p)
                 (combine (map (fun x => x * c) z) (map (fun p => fst p - snd p) (combine r (map (fun x => x * b) z))))) r.
Proof.
  intros E. induction z as [|x z IH]; intros [|r0 r] L; simpl in *; try discriminate; constructor.
  - rewrite E. ring.
  - apply IH. lia.
Qed.

Theorem cov_system1_solvable z r d b :
  ~ d == 0 -> blup1 z r (/ d) = Ok b -> cov_system1 z d (map (fun p => fst p - snd p) (combine r (map (fun x => x * b) z))) r.
Proof.
  intros Hd Hb. pose proof (blup1_normal_eq _ _ _ _ Hb) as N.
  assert (L : length z = length r).
  { unfold blup1 in Hb. destruct (length z =? length r)%nat eqn:E; [now apply Nat.eqb_eq|discriminate]. }
  split; [|split].
  - rewrite map_length, combine_length, map_length. lia.
  - now symmetry.
  - apply recompose1; [|exact L]. rewrite (z_sub b z r L), <- N. field. exact Hd.
Qed.
