(* What the reference programs of SrcProg.v denote — for EVERY instance (any number of individuals / requests, any
   variable lists, any values, any optimiser / sampler activity) — and the shape predicates of the C13 theorems on them. *)
From Coq Require Import List Arith Bool String Lia.
From Leaspy Require Import Api.ApiModel Api.ApiProofs Api.ApiCalls Api.ApiCallsProofs Api.SrcProg.
Import ListNotations.

Section SrcProofs.
  Variable V : Type.
  Notation ev := (ev V).
  Notation inst := (inst V).

  (* ------------------------------------------------------------------ estimate *)
  Definition est_body : list atom :=
    match ref_estimate with [SForInd b] => b | _ => [] end.
  Definition est_req (I : inst) : nat -> ereq V :=
    req_of V I "timepoints" "individual_parameter_value" "individual_parameters" [].

  Lemma denote_loop_S (I : inst) body d j c :
    denote_loop V I body d j (S c)
    = match denote_atoms V I d j body with
      | None => None
      | Some (e1, d1) =>
          match denote_loop V I body (Dst (d_env d) (d_next d1) (d_repl d1)) (S j) c with
          | None => None
          | Some (e2, d2) => Some (e1 ++ e2, d2)
          end
      end.
  Proof. reflexivity. Qed.

  Lemma est_iter (I : inst) e next repl j :
    denote_atoms V I (Dst e next repl) j est_body
    = Some (estimate_at V next (i_name V I "t") [i_name V I "model"] (est_req I j),
            Dst (("local_state"%string, BRef next) :: e) (S next) repl).
  Proof.
    unfold est_body, ref_estimate, est_req, req_of, estimate_at, sets. simpl.
    rewrite map_map. reflexivity.
  Qed.

  Lemma est_loop (I : inst) : forall c e next repl j,
    denote_loop V I est_body (Dst e next repl) j c
    = Some (estimate_many V next (i_name V I "t") [i_name V I "model"] (map (est_req I) (seq j c)), Dst e (next + c) repl).
  Proof.
    induction c as [|c IH]; intros e next repl j.
    - simpl. rewrite Nat.add_0_r. reflexivity.
    - rewrite denote_loop_S, est_iter. cbn [d_env d_next d_repl]. rewrite IH.
      cbn [seq map estimate_many]. rewrite Nat.add_succ_r. reflexivity.
  Qed.

  (* `BaseModel.estimate` as written in the source = the script the C13 theorems are about, for every list of requests *)
  Theorem ref_estimate_denotes (I : inst) :
    denote V I ref_estimate
    = Some (estimate_many V 0 (i_name V I "t") [i_name V I "model"] (map (est_req I) (seq 0 (i_n V I)))).
  Proof.
    unfold denote, ref_estimate. cbn [denote_from denote_stmt idx_binds count_clones app d_env d_next d_repl].
    change [AClone (OVar "local_state") OModel; APut (OVar "local_state") (GName "t") (VIn "timepoints");
            APut (OVar "local_state") (GKeys "individual_parameters") (VIn "individual_parameter_value");
            AGet (OVar "local_state") (GName "model")]%string with est_body.
    rewrite est_loop. rewrite app_nil_r. reflexivity.
  Qed.

  (* ------------------------------------------------------------------ estimate on a joint model *)
  Definition estj_body : list atom :=
    match ref_estimate_joint with [SForInd b] => b | _ => [] end.
  Definition estj_req (I : inst) : nat -> ereq V :=
    req_of V I "timepoints" "ip_v" "individual_parameters"
           [("event", "WeightedTensor(timepoints.T, torch.zeros(timepoints.T.shape).bool())")]%string.
  Definition estj_outs (I : inst) : list nat := [i_name V I "model"; i_name V I "predictions_event"].

  Lemma estj_iter (I : inst) e next repl j :
    denote_atoms V I (Dst e next repl) j estj_body
    = Some (estimate_at V next (i_name V I "t") (estj_outs I) (estj_req I j),
            Dst (("local_state"%string, BRef next) :: e) (S next) repl).
  Proof.
    unfold estj_body, ref_estimate_joint, estj_req, estj_outs, req_of, estimate_at, sets. simpl.
    rewrite map_map. reflexivity.
  Qed.

  Lemma estj_loop (I : inst) : forall c e next repl j,
    denote_loop V I estj_body (Dst e next repl) j c
    = Some (estimate_many V next (i_name V I "t") (estj_outs I) (map (estj_req I) (seq j c)), Dst e (next + c) repl).
  Proof.
    induction c as [|c IH]; intros e next repl j.
    - simpl. rewrite Nat.add_0_r. reflexivity.
    - rewrite denote_loop_S, estj_iter. cbn [d_env d_next d_repl]. rewrite IH.
      cbn [seq map estimate_many]. rewrite Nat.add_succ_r. reflexivity.
  Qed.

  Theorem ref_estimate_joint_denotes (I : inst) :
    denote V I ref_estimate_joint
    = Some (estimate_many V 0 (i_name V I "t") (estj_outs I) (map (estj_req I) (seq 0 (i_n V I)))).
  Proof.
    unfold denote. change ref_estimate_joint with [SForInd estj_body].
    cbn [denote_from denote_stmt d_env d_next d_repl].
    change (idx_binds estj_body 0 (count_clones estj_body)) with (@nil (string * bind)).
    cbn [app]. rewrite estj_loop. rewrite app_nil_r. reflexivity.
  Qed.


  (* ------------------------------------------------------------------ MCMC personalisation *)
  Definition lbl_t : string := "WeightedTensor(dataset.timepoints, dataset.mask.to(torch.bool).any(dim=LVL_FT))".
  Definition lbl_obs : string := "obs_model.getter(dataset)".
  Definition mcmc_dvars (I : inst) : list nat := i_name V I "t" :: i_obs V I.
  Definition mcmc_pre (I : inst) : list ev :=
    seed_all V (i_seed V I)
      ++ put_evs V I Cur 0 (GName "t") (VIn lbl_t) ++ put_evs V I Cur 0 GObs (VIn lbl_obs) ++ put_evs V I Cur 0 GInd VInit
      ++ map (lop_on V Cur) (i_work V I "sampling" 0).
  Definition mcmc_tail (I : inst) : list ev :=
    EClone Cur :: put_evs V I (Loc 1) 0 (GName "t") (VIn lbl_t) ++ put_evs V I (Loc 1) 0 GObs (VIn lbl_obs)
      ++ put_evs V I (Loc 1) 0 (GKeys "pyt_individual_parameters") (VIn "ip_vals").
  (* the hypothesis that stays: the samplers assign data / individual variables only (evaluated on every recorded call) *)
  Definition sampling_ok (I : inst) : bool :=
    forallb (lop_writes_in V (mem (mcmc_dvars I ++ i_ind V I))) (i_work V I "sampling" 0).

  Theorem ref_mcmc_denotes (I : inst) :
    denote V I ref_mcmc = Some (mcmc_call V (mcmc_pre I) (mcmc_dvars I) (i_ind V I) (mcmc_tail I)).
  Proof.
    unfold denote, ref_mcmc, mcmc_call, mcmc_pre, mcmc_tail, mcmc_dvars, terminate_script, lbl_t, lbl_obs. simpl.
    rewrite ?app_nil_r. rewrite !map_app. simpl. rewrite <- ?app_assoc. simpl. rewrite <- ?app_assoc. reflexivity.
  Qed.

  Lemma mcmc_tail_late (I : inst) : forallb (clones_from V 1) (mcmc_tail I) = true.
  Proof.
    unfold mcmc_tail. simpl. rewrite !forallb_app. simpl.
    rewrite !forallb_map_true by reflexivity. reflexivity.
  Qed.

  Lemma mcmc_pre_ok (I : inst) :
    sampling_ok I = true ->
    forallb (fun e => writes_in V (mem (mcmc_dvars I ++ i_ind V I)) e && noclone_ev V e) (mcmc_pre I) = true.
  Proof.
    intros Hw. unfold mcmc_pre. set (W := mem (mcmc_dvars I ++ i_ind V I)).
    assert (Ht : W (i_name V I "t") = true) by (apply mem_In; left; reflexivity).
    assert (Ho : forall n, In n (i_obs V I) -> W n = true) by (intros n Hn; apply mem_In; right; apply in_or_app; left; exact Hn).
    assert (Hi : forall n, In n (i_ind V I) -> W n = true) by (intros n Hn; apply mem_In; apply in_or_app; right; exact Hn).
    apply forallb_app_true; [reflexivity|]. apply forallb_app_true; [simpl; rewrite Ht; reflexivity|].
    apply forallb_app_true.
    { simpl. apply forallb_forall. intros e He. apply in_map_iff in He as (n & <- & Hn). simpl. rewrite (Ho n Hn). reflexivity. }
    apply forallb_app_true.
    { simpl. apply forallb_forall. intros e He. apply in_flat_map in He as (n & Hn & He).
      apply in_app_or in He as [He|[<-|[]]].
      - apply in_map_iff in He as (m & <- & _). reflexivity.
      - simpl. rewrite (Hi n Hn). reflexivity. }
    apply forallb_forall. intros e He. apply in_map_iff in He as (l & <- & Hl).
    unfold sampling_ok in Hw. rewrite forallb_forall in Hw. specialize (Hw l Hl).
    destruct l as [n|n f|n f|g b]; try reflexivity; cbn [lop_on writes_in noclone_ev]; cbn [lop_writes_in] in Hw;
      fold W in Hw; rewrite Hw; reflexivity.
  Qed.

  (* ------------------------------------------------------------------ statements on per-individual dictionary entries *)
  Lemma put_evs_loc_untouched (I : inst) i j g v : forallb (untouched_ev V) (put_evs V I (Loc i) j g v) = true.
  Proof.
    destruct v; simpl; try (apply forallb_map_true; reflexivity).
    apply forallb_forall. intros e He. apply in_flat_map in He as (n & _ & He).
    apply in_app_or in He as [He|[<-|[]]]; [|reflexivity]. apply in_map_iff in He as (m & <- & _). reflexivity.
  Qed.

  Lemma resolve_at d j x r : resolve_obj d j (OAt x) = Some r -> exists i, r = Loc i.
  Proof. simpl. destruct (lookup (d_env d) x) as [[| |b s]|]; try discriminate. intros H; inversion H; eauto. Qed.

  Lemma atom_at_untouched (I : inst) d j a evs d' :
    atom_at a = true -> denote_atom V I d j a = Some (evs, d') ->
    forallb (untouched_ev V) evs = true /\ d_repl d' = d_repl d /\ d_env d' = d_env d.
  Proof.
    destruct a as [|x o|dst src|o g v|o g|tag o|tag g|o|o en]; simpl atom_at; try discriminate; intros Ha Hd.
    - (* clone into a dictionary *)
      destruct dst as [|x|x]; try discriminate. simpl in Hd.
      destruct (resolve_obj d j src) as [r|]; try discriminate.
      destruct (lookup (d_env d) x) as [[| |b s]|]; try discriminate.
      destruct (b + j * s =? d_next d); try discriminate. inversion Hd; subst. auto.
    - destruct o as [|x|x]; try discriminate. unfold denote_atom in Hd.
      destruct (resolve_obj d j (OAt x)) as [r|] eqn:E; try discriminate. destruct (resolve_at _ _ _ _ E) as (i & ->).
      inversion Hd; subst. split; auto. apply put_evs_loc_untouched.
    - destruct o as [|x|x]; try discriminate. unfold denote_atom in Hd.
      destruct (resolve_obj d j (OAt x)) as [r|] eqn:E; try discriminate. destruct (resolve_at _ _ _ _ E) as (i & ->).
      inversion Hd; subst. split; auto. apply forallb_map_true. reflexivity.
    - destruct o as [|x|x]; try discriminate. unfold denote_atom in Hd.
      destruct (resolve_obj d j (OAt x)) as [r|] eqn:E; try discriminate. destruct (resolve_at _ _ _ _ E) as (i & ->).
      inversion Hd; subst. split; auto. apply forallb_map_true. intros l; destruct l; reflexivity.
    - simpl in Hd. inversion Hd; subst. split; auto. clear. induction (i_rep V I tag j); simpl; auto.
  Qed.

  Lemma atoms_at_untouched (I : inst) j : forall l d evs d',
    forallb atom_at l = true -> denote_atoms V I d j l = Some (evs, d') ->
    forallb (untouched_ev V) evs = true /\ d_repl d' = d_repl d.
  Proof.
    induction l as [|a t IH]; intros d evs d' Hl Hd.
    - simpl in Hd. inversion Hd; subst. auto.
    - simpl in Hl. apply andb_true_iff in Hl as (Ha & Ht). simpl in Hd.
      destruct (denote_atom V I d j a) as [[e1 d1]|] eqn:E1; try discriminate.
      destruct (denote_atoms V I d1 j t) as [[e2 d2]|] eqn:E2; try discriminate. inversion Hd; subst.
      destruct (atom_at_untouched I d j a e1 d1 Ha E1) as (A & B & _). destruct (IH d1 e2 d' Ht E2) as (C & D).
      split; [apply forallb_app_true; auto | congruence].
  Qed.

  Lemma loop_at_untouched (I : inst) body : forall c d j evs d',
    forallb atom_at body = true -> denote_loop V I body d j c = Some (evs, d') ->
    forallb (untouched_ev V) evs = true /\ d_repl d' = d_repl d.
  Proof.
    induction c as [|c IH]; intros d j evs d' Hb Hd.
    - simpl in Hd. inversion Hd; subst. auto.
    - rewrite denote_loop_S in Hd.
      destruct (denote_atoms V I d j body) as [[e1 d1]|] eqn:E1; try discriminate.
      destruct (denote_loop V I body _ (S j) c) as [[e2 d2]|] eqn:E2; try discriminate. inversion Hd; subst.
      destruct (atoms_at_untouched I j body d e1 d1 Hb E1) as (A & B). destruct (IH _ _ _ _ Hb E2) as (C & D). simpl in D.
      split; [apply forallb_app_true; auto | congruence].
  Qed.

  (* ------------------------------------------------------------------ scipy_minimize *)
  Theorem ref_scipy_denotes (I : inst) script :
    denote V I ref_scipy = Some script ->
    exists work, script = scipy_call V (i_seed V I) (i_scal V I) work /\ forallb (untouched_ev V) work = true.
  Proof.
    unfold denote, ref_scipy. simpl.
    match goal with |- context [denote_loop V I ?b ?d 0 (i_n V I)] =>
      destruct (denote_loop V I b d 0 (i_n V I)) as [[e1 d1]|] eqn:E1; [|discriminate] end.
    apply loop_at_untouched in E1 as (U1 & _); [|reflexivity].
    match goal with |- context [denote_loop V I ?b ?d 0 (i_n V I)] =>
      destruct (denote_loop V I b d 0 (i_n V I)) as [[e2 d2]|] eqn:E2; [|discriminate] end.
    apply loop_at_untouched in E2 as (U2 & _); [|reflexivity].
    intros H. inversion H; subst. exists (e1 ++ e2 ++ []). split.
    - unfold scipy_call, seeded. simpl. reflexivity.
    - apply forallb_app_true; auto. apply forallb_app_true; auto.
  Qed.

  (* ------------------------------------------------------------------ footprints *)
  Lemma within_readonly (I : inst) foot script :
    forallb readonly_atom foot = true -> within V I foot script = true ->
    forallb (writes_in V (fun _ => false)) script = true.
  Proof.
    intros Hf Hw. unfold within in Hw. rewrite forallb_forall in *. intros e He. specialize (Hw e He).
    apply orb_true_iff in Hw as [Hu|Hc].
    - destruct e as [r n|r n f|r n f|r|r|g b|g s|r]; simpl in *; auto; destruct r; auto; discriminate.
    - apply existsb_exists in Hc as (a & Ha & Hc). specialize (Hf a Ha).
      destruct a; simpl in Hf; try discriminate; destruct e; simpl in *; auto;
        try (destruct o; discriminate); try discriminate.
  Qed.
End SrcProofs.
