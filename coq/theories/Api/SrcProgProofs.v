(* What the reference programs of SrcProg.v denote — for EVERY instance (any number of individuals / requests, any
   variable lists, any values, any optimiser / sampler activity) — and the shape predicates of the C13 theorems on them. *)
From Coq Require Import List Arith Bool String Lia.
From Leaspy Require Import Api.ApiModel Api.ApiProofs Api.ApiCalls Api.ApiCallsProofs Api.SrcProg.
Import ListNotations.

Section SrcProofs.
  Variable V : Type.
  Notation ev := (ev V).
  Notation inst := (inst V).

  (* ------------------------------------------------------------------ estimate *)
  Definition est_body : list atom :=
    match ref_estimate with [SForInd b] => b | _ => [] end.
  Definition est_req (I : inst) : nat -> ereq V :=
    req_of V I "timepoints" "individual_parameter_value" "individual_parameters" [].

  Lemma denote_loop_S (I : inst) body d j c :
    denote_loop V I body d j (S c)
    = match denote_atoms V I d j body with
      | None => None
      | Some (e1, d1) =>
          match denote_loop V I body (Dst (d_env d) (d_next d1) (d_repl d1)) (S j) c with
          | None => None
          | Some (e2, d2) => Some (e1 ++ e2, d2)
          end
      end.
  Proof. reflexivity. Qed.

  Lemma est_iter (I : inst) e next repl j :
    denote_atoms V I (Dst e next repl) j est_body
    = Some (estimate_at V next (i_name V I "t") [i_name V I "model"] (est_req I j),
            Dst (("local_state"%string, BRef next) :: e) (S next) repl).
  Proof.
    unfold est_body, ref_estimate, est_req, req_of, estimate_at, sets. simpl.
    rewrite map_map. reflexivity.
  Qed.

  Lemma est_loop (I : inst) : forall c e next repl j,
    denote_loop V I est_body (Dst e next repl) j c
    = Some (estimate_many V next (i_name V I "t") [i_name V I "model"] (map (est_req I) (seq j c)), Dst e (next + c) repl).
  Proof.
    induction c as [|c IH]; intros e next repl j.
    - simpl. rewrite Nat.add_0_r. reflexivity.
    - rewrite denote_loop_S, est_iter. cbn [d_env d_next d_repl]. rewrite IH.
      cbn [seq map estimate_many]. rewrite Nat.add_succ_r. reflexivity.
  Qed.

  (* `BaseModel.estimate` as written in the source = the script the C13 theorems are about, for every list of requests *)
  Theorem ref_estimate_denotes (I : inst) :
    denote V I ref_estimate
    = Some (estimate_many V 0 (i_name V I "t") [i_name V I "model"] (map (est_req I) (seq 0 (i_n V I)))).
  Proof.
    unfold denote, ref_estimate. cbn [denote_from denote_stmt idx_binds count_clones app d_env d_next d_repl].
    change [AClone (OVar "local_state") OModel; APut (OVar "local_state") (GName "t") (VIn "timepoints");
            APut (OVar "local_state") (GKeys "individual_parameters") (VIn "individual_parameter_value");
            AGet (OVar "local_state") (GName "model")]%string with est_body.
    rewrite est_loop. rewrite app_nil_r. reflexivity.
  Qed.

  (* ------------------------------------------------------------------ estimate on a joint model *)
  Definition estj_body : list atom :=
    match ref_estimate_joint with [SForInd b] => b | _ => [] end.
  Definition estj_req (I : inst) : nat -> ereq V :=
    req_of V I "timepoints" "ip_v" "individual_parameters"
           [("event", "WeightedTensor(timepoints.T, torch.zeros(timepoints.T.shape).bool())")]%string.
  Definition estj_outs (I : inst) : list nat := [i_name V I "model"; i_name V I "predictions_event"].

  Lemma estj_iter (I : inst) e next repl j :
    denote_atoms V I (Dst e next repl) j estj_body
    = Some (estimate_at V next (i_name V I "t") (estj_outs I) (estj_req I j),
            Dst (("local_state"%string, BRef next) :: e) (S next) repl).
  Proof.
    unfold estj_body, ref_estimate_joint, estj_req, estj_outs, req_of, estimate_at, sets. simpl.
    rewrite map_map. reflexivity.
  Qed.

  Lemma estj_loop (I : inst) : forall c e next repl j,
    denote_loop V I estj_body (Dst e next repl) j c
    = Some (estimate_many V next (i_name V I "t") (estj_outs I) (map (estj_req I) (seq j c)), Dst e (next + c) repl).
  Proof.
    induction c as [|c IH]; intros e next repl j.
    - simpl. rewrite Nat.add_0_r. reflexivity.
    - rewrite denote_loop_S, estj_iter. cbn [d_env d_next d_repl]. rewrite IH.
      cbn [seq map estimate_many]. rewrite Nat.add_succ_r. reflexivity.
  Qed.

  Theorem ref_estimate_joint_denotes (I : inst) :
    denote V I ref_estimate_joint
    = Some (estimate_many V 0 (i_name V I "t") (estj_outs I) (map (estj_req I) (seq 0 (i_n V I)))).
  Proof.
    unfold denote. change ref_estimate_joint with [SForInd estj_body].
    cbn [denote_from denote_stmt d_env d_next d_repl].
    change (idx_binds estj_body 0 (count_clones estj_body)) with (@nil (string * bind)).
    cbn [app]. rewrite estj_loop. rewrite app_nil_r. reflexivity.
  Qed.

End SrcProofs.
