(* C13 — checkers evaluated by harness/props/c13_settings.py (vm_compute) on real constructions: the model's `resolve`,
   `ctor_view`, `save`/`load` and the heap-level `hresolve` (Settings.v) against what the implementation just produced.
   Independent of the regenerated rule (LeaspyGen.GenSettings), so that a change of the source that breaks the source-level
   tie (SettingsTie.v) is still searched for a concrete input here. *)
From Coq Require Import List Arith Bool ZArith Ascii String Lia.
From Leaspy Require Import Api.Settings.
Import ListNotations.
Local Open Scope string_scope.

(* ---------------------------------------------------------------------- (2) checkers for the recorded constructions *)
(* what the implementation did: 0 = a value, 1 = LeaspyAlgoInputError, 2 = another exception, 3 = not compared *)
Definition same_outcome {A} (eqb : A -> A -> bool) (m : outcome A) (kind : nat) (obs : option A) : bool :=
  match m, kind, obs with
  | Done a, 0, Some b => eqb a b
  | Refused, 1, _ => true
  | Failed, 2, _ => true
  | _, 3, _ => true
  | _, _, _ => false
  end.
Definition dict_eqb := entries_eqb jv_eqb.

Record ctor_case := {
  c_file : dict; c_det : bool; c_kwargs : dict;
  c_kind : nat; c_obs : option settings;            (* AlgorithmSettings(name, **kwargs) *)
  c_samplers : bool; c_annealing : bool;            (* the mixins of the algorithm class *)
  c_akind : nat; c_aobs : option dict;              (* algo_parameters after algorithm_factory(settings) *)
  c_lkind : nat; c_lobs : option settings;          (* AlgorithmSettings.load(save(...)) *)
  c_shared : list (list string)                     (* nested dictionaries of .parameters that ARE objects of the caller *)
}.

Definition rest_of (kw : dict) : dict := filter (fun kv => negb (mem_str (fst kv) special_keys)) kw.
Definition all_ge (n : nat) (l : list nat) : bool := forallb (fun a => Nat.leb n a) l.
Fixpoint paths_eqb (a b : list (list string)) : bool :=
  match a, b with
  | [], [] => true
  | p :: a', q :: b' => (if list_eq_dec string_dec p q then true else false) && paths_eqb a' b'
  | _, _ => false
  end.

(* heap-level run of the construction: the caller's keyword values are allocated first (they exist before the call), the
   defaults are parsed during the call; the update must write into the new objects only, leave the caller's tree as it
   was, give the tree the pure model gives, and share exactly the nested dictionaries the implementation shares *)
Definition heap_check (c : ctor_case) (p : dict) : bool :=
  match dget (c_file c) "parameters" with
  | Some (JDict defaults) =>
      let (h0, kw) := halloc (JDict (rest_of (c_kwargs c))) [] in
      match kw with
      | HR ka =>
          match hresolve FreshLoad 40 defaults h0 0 ka with
          | Some (h2, r, log) =>
              all_ge (List.length h0) log
              && match hview 40 h2 kw with Some t => jv_eqb t (JDict (rest_of (c_kwargs c))) | None => false end
              && match hview 40 h2 r, mergev (JDict (rest_of (c_kwargs c))) defaults with
                 | Some t, Done pm => jv_eqb t (JDict pm) && dict_eqb (dynamic_defaults (match dget (c_file c) "name" with Some (JStr n) => n | _ => "" end) (c_kwargs c) pm) p
                 | _, _ => false
                 end
              && match r with HR ra => paths_eqb (shared_paths 40 (List.length h0) h2 ra []) (c_shared c) | HA _ => false end
          | None => false
          end
      | HA _ => false
      end
  | _ => false
  end.

Definition ctor_check (c : ctor_case) : bool :=
  let m := resolve (c_file c) (c_det c) (c_kwargs c) in
  same_outcome settings_eqb m (c_kind c) (c_obs c)
  && match m with
     | Done s =>
         same_outcome dict_eqb (ctor_view (c_samplers c) (c_annealing c) s) (c_akind c) (c_aobs c)
         && same_outcome settings_eqb (load (c_file c) (c_det c) (save s)) (c_lkind c) (c_lobs c)
         && same_outcome settings_eqb (load (c_file c) (c_det c) (save s)) 0 (Some s)
         && heap_check c (s_params s)
     | _ => true
     end.
