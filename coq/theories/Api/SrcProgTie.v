(* Executable side of the source-level tie for C13 (definitions only; run with vm_compute from harness/props/c13.py).

   For each recorded public call (conventions of ApiCallsTie.v) the checker builds an instance [inst] from the call's
   inputs (variable indices, number of individuals, keys of the dictionaries, and — for the parts the theorems leave
   arbitrary — the optimiser / sampler activity cut out of the trace), DENOTES the program regenerated from today's source
   (LeaspyGen.GenC13), executes the resulting script inside Coq on the set/unset pattern of the model's state and compares
   the log with the recorded trace operation by operation: the recorded call is an execution of the generated program. *)
From Coq Require Import List Arith Bool String.
From Leaspy Require Import Api.ApiModel Api.ApiProofs Api.ApiInst Api.ApiTie Api.ApiCalls Api.ApiCallsTie Api.SrcProg Api.SrcProgProofs.
From LeaspyGen Require Import GenC13.
Import ListNotations.

Definition sassoc {A} (d : A) (l : list (string * A)) (x : string) : A :=
  match find (fun p => String.eqb x (fst p)) l with Some p => snd p | None => d end.

(* a recorded operation of an opaque activity, relative to its object *)
Definition lop_of (e : rop) : list (lop U) :=
  match e with
  | (0, _, n) | (9, _, n) => [LGet n]
  | (1, _, n) | (5, _, n) => [LSet n (fun _ => Some tt)]
  | (2, _, n) => [LSet n (fun _ => None)]
  | (6, _, g) => [LDraw (dgen g) (fun _ => true)]
  | _ => []                                     (* clone / save / seed / replace: never part of an activity *)
  end.
Definition lops_of (t : list rop) : list (lop U) := flat_map lop_of t.
Definition lops_complete (t : list rop) : bool := Nat.eqb (List.length (lops_of t)) (List.length t).

(* static part of an instance, as numbers:
   names, obs, ind, params, hyper, scal, number of individuals, keys (dictionary -> individual -> keys),
   reads of the initialisation functions (variable -> reads), work (tag -> individual -> operations), repetitions *)
Record sinst := SInst {
  s_names : list (string * nat);
  s_obs : list nat; s_ind : list nat; s_params : list nat; s_hyper : list nat; s_scal : list nat;
  s_n : nat;
  s_keys : list (string * list (list nat));
  s_reads : list (nat * list nat);
  s_work : list (string * list (list rop));
  s_rep : list (string * list nat)
}.

Definition nassoc {A} (d : A) (l : list (nat * A)) (x : nat) : A :=
  match find (fun p => Nat.eqb x (fst p)) l with Some p => snd p | None => d end.

Definition inst_of (s : sinst) : inst U :=
  Inst U (sassoc 0 (s_names s)) (s_obs s) (s_ind s) (s_params s) (s_hyper s) (s_scal s)
       (fun d j => nth j (sassoc [] (s_keys s) d) [])
       0 (s_n s)
       (fun _ _ _ => Some tt)
       (nassoc [] (s_reads s))
       (fun _ _ => Some tt)
       (fun tag j => lops_of (nth j (sassoc [] (s_work s) tag) []))
       (fun tag j => nth j (sassoc [] (s_rep s) tag) 0).

Definition works_complete (s : sinst) : bool :=
  forallb (fun tw => forallb lops_complete (snd tw)) (s_work s).

(* every variable name the program mentions is a variable of the DAG (otherwise index 0 would be used silently) *)
Definition group_names (g : vgroup) : list string := match g with GName s => [s] | _ => [] end.
Definition atom_names (a : atom) : list string :=
  match a with APut _ g _ | AGet _ g => group_names g | _ => [] end.
Definition stmt_names (s : stmt) : list string :=
  match s with SAtom a => atom_names a | SForInd b | SRepeat _ b => flat_map atom_names b end.
Definition names_known (s : sinst) (p : prog) : bool :=
  forallb (fun x => existsb (fun q => String.eqb x (fst q)) (s_names s)) (flat_map stmt_names p).

(* the recorded trace is an execution of program p on the instance *)
Definition runs_prog (p : prog) (s : sinst) (shape : list (option U)) (t : list rop) : bool :=
  names_known s p && works_complete s &&
  match denote U (inst_of s) p with
  | Some script => runs_as script shape t
  | None => false
  end.

(* case = (joint?, instance, shape, trace) *)
Definition check_estimate_src (c : bool * sinst * list (option U) * list rop) : bool :=
  match c with
  | (joint, s, shape, t) => runs_prog (if joint then gen_estimate_joint else gen_estimate) s shape t
  end.

(* case = (instance, shape, trace); the sampler activity is cut out of the trace by the harness, the hypothesis of
   C13_src_mcmc_call_clean (it assigns data / individual variables only) is evaluated on it *)
Definition check_mcmc_src (c : sinst * list (option U) * list rop) : bool :=
  match c with
  | (s, shape, t) => runs_prog gen_mcmc s shape t && sampling_ok U (inst_of s)
  end.

Definition check_scipy_src (c : sinst * list (option U) * list rop) : bool :=
  match c with
  | (s, shape, t) => runs_prog gen_scipy s shape t
  end.

(* simulate: case = (instance, trace): every recorded operation stays within the footprint generated from the source *)
Definition check_simulate_src (c : sinst * list rop) : bool :=
  match c with
  | (s, t) => names_known s (map SAtom gen_simulate_foot) && decodes t && within U (inst_of s) gen_simulate_foot (decoded t)
  end.

(* self-test on hand-written traces (3 variables: 0 = t, 1 = parameter, 2 = model; conventions of checkers_selftest) *)
Definition demo_sinst (n : nat) (keys : list (string * list (list nat))) (work : list (string * list (list rop))) : sinst :=
  SInst [("t"%string, 0); ("model"%string, 2)] [] [] [1] [] [1] n keys [] work [].

Example src_checkers_selftest :
  check_estimate_src (false, demo_sinst 2 [("individual_parameters"%string, [[]; []])] [], [None; Some tt; None],
                      [(3,0,0); (1,1,0); (0,1,2); (3,0,0); (1,2,0); (0,2,2)]) = true
  (* the same call working on the model's own state is not an execution of the generated program *)
  /\ check_estimate_src (false, demo_sinst 1 [("individual_parameters"%string, [[]])] [], [None; Some tt; None],
                         [(1,0,0); (0,0,2)]) = false
  /\ check_mcmc_src (demo_sinst 3 [("pyt_individual_parameters"%string, [[]])] [("sampling"%string, [[(0,0,2); (6,0,2)]])],
                     [None; Some tt; None],
                     [(7,0,0); (7,0,1); (7,0,2); (1,0,0); (0,0,2); (6,0,2); (3,0,0); (2,1,0); (8,1,0); (3,1,0); (1,2,0)]) = true
  (* a sampler that assigns the parameter *)
  /\ check_mcmc_src (demo_sinst 3 [("pyt_individual_parameters"%string, [[]])] [("sampling"%string, [[(1,0,1)]])],
                     [None; Some tt; None],
                     [(7,0,0); (7,0,1); (7,0,2); (1,0,0); (1,0,1); (3,0,0); (2,1,0); (8,1,0); (3,1,0); (1,2,0)]) = false
  (* no clean-up *)
  /\ check_mcmc_src (demo_sinst 3 [("pyt_individual_parameters"%string, [[]])] [("sampling"%string, [[]])],
                     [None; Some tt; None],
                     [(7,0,0); (7,0,1); (7,0,2); (1,0,0); (3,0,0); (8,1,0); (3,1,0); (1,2,0)]) = false
  /\ check_scipy_src (demo_sinst 1 [] [("patient"%string, [[(0,1,2)]])], [None; Some tt; None],
                      [(7,0,0); (7,0,1); (7,0,2); (0,0,1); (3,0,0); (1,1,0); (0,1,2)]) = true
  /\ check_scipy_src (demo_sinst 1 [] [("patient"%string, [[(0,1,2)]])], [None; Some tt; None],
                      [(7,0,0); (7,0,1); (7,0,2); (0,0,1); (3,0,0); (1,0,0); (0,1,2)]) = false
  /\ check_simulate_src (SInst [("mixing_matrix"%string, 2)] [] [] [1] [] [] 0 [] [] [] [],
                         [(7,0,0); (7,0,1); (7,0,2); (0,0,1); (6,0,1); (0,0,2); (3,0,0); (1,1,0); (0,1,2)]) = true
  (* a read of a variable outside the footprint, an assignment on the model's state *)
  /\ check_simulate_src (SInst [("mixing_matrix"%string, 2)] [] [] [1] [] [] 0 [] [] [] [], [(0,0,0)]) = false
  /\ check_simulate_src (SInst [("mixing_matrix"%string, 2)] [] [] [1] [] [] 0 [] [] [] [], [(1,0,1)]) = false.
Proof. vm_compute. repeat split; reflexivity. Qed.
