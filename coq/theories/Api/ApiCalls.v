(* C13 — the public calls of leaspy as they are really made (several individuals, seeds first, local helper states),
   built on the single-individual scripts of ApiModel.v.  Definitions only (proofs: ApiCallsProofs.v, checkers: ApiCallsTie.v).

   What is mirrored (file:line of /repo/src/leaspy at the time of writing)
   * `BaseModel.estimate`               models/base.py:864 -> `estimate_many`: one `compute_individual_trajectory`
                                         (models/mcmc_saem_compatible.py:317) per requested individual, the j-th on the j-th clone
   * `BaseAlgorithm.run`                algo/base.py:119   -> `seeded s body` = the three seeds, then the algorithm
   * scipy_minimize `_compute_individual_parameters`  algo/personalize/scipy_minimize.py:575-660
                                         -> `scipy_call`: seeds; reads of the prior parameters on the MODEL'S state (scalings,
                                            `_AffineScalings1D.from_state`); then work that only addresses per-individual clones
   * MCMC personalisation               algo/personalize/mcmc.py:39-110,168
                                         -> `mcmc_call`: seeds; assignments of data and individual variables + sampler activity on the
                                            model's own state (`pre`); `_terminate_algo`; then the unused local clone of
                                            `_compute_individual_parameters` (mcmc.py:42-46) which only addresses states created after
                                            the cleaned one (`tail`)
   * simulate                           algo/simulate/simulate.py -> seeds; reads of the model's state; `estimate` on clones *)
From Coq Require Import List Arith Bool Lia ZArith.
From Leaspy Require Import Api.ApiModel.
Import ListNotations.

Section Calls.
  Variable V : Type.

  Definition sets (r : ref) (l : list (nat * option V)) : list (ev V) :=
    map (fun nv => ESet r (fst nv) (konst V (snd nv))) l.

  (* one request of `estimate` = (time points, individual parameters) *)
  Definition ereq := (option V * list (nat * option V))%type.

  (* `outs`: the variables read at the end ("model"; the joint model also reads "predictions_event", models/joint.py) ;
     the assignments of a request may include further data variables (the joint model assigns "event") *)
  Definition estimate_at (l tvar : nat) (outs : list nat) (q : ereq) : list (ev V) :=
    [EClone Cur; ESet (Loc l) tvar (konst V (fst q))] ++ sets (Loc l) (snd q) ++ map (fun n => EGet (Loc l) n) outs.

  (* the j-th individual is computed on the (l + j)-th state created by the call *)
  Fixpoint estimate_many (l tvar : nat) (outs : list nat) (reqs : list ereq) : list (ev V) :=
    match reqs with
    | [] => []
    | q :: t => estimate_at l tvar outs q ++ estimate_many (S l) tvar outs t
    end.

  (* events that address only states created by the call from the k-th on (clones of anything are allowed: a clone
     creates a new cell and leaves its source alone) *)
  Definition clones_from (k : nat) (e : ev V) : bool :=
    match e with
    | EClone _ => true
    | EGet (Loc i) _ | ESet (Loc i) _ _ | ESetIf (Loc i) _ _ | ESave (Loc i) => k <=? i
    | EDraw _ _ | ESeed _ _ => true
    | _ => false
    end.

  Definition seeded (s : nat) (body : list (ev V)) : list (ev V) := seed_all V s ++ body.

  (* scipy_minimize: seeds; reads on the model's state; work on per-individual clones only *)
  Definition scipy_call (s : nat) (scal : list nat) (work : list (ev V)) : list (ev V) :=
    seeded s (map (fun n => EGet Cur n) scal ++ work).

  (* MCMC personalisation: `pre` (seeds, data, initial individual values, sampler steps) acts on the model's own state;
     the termination replaces it by a cleaned clone (cell 1 = Loc 0); `tail` addresses later cells only *)
  Definition mcmc_call (pre : list (ev V)) (dvars ivars : list nat) (tail : list (ev V)) : list (ev V) :=
    pre ++ terminate_script V 0 dvars ivars ++ tail.

  (* the same with the assignments spelled out, as in ApiModel.mcmc_script *)
  Definition mcmc_full (s : nat) (data : list (nat * option V)) (init_ind : list (nat * (regs V -> option V)))
             (body : list (ev V)) (dvars ivars : list nat) (tail : list (ev V)) : list (ev V) :=
    mcmc_call (seed_all V s ++ sets Cur data ++ map (fun nf => ESet Cur (fst nf) (snd nf)) init_ind ++ body) dvars ivars tail.
End Calls.
