(* C11 — the program REGENERATED from today's source (coq/gen/GenC11.v, harness/translate/c11_run.py) has the shape the
   theorems of RunProgProofs.v need; the C11 statements over that program; the executable side of the trace tie. *)
From Coq Require Import List Arith Bool ZArith.
From Leaspy Require Import Api.ApiModel Api.ApiProofs Api.ApiInst Api.ApiTie Api.RunProg Api.RunProgProofs.
From LeaspyGen Require Import GenC11.
Import ListNotations.

(* ---------------------------------------------------------------------- T1: decided on the generated value *)
Lemma gen_well_shaped : well_shaped fit_prog = true.
Proof. vm_compute. reflexivity. Qed.

Lemma gen_guards_ok : guards_ok fit_prog = true.
Proof. vm_compute. reflexivity. Qed.

(* ---------------------------------------------------------------------- the C11 statements over the generated program *)
Section OnGenerated.
  Variable V : Type.
  Variable sread : st V -> nat -> st V * option V.
  Variable swrite : st V -> nat -> option V -> st V.
  Variable sclone : st V -> st V.
  Variable tracked : list nat.
  Variable tape : gen -> nat -> V.
  Variable seed_pos : gen -> nat -> nat.

  Notation run_prog := (run_prog V sread swrite sclone tracked tape seed_pos).
  Notation fit_run := (fit_run V sread swrite sclone tracked tape seed_pos).

  Theorem gen_is_fit_run seed interp oi base e c :
    e_aflag e FSeedSet = true ->
    run_prog seed interp oi base e fit_prog c
    = fit_run base seed (d_init V seed interp e fit_prog) (d_iters V seed interp e fit_prog) (d_fin V seed interp e fit_prog)
              (d_sched V oi e fit_prog) c.
  Proof. intros. apply program_is_fit_run; [exact gen_well_shaped | assumption]. Qed.

  Theorem gen_without_logging seed interp oi' base e e' c :
    e_aflag e FSeedSet = true -> same_algorithm e e' -> e_lflag e' LHasManager = false ->
    run_prog seed interp oi' base e' fit_prog c
    = fit_run base seed (d_init V seed interp e fit_prog) (d_iters V seed interp e fit_prog) (d_fin V seed interp e fit_prog)
              (no_observers V) c.
  Proof. intros. apply program_without_logging; solve [exact gen_well_shaped | assumption]. Qed.

  Theorem gen_logging_transparent anc indep simOn :
    state_interface V sread swrite sclone anc indep simOn ->
    forall seed interp oi oi' base e e' c c1,
      e_aflag e FSeedSet = true -> same_algorithm e e' -> e_lflag e' LHasManager = false ->
      wf_cfg V simOn c -> (forall o i, read_only V (oi o i) = true) ->
      run_prog seed interp oi base e fit_prog c = Some c1 ->
      exists c2, run_prog seed interp oi' base e' fit_prog c = Some c2 /\ same_results V sread c1 c2.
  Proof. intros I **. eapply program_logging_transparent; solve [exact gen_well_shaped | eassumption]. Qed.
End OnGenerated.

Theorem gen_observers_guarded e o i :
  In (IObs o i) (unfold e fit_prog) -> 1 <= i <= e_niter e /\ geval e i (obs_guard o) = true.
Proof. apply observers_only_when_guarded. exact gen_well_shaped. exact gen_guards_ok. Qed.

Theorem gen_observers_erased e e' :
  same_algorithm e e' -> e_lflag e' LHasManager = false -> filter is_alg (unfold e fit_prog) = unfold e' fit_prog.
Proof. apply observers_erased. exact gen_well_shaped. Qed.

(* ---------------------------------------------------------------------- non-vacuity on the memo table of ApiInst.v *)
Module GenDemo.
  Import Memo.
  (* 3 iterations, two variables sampled in an order that changes, console printing every 2 iterations and saving every
     iteration into a folder *)
  Definition e1 : env :=
    Env 3 (fun i => if Nat.even i then [1; 0] else [0; 1]) (fun _ => true)
        (fun f => match f with LHasManager | LHasCurrentIteration => true | LPathNone => false end)
        (fun p => match p with PerPrint => Some 2 | PerSave => Some 1 | _ => None end).
  Definition interp1 (a : aname) (i k : nat) : list (ev V) :=
    match a with
    | ASample => [EGet Cur 2; EDraw GTorch (fun _ => true); ESet Cur k hd_or]
    | AShuffle => [EDraw GPy (fun _ => true)]
    | AMStep => [EGet Cur 2]
    | AFinClone => [EClone Cur]
    | AFinPopMode => [ESet (Loc 0) 1 (fun _ => Some 0%Z)]
    | AFinReplace => [EReplace (Loc 0); EGet Cur 2]
    | _ => []
    end.
  Definition oi1 (o : oname) (i : nat) : list (ev V) := match o with OPrintTime => [] | _ => obs1 end.
  Definition run (e : env) := run_prog V sread swrite sclone tracked tape seed_pos 3 interp1 oi1 1 e fit_prog c0.

  Example hypotheses_hold :
    e_aflag e1 FSeedSet = true /\ same_algorithm e1 (logging_off e1) /\ e_lflag (logging_off e1) LHasManager = false
    /\ (forall o i, read_only V (oi1 o i) = true).
  Proof.
    split; [reflexivity|]. split; [repeat split|]. split; [reflexivity|].
    intros [] i; reflexivity.
  Qed.

  (* the observers do run: printing at iteration 2 only, saving at 1, 2, 3 — 6 observer calls among 40 named events *)
  Example observers_run :
    filter is_obs (unfold e1 fit_prog)
    = [IObs OSave 1; IObs OPrintAlgo 2; IObs OPrintModel 2; IObs OPrintTime 2; IObs OSave 2; IObs OSave 3]
    /\ length (unfold e1 fit_prog) = 40 /\ length (unfold (logging_off e1) fit_prog) = 34.
  Proof. vm_compute. auto. Qed.

  Example logged_equals_plain :
    final_view (run e1) = final_view (run (logging_off e1)) /\ final_view (run e1) <> None.
  Proof. split; vm_compute; [reflexivity | discriminate]. Qed.

  (* the shape check is not vacuous: the three mutations of the brief are refused *)
  Definition temperature_under_guard : prog :=
    pseq [PIf (GA FSeedSet) (pseq [PEv ASeedPy; PEv ASeedNp; PEv ASeedTorch]) PSkip; PEv AInitData;
          PIter (pseq [PVars (PEv ASample); PEv AMStep; PIf (GL LHasManager) (pseq [PEv ATemperature; PObs OPrintAlgo]) PSkip]);
          PEv AFinReplace].
  Definition seed_in_observer_branch : prog :=
    pseq [PIf (GA FSeedSet) (pseq [PEv ASeedPy; PEv ASeedNp; PEv ASeedTorch]) PSkip; PEv AInitData;
          PIter (pseq [PVars (PEv ASample); PEv AMStep; PEv ATemperature; PIf (GL LHasManager) (pseq [PObs OPrintAlgo; PEv ASeedTorch]) PSkip]);
          PEv AFinReplace].
  Definition order_depends_on_logging : prog :=
    pseq [PIf (GA FSeedSet) (pseq [PEv ASeedPy; PEv ASeedNp; PEv ASeedTorch]) PSkip; PEv AInitData;
          PIter (pseq [PIf (GAnd (GA FRandomOrder) (GNot (GL LHasManager))) (PEv AShuffle) PSkip; PVars (PEv ASample); PEv AMStep;
                       PEv ATemperature; PIf (GL LHasManager) (PObs OPrintAlgo) PSkip]);
          PEv AFinReplace].
  Definition unguarded_observer : prog :=
    pseq [PIf (GA FSeedSet) (pseq [PEv ASeedPy; PEv ASeedNp; PEv ASeedTorch]) PSkip; PEv AInitData;
          PIter (pseq [PVars (PEv ASample); PEv AMStep; PEv ATemperature; PObs OPrintAlgo]);
          PEv AFinReplace].
  Definition wrong_period : prog :=
    pseq [PIf (GA FSeedSet) (pseq [PEv ASeedPy; PEv ASeedNp; PEv ASeedTorch]) PSkip; PEv AInitData;
          PIter (pseq [PVars (PEv ASample); PEv AMStep; PEv ATemperature;
                       PIf (GAnd (GL LHasManager) (GL LHasCurrentIteration)) (PIf (GPerSet PerPrint) (PIf (GIterDiv PerSave) (PObs OPrintAlgo) PSkip) PSkip) PSkip]);
          PEv AFinReplace].
  Example mutants_refused :
    well_shaped temperature_under_guard = false /\ well_shaped seed_in_observer_branch = false
    /\ well_shaped order_depends_on_logging = false /\ well_shaped unguarded_observer = false
    /\ (well_shaped wrong_period = true /\ guards_ok wrong_period = false).
  Proof. vm_compute. repeat split; reflexivity. Qed.
End GenDemo.

(* ---------------------------------------------------------------------- T2: a recorded run is an execution of the program *)
(* case = (n_iter, number of sampled variables, the order recorded at iterations 1..n, the three algorithm flags, the three
   logging flags, the four periodicities — all read from the algorithm object of the recorded run —,
   the recorded sequence of named events as (code, iteration, variable) keys) *)
Definition run_case := (nat * nat * list (list nat) * list bool * list bool * list (option nat) * list rop)%type.

Definition case_env (n : nat) (orders : list (list nat)) (af lf : list bool) (pers : list (option nat)) : env :=
  Env n (fun i => match i with 0 => [] | S j => nth j orders [] end)
      (fun f => nth (match f with FSeedSet => 0 | FProgressBar => 1 | FRandomOrder => 2 end) af false)
      (fun f => nth (match f with LHasManager => 0 | LHasCurrentIteration => 1 | LPathNone => 2 end) lf false)
      (fun p => nth (match p with PerPrint => 0 | PerSave => 1 | PerPlot => 2 | PerPlotPatients => 3 end) pers None).

Definition count (k : nat) (l : list nat) : nat := length (filter (Nat.eqb k) l).
Definition is_perm (nv : nat) (l : list nat) : bool :=
  (length l =? nv) && forallb (fun k => count k l =? 1) (seq 0 nv).

Definition check_run (c : run_case) : bool :=
  match c with
  | (n, nv, orders, af, lf, pers, recorded) =>
      (length orders =? n) && forallb (is_perm nv) orders
      && list_eqb rop_eqb (keys (unfold (case_env n orders af lf pers) fit_prog)) recorded
  end.
