(* C11 — every well-shaped structured program (RunProg.v) denotes the hand-written script `fit_run` of ApiModel.v, for every
   number of iterations, variable order, configuration flags and periodicities; consequences for logging. *)
From Coq Require Import List Arith Bool Lia ZifyBool.
From Leaspy Require Import Api.ApiModel Api.ApiProofs Api.RunProg.
Import ListNotations.

(* ---------------------------------------------------------------------- lists *)
Lemma forallb_flat_map {A B} (f : B -> bool) (g : A -> list B) l :
  (forall x, In x l -> forallb f (g x) = true) -> forallb f (flat_map g l) = true.
Proof.
  induction l as [|x t IH]; intros H; simpl; auto.
  rewrite forallb_app, H, IH; simpl; auto. intros y Hy; apply H; right; auto.
Qed.

Lemma alg_obs_nil l : forallb is_alg l = true -> forallb is_obs l = true -> l = [].
Proof. destruct l as [|[a i k|o i] t]; simpl; auto; intros; discriminate. Qed.

Lemma filter_all {A} (f : A -> bool) l : forallb f l = true -> filter f l = l.
Proof. induction l as [|x t IH]; simpl; auto. intros H; apply andb_true_iff in H as (H1 & H2). rewrite H1, IH; auto. Qed.

Lemma filter_none l : forallb is_obs l = true -> filter is_alg l = [].
Proof.
  induction l as [|x t IH]; simpl; auto. intros H; apply andb_true_iff in H as (H1 & H2).
  unfold is_obs in H1. destruct (is_alg x); try discriminate. auto.
Qed.

(* ---------------------------------------------------------------------- unfolding and the shape check *)
Lemma unf_flatten e p : forall i k, unf e p i k = unf_list e (flatten p) i k.
Proof.
  unfold unf_list. induction p; intros i k; simpl; try rewrite app_nil_r; auto.
  rewrite flat_map_app, IHp1, IHp2; auto.
Qed.

Lemma unf_list_app e l1 l2 i k : unf_list e (l1 ++ l2) i k = unf_list e l1 i k ++ unf_list e l2 i k.
Proof. apply flat_map_app. Qed.

Lemma alg_part_unf e p : alg_part p = true -> forall i k, forallb is_alg (unf e p i k) = true.
Proof.
  induction p; simpl; intros H i k; auto; try discriminate.
  - apply andb_true_iff in H as (H1 & H2). rewrite forallb_app, IHp1, IHp2; auto.
  - apply forallb_flat_map; intros; auto.
  - apply andb_true_iff in H as (H1 & H3). apply andb_true_iff in H1 as (H1 & H2). destruct (geval e i g); auto.
Qed.

Lemma obs_part_unf e p : obs_part p = true -> forall i k, forallb is_obs (unf e p i k) = true.
Proof.
  induction p; simpl; intros H i k; auto; try discriminate.
  - apply andb_true_iff in H as (H1 & H2). rewrite forallb_app, IHp1, IHp2; auto.
  - apply andb_true_iff in H as (H1 & H2). destruct (geval e i g); auto.
Qed.

Lemma alg_list_unf e l i k : forallb alg_part l = true -> forallb is_alg (unf_list e l i k) = true.
Proof. intros H. apply forallb_flat_map. intros x Hx. apply alg_part_unf. rewrite forallb_forall in H; auto. Qed.

Lemma obs_list_unf e l i k : forallb obs_part l = true -> forallb is_obs (unf_list e l i k) = true.
Proof. intros H. apply forallb_flat_map. intros x Hx. apply obs_part_unf. rewrite forallb_forall in H; auto. Qed.

Lemma span_alg_spec l : l = fst (span_alg l) ++ snd (span_alg l) /\ forallb alg_part (fst (span_alg l)) = true.
Proof.
  induction l as [|p t (IH1 & IH2)]; simpl; auto.
  destruct (alg_part p) eqn:E; simpl; auto. rewrite E, IH2. split; auto. f_equal; auto.
Qed.

Lemma split_iter_spec l : forall pre b post, split_iter l = Some (pre, b, post) -> l = pre ++ PIter b :: post.
Proof.
  induction l as [|p t IH]; simpl; intros pre b post H; try discriminate.
  destruct p; try (destruct (split_iter t) as [[[pre' b'] post']|]; try discriminate; inversion H; subst;
                    rewrite (IH _ _ _ eq_refl); reflexivity).
  inversion H; subst; reflexivity.
Qed.

(* tests that do not read the logging configuration have the same value in configurations with the same algorithm part *)
Lemma galg_same e e' i g : same_algorithm e e' -> galg g = true -> geval e i g = geval e' i g.
Proof.
  intros (_ & _ & Hf). induction g; simpl; intros H; auto; try discriminate.
  - rewrite IHg; auto.
  - apply andb_true_iff in H as (H1 & H2). rewrite IHg1, IHg2; auto.
  - apply andb_true_iff in H as (H1 & H2). rewrite IHg1, IHg2; auto.
Qed.

Lemma alg_part_same e e' p : same_algorithm e e' -> alg_part p = true -> forall i k, unf e p i k = unf e' p i k.
Proof.
  intros Hs. induction p; simpl; intros H i k; auto; try discriminate.
  - apply andb_true_iff in H as (H1 & H2). rewrite IHp1, IHp2; auto.
  - destruct Hs as (_ & Ho & _). rewrite Ho. apply flat_map_ext. intros; auto.
  - apply andb_true_iff in H as (H1 & H3). apply andb_true_iff in H1 as (H1 & H2).
    rewrite (galg_same e e' i g Hs H1). destruct (geval e' i g); auto.
Qed.

Lemma alg_list_same e e' l i k : same_algorithm e e' -> forallb alg_part l = true -> unf_list e l i k = unf_list e' l i k.
Proof.
  intros Hs H. unfold unf_list. induction l as [|p t IH]; simpl; auto.
  simpl in H. apply andb_true_iff in H as (H1 & H2). rewrite IH, (alg_part_same e e' p Hs H1); auto.
Qed.

(* the propositional check is sound for every configuration and iteration *)
Definition valuation (e : env) (i : nat) : list bool :=
  [e_aflag e FSeedSet; e_aflag e FProgressBar; e_aflag e FRandomOrder;
   e_lflag e LHasManager; e_lflag e LHasCurrentIteration; e_lflag e LPathNone;
   geval e i (GPerSet PerPrint); geval e i (GPerSet PerSave); geval e i (GPerSet PerPlot); geval e i (GPerSet PerPlotPatients);
   geval e i GIterZero;
   geval e i (GIterDiv PerPrint); geval e i (GIterDiv PerSave); geval e i (GIterDiv PerPlot); geval e i (GIterDiv PerPlotPatients)].

Lemma gbits_valuation e i g : gbits (valuation e i) g = geval e i g.
Proof.
  induction g; try reflexivity.
  - destruct f; reflexivity.
  - destruct f; reflexivity.
  - destruct p; reflexivity.
  - destruct p; reflexivity.
  - simpl. rewrite IHg; auto.
  - simpl. rewrite IHg1, IHg2; auto.
  - simpl. rewrite IHg1, IHg2; auto.
Qed.

Lemma all_bits_complete : forall n v, length v = n -> In v (all_bits n).
Proof.
  induction n; intros v H; destruct v as [|b t]; simpl in *; try discriminate; auto.
  apply in_or_app. destruct b; [right|left]; apply in_map; apply IHn; lia.
Qed.

Lemma gimplies_sound g h e i : gimplies g h = true -> geval e i g = true -> geval e i h = true.
Proof.
  unfold gimplies. intros H Hg. rewrite forallb_forall in H.
  assert (Hin : In (valuation e i) (all_bits n_atoms)) by (apply all_bits_complete; reflexivity).
  specialize (H _ Hin).
  rewrite !gbits_valuation, Hg in H. exact H.
Qed.

Lemma needs_manager_off e i g : e_lflag e LHasManager = false -> needs_manager g = true -> geval e i g = false.
Proof.
  intros Hoff H. destruct (geval e i g) eqn:E; auto.
  pose proof (gimplies_sound g (GL LHasManager) e i H E) as H1. simpl in H1. congruence.
Qed.

(* without an output manager no observer call is reached *)
Lemma managed_off e p : e_lflag e LHasManager = false -> managed false p = true -> forall i k, forallb is_alg (unf e p i k) = true.
Proof.
  intros Hoff. induction p; simpl; intros H i k; auto; try discriminate.
  - apply andb_true_iff in H as (H1 & H2). rewrite forallb_app, IHp1, IHp2; auto.
  - apply forallb_flat_map; intros; auto.
  - apply forallb_flat_map; intros; auto.
  - apply andb_true_iff in H as (H1 & H2). destruct (needs_manager g) eqn:En.
    + rewrite (needs_manager_off e i g Hoff En). auto.
    + destruct (geval e i g); auto.
Qed.

Lemma managed_list_off e l i k :
  e_lflag e LHasManager = false -> forallb (managed false) l = true -> forallb is_alg (unf_list e l i k) = true.
Proof. intros Hoff H. apply forallb_flat_map. intros x Hx. apply managed_off; auto. rewrite forallb_forall in H; auto. Qed.

(* the three seeds *)
Definition seed_items : list item := [IAlg ASeedPy 0 0; IAlg ASeedNp 0 0; IAlg ASeedTorch 0 0].

Lemma seeds_unf e s : is_seeds s = true -> unf e s 0 0 = if e_aflag e FSeedSet then seed_items else [].
Proof.
  destruct s; simpl; try discriminate. destruct g; try discriminate. destruct f; try discriminate.
  intros H. simpl. rewrite (unf_flatten e s1), (unf_flatten e s2).
  destruct (flatten s1) as [|p1 l1]; try discriminate. destruct p1; try discriminate. destruct a; try discriminate.
  destruct l1 as [|p2 l2]; try discriminate. destruct p2; try discriminate. destruct a; try discriminate.
  destruct l2 as [|p3 l3]; try discriminate. destruct p3; try discriminate. destruct a; try discriminate.
  destruct l3; try discriminate.
  destruct (flatten s2); try discriminate. destruct (e_aflag e FSeedSet); reflexivity.
Qed.

(* the decomposition of a well-shaped program *)
Lemma well_shaped_parts p :
  well_shaped p = true ->
  exists s, flatten p = (s :: p_init p) ++ PIter (p_body p) :: p_fin p /\ is_seeds s = true /\
            forallb alg_part (p_init p) = true /\ body_ok (p_body p) = true /\ forallb alg_part (p_fin p) = true.
Proof.
  unfold well_shaped, p_init, p_body, p_fin. destruct (split_iter (flatten p)) as [[[pre b] post]|] eqn:E; try discriminate.
  destruct pre as [|s init]; try discriminate. intros H.
  apply andb_true_iff in H as (H & H4). apply andb_true_iff in H as (H & H3). apply andb_true_iff in H as (H1 & H2).
  exists s. repeat split; auto. apply split_iter_spec; auto.
Qed.

Lemma unfold_parts e p :
  well_shaped p = true ->
  unfold e p = (if e_aflag e FSeedSet then seed_items else []) ++ unf_list e (p_init p) 0 0
               ++ flat_map (fun i => unf e (p_body p) i 0) (seq 1 (e_niter e)) ++ unf_list e (p_fin p) 0 0.
Proof.
  intros H. destruct (well_shaped_parts p H) as (s & Hf & Hs & _). unfold unfold. rewrite unf_flatten, Hf, unf_list_app.
  change (unf_list e (s :: p_init p) 0 0) with (unf e s 0 0 ++ unf_list e (p_init p) 0 0).
  change (unf_list e (PIter (p_body p) :: p_fin p) 0 0) with (unf e (PIter (p_body p)) 0 0 ++ unf_list e (p_fin p) 0 0).
  rewrite (seeds_unf e s Hs), <- app_assoc. reflexivity.
Qed.

(* the body: algorithm items, then observer items *)
Lemma body_parts e b i :
  body_ok b = true ->
  exists la lo, unf e b i 0 = la ++ lo /\ forallb is_alg la = true /\ forallb is_obs lo = true /\
                la = unf_list e (fst (span_alg (flatten b))) i 0 /\ lo = unf_list e (snd (span_alg (flatten b))) i 0.
Proof.
  intros H. unfold body_ok in H. apply andb_true_iff in H as (H1 & H2).
  destruct (span_alg_spec (flatten b)) as (Hl & Ha).
  exists (unf_list e (fst (span_alg (flatten b))) i 0), (unf_list e (snd (span_alg (flatten b))) i 0).
  repeat split; auto.
  - rewrite unf_flatten. rewrite Hl at 1. apply unf_list_app.
  - apply alg_list_unf; auto.
  - apply obs_list_unf; auto.
Qed.

(* erasing the observer calls of one iteration = the iteration without an output manager *)
Lemma body_erased e e' b i :
  body_ok b = true -> same_algorithm e e' -> e_lflag e' LHasManager = false ->
  filter is_alg (unf e b i 0) = unf e' b i 0 /\ forallb is_alg (unf e' b i 0) = true.
Proof.
  intros H Hs Hoff. destruct (body_parts e b i H) as (la & lo & E & Ha & Ho & Ela & Elo).
  destruct (body_parts e' b i H) as (la' & lo' & E' & Ha' & Ho' & Ela' & Elo').
  unfold body_ok in H. apply andb_true_iff in H as (H1 & H2). destruct (span_alg_spec (flatten b)) as (_ & Hal).
  assert (Hnil : lo' = []).
  { apply alg_obs_nil; auto. rewrite Elo'. apply managed_list_off; auto. }
  assert (Hla : la = la').
  { rewrite Ela, Ela'. apply alg_list_same; auto. }
  rewrite E', E, Hnil, app_nil_r, filter_app, (filter_all _ la Ha), (filter_none lo Ho), app_nil_r.
  split; auto.
Qed.

(* ---------------------------------------------------------------------- guards of the observer calls *)
Fixpoint noiter (p : prog) : bool :=
  match p with
  | PIter _ => false
  | PSeq a b => noiter a && noiter b
  | PVars b => noiter b
  | PIf _ t f => noiter t && noiter f
  | _ => true
  end.

Lemma alg_part_noiter p : alg_part p = true -> noiter p = true.
Proof.
  induction p; simpl; intros H; auto.
  - apply andb_true_iff in H as (H1 & H2). rewrite IHp1, IHp2; auto.
  - apply andb_true_iff in H as (H1 & H3). apply andb_true_iff in H1 as (H1 & H2). rewrite IHp1, IHp2; auto.
Qed.

Lemma obs_part_noiter p : obs_part p = true -> noiter p = true.
Proof.
  induction p; simpl; intros H; auto; try discriminate.
  - apply andb_true_iff in H as (H1 & H2). rewrite IHp1, IHp2; auto.
  - apply andb_true_iff in H as (H1 & H2). rewrite IHp1, IHp2; auto.
Qed.

Lemma noiter_flatten p : noiter p = forallb noiter (flatten p).
Proof. induction p; simpl; auto; try rewrite andb_true_r; auto. rewrite forallb_app, IHp1, IHp2; auto. Qed.

Lemma body_noiter b : body_ok b = true -> noiter b = true.
Proof.
  intros H. unfold body_ok in H. apply andb_true_iff in H as (H1 & _). destruct (span_alg_spec (flatten b)) as (Hl & Ha).
  rewrite noiter_flatten, Hl, forallb_app. apply andb_true_iff; split; apply forallb_forall; intros x Hx.
  - apply alg_part_noiter. rewrite forallb_forall in Ha; auto.
  - apply obs_part_noiter. rewrite forallb_forall in H1; auto.
Qed.

(* an observer call that is reached: the tests on its path hold, at this very iteration *)
Lemma pguards_sound e o i' p : forall path i k,
  noiter p = true -> geval e i path = true -> In (IObs o i') (unf e p i k) ->
  i' = i /\ exists g, In (o, g) (pguards path p) /\ geval e i g = true.
Proof.
  induction p; simpl; intros path i k Hn Hp Hin; try contradiction; try discriminate.
  - destruct Hin as [Hin|[]]; discriminate.
  - destruct Hin as [Hin|[]]. inversion Hin; subst. split; auto. exists path; auto.
  - apply andb_true_iff in Hn as (H1 & H2). apply in_app_or in Hin as [Hin|Hin].
    + destruct (IHp1 path i k H1 Hp Hin) as (E & g & Hg & Hv). split; auto. exists g; split; auto. apply in_or_app; auto.
    + destruct (IHp2 path i k H2 Hp Hin) as (E & g & Hg & Hv). split; auto. exists g; split; auto. apply in_or_app; auto.
  - apply in_flat_map in Hin as (k' & _ & Hin). eapply IHp; eauto.
  - apply andb_true_iff in Hn as (H1 & H2). destruct (geval e i g) eqn:Eg.
    + destruct (IHp1 (GAnd path g) i k H1) as (E & g' & Hg & Hv); auto. { simpl. rewrite Hp, Eg; auto. }
      split; auto. exists g'; split; auto. apply in_or_app; auto.
    + destruct (IHp2 (GAnd path (GNot g)) i k H2) as (E & g' & Hg & Hv); auto. { simpl. rewrite Hp, Eg; auto. }
      split; auto. exists g'; split; auto. apply in_or_app; auto.
Qed.

Theorem observers_only_when_guarded e p o i :
  well_shaped p = true -> guards_ok p = true -> In (IObs o i) (unfold e p) ->
  1 <= i <= e_niter e /\ geval e i (obs_guard o) = true.
Proof.
  intros Hw Hg Hin. rewrite (unfold_parts e p Hw) in Hin.
  destruct (well_shaped_parts p Hw) as (s & _ & _ & Hi & Hb & Hf).
  assert (Hno : forall l, forallb is_alg l = true -> In (IObs o i) l -> False).
  { intros l Hl Hx. rewrite forallb_forall in Hl. specialize (Hl _ Hx). discriminate. }
  apply in_app_or in Hin as [Hin|Hin].
  { exfalso. eapply Hno; [|exact Hin]. destruct (e_aflag e FSeedSet); reflexivity. }
  apply in_app_or in Hin as [Hin|Hin].
  { exfalso. eapply Hno; [|exact Hin]. apply alg_list_unf; auto. }
  apply in_app_or in Hin as [Hin|Hin].
  2:{ exfalso. eapply Hno; [|exact Hin]. apply alg_list_unf; auto. }
  apply in_flat_map in Hin as (i' & Hi' & Hin). apply in_seq in Hi'.
  destruct (pguards_sound e o i (p_body p) GTrue i' 0 (body_noiter _ Hb) eq_refl Hin) as (E & g & Hgin & Hv). subst i'.
  split; [lia|]. unfold guards_ok in Hg. rewrite forallb_forall in Hg. specialize (Hg _ Hgin). simpl in Hg.
  eapply gimplies_sound; eauto.
Qed.

(* ---------------------------------------------------------------------- running *)
Section RunProofs.
  Variable V : Type.
  Variable sread : st V -> nat -> st V * option V.
  Variable swrite : st V -> nat -> option V -> st V.
  Variable sclone : st V -> st V.
  Variable tracked : list nat.
  Variable tape : gen -> nat -> V.
  Variable seed_pos : gen -> nat -> nat.
  Variable seed : nat.
  Variable interp : aname -> nat -> nat -> list (ev V).

  Notation exec := (exec V sread swrite sclone tracked tape seed_pos).
  Notation run_obs := (run_obs V sread swrite sclone tracked tape seed_pos).
  Notation run_observers := (run_observers V sread swrite sclone tracked tape seed_pos).
  Notation run_logged := (run_logged V sread swrite sclone tracked tape seed_pos).
  Notation fit_run := (fit_run V sread swrite sclone tracked tape seed_pos).
  Notation run_items oi := (run_items V sread swrite sclone tracked tape seed_pos seed interp oi).
  Notation run_prog oi := (run_prog V sread swrite sclone tracked tape seed_pos seed interp oi).
  Notation script_of := (script_of V seed interp).
  Notation observers_of oi := (observers_of V oi).

  Lemma exec_app' base l1 l2 c :
    exec base (l1 ++ l2) c = match exec base l1 c with None => None | Some c' => exec base l2 c' end.
  Proof. apply exec_app. Qed.

  Lemma run_items_app oi base l1 l2 : forall c,
    run_items oi base (l1 ++ l2) c = match run_items oi base l1 c with None => None | Some c' => run_items oi base l2 c' end.
  Proof.
    induction l1 as [|[a i k|o i] t IH]; intros c; simpl; auto.
    - destruct (exec base (ainterp V seed interp a i k) c); auto.
    - destruct (run_obs (oi o i) c); auto.
  Qed.

  Lemma script_of_app l1 l2 : script_of (l1 ++ l2) = script_of l1 ++ script_of l2.
  Proof. apply flat_map_app. Qed.
  Lemma observers_of_app oi l1 l2 : observers_of oi (l1 ++ l2) = observers_of oi l1 ++ observers_of oi l2.
  Proof. apply flat_map_app. Qed.

  Lemma script_of_obs l : forallb is_obs l = true -> script_of l = [].
  Proof.
    induction l as [|[a i k|o i] t IH]; simpl; auto; try discriminate.
  Qed.
  Lemma observers_of_alg oi l : forallb is_alg l = true -> observers_of oi l = [].
  Proof.
    induction l as [|[a i k|o i] t IH]; simpl; auto; try discriminate.
  Qed.
  Lemma script_of_filter l : script_of (filter is_alg l) = script_of l.
  Proof. induction l as [|[a i k|o i] t IH]; simpl; auto. rewrite IH; auto. Qed.

  Lemma run_items_alg oi base l : forallb is_alg l = true -> forall c, run_items oi base l c = exec base (script_of l) c.
  Proof.
    induction l as [|[a i k|o i] t IH]; simpl; intros H c; auto; try discriminate.
    rewrite exec_app'. destruct (exec base (ainterp V seed interp a i k) c); auto.
  Qed.

  Lemma run_items_obs oi base l : forallb is_obs l = true -> forall c, run_items oi base l c = run_observers (observers_of oi l) c.
  Proof.
    induction l as [|[a i k|o i] t IH]; simpl; intros H c; auto; try discriminate.
    destruct (run_obs (oi o i) c); auto.
  Qed.

  Lemma run_body oi base e b i c :
    body_ok b = true ->
    run_items oi base (unf e b i 0) c =
    match exec base (script_of (unf e b i 0)) c with
    | None => None
    | Some c1 => run_observers (observers_of oi (unf e b i 0)) c1
    end.
  Proof.
    intros H. destruct (body_parts e b i H) as (la & lo & E & Ha & Ho & _). rewrite E.
    rewrite run_items_app, script_of_app, observers_of_app, (script_of_obs lo Ho), (observers_of_alg oi la Ha), app_nil_r.
    simpl. rewrite (run_items_alg oi base la Ha). destruct (exec base (script_of la) c); auto.
    apply run_items_obs; auto.
  Qed.

  Lemma run_loop oi base e b : body_ok b = true -> forall n i c,
    run_items oi base (flat_map (fun i' => unf e b i' 0) (seq i n)) c =
    run_logged base (fun i' => observers_of oi (unf e b i' 0)) i (map (fun i' => script_of (unf e b i' 0)) (seq i n)) c.
  Proof.
    intros H. induction n as [|n IH]; intros i c; simpl; auto.
    rewrite run_items_app, (run_body oi base e b i c H).
    destruct (exec base (script_of (unf e b i 0)) c) as [c1|]; auto.
    destruct (run_observers (observers_of oi (unf e b i 0)) c1) as [c2|]; auto.
  Qed.

  (* the scripts a program denotes *)
  Definition d_init (e : env) (p : prog) : list (ev V) := script_of (unf_list e (p_init p) 0 0).
  Definition d_iters (e : env) (p : prog) : list (list (ev V)) :=
    map (fun i => script_of (unf e (p_body p) i 0)) (seq 1 (e_niter e)).
  Definition d_fin (e : env) (p : prog) : list (ev V) := script_of (unf_list e (p_fin p) 0 0).
  Definition d_sched oi (e : env) (p : prog) : nat -> list (list (ev V)) := fun i => observers_of oi (unf e (p_body p) i 0).

  (* MAIN: a well-shaped program IS the hand-written fit script, for every configuration *)
  Theorem program_is_fit_run oi base e p c :
    well_shaped p = true -> e_aflag e FSeedSet = true ->
    run_prog oi base e p c = fit_run base seed (d_init e p) (d_iters e p) (d_fin e p) (d_sched oi e p) c.
  Proof.
    intros Hw Hs. unfold RunProg.run_prog. rewrite (unfold_parts e p Hw), Hs.
    destruct (well_shaped_parts p Hw) as (s & _ & _ & Hi & Hb & Hf).
    unfold ApiModel.fit_run, d_init, d_iters, d_fin, d_sched.
    rewrite app_assoc, run_items_app.
    rewrite (run_items_alg oi base (seed_items ++ unf_list e (p_init p) 0 0)).
    2:{ rewrite forallb_app. simpl. apply alg_list_unf; auto. }
    rewrite script_of_app. change (script_of seed_items) with (seed_all V seed).
    destruct (exec base (seed_all V seed ++ script_of (unf_list e (p_init p) 0 0)) c) as [c1|]; auto.
    rewrite run_items_app, (run_loop oi base e (p_body p) Hb).
    destruct (run_logged base (fun i' => observers_of oi (unf e (p_body p) i' 0)) 1
                         (map (fun i' => script_of (unf e (p_body p) i' 0)) (seq 1 (e_niter e))) c1) as [c2|]; auto.
    apply run_items_alg. apply alg_list_unf; auto.
  Qed.

  (* the algorithm part of what a program denotes does not depend on the logging configuration *)
  Lemma d_same oi e e' p :
    well_shaped p = true -> same_algorithm e e' -> e_lflag e' LHasManager = false ->
    d_init e p = d_init e' p /\ d_iters e p = d_iters e' p /\ d_fin e p = d_fin e' p /\ (forall i, d_sched oi e' p i = []).
  Proof.
    intros Hw Hs Hoff. destruct (well_shaped_parts p Hw) as (s & _ & _ & Hi & Hb & Hf).
    unfold d_init, d_iters, d_fin, d_sched. repeat split.
    - rewrite (alg_list_same e e' (p_init p) 0 0 Hs Hi); auto.
    - destruct Hs as (Hn & Hs'). rewrite Hn. apply map_ext. intros i.
      destruct (body_erased e e' (p_body p) i Hb (conj Hn Hs') Hoff) as (E & _). rewrite <- E. symmetry; apply script_of_filter.
    - rewrite (alg_list_same e e' (p_fin p) 0 0 Hs Hf); auto.
    - intros i. destruct (body_erased e e' (p_body p) i Hb Hs Hoff) as (_ & Ha). apply observers_of_alg; auto.
  Qed.

  Lemma run_logged_sched_ext base sched sched' iters : (forall i, sched i = sched' i) -> forall i c,
    run_logged base sched i iters c = run_logged base sched' i iters c.
  Proof.
    intros H. induction iters as [|it t IH]; intros i c; simpl; auto.
    destruct (exec base it c); auto. rewrite H. destruct (run_observers (sched' i) c0); auto.
  Qed.

  (* without an output manager the program is the fit script without observers *)
  Theorem program_without_logging oi' base e e' p c :
    well_shaped p = true -> e_aflag e FSeedSet = true -> same_algorithm e e' -> e_lflag e' LHasManager = false ->
    run_prog oi' base e' p c = fit_run base seed (d_init e p) (d_iters e p) (d_fin e p) (no_observers V) c.
  Proof.
    intros Hw Hs Hsa Hoff. rewrite program_is_fit_run; auto.
    2:{ destruct Hsa as (_ & _ & Hf). rewrite <- Hf; auto. }
    destruct (d_same oi' e e' p Hw Hsa Hoff) as (E1 & E2 & E3 & E4). rewrite <- E1, <- E2, <- E3.
    unfold ApiModel.fit_run. destruct (exec base (seed_all V seed ++ d_init e p) c); auto.
    rewrite (run_logged_sched_ext base (d_sched oi' e' p) (no_observers V)); auto.
  Qed.

  (* removing the observer calls from the unfolded run leaves exactly the run without an output manager *)
  Theorem observers_erased e e' p :
    well_shaped p = true -> same_algorithm e e' -> e_lflag e' LHasManager = false ->
    filter is_alg (unfold e p) = unfold e' p.
  Proof.
    intros Hw Hs Hoff. rewrite !(unfold_parts _ p Hw). destruct (well_shaped_parts p Hw) as (s & _ & _ & Hi & Hb & Hf).
    destruct Hs as (Hn & Ho & Hfl). rewrite <- Hn, <- (Hfl FSeedSet).
    rewrite !filter_app. f_equal; [|f_equal; [|f_equal]].
    - destruct (e_aflag e FSeedSet); reflexivity.
    - rewrite filter_all; [|apply alg_list_unf; auto]. apply alg_list_same; auto. repeat split; auto.
    - induction (seq 1 (e_niter e)) as [|i t IH]; simpl; auto.
      rewrite filter_app, IH. f_equal. apply body_erased; auto. repeat split; auto.
    - rewrite filter_all; [|apply alg_list_unf; auto]. apply alg_list_same; auto. repeat split; auto.
  Qed.

  (* what one read-only observer call leaves behind: generator positions (no draw, no seed), the model's state pointer,
     the algorithm's registers and operation log, the number of State objects — all unchanged *)
  Lemma ro_step_cur base c c' e : read_only_ev V e = true ->
    step V sread swrite sclone tracked tape seed_pos base c e = Some c' -> cCur c' = cCur c.
  Proof.
    destruct c as [S1 cu p rg lg]; simpl.
    destruct e as [r n|r n f|r n f|r|r|g b|g s|r]; simpl; intros Hr; try discriminate;
      try (destruct (nth_error S1 (resolve base cu r)) as [s0|]; try discriminate);
      try (destruct (f rg)); intros H; inversion H; subst; simpl; auto.
  Qed.

  Lemma ro_exec_cur base o : read_only V o = true -> forall c c', exec base o c = Some c' -> cCur c' = cCur c.
  Proof.
    induction o as [|e t IH]; intros Hr c c' H.
    - simpl in H; inversion H; auto.
    - simpl in Hr. apply andb_true_iff in Hr as (H1 & H2). simpl in H.
      destruct (step V sread swrite sclone tracked tape seed_pos base c e) as [d|] eqn:Es; try discriminate.
      rewrite (IH H2 d c' H). eapply ro_step_cur; eauto.
  Qed.

  Theorem observer_frame o c c' :
    read_only V o = true -> run_obs o c = Some c' ->
    cPos c' = cPos c /\ cCur c' = cCur c /\ cRegs c' = cRegs c /\ cLog c' = cLog c /\ length (cS c') = length (cS c).
  Proof.
    intros Hro H. unfold ApiModel.run_obs in H.
    destruct (exec (length (cS c)) o (Cfg (cS c) (cCur c) (cPos c) [] (cLog c))) as [d|] eqn:E; try discriminate.
    inversion H; subst c'; simpl. repeat split.
    - apply (ro_exec_pos V sread swrite sclone tracked tape seed_pos _ o Hro _ _ E).
    - apply (ro_exec_cur _ o Hro _ _ E).
    - apply exec_length in E. simpl in E. rewrite firstn_length. lia.
  Qed.
End RunProofs.

(* ---------------------------------------------------------------------- logging is transparent, on the program *)
Section Transparent.
  Variable V : Type.
  Variable sread : st V -> nat -> st V * option V.
  Variable swrite : st V -> nat -> option V -> st V.
  Variable sclone : st V -> st V.
  Variable tracked : list nat.
  Variable tape : gen -> nat -> V.
  Variable seed_pos : gen -> nat -> nat.
  Variable anc : nat -> list nat.
  Variable indep : nat -> bool.
  Variable simOn : view -> st V -> st V -> Prop.
  Hypothesis I : state_interface V sread swrite sclone anc indep simOn.

  (* For every configuration e whose observers are read-only scripts: if the run finishes, the run of the SAME program in any
     configuration e' with the same algorithm part and no output manager finishes too, with the same results. *)
  Theorem program_logging_transparent seed interp oi oi' base e e' p c c1 :
    well_shaped p = true -> e_aflag e FSeedSet = true -> same_algorithm e e' -> e_lflag e' LHasManager = false ->
    wf_cfg V simOn c -> (forall o i, read_only V (oi o i) = true) ->
    run_prog V sread swrite sclone tracked tape seed_pos seed interp oi base e p c = Some c1 ->
    exists c2, run_prog V sread swrite sclone tracked tape seed_pos seed interp oi' base e' p c = Some c2
               /\ same_results V sread c1 c2.
  Proof.
    intros Hw Hs Hsa Hoff Hwf Hro Hrun.
    rewrite (program_without_logging V sread swrite sclone tracked tape seed_pos seed interp oi' base e e' p c Hw Hs Hsa Hoff).
    rewrite (program_is_fit_run V sread swrite sclone tracked tape seed_pos seed interp oi base e p c Hw Hs) in Hrun.
    destruct I. eapply logging_transparent; eauto.
    intros i o Hin. unfold d_sched, RunProg.observers_of in Hin. apply in_flat_map in Hin as (it & _ & Hin).
    destruct it as [a j k|o' j]; simpl in Hin; try contradiction. destruct Hin as [Hin|[]]. subst o. apply Hro.
  Qed.
End Transparent.
