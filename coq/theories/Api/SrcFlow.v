(* C13 — the flow check (history independence) on the SHAPES the programs regenerated from the source denote.
   Definitions only (proofs: SrcFlowProofs.v; on the generated programs: SrcFlowGenProofs.v).

   `ApiCalls.mcmc_full` spells the initial assignments of an MCMC personalisation out as plain assignments.  The program
   regenerated from mcmc.py interleaves, for each individual latent variable, the READS its initialisation function makes
   (`var.get_init_func(...).call(state)`: the prior parameters) with the assignment: `mcmc_full_reads` is that shape —
   `mcmc_full` is the instance without reads.  The flow check accepts it when every such read is determined by KEPT
   variables (parameters, hyper-parameters, population variables) and kept + data + individual variables are `closed`. *)
From Coq Require Import List Arith Bool String.
From Leaspy Require Import Api.ApiModel Api.ApiProofs Api.ApiCalls Api.SrcProg Api.SrcProgProofs.
Import ListNotations.

Section Flow.
  Variable V : Type.
  Notation ev := (ev V).

  (* one initial assignment: what is read first (on the model's own state), the variable, the value as a function of the reads *)
  Definition init_item := (list nat * nat * (regs V -> option V))%type.
  Definition it_reads (x : init_item) : list nat := fst (fst x).
  Definition it_var (x : init_item) : nat := snd (fst x).

  Definition init_reads (l : list init_item) : list ev :=
    flat_map (fun x => map (fun m => EGet Cur m) (it_reads x) ++ [ESet Cur (it_var x) (snd x)]) l.

  Definition mcmc_full_reads (s : nat) (data : list (nat * option V)) (init_ind : list init_item)
             (body : list ev) (dvars ivars : list nat) (tail : list ev) : list ev :=
    mcmc_call V (seed_all V s ++ sets V Cur data ++ init_reads init_ind ++ body) dvars ivars tail.

  Definition no_reads (l : list (nat * (regs V -> option V))) : list init_item := map (fun nf => ([], fst nf, snd nf)) l.

  (* every read made between the initial assignments is determined by kept variables *)
  Definition reads_kept (anc : nat -> list nat) (kept : view) (l : list init_item) : bool :=
    forallb (fun x => forallb (fun m => forallb kept (anc m)) (it_reads x)) l.

  (* estimate: every variable read at the end of a request is determined by kept variables + "t" + what the request assigned *)
  Definition est_flow_ok (anc : nat -> list nat) (kept : view) (tvar : nat) (outs : list nat) (reqs : list (ereq V)) : bool :=
    forallb (fun q => forallb (fun n => forallb (vadds (map fst (snd q)) (vadd tvar kept)) (anc n)) outs) reqs.

  (* ---- what an instance gives for the MCMC program *)
  Definition inst_data (I : inst V) : list (nat * option V) :=
    (i_name V I "t", i_val V I (lbl_t) 0 (i_name V I "t")) :: map (fun n => (n, i_val V I lbl_obs 0 n)) (i_obs V I).
  Definition inst_init (I : inst V) : list init_item := map (fun n => (i_reads V I n, n, i_init V I n)) (i_ind V I).
  Definition inst_sampling (I : inst V) : list ev := map (lop_on V Cur) (i_work V I "sampling" 0).

  (* the two hypotheses of the source-level MCMC theorems, computable on a finite variable set *)
  Definition mcmc_reads_kept (anc : nat -> list nat) (kept : view) (I : inst V) : bool := reads_kept anc kept (inst_init I).
  Definition mcmc_view (kept : view) (I : inst V) : view := vadds (i_ind V I) (vadds (mcmc_dvars V I) kept).

  (* scipy_minimize: the per-individual initialisation (`put_individual_parameters`) of the first individual starts by reading
     variable n of its clone *)
  Definition scipy_first_read (I : inst V) (n : nat) : Prop :=
    exists w, i_work V I "put_individual_parameters" 0 = LGet n :: w.
End Flow.
