(* Proofs about the event-script model of ApiModel.v.

   The behaviour of ONE `State` object enters through Section hypotheses about an observational relation
   `simOn P s s'` ("s and s' are well-formed caches that agree on the independent variables in P"):

     get_transparent   a read changes nothing observable                       (C01: reads only fill the cache)
     get_determined    a read depends only on the independent ancestors         (C01: cached = from-scratch value)
     set_agree         after assigning the same value to n, two states that agreed on P agree on P + n
     set_frame         assigning n changes nothing outside n
     set_get           an independent variable reads as what was last assigned to it
     clone_isolated    a clone reads like the original (it lives in another cell: operations on it never reach the original)

   They are to be discharged by the cache theorems of C01 (`C01_get_transparent`, `C01_clone_isolated`); ApiInst.v proves
   them for a small concrete memo table, so they are jointly satisfiable. *)
From Coq Require Import List Arith Bool Lia ZArith.
From Leaspy Require Import Api.ApiModel.
Import ListNotations.

(* ---------------------------------------------------------------------- lists *)
Lemma length_upd {A} (l : list A) k x : length (upd l k x) = length l.
Proof. revert k; induction l; destruct k; simpl; auto. Qed.

Lemma nth_error_upd_eq {A} (l : list A) k x : k < length l -> nth_error (upd l k x) k = Some x.
Proof. revert k; induction l; destruct k; simpl; intros; try lia; auto. apply IHl; lia. Qed.

Lemma nth_error_upd_ne {A} (l : list A) k j x : j <> k -> nth_error (upd l k x) j = nth_error l j.
Proof. revert k j; induction l; destruct k, j; simpl; intros; try congruence; auto. Qed.

Lemma upd_same {A} (l : list A) k x : nth_error l k = Some x -> upd l k x = l.
Proof. revert k; induction l; destruct k; simpl; intros; try congruence. f_equal; auto. Qed.

Lemma upd_out {A} (l : list A) k x : length l <= k -> upd l k x = l.
Proof. revert k; induction l; destruct k; simpl; intros; try lia; auto. f_equal; apply IHl; lia. Qed.

Lemma upd_upd {A} (l : list A) k x y : upd (upd l k x) k y = upd l k y.
Proof. revert k; induction l; destruct k; simpl; auto. f_equal; auto. Qed.

Lemma nth_error_lt {A} (l : list A) k x : nth_error l k = Some x -> k < length l.
Proof. intros H; apply nth_error_Some; congruence. Qed.

Lemma nth_error_firstn {A} (l : list A) n k : k < n -> nth_error (firstn n l) k = nth_error l k.
Proof. revert l k; induction n; intros; try lia. destruct l, k; simpl; auto. apply IHn; lia. Qed.

Definition orel {A} (R : A -> A -> Prop) (o o' : option A) : Prop :=
  match o, o' with Some a, Some b => R a b | None, None => True | _, _ => False end.

Section ApiProofs.
  Variable V : Type.
  Variable sread : st V -> nat -> st V * option V.
  Variable swrite : st V -> nat -> option V -> st V.
  Variable sclone : st V -> st V.
  Variable tracked : list nat.
  Variable tape : gen -> nat -> V.
  Variable seed_pos : gen -> nat -> nat.
  Variable anc : nat -> list nat.
  Variable indep : nat -> bool.

  Variable simOn : view -> st V -> st V -> Prop.
  Hypothesis sim_sym : forall P s s', simOn P s s' -> simOn P s' s.
  Hypothesis sim_trans : forall P s1 s2 s3, simOn P s1 s2 -> simOn P s2 s3 -> simOn P s1 s3.
  Hypothesis sim_mono : forall (P Q : view) s s', (forall m, Q m = true -> P m = true) -> simOn P s s' -> simOn Q s s'.
  Hypothesis get_transparent : forall P s n, simOn P s s -> simOn P (fst (sread s n)) s.
  Hypothesis get_determined : forall P s s' n, simOn P s s' -> forallb P (anc n) = true -> snd (sread s n) = snd (sread s' n).
  Hypothesis set_agree : forall P s s' n v, simOn P s s' -> simOn (vadd n P) (swrite s n v) (swrite s' n v).
  Hypothesis set_frame : forall (P : view) s n v, simOn P s s -> P n = false -> simOn P (swrite s n v) s.
  Hypothesis set_get : forall P s n v, simOn P s s -> indep n = true -> snd (sread (swrite s n v) n) = v.
  Hypothesis clone_isolated : forall P s, simOn P s s -> simOn P (sclone s) s.
  Hypothesis anc_indep : forall n, indep n = true -> anc n = [n].

  Notation ev := (ev V).
  Notation cfg := (cfg V).
  Notation step := (step V sread swrite sclone tracked tape seed_pos).
  Notation exec := (exec V sread swrite sclone tracked tape seed_pos).
  Notation run_obs := (run_obs V sread swrite sclone tracked tape seed_pos).
  Notation run_observers := (run_observers V sread swrite sclone tracked tape seed_pos).
  Notation run_logged := (run_logged V sread swrite sclone tracked tape seed_pos).
  Notation fit_run := (fit_run V sread swrite sclone tracked tape seed_pos).
  Notation api_call := (api_call V sread swrite sclone tracked tape seed_pos).
  Notation sread_all := (sread_all V sread).
  Notation flow := (flow V anc).
  Notation flow_all := (flow_all V anc).

  Notation top := ApiModel.top.
  Notation wf_cfg := (wf_cfg V simOn).
  Notation same_results := (same_results V sread).

  Lemma sim_refl_l P s s' : simOn P s s' -> simOn P s s.
  Proof. intros; eapply sim_trans; eauto. Qed.
  Lemma sim_refl_r P s s' : simOn P s s' -> simOn P s' s'.
  Proof. intros; eapply sim_trans; eauto. Qed.

  Lemma read_sim P s s' n : simOn P s s' -> simOn P (fst (sread s n)) (fst (sread s' n)).
  Proof.
    intros H. apply sim_trans with s. { apply get_transparent. eapply sim_refl_l; eauto. }
    apply sim_trans with s'; auto. apply sim_sym, get_transparent. eapply sim_refl_r; eauto.
  Qed.

  Lemma read_all_sim P ns : forall s s', simOn P s s' -> simOn P (sread_all s ns) (sread_all s' ns).
  Proof. induction ns; simpl; intros; auto. apply IHns, read_sim; auto. Qed.

  Lemma read_all_self P ns : forall s, simOn P s s -> simOn P (sread_all s ns) s.
  Proof.
    induction ns; simpl; intros; auto.
    apply sim_trans with (fst (sread s a)). { apply IHns. eapply sim_refl_l. apply get_transparent; eauto. }
    apply get_transparent; auto.
  Qed.

  Lemma clone_sim P s s' : simOn P s s' -> simOn P (sclone s) (sclone s').
  Proof.
    intros H. apply sim_trans with s. { apply clone_isolated. eapply sim_refl_l; eauto. }
    apply sim_trans with s'; auto. apply sim_sym, clone_isolated. eapply sim_refl_r; eauto.
  Qed.

  (* ------------------------------------------------------------------ stores that agree view by view *)
  Definition sims (vs : list view) (S S' : store V) : Prop :=
    length S = length vs /\ length S' = length vs /\
    forall k v s s', nth_error vs k = Some v -> nth_error S k = Some s -> nth_error S' k = Some s' -> simOn v s s'.

  Definition crel (vs : list view) (cur : nat) (c c' : cfg) : Prop :=
    sims vs (cS c) (cS c') /\ cCur c = cur /\ cCur c' = cur /\ cPos c = cPos c' /\ cRegs c = cRegs c' /\ cLog c = cLog c'.

  Lemma sims_nth vs S S' k v :
    sims vs S S' -> nth_error vs k = Some v ->
    exists s s', nth_error S k = Some s /\ nth_error S' k = Some s' /\ simOn v s s'.
  Proof.
    intros (L1 & L2 & H) Hv. pose proof (nth_error_lt _ _ _ Hv) as Hk.
    destruct (nth_error S k) as [s|] eqn:E1. 2:{ apply nth_error_None in E1; lia. }
    destruct (nth_error S' k) as [s'|] eqn:E2. 2:{ apply nth_error_None in E2; lia. }
    exists s, s'; repeat split; eauto.
  Qed.

  Lemma sims_none vs S S' k :
    sims vs S S' -> nth_error vs k = None -> nth_error S k = None /\ nth_error S' k = None.
  Proof. intros (L1 & L2 & _) Hv. apply nth_error_None in Hv. split; apply nth_error_None; lia. Qed.

  Lemma sims_upd vs S S' k v s s' :
    sims vs S S' -> simOn v s s' -> sims (upd vs k v) (upd S k s) (upd S' k s').
  Proof.
    intros (L1 & L2 & H) Hs. unfold sims. rewrite !length_upd. repeat split; auto.
    intros j w t t' Hw Ht Ht'. destruct (Nat.eq_dec j k) as [->|Hne].
    - assert (k < length vs) by (apply nth_error_lt in Hw; rewrite length_upd in Hw; auto).
      rewrite nth_error_upd_eq in Hw by lia. rewrite nth_error_upd_eq in Ht by lia.
      rewrite nth_error_upd_eq in Ht' by lia. congruence.
    - rewrite nth_error_upd_ne in Hw by auto. rewrite nth_error_upd_ne in Ht by auto.
      rewrite nth_error_upd_ne in Ht' by auto. eauto.
  Qed.

  Lemma sims_app vs S S' v s s' :
    sims vs S S' -> simOn v s s' -> sims (vs ++ [v]) (S ++ [s]) (S' ++ [s']).
  Proof.
    intros (L1 & L2 & H) Hs. unfold sims. rewrite !app_length; simpl. repeat split; try lia.
    intros j w t t' Hw Ht Ht'. destruct (lt_dec j (length vs)).
    - rewrite nth_error_app1 in Hw by lia. rewrite nth_error_app1 in Ht by lia. rewrite nth_error_app1 in Ht' by lia. eauto.
    - assert (j = length vs).
      { apply nth_error_lt in Hw. rewrite app_length in Hw; simpl in Hw. lia. }
      subst j. rewrite nth_error_app2 in Hw by lia. rewrite nth_error_app2 in Ht by lia. rewrite nth_error_app2 in Ht' by lia.
      replace (length vs - length vs) with 0 in Hw by lia.
      replace (length vs - length S) with 0 in Ht by lia. replace (length vs - length S') with 0 in Ht' by lia.
      simpl in *. congruence.
  Qed.

  Lemma sims_firstn vs S S' n : sims vs S S' -> sims (firstn n vs) (firstn n S) (firstn n S').
  Proof.
    intros (L1 & L2 & H). unfold sims. rewrite !firstn_length. repeat split; try lia.
    intros j w t t' Hw Ht Ht'.
    assert (j < n). { apply nth_error_lt in Hw. rewrite firstn_length in Hw. lia. }
    rewrite nth_error_firstn in Hw by auto. rewrite nth_error_firstn in Ht by auto. rewrite nth_error_firstn in Ht' by auto. eauto.
  Qed.

  (* ------------------------------------------------------------------ soundness of the flow check *)
  Lemma flow_step_sound base vs cur c c' e :
    crel vs cur c c' ->
    match flow base (vs, cur) e with
    | None => True
    | Some (vs', cur') => orel (crel vs' cur') (step base c e) (step base c' e)
    end.
  Proof.
    intros (Hs & Hc & Hc' & Hp & Hr & Hl).
    destruct c as [S0 cu p rg lg], c' as [S0' cu' p' rg' lg']; simpl in *; subst cu cu' p' rg' lg'.
    assert (Hlen : length S0 = length S0') by (destruct Hs as (? & ? & _); congruence).
    destruct e as [r n|r n f|r n f|r|r|g b|g s|r]; simpl.
    - (* EGet *)
      destruct (nth_error vs (resolve base cur r)) as [v|] eqn:Ev.
      + destruct (forallb v (anc n)) eqn:Ef; auto.
        destruct (sims_nth _ _ _ _ _ Hs Ev) as (s & s' & E1 & E2 & Hsim). rewrite E1, E2. simpl.
        unfold crel; simpl. split; [|repeat split; auto].
        * rewrite <- (upd_same vs _ _ Ev). apply sims_upd; auto. apply read_sim; auto.
        * f_equal. eapply get_determined; eauto.
      + destruct (sims_none _ _ _ _ Hs Ev) as (E1 & E2). rewrite E1, E2. simpl; auto.
    - (* ESet *)
      destruct (nth_error vs (resolve base cur r)) as [v|] eqn:Ev.
      + destruct (sims_nth _ _ _ _ _ Hs Ev) as (s & s' & E1 & E2 & Hsim). rewrite E1, E2. simpl.
        unfold crel; simpl. split; [|repeat split; auto]. apply sims_upd; auto.
      + destruct (sims_none _ _ _ _ Hs Ev) as (E1 & E2). rewrite E1, E2. simpl; auto.
    - (* ESetIf *)
      destruct (nth_error vs (resolve base cur r)) as [v|] eqn:Ev.
      + destruct (sims_nth _ _ _ _ _ Hs Ev) as (s & s' & E1 & E2 & Hsim). rewrite E1, E2.
        destruct (f rg) as [w|]; simpl; unfold crel; simpl; (split; [|repeat split; auto]); auto.
        rewrite <- (upd_same vs _ _ Ev). apply sims_upd; auto.
        eapply sim_mono; [|apply set_agree; eauto]. unfold vadd; intros m ->; apply orb_true_r.
      + destruct (sims_none _ _ _ _ Hs Ev) as (E1 & E2). rewrite E1, E2. simpl; auto.
    - (* EClone *)
      destruct (nth_error vs (resolve base cur r)) as [v|] eqn:Ev.
      + destruct (sims_nth _ _ _ _ _ Hs Ev) as (s & s' & E1 & E2 & Hsim). rewrite E1, E2. simpl.
        unfold crel; simpl. split; [|repeat split; auto; congruence].
        apply sims_app; auto. apply clone_sim; auto.
      + destruct (sims_none _ _ _ _ Hs Ev) as (E1 & E2). rewrite E1, E2. simpl; auto.
    - (* ESave *)
      destruct (nth_error vs (resolve base cur r)) as [v|] eqn:Ev.
      + destruct (sims_nth _ _ _ _ _ Hs Ev) as (s & s' & E1 & E2 & Hsim). rewrite E1, E2. simpl.
        unfold crel; simpl. split; [|repeat split; auto].
        rewrite <- (upd_same vs _ _ Ev). apply sims_upd; auto. apply read_all_sim; auto.
      + destruct (sims_none _ _ _ _ Hs Ev) as (E1 & E2). rewrite E1, E2. simpl; auto.
    - (* EDraw *)
      destruct (b rg); simpl; unfold crel; simpl; (split; [|repeat split; auto]); auto.
    - (* ESeed *)
      unfold crel; simpl; (split; [|repeat split; auto]); auto.
    - (* EReplace *)
      destruct (nth_error vs (resolve base cur r)) as [v|] eqn:Ev.
      + destruct (sims_nth _ _ _ _ _ Hs Ev) as (s & s' & E1 & E2 & Hsim). rewrite E1, E2. simpl.
        unfold crel; simpl; (split; [|repeat split; auto]); auto.
      + destruct (sims_none _ _ _ _ Hs Ev) as (E1 & E2). rewrite E1, E2. simpl; auto.
  Qed.

  Lemma flow_all_cons base fs e t :
    flow_all base fs (e :: t) = match flow base fs e with None => None | Some fs' => flow_all base fs' t end.
  Proof. reflexivity. Qed.
  Lemma exec_cons base e t c :
    exec base (e :: t) c = match step base c e with None => None | Some c' => exec base t c' end.
  Proof. reflexivity. Qed.

  Lemma flow_sound base evs : forall vs cur c c',
    crel vs cur c c' ->
    match flow_all base (vs, cur) evs with
    | None => True
    | Some (vs', cur') => orel (crel vs' cur') (exec base evs c) (exec base evs c')
    end.
  Proof.
    induction evs as [|e t IH]; intros vs cur c c' H; [simpl; auto|].
    rewrite flow_all_cons, !exec_cons.
    pose proof (flow_step_sound base vs cur c c' e H) as Hs.
    destruct (flow base (vs, cur) e) as [[vs1 cur1]|]; auto.
    destruct (step base c e) as [d|], (step base c' e) as [d'|]; simpl in Hs; try contradiction.
    - apply IH; auto.
    - destruct (flow_all base (vs1, cur1) t) as [[? ?]|]; simpl; auto.
  Qed.

  (* ------------------------------------------------------------------ full views: the check always passes *)
  Definition all_top (vs : list view) : Prop := forall k v, nth_error vs k = Some v -> forall m, v m = true.

  Lemma all_top_forallb (v : view) l : (forall m, v m = true) -> forallb v l = true.
  Proof. intros; apply forallb_forall; auto. Qed.

  Lemma all_top_upd vs k (v : view) : all_top vs -> (forall m, v m = true) -> all_top (upd vs k v).
  Proof.
    intros H Hv j w Hw. destruct (Nat.eq_dec j k) as [->|].
    - assert (k < length vs) by (apply nth_error_lt in Hw; rewrite length_upd in Hw; auto).
      rewrite nth_error_upd_eq in Hw by auto. inversion Hw; subst; auto.
    - rewrite nth_error_upd_ne in Hw by auto. eauto.
  Qed.

  Lemma all_top_app vs (v : view) : all_top vs -> (forall m, v m = true) -> all_top (vs ++ [v]).
  Proof.
    intros H Hv j w Hw. destruct (lt_dec j (length vs)).
    - rewrite nth_error_app1 in Hw by auto. eauto.
    - rewrite nth_error_app2 in Hw by lia. destruct (j - length vs) as [|[|?]]; simpl in Hw; inversion Hw; subst; auto.
  Qed.

  Lemma flow_top_step base vs cur e :
    all_top vs -> exists vs' cur', flow base (vs, cur) e = Some (vs', cur') /\ all_top vs'.
  Proof.
    intros H. destruct e as [r n|r n f|r n f|r|r|g b|g s|r]; simpl;
      try (destruct (nth_error vs (resolve base cur r)) as [v|] eqn:Ev); eauto.
    - rewrite all_top_forallb by eauto. eauto.
    - do 2 eexists; split; eauto. apply all_top_upd; auto. intros m; unfold vadd. rewrite (H _ _ Ev m). apply orb_true_r.
    - do 2 eexists; split; eauto. apply all_top_app; eauto.
  Qed.

  Lemma flow_top base evs : forall vs cur,
    all_top vs -> exists vs' cur', flow_all base (vs, cur) evs = Some (vs', cur') /\ all_top vs'.
  Proof.
    induction evs as [|e t IH]; intros; [simpl; eauto|]. rewrite flow_all_cons.
    destruct (flow_top_step base vs cur e H) as (vs1 & cur1 & E & H1). rewrite E. eauto.
  Qed.

  (* two configurations that cannot be told apart by any read *)
  Definition crelT (c c' : cfg) : Prop := exists vs, all_top vs /\ crel vs (cCur c) c c'.

  Lemma exec_cong base evs c c' : crelT c c' -> orel crelT (exec base evs c) (exec base evs c').
  Proof.
    intros (vs & Ht & H). pose proof (flow_sound base evs vs (cCur c) c c' H) as Hs.
    destruct (flow_top base evs vs (cCur c) Ht) as (vs' & cur' & E & Ht'). rewrite E in Hs.
    destruct (exec base evs c) as [d|], (exec base evs c') as [d'|]; simpl in *; auto.
    exists vs'; split; auto. destruct Hs as (Q1 & Q2 & Q3 & Q4 & Q5 & Q6). unfold crel. rewrite Q2. tauto.
  Qed.

  Lemma crelT_sym c c' : crelT c c' -> crelT c' c.
  Proof.
    intros (vs & Ht & (L1 & L2 & H) & Hc & Hc' & Hp & Hr & Hl). exists vs; split; auto.
    unfold crel, sims. rewrite Hc'. repeat split; auto. intros; apply sim_sym; eauto.
  Qed.

  Lemma crelT_trans c1 c2 c3 : crelT c1 c2 -> crelT c2 c3 -> crelT c1 c3.
  Proof.
    intros (vs & Ht & (L1 & L2 & H) & Hc & Hc' & Hp & Hr & Hl) (ws & Wt & (M1 & M2 & G) & Gc & Gc' & Gp & Gr & Gl).
    exists vs; split; auto. unfold crel, sims. repeat split; try congruence.
    intros k v s s3 Hv Hs Hs3.
    assert (k < length (cS c2)) by (apply nth_error_lt in Hs; lia).
    destruct (nth_error (cS c2) k) as [s2|] eqn:E2. 2:{ apply nth_error_None in E2; lia. }
    destruct (nth_error ws k) as [w|] eqn:Ew. 2:{ apply nth_error_None in Ew; lia. }
    eapply sim_trans; [eapply H; eauto|].
    eapply sim_mono; [|eapply G; eauto]. intros; eapply Wt; eauto.
  Qed.

  (* ------------------------------------------------------------------ congruence of logged runs *)
  Lemma run_obs_cong o c c' : crelT c c' -> orel crelT (run_obs o c) (run_obs o c').
  Proof.
    intros (vs & Ht & Hs & Hc & Hc' & Hp & Hr & Hl). unfold ApiModel.run_obs.
    assert (Hlen : length (cS c) = length (cS c')) by (destruct Hs as (? & ? & _); congruence).
    destruct c as [S0 cu p rg lg], c' as [S0' cu' p' rg' lg']; simpl in *. subst cu' p' rg' lg'. rewrite <- Hlen.
    assert (H0 : crelT (Cfg S0 cu p [] lg) (Cfg S0' cu p [] lg)).
    { exists vs; split; auto. unfold crel; simpl; tauto. }
    pose proof (exec_cong (length S0) o _ _ H0) as He.
    destruct (exec (length S0) o (Cfg S0 cu p [] lg)) as [d|], (exec (length S0) o (Cfg S0' cu p [] lg)) as [d'|];
      simpl in *; auto.
    destruct He as (ws & Wt & Ws & Wc & Wc' & Wp & Wr & Wl).
    exists (firstn (length S0) ws); split.
    - intros k v Hv. assert (k < length S0) by (apply nth_error_lt in Hv; rewrite firstn_length in Hv; lia).
      rewrite nth_error_firstn in Hv by auto. eauto.
    - unfold crel; simpl. split; [apply sims_firstn; auto|]. tauto.
  Qed.

  Lemma run_observers_cong os : forall c c', crelT c c' -> orel crelT (run_observers os c) (run_observers os c').
  Proof.
    induction os as [|o t IH]; simpl; intros; auto.
    pose proof (run_obs_cong o c c' H) as Ho.
    destruct (run_obs o c), (run_obs o c'); simpl in *; auto; contradiction.
  Qed.

  Lemma run_logged_cong base sched iters : forall i c c',
    crelT c c' -> orel crelT (run_logged base sched i iters c) (run_logged base sched i iters c').
  Proof.
    induction iters as [|it rest IH]; simpl; intros; auto.
    pose proof (exec_cong base it c c' H) as He.
    destruct (exec base it c) as [d|], (exec base it c') as [d'|]; simpl in *; auto; try contradiction.
    pose proof (run_observers_cong (sched i) d d' He) as Ho.
    destruct (run_observers (sched i) d), (run_observers (sched i) d'); simpl in *; auto; contradiction.
  Qed.

  Lemma fit_run_cong base seed init iters fin sched c c' :
    crelT c c' -> orel crelT (fit_run base seed init iters fin sched c) (fit_run base seed init iters fin sched c').
  Proof.
    intros H. unfold ApiModel.fit_run.
    pose proof (exec_cong base (seed_all V seed ++ init) c c' H) as He.
    destruct (exec base _ c) as [d|], (exec base _ c') as [d'|]; simpl in *; auto; try contradiction.
    pose proof (run_logged_cong base sched iters 1 d d' He) as Hl.
    destruct (run_logged base sched 1 iters d) as [e|], (run_logged base sched 1 iters d') as [e'|]; simpl in *; auto; try contradiction.
    apply exec_cong; auto.
  Qed.

  (* ------------------------------------------------------------------ frame: what a script leaves alone *)
  (* states 0..base-1 of S have kept their P-content w.r.t. S0 *)
  Definition prot (P : view) (base : nat) (S0 S : store V) : Prop :=
    forall k s0, k < base -> nth_error S0 k = Some s0 -> exists s, nth_error S k = Some s /\ simOn P s s0.

  Lemma prot_upd P base S0 S k s t :
    prot P base S0 S -> nth_error S k = Some s -> (simOn P s s -> simOn P t s) -> prot P base S0 (upd S k t).
  Proof.
    intros Hp Ek Ht j s0 Hj E0. destruct (Hp j s0 Hj E0) as (sj & Ej & Hsim).
    destruct (Nat.eq_dec j k) as [->|Hne].
    - rewrite nth_error_upd_eq by (eapply nth_error_lt; eauto). rewrite Ek in Ej; inversion Ej; subst sj.
      exists t; split; [reflexivity|]. apply sim_trans with s; [apply Ht; eapply sim_refl_l; eauto | auto].
    - rewrite nth_error_upd_ne by auto. eauto.
  Qed.

  Lemma prot_upd_loc P base S0 S i t : prot P base S0 S -> prot P base S0 (upd S (base + i) t).
  Proof.
    intros Hp j s0 Hj E0. destruct (Hp j s0 Hj E0) as (sj & Ej & Hsim). rewrite nth_error_upd_ne by lia. eauto.
  Qed.

  Lemma prot_app P base S0 S x : prot P base S0 S -> prot P base S0 (S ++ [x]).
  Proof.
    intros Hp j s0 Hj E0. destruct (Hp j s0 Hj E0) as (sj & Ej & Hsim).
    rewrite nth_error_app1 by (eapply nth_error_lt; eauto). eauto.
  Qed.

  Lemma prot_refl P base S : (forall k s, k < base -> nth_error S k = Some s -> simOn P s s) -> prot P base S S.
  Proof. intros H k s Hk E. eauto. Qed.

  Lemma frame_step (P W : view) base S0 c c' e :
    (forall n, W n = true -> P n = false) ->
    writes_in V W e = true -> prot P base S0 (cS c) -> step base c e = Some c' ->
    prot P base S0 (cS c') /\ cCur c' = cCur c.
  Proof.
    intros HW Hw Hp Hst. destruct c as [S1 cu p rg lg]; simpl in *.
    destruct e as [r n|r n f|r n f|r|r|g b|g s|r]; simpl in Hst, Hw.
    - destruct (nth_error S1 (resolve base cu r)) as [s|] eqn:E; inversion Hst; subst; simpl. split; auto.
      eapply prot_upd; [eauto | eauto | intros; apply get_transparent; auto].
    - destruct (nth_error S1 (resolve base cu r)) as [s|] eqn:E; inversion Hst; subst; simpl. split; auto.
      destruct r as [|i]; simpl in *; [|apply prot_upd_loc; auto].
      eapply prot_upd; [eauto | eauto | intros; apply set_frame; auto].
    - destruct (nth_error S1 (resolve base cu r)) as [s|] eqn:E; try discriminate.
      destruct (f rg) as [v|]; inversion Hst; subst; simpl; split; auto.
      destruct r as [|i]; simpl in *; [|apply prot_upd_loc; auto].
      eapply prot_upd; [eauto | eauto | intros; apply set_frame; auto].
    - destruct (nth_error S1 (resolve base cu r)) as [s|] eqn:E; inversion Hst; subst; simpl. split; auto.
      apply prot_app; auto.
    - destruct (nth_error S1 (resolve base cu r)) as [s|] eqn:E; inversion Hst; subst; simpl. split; auto.
      eapply prot_upd; [eauto | eauto | intros; apply read_all_self; auto].
    - destruct (b rg); inversion Hst; subst; simpl; auto.
    - inversion Hst; subst; simpl; auto.
    - discriminate.
  Qed.

  Lemma frame_exec (P W : view) base S0 evs :
    (forall n, W n = true -> P n = false) -> forallb (writes_in V W) evs = true ->
    forall c c', prot P base S0 (cS c) -> exec base evs c = Some c' ->
    prot P base S0 (cS c') /\ cCur c' = cCur c.
  Proof.
    intros HW. induction evs as [|e t IH]; intros Hf c c' Hp He.
    - simpl in He. inversion He; subst; auto.
    - simpl in Hf. apply andb_true_iff in Hf as (He1 & Hf). rewrite exec_cons in He.
      destruct (step base c e) as [d|] eqn:Es; try discriminate.
      destruct (frame_step P W base S0 c d e HW He1 Hp Es) as (Hp' & Hc).
      destruct (IH Hf d c' Hp' He) as (Hp'' & Hc'). split; auto. congruence.
  Qed.

  Lemma step_length base c c' e : step base c e = Some c' -> length (cS c) <= length (cS c').
  Proof.
    destruct c as [S1 cu p rg lg]; simpl.
    destruct e as [r n|r n f|r n f|r|r|g b|g s|r]; simpl;
      try (destruct (nth_error S1 (resolve base cu r)) as [s0|]; try discriminate);
      try (destruct (f rg)); try (destruct (b rg));
      intros H; inversion H; subst; simpl; rewrite ?length_upd, ?app_length; simpl; lia.
  Qed.

  Lemma exec_length base evs : forall c c', exec base evs c = Some c' -> length (cS c) <= length (cS c').
  Proof.
    induction evs as [|e t IH]; intros c c' H.
    - simpl in H; inversion H; auto.
    - rewrite exec_cons in H. destruct (step base c e) as [d|] eqn:Es; try discriminate.
      apply step_length in Es. apply IH in H. lia.
  Qed.

  Lemma ro_writes e : read_only_ev V e = true -> writes_in V (fun _ => false) e = true.
  Proof. destruct e as [r n|r n f|r n f|r|r|g b|g s|r]; simpl; auto; destruct r; auto. Qed.

  Lemma ro_step_pos base c c' e : read_only_ev V e = true -> step base c e = Some c' -> cPos c' = cPos c.
  Proof.
    destruct c as [S1 cu p rg lg]; simpl.
    destruct e as [r n|r n f|r n f|r|r|g b|g s|r]; simpl; intros Hr; try discriminate;
      try (destruct (nth_error S1 (resolve base cu r)) as [s0|]; try discriminate);
      try (destruct (f rg)); intros H; inversion H; subst; simpl; auto.
  Qed.

  Lemma ro_exec_pos base o : read_only V o = true -> forall c c', exec base o c = Some c' -> cPos c' = cPos c.
  Proof.
    induction o as [|e t IH]; intros Hr c c' H.
    - simpl in H; inversion H; auto.
    - simpl in Hr. apply andb_true_iff in Hr as (H1 & H2). rewrite exec_cons in H.
      destruct (step base c e) as [d|] eqn:Es; try discriminate.
      rewrite (IH H2 d c' H). eapply ro_step_pos; eauto.
  Qed.

  (* a read-only observer leaves a configuration that no read can tell from the one it found *)
  Lemma obs_transparent o c c' : read_only V o = true -> crelT c c -> run_obs o c = Some c' -> crelT c' c.
  Proof.
    intros Hro (vs & Ht & (L1 & L2 & Hs) & _) Hrun. unfold ApiModel.run_obs in Hrun.
    destruct c as [S0 cu p rg lg]; simpl in *.
    destruct (exec (length S0) o (Cfg S0 cu p [] lg)) as [d|] eqn:E; inversion Hrun; subst c'; clear Hrun.
    assert (HW : forall n : nat, (fun _ : nat => false) n = true -> top n = false) by (intros; discriminate).
    assert (Hf : forallb (writes_in V (fun _ => false)) o = true).
    { apply forallb_forall. intros e He. apply ro_writes. unfold read_only in Hro.
      rewrite forallb_forall in Hro. auto. }
    assert (Hp0 : prot top (length S0) S0 S0).
    { apply prot_refl. intros k s Hk Es.
      destruct (nth_error vs k) as [v|] eqn:Ev. 2:{ apply nth_error_None in Ev; lia. }
      eapply sim_mono; [|eapply Hs; eauto]. intros; eapply Ht; eauto. }
    destruct (frame_exec top (fun _ => false) (length S0) S0 o HW Hf (Cfg S0 cu p [] lg) d Hp0 E) as (Hp & Hc). simpl in Hp, Hc.
    pose proof (ro_exec_pos _ _ Hro _ _ E) as Hpos. simpl in Hpos.
    pose proof (exec_length _ _ _ _ E) as Hlen. simpl in Hlen.
    exists vs; split; auto. unfold crel; simpl. split; [|repeat split; auto].
    unfold sims. rewrite firstn_length. repeat split; try lia.
    intros k v s s' Hv Hs1 Hs2.
    assert (Hk : k < length S0) by (apply nth_error_lt in Hs2; auto).
    rewrite nth_error_firstn in Hs1 by auto.
    destruct (Hp k s' Hk Hs2) as (s'' & E'' & Hsim). rewrite Hs1 in E''; inversion E''; subst s''.
    eapply sim_mono; [|eauto]. intros; reflexivity.
  Qed.

  Lemma crelT_refl_l c c' : crelT c c' -> crelT c c.
  Proof. intros; eapply crelT_trans; eauto. apply crelT_sym; auto. Qed.

  Lemma observers_transparent os : forall c c',
    (forall o, In o os -> read_only V o = true) -> crelT c c -> run_observers os c = Some c' -> crelT c' c.
  Proof.
    induction os as [|o t IH]; simpl; intros c c' Hro Hc Hrun.
    - inversion Hrun; subst; auto.
    - destruct (run_obs o c) as [d|] eqn:E; try discriminate.
      assert (Hd : crelT d c) by (eapply obs_transparent; eauto).
      eapply crelT_trans; [|eauto]. eapply IH; eauto. eapply crelT_refl_l; eauto.
  Qed.

  Lemma run_logged_transparent base sched iters :
    (forall i o, In o (sched i) -> read_only V o = true) ->
    forall i c c' c1, crelT c c' -> run_logged base sched i iters c = Some c1 ->
    exists c2, run_logged base (no_observers V) i iters c' = Some c2 /\ crelT c1 c2.
  Proof.
    intros Hro. unfold no_observers. induction iters as [|it rest IH]; simpl; intros i c c' c1 Hc Hrun.
    - inversion Hrun; subst. eauto.
    - pose proof (exec_cong base it c c' Hc) as He.
      destruct (exec base it c) as [d|] eqn:E1; try discriminate.
      destruct (exec base it c') as [d'|] eqn:E2; simpl in He; try contradiction.
      destruct (run_observers (sched i) d) as [d2|] eqn:E3; try discriminate.
      assert (H2 : crelT d2 d) by (eapply observers_transparent; eauto; eapply crelT_refl_l; eauto).
      apply (IH (S i) d2 d' c1); [eapply crelT_trans; eauto | exact Hrun].
  Qed.

  (* what "the same results" means for two configurations *)
  Lemma crelT_same c c' : crelT c c' -> same_results c c'.
  Proof.
    intros (vs & Ht & (L1 & L2 & Hs) & Hc & Hc' & Hp & Hr & Hl). unfold ApiModel.same_results. repeat split; try congruence.
    intros k s s' n E1 E2. assert (k < length vs) by (apply nth_error_lt in E1; lia).
    destruct (nth_error vs k) as [v|] eqn:Ev. 2:{ apply nth_error_None in Ev; lia. }
    eapply get_determined; [eapply Hs; eauto|]. apply all_top_forallb. eauto.
  Qed.

  Lemma wf_crelT c : wf_cfg c -> crelT c c.
  Proof.
    intros H. exists (map (fun _ => top) (cS c)). split.
    - intros k v Hv m. apply nth_error_In in Hv. apply in_map_iff in Hv as (? & <- & _). reflexivity.
    - unfold crel, sims. rewrite map_length. repeat split; auto.
      intros k v s s' Hv E1 E2. rewrite E1 in E2; inversion E2; subst s'.
      apply nth_error_In in Hv. apply in_map_iff in Hv as (? & <- & _). eauto.
  Qed.

  (* C11: logging is transparent *)
  Theorem logging_transparent base seed init iters fin sched c c1 :
    wf_cfg c ->
    (forall i o, In o (sched i) -> read_only V o = true) ->
    fit_run base seed init iters fin sched c = Some c1 ->
    exists c2, fit_run base seed init iters fin (no_observers V) c = Some c2 /\ same_results c1 c2.
  Proof.
    intros Hwf Hro Hrun. unfold ApiModel.fit_run in *.
    destruct (exec base (seed_all V seed ++ init) c) as [d|] eqn:E1; try discriminate.
    destruct (run_logged base sched 1 iters d) as [d1|] eqn:E2; try discriminate.
    assert (Hd : crelT d d).
    { pose proof (exec_cong base (seed_all V seed ++ init) c c (wf_crelT c Hwf)) as H. rewrite E1 in H. exact H. }
    destruct (run_logged_transparent base sched iters Hro 1 d d d1 Hd E2) as (d2 & E3 & H12). rewrite E3.
    pose proof (exec_cong base fin d1 d2 H12) as H. rewrite Hrun in H.
    destruct (exec base fin d2) as [c2|]; simpl in H; try contradiction.
    exists c2; split; auto. apply crelT_same; auto.
  Qed.

  (* C11: a seeded run does not depend on the generator positions it starts from *)
  Definition seeded_pos (s : nat) : gpos := (seed_pos GPy s, seed_pos GNp s, seed_pos GTorch s).

  Lemma exec_app base l1 l2 : forall c,
    exec base (l1 ++ l2) c = match exec base l1 c with None => None | Some c' => exec base l2 c' end.
  Proof.
    induction l1 as [|e t IH]; intros c; [reflexivity|].
    rewrite <- app_comm_cons, !exec_cons. destruct (step base c e); auto.
  Qed.

  Lemma exec_seed_all base s c :
    exec base (seed_all V s) c =
    Some (Cfg (cS c) (cCur c) (seeded_pos s) (cRegs c)
              ((KSeed GTorch, 0, s) :: (KSeed GNp, 0, s) :: (KSeed GPy, 0, s) :: cLog c)).
  Proof. destruct c as [S0 cu [[a b] d] rg lg]. reflexivity. Qed.

  Theorem reseed base seed init iters fin sched c p' :
    fit_run base seed init iters fin sched c
    = fit_run base seed init iters fin sched (Cfg (cS c) (cCur c) p' (cRegs c) (cLog c)).
  Proof. unfold ApiModel.fit_run. rewrite !exec_app, !exec_seed_all. reflexivity. Qed.

  (* the same for any public call: personalize and simulate are `seed_all s ++ script` as well *)
  Theorem reseed_call base seed script c p' :
    exec base (seed_all V seed ++ script) c
    = exec base (seed_all V seed ++ script) (Cfg (cS c) (cCur c) p' (cRegs c) (cLog c)).
  Proof. rewrite !exec_app, !exec_seed_all. reflexivity. Qed.

  (* ====================================================================== C13 *)

  (* ------------------------------------------------------------------ scripts that do not touch the model's state *)
  Lemma untouched_step base c c' e :
    untouched_ev V e = true -> cCur c < base -> base <= length (cS c) -> step base c e = Some c' ->
    (forall k, k < base -> nth_error (cS c') k = nth_error (cS c) k) /\ cCur c' = cCur c.
  Proof.
    intros Hu Hc Hb Hst. destruct c as [S1 cu p rg lg]; simpl in *.
    destruct e as [r n|r n f|r n f|r|r|g b|g s|r]; simpl in Hst, Hu; try discriminate;
      try (destruct r as [|i]; try discriminate; simpl in Hst);
      try (destruct (nth_error S1 _) as [s0|] eqn:E; try discriminate);
      try (destruct (f rg)); try (destruct (b rg));
      inversion Hst; subst; simpl; split; auto; intros k Hk;
      try (rewrite nth_error_upd_ne by lia; auto); try (apply nth_error_app1; lia).
  Qed.

  Lemma untouched_exec base evs : forall c c',
    forallb (untouched_ev V) evs = true -> cCur c < base -> base <= length (cS c) -> exec base evs c = Some c' ->
    (forall k, k < base -> nth_error (cS c') k = nth_error (cS c) k) /\ cCur c' = cCur c.
  Proof.
    induction evs as [|e t IH]; intros c c' Hf Hc Hb He.
    - simpl in He; inversion He; subst; auto.
    - simpl in Hf. apply andb_true_iff in Hf as (H1 & H2). rewrite exec_cons in He.
      destruct (step base c e) as [d|] eqn:Es; try discriminate.
      destruct (untouched_step base c d e H1 Hc Hb Es) as (Hk & Hcur).
      pose proof (step_length _ _ _ _ Es) as Hl.
      destruct (IH d c' H2 ltac:(lia) ltac:(lia) He) as (Hk' & Hcur'). split; [|congruence].
      intros k Hlt. rewrite Hk', Hk; auto.
  Qed.

  Definition nodraw_ev (e : ev) : bool := match e with EDraw _ _ | ESeed _ _ => false | _ => true end.

  Lemma nodraw_exec base evs : forall c c',
    forallb nodraw_ev evs = true -> exec base evs c = Some c' -> cPos c' = cPos c.
  Proof.
    induction evs as [|e t IH]; intros c c' Hf He.
    - simpl in He; inversion He; auto.
    - simpl in Hf. apply andb_true_iff in Hf as (H1 & H2). rewrite exec_cons in He.
      destruct (step base c e) as [d|] eqn:Es; try discriminate. rewrite (IH d c' H2 He).
      destruct c as [S1 cu p rg lg]; simpl in *.
      destruct e as [r n|r n f|r n f|r|r|g b|g s|r]; simpl in Es, H1; try discriminate;
        try (destruct (nth_error S1 _) as [s0|]; try discriminate); try (destruct (f rg));
        inversion Es; subst; auto.
  Qed.

  Lemma forallb_app_true {A} (f : A -> bool) l1 l2 : forallb f l1 = true -> forallb f l2 = true -> forallb f (l1 ++ l2) = true.
  Proof. intros; rewrite forallb_app; apply andb_true_iff; auto. Qed.

  Lemma forallb_map_true {A B} (f : B -> bool) (g : A -> B) l : (forall x, f (g x) = true) -> forallb f (map g l) = true.
  Proof. intros H; induction l; simpl; auto. rewrite H; auto. Qed.

  Lemma estimate_untouched tvar modelvar tin ips :
    forallb (untouched_ev V) (estimate_script V tvar modelvar tin ips) = true
    /\ forallb nodraw_ev (estimate_script V tvar modelvar tin ips) = true.
  Proof.
    unfold estimate_script. split; simpl; (apply forallb_app_true; [apply forallb_map_true; auto | reflexivity]).
  Qed.

  (* estimate: the model's State object is left EXACTLY as it was, the pointer and the generators too *)
  Theorem estimate_pure tvar modelvar tin ips s p c' :
    api_call (estimate_script V tvar modelvar tin ips) s p = Some c' ->
    nth_error (cS c') 0 = Some s /\ cCur c' = 0 /\ cPos c' = p.
  Proof.
    intros H. unfold ApiModel.api_call in H. destruct (estimate_untouched tvar modelvar tin ips) as (Hu & Hn).
    destruct (untouched_exec 1 _ (Cfg [s] 0 p [] []) c' Hu ltac:(simpl; lia) ltac:(simpl; lia) H) as (Hk & Hc).
    split; [rewrite Hk by lia; reflexivity|]. split; [exact Hc|]. apply (nodraw_exec _ _ _ _ Hn H).
  Qed.

  Lemma scipy_untouched data xi res ivars opt :
    forallb (untouched_ev V) (scipy_script V data xi res ivars opt) = true.
  Proof.
    unfold scipy_script. simpl. apply forallb_app_true; [apply forallb_map_true; auto|].
    simpl. apply forallb_app_true; [apply forallb_map_true; auto|].
    apply forallb_app_true; [apply forallb_map_true; auto|]. reflexivity.
  Qed.

  (* scipy_minimize: the model's State object is left EXACTLY as it was *)
  Theorem scipy_state data xi res ivars opt s p c' :
    api_call (scipy_script V data xi res ivars opt) s p = Some c' ->
    nth_error (cS c') 0 = Some s /\ cCur c' = 0.
  Proof.
    intros H. unfold ApiModel.api_call in H.
    destruct (untouched_exec 1 _ (Cfg [s] 0 p [] []) c' (scipy_untouched data xi res ivars opt) ltac:(simpl; lia) ltac:(simpl; lia) H) as (Hk & Hc).
    split; [rewrite Hk by lia; reflexivity | exact Hc].
  Qed.

  (* ------------------------------------------------------------------ scripts that only read the model's state (simulate) *)
  Theorem reads_only_pure script s p c' :
    forallb (writes_in V (fun _ => false)) script = true -> simOn top s s ->
    api_call script s p = Some c' ->
    exists s', model_state V c' = Some s' /\ simOn top s' s /\ forall n, snd (sread s' n) = snd (sread s n).
  Proof.
    intros Hf Hwf H. unfold ApiModel.api_call in H.
    assert (HW : forall n : nat, (fun _ : nat => false) n = true -> top n = false) by (intros; discriminate).
    assert (Hp0 : prot top 1 [s] [s]).
    { apply prot_refl. intros k t Hk E. destruct k; [|lia]. inversion E; subst; auto. }
    destruct (frame_exec top (fun _ => false) 1 [s] script HW Hf (Cfg [s] 0 p [] []) c' Hp0 H) as (Hp & Hc).
    simpl in Hc. destruct (Hp 0 s ltac:(lia) eq_refl) as (s' & E & Hsim).
    exists s'. unfold model_state. rewrite Hc. split; auto. split; auto.
    intros n. eapply get_determined; eauto. apply all_top_forallb. reflexivity.
  Qed.

  (* ------------------------------------------------------------------ MCMC personalisation leaves a clean model *)
  Definition mem (l : list nat) : view := fun m => existsb (Nat.eqb m) l.
  Definition noclone_ev (e : ev) : bool := match e with EClone _ => false | _ => true end.

  Lemma mem_In l n : mem l n = true <-> In n l.
  Proof.
    unfold mem. rewrite existsb_exists. split.
    - intros (x & Hin & E). apply Nat.eqb_eq in E; subst; auto.
    - intros H; exists n; split; auto. apply Nat.eqb_refl.
  Qed.

  Lemma noclone_exec base evs : forall c c',
    forallb noclone_ev evs = true -> exec base evs c = Some c' -> length (cS c') = length (cS c).
  Proof.
    induction evs as [|e t IH]; intros c c' Hf He.
    - simpl in He; inversion He; auto.
    - simpl in Hf. apply andb_true_iff in Hf as (H1 & H2). rewrite exec_cons in He.
      destruct (step base c e) as [d|] eqn:Es; try discriminate. rewrite (IH d c' H2 He).
      destruct c as [S1 cu p rg lg]; simpl in *.
      destruct e as [r n|r n f|r n f|r|r|g b|g s|r]; simpl in Es, H1; try discriminate;
        try (destruct (nth_error S1 _) as [s0|]; try discriminate); try (destruct (f rg)); try (destruct (b rg));
        inversion Es; subst; simpl; rewrite ?length_upd; auto.
  Qed.

  Lemma wf_write s n v : simOn top s s -> simOn top (swrite s n v) (swrite s n v).
  Proof.
    intros H. eapply sim_mono; [|apply set_agree; eauto]. intros m _. unfold vadd, ApiModel.top. apply orb_true_r.
  Qed.

  Fixpoint unset_all (s : st V) (ns : list nat) : st V :=
    match ns with [] => s | n :: t => unset_all (swrite s n None) t end.

  Lemma exec_unsets base (cu k : nat) : forall ns S0 p rg lg s rest,
    nth_error S0 (base + k) = Some s ->
    exists lg', exec base (map (fun n => ESet (Loc k) n (konst V None)) ns ++ rest) (Cfg S0 cu p rg lg)
                = exec base rest (Cfg (upd S0 (base + k) (unset_all s ns)) cu p rg lg').
  Proof.
    induction ns as [|n t IH]; intros S0 p rg lg s rest E; simpl.
    - exists lg. rewrite (upd_same _ _ _ E). reflexivity.
    - rewrite E. unfold konst.
      destruct (IH (upd S0 (base + k) (swrite s n None)) p rg ((KSet, base + k, n) :: lg) (swrite s n None) rest) as (lg' & Hx).
      { apply nth_error_upd_eq. eapply nth_error_lt; eauto. }
      exists lg'. unfold konst in Hx. rewrite Hx. rewrite upd_upd. reflexivity.
  Qed.

  Lemma unset_all_sim (P : view) ns : forall s,
    simOn top s s -> (forall n, In n ns -> P n = false) -> simOn P (unset_all s ns) s /\ simOn top (unset_all s ns) (unset_all s ns).
  Proof.
    induction ns as [|n t IH]; simpl; intros s Hwf HP.
    - split; auto. eapply sim_mono; [|eauto]. reflexivity.
    - assert (Hw : simOn top (swrite s n None) (swrite s n None)).
      { apply wf_write; auto. }
      destruct (IH (swrite s n None) Hw ltac:(auto)) as (H1 & H2). split; auto.
      apply sim_trans with (swrite s n None); auto. apply set_frame; auto.
      eapply sim_mono; [|eauto]. reflexivity.
  Qed.

  Lemma unset_all_reads ns : forall s n,
    simOn top s s -> (forall m, In m ns -> indep m = true) -> In n ns -> snd (sread (unset_all s ns) n) = None.
  Proof.
    induction ns as [|m t IH]; simpl; intros s n Hwf Hi Hn; [contradiction|]. destruct Hn as [->|Hin].
    - (* n written now; later writes either re-write it or leave it alone *)
      assert (Hw : simOn top (swrite s n None) (swrite s n None)).
      { apply wf_write; auto. }
      destruct (in_dec Nat.eq_dec n t) as [Hin|Hnin]; [apply IH; auto|].
      assert (Hfr : simOn (mem [n]) (unset_all (swrite s n None) t) (swrite s n None)).
      { apply unset_all_sim; auto. intros k Hk. destruct (mem [n] k) eqn:E; auto.
        apply mem_In in E. destruct E as [->|[]]. contradiction. }
      rewrite (get_determined _ _ _ n Hfr).
      + eapply set_get; eauto.
      + rewrite anc_indep by auto. simpl. rewrite Nat.eqb_refl. reflexivity.
    - assert (Hw : simOn top (swrite s m None) (swrite s m None)).
      { apply wf_write; auto. }
      apply IH; auto.
  Qed.

  Theorem mcmc_clean (P : view) data init_ind body dvars ivars s p c' :
    simOn top s s ->
    (forall n, In n (dvars ++ ivars) -> P n = false /\ indep n = true) ->
    (forall nv, In nv data -> In (fst nv) (dvars ++ ivars)) ->
    (forall nf, In nf init_ind -> In (fst nf) (dvars ++ ivars)) ->
    forallb (fun e => writes_in V (mem (dvars ++ ivars)) e && noclone_ev e) body = true ->
    api_call (mcmc_script V data init_ind body dvars ivars) s p = Some c' ->
    exists sf, model_state V c' = Some sf /\ cCur c' = 1 /\
               simOn P sf s /\                                      (* parameters, hyper-parameters, population variables *)
               forall n, In n (dvars ++ ivars) -> snd (sread sf n) = None.  (* data and individual variables unset *)
  Proof.
    intros Hwf Hvars Hdata Hinit Hbody H. unfold ApiModel.api_call, mcmc_script in H.
    set (A := map (fun nv => ESet Cur (fst nv) (konst V (snd nv))) data
              ++ map (fun nf => ESet Cur (fst nf) (snd nf)) init_ind ++ body) in *.
    replace (map (fun nv => ESet Cur (fst nv) (konst V (snd nv))) data
              ++ map (fun nf => ESet Cur (fst nf) (snd nf)) init_ind ++ body ++ terminate_script V 0 dvars ivars)
      with (A ++ terminate_script V 0 dvars ivars) in H by (unfold A; rewrite <- !app_assoc; reflexivity).
    rewrite exec_app in H. destruct (exec 1 A (Cfg [s] 0 p [] [])) as [d|] eqn:EA; try discriminate.
    set (W := mem (dvars ++ ivars)).
    assert (HA : forallb (fun e => writes_in V W e && noclone_ev e) A = true).
    { unfold A. apply forallb_app_true; [|apply forallb_app_true; auto].
      - apply forallb_forall. intros e He. apply in_map_iff in He as (nv & <- & Hin). simpl.
        rewrite andb_true_r. apply mem_In; auto.
      - apply forallb_forall. intros e He. apply in_map_iff in He as (nv & <- & Hin). simpl.
        rewrite andb_true_r. apply mem_In; auto. }
    assert (HA1 : forallb (writes_in V W) A = true).
    { apply forallb_forall. intros e He. rewrite forallb_forall in HA. apply HA in He. apply andb_true_iff in He; tauto. }
    assert (HA2 : forallb noclone_ev A = true).
    { apply forallb_forall. intros e He. rewrite forallb_forall in HA. apply HA in He. apply andb_true_iff in He; tauto. }
    assert (HW : forall n, W n = true -> P n = false) by (intros n Hn; apply mem_In in Hn; apply Hvars; auto).
    assert (Hp0 : prot P 1 [s] [s]).
    { apply prot_refl. intros k t Hk E. destruct k; [|lia]. inversion E; subst. eapply sim_mono; [|eauto]. reflexivity. }
    destruct (frame_exec P W 1 [s] A HW HA1 (Cfg [s] 0 p [] []) d Hp0 EA) as (Hp & Hc). simpl in Hc.
    pose proof (noclone_exec 1 A _ _ HA2 EA) as Hlen. simpl in Hlen.
    destruct (Hp 0 s ltac:(lia) eq_refl) as (s1 & E1 & Hs1).
    (* d is well-formed *)
    assert (Hd : crelT d d).
    { pose proof (exec_cong 1 A (Cfg [s] 0 p [] []) (Cfg [s] 0 p [] [])) as Hx. rewrite EA in Hx. apply Hx.
      apply wf_crelT. intros k t E. destruct k as [|k]; simpl in E; [inversion E; subst; auto|destruct k; discriminate]. }
    assert (Hwf1 : simOn top s1 s1).
    { destruct Hd as (vs & Ht & (L1 & L2 & Hs) & _).
      destruct (nth_error vs 0) as [v|] eqn:Ev. 2:{ apply nth_error_None in Ev. lia. }
      eapply sim_mono; [|eapply Hs; eauto]. intros; eapply Ht; eauto. }
    destruct d as [S1 cu1 p1 rg1 lg1]. simpl in Hc, Hlen, E1. subst cu1.
    destruct S1 as [|x [|y S1]]; simpl in Hlen; try discriminate. simpl in E1. inversion E1; subst x.
    (* the termination script *)
    assert (Hcl : simOn top (sclone s1) (sclone s1)).
    { eapply sim_refl_l. apply clone_isolated; eauto. }
    unfold terminate_script in H. rewrite exec_cons in H.
    change (step 1 (Cfg [s1] 0 p1 rg1 lg1) (EClone Cur))
      with (Some (Cfg ([s1] ++ [sclone s1]) 0 p1 rg1 ((KClone, 0, 1) :: lg1))) in H.
    cbv beta iota in H.
    destruct (exec_unsets 1 0 0 (dvars ++ ivars) ([s1] ++ [sclone s1]) p1 rg1 ((KClone, 0, 1) :: lg1) (sclone s1)
                          [EReplace (Loc 0)] eq_refl) as (lg' & Hx).
    rewrite Hx in H. simpl in H. inversion H; subst c'; clear H Hx.
    exists (unset_all (sclone s1) (dvars ++ ivars)). unfold model_state; simpl. split; auto. split; auto.
    destruct (unset_all_sim P (dvars ++ ivars) (sclone s1) Hcl ltac:(intros; apply Hvars; auto)) as (Hu & _).
    split.
    - apply sim_trans with (sclone s1); auto. apply sim_trans with s1; auto.
      apply clone_isolated. eapply sim_mono; [|eauto]. reflexivity.
    - intros n Hn. apply unset_all_reads; auto. intros m Hm. apply Hvars; auto.
  Qed.

  (* ------------------------------------------------------------------ history independence *)
  (* what the caller gets back (everything read / drawn), what was done, where the generators and the pointer are *)
  Definition same_outcome (c c' : cfg) : Prop :=
    cRegs c = cRegs c' /\ cLog c = cLog c' /\ cPos c = cPos c' /\ cCur c = cCur c'.

  Lemma crel_single (kept : view) s s' p : simOn kept s s' -> crel [kept] 0 (Cfg [s] 0 p [] []) (Cfg [s'] 0 p [] []).
  Proof.
    intros Hs. unfold crel; simpl. split; [|repeat split; auto].
    unfold sims; simpl. split; [reflexivity|]. split; [reflexivity|].
    intros k v t t' Hv Ht Ht'. destruct k as [|[|k]]; simpl in *; try discriminate.
    inversion Hv; inversion Ht; inversion Ht'; subst; auto.
  Qed.

  (* a call whose every read is determined by (kept variables of the model's state + what the call itself assigned)
     returns the same thing on any two model states that agree on the kept variables, whatever else they hold *)
  Theorem history_independent (kept : view) script s s' p :
    simOn kept s s' ->
    flow_all 1 ([kept], 0) script <> None ->
    orel same_outcome (api_call script s p) (api_call script s' p).
  Proof.
    intros Hs Hf. unfold ApiModel.api_call.
    pose proof (flow_sound 1 script [kept] 0 _ _ (crel_single kept s s' p Hs)) as Hx.
    destruct (flow_all 1 ([kept], 0) script) as [[vs' cur']|]; [|congruence].
    destruct (exec 1 script (Cfg [s] 0 p [] [])) as [d|], (exec 1 script (Cfg [s'] 0 p [] [])) as [d'|]; simpl in *; auto.
    destruct Hx as (_ & Hc & Hc' & Hp & Hr & Hl). unfold same_outcome. repeat split; congruence.
  Qed.

  (* views that contain a set U closed under "independent ancestors": every later read passes the check *)
  Definition covers (U : view) (vs : list view) : Prop :=
    forall k v, nth_error vs k = Some v -> forall m, U m = true -> v m = true.
  Definition closed (U : view) : Prop := forall n, forallb U (anc n) = true.

  Lemma forallb_mono (U v : view) l : (forall m, U m = true -> v m = true) -> forallb U l = true -> forallb v l = true.
  Proof. intros H Hf. rewrite forallb_forall in *. auto. Qed.

  Lemma covers_upd U vs k (v : view) : covers U vs -> (forall m, U m = true -> v m = true) -> covers U (upd vs k v).
  Proof.
    intros H Hv j w Hw. destruct (Nat.eq_dec j k) as [->|].
    - assert (k < length vs) by (apply nth_error_lt in Hw; rewrite length_upd in Hw; auto).
      rewrite nth_error_upd_eq in Hw by auto. inversion Hw; subst; auto.
    - rewrite nth_error_upd_ne in Hw by auto. eauto.
  Qed.

  Lemma covers_app U vs (v : view) : covers U vs -> (forall m, U m = true -> v m = true) -> covers U (vs ++ [v]).
  Proof.
    intros H Hv j w Hw. destruct (lt_dec j (length vs)).
    - rewrite nth_error_app1 in Hw by auto. eauto.
    - rewrite nth_error_app2 in Hw by lia. destruct (j - length vs) as [|[|?]]; simpl in Hw; inversion Hw; subst; auto.
  Qed.

  Lemma flow_covers_step base U vs cur e :
    closed U -> covers U vs -> exists vs' cur', flow base (vs, cur) e = Some (vs', cur') /\ covers U vs'.
  Proof.
    intros HU H. destruct e as [r n|r n f|r n f|r|r|g b|g s|r]; simpl;
      try (destruct (nth_error vs (resolve base cur r)) as [v|] eqn:Ev); eauto.
    - rewrite (forallb_mono U v (anc n)) by (eauto || apply HU). eauto.
    - do 2 eexists; split; eauto. apply covers_upd; auto. intros m Hm; unfold vadd. rewrite (H _ _ Ev m Hm). apply orb_true_r.
    - do 2 eexists; split; eauto. apply covers_app; eauto.
  Qed.

  Lemma flow_covers base U evs : forall vs cur,
    closed U -> covers U vs -> flow_all base (vs, cur) evs <> None.
  Proof.
    induction evs as [|e t IH]; intros vs cur HU H; [simpl; congruence|]. rewrite flow_all_cons.
    destruct (flow_covers_step base U vs cur e HU H) as (vs1 & cur1 & E & H1). rewrite E. eauto.
  Qed.

  Definition vadds (l : list nat) (v : view) : view := fold_left (fun v n => vadd n v) l v.

  Lemma flow_sets_cur {A} (f : A -> nat) (g : A -> regs V -> option V) l : forall (v : view) rest,
    flow_all 1 ([v], 0) (map (fun x => ESet Cur (f x) (g x)) l ++ rest) = flow_all 1 ([vadds (map f l) v], 0) rest.
  Proof. induction l as [|x t IH]; intros v rest; [reflexivity|]. simpl map. rewrite <- app_comm_cons, flow_all_cons. simpl. apply IH. Qed.

  Lemma flow_sets_loc0 {A} (f : A -> nat) (g : A -> regs V -> option V) l : forall (k0 v : view) rest,
    flow_all 1 ([k0; v], 0) (map (fun x => ESet (Loc 0) (f x) (g x)) l ++ rest) = flow_all 1 ([k0; vadds (map f l) v], 0) rest.
  Proof. induction l as [|x t IH]; intros k0 v rest; [reflexivity|]. simpl map. rewrite <- app_comm_cons, flow_all_cons. simpl. apply IH. Qed.

  (* estimate: the trajectory depends on the kept variables, the time points and the individual parameters GIVEN, provided
     the variable read ("model") has no other independent ancestor (no dependence on the observations left in the state) *)
  Theorem estimate_history_independent (kept : view) tvar modelvar tin ips s s' p :
    simOn kept s s' ->
    forallb (vadds (map fst ips) (vadd tvar kept)) (anc modelvar) = true ->
    orel same_outcome (api_call (estimate_script V tvar modelvar tin ips) s p)
                      (api_call (estimate_script V tvar modelvar tin ips) s' p).
  Proof.
    intros Hs Ha. apply history_independent with kept; auto.
    unfold estimate_script. rewrite <- app_comm_cons, flow_all_cons. simpl flow.
    rewrite <- app_comm_cons, flow_all_cons. simpl flow.
    cbv beta iota. rewrite app_nil_l. rewrite (flow_sets_loc0 fst (fun nv => konst V (snd nv))). simpl. rewrite Ha. congruence.
  Qed.

  (* MCMC personalisation: once ALL data and individual variables have been assigned by the call itself, nothing that
     follows (sampler steps, termination) can depend on what the model's state held for them before *)
  Theorem mcmc_history_independent (kept : view) (data : list (nat * option V)) (init_ind : list (nat * (regs V -> option V)))
          rest s s' p :
    simOn kept s s' ->
    closed (vadds (map fst init_ind) (vadds (map fst data) kept)) ->
    orel same_outcome
         (api_call (map (fun nv => ESet Cur (fst nv) (konst V (snd nv))) data ++ map (fun nf => ESet Cur (fst nf) (snd nf)) init_ind ++ rest) s p)
         (api_call (map (fun nv => ESet Cur (fst nv) (konst V (snd nv))) data ++ map (fun nf => ESet Cur (fst nf) (snd nf)) init_ind ++ rest) s' p).
  Proof.
    intros Hs HU. apply history_independent with kept; auto.
    rewrite (flow_sets_cur fst (fun nv => konst V (snd nv))). rewrite (flow_sets_cur fst snd).
    apply flow_covers with (U := vadds (map fst init_ind) (vadds (map fst data) kept)); auto.
    intros k v Hv m Hm. destruct k as [|[|k]]; simpl in Hv; try discriminate. inversion Hv; subst; auto.
  Qed.

End ApiProofs.

(* ---------------------------------------------------------------------- settings: the algorithm works on a deep copy *)
Section SettingsProofs.

  Lemma nth_app_lt {A} (l l' : list A) j d : j < length l -> nth j (l ++ l') d = nth j l d.
  Proof. intros; apply app_nth1; auto. Qed.

  Lemma nth_upd_ne {A} (l : list A) k j x d : j <> k -> nth j (upd l k x) d = nth j l d.
  Proof. revert k j; induction l; destruct k, j; simpl; intros; try congruence; auto. Qed.

  Lemma nth_upd_eq {A} (l : list A) k x d : k < length l -> nth k (upd l k x) d = x.
  Proof. revert k; induction l; destruct k; simpl; intros; try lia; auto. apply IHl; lia. Qed.

  (* copy_entries only appends cells, and every nested address of the copy is one of the new cells *)
  Lemma copy_entries_spec d : forall h h' d',
    copy_entries h d = (h', d') ->
    length h <= length h' /\
    (forall j, j < length h -> nth j h' [] = nth j h []) /\
    (forall k c, In (k, Sub c) d' -> length h <= c < length h').
  Proof.
    induction d as [|[k [z|a]] t IH]; simpl; intros h h' d' H.
    - inversion H; subst. split; [|split]; auto. intros ? ? [].
    - destruct (copy_entries h t) as [h1 t1] eqn:E. inversion H; subst.
      destruct (IH _ _ _ E) as (L & P & Q). split; [|split]; auto.
      intros k' c [Hin|Hin]; [inversion Hin|]. eapply Q; eauto.
    - destruct (copy_entries (h ++ [nth a h []]) t) as [h1 t1] eqn:E. inversion H; subst.
      destruct (IH _ _ _ E) as (L & P & Q). rewrite app_length in *; simpl in *. split; [|split]; try lia.
      + intros j Hj. rewrite P by lia. apply nth_app_lt; auto.
      + intros k' c [Hin|Hin]; [inversion Hin; subst; lia|]. apply Q in Hin. lia.
  Qed.

  Lemma dset_sub d k z k' c : In (k', Sub c) (dset d k (Atom z)) -> In (k', Sub c) d.
  Proof.
    induction d as [|[k0 v0] t IH]; simpl.
    - intros [H|[]]; inversion H.
    - destruct (Nat.eqb k k0); simpl; intros [H|H]; auto; inversion H.
  Qed.

  Lemma dget_in d k v : dget d k = Some v -> In (k, v) d.
  Proof.
    induction d as [|[k0 v0] t IH]; simpl; try discriminate.
    destruct (Nat.eqb k k0) eqn:E; intros H.
    - inversion H; subst. apply Nat.eqb_eq in E; subst; auto.
    - auto.
  Qed.

  (* invariant of the heap while the algorithm writes through ITS dictionary (address b) *)
  Definition copy_inv (n0 b : nat) (h0 h : heap) : Prop :=
    n0 <= b /\ b < length h /\
    (forall j, j < n0 -> nth j h [] = nth j h0 []) /\
    (forall k c, In (k, Sub c) (nth b h []) -> n0 <= c < length h /\ c <> b).

  Lemma do_write_inv n0 b h0 h w : copy_inv n0 b h0 h -> copy_inv n0 b h0 (do_write b h w).
  Proof.
    intros (Hb & Hlen & Hold & Hsub). destruct w as [k z|k1 k2 z]; simpl.
    - unfold copy_inv. rewrite length_upd. split; [|split; [|split]]; auto.
      + intros j Hj. rewrite nth_upd_ne by lia. auto.
      + intros k' c H. rewrite nth_upd_eq in H by auto. apply dset_sub in H. apply Hsub in H. lia.
    - destruct (dget (nth b h []) k1) as [[z'|c]|] eqn:E; try (unfold copy_inv; auto; fail).
      apply dget_in in E. destruct (Hsub _ _ E) as (Hc & Hne).
      unfold copy_inv. rewrite length_upd. split; [|split; [|split]]; auto.
      + intros j Hj. rewrite nth_upd_ne by lia. auto.
      + intros k' c' H. rewrite nth_upd_ne in H by auto. apply Hsub in H. lia.
  Qed.

  Lemma do_writes_inv n0 b h0 ws : forall h, copy_inv n0 b h0 h -> copy_inv n0 b h0 (do_writes b h ws).
  Proof. unfold do_writes. induction ws as [|w t IH]; simpl; intros; auto. apply IH, do_write_inv; auto. Qed.

  Definition caller_ok (h : heap) (a : nat) : Prop :=
    a < length h /\ forall k b, In (k, Sub b) (nth a h []) -> b < length h.

  Theorem settings_copied h a ws :
    caller_ok h a ->
    view_dict (do_writes (snd (deep_copy h a)) (fst (deep_copy h a)) ws) a = view_dict h a.
  Proof.
    intros (Ha & Hsub). unfold deep_copy.
    destruct (copy_entries h (nth a h [])) as [h' d'] eqn:E. simpl.
    destruct (copy_entries_spec _ _ _ _ E) as (L & P & Q).
    assert (Hinv : copy_inv (length h) (length h') h (h' ++ [d'])).
    { unfold copy_inv. rewrite app_length; simpl. split; [|split; [|split]]; try lia.
      - intros j Hj. rewrite nth_app_lt by lia. auto.
      - intros k c H. rewrite app_nth2 in H by lia. replace (length h' - length h') with 0 in H by lia. simpl in H.
        apply Q in H. lia. }
    destruct (do_writes_inv _ _ _ ws _ Hinv) as (_ & _ & Hold & _).
    unfold view_dict. rewrite (Hold a Ha). apply map_ext_in. intros [k [z|b]] Hin; simpl; auto.
    rewrite (Hold b); auto. eapply Hsub; eauto.
  Qed.

  (* the two wrong variants change what the caller sees: no copy (aliasing), and a one-level copy *)
  Definition demo_heap : heap := [[(0, Atom 100%Z); (1, Sub 1)]; [(0, Atom 7%Z)]].

  Example alias_refuted :
    view_dict (do_writes (snd (alias demo_heap 0)) (fst (alias demo_heap 0)) [WTop 0 5%Z]) 0 <> view_dict demo_heap 0.
  Proof. vm_compute. discriminate. Qed.

  Example shallow_copy_refuted :
    view_dict (do_writes (snd (shallow_copy demo_heap 0)) (fst (shallow_copy demo_heap 0)) [WSub 1 0 5%Z]) 0
    <> view_dict demo_heap 0.
  Proof. vm_compute. discriminate. Qed.

  Example deep_copy_demo :
    caller_ok demo_heap 0 /\
    view_dict (do_writes (snd (deep_copy demo_heap 0)) (fst (deep_copy demo_heap 0)) [WTop 0 5%Z; WSub 1 0 5%Z]) 0
    = view_dict demo_heap 0 /\
    view_dict (do_writes (snd (deep_copy demo_heap 0)) (fst (deep_copy demo_heap 0)) [WTop 0 5%Z; WSub 1 0 5%Z])
              (snd (deep_copy demo_heap 0))
    <> view_dict demo_heap 0.
  Proof.
    split; [|split].
    - split; [simpl; lia|]. intros k b [H|[H|[]]]; inversion H; subst; simpl; lia.
    - vm_compute. reflexivity.
    - vm_compute. discriminate.
  Qed.
End SettingsProofs.
