(* Proofs about the model of AlgorithmSettings (Settings.v). *)
From Coq Require Import List Arith Bool ZArith Ascii String Lia.
From Leaspy Require Import Api.Settings.
Import ListNotations.
Local Open Scope string_scope.

(* ---------------------------------------------------------------------- induction on json values (nested dictionaries) *)
Fixpoint jv_dict_ind (P : jv -> Prop)
         (Hat : forall v, is_dict v = false -> P v)
         (Hd : forall d, Forall (fun kv => P (snd kv)) d -> P (JDict d)) (v : jv) {struct v} : P v :=
  match v with
  | JDict d => Hd d ((fix go (d : dict) : Forall (fun kv => P (snd kv)) d :=
                        match d with
                        | [] => Forall_nil _
                        | kv :: t => Forall_cons kv (jv_dict_ind P Hat Hd (snd kv)) (go t)
                        end) d)
  | JNull => Hat JNull eq_refl
  | JBool b => Hat (JBool b) eq_refl
  | JInt z => Hat (JInt z) eq_refl
  | JFloat n d => Hat (JFloat n d) eq_refl
  | JStr s => Hat (JStr s) eq_refl
  | JList l => Hat (JList l) eq_refl
  end.

(* ---------------------------------------------------------------------- association lists *)
Lemma dget_dset_eq d k v : dget (dset d k v) k = Some v.
Proof.
  induction d as [|[k' v'] t IH]; simpl.
  - now rewrite String.eqb_refl.
  - destruct (String.eqb k k') eqn:E; simpl; [now rewrite String.eqb_refl | now rewrite E].
Qed.

Lemma dget_dset_ne d k k' v : k <> k' -> dget (dset d k v) k' = dget d k'.
Proof.
  intros N. induction d as [|[k0 v0] t IH]; simpl.
  - destruct (String.eqb k' k) eqn:E; auto. apply String.eqb_eq in E. congruence.
  - destruct (String.eqb k k0) eqn:E; simpl.
    + apply String.eqb_eq in E; subst k0.
      destruct (String.eqb k' k) eqn:E'; auto. apply String.eqb_eq in E'. congruence.
    + destruct (String.eqb k' k0); auto.
Qed.

Lemma dset_same d k v : dget d k = Some v -> dset d k v = d.
Proof.
  induction d as [|[k' v'] t IH]; simpl; [discriminate|].
  destruct (String.eqb k k') eqn:E.
  - intros H; inversion H; subst. apply String.eqb_eq in E; now subst.
  - intros H. now rewrite IH.
Qed.

Lemma dget_in_nodup d k v : NoDup (keys d) -> In (k, v) d -> dget d k = Some v.
Proof.
  induction d as [|[k' v'] t IH]; simpl; [tauto|].
  intros ND [H|H].
  - inversion H; subst. now rewrite String.eqb_refl.
  - inversion ND; subst. destruct (String.eqb k k') eqn:E.
    + apply String.eqb_eq in E; subst k'. exfalso. apply H2. unfold keys. change k with (fst (k, v)). now apply in_map.
    + auto.
Qed.

Lemma dget_none_notin d k : dget d k = None -> ~ In k (keys d).
Proof.
  induction d as [|[k' v'] t IH]; simpl; [tauto|].
  destruct (String.eqb k k') eqn:E; [discriminate|].
  intros H [H'|H']; [subst; now rewrite String.eqb_refl in E | now apply IH].
Qed.

(* ---------------------------------------------------------------------- the nested update, one level (any table, any
   treatment `rec` of the nested dictionaries) *)
Section EntriesFacts.
  Variable act : bool -> bool -> bool -> mact.
  Variable rec : jv -> dict -> outcome dict.
  Notation me := (merge_entries act rec).

  (* a key that the user does not give keeps what it had *)
  Lemma merge_entries_other nd : forall ref m k,
      ~ In k (keys nd) -> me nd ref = Done m -> dget m k = dget ref k.
  Proof.
    induction nd as [|[k0 v0] t IH]; simpl; intros ref m k NI H.
    - now inversion H.
    - assert (k0 <> k) by tauto. assert (~ In k (keys t)) by tauto.
      destruct (act _ _ _).
      + rewrite (IH _ _ _ H1 H). now apply dget_dset_ne.
      + destruct (dget ref k0) as [[| | | | | |rd]|]; try discriminate.
        destruct (rec v0 rd); try discriminate.
        rewrite (IH _ _ _ H1 H). now apply dget_dset_ne.
      + discriminate.
  Qed.

  (* a key that the user gives: what the step of this key decides *)
  Lemma merge_entries_given nd : forall ref m k v,
      NoDup (keys nd) -> In (k, v) nd -> me nd ref = Done m ->
      match act (is_some (dget ref k)) (odict (dget ref k)) (is_dict v) with
      | MSet => dget m k = Some v
      | MRec => exists rd rd', dget ref k = Some (JDict rd) /\ rec v rd = Done rd' /\ dget m k = Some (JDict rd')
      | MErr => False
      end.
  Proof.
    induction nd as [|[k0 v0] t IH]; simpl; intros ref m k v ND IN H; [tauto|].
    inversion ND as [|? ? NI ND']; subst.
    destruct IN as [E|IN].
    - inversion E; subst k0 v0. clear E.
      destruct (act _ _ _) eqn:A.
      + rewrite (merge_entries_other _ _ _ _ NI H). apply dget_dset_eq.
      + destruct (dget ref k) as [[| | | | | |rd]|] eqn:G; try discriminate.
        destruct (rec v rd) as [rd'| | |] eqn:R; try discriminate.
        exists rd, rd'. repeat split; auto.
        rewrite (merge_entries_other _ _ _ _ NI H). apply dget_dset_eq.
      + discriminate.
    - assert (NE : k0 <> k).
      { intros ->. apply NI. unfold keys. change k with (fst (k, v)). now apply in_map. }
      destruct (act (is_some (dget ref k0)) _ _) eqn:A0.
      + specialize (IH _ _ _ _ ND' IN H). rewrite (dget_dset_ne _ _ _ _ NE) in IH. exact IH.
      + destruct (dget ref k0) as [[| | | | | |rd]|] eqn:G; try discriminate.
        destruct (rec v0 rd) as [rd'| | |] eqn:R; try discriminate.
        specialize (IH _ _ _ _ ND' IN H). rewrite (dget_dset_ne _ _ _ _ NE) in IH. exact IH.
      + discriminate.
  Qed.

  (* when every step is a no-op the dictionary is returned as it is *)
  Definition noop_step (m : dict) (kv : string * jv) : Prop :=
    match act (is_some (dget m (fst kv))) (odict (dget m (fst kv))) (is_dict (snd kv)) with
    | MSet => dget m (fst kv) = Some (snd kv)
    | MRec => exists rd, dget m (fst kv) = Some (JDict rd) /\ rec (snd kv) rd = Done rd
    | MErr => False
    end.
  Lemma merge_entries_noop nd m : Forall (noop_step m) nd -> me nd m = Done m.
  Proof.
    induction nd as [|[k v] t IH]; simpl; intros F; auto.
    inversion F as [|? ? N F']; subst. unfold noop_step in N; simpl in N.
    destruct (act _ _ _).
    - rewrite (dset_same _ _ _ N). auto.
    - destruct N as (rd & G & R). rewrite G, R. rewrite (dset_same _ _ _ G). auto.
    - tauto.
  Qed.
End EntriesFacts.

(* ---------------------------------------------------------------------- the update rule of today's source (merge_act) *)
Lemma mergev_dict nd ref : mergev (JDict nd) ref = merge_entries merge_act mergev nd ref.
Proof. reflexivity. Qed.

Lemma mergev_done_is_dict v ref m : mergev v ref = Done m -> exists nd, v = JDict nd.
Proof. destruct v; simpl; try discriminate. eauto. Qed.

(* the complete characterisation of the update (dictionaries have distinct keys, as python's have):
   keys not given keep their default; every explicit key wins, except that a dictionary given for a key whose default is
   a dictionary UPDATES the default one, by the same rule *)
Theorem merge_spec d kw m :
  NoDup (keys kw) -> merge d kw = Done m ->
  (forall k, ~ In k (keys kw) -> dget m k = dget d k) /\
  (forall k v, In (k, v) kw ->
     match dget d k with
     | Some (JDict dd) => exists kk mm, v = JDict kk /\ merge dd kk = Done mm /\ dget m k = Some (JDict mm)
     | _ => dget m k = Some v
     end).
Proof.
  intros ND H. unfold merge in H. rewrite mergev_dict in H. split.
  - intros k NI. eapply merge_entries_other; eauto.
  - intros k v IN. pose proof (merge_entries_given _ _ _ _ _ _ _ ND IN H) as G.
    unfold merge_act in G.
    destruct (dget d k) as [x|] eqn:E; simpl in G; auto.
    destruct x; simpl in G; auto.
    destruct (is_dict v) eqn:V; simpl in G; [|tauto].
    destruct G as (rd & rd' & G1 & G2 & G3). inversion G1; subst rd.
    destruct (mergev_done_is_dict _ _ _ G2) as (kk & ->).
    exists kk, rd'. auto.
Qed.

Corollary explicit_key_wins d kw m k v :
  NoDup (keys kw) -> merge d kw = Done m -> In (k, v) kw -> odict (dget d k) = false -> dget m k = Some v.
Proof.
  intros ND H IN O. destruct (merge_spec _ _ _ ND H) as (_ & S). specialize (S _ _ IN).
  destruct (dget d k) as [[]|]; simpl in O; auto; discriminate.
Qed.

Corollary default_key_kept d kw m k :
  NoDup (keys kw) -> merge d kw = Done m -> ~ In k (keys kw) -> dget m k = dget d k.
Proof. intros ND H. apply (merge_spec _ _ _ ND H). Qed.

Corollary nested_key_updates d kw m k dd kk :
  NoDup (keys kw) -> merge d kw = Done m -> In (k, JDict kk) kw -> dget d k = Some (JDict dd) ->
  exists mm, merge dd kk = Done mm /\ dget m k = Some (JDict mm).
Proof.
  intros ND H IN G. destruct (merge_spec _ _ _ ND H) as (_ & S). specialize (S _ _ IN). rewrite G in S.
  destruct S as (kk' & mm & E & M & R). inversion E; subst. eauto.
Qed.

(* a non-dictionary given where the default is a dictionary is refused *)
Lemma merge_refuses_atom_for_dict d kw m k v dd :
  NoDup (keys kw) -> In (k, v) kw -> dget d k = Some (JDict dd) -> is_dict v = false -> merge d kw <> Done m.
Proof.
  intros ND IN G V H. destruct (merge_spec _ _ _ ND H) as (_ & S). specialize (S _ _ IN). rewrite G in S.
  destruct S as (kk & _ & -> & _). discriminate.
Qed.

(* ---------------------------------------------------------------------- idempotence of the update *)
(* every dictionary inside a value has distinct keys *)
Fixpoint wf (v : jv) : Prop :=
  match v with
  | JDict d => NoDup (keys d) /\ (fix all (d : dict) : Prop := match d with [] => True | (_, x) :: t => wf x /\ all t end) d
  | _ => True
  end.
Lemma wf_dict d : wf (JDict d) <-> NoDup (keys d) /\ Forall (fun kv => wf (snd kv)) d.
Proof.
  simpl. split; intros (A & B); split; auto.
  - induction d as [|[k x] t IH]; constructor; simpl in *; try tauto.
    apply IH; try tauto. now inversion A.
  - induction d as [|[k x] t IH]; simpl; auto. inversion B; subst. split; auto. apply IH; auto. now inversion A.
Qed.

(* merging a well-formed dictionary into itself changes nothing *)
Lemma merge_self : forall v, wf v -> forall d, v = JDict d -> mergev v d = Done d.
Proof.
  intros v. induction v as [v A|d IH] using jv_dict_ind; intros W d0 E; [subst; discriminate|].
  inversion E; subst d0. rewrite mergev_dict. apply merge_entries_noop.
  apply wf_dict in W. destruct W as (ND & WF).
  rewrite Forall_forall in *. intros [k x] IN. unfold noop_step; simpl.
  rewrite (dget_in_nodup _ _ _ ND IN). simpl. unfold merge_act; simpl.
  destruct x; simpl; auto.
  exists d0. split; auto. apply (IH _ IN); auto; apply (WF _ IN).
Qed.

Lemma noop_same m k v : wf v -> dget m k = Some v -> noop_step merge_act mergev m (k, v).
Proof.
  intros W G. unfold noop_step; simpl. rewrite G. unfold merge_act.
  destruct v; simpl; auto.
  exists d. split; auto. exact (merge_self (JDict d) W d eq_refl).
Qed.

(* giving the same keyword arguments a second time changes nothing *)
Lemma merge_idem_v : forall v, wf v -> forall d m, mergev v d = Done m -> mergev v m = Done m.
Proof.
  intros v. induction v as [v A|kw IH] using jv_dict_ind; intros W d m H.
  - destruct v; simpl in *; discriminate.
  - apply wf_dict in W. destruct W as (ND & WF).
    rewrite mergev_dict. apply merge_entries_noop.
    destruct (merge_spec d kw m ND H) as (_ & S).
    rewrite Forall_forall in *. intros [k v] IN.
    specialize (S _ _ IN). pose proof (WF _ IN) as Wv. simpl in Wv.
    destruct (dget d k) as [x|] eqn:G; [|now apply noop_same].
    destruct x; try (now apply noop_same).
    destruct S as (kk & mm & -> & M & R). unfold noop_step; simpl. rewrite R. simpl.
    exists mm. split; auto. exact (IH _ IN Wv _ _ M).
Qed.

Theorem merge_idempotent d kw m : wf (JDict kw) -> merge d kw = Done m -> merge m kw = Done m.
Proof. intros W H. exact (merge_idem_v _ W _ _ H). Qed.

(* ---------------------------------------------------------------------- heap level *)
Lemma hget_in o k v : hget o k = Some v -> In (k, v) o.
Proof.
  induction o as [|[k' v'] t IH]; simpl; [discriminate|].
  destruct (String.eqb k k') eqn:E; intros H.
  - inversion H; subst. apply String.eqb_eq in E; subst. auto.
  - auto.
Qed.

Lemma hset_in o k v k' b : In (k', HR b) (hset o k v) -> In (k', HR b) o \/ v = HR b.
Proof.
  induction o as [|[k0 v0] t IH]; simpl.
  - intros [H|[]]. inversion H; auto.
  - destruct (String.eqb k k0); simpl; intros [H|H]; auto.
    + inversion H; auto.
    + destruct (IH H); auto.
Qed.

Lemma length_hupd h a o : List.length (hupd h a o) = List.length h.
Proof. revert a; induction h as [|x t IH]; intros [|a]; simpl; auto. Qed.
Lemma nth_hupd_eq h a o : a < List.length h -> nth_error (hupd h a o) a = Some o.
Proof. revert a; induction h as [|x t IH]; intros [|a]; simpl; intros; try lia; auto. apply IH. lia. Qed.
Lemma nth_hupd_ne h a o j : j <> a -> nth_error (hupd h a o) j = nth_error h j.
Proof. revert a j; induction h as [|x t IH]; intros [|a] [|j]; simpl; intros; auto; try congruence. Qed.

(* allocation only appends, and the new objects point into the new region only *)
Definition refs_in (lo hi : nat) (o : hobj) : Prop := forall k b, In (k, HR b) o -> lo <= b < hi.
Definition hv_in (lo hi : nat) (v : hval) : Prop := match v with HR b => lo <= b < hi | HA _ => True end.

Definition alloc_ok (v : jv) : Prop :=
  forall h h' hv, halloc v h = (h', hv) ->
    exists ext, h' = (h ++ ext)%list /\ Forall (refs_in (List.length h) (List.length h')) ext
                /\ hv_in (List.length h) (List.length h') hv.

Lemma refs_in_mono lo hi lo' hi' o : lo' <= lo -> hi <= hi' -> refs_in lo hi o -> refs_in lo' hi' o.
Proof. intros A B R k b I. specialize (R k b I). lia. Qed.

Lemma alloc_entries_ok d :
  Forall (fun kv => alloc_ok (snd kv)) d ->
  forall h h' es, alloc_entries halloc d h = (h', es) ->
    exists ext, h' = (h ++ ext)%list /\ Forall (refs_in (List.length h) (List.length h')) ext
                /\ refs_in (List.length h) (List.length h') es.
Proof.
  induction d as [|[k x] t IH]; simpl; intros F h h' es H.
  - inversion H; subst. exists []. rewrite app_nil_r. split; [reflexivity|]. split; [constructor|]. intros ? ? [].
  - inversion F as [|? ? Fx Ft]; subst. simpl in Fx.
    destruct (halloc x h) as [h1 hv] eqn:E1. destruct (alloc_entries halloc t h1) as [h2 es'] eqn:E2.
    inversion H; subst h' es. clear H.
    destruct (Fx _ _ _ E1) as (e1 & -> & F1 & V1).
    destruct (IH Ft _ _ _ E2) as (e2 & -> & F2 & R2).
    exists (e1 ++ e2)%list. rewrite app_assoc. split; [reflexivity|]. split.
    + rewrite !app_length in *. apply Forall_app. split.
      * eapply Forall_impl; [|exact F1]. intros o. apply refs_in_mono; lia.
      * eapply Forall_impl; [|exact F2]. intros o. apply refs_in_mono; lia.
    + rewrite !app_length in *. intros k' b0 [I|I].
      * inversion I; subst. simpl in V1. lia.
      * specialize (R2 _ _ I). lia.
Qed.

Lemma halloc_ok : forall v, alloc_ok v.
Proof.
  intros v. induction v as [v A|d IH] using jv_dict_ind; intros h h' hv H.
  - destruct v; simpl in *; try discriminate; inversion H; subst; exists []; rewrite app_nil_r; (split; [reflexivity|split; [constructor|exact I]]).
  - simpl in H. destruct (alloc_entries halloc d h) as [h1 es] eqn:E. inversion H; subst h' hv. clear H.
    destruct (alloc_entries_ok d IH _ _ _ E) as (ext & -> & F & R).
    exists (ext ++ [es])%list. rewrite app_assoc. split; [reflexivity|]. split.
    + rewrite !app_length in *; simpl. apply Forall_app. split.
      * eapply Forall_impl; [|exact F]. intros o. apply refs_in_mono; lia.
      * constructor; auto. eapply refs_in_mono; [| |exact R]; lia.
    + simpl. rewrite !app_length; simpl. lia.
Qed.

(* while the algorithm writes through ITS dictionary: the objects below n0 are those of h0; the objects from n0 on point
   to objects from n0 on *)
Definition region_inv (n0 : nat) (h0 h : heap) : Prop :=
  n0 <= List.length h /\
  (forall j, j < n0 -> nth_error h j = nth_error h0 j) /\
  (forall j o, n0 <= j -> nth_error h j = Some o -> refs_in n0 (List.length h) o).

Lemma hfollow_region n0 h0 h : region_inv n0 h0 h ->
  forall path f a b, n0 <= a < List.length h -> hfollow f h a path = Some b -> n0 <= b < List.length h.
Proof.
  intros (L & Old & New). induction path as [|p t IH]; simpl; intros f a b A H.
  - inversion H; subst; auto.
  - destruct f; [discriminate|]. destruct (nth_error h a) as [o|] eqn:E; [|discriminate].
    destruct (hget o p) as [[x|c]|] eqn:G; try discriminate.
    apply hget_in in G. apply (IH f c b); auto. apply (New a o (proj1 A) E p c G).
Qed.

Lemma do_hwrite_inv n0 h0 h root w :
  region_inv n0 h0 h -> hv_in n0 (List.length h) root -> region_inv n0 h0 (do_hwrite root h w).
Proof.
  intros I R. destruct root as [x|a]; simpl; auto. simpl in R.
  destruct (hfollow _ h a (w_path w)) as [b|] eqn:F; auto.
  destruct (nth_error h b) as [o|] eqn:E; auto.
  pose proof (hfollow_region _ _ _ I _ _ _ _ R F) as B.
  destruct (halloc (w_val w) h) as [h1 hv] eqn:A.
  destruct (halloc_ok _ _ _ _ A) as (ext & -> & Fx & V).
  destruct I as (L & Old & New).
  unfold region_inv. rewrite length_hupd, app_length in *. split; [lia|]. split.
  - intros j J. rewrite nth_hupd_ne by lia. rewrite nth_error_app1 by lia. auto.
  - intros j o' J H. destruct (Nat.eq_dec j b) as [->|NE].
    + rewrite nth_hupd_eq in H by (rewrite app_length; lia). inversion H; subst o'.
      intros k c IN. apply hset_in in IN. destruct IN as [IN| ->].
      * specialize (New b o (proj1 B) E k c IN). lia.
      * simpl in V. lia.
    + rewrite nth_hupd_ne in H by auto.
      destruct (lt_dec j (List.length h)) as [Lt|Ge].
      * rewrite nth_error_app1 in H by auto. specialize (New j o' J H).
        eapply refs_in_mono; [| |exact New]; lia.
      * rewrite nth_error_app2 in H by lia. apply nth_error_In in H.
        rewrite Forall_forall in Fx. specialize (Fx _ H). eapply refs_in_mono; [| |exact Fx]; lia.
Qed.

Lemma do_hwrites_inv n0 h0 root ws : forall h,
  region_inv n0 h0 h -> hv_in n0 (List.length h) root ->
  region_inv n0 h0 (do_hwrites root h ws) /\ List.length h <= List.length (do_hwrites root h ws).
Proof.
  unfold do_hwrites. induction ws as [|w t IH]; simpl; intros h I R; [split; auto|].
  pose proof (do_hwrite_inv _ _ _ _ w I R) as I'.
  assert (Len : List.length h <= List.length (do_hwrite root h w)).
  { destruct root as [x|a]; simpl; auto.
    destruct (hfollow _ h a (w_path w)); auto. destruct (nth_error h _); auto.
    destruct (halloc (w_val w) h) as [hh1 hv] eqn:A. destruct (halloc_ok _ _ _ _ A) as (ext & -> & _).
    rewrite length_hupd, app_length. lia. }
  destruct (IH _ I') as (I2 & L2).
  { destruct root; simpl in *; auto. lia. }
  split; auto. lia.
Qed.

Lemma view_entries_ext (r1 r2 : hval -> option jv) o :
  (forall k x, In (k, x) o -> r1 x = r2 x) -> view_entries r1 o = view_entries r2 o.
Proof.
  induction o as [|[k x] t IH]; simpl; intros H; auto.
  rewrite (H k x (or_introl eq_refl)), IH; auto. intros k' x' I'; apply (H k' x'); right; exact I'.
Qed.

(* what is seen from an old value only depends on the old objects *)
Lemma hview_frame h0 h : closed h0 ->
  (forall j, j < List.length h0 -> nth_error h j = nth_error h0 j) ->
  forall f v, hval_in h0 v -> hview f h v = hview f h0 v.
Proof.
  intros C Old. induction f as [|f IH]; intros [x|a] V; simpl; auto.
  simpl in V. rewrite (Old a V).
  destruct (nth_error h0 a) as [o|] eqn:E; auto.
  rewrite (view_entries_ext (hview f h) (hview f h0) o); auto.
  intros k [y|b] IN; [destruct f; reflexivity|].
  apply IH. simpl. exact (C a o E k b IN).
Qed.

Lemma deepcopy_region f h s h1 r1 :
  hdeepcopy f h s = Some (h1, r1) -> region_inv (List.length h) h h1 /\ hv_in (List.length h) (List.length h1) r1.
Proof.
  unfold hdeepcopy. destruct (hview f h s) as [t|]; [|discriminate]. intros H. inversion H as [A]. clear H.
  destruct (halloc_ok _ _ _ _ A) as (ext & -> & F & V). split; auto.
  unfold region_inv. rewrite app_length in *. split; [lia|]. split.
  - intros j J. now rewrite nth_error_app1.
  - intros j o J H. rewrite nth_error_app2 in H by lia. apply nth_error_In in H.
    rewrite Forall_forall in F. exact (F _ H).
Qed.

(* THE statement for the caller's settings: whatever the algorithm writes into its deep copy, whatever the depth, what
   the caller sees from ANY of their values (the parameters, a nested dictionary of theirs) is what it was *)
Theorem deepcopy_isolates f h s h1 r1 ws :
  closed h -> hdeepcopy f h s = Some (h1, r1) ->
  forall g v, hval_in h v -> hview g (do_hwrites r1 h1 ws) v = hview g h v.
Proof.
  intros C D g v V. destruct (deepcopy_region _ _ _ _ _ D) as (I & R).
  destruct (do_hwrites_inv _ _ _ ws _ I R) as ((_ & Old & _) & _).
  apply hview_frame; auto.
Qed.

(* hence a second algorithm built from the same settings object, after the first one has run, copies the same tree *)
Theorem second_algorithm_same_view f h s h1 r1 ws t :
  closed h -> hval_in h s -> hview f h s = Some t -> hdeepcopy f h s = Some (h1, r1) ->
  hdeepcopy f (do_hwrites r1 h1 ws) s = Some (halloc t (do_hwrites r1 h1 ws)).
Proof.
  intros C V T D. unfold hdeepcopy at 1. rewrite (deepcopy_isolates _ _ _ _ _ ws C D f s V), T. reflexivity.
Qed.

(* ---------------------------------------------------------------------- the heap-level update: it assigns only into the
   objects it logs (any table).  What is NOT proved in general: that the logged objects are the freshly parsed defaults
   (it needs: distinct keys, and the default tree not shared) - evaluated on every recorded construction instead. *)
Section HMergeFrame.
  Variable act : bool -> bool -> bool -> mact.
  Definition frame_ok (r : option (heap * list addr)) (h : heap) (log0 : list addr) : Prop :=
    match r with
    | Some (h', log) => List.length h' = List.length h /\ incl log0 log /\ forall a, ~ In a log -> nth_error h' a = nth_error h a
    | None => True
    end.

  Lemma hmerge_entries_frame rec ra :
    (forall h rb nb, frame_ok (rec h rb nb) h []) ->
    forall nd h log0, frame_ok (hmerge_entries act rec ra nd h log0) h log0.
  Proof.
    intros R. induction nd as [|[k v] t IH]; simpl; intros h log0.
    - split; [reflexivity|]. split; [apply incl_refl|]. auto.
    - destruct (nth_error h ra) as [rd|] eqn:E; simpl; auto.
      destruct (act _ _ _).
      + specialize (IH (hupd h ra (hset rd k v)) (ra :: log0)).
        destruct (hmerge_entries act rec ra t _ _) as [[h' log]|]; simpl in *; auto.
        destruct IH as (L & I & F). rewrite length_hupd in L. split; auto. split.
        * intros x Hx. apply I. right; auto.
        * intros a NA. rewrite (F a NA). apply nth_hupd_ne. intros ->. apply NA, I. left; auto.
      + destruct (hget rd k) as [[x|rb]|]; simpl; auto. destruct v as [x|nb]; simpl; auto.
        pose proof (R h rb nb) as Rr. destruct (rec h rb nb) as [[h1 log1]|]; simpl in *; auto.
        specialize (IH h1 (log1 ++ log0)%list).
        destruct (hmerge_entries act rec ra t _ _) as [[h' log]|]; simpl in *; auto.
        destruct Rr as (L1 & _ & F1). destruct IH as (L & I & F). split; [congruence|]. split.
        * intros x Hx. apply I. apply in_or_app. right; auto.
        * intros a NA. rewrite (F a NA). apply F1. intros Hx. apply NA, I. apply in_or_app. left; auto.
      + simpl. auto.
  Qed.

  Theorem hmerge_frame : forall f h ra na, frame_ok (hmerge_with act f h ra na) h [].
  Proof.
    induction f as [|f IH]; simpl; intros h ra na; auto.
    destruct (nth_error h na) as [nd|]; simpl; auto.
    apply hmerge_entries_frame. intros h0 rb nb. apply IH.
  Qed.
End HMergeFrame.

(* ---------------------------------------------------------------------- corollaries for the iteration counts (C05, C19) *)
Local Open Scope string_scope.
(* an explicit `n_burn_in_iter` is what the sampling algorithms keep: the fraction does not overwrite it *)
Theorem explicit_burn_in_kept d kw p v :
  NoDup (keys kw) -> merge d kw = Done p -> In ("n_burn_in_iter", v) kw -> v <> JNull -> is_dict v = false ->
  is_some (dget p "n_burn_in_iter_frac") = true ->
  burn_in_write p = Done p /\ explicit_count p "n_burn_in_iter" = Some v.
Proof.
  intros ND M IN NN V F.
  assert (G : dget p "n_burn_in_iter" = Some v).
  { destruct (merge_spec _ _ _ ND M) as (_ & S). specialize (S _ _ IN).
    destruct (dget d "n_burn_in_iter") as [[]|]; auto.
    destruct S as (kk & _ & -> & _). discriminate. }
  unfold burn_in_write, explicit_count. rewrite G.
  destruct (dget p "n_burn_in_iter_frac"); [|discriminate].
  destruct v; try congruence; auto.
Qed.

(* without it (and with the default fraction untouched) the count is int(fraction * n_iter) of the DEFAULT fraction *)
Theorem default_burn_in_fraction d kw p fr n :
  NoDup (keys kw) -> merge d kw = Done p ->
  ~ In "n_burn_in_iter" (keys kw) -> ~ In "n_burn_in_iter_frac" (keys kw) ->
  dget d "n_burn_in_iter" = Some JNull -> dget d "n_burn_in_iter_frac" = Some fr -> fr <> JNull ->
  dget p "n_iter" = Some n ->
  burn_in_write p = obind (int_of_frac fr n) (fun z => Done (dset p "n_burn_in_iter" (JInt z))).
Proof.
  intros ND M N1 N2 D1 D2 NN Gn.
  unfold burn_in_write, explicit_count.
  rewrite (default_key_kept _ _ _ _ ND M N1), (default_key_kept _ _ _ _ ND M N2), D1, D2, Gn.
  destruct fr; congruence.
Qed.

(* `annealing={"n_iter": z, ...}`: the nested count is the explicit one, the annealing keys not given keep their defaults *)
Theorem explicit_annealing_count d kw p dd kk v :
  NoDup (keys kw) -> NoDup (keys kk) -> merge d kw = Done p ->
  In ("annealing", JDict kk) kw -> dget d "annealing" = Some (JDict dd) ->
  In ("n_iter", v) kk -> v <> JNull -> odict (dget dd "n_iter") = false ->
  exists mm, dget p "annealing" = Some (JDict mm) /\ explicit_count mm "n_iter" = Some v
             /\ forall k, ~ In k (keys kk) -> dget mm k = dget dd k.
Proof.
  intros ND NDk M IN G INk NN O.
  destruct (nested_key_updates _ _ _ _ _ _ ND M IN G) as (mm & Mm & Gm).
  exists mm. split; auto. split.
  - unfold explicit_count. rewrite (explicit_key_wins _ _ _ _ _ NDk Mm INk O). destruct v; congruence.
  - intros k NI. apply (default_key_kept _ _ _ _ NDk Mm NI).
Qed.
